#!/usr/bin/env python3
"""Rewrites lean/required_theorems.json: for every property the theorems that must exist (by
short name) = all `theorem` declarations of lean/Lattigo/Props/Cxx*.lean (+ the 38 lane specs
for C01). Run by the lead when a Props file changes; the check refuses if one disappears."""
import glob, json, os, re
ROOT = os.path.dirname(os.path.dirname(os.path.abspath(__file__)))
req = {}
for f in sorted(glob.glob(os.path.join(ROOT, "lean/Lattigo/Props/C*.lean"))):
    pid = os.path.basename(f)[:3]
    names = re.findall(r"^\s*(?:protected\s+)?theorem\s+([A-Za-z_][^\s:({\[]*)", open(f, encoding="utf-8").read(), re.M)
    req.setdefault(pid, set()).update(n.split(".")[-1] for n in names)
k = os.path.join(ROOT, "lean/Lattigo/Proofs/Kernels.lean")
if os.path.exists(k):
    req.setdefault("C01", set()).update(re.findall(r"^theorem (\w+_lane_spec)", open(k).read(), re.M))
json.dump({p: sorted(v) for p, v in sorted(req.items())}, open(os.path.join(ROOT, "lean/required_theorems.json"), "w"), indent=1)
print({p: len(v) for p, v in sorted(req.items())})
