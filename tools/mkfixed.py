#!/usr/bin/env python3
"""Rewrites the 'fixed' list of known_findings.json from /repo's `fix:` commits: each commit whose
subject equals the '# fix: …' title of a patch under fixes/ is attributed to that patch's property;
hand-written entries (commits made directly by the lead) are kept from fixed_manual.json."""
import glob, json, os, re, subprocess
ROOT = os.path.dirname(os.path.dirname(os.path.abspath(__file__)))
log = subprocess.run(["git", "-C", "/repo", "log", "--format=%h\t%s"], stdout=subprocess.PIPE, text=True).stdout.strip().split("\n")
bysubj = {l.split("\t", 1)[1]: l.split("\t", 1)[0] for l in log if "\t" in l}
out = list(json.load(open(os.path.join(ROOT, "tools", "fixed_manual.json"))))
for f in sorted(glob.glob(os.path.join(ROOT, "fixes", "*.diff"))):
    lines = open(f).read().split("\n")
    title = lines[0].lstrip("#").strip()
    why = " ".join(l.lstrip("#").strip() for l in lines[1:6] if l.startswith("#"))
    prop = os.path.basename(f)[:3]
    sha = bysubj.get(title)
    if sha:
        out.append(f"fixed: property={prop} {sha} {title[5:].strip()} — {why[:400]} (patch fixes/{os.path.basename(f)})")
    else:
        print("not applied:", os.path.basename(f))
p = os.path.join(ROOT, "known_findings.json")
d = json.load(open(p))
d["fixed"] = out
json.dump(d, open(p, "w"), indent=1)
print(len(out), "fixed entries")
