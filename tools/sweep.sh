#!/bin/sh
# sweep.sh "<props>" "<seeds>" [tier] : runs the checks on the unchanged tree, prints one line per run
cd "$(dirname "$0")/.."
for p in $1; do for s in $2; do
  out=$(VERIF_SEED=$s ./check $p --tier ${3:-quick} 2>&1)
  rc=$?
  echo "$p seed=$s rc=$rc $(echo "$out" | grep -E 'VIOLATION' | head -3 | tr '\n' ' ') $(echo "$out" | tail -1)"
done; done
