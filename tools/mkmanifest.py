#!/usr/bin/env python3
"""Regenerates /verif/MANIFEST.json from the table below. A property is claimed only when its
Props module exists AND it is listed in CLAIMED (set by the lead after ./check passes)."""
import json
import os

ROOT = os.path.dirname(os.path.dirname(os.path.abspath(__file__)))

TIE = ("Trusted base: Lean 4.33 kernel (axioms propext, Classical.choice, Quot.sound only, audited per run; no sorry/native_decide), "
       "Mathlib lemmas, tools/go2lean + Lattigo/Word.lean (uint64 semantics), and the correspondence check "
       "(Go harness ⇄ Lean driver line protocol), which bounds what the hand-written model has been compared with. ")

P = {
 "C01": dict(
  technique="Lean 4 proof (regenerated word/lane/butterfly definitions via go2lean; hand model of NTT) + bit-exact correspondence incl. lazy limbs",
  text="Theorems about the REGENERATED Lean translation of ring/modular_reduction.go, the 38 lane kernels of ring/vec_ops.go and butterfly/invbutterfly (Montgomery/Barrett specs for every odd q with 2q ≤ 2^64, lane uniformity, range invariant of the lazy NTT needing exactly 8q ≤ 2^64, INTT∘NTT = id and multiplicativity on the recursive NTT model) re-checked against the current source on every run; the NTT/vector/automorphism models are tied to SubRing/Ring methods limb for limb (lazy outputs as stored).",
  note=TIE + "Hand-modelled: loop structure of the unrolled NTT (tied by correspondence for N=8…4096), generateNTTConstants given the primitive root, GenBRedConstant (math/big). Not modelled: unsafe window arithmetic, performance."),
 "C02": dict(
  technique="Lean 4 proof (integer-level CRT theorems) + limb-exact correspondence of Div*/ModUp/ModDown/Decompose",
  text="Integer-level theorems (floor/round division by the last modulus equals integer division, HPS base conversion exact/off-by-one under an explicit hypothesis on the float index v, ModDown error ≤ 1, digit recombination) about the model, and a limb-exact twin of ring/scaling.go and ring/basis_extension.go compared with the real code on boundary families.",
  note=TIE + "The IEEE computation of the correction index v is a named hypothesis of the theorems; the driver recomputes it with Lean Float and the tie fails if it ever differs."),
 "C03": dict(
  technique="Lean 4 proof (phase algebra over any commutative ring) + exact correspondence of ciphertexts from replayed sampler outputs",
  text="dec∘enc identities for sk/pk encryption (fresh noise IS the sampled error; pk variant with explicit rounding term), wrong-key identity, for every commutative ring; the generic model executed on canonical RNS polynomials reproduces real ciphertexts/public keys exactly from the sampled values obtained by replaying the real samplers on twin PRNG streams.",
  note=TIE + "Distributional statements (std, uniformity) are measured probes, labelled tests. The RNS/NTT implementation of the ring operations is C01's concern."),
 "C04": dict(
  technique="Lean 4 proof (gadget/key-switch phase algebra, digit recombination) + exact correspondence of keys and switched ciphertexts",
  text="Gadget rows encrypt P·g_ij·s_in, key-switch/relinearise/automorphism phase identities over any commutative ring, digit recombination under the hypothesis bitlen(q_i) ≤ w·n_i; keys and key-switched ciphertexts reproduced exactly from replayed sampler outputs for all key parameterisations explored.",
  note=TIE + "Noise bounds are explicit expressions; their tightness is measured."),
 "C05": dict(
  technique="Lean 4 proof (scale/level/degree bookkeeping and Z_t homomorphism on a register-machine model) + per-op correspondence",
  text="step_sound/program_sound on the BGV register-machine model (decoded value of every op = Z_t op on decoded operands; level/degree/scale as documented; error conditions), tied to the real evaluator op by op on random straight-line programs at the decoded-message + metadata level.",
  note=TIE + "The noise budget predicate is an explicit hypothesis; ciphertext-level correctness rests on C01–C04."),
 "C06": dict(
  technique="Lean 4 proof (exact scale/level algebra, phase identities) + per-op metadata correspondence; precision by measured probes",
  text="Exact dyadic model of scale and level propagation of every ckks.Evaluator op (big.Float rounding where lattigo applies it), phase-level semantics over a commutative ring; metadata reproduced exactly per op; decoded precision is a measured probe.",
  note=TIE + "PARTIAL: floating-point encode/decode and noise growth are outside the model (named in Props/C06)."),
 "C07": dict(
  technique="Lean 4 proof (integer encoder round trip on the NTT model; fixed-point round trip on exact rationals) + exact correspondence of encoded polynomials",
  text="decode(encode v) = v mod t on the model (given INTT∘NTT = id over Z_t, proved in C01) incl. signed range and zero fill; CKKS fixed-point conversion round-trip bound on exact rationals; encoded plaintext polynomials reproduced exactly (BGV) / on exactly representable inputs (CKKS).",
  note=TIE + "PARTIAL for CKKS: float64/big.Float FFT rounding is outside the model (measured probes)."),
 "C08": dict(
  technique="Lean 4 proof (codec combinators: size-exact, round-trip with exact consumption, truncation error, chunk independence by structural induction) + byte-exact correspondence and fault probes",
  text="For every format built from the combinators (hence every lattigo wire type): size exact, decode(encode v ++ rest) = (v, rest), every strict prefix fails, chunking irrelevant; real encodings are byte-identical to the model's; dirty receivers, chunked readers, back-to-back streams, every truncation offset, corrupted length fields and failing writers are probed on the real code.",
  note=TIE + "encoding/json, math/big text formats and bufio internals are not modelled (fixed-width blocks supplied by the harness)."),
 "C09": dict(
  technique="Lean 4 proof (store model of the pointer-identity branches: alias_sound) + snapshot/aliasing/history probes on all public methods",
  text="alias_sound on an imperative store model of the operations that branch on pointer identity; deep snapshots of all arguments, the four aliasing patterns and poisoned-history runs on the real public methods.",
  note=TIE + "PARTIAL: the store model covers the listed operations; the probes cover all public ones."),
 "C10": dict(
  technique="Lean 4 proof (ownership classification of copies, noninterference of disjoint-footprint agents) + reflection walk correspondence and differential probes",
  text="copy_config_eq / copy_owned_fresh / deep_copy_disjoint and a noninterference theorem (every interleaving equals the sequential runs when owned footprints are disjoint and shared state is read-only); the actual sharing structure of every copy constructor is extracted by reflection and must equal the model's table.",
  note=TIE + "PARTIAL — the Go memory model and data races cannot be exhibited by the model; what is proved is the ownership discipline, what is checked is that the code follows it."),
 "C11": dict(
  technique="Lean 4 proof (Galois-element group laws, inner-sum tree = sum of rotations, requested ⊆ advertised) + trace correspondence through a logging key set",
  text="galEl homomorphism, inverse and discrete log, innerSum/replicate/trace equal the documented sums for every (batch, n) by induction on the code's binary tree, requested elements ⊆ advertised; the real evaluators' requested-element traces equal the model's and decrypt to the sums.",
  note=TIE),
 "C12": dict(
  technique="Lean 4 proof (diagonal method and BSGS regrouping for every ratio; requested ⊆ advertised) + rotation-trace correspondence",
  text="Σ_d diag_d ⊙ rot_d v = M·v and the BSGS regrouping identity for every N1 and every diagonal set over an abstract slot algebra; the real evaluator's requested rotations equal the model's trace and results equal M·v (exactly for BGV).",
  note=TIE + "CKKS results within tolerance are measured probes."),
 "C13": dict(
  technique="Lean 4 proof (power basis, Paterson–Stockmeyer factorisation and recombination, depth) + op-trace correspondence",
  text="pb[n] = x^n / T_n(x), p = q·X^n + r, evalPS p = p(x) for every coefficient vector, depth and target scale bookkeeping; op traces of the real polynomial evaluator equal the model's.",
  note=TIE + "PARTIAL: composite circuits' approximation error is a measured probe."),
 "C14": dict(
  technique="Lean 4 proof (aggregation is order/grouping independent; aggregate = single-party key of Σ s_i) + exact share correspondence",
  text="Aggregation over any permutation/tree equal; cpk/evk/gal/relin aggregates are exactly single-party keys of the ideal secret with error Σ e_i (any commutative ring); shares and final keys reproduced exactly from replayed CRS/sampler outputs; all permutations for N ≤ 5.",
  note=TIE),
 "C15": dict(
  technique="Lean 4 proof (Lagrange reconstruction over Z_q for any t-subset in any order) + exact share correspondence, exhaustive subsets/orderings",
  text="Σ λ_i f(x_i) = f(0) for every prime modulus, threshold, polynomial and t distinct non-zero points, order independent; too few ⇒ error; real additive shares reproduced exactly; all subsets and orderings for N ≤ 6.",
  note=TIE),
 "C16": dict(
  technique="Lean 4 proof (collective key-switch / share-conversion phase identities) + exact share correspondence",
  text="phase(KeySwitch(ct, Σ shares), s_out) = phase(ct, s_in) + Σ e; Enc-to-share/share-to-enc identity; shares and outputs reproduced exactly; all aggregation orders.",
  note=TIE + "Smudging-noise magnitude is a measured probe."),
 "C17": dict(
  technique="Lean 4 proof (samplers as functions of the byte stream: range, RNS consistency, exact weight, counting lemma for rejection) + bit-exact correspondence on harness-chosen byte streams",
  text="uniform_range, accept-fibre counting, rns_consistent, ternary support/exact Hamming weight, Gaussian bound, read-and-add law, buffer-pointer invariant over call interleavings; outputs and bytes consumed reproduced bit-exactly incl. adversarial streams.",
  note=TIE + "PARTIAL: empirical mean/std are measured tests; BLAKE2b (distinct keys ⇒ unrelated streams) is outside any model; ziggurat slow path (libm) lines are counted inconclusive."),
 "C18": dict(
  technique="Lean 4 proof (key-inventory decision logic: sparse-protected keys only at level 0; required = generated elements) + key-level correspondence on real key bundles",
  text="encapsulation_confined and keys_exact on the model of the bootstrapping key generator and DFT rotation inventory; actual levels and Galois sets of generated key bundles equal the model's for default and reduced literals; which secret protects each key decided by decryption tests.",
  note=TIE + "PARTIAL: end-to-end precision is a measured probe on reduced parameters."),
 "C19": dict(
  technique="Lean 4 proof (accept/reject decision logic, prime generator spec, exported sets within the security table) + decision correspondence over literal space",
  text="accepted_sound (with the bound the code actually enforces), rejected_no_panic, genModuli_spec, exported_within_table by evaluation over the regenerated table of exported literals; accept/reject classes and generated primes equal the real constructors' over LogN, prime sizes 2..63, duplicates, composites, non-NTT-friendly values.",
  note=TIE + "That the tabulated bounds give 128-bit security is not provable here (spec/security_table.json records provenance)."),
 "C20": dict(
  technique="Lean 4 proof (external-product phase identity, RGSW homomorphisms, blind-rotation loop invariant) + exact correspondence of RGSW ciphertexts and external products",
  text="phase(ct ⊡ RGSW(g)) = g·phase(ct) + explicit noise; accumulator invariant of the blind rotation by induction over the loop; RGSW rows and external products reproduced exactly; look-up correctness probed on every grid point.",
  note=TIE),
}

# properties whose check passes on the unchanged tree (maintained by the lead)
CLAIMED = json.load(open(os.path.join(ROOT, "tools", "claimed.json")))

checks, na = [], []
for pid in sorted(P):
    props = os.path.join(ROOT, "lean", "Lattigo", "Props", pid + ".lean")
    if pid in CLAIMED and os.path.exists(props):
        d = P[pid]
        checks.append({
            "property_id": pid,
            "quick_cmd": f"./check {pid} --tier quick",
            "thorough_cmd": f"./check {pid} --tier thorough",
            "evidence_file": f"/verif/evidence/{pid}.json",
            "replay_cmd_template": f"./check {pid} --replay {{path}}",
            "engine": "lean4-proof+correspondence",
            "level_claimed": {"category": "proof", "text": d["text"], "design_ref": f"DESIGN.md §5.{int(pid[1:])}"},
            "level_note": d["note"],
            "technique": d["technique"],
        })
    else:
        na.append({"property_id": pid, "reason": "not claimed yet: the Lean model/theorems/correspondence for this property are still being built (technique applies; see DESIGN.md §5)"})

m = {
    "version": 1,
    "setup_cmd": "./setup.sh",
    "hooks": {"guard": "verif", "enable": "harness built with `go build -tags verif` against /repo's working tree (no hook in /repo is needed: crypto/rand.Reader is replaced inside the harness process)",
              "baseline_off_cmd": "cd /repo && go test -vet=off -count=1 -timeout 25m ./...",
              "source_commits": [], "add_only": True},
    "engines": [{"name": "lean4-proof+correspondence", "path": "/verif/check",
                 "serves_properties": [c["property_id"] for c in checks],
                 "kind_free_text": "Lean 4 theorems about a model of the code (part regenerated from the Go source by tools/go2lean on every run, part hand-written), tied to /repo by a differential correspondence check (Go harness calling the real code in-process, Lean driver executing the model, line-by-line diff) and direct property probes used to find replayable failing inputs"}],
    "checks": checks,
    "notes": "fix: commits in /repo and known findings are listed in /verif/known_findings.json; see DESIGN.md §7/§8.",
    "not_applicable": na,
}
json.dump(m, open(os.path.join(ROOT, "MANIFEST.json"), "w"), indent=1)
print(f"MANIFEST.json: {len(checks)} checks, {len(na)} not claimed")
