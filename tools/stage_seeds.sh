#!/bin/sh
# stage_seeds.sh <round-prefix> <ID>... : copies /var/tmp/seed-<ID>/OUT/m* to seeded/<ID>-<prefix>m*, removes the worktree, verifies each
cd "$(dirname "$0")/.."
pre=$1; shift
for id in "$@"; do
  for d in /var/tmp/seed-$id/OUT/m*; do
    m=$(basename $d); mkdir -p seeded/$id-$pre$m && cp $d/* seeded/$id-$pre$m/
  done
  git -C /repo worktree remove --force /var/tmp/seed-$id
  for d in seeded/$id-${pre}m*; do
    s=$(basename $d)
    echo "== $s $(python3 tools/seedverify.py $d $id 2>&1 | grep -E '"(clean_demo_passes|existing_tests_pass_with_patch|patched_demo_fails|detected|concrete_replay)"|VIOLATION' | tr '\n' ' ' | sed 's/"existing_tests_pass_with_patch"/ex/; s/"clean_demo_passes"/clean/; s/"patched_demo_fails"/demofails/' | cut -c1-330)"
  done
done
