#!/usr/bin/env python3
"""applyfix.py <fixes/NAME.diff>...  — applies each patch to /repo as ONE unguarded commit whose
message is taken from the leading '# ' comment lines of the patch file (first line = title
starting with 'fix:'). Stops at the first patch that does not apply."""
import subprocess
import sys

for path in sys.argv[1:]:
    lines = open(path).read().split("\n")
    head = []
    i = 0
    while i < len(lines) and lines[i].startswith("#"):
        head.append(lines[i].lstrip("#").strip())
        i += 1
    body = "\n".join(lines[i:])
    if not head or not head[0].startswith("fix:"):
        print(path, ": no '# fix: …' header")
        sys.exit(1)
    msg = head[0] + "\n\n" + "\n".join(head[1:])
    p = subprocess.run(["git", "-C", "/repo", "apply", "--whitespace=nowarn", "-"], input=body, text=True,
                       stdout=subprocess.PIPE, stderr=subprocess.STDOUT)
    if p.returncode != 0:
        print(path, ": does not apply:\n", p.stdout)
        sys.exit(1)
    subprocess.run(["git", "-C", "/repo", "commit", "-qam", msg], check=True)
    sha = subprocess.run(["git", "-C", "/repo", "rev-parse", "--short", "HEAD"], stdout=subprocess.PIPE, text=True).stdout.strip()
    print(sha, head[0])
