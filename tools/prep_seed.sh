#!/bin/sh
# prep_seed.sh <ID>... : creates /var/tmp/seed-<ID> worktree of /repo HEAD with PROPERTY.txt and ALREADY_DONE.txt
cd "$(dirname "$0")/.."
for id in "$@"; do
  git -C /repo worktree remove --force /var/tmp/seed-$id 2>/dev/null
  git -C /repo worktree add --detach /var/tmp/seed-$id HEAD >/dev/null 2>&1
  python3 - "$id" <<'P'
import json,sys,glob,os
pid=sys.argv[1]
for l in open('/verif/properties.jsonl'):
    p=json.loads(l)
    if p['id']==pid:
        open(f'/var/tmp/seed-{pid}/PROPERTY.txt','w').write(json.dumps(p,indent=1))
out=[]
for d in sorted(glob.glob(f'/verif/seeded/{pid}-*')):
    try: m=json.load(open(d+'/meta.json'))
    except Exception: continue
    out.append(f"- {os.path.basename(d)}: files={m.get('files')}: {str(m.get('what'))[:600]}")
open(f'/var/tmp/seed-{pid}/ALREADY_DONE.txt','w').write("\n".join(out)+"\n")
print(pid, len(out), "earlier mutations listed")
P
  mkdir -p /var/tmp/seed-$id/OUT
done
