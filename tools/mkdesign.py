#!/usr/bin/env python3
"""Rewrites the generated part of DESIGN.md (between the AUTOGEN markers): repaired defects, known
findings, and the table of seeded changes with which check catches which."""
import glob
import json
import os
import re

ROOT = os.path.dirname(os.path.dirname(os.path.abspath(__file__)))
kf = json.load(open(os.path.join(ROOT, "known_findings.json")))
out = []
out.append("### 8.3 Genuine defects found on the unchanged tree and repaired (`fix:` commits in /repo)\n")
out.append("Each was exhibited by a failing probe (or tie) on the real code first; the patch is in `/verif/fixes/`; the model\n"
           "follows the repaired code; the probe stays in the harness, so the violation is reported again if it returns.\n")
out.append("| property | commit | what failed |")
out.append("|---|---|---|")
for e in kf["fixed"]:
    m = re.match(r"fixed: property=(\S+) (\S+) (.*)", e)
    if m:
        txt = m.group(3).replace("|", "\\|")
        out.append(f"| {m.group(1)} | `{m.group(2)}` | {txt[:330]} |")
out.append("")
out.append("### 8.4 Known findings (genuine defects recorded, not repaired)\n")
out.append("Listed in `/verif/known_findings.json` by probe key; the check prints `KNOWN-FINDING:` for exactly these and exits 0;\n"
           "any other failing probe is a VIOLATION.\n")
out.append("| property | key | what fails / why not repaired |")
out.append("|---|---|---|")
for e in kf["findings"]:
    out.append(f"| {e['property']} | `{e['key']}` | {e['what'].replace('|', chr(92) + '|')} |")
out.append("")
out.append("### 8.5 Seeded changes (written by independent sub-agents that saw only the property text) and which check catches them\n")
out.append("Every change below was confirmed in a scratch worktree (`tools/seedverify.py`): its demonstration passes on the clean tree,\n"
           "the patched tree builds and passes the existing tests, the demonstration fails on the patched tree; then `./check` ran against it.\n")
out.append("| seed | property | what the change does / what it needs to manifest | caught by `./check` | with concrete replay | how |")
out.append("|---|---|---|---|---|---|")
for d in sorted(glob.glob(os.path.join(ROOT, "seeded", "*"))):
    name = os.path.basename(d)
    try:
        meta = json.load(open(os.path.join(d, "meta.json")))
    except Exception:
        meta = {}
    try:
        ver = json.load(open(os.path.join(d, "verified.json")))
    except Exception:
        ver = {}
    how = "; ".join(re.sub(r".*replay=/verif/replays/", "", l)[:90] for l in ver.get("check_violation_lines", [])[:2])
    what = (str(meta.get("what", "")) + " — needs: " + str(meta.get("needs", ""))).replace("|", "\\|").replace("\n", " ")
    out.append(f"| {name} | {ver.get('property', meta.get('property', ''))} | {what[:420]} | {'yes' if ver.get('detected') else ('superseded by fix ' + ver['superseded_by_fix'] if ver.get('superseded_by_fix') else ('STALE' if ver.get('stale') else 'NO'))} | "
               f"{'yes' if ver.get('concrete_replay') else 'no'} | {how} |")
out.append("")
out.append("### 8.6 Per-property as-built summaries (what is proved, under which hypotheses, what is only tied or probed)\n")
out.append("Each summary is written by the engineer owning the property (`design/Cxx.md`) and included verbatim.\n")
for f in sorted(glob.glob(os.path.join(ROOT, "design", "C[0-9][0-9].md"))):
    out.append(open(f, encoding="utf-8").read().rstrip() + "\n")
txt = "\n".join(out)
p = os.path.join(ROOT, "DESIGN.md")
s = open(p).read()
b, e = "<!-- AUTOGEN:BEGIN -->", "<!-- AUTOGEN:END -->"
if b not in s:
    s += f"\n{b}\n{e}\n"
s = s[:s.index(b) + len(b)] + "\n" + txt + "\n" + s[s.index(e):]
open(p, "w").write(s)
print("DESIGN.md tables regenerated:", len(kf["fixed"]), "fixed,", len(kf["findings"]), "known findings")
