#!/bin/sh
# reverify.sh <seed-dir-name>... : re-runs seedverify on the named seeds (property = first 3 chars), one line each
cd "$(dirname "$0")/.."
for d in "$@"; do
  p=$(echo $d | cut -c1-3)
  python3 tools/seedverify.py seeded/$d $p $REVERIFY_FLAGS 2>&1 | python3 -c "
import sys,json
t=sys.stdin.read()
try:
    j=json.loads(t[t.index('{'):t.rindex('}')+1])
except Exception as e:
    print('$d PARSE-ERROR', t[-300:]); sys.exit()
print('$d', 'stale' if j.get('stale') else '', 'applies=%s demofails=%s tests=%s detected=%s concrete=%s' % (j.get('patch_applies'), j.get('patched_demo_fails'), j.get('existing_tests_pass_with_patch'), j.get('detected'), j.get('concrete_replay')), [l[:100] for l in j.get('check_violation_lines',[])[:2]])"
done
