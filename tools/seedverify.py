#!/usr/bin/env python3
"""
seedverify.py <seed_dir> <PROP> [--full] [--tier quick|thorough]

Confirms a seeded change (patch.diff + demo_test.go [+ meta.json]) in a scratch worktree of /repo
outside /repo and /verif, then runs ./check PROP against it:
  1. clean worktree + demo            -> demo passes
  2. patched worktree: go build, existing tests of the touched packages (--full: whole suite) pass
  3. patched worktree + demo          -> a demo test fails
  4. VERIF_REPO=<worktree> ./check PROP -> expects exit 1 and a VIOLATION line
Writes <seed_dir>/verified.json. The worktree and its build output are removed afterwards.
"""
import json
import os
import re
import shutil
import subprocess
import sys

ROOT = os.path.dirname(os.path.dirname(os.path.abspath(__file__)))
ENV = dict(os.environ, GOFLAGS="-mod=mod", GOPROXY="off", GOSUMDB="off", GOTOOLCHAIN="local")


def sh(cmd, cwd=None, env=None, timeout=3600):
    p = subprocess.run(cmd, cwd=cwd, env=env or ENV, shell=isinstance(cmd, str), stdout=subprocess.PIPE,
                       stderr=subprocess.STDOUT, text=True, timeout=timeout)
    return p.returncode, p.stdout


def gotest(wt, pkgs, run=None):
    cmd = ["go", "test", "-count=1", "-vet=off", "-json", "-timeout", "25m"] + (["-run", run] if run else []) + pkgs
    rc, out = sh(cmd, cwd=wt)
    failed, passed = set(), set()
    for l in out.split("\n"):
        try:
            e = json.loads(l)
        except Exception:
            continue
        if e.get("Test") and e.get("Action") in ("fail", "pass"):
            (failed if e["Action"] == "fail" else passed).add(e["Test"].split("/")[0])
    return rc, failed, passed, out


def main():
    seed_dir, prop = os.path.abspath(sys.argv[1]), sys.argv[2]
    full = "--full" in sys.argv
    tier = "quick"
    if "--tier" in sys.argv:
        tier = sys.argv[sys.argv.index("--tier") + 1]
    name = re.sub(r"[^A-Za-z0-9]", "-", os.path.abspath(seed_dir).strip("/"))[-40:]
    wt = f"/var/tmp/sv-{name}"
    res = {"property": prop, "seed_dir": seed_dir}
    sh(["git", "-C", "/repo", "worktree", "remove", "--force", wt])
    rc, out = sh(["git", "-C", "/repo", "worktree", "add", "--detach", wt, "HEAD"])
    if rc != 0:
        print(out)
        sys.exit(2)
    try:
        patch = os.path.join(seed_dir, "patch.diff")
        demo = os.path.join(seed_dir, "demo_test.go")
        first = open(demo).readline()
        m = re.search(r"place in:\s*(\S+)", first)
        place = (m.group(1) if m else "").strip("/")
        demo_names = re.findall(r"^func (Test\w+)\(", open(demo).read(), re.M)
        demo_dst = os.path.join(wt, place, "zz_seed_demo_test.go")
        pkg = "./" + place + "/" if place else "./"
        touched = sorted({"./" + os.path.dirname(f) + "/" for f in re.findall(r"^\+\+\+ b/(\S+)", open(patch).read(), re.M)})
        runrx = "^(" + "|".join(demo_names) + ")$"
        check_only = "--check-only" in sys.argv
        prev = {}
        if check_only:
            try:
                prev = json.load(open(os.path.join(seed_dir, "verified.json")))
            except Exception:
                prev = {}
            for k in ("clean_demo_passes", "patched_builds", "existing_tests_pass_with_patch", "existing_tests_scope", "patched_demo_fails", "note", "superseded_by_fix"):
                if k in prev:
                    res[k] = prev[k]
            res["rechecked_check_only"] = True
        # 1. clean + demo
        if not check_only:
            shutil.copyfile(demo, demo_dst)
            rc, failed, passed, out = gotest(wt, [pkg], runrx)
            res["clean_demo_passes"] = rc == 0 and not failed and bool(passed)
            if not res["clean_demo_passes"]:
                res["clean_demo_output"] = out[-1500:]
            os.remove(demo_dst)
        # 2. patched: build + existing tests
        rc, out = sh(["git", "apply", patch], cwd=wt)
        if rc != 0:
            rc, out = sh(["git", "apply", "--3way", patch], cwd=wt)
            sh(["git", "reset", "-q"], cwd=wt)
        res["patch_applies"] = rc == 0
        if rc != 0:
            # the tree moved under the patch (a later fix: commit touched the same lines): nothing below is meaningful
            res["stale"] = True
            res["detected"] = False
            res["concrete_replay"] = False
            json.dump(res, open(os.path.join(seed_dir, "verified.json"), "w"), indent=1)
            print(json.dumps(res, indent=1))
            print("STALE: patch no longer applies to /repo HEAD; rebase it by hand")
            return
        if not check_only:
            rc, out = sh(["go", "build", "./..."], cwd=wt)
            res["patched_builds"] = rc == 0
            pk = ["./..."] if full else sorted(set(touched + [pkg]))
            rc, failed, passed, out = gotest(wt, pk)
            res["existing_tests_pass_with_patch"] = rc == 0 and not failed
            res["existing_tests_scope"] = pk
            if failed:
                res["existing_failed"] = sorted(failed)
            # 3. patched + demo
            shutil.copyfile(demo, demo_dst)
            rc, failed, passed, out = gotest(wt, [pkg], runrx)
            res["patched_demo_fails"] = bool(failed & set(demo_names)) or (rc != 0 and not passed)
            os.remove(demo_dst)
        # 4. the check
        env = dict(os.environ, VERIF_REPO=wt, VERIF_TIER=tier)
        p = subprocess.run([os.path.join(ROOT, "check"), prop, "--tier", tier], cwd=ROOT, env=env, stdout=subprocess.PIPE,
                           stderr=subprocess.STDOUT, text=True, timeout=7200)
        res["check_exit"] = p.returncode
        res["check_violation_lines"] = [l for l in p.stdout.split("\n") if l.startswith("VIOLATION")][:5]
        res["check_tail"] = p.stdout.strip().split("\n")[-6:]
        res["detected"] = p.returncode == 1 and bool(res["check_violation_lines"])
        res["concrete_replay"] = any("no-failing-input-found" not in l for l in res["check_violation_lines"])
    finally:
        sh(["git", "-C", "/repo", "worktree", "remove", "--force", wt])
        shutil.rmtree(wt, ignore_errors=True)
        # restore Gen/ for the real repository
    json.dump(res, open(os.path.join(seed_dir, "verified.json"), "w"), indent=1)
    print(json.dumps({k: v for k, v in res.items() if k not in ("check_tail",)}, indent=1))
    # every scratch worktree path leaves its own entries in the Go build cache: keep it bounded
    try:
        rc, out = sh("du -sm /root/.cache/go-build 2>/dev/null | cut -f1")
        if rc == 0 and out.strip().isdigit() and int(out.strip()) > 30000:
            sh(["go", "clean", "-cache"])
    except Exception:
        pass


if __name__ == "__main__":
    main()
