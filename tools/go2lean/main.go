// go2lean: a deliberately dumb printer of a tiny subset of Go (uint64 straight-line
// code, bits.Mul64/Add64, `if` with assignments or early return, constant-bound `for`,
// the 8-lane window kernels of ring/vec_ops.go, the one-call SubRing wrappers of
// ring/subring_ops.go, and the "tabulate" loop of ring.AutomorphismNTTIndex) into Lean 4
// definitions over the word primitives of Lattigo/Word.lean.  It carries NO semantics of its own: each Go
// operator is printed as the application of one Lean primitive.  On any construct
// outside the subset it refuses (exit 2), so it can never silently mistranslate.
//
// A second, "typed" mode (typed.go, typed_main.go; its subset is documented at the top of typed.go)
// prints Go `int`/`uint64` code with general `for` loops (fuel-bounded `loopWhile`), early return in
// loops, receiver getters as explicit parameters and the per-modulus bodies of ring/scalar.go:
// Gen/Galois.lean (property C11) and Gen/Scalar.lean (property C15).
//
// usage: go2lean -repo /repo -out <dir>      |      go2lean -selftest file.go   (typed mode, to stdout)
package main

import (
	"crypto/sha256"
	"encoding/json"
	"flag"
	"fmt"
	"go/ast"
	"go/parser"
	"go/token"
	"os"
	"path/filepath"
	"sort"
	"strconv"
	"strings"
)

type refusal struct{ msg string }

func refuse(format string, a ...interface{}) {
	panic(refusal{fmt.Sprintf(format, a...)})
}

var fset = token.NewFileSet()

func pos(n ast.Node) string { return fset.Position(n.Pos()).String() }

var leanReserved = map[string]bool{"at": true, "from": true, "fun": true, "show": true, "have": true, "let": true, "in": true, "if": true, "then": true, "else": true, "do": true, "end": true, "def": true, "theorem": true, "by": true, "with": true, "match": true, "open": true, "where": true, "instance": true, "class": true, "structure": true, "deriving": true, "import": true, "namespace": true, "section": true, "variable": true, "universe": true, "Type": true, "Prop": true, "Sort": true, "mut": true, "for": true, "return": true, "W": true}

func ident(s string) string {
	if leanReserved[s] {
		return s + "_"
	}
	return s
}

// ---- translation context ----

type fnInfo struct {
	name     string
	nresults int
}

type ctx struct {
	known   map[string]fnInfo // translated functions callable by name
	pairs   map[string]bool   // identifiers of type [2]uint64 (printed as Nat × Nat)
	windows map[string]string // kernel mode: window var -> slice param
	tmp     int
	// lane mode: a window reference x[k] is printed as the scalar parameter named after its
	// slice; k must equal laneIdx (a cross-lane reference is refused).
	laneMode bool
	laneIdx  int
	// tabulate mode (AutomorphismNTTIndex): `int(e)` of a word expression is printed as `e`
	// (two's complement: exact for + - * & and for use as a shift count / BitReverse64 length)
	allowInt bool
}

func (c *ctx) fresh() string { c.tmp++; return fmt.Sprintf("t%d_", c.tmp) }

func tupleOf(names []string) string {
	if len(names) == 0 {
		return "()"
	}
	if len(names) == 1 {
		return names[0]
	}
	return "(" + strings.Join(names, ", ") + ")"
}

// projection i of an n-tuple (right nested pairs)
func proj(v string, i, n int) string {
	if n == 1 {
		return v
	}
	s := v
	for k := 0; k < i; k++ {
		s += ".2"
	}
	if i < n-1 {
		s += ".1"
	}
	return s
}

var binops = map[token.Token]string{
	token.ADD: "u64add", token.SUB: "u64sub", token.MUL: "u64mul",
	token.SHL: "u64shl", token.SHR: "u64shr", token.AND: "u64and", token.OR: "u64or", token.XOR: "u64xor",
	token.GEQ: "u64ge", token.GTR: "u64gt", token.LEQ: "u64le", token.LSS: "u64lt", token.EQL: "u64eq", token.NEQ: "u64ne",
}

var assignops = map[token.Token]token.Token{
	token.ADD_ASSIGN: token.ADD, token.SUB_ASSIGN: token.SUB, token.MUL_ASSIGN: token.MUL,
	token.SHL_ASSIGN: token.SHL, token.SHR_ASSIGN: token.SHR, token.AND_ASSIGN: token.AND, token.OR_ASSIGN: token.OR, token.XOR_ASSIGN: token.XOR,
}

func (c *ctx) expr(e ast.Expr) string {
	switch x := e.(type) {
	case *ast.Ident:
		if x.Name == "_" || x.Name == "true" || x.Name == "false" || x.Name == "nil" {
			refuse("%s: identifier %q not supported", pos(e), x.Name)
		}
		return ident(x.Name)
	case *ast.BasicLit:
		if x.Kind != token.INT {
			refuse("%s: literal %s not supported", pos(e), x.Value)
		}
		v, err := strconv.ParseUint(strings.ReplaceAll(x.Value, "_", ""), 0, 64)
		if err != nil {
			refuse("%s: literal %s: %v", pos(e), x.Value, err)
		}
		return strconv.FormatUint(v, 10)
	case *ast.ParenExpr:
		return c.expr(x.X)
	case *ast.BinaryExpr:
		if x.Op == token.LAND {
			return "(" + c.expr(x.X) + " && " + c.expr(x.Y) + ")"
		}
		if x.Op == token.LOR {
			return "(" + c.expr(x.X) + " || " + c.expr(x.Y) + ")"
		}
		f, ok := binops[x.Op]
		if !ok {
			refuse("%s: operator %s not supported", pos(e), x.Op)
		}
		return "(" + f + " " + c.expr(x.X) + " " + c.expr(x.Y) + ")"
	case *ast.UnaryExpr:
		switch x.Op {
		case token.SUB:
			return "(u64neg " + c.expr(x.X) + ")"
		case token.NOT:
			return "(!" + c.expr(x.X) + ")"
		}
		refuse("%s: unary %s not supported", pos(e), x.Op)
	case *ast.IndexExpr:
		id, ok := x.X.(*ast.Ident)
		if !ok {
			refuse("%s: index base not an identifier", pos(e))
		}
		lit, ok := x.Index.(*ast.BasicLit)
		if !ok || lit.Kind != token.INT {
			refuse("%s: non-literal index", pos(e))
		}
		k, _ := strconv.Atoi(lit.Value)
		if c.pairs[id.Name] {
			if k == 0 {
				return ident(id.Name) + ".1"
			} else if k == 1 {
				return ident(id.Name) + ".2"
			}
			refuse("%s: index %d out of [2]uint64", pos(e), k)
		}
		if sl, ok := c.windows[id.Name]; ok {
			if k < 0 || k > 7 {
				refuse("%s: window index %d out of range", pos(e), k)
			}
			if c.laneMode {
				if k != c.laneIdx {
					refuse("%s: cross-lane reference %s[%d] in lane %d", pos(e), id.Name, k, c.laneIdx)
				}
				return ident(sl)
			}
			return "(" + ident(sl) + " " + strconv.Itoa(k) + ")"
		}
		refuse("%s: indexing %s not supported", pos(e), id.Name)
	case *ast.CallExpr:
		return c.call(x)
	}
	refuse("%s: expression %T not supported", pos(e), e)
	return ""
}

func (c *ctx) call(x *ast.CallExpr) string {
	var name string
	switch f := x.Fun.(type) {
	case *ast.Ident:
		name = f.Name
	case *ast.SelectorExpr:
		if p, ok := f.X.(*ast.Ident); ok {
			name = p.Name + "." + f.Sel.Name
		}
	}
	args := make([]string, len(x.Args))
	for i, a := range x.Args {
		args[i] = c.expr(a)
	}
	switch name {
	case "bits.Mul64":
		return "(mul64 " + strings.Join(args, " ") + ")"
	case "bits.Add64":
		return "(add64 " + strings.Join(args, " ") + ")"
	case "bits.Len64":
		return "(len64 " + strings.Join(args, " ") + ")"
	case "utils.BitReverse64":
		if len(args) != 2 {
			refuse("%s: utils.BitReverse64 arity", pos(x))
		}
		return "(bitRev64 " + strings.Join(args, " ") + ")"
	case "uint64":
		// conversion of an already-unsigned word expression: identity on the model
		if len(args) != 1 {
			refuse("%s: conversion arity", pos(x))
		}
		return args[0]
	case "int":
		if !c.allowInt || len(args) != 1 {
			refuse("%s: conversion to int not supported here", pos(x))
		}
		return args[0]
	}
	if _, ok := c.known[name]; ok {
		return "(" + name + " " + strings.Join(args, " ") + ")"
	}
	refuse("%s: call to %q not supported", pos(x), name)
	return ""
}

func (c *ctx) nresults(e ast.Expr) int {
	call, ok := e.(*ast.CallExpr)
	if !ok {
		return 1
	}
	switch f := call.Fun.(type) {
	case *ast.SelectorExpr:
		if p, ok := f.X.(*ast.Ident); ok && p.Name == "bits" && (f.Sel.Name == "Mul64" || f.Sel.Name == "Add64") {
			return 2
		}
	case *ast.Ident:
		if k, ok := c.known[f.Name]; ok {
			return k.nresults
		}
	}
	return 1
}

// assigned collects identifiers assigned in a statement list (in first-assignment order).
func assigned(stmts []ast.Stmt, acc *[]string, seen map[string]bool, declared map[string]bool) {
	for _, s := range stmts {
		switch x := s.(type) {
		case *ast.AssignStmt:
			for _, l := range x.Lhs {
				id, ok := l.(*ast.Ident)
				if !ok {
					refuse("%s: assignment target not an identifier", pos(l))
				}
				if id.Name == "_" {
					continue
				}
				if x.Tok == token.DEFINE {
					declared[id.Name] = true
					continue
				}
				if !seen[id.Name] && !declared[id.Name] {
					seen[id.Name] = true
					*acc = append(*acc, id.Name)
				}
			}
		case *ast.IfStmt:
			if x.Else != nil || x.Init != nil {
				refuse("%s: if with else/init not supported", pos(x))
			}
			assigned(x.Body.List, acc, seen, declared)
		case *ast.DeclStmt:
			gd := x.Decl.(*ast.GenDecl)
			for _, sp := range gd.Specs {
				for _, n := range sp.(*ast.ValueSpec).Names {
					declared[n.Name] = true
				}
			}
		case *ast.IncDecStmt:
			id := x.X.(*ast.Ident)
			if !seen[id.Name] && !declared[id.Name] {
				seen[id.Name] = true
				*acc = append(*acc, id.Name)
			}
		default:
			refuse("%s: statement %T not supported inside a block", pos(s), s)
		}
	}
}

func endsInReturn(stmts []ast.Stmt) bool {
	if len(stmts) == 0 {
		return false
	}
	_, ok := stmts[len(stmts)-1].(*ast.ReturnStmt)
	return ok
}

// stmts translates a statement list into a Lean term; `fall` is the term to produce
// when control falls off the end (named results tuple, or the tuple of assigned vars
// for an inner block). sep is the separator between lets.
func (c *ctx) stmts(list []ast.Stmt, fall string, sep string) string {
	if len(list) == 0 {
		return fall
	}
	s, rest := list[0], list[1:]
	switch x := s.(type) {
	case *ast.ReturnStmt:
		if len(rest) != 0 {
			refuse("%s: code after return", pos(s))
		}
		if len(x.Results) == 0 {
			return fall
		}
		rs := make([]string, len(x.Results))
		for i, r := range x.Results {
			rs[i] = c.expr(r)
		}
		return tupleOf(rs)
	case *ast.DeclStmt:
		gd, ok := x.Decl.(*ast.GenDecl)
		if !ok || gd.Tok != token.VAR {
			refuse("%s: declaration not supported", pos(s))
		}
		out := ""
		for _, sp := range gd.Specs {
			vs := sp.(*ast.ValueSpec)
			if len(vs.Values) != 0 {
				refuse("%s: var with initialiser not supported", pos(s))
			}
			if id, ok := vs.Type.(*ast.Ident); !ok || (id.Name != "uint64" && id.Name != "int") {
				refuse("%s: var of non-word type", pos(s))
			}
			for _, n := range vs.Names {
				out += "let " + ident(n.Name) + " := 0" + sep
			}
		}
		return out + c.stmts(rest, fall, sep)
	case *ast.IncDecStmt:
		id, ok := x.X.(*ast.Ident)
		if !ok {
			refuse("%s: inc/dec target", pos(s))
		}
		op := "u64add"
		if x.Tok == token.DEC {
			op = "u64sub"
		}
		return "let " + ident(id.Name) + " := " + op + " " + ident(id.Name) + " 1" + sep + c.stmts(rest, fall, sep)
	case *ast.AssignStmt:
		return c.assign(x, sep) + c.stmts(rest, fall, sep)
	case *ast.IfStmt:
		if x.Else != nil || x.Init != nil {
			refuse("%s: if with else/init not supported", pos(x))
		}
		cond := c.expr(x.Cond)
		if endsInReturn(x.Body.List) {
			return "if " + cond + " then (" + c.stmts(x.Body.List, fall, "; ") + ") else (" + c.stmts(rest, fall, "; ") + ")"
		}
		var vs []string
		assigned(x.Body.List, &vs, map[string]bool{}, map[string]bool{})
		if len(vs) == 0 {
			refuse("%s: if body assigns nothing", pos(x))
		}
		ivs := make([]string, len(vs))
		for i, v := range vs {
			ivs[i] = ident(v)
		}
		tup := tupleOf(ivs)
		body := c.stmts(x.Body.List, tup, "; ")
		if len(vs) == 1 {
			return "let " + ivs[0] + " := if " + cond + " then (" + body + ") else " + ivs[0] + sep + c.stmts(rest, fall, sep)
		}
		t := c.fresh()
		out := "let " + t + " := if " + cond + " then (" + body + ") else " + tup + sep
		for i, v := range ivs {
			out += "let " + v + " := " + proj(t, i, len(ivs)) + sep
		}
		return out + c.stmts(rest, fall, sep)
	case *ast.ForStmt:
		n := constBound(x)
		var vs []string
		assigned(x.Body.List, &vs, map[string]bool{}, map[string]bool{})
		if len(vs) == 0 {
			refuse("%s: loop body assigns nothing", pos(x))
		}
		ivs := make([]string, len(vs))
		for i, v := range vs {
			ivs[i] = ident(v)
		}
		tup := tupleOf(ivs)
		st := c.fresh()
		unpack := ""
		for i, v := range ivs {
			unpack += "let " + v + " := " + proj(st, i, len(ivs)) + "; "
		}
		body := c.stmts(x.Body.List, tup, "; ")
		t := c.fresh()
		out := "let " + t + " := loopN " + strconv.Itoa(n) + " (fun " + st + " => " + unpack + body + ") " + tup + sep
		for i, v := range ivs {
			out += "let " + v + " := " + proj(t, i, len(ivs)) + sep
		}
		return out + c.stmts(rest, fall, sep)
	}
	refuse("%s: statement %T not supported", pos(s), s)
	return ""
}

// constBound recognises `for i := 0; i < K; i++ {…}` with literal K and i unused in the body.
func constBound(f *ast.ForStmt) int {
	as, ok := f.Init.(*ast.AssignStmt)
	if !ok || as.Tok != token.DEFINE || len(as.Lhs) != 1 || len(as.Rhs) != 1 {
		refuse("%s: loop init not `i := 0`", pos(f))
	}
	iv := as.Lhs[0].(*ast.Ident).Name
	if l, ok := as.Rhs[0].(*ast.BasicLit); !ok || l.Value != "0" {
		refuse("%s: loop init not 0", pos(f))
	}
	be, ok := f.Cond.(*ast.BinaryExpr)
	if !ok || be.Op != token.LSS {
		refuse("%s: loop cond not `i < K`", pos(f))
	}
	if id, ok := be.X.(*ast.Ident); !ok || id.Name != iv {
		refuse("%s: loop cond var", pos(f))
	}
	kl, ok := be.Y.(*ast.BasicLit)
	if !ok || kl.Kind != token.INT {
		refuse("%s: loop bound not a literal", pos(f))
	}
	inc, ok := f.Post.(*ast.IncDecStmt)
	if !ok || inc.Tok != token.INC || inc.X.(*ast.Ident).Name != iv {
		refuse("%s: loop post not `i++`", pos(f))
	}
	used := false
	ast.Inspect(f.Body, func(n ast.Node) bool {
		if id, ok := n.(*ast.Ident); ok && id.Name == iv {
			used = true
		}
		return true
	})
	if used {
		refuse("%s: loop variable used in body", pos(f))
	}
	k, _ := strconv.Atoi(kl.Value)
	return k
}

func (c *ctx) assign(x *ast.AssignStmt, sep string) string {
	if op, ok := assignops[x.Tok]; ok {
		if len(x.Lhs) != 1 || len(x.Rhs) != 1 {
			refuse("%s: op-assign arity", pos(x))
		}
		id, ok := x.Lhs[0].(*ast.Ident)
		if !ok {
			refuse("%s: op-assign target", pos(x))
		}
		return "let " + ident(id.Name) + " := " + binops[op] + " " + ident(id.Name) + " " + c.expr(x.Rhs[0]) + sep
	}
	if x.Tok != token.ASSIGN && x.Tok != token.DEFINE {
		refuse("%s: assignment token %s", pos(x), x.Tok)
	}
	names := make([]string, len(x.Lhs))
	for i, l := range x.Lhs {
		id, ok := l.(*ast.Ident)
		if !ok {
			refuse("%s: assignment target not an identifier", pos(l))
		}
		names[i] = id.Name
	}
	if len(x.Rhs) == 1 {
		n := c.nresults(x.Rhs[0])
		if n != len(names) {
			refuse("%s: arity mismatch %d vs %d", pos(x), n, len(names))
		}
		if n == 1 {
			if names[0] == "_" {
				refuse("%s: blank single assignment", pos(x))
			}
			return "let " + ident(names[0]) + " := " + c.expr(x.Rhs[0]) + sep
		}
		t := c.fresh()
		out := "let " + t + " := " + c.expr(x.Rhs[0]) + sep
		for i, nm := range names {
			if nm == "_" {
				continue
			}
			out += "let " + ident(nm) + " := " + proj(t, i, n) + sep
		}
		return out
	}
	if len(x.Rhs) != len(names) {
		refuse("%s: tuple assignment arity", pos(x))
	}
	// parallel assignment: evaluate all right-hand sides first
	tmps := make([]string, len(names))
	out := ""
	for i, r := range x.Rhs {
		tmps[i] = c.fresh()
		out += "let " + tmps[i] + " := " + c.expr(r) + sep
	}
	for i, nm := range names {
		if nm == "_" {
			continue
		}
		out += "let " + ident(nm) + " := " + tmps[i] + sep
	}
	return out
}

// ---- function-level ----

type param struct {
	name string
	kind string // "word", "pair", "slice"
}

func params(fd *ast.FuncDecl, c *ctx) []param {
	var ps []param
	for _, f := range fd.Type.Params.List {
		kind := ""
		switch t := f.Type.(type) {
		case *ast.Ident:
			if t.Name == "uint64" || t.Name == "int" {
				kind = "word"
			}
		case *ast.ArrayType:
			el, ok := t.Elt.(*ast.Ident)
			if ok && el.Name == "uint64" {
				if t.Len == nil {
					kind = "slice"
				} else if l, ok := t.Len.(*ast.BasicLit); ok && l.Value == "2" {
					kind = "pair"
				}
			}
		}
		if kind == "" {
			refuse("%s: parameter type not supported", pos(f))
		}
		for _, n := range f.Names {
			ps = append(ps, param{n.Name, kind})
			if kind == "pair" {
				c.pairs[n.Name] = true
			}
		}
	}
	return ps
}

func leanParams(ps []param) string {
	out := ""
	for _, p := range ps {
		switch p.kind {
		case "word":
			out += " (" + ident(p.name) + " : Nat)"
		case "pair":
			out += " (" + ident(p.name) + " : Nat × Nat)"
		case "slice":
			out += " (" + ident(p.name) + " : Nat → Nat)"
		}
	}
	return out
}

func natTuple(n int) string {
	if n == 1 {
		return "Nat"
	}
	s := make([]string, n)
	for i := range s {
		s[i] = "Nat"
	}
	return strings.Join(s, " × ")
}

func translateScalarFunc(fd *ast.FuncDecl, known map[string]fnInfo) (string, int) {
	c := &ctx{known: known, pairs: map[string]bool{}, windows: map[string]string{}}
	ps := params(fd, c)
	for _, p := range ps {
		if p.kind == "slice" {
			refuse("%s: slice parameter in scalar function", pos(fd))
		}
	}
	if fd.Type.Results == nil {
		refuse("%s: no results", pos(fd))
	}
	var named []string
	nres := 0
	for _, r := range fd.Type.Results.List {
		id, ok := r.Type.(*ast.Ident)
		if !ok || id.Name != "uint64" {
			refuse("%s: result type not uint64", pos(r))
		}
		if len(r.Names) == 0 {
			nres++
		}
		for _, n := range r.Names {
			named = append(named, ident(n.Name))
			nres++
		}
	}
	pre := ""
	fall := "0"
	if len(named) > 0 {
		for _, n := range named {
			pre += "  let " + n + " := 0\n"
		}
		fall = tupleOf(named)
	} else if !endsInReturn(fd.Body.List) {
		refuse("%s: unnamed results and no final return", pos(fd))
	}
	body := c.stmts(fd.Body.List, fall, "\n  ")
	return fmt.Sprintf("def %s%s : %s :=\n%s  %s\n", fd.Name.Name, leanParams(ps), natTuple(nres), pre, body), nres
}

// ---- kernels ----

type kernelMeta struct {
	Name    string            `json:"name"`
	Out     string            `json:"out"`
	Windows map[string]string `json:"windows"`
	Params  []string          `json:"params"`
}

func translateKernel(fd *ast.FuncDecl, known map[string]fnInfo) (string, kernelMeta) {
	c := &ctx{known: known, pairs: map[string]bool{}, windows: map[string]string{}}
	ps := params(fd, c)
	if fd.Type.Results != nil {
		refuse("%s: kernel with results", pos(fd))
	}
	meta := kernelMeta{Name: fd.Name.Name, Windows: map[string]string{}}
	for _, p := range ps {
		meta.Params = append(meta.Params, p.name+":"+p.kind)
	}
	var pre []ast.Stmt
	var loop *ast.ForStmt
	for i, s := range fd.Body.List {
		if f, ok := s.(*ast.ForStmt); ok {
			loop = f
			if i != len(fd.Body.List)-1 {
				refuse("%s: statements after the kernel loop", pos(fd))
			}
			break
		}
		pre = append(pre, s)
	}
	if loop == nil {
		refuse("%s: kernel without loop", pos(fd))
	}
	// prelude: `N := len(p)` (dropped) and scalar lets
	var lenVar, lenOf string
	var preLets []ast.Stmt
	for _, s := range pre {
		as, ok := s.(*ast.AssignStmt)
		if ok && len(as.Rhs) == 1 {
			if call, ok := as.Rhs[0].(*ast.CallExpr); ok {
				if id, ok := call.Fun.(*ast.Ident); ok && id.Name == "len" {
					lenVar = as.Lhs[0].(*ast.Ident).Name
					lenOf = call.Args[0].(*ast.Ident).Name
					continue
				}
			}
		}
		preLets = append(preLets, s)
	}
	if lenVar == "" {
		refuse("%s: kernel without `N := len(p)`", pos(fd))
	}
	_ = lenOf
	// loop header: j := 0; j < N; j = j + 8
	as, ok := loop.Init.(*ast.AssignStmt)
	if !ok || len(as.Lhs) != 1 {
		refuse("%s: kernel loop init", pos(loop))
	}
	jv := as.Lhs[0].(*ast.Ident).Name
	if l, ok := as.Rhs[0].(*ast.BasicLit); !ok || l.Value != "0" {
		refuse("%s: kernel loop must start at 0", pos(loop))
	}
	be, ok := loop.Cond.(*ast.BinaryExpr)
	if !ok || be.Op != token.LSS || be.X.(*ast.Ident).Name != jv {
		refuse("%s: kernel loop cond must be `j < N`", pos(loop))
	}
	if id, ok := be.Y.(*ast.Ident); !ok || id.Name != lenVar {
		refuse("%s: kernel loop bound must be N", pos(loop))
	}
	okPost := false
	if pa, ok := loop.Post.(*ast.AssignStmt); ok && len(pa.Lhs) == 1 && len(pa.Rhs) == 1 {
		if pa.Tok == token.ASSIGN {
			if b, ok := pa.Rhs[0].(*ast.BinaryExpr); ok && b.Op == token.ADD {
				if bx, ok := b.X.(*ast.Ident); ok && bx.Name == jv {
					if l, ok := b.Y.(*ast.BasicLit); ok && l.Value == "8" {
						okPost = true
					}
				}
			}
		} else if pa.Tok == token.ADD_ASSIGN {
			if l, ok := pa.Rhs[0].(*ast.BasicLit); ok && l.Value == "8" {
				okPost = true
			}
		}
	}
	if !okPost {
		refuse("%s: kernel loop step must be `j = j + 8`", pos(loop))
	}
	// body: windows then 8 lane statements
	type lane struct {
		idx int
		out string
		rhs string
	}
	var lanes []lane
	lane0 := ""
	for _, s := range loop.Body.List {
		as, ok := s.(*ast.AssignStmt)
		if !ok || len(as.Lhs) != 1 || len(as.Rhs) != 1 {
			refuse("%s: kernel body statement", pos(s))
		}
		if as.Tok == token.DEFINE {
			// x := (*[8]uint64)(unsafe.Pointer(&p1[j]))
			wv := as.Lhs[0].(*ast.Ident).Name
			sl := windowBase(as.Rhs[0], jv)
			if sl == "" {
				refuse("%s: window declaration not `(*[8]uint64)(unsafe.Pointer(&p[j]))`", pos(s))
			}
			c.windows[wv] = sl
			meta.Windows[wv] = sl
			continue
		}
		ix, ok := as.Lhs[0].(*ast.IndexExpr)
		if !ok {
			refuse("%s: lane target", pos(s))
		}
		wv := ix.X.(*ast.Ident).Name
		sl, ok := c.windows[wv]
		if !ok {
			refuse("%s: lane target is not a window", pos(s))
		}
		lit, ok := ix.Index.(*ast.BasicLit)
		if !ok {
			refuse("%s: lane index", pos(s))
		}
		k, _ := strconv.Atoi(lit.Value)
		rhs := c.expr(as.Rhs[0])
		if op, ok := assignops[as.Tok]; ok {
			rhs = "(" + binops[op] + " (" + ident(sl) + " " + strconv.Itoa(k) + ") " + rhs + ")"
		} else if as.Tok != token.ASSIGN {
			refuse("%s: lane assignment token", pos(s))
		}
		if len(lanes) == 0 {
			c.laneMode, c.laneIdx = true, k
			lane0 = c.expr(as.Rhs[0])
			if op, ok := assignops[as.Tok]; ok {
				lane0 = "(" + binops[op] + " " + ident(sl) + " " + lane0 + ")"
			}
			c.laneMode = false
		}
		lanes = append(lanes, lane{k, sl, rhs})
	}
	if len(lanes) != 8 {
		refuse("%s: kernel has %d lane statements, want 8", pos(fd), len(lanes))
	}
	for _, l := range lanes {
		if l.out != lanes[0].out {
			refuse("%s: lanes write different slices", pos(fd))
		}
	}
	meta.Out = lanes[0].out
	pl := c.stmts(preLets, "", "\n  ")
	out := fmt.Sprintf("def %s_lanes%s : List (Nat × Nat) :=\n  %s[", fd.Name.Name, leanParams(ps), pl)
	for i, l := range lanes {
		if i > 0 {
			out += ",\n   "
		}
		out += fmt.Sprintf("(%d, %s)", l.idx, l.rhs)
	}
	out += "]\n\n"
	// the single-lane function (lane 0 with window references replaced by scalars) and the
	// obligation that all 8 lanes are that function of their own index only
	lp := ""
	app := ""
	for _, p := range ps {
		if p.kind == "pair" {
			lp += " (" + ident(p.name) + " : Nat × Nat)"
			app += " " + ident(p.name)
		} else {
			lp += " (" + ident(p.name) + " : Nat)"
			if p.kind == "slice" {
				app += " (" + ident(p.name) + " k)"
			} else {
				app += " " + ident(p.name)
			}
		}
	}
	out += fmt.Sprintf("def %s_lane%s : Nat :=\n  %s%s\n\n", fd.Name.Name, lp, pl, lane0)
	args := ""
	for _, p := range ps {
		args += " " + ident(p.name)
	}
	out += fmt.Sprintf("theorem %s_uniform%s :\n    %s_lanes%s = lanes8 (fun k => %s_lane%s) := rfl\n", fd.Name.Name, leanParams(ps), fd.Name.Name, args, fd.Name.Name, app)
	return out, meta
}

func windowBase(e ast.Expr, jv string) string {
	// (*[8]uint64)(unsafe.Pointer(&p[j]))
	call, ok := e.(*ast.CallExpr)
	if !ok || len(call.Args) != 1 {
		return ""
	}
	par, ok := call.Fun.(*ast.ParenExpr)
	if !ok {
		return ""
	}
	st, ok := par.X.(*ast.StarExpr)
	if !ok {
		return ""
	}
	at, ok := st.X.(*ast.ArrayType)
	if !ok {
		return ""
	}
	if l, ok := at.Len.(*ast.BasicLit); !ok || l.Value != "8" {
		return ""
	}
	if el, ok := at.Elt.(*ast.Ident); !ok || el.Name != "uint64" {
		return ""
	}
	up, ok := call.Args[0].(*ast.CallExpr)
	if !ok || len(up.Args) != 1 {
		return ""
	}
	if sel, ok := up.Fun.(*ast.SelectorExpr); !ok || sel.Sel.Name != "Pointer" {
		return ""
	}
	un, ok := up.Args[0].(*ast.UnaryExpr)
	if !ok || un.Op != token.AND {
		return ""
	}
	ix, ok := un.X.(*ast.IndexExpr)
	if !ok {
		return ""
	}
	if id, ok := ix.Index.(*ast.Ident); !ok || id.Name != jv {
		return ""
	}
	sl, ok := ix.X.(*ast.Ident)
	if !ok {
		return ""
	}
	return sl.Name
}

// ---- SubRing wrappers (ring/subring_ops.go) ----

// subRingFields are the receiver fields a wrapper may hand to its kernel, with their kinds.
var subRingFields = map[string]string{"Modulus": "word", "MRedConstant": "word", "BRedConstant": "pair"}

type wrapperMeta struct {
	Method string   `json:"method"`
	Kernel string   `json:"kernel"`
	Args   []string `json:"args"`
	Slices int      `json:"slices"`
	Words  int      `json:"words"`
}

// translateWrapper handles `func (s *SubRing) Name(params) { kernel(args…) }`: the body must be ONE
// call statement.  If the callee is one of the translated kernels, every argument must be a method
// parameter or s.Modulus / s.MRedConstant / s.BRedConstant, of the kind the kernel expects at that
// position; the result is the lane-level Lean definition.  If the callee is `s.ntt.M(params…)` the
// method is recorded as a delegation (NTT entry points, modelled by Model/NTT.lean).  Anything else
// is refused.
func translateWrapper(fd *ast.FuncDecl, kernels map[string]kernelMeta) (lean string, meta wrapperMeta, delegate string) {
	name := fd.Name.Name
	if fd.Recv == nil || len(fd.Recv.List) != 1 || len(fd.Recv.List[0].Names) != 1 {
		refuse("%s: wrapper %s: receiver", pos(fd), name)
	}
	st, ok := fd.Recv.List[0].Type.(*ast.StarExpr)
	if !ok {
		refuse("%s: wrapper %s: receiver is not *SubRing", pos(fd), name)
	}
	if id, ok := st.X.(*ast.Ident); !ok || id.Name != "SubRing" {
		refuse("%s: wrapper %s: receiver is not *SubRing", pos(fd), name)
	}
	recv := fd.Recv.List[0].Names[0].Name
	if fd.Type.Results != nil && len(fd.Type.Results.List) != 0 {
		refuse("%s: wrapper %s has results", pos(fd), name)
	}
	c := &ctx{pairs: map[string]bool{}, windows: map[string]string{}}
	ps := params(fd, c)
	kindOf := map[string]string{}
	var slices, words []string
	for _, p := range ps {
		if _, dup := kindOf[p.name]; dup || p.name == recv {
			refuse("%s: wrapper %s: parameter %s", pos(fd), name, p.name)
		}
		if _, clash := subRingFields[p.name]; clash {
			refuse("%s: wrapper %s: parameter %s is named like a receiver field", pos(fd), name, p.name)
		}
		kindOf[p.name] = p.kind
		switch p.kind {
		case "slice":
			slices = append(slices, p.name)
		case "word":
			words = append(words, p.name)
		default:
			refuse("%s: wrapper %s: parameter kind %s", pos(fd), name, p.kind)
		}
	}
	if fd.Body == nil || len(fd.Body.List) != 1 {
		refuse("%s: wrapper %s: body is not a single call", pos(fd), name)
	}
	es, ok := fd.Body.List[0].(*ast.ExprStmt)
	if !ok {
		refuse("%s: wrapper %s: body is not a single call", pos(fd), name)
	}
	call, ok := es.X.(*ast.CallExpr)
	if !ok || call.Ellipsis != token.NoPos {
		refuse("%s: wrapper %s: body is not a single call", pos(fd), name)
	}
	meta = wrapperMeta{Method: name, Slices: len(slices), Words: len(words)}
	switch f := call.Fun.(type) {
	case *ast.SelectorExpr:
		// s.ntt.M(p1, p2): parameters passed through unchanged, in order
		inner, ok := f.X.(*ast.SelectorExpr)
		if !ok {
			refuse("%s: wrapper %s: callee not supported", pos(call), name)
		}
		r, ok := inner.X.(*ast.Ident)
		if !ok || r.Name != recv || inner.Sel.Name != "ntt" {
			refuse("%s: wrapper %s: callee not supported", pos(call), name)
		}
		if len(call.Args) != len(ps) {
			refuse("%s: wrapper %s: delegation does not pass its parameters through", pos(call), name)
		}
		for i, a := range call.Args {
			id, ok := a.(*ast.Ident)
			if !ok || id.Name != ps[i].name {
				refuse("%s: wrapper %s: delegation does not pass its parameters through", pos(call), name)
			}
		}
		return "", meta, recv + ".ntt." + f.Sel.Name
	case *ast.Ident:
		km, ok := kernels[f.Name]
		if !ok {
			refuse("%s: wrapper %s calls %q, which is not a translated kernel", pos(call), name, f.Name)
		}
		meta.Kernel = f.Name
		if len(call.Args) != len(km.Params) {
			refuse("%s: wrapper %s: %d arguments for kernel %s with %d parameters", pos(call), name, len(call.Args), f.Name, len(km.Params))
		}
		var largs []string
		for i, a := range call.Args {
			want := km.Params[i][strings.Index(km.Params[i], ":")+1:]
			var txt, got, lean string
			switch x := a.(type) {
			case *ast.Ident:
				k, ok := kindOf[x.Name]
				if !ok {
					refuse("%s: wrapper %s: argument %s is not a parameter", pos(a), name, x.Name)
				}
				txt, got, lean = x.Name, k, ident(x.Name)
			case *ast.SelectorExpr:
				r, ok := x.X.(*ast.Ident)
				if !ok || r.Name != recv {
					refuse("%s: wrapper %s: argument not supported", pos(a), name)
				}
				k, ok := subRingFields[x.Sel.Name]
				if !ok {
					refuse("%s: wrapper %s: receiver field %s not supported", pos(a), name, x.Sel.Name)
				}
				txt, got, lean = "s."+x.Sel.Name, k, x.Sel.Name
			default:
				refuse("%s: wrapper %s: argument %T not supported", pos(a), name, a)
			}
			if got != want {
				refuse("%s: wrapper %s: argument %s is a %s where kernel %s expects a %s", pos(a), name, txt, got, f.Name, want)
			}
			meta.Args = append(meta.Args, txt)
			largs = append(largs, lean)
		}
		// lane-level definition: slices become the scalar at the lane's index
		lp := ""
		for _, p := range ps {
			lp += " (" + ident(p.name) + " : Nat)"
		}
		lean = fmt.Sprintf("/-- `func (s *SubRing) %s(%s) { %s(%s) }` -/\ndef SubRing_%s_lane (Modulus MRedConstant : Nat) (BRedConstant : Nat × Nat)%s : Nat :=\n  %s_lane %s\n",
			name, paramList(ps), f.Name, strings.Join(meta.Args, ", "), name, lp, f.Name, strings.Join(largs, " "))
		return lean, meta, ""
	}
	refuse("%s: wrapper %s: callee not supported", pos(call), name)
	return
}

func paramList(ps []param) string {
	out := make([]string, len(ps))
	for i, p := range ps {
		out[i] = p.name
		if p.kind == "slice" {
			out[i] += " []uint64"
		} else {
			out[i] += " uint64"
		}
	}
	return strings.Join(out, ", ")
}

func leanStrList(xs []string) string {
	q := make([]string, len(xs))
	for i, x := range xs {
		q[i] = strconv.Quote(x)
	}
	return "[" + strings.Join(q, ", ") + "]"
}

// translateSubRingOps prints Gen/SubRingOps.lean from ring/subring_ops.go.
//
// Uniform calling convention of the generated tables `subRingTable3/2` (it is the convention of
// Model/Vec.lean's `Vec.op`): the slice parameters of a method, IN GO ORDER, are x1 x2 x3 for a
// 3-slice method and x1 x3 for a 2-slice method (the last slice is the output; its previous content
// is what accumulating kernels read); the word parameters, in Go order, are s0 s1.
func translateSubRingOps(file *ast.File, kernels map[string]kernelMeta) (string, []wrapperMeta, [][2]string) {
	var sb strings.Builder
	var metas []wrapperMeta
	var delegates [][2]string
	var defs []string
	type disp struct{ name, app string }
	var disps []disp
	seen := map[string]bool{}
	for _, d := range file.Decls {
		fd, ok := d.(*ast.FuncDecl)
		if !ok {
			refuse("%s: ring/subring_ops.go: declaration %T not supported", pos(d), d)
		}
		if fd.Recv == nil {
			refuse("%s: ring/subring_ops.go: %s is not a SubRing method", pos(fd), fd.Name.Name)
		}
		if seen[fd.Name.Name] {
			refuse("%s: duplicate method %s", pos(fd), fd.Name.Name)
		}
		seen[fd.Name.Name] = true
		lean, m, del := translateWrapper(fd, kernels)
		if del != "" {
			delegates = append(delegates, [2]string{m.Method, del})
			continue
		}
		metas = append(metas, m)
		defs = append(defs, lean)
		// dispatcher application following the calling convention
		c := &ctx{pairs: map[string]bool{}, windows: map[string]string{}}
		ps := params(fd, c)
		var xs []string
		switch m.Slices {
		case 3:
			xs = []string{"x1", "x2", "x3"}
		case 2:
			xs = []string{"x1", "x3"}
		default:
			refuse("%s: wrapper %s has %d slice parameters (2 or 3 supported)", pos(fd), m.Method, m.Slices)
		}
		if m.Words > 2 {
			refuse("%s: wrapper %s has %d word parameters (at most 2 supported)", pos(fd), m.Method, m.Words)
		}
		ws := []string{"s0", "s1"}
		app := ""
		si, wi := 0, 0
		for _, p := range ps {
			if p.kind == "slice" {
				app += " " + xs[si]
				si++
			} else {
				app += " " + ws[wi]
				wi++
			}
		}
		disps = append(disps, disp{m.Method, app})
	}
	if len(metas) == 0 {
		refuse("ring/subring_ops.go: no kernel wrapper found")
	}
	sb.WriteString("/-- the SubRing wrappers of ring/subring_ops.go: (method, kernel, the kernel's actual arguments) -/\n")
	sb.WriteString("def subRingOps : List (String × String × List String) := [\n")
	for i, m := range metas {
		if i > 0 {
			sb.WriteString(",\n")
		}
		fmt.Fprintf(&sb, "  (%s, %s, %s)", strconv.Quote(m.Method), strconv.Quote(m.Kernel), leanStrList(m.Args))
	}
	sb.WriteString("]\n\n")
	sb.WriteString("/-- SubRing methods that delegate to the NTT object (modelled by Model/NTT.lean): (method, callee) -/\n")
	sb.WriteString("def subRingDelegates : List (String × String) := [")
	for i, d := range delegates {
		if i > 0 {
			sb.WriteString(", ")
		}
		fmt.Fprintf(&sb, "(%s, %s)", strconv.Quote(d[0]), strconv.Quote(d[1]))
	}
	sb.WriteString("]\n\n")
	for _, d := range defs {
		sb.WriteString(d + "\n")
	}
	// executable tables, by number of slice parameters.  (A `match name with | "Add" => …` over 36
	// string literals would be the obvious dispatcher; it is avoided on purpose: Lean's equation
	// compiler / defeq checker are pathologically slow on it.  Membership in a list is cheap.)
	for _, ar := range []int{3, 2} {
		ty := "Nat → Nat → Nat → Nat"
		if ar == 2 {
			ty = "Nat → Nat → Nat"
		}
		fmt.Fprintf(&sb, "/-- the wrappers with %d slice parameters: (method, one lane as a function of the slices' words in Go\n    order); the word parameters of the method, in Go order, are `s0 s1` -/\n", ar)
		fmt.Fprintf(&sb, "def subRingTable%d (Modulus MRedConstant : Nat) (BRedConstant : Nat × Nat) (s0 s1 : Nat) :\n    List (String × (%s)) := [\n", ar, ty)
		first := true
		var nm []string
		for i, m := range metas {
			if m.Slices != ar {
				continue
			}
			if !first {
				sb.WriteString(",\n")
			}
			first = false
			bind := "x1 x2 x3"
			if ar == 2 {
				bind = "x1 x3"
			}
			fmt.Fprintf(&sb, "  (%s, fun %s => SubRing_%s_lane Modulus MRedConstant BRedConstant%s)", strconv.Quote(m.Method), bind, m.Method, disps[i].app)
			nm = append(nm, m.Method)
		}
		sb.WriteString("]\n\n")
		fmt.Fprintf(&sb, "def subRingNames%d : List String := %s\n\n", ar, leanStrList(nm))
		fmt.Fprintf(&sb, "theorem subRingTable%d_names (Modulus MRedConstant : Nat) (BRedConstant : Nat × Nat) (s0 s1 : Nat) :\n    (subRingTable%d Modulus MRedConstant BRedConstant s0 s1).map (·.1) = subRingNames%d := rfl\n\n", ar, ar, ar)
	}
	return sb.String(), metas, delegates
}

// ---- tabulate functions (ring.AutomorphismNTTIndex) ----

// usesIdent reports whether identifier `name` occurs in n.
func usesIdent(n ast.Node, name string) bool {
	found := false
	ast.Inspect(n, func(m ast.Node) bool {
		if id, ok := m.(*ast.Ident); ok && id.Name == name {
			found = true
		}
		return true
	})
	return found
}

// isErrorReturn recognises `return nil, fmt.Errorf(…)`.
func isErrorReturn(s ast.Stmt) bool {
	r, ok := s.(*ast.ReturnStmt)
	if !ok || len(r.Results) != 2 {
		return false
	}
	if id, ok := r.Results[0].(*ast.Ident); !ok || id.Name != "nil" {
		return false
	}
	call, ok := r.Results[1].(*ast.CallExpr)
	if !ok {
		return false
	}
	sel, ok := call.Fun.(*ast.SelectorExpr)
	if !ok {
		return false
	}
	p, ok := sel.X.(*ast.Ident)
	return ok && p.Name == "fmt" && sel.Sel.Name == "Errorf"
}

// translateTabulate handles a function of the shape
//
//	func F(words…) (out []uint64, err error) {
//	    { if cond { return nil, fmt.Errorf(…) } | var x,… uint64 | x := e | x = e }*
//	    out = make([]uint64, N)            // N a parameter
//	    { x = e }*
//	    for i := 0; i < N; i++ { { x = e }* ; out[i] = e }
//	    return
//	}
//
// and prints `def F (words…) : Option (List Nat)` (`none` = an error return).  The loop is a
// "tabulate": every scalar assigned in its body is assigned there before it is read (no value is
// carried from one iteration to the next), nothing follows the loop but the bare return, and `out`
// is only written, at index `i`; so entry `i` of the result is the value of the last right-hand side
// as a function of `i`: `(List.range N).map fun i => …`.  Everything else is refused.
func translateTabulate(fd *ast.FuncDecl, known map[string]fnInfo) string {
	name := fd.Name.Name
	c := &ctx{known: known, pairs: map[string]bool{}, windows: map[string]string{}, allowInt: true}
	ps := params(fd, c)
	for _, p := range ps {
		if p.kind != "word" {
			refuse("%s: %s: non-word parameter", pos(fd), name)
		}
	}
	rs := fd.Type.Results
	if rs == nil || len(rs.List) != 2 || len(rs.List[0].Names) != 1 || len(rs.List[1].Names) != 1 {
		refuse("%s: %s: results must be (out []uint64, err error)", pos(fd), name)
	}
	if at, ok := rs.List[0].Type.(*ast.ArrayType); !ok || at.Len != nil {
		refuse("%s: %s: first result must be []uint64", pos(fd), name)
	} else if el, ok := at.Elt.(*ast.Ident); !ok || el.Name != "uint64" {
		refuse("%s: %s: first result must be []uint64", pos(fd), name)
	}
	if id, ok := rs.List[1].Type.(*ast.Ident); !ok || id.Name != "error" {
		refuse("%s: %s: second result must be error", pos(fd), name)
	}
	outv := rs.List[0].Names[0].Name
	errv := rs.List[1].Names[0].Name
	const sep = "\n  "
	body := ""
	lenVar := ""
	list := fd.Body.List
	i := 0
	for ; i < len(list); i++ {
		s := list[i]
		if usesIdent(s, errv) {
			refuse("%s: %s: use of the error result", pos(s), name)
		}
		if _, ok := s.(*ast.ForStmt); ok {
			break
		}
		switch x := s.(type) {
		case *ast.IfStmt:
			if x.Else != nil || x.Init != nil || len(x.Body.List) != 1 || !isErrorReturn(x.Body.List[0]) {
				refuse("%s: %s: only `if cond { return nil, fmt.Errorf(…) }` is supported", pos(s), name)
			}
			if usesIdent(x.Cond, outv) {
				refuse("%s: %s: output slice read", pos(s), name)
			}
			body += "if " + c.expr(x.Cond) + " then none else" + sep
		case *ast.DeclStmt:
			body += c.stmts([]ast.Stmt{s}, "", sep)
		case *ast.AssignStmt:
			if len(x.Lhs) == 1 && len(x.Rhs) == 1 {
				if id, ok := x.Lhs[0].(*ast.Ident); ok && id.Name == outv {
					// out = make([]uint64, N)
					call, ok := x.Rhs[0].(*ast.CallExpr)
					if !ok || x.Tok != token.ASSIGN || len(call.Args) != 2 || lenVar != "" {
						refuse("%s: %s: output slice must be set once by make([]uint64, N)", pos(s), name)
					}
					if f, ok := call.Fun.(*ast.Ident); !ok || f.Name != "make" {
						refuse("%s: %s: output slice must be set once by make([]uint64, N)", pos(s), name)
					}
					if at, ok := call.Args[0].(*ast.ArrayType); !ok || at.Len != nil {
						refuse("%s: %s: make of a non-slice", pos(s), name)
					} else if el, ok := at.Elt.(*ast.Ident); !ok || el.Name != "uint64" {
						refuse("%s: %s: make of a non-[]uint64", pos(s), name)
					}
					n, ok := call.Args[1].(*ast.Ident)
					if !ok {
						refuse("%s: %s: make length must be a parameter", pos(s), name)
					}
					isParam := false
					for _, p := range ps {
						if p.name == n.Name {
							isParam = true
						}
					}
					if !isParam {
						refuse("%s: %s: make length must be a parameter", pos(s), name)
					}
					lenVar = n.Name
					continue
				}
			}
			if usesIdent(s, outv) {
				refuse("%s: %s: output slice used outside the loop", pos(s), name)
			}
			for _, l := range x.Lhs {
				if id, ok := l.(*ast.Ident); ok && (id.Name == lenVar && lenVar != "") {
					refuse("%s: %s: length variable reassigned", pos(s), name)
				}
				for _, p := range ps {
					if id, ok := l.(*ast.Ident); ok && id.Name == p.name {
						refuse("%s: %s: parameter %s reassigned", pos(s), name, p.name)
					}
				}
			}
			body += c.assign(x, sep)
		default:
			refuse("%s: %s: statement %T not supported", pos(s), name, s)
		}
	}
	if i >= len(list) || lenVar == "" {
		refuse("%s: %s: expected `out = make([]uint64, N)` followed by a loop", pos(fd), name)
	}
	loop := list[i].(*ast.ForStmt)
	rest := list[i+1:]
	if len(rest) != 1 {
		refuse("%s: %s: the loop must be followed by the bare return only", pos(loop), name)
	}
	if r, ok := rest[0].(*ast.ReturnStmt); !ok || len(r.Results) != 0 {
		refuse("%s: %s: the loop must be followed by the bare return only", pos(loop), name)
	}
	// header `for i := 0; i < N; i++`
	as, ok := loop.Init.(*ast.AssignStmt)
	if !ok || as.Tok != token.DEFINE || len(as.Lhs) != 1 || len(as.Rhs) != 1 {
		refuse("%s: %s: loop init not `i := 0`", pos(loop), name)
	}
	iv := as.Lhs[0].(*ast.Ident).Name
	if l, ok := as.Rhs[0].(*ast.BasicLit); !ok || l.Value != "0" {
		refuse("%s: %s: loop init not `i := 0`", pos(loop), name)
	}
	be, ok := loop.Cond.(*ast.BinaryExpr)
	if !ok || be.Op != token.LSS {
		refuse("%s: %s: loop cond not `i < N`", pos(loop), name)
	}
	if id, ok := be.X.(*ast.Ident); !ok || id.Name != iv {
		refuse("%s: %s: loop cond not `i < N`", pos(loop), name)
	}
	if id, ok := be.Y.(*ast.Ident); !ok || id.Name != lenVar {
		refuse("%s: %s: loop bound is not the length of the output slice", pos(loop), name)
	}
	inc, ok := loop.Post.(*ast.IncDecStmt)
	if !ok || inc.Tok != token.INC {
		refuse("%s: %s: loop post not `i++`", pos(loop), name)
	}
	if id, ok := inc.X.(*ast.Ident); !ok || id.Name != iv {
		refuse("%s: %s: loop post not `i++`", pos(loop), name)
	}
	if iv == outv || iv == lenVar || iv == errv {
		refuse("%s: %s: loop variable shadows", pos(loop), name)
	}
	// body: scalar assignments (each variable written before it is read), then out[i] = e
	stmts := loop.Body.List
	if len(stmts) == 0 {
		refuse("%s: %s: empty loop body", pos(loop), name)
	}
	var bodyVars []string
	assigned(stmts[:len(stmts)-1], &bodyVars, map[string]bool{}, map[string]bool{})
	isBodyVar := map[string]bool{}
	for _, v := range bodyVars {
		isBodyVar[v] = true
	}
	written := map[string]bool{}
	inner := ""
	const isep = "\n    "
	for _, s := range stmts[:len(stmts)-1] {
		x, ok := s.(*ast.AssignStmt)
		if !ok || (x.Tok != token.ASSIGN && x.Tok != token.DEFINE) || len(x.Lhs) != 1 || len(x.Rhs) != 1 {
			refuse("%s: %s: loop body statement must be `x = e`", pos(s), name)
		}
		id, ok := x.Lhs[0].(*ast.Ident)
		if !ok || id.Name == iv || id.Name == lenVar || id.Name == outv || id.Name == errv {
			refuse("%s: %s: loop body assignment target", pos(s), name)
		}
		for _, p := range ps {
			if p.name == id.Name {
				refuse("%s: %s: parameter %s assigned in the loop", pos(s), name, p.name)
			}
		}
		if usesIdent(x.Rhs[0], outv) || usesIdent(x.Rhs[0], errv) {
			refuse("%s: %s: output slice read in the loop", pos(s), name)
		}
		for v := range isBodyVar {
			if !written[v] && usesIdent(x.Rhs[0], v) {
				refuse("%s: %s: %s is read before it is written in the loop body (loop-carried value)", pos(s), name, v)
			}
		}
		inner += c.assign(x, isep)
		written[id.Name] = true
	}
	last, ok := stmts[len(stmts)-1].(*ast.AssignStmt)
	if !ok || last.Tok != token.ASSIGN || len(last.Lhs) != 1 || len(last.Rhs) != 1 {
		refuse("%s: %s: last loop statement must be `out[i] = e`", pos(loop), name)
	}
	ix, ok := last.Lhs[0].(*ast.IndexExpr)
	if !ok {
		refuse("%s: %s: last loop statement must be `out[i] = e`", pos(loop), name)
	}
	if b, ok := ix.X.(*ast.Ident); !ok || b.Name != outv {
		refuse("%s: %s: last loop statement must be `out[i] = e`", pos(loop), name)
	}
	if k, ok := ix.Index.(*ast.Ident); !ok || k.Name != iv {
		refuse("%s: %s: last loop statement must be `out[i] = e`", pos(loop), name)
	}
	if usesIdent(last.Rhs[0], outv) || usesIdent(last.Rhs[0], errv) {
		refuse("%s: %s: output slice read in the loop", pos(loop), name)
	}
	for v := range isBodyVar {
		if !written[v] && usesIdent(last.Rhs[0], v) {
			refuse("%s: %s: %s read before written", pos(loop), name, v)
		}
	}
	inner += c.expr(last.Rhs[0])
	body += "some ((List.range " + ident(lenVar) + ").map fun " + ident(iv) + " =>" + isep + inner + ")"
	return fmt.Sprintf("def %s%s : Option (List Nat) :=\n  %s\n", name, leanParams(ps), body)
}

// checkBitReverse64 ties the primitive `bitRev64` of Lattigo/Word.lean to utils/utils.go: the body of
// utils.BitReverse64 must be exactly `return bits.Reverse64(uint64(index)) >> (64 - bitLen)`.
func checkBitReverse64(file *ast.File) {
	for _, fd := range funcsOf(file) {
		if fd.Name.Name != "BitReverse64" {
			continue
		}
		bad := func() { refuse("%s: utils.BitReverse64 is not `return bits.Reverse64(uint64(index)) >> (64 - bitLen)`", pos(fd)) }
		ps := fd.Type.Params.List
		if len(ps) != 2 || len(ps[0].Names) != 1 || len(ps[1].Names) != 1 || fd.Body == nil || len(fd.Body.List) != 1 {
			bad()
		}
		if t, ok := ps[1].Type.(*ast.Ident); !ok || t.Name != "int" {
			bad()
		}
		if fd.Type.Results == nil || len(fd.Type.Results.List) != 1 {
			bad()
		}
		if t, ok := fd.Type.Results.List[0].Type.(*ast.Ident); !ok || t.Name != "uint64" {
			bad()
		}
		x, n := ps[0].Names[0].Name, ps[1].Names[0].Name
		r, ok := fd.Body.List[0].(*ast.ReturnStmt)
		if !ok || len(r.Results) != 1 {
			bad()
		}
		c := &ctx{known: map[string]fnInfo{}, pairs: map[string]bool{}, windows: map[string]string{}}
		// print with the ordinary expression printer, bits.Reverse64 being the primitive reverse64
		sh, ok := r.Results[0].(*ast.BinaryExpr)
		if !ok || sh.Op != token.SHR {
			bad()
		}
		call, ok := sh.X.(*ast.CallExpr)
		if !ok || len(call.Args) != 1 {
			bad()
		}
		if sel, ok := call.Fun.(*ast.SelectorExpr); !ok || sel.Sel.Name != "Reverse64" {
			bad()
		} else if p, ok := sel.X.(*ast.Ident); !ok || p.Name != "bits" {
			bad()
		}
		got := "(u64shr (reverse64 " + c.expr(call.Args[0]) + ") " + c.expr(sh.Y) + ")"
		want := "(u64shr (reverse64 " + ident(x) + ") (u64sub 64 " + ident(n) + "))"
		if got != want {
			bad()
		}
		return
	}
	refuse("utils/utils.go: BitReverse64 not found")
}

// ---- constants ----

func constInt(file *ast.File, name string) (string, bool) {
	for _, d := range file.Decls {
		gd, ok := d.(*ast.GenDecl)
		if !ok || (gd.Tok != token.CONST && gd.Tok != token.VAR) {
			continue
		}
		for _, sp := range gd.Specs {
			vs := sp.(*ast.ValueSpec)
			for i, n := range vs.Names {
				if n.Name == name && i < len(vs.Values) {
					if l, ok := vs.Values[i].(*ast.BasicLit); ok && l.Kind == token.INT {
						v, err := strconv.ParseUint(strings.ReplaceAll(l.Value, "_", ""), 0, 64)
						if err == nil {
							return strconv.FormatUint(v, 10), true
						}
					}
				}
			}
		}
	}
	return "", false
}

func parse(path string) *ast.File {
	f, err := parser.ParseFile(fset, path, nil, 0)
	if err != nil {
		refuse("parse %s: %v", path, err)
	}
	return f
}

func funcsOf(f *ast.File) []*ast.FuncDecl {
	var out []*ast.FuncDecl
	for _, d := range f.Decls {
		if fd, ok := d.(*ast.FuncDecl); ok && fd.Recv == nil {
			out = append(out, fd)
		}
	}
	return out
}

const header = "-- GENERATED by tools/go2lean from %s — do not edit; regenerated on every run.\nimport Lattigo.Word\nset_option linter.unusedVariables false\nnamespace Lattigo.Gen\n\n"

func main() {
	repo := flag.String("repo", "/repo", "repository root")
	out := flag.String("out", "", "output directory")
	selftest := flag.String("selftest", "", "print every top-level function of this Go file in typed mode to stdout (debugging aid)")
	flag.Parse()
	if *selftest != "" {
		runSelftest(*selftest)
		return
	}
	if *out == "" {
		fmt.Fprintln(os.Stderr, "need -out")
		os.Exit(2)
	}
	defer func() {
		if r := recover(); r != nil {
			if rf, ok := r.(refusal); ok {
				fmt.Fprintln(os.Stderr, "go2lean: REFUSED:", rf.msg)
				os.Exit(2)
			}
			panic(r)
		}
	}()
	if err := os.MkdirAll(*out, 0o755); err != nil {
		panic(err)
	}
	summary := map[string]interface{}{}
	hash := func(p string) string {
		b, _ := os.ReadFile(p)
		return fmt.Sprintf("%x", sha256.Sum256(b))
	}

	// 1. modular_reduction.go
	mrPath := filepath.Join(*repo, "ring/modular_reduction.go")
	mr := parse(mrPath)
	known := map[string]fnInfo{}
	skipped := map[string]string{"GenBRedConstant": "uses math/big; hand-modelled as floor(2^128/q) and tied by correspondence"}
	var sb strings.Builder
	fmt.Fprintf(&sb, header, "ring/modular_reduction.go")
	// CRed is used by earlier functions in vec_ops only; order in file is fine except none calls forward.
	var names []string
	for _, fd := range funcsOf(mr) {
		if _, ok := skipped[fd.Name.Name]; ok {
			continue
		}
		txt, n := translateScalarFunc(fd, known)
		known[fd.Name.Name] = fnInfo{fd.Name.Name, n}
		sb.WriteString(txt + "\n")
		names = append(names, fd.Name.Name)
	}
	sb.WriteString("end Lattigo.Gen\n")
	must(os.WriteFile(filepath.Join(*out, "ModRed.lean"), []byte(sb.String()), 0o644))
	summary["modred"] = names
	summary["modred_skipped"] = skipped
	summary["modred_sha256"] = hash(mrPath)

	// 2. butterflies from ntt.go
	nttPath := filepath.Join(*repo, "ring/ntt.go")
	ntt := parse(nttPath)
	sb.Reset()
	fmt.Fprintf(&sb, header, "ring/ntt.go (butterfly, invbutterfly)")
	found := 0
	for _, fd := range funcsOf(ntt) {
		if fd.Name.Name == "butterfly" || fd.Name.Name == "invbutterfly" {
			txt, n := translateScalarFunc(fd, known)
			known[fd.Name.Name] = fnInfo{fd.Name.Name, n}
			sb.WriteString(txt + "\n")
			found++
		}
	}
	if found != 2 {
		refuse("ring/ntt.go: butterfly/invbutterfly not both found")
	}
	if v, ok := constInt(ntt, "MinimumRingDegreeForLoopUnrolledNTT"); ok {
		fmt.Fprintf(&sb, "def MinimumRingDegreeForLoopUnrolledNTT : Nat := %s\n\n", v)
	} else {
		refuse("ring/ntt.go: MinimumRingDegreeForLoopUnrolledNTT not found")
	}
	sb.WriteString("end Lattigo.Gen\n")
	must(os.WriteFile(filepath.Join(*out, "Butterfly.lean"), []byte("import Lattigo.Gen.ModRed\n"+sb.String()), 0o644))
	summary["ntt_sha256"] = hash(nttPath)

	// 3. kernels of vec_ops.go
	voPath := filepath.Join(*repo, "ring/vec_ops.go")
	vo := parse(voPath)
	sb.Reset()
	fmt.Fprintf(&sb, header, "ring/vec_ops.go")
	var metas []kernelMeta
	for _, fd := range funcsOf(vo) {
		txt, m := translateKernel(fd, known)
		sb.WriteString(txt + "\n")
		metas = append(metas, m)
	}
	sort.Slice(metas, func(i, j int) bool { return metas[i].Name < metas[j].Name })
	sb.WriteString("def kernelNames : List String := [")
	for i, m := range metas {
		if i > 0 {
			sb.WriteString(", ")
		}
		sb.WriteString(strconv.Quote(m.Name))
	}
	sb.WriteString("]\n\n")
	sb.WriteString("/-- (kernel, its slice parameters in order, the slice all 8 statements of its loop body write) -/\n")
	sb.WriteString("def kernelSigs : List (String × List String × String) := [\n")
	for i, m := range metas {
		if i > 0 {
			sb.WriteString(",\n")
		}
		var sl []string
		for _, p := range m.Params {
			if strings.HasSuffix(p, ":slice") {
				sl = append(sl, strings.TrimSuffix(p, ":slice"))
			}
		}
		fmt.Fprintf(&sb, "  (%s, %s, %s)", strconv.Quote(m.Name), leanStrList(sl), strconv.Quote(m.Out))
	}
	sb.WriteString("]\n\nend Lattigo.Gen\n")
	must(os.WriteFile(filepath.Join(*out, "VecLanes.lean"), []byte("import Lattigo.Gen.ModRed\n"+sb.String()), 0o644))
	summary["kernels"] = metas
	summary["vecops_sha256"] = hash(voPath)

	// 4. SubRing wrappers of subring_ops.go
	soPath := filepath.Join(*repo, "ring/subring_ops.go")
	so := parse(soPath)
	kmap := map[string]kernelMeta{}
	for _, m := range metas {
		kmap[m.Name] = m
	}
	sb.Reset()
	fmt.Fprintf(&sb, header, "ring/subring_ops.go")
	wtxt, wmetas, delegates := translateSubRingOps(so, kmap)
	sb.WriteString(wtxt)
	sb.WriteString("end Lattigo.Gen\n")
	must(os.WriteFile(filepath.Join(*out, "SubRingOps.lean"), []byte("import Lattigo.Gen.VecLanes\n"+sb.String()), 0o644))
	summary["subring_wrappers"] = wmetas
	summary["subring_delegates"] = delegates
	summary["subringops_sha256"] = hash(soPath)

	// 5. AutomorphismNTTIndex of automorphism.go (+ the definition of utils.BitReverse64 it relies on)
	auPath := filepath.Join(*repo, "ring/automorphism.go")
	au := parse(auPath)
	sb.Reset()
	fmt.Fprintf(&sb, header, "ring/automorphism.go (AutomorphismNTTIndex)")
	foundAut := false
	for _, fd := range funcsOf(au) {
		if fd.Name.Name == "AutomorphismNTTIndex" {
			sb.WriteString(translateTabulate(fd, known) + "\n")
			foundAut = true
		}
	}
	if !foundAut {
		refuse("ring/automorphism.go: AutomorphismNTTIndex not found")
	}
	sb.WriteString("end Lattigo.Gen\n")
	must(os.WriteFile(filepath.Join(*out, "Automorphism.lean"), []byte(sb.String()), 0o644))
	utPath := filepath.Join(*repo, "utils/utils.go")
	checkBitReverse64(parse(utPath))
	summary["automorphism_sha256"] = hash(auPath)
	summary["utils_sha256"] = hash(utPath)

	// 6./7. typed mode (typed.go, typed_main.go): Gen/Galois.lean and Gen/Scalar.lean
	ng, ns := typedFiles(*repo, *out, mr, summary, hash)
	np, nps := v3Files(*repo, *out, summary, hash)
	nlt := lintransFile(*repo, *out, summary, hash)

	b, _ := json.MarshalIndent(summary, "", " ")
	must(os.WriteFile(filepath.Join(*out, "gen_summary.json"), b, 0o644))
	fmt.Printf("go2lean: %d scalar functions, 2 butterflies, %d kernels, %d SubRing wrappers (+%d NTT delegations), AutomorphismNTTIndex, %d Galois functions, %d RNS-scalar functions, %d parameter functions, %d polynomial-split functions, %d lintrans index function\n", len(names), len(metas), len(wmetas), len(delegates), ng, ns, np, nps, nlt)
}

func must(err error) {
	if err != nil {
		panic(err)
	}
}
