// go2lean: a deliberately dumb printer of a tiny subset of Go (uint64 straight-line
// code, bits.Mul64/Add64, `if` with assignments or early return, constant-bound `for`,
// and the 8-lane window kernels of ring/vec_ops.go) into Lean 4 definitions over the
// word primitives of Lattigo/Word.lean.  It carries NO semantics of its own: each Go
// operator is printed as the application of one Lean primitive.  On any construct
// outside the subset it refuses (exit 2), so it can never silently mistranslate.
//
// usage: go2lean -repo /repo -out <dir>
package main

import (
	"crypto/sha256"
	"encoding/json"
	"flag"
	"fmt"
	"go/ast"
	"go/parser"
	"go/token"
	"os"
	"path/filepath"
	"sort"
	"strconv"
	"strings"
)

type refusal struct{ msg string }

func refuse(format string, a ...interface{}) {
	panic(refusal{fmt.Sprintf(format, a...)})
}

var fset = token.NewFileSet()

func pos(n ast.Node) string { return fset.Position(n.Pos()).String() }

var leanReserved = map[string]bool{"at": true, "from": true, "fun": true, "show": true, "have": true, "let": true, "in": true, "if": true, "then": true, "else": true, "do": true, "end": true, "def": true, "theorem": true, "by": true, "with": true, "match": true, "open": true, "where": true, "instance": true, "class": true, "structure": true, "deriving": true, "import": true, "namespace": true, "section": true, "variable": true, "universe": true, "Type": true, "Prop": true, "Sort": true, "mut": true, "for": true, "return": true, "W": true}

func ident(s string) string {
	if leanReserved[s] {
		return s + "_"
	}
	return s
}

// ---- translation context ----

type fnInfo struct {
	name     string
	nresults int
}

type ctx struct {
	known   map[string]fnInfo // translated functions callable by name
	pairs   map[string]bool   // identifiers of type [2]uint64 (printed as Nat × Nat)
	windows map[string]string // kernel mode: window var -> slice param
	tmp     int
	// lane mode: a window reference x[k] is printed as the scalar parameter named after its
	// slice; k must equal laneIdx (a cross-lane reference is refused).
	laneMode bool
	laneIdx  int
}

func (c *ctx) fresh() string { c.tmp++; return fmt.Sprintf("t%d_", c.tmp) }

func tupleOf(names []string) string {
	if len(names) == 0 {
		return "()"
	}
	if len(names) == 1 {
		return names[0]
	}
	return "(" + strings.Join(names, ", ") + ")"
}

// projection i of an n-tuple (right nested pairs)
func proj(v string, i, n int) string {
	if n == 1 {
		return v
	}
	s := v
	for k := 0; k < i; k++ {
		s += ".2"
	}
	if i < n-1 {
		s += ".1"
	}
	return s
}

var binops = map[token.Token]string{
	token.ADD: "u64add", token.SUB: "u64sub", token.MUL: "u64mul",
	token.SHL: "u64shl", token.SHR: "u64shr", token.AND: "u64and", token.OR: "u64or", token.XOR: "u64xor",
	token.GEQ: "u64ge", token.GTR: "u64gt", token.LEQ: "u64le", token.LSS: "u64lt", token.EQL: "u64eq", token.NEQ: "u64ne",
}

var assignops = map[token.Token]token.Token{
	token.ADD_ASSIGN: token.ADD, token.SUB_ASSIGN: token.SUB, token.MUL_ASSIGN: token.MUL,
	token.SHL_ASSIGN: token.SHL, token.SHR_ASSIGN: token.SHR, token.AND_ASSIGN: token.AND, token.OR_ASSIGN: token.OR, token.XOR_ASSIGN: token.XOR,
}

func (c *ctx) expr(e ast.Expr) string {
	switch x := e.(type) {
	case *ast.Ident:
		if x.Name == "_" || x.Name == "true" || x.Name == "false" || x.Name == "nil" {
			refuse("%s: identifier %q not supported", pos(e), x.Name)
		}
		return ident(x.Name)
	case *ast.BasicLit:
		if x.Kind != token.INT {
			refuse("%s: literal %s not supported", pos(e), x.Value)
		}
		v, err := strconv.ParseUint(strings.ReplaceAll(x.Value, "_", ""), 0, 64)
		if err != nil {
			refuse("%s: literal %s: %v", pos(e), x.Value, err)
		}
		return strconv.FormatUint(v, 10)
	case *ast.ParenExpr:
		return c.expr(x.X)
	case *ast.BinaryExpr:
		if x.Op == token.LAND {
			return "(" + c.expr(x.X) + " && " + c.expr(x.Y) + ")"
		}
		if x.Op == token.LOR {
			return "(" + c.expr(x.X) + " || " + c.expr(x.Y) + ")"
		}
		f, ok := binops[x.Op]
		if !ok {
			refuse("%s: operator %s not supported", pos(e), x.Op)
		}
		return "(" + f + " " + c.expr(x.X) + " " + c.expr(x.Y) + ")"
	case *ast.UnaryExpr:
		switch x.Op {
		case token.SUB:
			return "(u64neg " + c.expr(x.X) + ")"
		case token.NOT:
			return "(!" + c.expr(x.X) + ")"
		}
		refuse("%s: unary %s not supported", pos(e), x.Op)
	case *ast.IndexExpr:
		id, ok := x.X.(*ast.Ident)
		if !ok {
			refuse("%s: index base not an identifier", pos(e))
		}
		lit, ok := x.Index.(*ast.BasicLit)
		if !ok || lit.Kind != token.INT {
			refuse("%s: non-literal index", pos(e))
		}
		k, _ := strconv.Atoi(lit.Value)
		if c.pairs[id.Name] {
			if k == 0 {
				return ident(id.Name) + ".1"
			} else if k == 1 {
				return ident(id.Name) + ".2"
			}
			refuse("%s: index %d out of [2]uint64", pos(e), k)
		}
		if sl, ok := c.windows[id.Name]; ok {
			if k < 0 || k > 7 {
				refuse("%s: window index %d out of range", pos(e), k)
			}
			if c.laneMode {
				if k != c.laneIdx {
					refuse("%s: cross-lane reference %s[%d] in lane %d", pos(e), id.Name, k, c.laneIdx)
				}
				return ident(sl)
			}
			return "(" + ident(sl) + " " + strconv.Itoa(k) + ")"
		}
		refuse("%s: indexing %s not supported", pos(e), id.Name)
	case *ast.CallExpr:
		return c.call(x)
	}
	refuse("%s: expression %T not supported", pos(e), e)
	return ""
}

func (c *ctx) call(x *ast.CallExpr) string {
	var name string
	switch f := x.Fun.(type) {
	case *ast.Ident:
		name = f.Name
	case *ast.SelectorExpr:
		if p, ok := f.X.(*ast.Ident); ok {
			name = p.Name + "." + f.Sel.Name
		}
	}
	args := make([]string, len(x.Args))
	for i, a := range x.Args {
		args[i] = c.expr(a)
	}
	switch name {
	case "bits.Mul64":
		return "(mul64 " + strings.Join(args, " ") + ")"
	case "bits.Add64":
		return "(add64 " + strings.Join(args, " ") + ")"
	case "bits.Len64":
		return "(len64 " + strings.Join(args, " ") + ")"
	case "uint64":
		// conversion of an already-unsigned word expression: identity on the model
		return args[0]
	}
	if _, ok := c.known[name]; ok {
		return "(" + name + " " + strings.Join(args, " ") + ")"
	}
	refuse("%s: call to %q not supported", pos(x), name)
	return ""
}

func (c *ctx) nresults(e ast.Expr) int {
	call, ok := e.(*ast.CallExpr)
	if !ok {
		return 1
	}
	switch f := call.Fun.(type) {
	case *ast.SelectorExpr:
		if p, ok := f.X.(*ast.Ident); ok && p.Name == "bits" && (f.Sel.Name == "Mul64" || f.Sel.Name == "Add64") {
			return 2
		}
	case *ast.Ident:
		if k, ok := c.known[f.Name]; ok {
			return k.nresults
		}
	}
	return 1
}

// assigned collects identifiers assigned in a statement list (in first-assignment order).
func assigned(stmts []ast.Stmt, acc *[]string, seen map[string]bool, declared map[string]bool) {
	for _, s := range stmts {
		switch x := s.(type) {
		case *ast.AssignStmt:
			for _, l := range x.Lhs {
				id, ok := l.(*ast.Ident)
				if !ok {
					refuse("%s: assignment target not an identifier", pos(l))
				}
				if id.Name == "_" {
					continue
				}
				if x.Tok == token.DEFINE {
					declared[id.Name] = true
					continue
				}
				if !seen[id.Name] && !declared[id.Name] {
					seen[id.Name] = true
					*acc = append(*acc, id.Name)
				}
			}
		case *ast.IfStmt:
			if x.Else != nil || x.Init != nil {
				refuse("%s: if with else/init not supported", pos(x))
			}
			assigned(x.Body.List, acc, seen, declared)
		case *ast.DeclStmt:
			gd := x.Decl.(*ast.GenDecl)
			for _, sp := range gd.Specs {
				for _, n := range sp.(*ast.ValueSpec).Names {
					declared[n.Name] = true
				}
			}
		case *ast.IncDecStmt:
			id := x.X.(*ast.Ident)
			if !seen[id.Name] && !declared[id.Name] {
				seen[id.Name] = true
				*acc = append(*acc, id.Name)
			}
		default:
			refuse("%s: statement %T not supported inside a block", pos(s), s)
		}
	}
}

func endsInReturn(stmts []ast.Stmt) bool {
	if len(stmts) == 0 {
		return false
	}
	_, ok := stmts[len(stmts)-1].(*ast.ReturnStmt)
	return ok
}

// stmts translates a statement list into a Lean term; `fall` is the term to produce
// when control falls off the end (named results tuple, or the tuple of assigned vars
// for an inner block). sep is the separator between lets.
func (c *ctx) stmts(list []ast.Stmt, fall string, sep string) string {
	if len(list) == 0 {
		return fall
	}
	s, rest := list[0], list[1:]
	switch x := s.(type) {
	case *ast.ReturnStmt:
		if len(rest) != 0 {
			refuse("%s: code after return", pos(s))
		}
		if len(x.Results) == 0 {
			return fall
		}
		rs := make([]string, len(x.Results))
		for i, r := range x.Results {
			rs[i] = c.expr(r)
		}
		return tupleOf(rs)
	case *ast.DeclStmt:
		gd, ok := x.Decl.(*ast.GenDecl)
		if !ok || gd.Tok != token.VAR {
			refuse("%s: declaration not supported", pos(s))
		}
		out := ""
		for _, sp := range gd.Specs {
			vs := sp.(*ast.ValueSpec)
			if len(vs.Values) != 0 {
				refuse("%s: var with initialiser not supported", pos(s))
			}
			if id, ok := vs.Type.(*ast.Ident); !ok || (id.Name != "uint64" && id.Name != "int") {
				refuse("%s: var of non-word type", pos(s))
			}
			for _, n := range vs.Names {
				out += "let " + ident(n.Name) + " := 0" + sep
			}
		}
		return out + c.stmts(rest, fall, sep)
	case *ast.IncDecStmt:
		id, ok := x.X.(*ast.Ident)
		if !ok {
			refuse("%s: inc/dec target", pos(s))
		}
		op := "u64add"
		if x.Tok == token.DEC {
			op = "u64sub"
		}
		return "let " + ident(id.Name) + " := " + op + " " + ident(id.Name) + " 1" + sep + c.stmts(rest, fall, sep)
	case *ast.AssignStmt:
		return c.assign(x, sep) + c.stmts(rest, fall, sep)
	case *ast.IfStmt:
		if x.Else != nil || x.Init != nil {
			refuse("%s: if with else/init not supported", pos(x))
		}
		cond := c.expr(x.Cond)
		if endsInReturn(x.Body.List) {
			return "if " + cond + " then (" + c.stmts(x.Body.List, fall, "; ") + ") else (" + c.stmts(rest, fall, "; ") + ")"
		}
		var vs []string
		assigned(x.Body.List, &vs, map[string]bool{}, map[string]bool{})
		if len(vs) == 0 {
			refuse("%s: if body assigns nothing", pos(x))
		}
		ivs := make([]string, len(vs))
		for i, v := range vs {
			ivs[i] = ident(v)
		}
		tup := tupleOf(ivs)
		body := c.stmts(x.Body.List, tup, "; ")
		if len(vs) == 1 {
			return "let " + ivs[0] + " := if " + cond + " then (" + body + ") else " + ivs[0] + sep + c.stmts(rest, fall, sep)
		}
		t := c.fresh()
		out := "let " + t + " := if " + cond + " then (" + body + ") else " + tup + sep
		for i, v := range ivs {
			out += "let " + v + " := " + proj(t, i, len(ivs)) + sep
		}
		return out + c.stmts(rest, fall, sep)
	case *ast.ForStmt:
		n := constBound(x)
		var vs []string
		assigned(x.Body.List, &vs, map[string]bool{}, map[string]bool{})
		if len(vs) == 0 {
			refuse("%s: loop body assigns nothing", pos(x))
		}
		ivs := make([]string, len(vs))
		for i, v := range vs {
			ivs[i] = ident(v)
		}
		tup := tupleOf(ivs)
		st := c.fresh()
		unpack := ""
		for i, v := range ivs {
			unpack += "let " + v + " := " + proj(st, i, len(ivs)) + "; "
		}
		body := c.stmts(x.Body.List, tup, "; ")
		t := c.fresh()
		out := "let " + t + " := loopN " + strconv.Itoa(n) + " (fun " + st + " => " + unpack + body + ") " + tup + sep
		for i, v := range ivs {
			out += "let " + v + " := " + proj(t, i, len(ivs)) + sep
		}
		return out + c.stmts(rest, fall, sep)
	}
	refuse("%s: statement %T not supported", pos(s), s)
	return ""
}

// constBound recognises `for i := 0; i < K; i++ {…}` with literal K and i unused in the body.
func constBound(f *ast.ForStmt) int {
	as, ok := f.Init.(*ast.AssignStmt)
	if !ok || as.Tok != token.DEFINE || len(as.Lhs) != 1 || len(as.Rhs) != 1 {
		refuse("%s: loop init not `i := 0`", pos(f))
	}
	iv := as.Lhs[0].(*ast.Ident).Name
	if l, ok := as.Rhs[0].(*ast.BasicLit); !ok || l.Value != "0" {
		refuse("%s: loop init not 0", pos(f))
	}
	be, ok := f.Cond.(*ast.BinaryExpr)
	if !ok || be.Op != token.LSS {
		refuse("%s: loop cond not `i < K`", pos(f))
	}
	if id, ok := be.X.(*ast.Ident); !ok || id.Name != iv {
		refuse("%s: loop cond var", pos(f))
	}
	kl, ok := be.Y.(*ast.BasicLit)
	if !ok || kl.Kind != token.INT {
		refuse("%s: loop bound not a literal", pos(f))
	}
	inc, ok := f.Post.(*ast.IncDecStmt)
	if !ok || inc.Tok != token.INC || inc.X.(*ast.Ident).Name != iv {
		refuse("%s: loop post not `i++`", pos(f))
	}
	used := false
	ast.Inspect(f.Body, func(n ast.Node) bool {
		if id, ok := n.(*ast.Ident); ok && id.Name == iv {
			used = true
		}
		return true
	})
	if used {
		refuse("%s: loop variable used in body", pos(f))
	}
	k, _ := strconv.Atoi(kl.Value)
	return k
}

func (c *ctx) assign(x *ast.AssignStmt, sep string) string {
	if op, ok := assignops[x.Tok]; ok {
		if len(x.Lhs) != 1 || len(x.Rhs) != 1 {
			refuse("%s: op-assign arity", pos(x))
		}
		id, ok := x.Lhs[0].(*ast.Ident)
		if !ok {
			refuse("%s: op-assign target", pos(x))
		}
		return "let " + ident(id.Name) + " := " + binops[op] + " " + ident(id.Name) + " " + c.expr(x.Rhs[0]) + sep
	}
	if x.Tok != token.ASSIGN && x.Tok != token.DEFINE {
		refuse("%s: assignment token %s", pos(x), x.Tok)
	}
	names := make([]string, len(x.Lhs))
	for i, l := range x.Lhs {
		id, ok := l.(*ast.Ident)
		if !ok {
			refuse("%s: assignment target not an identifier", pos(l))
		}
		names[i] = id.Name
	}
	if len(x.Rhs) == 1 {
		n := c.nresults(x.Rhs[0])
		if n != len(names) {
			refuse("%s: arity mismatch %d vs %d", pos(x), n, len(names))
		}
		if n == 1 {
			if names[0] == "_" {
				refuse("%s: blank single assignment", pos(x))
			}
			return "let " + ident(names[0]) + " := " + c.expr(x.Rhs[0]) + sep
		}
		t := c.fresh()
		out := "let " + t + " := " + c.expr(x.Rhs[0]) + sep
		for i, nm := range names {
			if nm == "_" {
				continue
			}
			out += "let " + ident(nm) + " := " + proj(t, i, n) + sep
		}
		return out
	}
	if len(x.Rhs) != len(names) {
		refuse("%s: tuple assignment arity", pos(x))
	}
	// parallel assignment: evaluate all right-hand sides first
	tmps := make([]string, len(names))
	out := ""
	for i, r := range x.Rhs {
		tmps[i] = c.fresh()
		out += "let " + tmps[i] + " := " + c.expr(r) + sep
	}
	for i, nm := range names {
		if nm == "_" {
			continue
		}
		out += "let " + ident(nm) + " := " + tmps[i] + sep
	}
	return out
}

// ---- function-level ----

type param struct {
	name string
	kind string // "word", "pair", "slice"
}

func params(fd *ast.FuncDecl, c *ctx) []param {
	var ps []param
	for _, f := range fd.Type.Params.List {
		kind := ""
		switch t := f.Type.(type) {
		case *ast.Ident:
			if t.Name == "uint64" || t.Name == "int" {
				kind = "word"
			}
		case *ast.ArrayType:
			el, ok := t.Elt.(*ast.Ident)
			if ok && el.Name == "uint64" {
				if t.Len == nil {
					kind = "slice"
				} else if l, ok := t.Len.(*ast.BasicLit); ok && l.Value == "2" {
					kind = "pair"
				}
			}
		}
		if kind == "" {
			refuse("%s: parameter type not supported", pos(f))
		}
		for _, n := range f.Names {
			ps = append(ps, param{n.Name, kind})
			if kind == "pair" {
				c.pairs[n.Name] = true
			}
		}
	}
	return ps
}

func leanParams(ps []param) string {
	out := ""
	for _, p := range ps {
		switch p.kind {
		case "word":
			out += " (" + ident(p.name) + " : Nat)"
		case "pair":
			out += " (" + ident(p.name) + " : Nat × Nat)"
		case "slice":
			out += " (" + ident(p.name) + " : Nat → Nat)"
		}
	}
	return out
}

func natTuple(n int) string {
	if n == 1 {
		return "Nat"
	}
	s := make([]string, n)
	for i := range s {
		s[i] = "Nat"
	}
	return strings.Join(s, " × ")
}

func translateScalarFunc(fd *ast.FuncDecl, known map[string]fnInfo) (string, int) {
	c := &ctx{known: known, pairs: map[string]bool{}, windows: map[string]string{}}
	ps := params(fd, c)
	for _, p := range ps {
		if p.kind == "slice" {
			refuse("%s: slice parameter in scalar function", pos(fd))
		}
	}
	if fd.Type.Results == nil {
		refuse("%s: no results", pos(fd))
	}
	var named []string
	nres := 0
	for _, r := range fd.Type.Results.List {
		id, ok := r.Type.(*ast.Ident)
		if !ok || id.Name != "uint64" {
			refuse("%s: result type not uint64", pos(r))
		}
		if len(r.Names) == 0 {
			nres++
		}
		for _, n := range r.Names {
			named = append(named, ident(n.Name))
			nres++
		}
	}
	pre := ""
	fall := "0"
	if len(named) > 0 {
		for _, n := range named {
			pre += "  let " + n + " := 0\n"
		}
		fall = tupleOf(named)
	} else if !endsInReturn(fd.Body.List) {
		refuse("%s: unnamed results and no final return", pos(fd))
	}
	body := c.stmts(fd.Body.List, fall, "\n  ")
	return fmt.Sprintf("def %s%s : %s :=\n%s  %s\n", fd.Name.Name, leanParams(ps), natTuple(nres), pre, body), nres
}

// ---- kernels ----

type kernelMeta struct {
	Name    string            `json:"name"`
	Out     string            `json:"out"`
	Windows map[string]string `json:"windows"`
	Params  []string          `json:"params"`
}

func translateKernel(fd *ast.FuncDecl, known map[string]fnInfo) (string, kernelMeta) {
	c := &ctx{known: known, pairs: map[string]bool{}, windows: map[string]string{}}
	ps := params(fd, c)
	if fd.Type.Results != nil {
		refuse("%s: kernel with results", pos(fd))
	}
	meta := kernelMeta{Name: fd.Name.Name, Windows: map[string]string{}}
	for _, p := range ps {
		meta.Params = append(meta.Params, p.name+":"+p.kind)
	}
	var pre []ast.Stmt
	var loop *ast.ForStmt
	for i, s := range fd.Body.List {
		if f, ok := s.(*ast.ForStmt); ok {
			loop = f
			if i != len(fd.Body.List)-1 {
				refuse("%s: statements after the kernel loop", pos(fd))
			}
			break
		}
		pre = append(pre, s)
	}
	if loop == nil {
		refuse("%s: kernel without loop", pos(fd))
	}
	// prelude: `N := len(p)` (dropped) and scalar lets
	var lenVar, lenOf string
	var preLets []ast.Stmt
	for _, s := range pre {
		as, ok := s.(*ast.AssignStmt)
		if ok && len(as.Rhs) == 1 {
			if call, ok := as.Rhs[0].(*ast.CallExpr); ok {
				if id, ok := call.Fun.(*ast.Ident); ok && id.Name == "len" {
					lenVar = as.Lhs[0].(*ast.Ident).Name
					lenOf = call.Args[0].(*ast.Ident).Name
					continue
				}
			}
		}
		preLets = append(preLets, s)
	}
	if lenVar == "" {
		refuse("%s: kernel without `N := len(p)`", pos(fd))
	}
	_ = lenOf
	// loop header: j := 0; j < N; j = j + 8
	as, ok := loop.Init.(*ast.AssignStmt)
	if !ok || len(as.Lhs) != 1 {
		refuse("%s: kernel loop init", pos(loop))
	}
	jv := as.Lhs[0].(*ast.Ident).Name
	if l, ok := as.Rhs[0].(*ast.BasicLit); !ok || l.Value != "0" {
		refuse("%s: kernel loop must start at 0", pos(loop))
	}
	be, ok := loop.Cond.(*ast.BinaryExpr)
	if !ok || be.Op != token.LSS || be.X.(*ast.Ident).Name != jv {
		refuse("%s: kernel loop cond must be `j < N`", pos(loop))
	}
	if id, ok := be.Y.(*ast.Ident); !ok || id.Name != lenVar {
		refuse("%s: kernel loop bound must be N", pos(loop))
	}
	okPost := false
	if pa, ok := loop.Post.(*ast.AssignStmt); ok && len(pa.Lhs) == 1 && len(pa.Rhs) == 1 {
		if pa.Tok == token.ASSIGN {
			if b, ok := pa.Rhs[0].(*ast.BinaryExpr); ok && b.Op == token.ADD {
				if bx, ok := b.X.(*ast.Ident); ok && bx.Name == jv {
					if l, ok := b.Y.(*ast.BasicLit); ok && l.Value == "8" {
						okPost = true
					}
				}
			}
		} else if pa.Tok == token.ADD_ASSIGN {
			if l, ok := pa.Rhs[0].(*ast.BasicLit); ok && l.Value == "8" {
				okPost = true
			}
		}
	}
	if !okPost {
		refuse("%s: kernel loop step must be `j = j + 8`", pos(loop))
	}
	// body: windows then 8 lane statements
	type lane struct {
		idx int
		out string
		rhs string
	}
	var lanes []lane
	lane0 := ""
	for _, s := range loop.Body.List {
		as, ok := s.(*ast.AssignStmt)
		if !ok || len(as.Lhs) != 1 || len(as.Rhs) != 1 {
			refuse("%s: kernel body statement", pos(s))
		}
		if as.Tok == token.DEFINE {
			// x := (*[8]uint64)(unsafe.Pointer(&p1[j]))
			wv := as.Lhs[0].(*ast.Ident).Name
			sl := windowBase(as.Rhs[0], jv)
			if sl == "" {
				refuse("%s: window declaration not `(*[8]uint64)(unsafe.Pointer(&p[j]))`", pos(s))
			}
			c.windows[wv] = sl
			meta.Windows[wv] = sl
			continue
		}
		ix, ok := as.Lhs[0].(*ast.IndexExpr)
		if !ok {
			refuse("%s: lane target", pos(s))
		}
		wv := ix.X.(*ast.Ident).Name
		sl, ok := c.windows[wv]
		if !ok {
			refuse("%s: lane target is not a window", pos(s))
		}
		lit, ok := ix.Index.(*ast.BasicLit)
		if !ok {
			refuse("%s: lane index", pos(s))
		}
		k, _ := strconv.Atoi(lit.Value)
		rhs := c.expr(as.Rhs[0])
		if op, ok := assignops[as.Tok]; ok {
			rhs = "(" + binops[op] + " (" + ident(sl) + " " + strconv.Itoa(k) + ") " + rhs + ")"
		} else if as.Tok != token.ASSIGN {
			refuse("%s: lane assignment token", pos(s))
		}
		if len(lanes) == 0 {
			c.laneMode, c.laneIdx = true, k
			lane0 = c.expr(as.Rhs[0])
			if op, ok := assignops[as.Tok]; ok {
				lane0 = "(" + binops[op] + " " + ident(sl) + " " + lane0 + ")"
			}
			c.laneMode = false
		}
		lanes = append(lanes, lane{k, sl, rhs})
	}
	if len(lanes) != 8 {
		refuse("%s: kernel has %d lane statements, want 8", pos(fd), len(lanes))
	}
	for _, l := range lanes {
		if l.out != lanes[0].out {
			refuse("%s: lanes write different slices", pos(fd))
		}
	}
	meta.Out = lanes[0].out
	pl := c.stmts(preLets, "", "\n  ")
	out := fmt.Sprintf("def %s_lanes%s : List (Nat × Nat) :=\n  %s[", fd.Name.Name, leanParams(ps), pl)
	for i, l := range lanes {
		if i > 0 {
			out += ",\n   "
		}
		out += fmt.Sprintf("(%d, %s)", l.idx, l.rhs)
	}
	out += "]\n\n"
	// the single-lane function (lane 0 with window references replaced by scalars) and the
	// obligation that all 8 lanes are that function of their own index only
	lp := ""
	app := ""
	for _, p := range ps {
		if p.kind == "pair" {
			lp += " (" + ident(p.name) + " : Nat × Nat)"
			app += " " + ident(p.name)
		} else {
			lp += " (" + ident(p.name) + " : Nat)"
			if p.kind == "slice" {
				app += " (" + ident(p.name) + " k)"
			} else {
				app += " " + ident(p.name)
			}
		}
	}
	out += fmt.Sprintf("def %s_lane%s : Nat :=\n  %s%s\n\n", fd.Name.Name, lp, pl, lane0)
	args := ""
	for _, p := range ps {
		args += " " + ident(p.name)
	}
	out += fmt.Sprintf("theorem %s_uniform%s :\n    %s_lanes%s = lanes8 (fun k => %s_lane%s) := rfl\n", fd.Name.Name, leanParams(ps), fd.Name.Name, args, fd.Name.Name, app)
	return out, meta
}

func windowBase(e ast.Expr, jv string) string {
	// (*[8]uint64)(unsafe.Pointer(&p[j]))
	call, ok := e.(*ast.CallExpr)
	if !ok || len(call.Args) != 1 {
		return ""
	}
	par, ok := call.Fun.(*ast.ParenExpr)
	if !ok {
		return ""
	}
	st, ok := par.X.(*ast.StarExpr)
	if !ok {
		return ""
	}
	at, ok := st.X.(*ast.ArrayType)
	if !ok {
		return ""
	}
	if l, ok := at.Len.(*ast.BasicLit); !ok || l.Value != "8" {
		return ""
	}
	if el, ok := at.Elt.(*ast.Ident); !ok || el.Name != "uint64" {
		return ""
	}
	up, ok := call.Args[0].(*ast.CallExpr)
	if !ok || len(up.Args) != 1 {
		return ""
	}
	if sel, ok := up.Fun.(*ast.SelectorExpr); !ok || sel.Sel.Name != "Pointer" {
		return ""
	}
	un, ok := up.Args[0].(*ast.UnaryExpr)
	if !ok || un.Op != token.AND {
		return ""
	}
	ix, ok := un.X.(*ast.IndexExpr)
	if !ok {
		return ""
	}
	if id, ok := ix.Index.(*ast.Ident); !ok || id.Name != jv {
		return ""
	}
	sl, ok := ix.X.(*ast.Ident)
	if !ok {
		return ""
	}
	return sl.Name
}

// ---- constants ----

func constInt(file *ast.File, name string) (string, bool) {
	for _, d := range file.Decls {
		gd, ok := d.(*ast.GenDecl)
		if !ok || (gd.Tok != token.CONST && gd.Tok != token.VAR) {
			continue
		}
		for _, sp := range gd.Specs {
			vs := sp.(*ast.ValueSpec)
			for i, n := range vs.Names {
				if n.Name == name && i < len(vs.Values) {
					if l, ok := vs.Values[i].(*ast.BasicLit); ok && l.Kind == token.INT {
						v, err := strconv.ParseUint(strings.ReplaceAll(l.Value, "_", ""), 0, 64)
						if err == nil {
							return strconv.FormatUint(v, 10), true
						}
					}
				}
			}
		}
	}
	return "", false
}

func parse(path string) *ast.File {
	f, err := parser.ParseFile(fset, path, nil, 0)
	if err != nil {
		refuse("parse %s: %v", path, err)
	}
	return f
}

func funcsOf(f *ast.File) []*ast.FuncDecl {
	var out []*ast.FuncDecl
	for _, d := range f.Decls {
		if fd, ok := d.(*ast.FuncDecl); ok && fd.Recv == nil {
			out = append(out, fd)
		}
	}
	return out
}

const header = "-- GENERATED by tools/go2lean from %s — do not edit; regenerated on every run.\nimport Lattigo.Word\nset_option linter.unusedVariables false\nnamespace Lattigo.Gen\n\n"

func main() {
	repo := flag.String("repo", "/repo", "repository root")
	out := flag.String("out", "", "output directory")
	flag.Parse()
	if *out == "" {
		fmt.Fprintln(os.Stderr, "need -out")
		os.Exit(2)
	}
	defer func() {
		if r := recover(); r != nil {
			if rf, ok := r.(refusal); ok {
				fmt.Fprintln(os.Stderr, "go2lean: REFUSED:", rf.msg)
				os.Exit(2)
			}
			panic(r)
		}
	}()
	if err := os.MkdirAll(*out, 0o755); err != nil {
		panic(err)
	}
	summary := map[string]interface{}{}
	hash := func(p string) string {
		b, _ := os.ReadFile(p)
		return fmt.Sprintf("%x", sha256.Sum256(b))
	}

	// 1. modular_reduction.go
	mrPath := filepath.Join(*repo, "ring/modular_reduction.go")
	mr := parse(mrPath)
	known := map[string]fnInfo{}
	skipped := map[string]string{"GenBRedConstant": "uses math/big; hand-modelled as floor(2^128/q) and tied by correspondence"}
	var sb strings.Builder
	fmt.Fprintf(&sb, header, "ring/modular_reduction.go")
	// CRed is used by earlier functions in vec_ops only; order in file is fine except none calls forward.
	var names []string
	for _, fd := range funcsOf(mr) {
		if _, ok := skipped[fd.Name.Name]; ok {
			continue
		}
		txt, n := translateScalarFunc(fd, known)
		known[fd.Name.Name] = fnInfo{fd.Name.Name, n}
		sb.WriteString(txt + "\n")
		names = append(names, fd.Name.Name)
	}
	sb.WriteString("end Lattigo.Gen\n")
	must(os.WriteFile(filepath.Join(*out, "ModRed.lean"), []byte(sb.String()), 0o644))
	summary["modred"] = names
	summary["modred_skipped"] = skipped
	summary["modred_sha256"] = hash(mrPath)

	// 2. butterflies from ntt.go
	nttPath := filepath.Join(*repo, "ring/ntt.go")
	ntt := parse(nttPath)
	sb.Reset()
	fmt.Fprintf(&sb, header, "ring/ntt.go (butterfly, invbutterfly)")
	found := 0
	for _, fd := range funcsOf(ntt) {
		if fd.Name.Name == "butterfly" || fd.Name.Name == "invbutterfly" {
			txt, n := translateScalarFunc(fd, known)
			known[fd.Name.Name] = fnInfo{fd.Name.Name, n}
			sb.WriteString(txt + "\n")
			found++
		}
	}
	if found != 2 {
		refuse("ring/ntt.go: butterfly/invbutterfly not both found")
	}
	if v, ok := constInt(ntt, "MinimumRingDegreeForLoopUnrolledNTT"); ok {
		fmt.Fprintf(&sb, "def MinimumRingDegreeForLoopUnrolledNTT : Nat := %s\n\n", v)
	} else {
		refuse("ring/ntt.go: MinimumRingDegreeForLoopUnrolledNTT not found")
	}
	sb.WriteString("end Lattigo.Gen\n")
	must(os.WriteFile(filepath.Join(*out, "Butterfly.lean"), []byte("import Lattigo.Gen.ModRed\n"+sb.String()), 0o644))
	summary["ntt_sha256"] = hash(nttPath)

	// 3. kernels of vec_ops.go
	voPath := filepath.Join(*repo, "ring/vec_ops.go")
	vo := parse(voPath)
	sb.Reset()
	fmt.Fprintf(&sb, header, "ring/vec_ops.go")
	var metas []kernelMeta
	for _, fd := range funcsOf(vo) {
		txt, m := translateKernel(fd, known)
		sb.WriteString(txt + "\n")
		metas = append(metas, m)
	}
	sort.Slice(metas, func(i, j int) bool { return metas[i].Name < metas[j].Name })
	sb.WriteString("def kernelNames : List String := [")
	for i, m := range metas {
		if i > 0 {
			sb.WriteString(", ")
		}
		sb.WriteString(strconv.Quote(m.Name))
	}
	sb.WriteString("]\n\nend Lattigo.Gen\n")
	must(os.WriteFile(filepath.Join(*out, "VecLanes.lean"), []byte("import Lattigo.Gen.ModRed\n"+sb.String()), 0o644))
	summary["kernels"] = metas
	summary["vecops_sha256"] = hash(voPath)

	b, _ := json.MarshalIndent(summary, "", " ")
	must(os.WriteFile(filepath.Join(*out, "gen_summary.json"), b, 0o644))
	fmt.Printf("go2lean: %d scalar functions, 2 butterflies, %d kernels\n", len(names), len(metas))
}

func must(err error) {
	if err != nil {
		panic(err)
	}
}
