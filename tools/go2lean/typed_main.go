package main

import (
	"fmt"
	"go/ast"
	"os"
	"path/filepath"
	"strings"
)

// sigOfPlain: the typed-mode signature of a function printed by the untyped mode (ring/modular_reduction.go).
func sigOfPlain(fd *ast.FuncDecl, pkg string) (tsig, bool) {
	sg := tsig{pkg: pkg}
	for _, f := range fd.Type.Params.List {
		t := wordType(f.Type)
		if t == "" {
			return sg, false
		}
		for range f.Names {
			sg.params = append(sg.params, t)
		}
	}
	if fd.Type.Results == nil {
		return sg, false
	}
	for _, r := range fd.Type.Results.List {
		t := wordType(r.Type)
		if !isWord(t) {
			return sg, false
		}
		n := len(r.Names)
		if n == 0 {
			n = 1
		}
		for i := 0; i < n; i++ {
			sg.results = append(sg.results, t)
		}
	}
	return sg, true
}

func findFunc(file *ast.File, name string) *ast.FuncDecl {
	for _, fd := range funcsOf(file) {
		if fd.Name.Name == name {
			return fd
		}
	}
	return nil
}

// typedFiles writes Gen/Galois.lean and Gen/Scalar.lean.
func typedFiles(repo, out string, modred *ast.File, summary map[string]interface{}, hash func(string) string) (int, int) {
	sigs := map[string]tsig{}
	skipped := map[string]bool{"GenBRedConstant": true}
	for _, fd := range funcsOf(modred) {
		if skipped[fd.Name.Name] {
			continue
		}
		if sg, ok := sigOfPlain(fd, "ring"); ok {
			sigs[fd.Name.Name] = sg
		}
	}
	ringPath := filepath.Join(repo, "ring/ring.go")
	utilsPath := filepath.Join(repo, "ring/utils.go")
	scalarPath := filepath.Join(repo, "ring/scalar.go")
	paramsPath := filepath.Join(repo, "core/rlwe/params.go")
	ringF, utilsF, scalarF, paramsF := parse(ringPath), parse(utilsPath), parse(scalarPath), parse(paramsPath)

	// constants of package ring
	ringConsts := map[string]tconst{}
	var constDefs strings.Builder
	typeIsInt := false
	for _, d := range ringF.Decls {
		if gd, ok := d.(*ast.GenDecl); ok {
			for _, sp := range gd.Specs {
				if ts, ok := sp.(*ast.TypeSpec); ok && ts.Name.Name == "Type" {
					if id, ok := ts.Type.(*ast.Ident); ok && id.Name == "int" {
						typeIsInt = true
					}
				}
			}
		}
	}
	if !typeIsInt {
		refuse("ring/ring.go: `type Type int` not found")
	}
	for _, cn := range []string{"GaloisGen", "Standard", "ConjugateInvariant"} {
		v, typ, ok := ringConst(ringF, cn)
		if !ok {
			refuse("ring/ring.go: integer constant %s not found", cn)
		}
		switch typ {
		case "uint64":
		case "Type":
			typ = "int"
		default:
			refuse("ring/ring.go: constant %s has unsupported type %q", cn, typ)
		}
		ringConsts[cn] = tconst{lean: cn, typ: typ}
		fmt.Fprintf(&constDefs, "/-- `ring.%s` (ring/ring.go) -/\ndef %s : Nat := %s\n\n", cn, cn, v)
	}

	// ---- Gen/Galois.lean
	var sb strings.Builder
	fmt.Fprintf(&sb, header, "ring/ring.go (constants), ring/utils.go (ModExp, ModExpPow2), core/rlwe/params.go (Galois elements)")
	sb.WriteString(constDefs.String())
	var gmetas []tfuncMeta
	ringEnv := tenv{sigs: sigs, curPkg: "ring", consts: ringConsts, pkg: "", pkgConsts: map[string]tconst{}}
	for _, fn := range []string{"ModExp", "ModExpPow2"} {
		fd := findFunc(utilsF, fn)
		if fd == nil {
			refuse("ring/utils.go: %s not found", fn)
		}
		txt, m := translateTypedFunc(fd, "ring/utils.go: func "+fn, ringEnv)
		sb.WriteString(txt + "\n")
		gmetas = append(gmetas, m)
	}
	// the explicit parameters: check the declarations that give their types
	if fd := methodDecl(ringF, "Ring", "NthRoot"); fd == nil || len(fd.Type.Params.List) != 0 || fd.Type.Results == nil ||
		len(fd.Type.Results.List) != 1 || exprText(fd.Type.Results.List[0].Type) != "uint64" {
		refuse("ring/ring.go: `func (r Ring) NthRoot() uint64` not found")
	}
	if t := structField(paramsF, "Parameters", "ringQ"); t == nil || exprText(t) != "*ring.Ring" {
		refuse("core/rlwe/params.go: field `ringQ *ring.Ring` of Parameters not found")
	}
	if t := structField(paramsF, "Parameters", "ringType"); t == nil || exprText(t) != "ring.Type" {
		refuse("core/rlwe/params.go: field `ringType ring.Type` of Parameters not found")
	}
	if !constAlias(paramsF, "GaloisGen", "ring") {
		refuse("core/rlwe/params.go: `const GaloisGen uint64 = ring.GaloisGen` not found")
	}
	rlweEnv := tenv{sigs: sigs, curPkg: "rlwe", consts: map[string]tconst{"GaloisGen": ringConsts["GaloisGen"]}, pkg: "ring",
		pkgConsts: ringConsts, recvType: "Parameters", gtypes: map[string]string{"NthRoot": "uint64", "ringType": "int"}}
	for _, fn := range []string{"GaloisElement", "GaloisElements", "ModInvGaloisElement", "GaloisElementOrderTwoOrthogonalSubgroup", "SolveDiscreteLogGaloisElement"} {
		fd := methodDecl(paramsF, "Parameters", fn)
		if fd == nil {
			refuse("core/rlwe/params.go: method %s not found", fn)
		}
		goName := "core/rlwe/params.go: func (p Parameters) " + fn
		var txt string
		var m tfuncMeta
		if fn == "GaloisElements" {
			txt, m = translateMapRange(fd, goName, rlweEnv)
		} else {
			txt, m = translateTypedFunc(fd, goName, rlweEnv)
		}
		sb.WriteString(txt + "\n")
		gmetas = append(gmetas, m)
	}
	sb.WriteString("end Lattigo.Gen\n")
	must(os.WriteFile(filepath.Join(out, "Galois.lean"), []byte("import Lattigo.Gen.ModRed\nimport Lattigo.Model.BRedConst\n"+sb.String()), 0o644))
	summary["galois"] = gmetas
	summary["ring_sha256"] = hash(ringPath)
	summary["ringutils_sha256"] = hash(utilsPath)
	summary["rlweparams_sha256"] = hash(paramsPath)

	// ---- Gen/Scalar.lean
	sb.Reset()
	fmt.Fprintf(&sb, header, "ring/utils.go (ModexpMontgomery), ring/scalar.go (per-modulus loop bodies)")
	var smetas []tfuncMeta
	fd := findFunc(utilsF, "ModexpMontgomery")
	if fd == nil {
		refuse("ring/utils.go: ModexpMontgomery not found")
	}
	txt, m := translateTypedFunc(fd, "ring/utils.go: func ModexpMontgomery", ringEnv)
	sb.WriteString(txt + "\n")
	smetas = append(smetas, m)
	for _, fn := range []string{"NewRNSScalarFromUInt64", "MFormRNSScalar", "NegRNSScalar", "SubRNSScalar", "MulRNSScalar", "Inverse"} {
		fd := methodDecl(scalarF, "Ring", fn)
		if fd == nil {
			refuse("ring/scalar.go: method %s not found", fn)
		}
		txt, m := translateRangeBody(fd, ringEnv)
		sb.WriteString(txt + "\n")
		smetas = append(smetas, m)
	}
	sb.WriteString("end Lattigo.Gen\n")
	must(os.WriteFile(filepath.Join(out, "Scalar.lean"), []byte("import Lattigo.Gen.ModRed\nimport Lattigo.Model.BRedConst\n"+sb.String()), 0o644))
	summary["scalar"] = smetas
	summary["ringscalar_sha256"] = hash(scalarPath)
	return len(gmetas), len(smetas)
}

// runSelftest prints every top-level function of a Go file in typed mode (or the refusal).
func runSelftest(path string) {
	file := parse(path)
	sigs := map[string]tsig{}
	for _, fd := range funcsOf(file) {
		func() {
			defer func() {
				if r := recover(); r != nil {
					if rf, ok := r.(refusal); ok {
						fmt.Printf("-- %s: REFUSED: %s\n\n", fd.Name.Name, rf.msg)
						return
					}
					panic(r)
				}
			}()
			env := tenv{sigs: sigs, curPkg: "ring", consts: map[string]tconst{}, pkgConsts: map[string]tconst{}}
			txt, _ := translateTypedFunc(fd, path+": func "+fd.Name.Name, env)
			fmt.Println(txt)
		}()
	}
}
