// typed.go — the second mode of the printer ("typed mode"), used for
//
//	core/rlwe/params.go : GaloisElement, GaloisElements, ModInvGaloisElement,
//	                      GaloisElementOrderTwoOrthogonalSubgroup, SolveDiscreteLogGaloisElement
//	ring/utils.go       : ModExp, ModExpPow2, ModexpMontgomery
//	ring/scalar.go      : the per-modulus bodies of NewRNSScalarFromUInt64, MFormRNSScalar,
//	                      NegRNSScalar, SubRNSScalar, MulRNSScalar, Inverse
//
// It is still only a printer: every Go operator becomes the application of ONE primitive of
// Lattigo/Word.lean, chosen by the (declared) Go type of its operands; anything outside the subset
// below is refused (exit 2).
//
// THE SUBSET (typed mode)
//
//	types        uint64, int (locals, parameters, results), [2]uint64 (parameters / GenBRedConstant)
//	int          a Go `int` is printed as its 64-bit two's-complement WORD (a Nat < 2^64), exactly as
//	             the conversions uint64(k) / int(u) see it (both are printed as the identity).
//	             + - * & | ^ << == != unary- are the same word operation for both types (u64add …);
//	             the operations that depend on the sign are printed with their own primitives:
//	             < <= > >=  ->  i64lt i64le i64gt i64ge,   >>  ->  i64shr (arithmetic shift);
//	             % on uint64 is u64mod (a zero divisor is a Go run-time panic, outside the model);
//	             for `/`, and `%` on int, see "v3 additions" below.
//	             Mixing int and uint64 operands in one operator is refused (Go refuses it too);
//	             an untyped integer literal takes the type of the other operand.
//	statements   x := e | x = e | x op= e | x++ | x-- | var x, y T | return [e…] |
//	             if c {assignments} [else {assignments}] | if c { …; return … } |
//	             if c { panic("…") }            (function result becomes Option, none = panic)
//	loops        `for [v := e]; cond; v >>= K {body}` with cond `v > 0` (uint64 or int) or `v != 0`
//	             (uint64), K a literal >= 1 and v not assigned in the body ("rule S": the loop shifts
//	             a 64-bit word right in every iteration, so at most 64 iterations run)
//	                 -> loopWhile 64 cond body state
//	             `for { body }` whose body contains `if c { return e }`: no bound can be read off the
//	             syntax                -> loopWhile fuel … with `fuel` an EXPLICIT first parameter of
//	             the generated function, whose result is an Option: `none` = no return within `fuel`
//	             iterations.  Nothing may follow such a loop.
//	             The loop-carried state is the tuple of: the variable declared by the init statement,
//	             then every variable assigned in the body or the post statement that is not declared in
//	             the body, in order of first assignment; a loop that contains `return` carries an extra
//	             first component `ret_ : Option result` and its condition is `ret_.isNone && cond`.
//	             Nested loops, break, continue, goto, labels, switch, defer, closures: refused.
//	calls        functions already printed (by name, or qualified `ring.F`), GenBRedConstant (printed
//	             as the hand-written model `Lattigo.brc`, ring/modular_reduction.go uses math/big),
//	             conversions uint64(e) / int(e), methods of the same receiver already printed.
//	constants    package-level integer constants of ring/ring.go (GaloisGen, Standard,
//	             ConjugateInvariant), the alias `const GaloisGen uint64 = ring.GaloisGen` of rlwe.
//	receivers    a zero-argument getter chain rooted at the receiver (`p.ringQ.NthRoot()`) or a field
//	             read of the receiver (`p.ringType`) is NOT translated: it becomes an explicit
//	             parameter of the generated function, named after the last selector, listed in
//	             gen_summary.json ("getter_params").  Only names in the caller-supplied table are
//	             accepted, and the declarations giving their types are checked in the source.
//	map loops    `out = make([]T, len(in)); for i, v := range in { out[i] = e(v) }; return`
//	                 -> in.map (fun v => e)
//	v3 additions (typed_v3.go: Gen/Params.lean, Gen/PolySplit.lean, Gen/LinTrans.lean)
//	int / %      `/` and `%` on int are printed as i64div / i64mod: Go's TRUNCATED division and its
//	             remainder, exact for all operands (MinInt64 / -1 wraps as in Go); a zero divisor is a
//	             run-time panic, outside the model.  `/` on uint64 is u64div.
//	constants    `1 << k` with an untyped constant on the left keeps the type "untyped" until an operand
//	             or an assignment fixes it (Go's rule); `<<`, + - * & | ^ print the same word operation
//	             for int and uint64, and comparisons / >> / `/` / % of two untyped operands are refused;
//	             unary minus of a constant (`-1`) is u64neg; math.MaxUint64 is its value.
//	slices       []uint64 / []int parameters, locals, named results and receiver FIELDS (explicit
//	             parameters, as for getters; their names get the suffix `_` so that they cannot clash with
//	             a Go local) are `List Nat`:  len(xs) -> sliceLen,  xs[:k] -> sliceTake xs k,
//	             xs[i] -> sliceAt xs i,  make([]T, n) -> sliceMake n,  slices.Max(xs) -> slicesMax xs
//	             ([]uint64 only).  Out-of-range indices / bounds, re-slicing into the capacity and
//	             slices.Max of an empty slice panic or alias in Go: outside the model (the primitives are
//	             total: 0 / shorter list).
//	range fold   `for _, v := range S { assignments to scalars }` with S a slice expression (xs, p.f,
//	             xs[:k+1], p.M())       -> List.foldl (fun (carried) v => …) (carried) S
//	             carried = the scalars assigned in the body, in first-assignment order.  May sit inside an
//	             `if` branch.
//	tabulate     `for i := range xs { xs[i] = e }` (e does not read xs)
//	                                    -> xs := (List.range (sliceLen xs)).map (fun i => e)
//	tuples       `a, b = e1, e2` evaluates both right-hand sides first.
//	panic        `if c { panic(<anything>) }` (fmt.Errorf(…) too) -> none.
//	library      bits.Len64 -> len64 (result int).
//	float64      ONLY `int(math.Exp2(K) / float64(e))` with K a literal and e a uint64: printed as
//	             f64quoToInt (2^K) (f64ofU64 e), exact IEEE-754 binary64 (round to nearest even) followed by
//	             Go's truncation.  (The pre-fix formula of QiOverflowMargin; everything else on floats is
//	             refused: bignum.Polynomial.Depth, FindBestBSGSRatio, LogQ … stay hand-modelled.)
//	generics     a generic function is printed at ONE instantiation given by the caller (utils.Max at int,
//	             as `Max_int`).
//	copy getter  `x := make([]T, len(p.f)); copy(x, p.f); return x`  -> the list p.f itself.
//	range prefix translateRangePrefix: of a function with one loop `for _, v := range <slice parameter>`
//	             only the maximal leading run of assignments to identifiers in the loop body is printed, as
//	             a function of the word parameters and v (BSGSIndex: rot, idxN1, idxN2).  No word
//	             parameter may be assigned anywhere in the function.
//	range bodies `for i, s := range r.SubRings[:r.level+1] { body }` of a *Ring method: only the BODY
//	             is printed, as a function of s.Modulus, s.MRedConstant, s.BRedConstant, the word
//	             parameters and the [i]-th words of the slice parameters; its value is the word it
//	             writes to the (single) output slice at [i].
package main

import (
	"fmt"
	"go/ast"
	"go/token"
	"math/big"
	"strconv"
	"strings"
)

type tsig struct {
	params  []string // Go types of the Go parameters: uint64 | int | pair
	results []string
	getters []string // explicit parameters standing for receiver getters/fields (printed first)
	fuel    bool     // has a leading explicit `fuel` parameter
	opt     bool     // result is an Option
	method  bool
	pkg     string            // Go package the function lives in
	lean    string            // Lean name if different from the Go name (instantiated generics)
	gchain  map[string]string // getter parameter -> normalised Go text of the receiver access
}

type tconst struct {
	lean string
	typ  string
}

type tctx struct {
	sigs      map[string]tsig
	consts    map[string]tconst
	pkg       string            // package qualifier accepted in front of constants ("ring")
	pkgs      map[string]bool   // package qualifiers accepted in front of known functions ("ring", "utils", …)
	curPkg    string            // package of the function being printed
	pkgConsts map[string]tconst // constants reachable as pkg.Name
	types     map[string]string // variable -> uint64 | int | pair
	recv      string
	gtypes    map[string]string // accepted getter / field names of the receiver -> type
	getters   []string          // getter parameters used, in order of first use
	gchain    map[string]string // getter parameter -> Go text of the chain
	tmp       int
	gsuffix   string // appended to the names of the getter parameters ("_": cannot clash with a Go local)

	optMode  bool // function result is an Option
	fuelFn   bool // function has an explicit fuel parameter
	inLoop   bool
	nres     int
	resTypes []string

	// range-body mode
	subIdx, subElem string
	subSlices       map[string]bool
	subOut          []string
}

var reservedNames = map[string]bool{"fuel": true, "ret_": true, "st_": true, "r_": true,
	"loopWhile": true, "loopN": true, "mul64": true, "add64": true, "len64": true, "W": true, "some": true, "none": true}

func checkLocalName(n ast.Node, name string, c *tctx) {
	if reservedNames[name] || strings.HasPrefix(name, "u64") || strings.HasPrefix(name, "i64") || strings.HasSuffix(name, "_") {
		refuse("%s: local name %q collides with a primitive of the target language", pos(n), name)
	}
	if _, ok := c.sigs[name]; ok {
		refuse("%s: local name %q shadows a translated function", pos(n), name)
	}
	if _, ok := c.consts[name]; ok {
		refuse("%s: local name %q shadows a constant", pos(n), name)
	}
	if _, ok := c.gtypes[name]; ok && c.gsuffix == "" {
		refuse("%s: local name %q is named like a receiver getter", pos(n), name)
	}
	if _, ok := subRingFields[name]; ok && c.subElem != "" {
		refuse("%s: local name %q is named like a SubRing field", pos(n), name)
	}
}

func (c *tctx) fresh() string { c.tmp++; return fmt.Sprintf("t%d_", c.tmp) }

func isWord(t string) bool { return t == "uint64" || t == "int" }

// slices of words are "list:uint64" / "list:int" (printed as `List Nat`)
func isList(t string) bool   { return strings.HasPrefix(t, "list:") }
func elemOf(t string) string { return strings.TrimPrefix(t, "list:") }

func unify(n ast.Node, a, b string) string {
	if a == "const" {
		return b
	}
	if b == "const" {
		return a
	}
	if a != b {
		refuse("%s: operands of different types %s and %s", pos(n), a, b)
	}
	return a
}

func leanType(t string) string {
	if t == "pair" {
		return "Nat × Nat"
	}
	if isList(t) {
		return "List Nat"
	}
	if t == "bool" {
		return "Bool"
	}
	return "Nat"
}

func leanTuple(ts []string) string {
	if len(ts) == 1 {
		return leanType(ts[0])
	}
	out := make([]string, len(ts))
	for i, t := range ts {
		out[i] = leanType(t)
		if strings.Contains(out[i], "×") {
			out[i] = "(" + out[i] + ")"
		}
	}
	return strings.Join(out, " × ")
}

var arith = map[token.Token]string{token.ADD: "u64add", token.SUB: "u64sub", token.MUL: "u64mul",
	token.AND: "u64and", token.OR: "u64or", token.XOR: "u64xor"}
var cmpU = map[token.Token]string{token.GEQ: "u64ge", token.GTR: "u64gt", token.LEQ: "u64le", token.LSS: "u64lt"}
var cmpI = map[token.Token]string{token.GEQ: "i64ge", token.GTR: "i64gt", token.LEQ: "i64le", token.LSS: "i64lt"}

func (c *tctx) binop(n ast.Node, op token.Token, xs, xt, ys, yt string) (string, string) {
	switch op {
	case token.LAND, token.LOR:
		if xt != "bool" || yt != "bool" {
			refuse("%s: %s on non-booleans", pos(n), op)
		}
		o := " && "
		if op == token.LOR {
			o = " || "
		}
		return "(" + xs + o + ys + ")", "bool"
	case token.SHL, token.SHR:
		if xt == "const" && op == token.SHL && isWord(yt) {
			// `1 << k`: the untyped constant takes its type from the context; `<<` is the same word
			// operation for int and uint64, so the result stays "const" until the context decides
			return "(u64shl " + xs + " " + ys + ")", "const"
		}
		if !isWord(xt) {
			refuse("%s: shift of a %s", pos(n), xt)
		}
		if !isWord(yt) && yt != "const" {
			refuse("%s: shift count of type %s", pos(n), yt)
		}
		f := "u64shl"
		if op == token.SHR {
			f = "u64shr"
			if xt == "int" {
				f = "i64shr"
			}
		}
		return "(" + f + " " + xs + " " + ys + ")", xt
	case token.EQL, token.NEQ:
		t := unify(n, xt, yt)
		if !isWord(t) {
			refuse("%s: comparison of %s", pos(n), t)
		}
		f := "u64eq"
		if op == token.NEQ {
			f = "u64ne"
		}
		return "(" + f + " " + xs + " " + ys + ")", "bool"
	case token.GEQ, token.GTR, token.LEQ, token.LSS:
		t := unify(n, xt, yt)
		if !isWord(t) {
			refuse("%s: comparison of %s", pos(n), t)
		}
		f := cmpU[op]
		if t == "int" {
			f = cmpI[op]
		}
		return "(" + f + " " + xs + " " + ys + ")", "bool"
	case token.REM, token.QUO:
		t := unify(n, xt, yt)
		if !isWord(t) {
			refuse("%s: %s on %s not supported", pos(n), op, t)
		}
		f := map[string]string{"uint64%": "u64mod", "uint64/": "u64div", "int%": "i64mod", "int/": "i64div"}[t+op.String()]
		return "(" + f + " " + xs + " " + ys + ")", t
	}
	if f, ok := arith[op]; ok {
		t := unify(n, xt, yt)
		if !isWord(t) && t != "const" {
			refuse("%s: operator %s on %s", pos(n), op, t)
		}
		return "(" + f + " " + xs + " " + ys + ")", t
	}
	refuse("%s: operator %s not supported", pos(n), op)
	return "", ""
}

// getter registers the explicit parameter standing for a receiver getter chain / field read.
func (c *tctx) getter(n ast.Node, name, chain string) (string, string) {
	t, ok := c.gtypes[name]
	if !ok {
		refuse("%s: receiver access %s not supported", pos(n), chain)
	}
	if prev, seen := c.gchain[name]; seen {
		if prev != chain {
			refuse("%s: two different receiver accesses %s and %s would share the parameter %s", pos(n), prev, chain, name)
		}
	} else {
		if _, clash := c.types[name]; clash {
			refuse("%s: receiver access %s clashes with a local named %s", pos(n), chain, name)
		}
		c.gchain[name] = chain
		c.getters = append(c.getters, name)
	}
	return ident(name) + c.gsuffix, t
}

// chainText prints a selector chain rooted at the receiver (`p.ringQ.NthRoot`), or "" if e is not one.
func (c *tctx) chainText(e ast.Expr) string {
	switch x := e.(type) {
	case *ast.Ident:
		if c.recv != "" && x.Name == c.recv {
			if _, shadow := c.types[x.Name]; shadow {
				refuse("%s: receiver %s is shadowed", pos(e), x.Name)
			}
			return "recv"
		}
	case *ast.SelectorExpr:
		if b := c.chainText(x.X); b != "" {
			return b + "." + x.Sel.Name
		}
	}
	return ""
}

func (c *tctx) expr(e ast.Expr) (string, string) {
	switch x := e.(type) {
	case *ast.Ident:
		if t, ok := c.types[x.Name]; ok {
			return ident(x.Name), t
		}
		if k, ok := c.consts[x.Name]; ok {
			return k.lean, k.typ
		}
		refuse("%s: identifier %q not supported", pos(e), x.Name)
	case *ast.BasicLit:
		if x.Kind != token.INT {
			refuse("%s: literal %s not supported", pos(e), x.Value)
		}
		v, err := strconv.ParseUint(strings.ReplaceAll(x.Value, "_", ""), 0, 64)
		if err != nil {
			refuse("%s: literal %s: %v", pos(e), x.Value, err)
		}
		return strconv.FormatUint(v, 10), "const"
	case *ast.ParenExpr:
		return c.expr(x.X)
	case *ast.BinaryExpr:
		xs, xt := c.expr(x.X)
		ys, yt := c.expr(x.Y)
		if isLit(x.X) && isLit(x.Y) {
			refuse("%s: constant expression not supported", pos(e))
		}
		return c.binop(e, x.Op, xs, xt, ys, yt)
	case *ast.UnaryExpr:
		xs, xt := c.expr(x.X)
		switch x.Op {
		case token.SUB:
			if !isWord(xt) && xt != "const" {
				refuse("%s: unary - on %s", pos(e), xt)
			}
			return "(u64neg " + xs + ")", xt
		case token.NOT:
			if xt != "bool" {
				refuse("%s: ! on %s", pos(e), xt)
			}
			return "(!" + xs + ")", "bool"
		}
		refuse("%s: unary %s not supported", pos(e), x.Op)
	case *ast.SliceExpr:
		if x.Low != nil || x.High == nil || x.Slice3 {
			refuse("%s: only xs[:k] is supported", pos(e))
		}
		bs, bt := c.expr(x.X)
		if !isList(bt) {
			refuse("%s: slicing a %s", pos(e), bt)
		}
		hs, ht := c.expr(x.High)
		if !isWord(ht) && ht != "const" {
			refuse("%s: slice bound of type %s", pos(e), ht)
		}
		return "(sliceTake " + bs + " " + hs + ")", bt
	case *ast.IndexExpr:
		id, ok := x.X.(*ast.Ident)
		if !ok || isList(c.types[id.Name]) {
			// xs[i] on a slice of words (a local, a parameter or a receiver field)
			bs, bt := c.expr(x.X)
			if !isList(bt) {
				refuse("%s: indexing a %s", pos(e), bt)
			}
			is, it := c.expr(x.Index)
			if !isWord(it) && it != "const" {
				refuse("%s: index of type %s", pos(e), it)
			}
			return "(sliceAt " + bs + " " + is + ")", elemOf(bt)
		}
		if c.subSlices[id.Name] {
			if k, ok := x.Index.(*ast.Ident); !ok || k.Name != c.subIdx {
				refuse("%s: slice %s indexed by something else than the range index", pos(e), id.Name)
			}
			if t, ok := c.types[id.Name]; !ok || t != "uint64" {
				refuse("%s: %s[%s] is read before it is written", pos(e), id.Name, c.subIdx)
			}
			return ident(id.Name), "uint64"
		}
		if c.types[id.Name] == "pair" {
			lit, ok := x.Index.(*ast.BasicLit)
			if !ok || (lit.Value != "0" && lit.Value != "1") {
				refuse("%s: [2]uint64 index", pos(e))
			}
			if lit.Value == "0" {
				return ident(id.Name) + ".1", "uint64"
			}
			return ident(id.Name) + ".2", "uint64"
		}
		refuse("%s: indexing %s not supported", pos(e), id.Name)
	case *ast.SelectorExpr:
		if p, ok := x.X.(*ast.Ident); ok {
			if c.subElem != "" && p.Name == c.subElem {
				k, ok := subRingFields[x.Sel.Name]
				if !ok {
					refuse("%s: SubRing field %s not supported", pos(e), x.Sel.Name)
				}
				if k == "word" {
					k = "uint64"
				}
				return x.Sel.Name, k
			}
			if v, ok := libConsts[p.Name+"."+x.Sel.Name]; ok && p.Name != c.recv {
				if _, shadow := c.types[p.Name]; shadow {
					refuse("%s: %s is shadowed", pos(e), p.Name)
				}
				return v, "const"
			}
			if c.pkg != "" && p.Name == c.pkg {
				if _, shadow := c.types[p.Name]; shadow {
					refuse("%s: %s is shadowed", pos(e), p.Name)
				}
				if k, ok := c.pkgConsts[x.Sel.Name]; ok {
					return k.lean, k.typ
				}
				refuse("%s: %s.%s not supported", pos(e), p.Name, x.Sel.Name)
			}
		}
		if ch := c.chainText(x); ch != "" {
			// field read of the receiver (one level only: `p.ringType`)
			if _, ok := x.X.(*ast.Ident); !ok {
				refuse("%s: receiver access %s not supported", pos(e), ch)
			}
			return c.getter(e, x.Sel.Name, ch)
		}
		refuse("%s: selector not supported", pos(e))
	case *ast.CallExpr:
		return c.call(x)
	}
	refuse("%s: expression %T not supported", pos(e), e)
	return "", ""
}

func (c *tctx) call(x *ast.CallExpr) (string, string) {
	if x.Ellipsis != token.NoPos {
		refuse("%s: variadic call", pos(x))
	}
	name := ""
	method := false
	callPkg := c.curPkg
	switch f := x.Fun.(type) {
	case *ast.Ident:
		name = f.Name
		if _, shadow := c.types[name]; shadow {
			refuse("%s: call of a local", pos(x))
		}
	case *ast.SelectorExpr:
		if p, ok := f.X.(*ast.Ident); ok && (libCalls[p.Name+"."+f.Sel.Name] || c.pkgs[p.Name]) {
			if _, shadow := c.types[p.Name]; shadow {
				refuse("%s: %s is shadowed", pos(x), p.Name)
			}
			if p.Name == c.recv {
				refuse("%s: receiver named like a package", pos(x))
			}
			name = f.Sel.Name
			callPkg = p.Name
			if libCalls[p.Name+"."+f.Sel.Name] {
				return c.libCall(x, p.Name+"."+f.Sel.Name)
			}
		} else if ch := c.chainText(f); ch != "" {
			if p, ok := f.X.(*ast.Ident); ok && p.Name == c.recv {
				if s, ok := c.sigs[f.Sel.Name]; ok && s.method {
					name, method = f.Sel.Name, true
					break
				}
			}
			if len(x.Args) != 0 {
				refuse("%s: receiver access %s(…) with arguments not supported", pos(x), ch)
			}
			return c.getter(x, f.Sel.Name, ch+"()")
		}
	}
	if name == "" {
		refuse("%s: callee not supported", pos(x))
	}
	if _, isFn := x.Fun.(*ast.Ident); isFn && (name == "len" || name == "make" || name == "float64") {
		return c.libCall(x, name)
	}
	switch name {
	case "uint64", "int":
		if len(x.Args) != 1 {
			refuse("%s: conversion arity", pos(x))
		}
		if _, isFn := x.Fun.(*ast.Ident); !isFn {
			refuse("%s: qualified conversion", pos(x))
		}
		if name == "int" {
			// int(x / y) on float64 operands with positive integer values (QiOverflowMargin)
			if q, ok := unparen(x.Args[0]).(*ast.BinaryExpr); ok && q.Op == token.QUO {
				if as, at := c.f64expr(q.X); at == "f64" {
					bs, bt := c.f64expr(q.Y)
					if bt != "f64" {
						refuse("%s: mixed float / integer division", pos(x))
					}
					return "(f64quoToInt " + as + " " + bs + ")", "int"
				}
			}
		}
		s, t := c.expr(x.Args[0])
		if !isWord(t) && t != "const" {
			refuse("%s: conversion of a %s", pos(x), t)
		}
		return s, name
	case "GenBRedConstant":
		if callPkg != "ring" {
			refuse("%s: GenBRedConstant outside package ring", pos(x))
		}
		if len(x.Args) != 1 {
			refuse("%s: GenBRedConstant arity", pos(x))
		}
		s, t := c.expr(x.Args[0])
		if t != "uint64" {
			refuse("%s: GenBRedConstant of a %s", pos(x), t)
		}
		return "(Lattigo.brc " + s + ")", "pair"
	}
	sg, ok := c.sigs[name]
	if !ok {
		refuse("%s: call to %q not supported", pos(x), name)
	}
	if len(sg.results) == 1 && isList(sg.results[0]) && !method {
		refuse("%s: call to %q", pos(x), name)
	}
	if sg.method != method || sg.pkg != callPkg {
		refuse("%s: %q called as the wrong kind of function / from the wrong package", pos(x), name)
	}
	if sg.fuel || sg.opt || len(sg.results) != 1 {
		refuse("%s: call to %q (fuel / Option / multiple results) not supported in an expression", pos(x), name)
	}
	if len(x.Args) != len(sg.params) {
		refuse("%s: call to %q: arity", pos(x), name)
	}
	lname := name
	if sg.lean != "" {
		lname = sg.lean
	}
	out := "(" + lname
	for _, g := range sg.getters {
		// the callee reads the same receiver: hand the caller's getter parameter through
		c.getter(x, g, sg.gchain[g])
		out += " " + ident(g) + c.gsuffix
	}
	for i, a := range x.Args {
		s, t := c.expr(a)
		if unify(a, t, sg.params[i]) != sg.params[i] {
			refuse("%s: argument %d of %q", pos(a), i, name)
		}
		out += " " + s
	}
	return out + ")", sg.results[0]
}

// libCalls are the library functions printed as primitives of Lattigo/Word.lean.
var libCalls = map[string]bool{"bits.Len64": true, "slices.Max": true}

// libConsts are the untyped integer constants of the standard library the printer knows.
var libConsts = map[string]string{"math.MaxUint64": "18446744073709551615"}

func unparen(e ast.Expr) ast.Expr {
	for {
		p, ok := e.(*ast.ParenExpr)
		if !ok {
			return e
		}
		e = p.X
	}
}

func isLit(e ast.Expr) bool {
	_, ok := unparen(e).(*ast.BasicLit)
	return ok
}

func (c *tctx) libCall(x *ast.CallExpr, name string) (string, string) {
	arg := func(i int) (string, string) { return c.expr(x.Args[i]) }
	switch name {
	case "len":
		if len(x.Args) != 1 {
			refuse("%s: len arity", pos(x))
		}
		s, t := arg(0)
		if !isList(t) {
			refuse("%s: len of a %s", pos(x), t)
		}
		return "(sliceLen " + s + ")", "int"
	case "make":
		if len(x.Args) != 2 {
			refuse("%s: only make([]T, n) is supported", pos(x))
		}
		t := valType(x.Args[0], nil)
		if !isList(t) {
			refuse("%s: make of a non-slice", pos(x))
		}
		s, nt := arg(1)
		if !isWord(nt) && nt != "const" {
			refuse("%s: make length of type %s", pos(x), nt)
		}
		return "(sliceMake " + s + ")", t
	case "bits.Len64":
		if len(x.Args) != 1 {
			refuse("%s: bits.Len64 arity", pos(x))
		}
		s, t := arg(0)
		if t != "uint64" {
			refuse("%s: bits.Len64 of a %s", pos(x), t)
		}
		return "(len64 " + s + ")", "int"
	case "slices.Max":
		if len(x.Args) != 1 {
			refuse("%s: slices.Max arity", pos(x))
		}
		s, t := arg(0)
		if t != "list:uint64" {
			refuse("%s: slices.Max of a %s (only []uint64)", pos(x), t)
		}
		return "(slicesMax " + s + ")", "uint64"
	}
	refuse("%s: %s not supported here", pos(x), name)
	return "", ""
}

// f64expr: the two float64 expressions the printer knows, both with POSITIVE INTEGER values, printed as
// that integer: `math.Exp2(K)` (K a literal <= 64) and `float64(e)` for a uint64 `e` (round to
// nearest even: `f64ofU64`).  Returns type "" if e is not one of them.
func (c *tctx) f64expr(e ast.Expr) (string, string) {
	call, ok := unparen(e).(*ast.CallExpr)
	if !ok || len(call.Args) != 1 {
		return "", ""
	}
	switch f := call.Fun.(type) {
	case *ast.Ident:
		if f.Name == "float64" {
			if _, shadow := c.types["float64"]; shadow {
				return "", ""
			}
			s, t := c.expr(call.Args[0])
			if t != "uint64" {
				refuse("%s: float64 of a %s (only uint64)", pos(e), t)
			}
			return "(f64ofU64 " + s + ")", "f64"
		}
	case *ast.SelectorExpr:
		if p, ok := f.X.(*ast.Ident); ok && p.Name == "math" && f.Sel.Name == "Exp2" {
			if _, shadow := c.types["math"]; shadow || c.recv == "math" {
				return "", ""
			}
			l, ok := call.Args[0].(*ast.BasicLit)
			if !ok || l.Kind != token.INT {
				refuse("%s: math.Exp2 of a non-literal", pos(e))
			}
			k, err := strconv.Atoi(l.Value)
			if err != nil || k < 0 || k > 64 {
				refuse("%s: math.Exp2(%s)", pos(e), l.Value)
			}
			v := new(big.Int).Lsh(big.NewInt(1), uint(k))
			return v.String(), "f64"
		}
	}
	return "", ""
}

// ---- statements ----

type frame struct {
	fall string                   // the term when control falls off the end of the block
	ret  func(rs []string) string // the term for `return rs…`
}

// tassigned: the variables assigned in stmts that are not declared inside them, in order of first
// assignment.  Refuses anything but assignments, inc/dec, var, if/else, return.
func (c *tctx) tassigned(stmts []ast.Stmt, acc *[]string, seen, declared map[string]bool) {
	add := func(n string) {
		if !seen[n] && !declared[n] {
			seen[n] = true
			*acc = append(*acc, n)
		}
	}
	for _, s := range stmts {
		switch x := s.(type) {
		case *ast.AssignStmt:
			for _, l := range x.Lhs {
				switch t := l.(type) {
				case *ast.Ident:
					if t.Name == "_" {
						refuse("%s: blank assignment", pos(l))
					}
					if x.Tok == token.DEFINE {
						declared[t.Name] = true
					} else {
						add(t.Name)
					}
				case *ast.IndexExpr:
					id, ok := t.X.(*ast.Ident)
					if !ok || !(c.subSlices[id.Name] || isList(c.types[id.Name])) {
						refuse("%s: assignment target", pos(l))
					}
					add(id.Name)
				default:
					refuse("%s: assignment target", pos(l))
				}
			}
		case *ast.RangeStmt:
			d1 := copySet(declared)
			for _, kv := range []ast.Expr{x.Key, x.Value} {
				if id, ok := kv.(*ast.Ident); ok {
					d1[id.Name] = true
				}
			}
			c.tassigned(x.Body.List, acc, seen, d1)
		case *ast.IncDecStmt:
			id, ok := x.X.(*ast.Ident)
			if !ok {
				refuse("%s: inc/dec target", pos(s))
			}
			add(id.Name)
		case *ast.DeclStmt:
			gd, ok := x.Decl.(*ast.GenDecl)
			if !ok || gd.Tok != token.VAR {
				refuse("%s: declaration not supported", pos(s))
			}
			for _, sp := range gd.Specs {
				for _, n := range sp.(*ast.ValueSpec).Names {
					declared[n.Name] = true
				}
			}
		case *ast.IfStmt:
			if x.Init != nil {
				refuse("%s: if with init not supported", pos(x))
			}
			// declarations inside the branches are local to them
			d1 := copySet(declared)
			c.tassigned(x.Body.List, acc, seen, d1)
			if x.Else != nil {
				eb, ok := x.Else.(*ast.BlockStmt)
				if !ok {
					refuse("%s: else-if not supported", pos(x))
				}
				d2 := copySet(declared)
				c.tassigned(eb.List, acc, seen, d2)
			}
		case *ast.ReturnStmt:
		default:
			refuse("%s: statement %T not supported inside a block", pos(s), s)
		}
	}
}

func copySet(m map[string]bool) map[string]bool {
	o := map[string]bool{}
	for k, v := range m {
		o[k] = v
	}
	return o
}

func copyTypes(m map[string]string) map[string]string {
	o := map[string]string{}
	for k, v := range m {
		o[k] = v
	}
	return o
}

func containsReturn(stmts []ast.Stmt) bool {
	found := false
	for _, s := range stmts {
		ast.Inspect(s, func(n ast.Node) bool {
			if _, ok := n.(*ast.ReturnStmt); ok {
				found = true
			}
			return true
		})
	}
	return found
}

func containsLoop(stmts []ast.Stmt) bool {
	found := false
	for _, s := range stmts {
		ast.Inspect(s, func(n ast.Node) bool {
			switch n.(type) {
			case *ast.ForStmt, *ast.RangeStmt:
				found = true
			}
			return true
		})
	}
	return found
}

// containsForLoop: a `for` statement proper (range loops are plain `let`s and may sit in branches).
func containsForLoop(stmts []ast.Stmt) bool {
	found := false
	for _, s := range stmts {
		ast.Inspect(s, func(n ast.Node) bool {
			if _, ok := n.(*ast.ForStmt); ok {
				found = true
			}
			return true
		})
	}
	return found
}

func isPanicBody(b *ast.BlockStmt) bool {
	if len(b.List) != 1 {
		return false
	}
	es, ok := b.List[0].(*ast.ExprStmt)
	if !ok {
		return false
	}
	call, ok := es.X.(*ast.CallExpr)
	if !ok || len(call.Args) != 1 {
		return false
	}
	id, ok := call.Fun.(*ast.Ident)
	if !ok || id.Name != "panic" {
		return false
	}
	// the argument (a string, fmt.Errorf(…), …) is not evaluated: a panic is `none` whatever it carries
	return true
}

// target resolves an assignment target to (variable name, declared type or "").
func (c *tctx) target(l ast.Expr) string {
	switch t := l.(type) {
	case *ast.Ident:
		if t.Name == "_" {
			refuse("%s: blank assignment", pos(l))
		}
		return t.Name
	case *ast.IndexExpr:
		id, ok := t.X.(*ast.Ident)
		if ok && isList(c.types[id.Name]) {
			refuse("%s: element assignment %s[…] = … is only supported as the whole body of `for i := range %s`", pos(l), id.Name, id.Name)
		}
		if !ok || !c.subSlices[id.Name] {
			refuse("%s: assignment target", pos(l))
		}
		if k, ok := t.Index.(*ast.Ident); !ok || k.Name != c.subIdx {
			refuse("%s: slice %s written at something else than the range index", pos(l), id.Name)
		}
		seen := false
		for _, o := range c.subOut {
			seen = seen || o == id.Name
		}
		if !seen {
			c.subOut = append(c.subOut, id.Name)
		}
		if _, ok := c.types[id.Name]; !ok {
			c.types[id.Name] = "uint64" // first write of an output slice element
		}
		return id.Name
	}
	refuse("%s: assignment target", pos(l))
	return ""
}

func (c *tctx) assignTo(n ast.Node, name string, define bool, s, t string) string {
	if define {
		if _, isIdx := n.(*ast.IndexExpr); isIdx {
			refuse("%s: := on a slice element", pos(n))
		}
		checkLocalName(n, name, c)
		if _, ok := c.gchain[name]; ok {
			refuse("%s: local %s is named like a getter parameter", pos(n), name)
		}
		if t == "const" {
			t = "int"
		}
		if !isWord(t) && t != "pair" && !isList(t) {
			refuse("%s: := of a %s", pos(n), t)
		}
		c.types[name] = t
	} else {
		vt, ok := c.types[name]
		if !ok {
			refuse("%s: assignment to undeclared %s", pos(n), name)
		}
		if unify(n, t, vt) != vt {
			refuse("%s: assignment of a %s to a %s", pos(n), t, vt)
		}
	}
	return "let " + ident(name) + " := " + s
}

func (c *tctx) stmts(list []ast.Stmt, fr frame, sep string) string {
	if len(list) == 0 {
		return fr.fall
	}
	s, rest := list[0], list[1:]
	switch x := s.(type) {
	case *ast.ReturnStmt:
		if len(rest) != 0 {
			refuse("%s: code after return", pos(s))
		}
		if len(x.Results) == 0 {
			return fr.ret(nil)
		}
		if len(x.Results) != c.nres {
			refuse("%s: return arity", pos(s))
		}
		rs := make([]string, len(x.Results))
		for i, r := range x.Results {
			var t string
			rs[i], t = c.wordExpr(r)
			if c.resTypes != nil && unify(r, t, c.resTypes[i]) != c.resTypes[i] {
				refuse("%s: result %d has type %s, want %s", pos(r), i, t, c.resTypes[i])
			}
		}
		return fr.ret(rs)
	case *ast.DeclStmt:
		gd, ok := x.Decl.(*ast.GenDecl)
		if !ok || gd.Tok != token.VAR {
			refuse("%s: declaration not supported", pos(s))
		}
		out := ""
		for _, sp := range gd.Specs {
			vs := sp.(*ast.ValueSpec)
			if len(vs.Values) != 0 {
				refuse("%s: var with initialiser not supported", pos(s))
			}
			id, ok := vs.Type.(*ast.Ident)
			if !ok || !isWord(id.Name) {
				refuse("%s: var of non-word type", pos(s))
			}
			for _, n := range vs.Names {
				checkLocalName(n, n.Name, c)
				c.types[n.Name] = id.Name
				out += "let " + ident(n.Name) + " := 0" + sep
			}
		}
		return out + c.stmts(rest, fr, sep)
	case *ast.IncDecStmt:
		id, ok := x.X.(*ast.Ident)
		if !ok {
			refuse("%s: inc/dec target", pos(s))
		}
		if !isWord(c.types[id.Name]) {
			refuse("%s: inc/dec of a non-word", pos(s))
		}
		op := "u64add"
		if x.Tok == token.DEC {
			op = "u64sub"
		}
		return "let " + ident(id.Name) + " := " + op + " " + ident(id.Name) + " 1" + sep + c.stmts(rest, fr, sep)
	case *ast.AssignStmt:
		return c.assign(x) + sep + c.stmts(rest, fr, sep)
	case *ast.IfStmt:
		return c.ifStmt(x, rest, fr, sep)
	case *ast.ForStmt:
		return c.forStmt(x, rest, fr, sep)
	case *ast.RangeStmt:
		return c.rangeStmt(x) + sep + c.stmts(rest, fr, sep)
	}
	refuse("%s: statement %T not supported", pos(s), s)
	return ""
}

// wordExpr: an expression used as a value (result, right-hand side); literals are fine.
func (c *tctx) wordExpr(e ast.Expr) (string, string) {
	s, t := c.expr(e)
	if t == "bool" {
		refuse("%s: boolean value not supported here", pos(e))
	}
	return s, t
}

func (c *tctx) assign(x *ast.AssignStmt) string {
	if len(x.Lhs) == len(x.Rhs) && len(x.Lhs) > 1 && x.Tok == token.ASSIGN {
		// a, b = e1, e2: all right-hand sides are evaluated before any assignment
		out := ""
		tmps := make([]string, len(x.Rhs))
		tys := make([]string, len(x.Rhs))
		for i, r := range x.Rhs {
			var s string
			s, tys[i] = c.wordExpr(r)
			tmps[i] = c.fresh()
			out += "let " + tmps[i] + " := " + s + "; "
		}
		for i, l := range x.Lhs {
			id, ok := l.(*ast.Ident)
			if !ok || id.Name == "_" {
				refuse("%s: tuple assignment target", pos(l))
			}
			out += c.assignTo(l, id.Name, false, tmps[i], tys[i])
			if i < len(x.Lhs)-1 {
				out += "; "
			}
		}
		return out
	}
	if len(x.Lhs) != 1 || len(x.Rhs) != 1 {
		refuse("%s: only single assignments are supported", pos(x))
	}
	if op, ok := assignops[x.Tok]; ok {
		name := c.target(x.Lhs[0])
		vt, ok := c.types[name]
		if !ok {
			refuse("%s: op-assignment to undeclared %s", pos(x), name)
		}
		ys, yt := c.wordExpr(x.Rhs[0])
		s, t := c.binop(x, op, ident(name), vt, ys, yt)
		if t != vt {
			refuse("%s: op-assignment changes the type", pos(x))
		}
		return "let " + ident(name) + " := " + s
	}
	if x.Tok != token.ASSIGN && x.Tok != token.DEFINE {
		refuse("%s: assignment token %s", pos(x), x.Tok)
	}
	// evaluate the right-hand side BEFORE the target becomes visible (x := f(x) reads the old x)
	s, t := c.wordExpr(x.Rhs[0])
	if x.Tok == token.DEFINE {
		id, ok := x.Lhs[0].(*ast.Ident)
		if !ok {
			refuse("%s: := target", pos(x))
		}
		if _, redecl := c.types[id.Name]; redecl {
			refuse("%s: redeclaration / shadowing of %s not supported", pos(x), id.Name)
		}
		return c.assignTo(x.Lhs[0], id.Name, true, s, t)
	}
	name := c.target(x.Lhs[0])
	return c.assignTo(x.Lhs[0], name, false, s, t)
}

func (c *tctx) ifStmt(x *ast.IfStmt, rest []ast.Stmt, fr frame, sep string) string {
	if x.Init != nil {
		refuse("%s: if with init not supported", pos(x))
	}
	cond, ct := c.expr(x.Cond)
	if ct != "bool" {
		refuse("%s: condition is not a boolean", pos(x))
	}
	if isPanicBody(x.Body) {
		if x.Else != nil || c.inLoop || !c.optMode || c.fuelFn {
			refuse("%s: panic not supported here", pos(x))
		}
		return "if " + cond + " then none else" + sep + c.stmts(rest, fr, sep)
	}
	if endsInReturn(x.Body.List) {
		if x.Else != nil {
			refuse("%s: else after a returning branch not supported", pos(x))
		}
		saved := c.types
		c.types = copyTypes(saved)
		body := c.stmts(x.Body.List, fr, "; ")
		c.types = saved
		return "if " + cond + " then (" + body + ") else (" + c.stmts(rest, fr, "; ") + ")"
	}
	var blocks [][]ast.Stmt
	blocks = append(blocks, x.Body.List)
	if x.Else != nil {
		eb, ok := x.Else.(*ast.BlockStmt)
		if !ok {
			refuse("%s: else-if not supported", pos(x))
		}
		blocks = append(blocks, eb.List)
	}
	for _, b := range blocks {
		if containsReturn(b) || containsForLoop(b) {
			refuse("%s: return / for loop inside a non-returning branch not supported", pos(x))
		}
	}
	var vs []string
	seen := map[string]bool{}
	for _, b := range blocks {
		c.tassigned(b, &vs, seen, map[string]bool{})
	}
	if len(vs) == 0 {
		refuse("%s: if assigns nothing", pos(x))
	}
	// every assigned variable must exist before the if, except an output slice element that BOTH
	// branches write (range-body mode)
	for _, v := range vs {
		if _, ok := c.types[v]; !ok {
			if !(c.subSlices[v] && len(blocks) == 2) {
				refuse("%s: %s assigned in a branch but not declared before", pos(x), v)
			}
		}
	}
	ivs := make([]string, len(vs))
	for i, v := range vs {
		ivs[i] = ident(v)
	}
	tup := tupleOf(ivs)
	saved := c.types
	var terms []string
	var after []map[string]string
	for _, b := range blocks {
		c.types = copyTypes(saved)
		terms = append(terms, c.stmts(b, frame{fall: tup, ret: func([]string) string { refuse("%s: return", pos(x)); return "" }}, "; "))
		after = append(after, c.types)
	}
	c.types = saved
	for _, v := range vs {
		if _, ok := c.types[v]; !ok {
			for _, a := range after {
				if a[v] != "uint64" {
					refuse("%s: %s is not written by both branches", pos(x), v)
				}
			}
			c.types[v] = "uint64"
		}
	}
	els := tup
	if len(blocks) == 2 {
		els = "(" + terms[1] + ")"
	}
	if len(vs) == 1 {
		return "let " + ivs[0] + " := if " + cond + " then (" + terms[0] + ") else " + els + sep + c.stmts(rest, fr, sep)
	}
	t := c.fresh()
	out := "let " + t + " := if " + cond + " then (" + terms[0] + ") else " + els + sep
	for i, v := range ivs {
		out += "let " + v + " := " + proj(t, i, len(ivs)) + sep
	}
	return out + c.stmts(rest, fr, sep)
}

// rangeStmt prints the two supported range loops (both are plain `let`s):
//
//	tabulate   for i := range xs { xs[i] = e }          xs a slice variable, e does not mention xs
//	               -> let xs := (List.range (sliceLen xs)).map (fun i => e)
//	fold       for _, v := range S { assignments }      S a slice expression (xs, p.f, xs[:k], p.M())
//	               -> let (vars) := S.foldl (fun (vars) v => assignments; (vars)) (vars)
//	           the carried variables are the scalars assigned in the body, in first-assignment order
func (c *tctx) rangeStmt(r *ast.RangeStmt) string {
	if c.inLoop {
		refuse("%s: nested loops not supported", pos(r))
	}
	if r.Tok != token.DEFINE {
		refuse("%s: range without :=", pos(r))
	}
	key, _ := r.Key.(*ast.Ident)
	if key == nil {
		refuse("%s: range key", pos(r))
	}
	if containsLoop(r.Body.List) || containsReturn(r.Body.List) {
		refuse("%s: loop / return inside a range body not supported", pos(r))
	}
	if r.Value == nil {
		// tabulate
		xs, ok := r.X.(*ast.Ident)
		if !ok || !isList(c.types[xs.Name]) || c.subSlices[xs.Name] {
			refuse("%s: `for i := range xs` needs a slice variable", pos(r))
		}
		if key.Name == "_" || len(r.Body.List) != 1 {
			refuse("%s: tabulate loop body must be the single statement %s[i] = e", pos(r), xs.Name)
		}
		as, ok := r.Body.List[0].(*ast.AssignStmt)
		if !ok || as.Tok != token.ASSIGN || len(as.Lhs) != 1 || len(as.Rhs) != 1 {
			refuse("%s: tabulate loop body must be %s[i] = e", pos(r), xs.Name)
		}
		ix, ok := as.Lhs[0].(*ast.IndexExpr)
		if !ok {
			refuse("%s: tabulate loop body must be %s[i] = e", pos(r), xs.Name)
		}
		if b, ok := ix.X.(*ast.Ident); !ok || b.Name != xs.Name {
			refuse("%s: tabulate loop writes another slice", pos(r))
		}
		if k, ok := ix.Index.(*ast.Ident); !ok || k.Name != key.Name {
			refuse("%s: tabulate loop writes at another index", pos(r))
		}
		if usesIdent(as.Rhs[0], xs.Name) {
			refuse("%s: tabulate loop reads the slice it writes", pos(r))
		}
		if _, clash := c.types[key.Name]; clash {
			refuse("%s: range variable %s shadows", pos(r), key.Name)
		}
		checkLocalName(key, key.Name, c)
		saved := c.types
		c.types = copyTypes(saved)
		c.types[key.Name] = "int"
		es, et := c.wordExpr(as.Rhs[0])
		c.types = saved
		if unify(as, et, elemOf(c.types[xs.Name])) != elemOf(c.types[xs.Name]) {
			refuse("%s: element type", pos(as))
		}
		return "let " + ident(xs.Name) + " := (List.range (sliceLen " + ident(xs.Name) + ")).map (fun " + ident(key.Name) + " => " + es + ")"
	}
	// fold
	if key.Name != "_" {
		refuse("%s: only `for _, v := range S` is supported (the index is not)", pos(r))
	}
	val, ok := r.Value.(*ast.Ident)
	if !ok || val.Name == "_" {
		refuse("%s: range value", pos(r))
	}
	ss, st := c.expr(r.X)
	if !isList(st) {
		refuse("%s: range over a %s", pos(r), st)
	}
	if _, clash := c.types[val.Name]; clash {
		refuse("%s: range variable %s shadows", pos(r), val.Name)
	}
	checkLocalName(val, val.Name, c)
	var vs []string
	declared := map[string]bool{val.Name: true}
	c.tassigned(r.Body.List, &vs, map[string]bool{}, declared)
	if len(vs) == 0 {
		refuse("%s: range body assigns nothing", pos(r))
	}
	for d := range declared {
		if _, ok := c.types[d]; ok && d != val.Name {
			refuse("%s: range body redeclares %s", pos(r), d)
		}
	}
	names := make([]string, len(vs))
	tys := make([]string, len(vs))
	for i, v := range vs {
		t, ok := c.types[v]
		if !ok || !(isWord(t) || t == "pair") {
			refuse("%s: range-carried %s is not a declared word variable", pos(r), v)
		}
		names[i], tys[i] = ident(v), leanType(t)
	}
	stTy := strings.Join(tys, " × ")
	unpack := ""
	for i, v := range names {
		unpack += "let " + v + " := " + proj("st_", i, len(names)) + "; "
	}
	saved := c.types
	c.types = copyTypes(saved)
	c.types[val.Name] = elemOf(st)
	c.inLoop = true
	body := c.stmts(r.Body.List, frame{fall: tupleOf(names), ret: func([]string) string { refuse("%s: return in a range body", pos(r)); return "" }}, "; ")
	c.inLoop = false
	c.types = saved
	t := c.fresh()
	out := "let " + t + " := List.foldl (fun (st_ : " + stTy + ") (" + ident(val.Name) + " : Nat) => " + unpack + body + ") " + tupleOf(names) + " " + ss
	for i, v := range names {
		out += "; let " + v + " := " + proj(t, i, len(names))
	}
	return out
}

// valType: the printer's type of a Go type expression ("" = unsupported); subst instantiates type
// parameters of a generic function.
func valType(e ast.Expr, subst map[string]string) string {
	switch t := e.(type) {
	case *ast.Ident:
		if t.Name == "uint64" || t.Name == "int" {
			return t.Name
		}
		if s, ok := subst[t.Name]; ok {
			return s
		}
	case *ast.ArrayType:
		el, ok := t.Elt.(*ast.Ident)
		if !ok {
			return ""
		}
		if t.Len == nil {
			if el.Name == "uint64" || el.Name == "int" {
				return "list:" + el.Name
			}
			return ""
		}
		if l, ok := t.Len.(*ast.BasicLit); ok && l.Value == "2" && el.Name == "uint64" {
			return "pair"
		}
	}
	return ""
}

// ruleS recognises `cond: v > 0 | v != 0`, `post: v >>= K` (K literal >= 1), v unassigned in the body.
func (c *tctx) ruleS(f *ast.ForStmt) bool {
	be, ok := f.Cond.(*ast.BinaryExpr)
	if !ok {
		return false
	}
	v, ok := be.X.(*ast.Ident)
	if !ok {
		return false
	}
	if z, ok := be.Y.(*ast.BasicLit); !ok || z.Kind != token.INT || z.Value != "0" {
		return false
	}
	vt := c.types[v.Name]
	if !((be.Op == token.GTR && isWord(vt)) || (be.Op == token.NEQ && vt == "uint64")) {
		return false
	}
	pa, ok := f.Post.(*ast.AssignStmt)
	if !ok || pa.Tok != token.SHR_ASSIGN || len(pa.Lhs) != 1 || len(pa.Rhs) != 1 {
		return false
	}
	if id, ok := pa.Lhs[0].(*ast.Ident); !ok || id.Name != v.Name {
		return false
	}
	kl, ok := pa.Rhs[0].(*ast.BasicLit)
	if !ok || kl.Kind != token.INT {
		return false
	}
	if k, err := strconv.Atoi(kl.Value); err != nil || k < 1 {
		return false
	}
	var vs []string
	c.tassigned(f.Body.List, &vs, map[string]bool{}, map[string]bool{})
	for _, w := range vs {
		if w == v.Name {
			return false
		}
	}
	return true
}

func (c *tctx) forStmt(f *ast.ForStmt, rest []ast.Stmt, fr frame, sep string) string {
	if c.inLoop || containsLoop(f.Body.List) {
		refuse("%s: nested loops not supported", pos(f))
	}
	out := ""
	initVar := ""
	if f.Init != nil {
		as, ok := f.Init.(*ast.AssignStmt)
		if !ok || as.Tok != token.DEFINE || len(as.Lhs) != 1 || len(as.Rhs) != 1 {
			refuse("%s: loop init must be `v := e`", pos(f))
		}
		out += c.assign(as) + sep
		initVar = as.Lhs[0].(*ast.Ident).Name
	}
	hasRet := containsReturn(f.Body.List)
	body := append([]ast.Stmt{}, f.Body.List...)
	if f.Post != nil {
		switch f.Post.(type) {
		case *ast.AssignStmt, *ast.IncDecStmt:
		default:
			refuse("%s: loop post statement", pos(f))
		}
		if endsInReturn(body) {
			refuse("%s: loop body ends in return", pos(f))
		}
		body = append(body, f.Post)
	}
	// carried variables
	var vs []string
	seen := map[string]bool{}
	declared := map[string]bool{}
	if initVar != "" {
		vs = append(vs, initVar)
		seen[initVar] = true
	}
	c.tassigned(body, &vs, seen, declared)
	for d := range declared {
		if _, ok := c.types[d]; ok {
			refuse("%s: loop body redeclares %s", pos(f), d)
		}
	}
	if len(vs) == 0 {
		refuse("%s: loop carries no variable", pos(f))
	}
	for _, v := range vs {
		if t, ok := c.types[v]; !ok || c.subSlices[v] || !(isWord(t) || t == "pair") {
			refuse("%s: loop-carried %s is not a declared word variable", pos(f), v)
		}
	}
	// fuel
	fuel := ""
	infinite := f.Cond == nil
	switch {
	case !infinite && c.ruleS(f):
		fuel = "64"
	case infinite && hasRet && c.fuelFn:
		fuel = "fuel"
		if len(rest) != 0 {
			refuse("%s: statements after an infinite loop", pos(f))
		}
	default:
		refuse("%s: no iteration bound can be read off this loop (supported: `v > 0; v >>= K` and `for { … return … }`)", pos(f))
	}
	if hasRet && !infinite && c.optMode {
		refuse("%s: return inside a conditional loop of an Option function not supported", pos(f))
	}
	// state tuple
	names := make([]string, 0, len(vs)+1)
	tys := make([]string, 0, len(vs)+1)
	if hasRet {
		names = append(names, "ret_")
		tys = append(tys, "Option ("+natTuple(c.nres)+")")
	}
	for _, v := range vs {
		names = append(names, ident(v))
		tys = append(tys, leanType(c.types[v]))
	}
	stTy := strings.Join(tys, " × ")
	unpack := ""
	for i, v := range names {
		unpack += "let " + v + " := " + proj("st_", i, len(names)) + "; "
	}
	condS := "true"
	if f.Cond != nil {
		var ct string
		condS, ct = c.expr(f.Cond)
		if ct != "bool" {
			refuse("%s: loop condition is not a boolean", pos(f))
		}
	}
	if hasRet {
		if infinite {
			condS = "ret_.isNone"
		} else {
			condS = "(ret_.isNone && " + condS + ")"
		}
	}
	carried := names
	if hasRet {
		carried = names[1:]
	}
	inner := frame{fall: tupleOf(names), ret: func([]string) string { refuse("%s: return in a loop", pos(f)); return "" }}
	if hasRet {
		inner.fall = tupleOf(append([]string{"none"}, carried...))
		inner.ret = func(rs []string) string {
			if rs == nil {
				refuse("%s: bare return inside a loop not supported", pos(f))
			}
			return tupleOf(append([]string{"some " + tupleOf(rs)}, carried...))
		}
	}
	saved := c.types
	c.types = copyTypes(saved)
	c.inLoop = true
	bodyS := c.stmts(body, inner, "; ")
	c.inLoop = false
	c.types = saved
	init := tupleOf(names)
	if hasRet {
		init = tupleOf(append([]string{"(none : " + tys[0] + ")"}, carried...))
	}
	t := c.fresh()
	out += "let " + t + " := loopWhile " + fuel + " (fun (st_ : " + stTy + ") => " + unpack + condS + ") (fun (st_ : " + stTy + ") => " + unpack + bodyS + ") " + init + sep
	for i, v := range names {
		if v == "ret_" {
			continue
		}
		out += "let " + v + " := " + proj(t, i, len(names)) + sep
	}
	if initVar != "" {
		// the init variable is scoped to the loop
		delete(c.types, initVar)
	}
	if !hasRet {
		return out + c.stmts(rest, fr, sep)
	}
	if infinite {
		// the loop can only be left by `return`; `none` = not within `fuel` iterations
		return out + proj(t, 0, len(names))
	}
	return out + "match " + proj(t, 0, len(names)) + " with" + sep + "| some r_ => r_" + sep + "| none =>" + sep + c.stmts(rest, fr, sep)
}

// ---- function level ----

type tfuncMeta struct {
	Name    string   `json:"name"`
	Go      string   `json:"go"`
	Params  []string `json:"params"`
	Getters []string `json:"getter_params,omitempty"`
	Fuel    string   `json:"fuel,omitempty"`
	Result  string   `json:"result"`
}

func wordType(e ast.Expr) string {
	switch t := e.(type) {
	case *ast.Ident:
		if t.Name == "uint64" || t.Name == "int" {
			return t.Name
		}
	case *ast.ArrayType:
		if el, ok := t.Elt.(*ast.Ident); ok && el.Name == "uint64" && t.Len != nil {
			if l, ok := t.Len.(*ast.BasicLit); ok && l.Value == "2" {
				return "pair"
			}
		}
	}
	return ""
}

func hasInfiniteLoop(b *ast.BlockStmt) bool {
	found := false
	ast.Inspect(b, func(n ast.Node) bool {
		if f, ok := n.(*ast.ForStmt); ok && f.Cond == nil {
			found = true
		}
		return true
	})
	return found
}

func hasPanic(b *ast.BlockStmt) bool {
	found := false
	ast.Inspect(b, func(n ast.Node) bool {
		if call, ok := n.(*ast.CallExpr); ok {
			if id, ok := call.Fun.(*ast.Ident); ok && id.Name == "panic" {
				found = true
			}
		}
		return true
	})
	return found
}

// newTctx: a context for one function.
type tenv struct {
	sigs      map[string]tsig
	curPkg    string            // package of the file being printed
	consts    map[string]tconst // constants visible unqualified
	pkg       string            // the one package qualifier accepted ("ring" inside rlwe, "" inside ring)
	pkgConsts map[string]tconst // constants visible as pkg.Name
	recvType  string
	gtypes    map[string]string // accepted receiver getters / fields -> type
	pkgs      []string          // package qualifiers accepted in front of printed functions
	typeSubst map[string]string // instantiation of the type parameters of a generic function
	leanName  string            // Lean name of the definition if different from the Go name
	gsuffix   string            // suffix of the getter parameters' names
}

func newTctx(env tenv) *tctx {
	pkgs := map[string]bool{}
	if env.pkg != "" {
		pkgs[env.pkg] = true
	}
	for _, p := range env.pkgs {
		pkgs[p] = true
	}
	return &tctx{sigs: env.sigs, consts: env.consts, pkg: env.pkg, pkgs: pkgs, curPkg: env.curPkg, pkgConsts: env.pkgConsts, gsuffix: env.gsuffix,
		types: map[string]string{}, gtypes: env.gtypes, gchain: map[string]string{}, subSlices: map[string]bool{}}
}

func recvName(fd *ast.FuncDecl, want string, pointer bool) string {
	if fd.Recv == nil || len(fd.Recv.List) != 1 || len(fd.Recv.List[0].Names) != 1 {
		refuse("%s: %s: receiver", pos(fd), fd.Name.Name)
	}
	t := fd.Recv.List[0].Type
	if st, ok := t.(*ast.StarExpr); ok {
		if !pointer {
			refuse("%s: %s: pointer receiver", pos(fd), fd.Name.Name)
		}
		t = st.X
	} else if pointer {
		refuse("%s: %s: value receiver", pos(fd), fd.Name.Name)
	}
	if id, ok := t.(*ast.Ident); !ok || id.Name != want {
		refuse("%s: %s: receiver is not %s", pos(fd), fd.Name.Name, want)
	}
	return fd.Recv.List[0].Names[0].Name
}

// translateTypedFunc prints a function or method in typed mode and registers its signature.
func translateTypedFunc(fd *ast.FuncDecl, goName string, env tenv) (string, tfuncMeta) {
	name := fd.Name.Name
	sigs, gtypes, recvType := env.sigs, env.gtypes, env.recvType
	if _, dup := sigs[name]; dup {
		refuse("%s: %s: a function of this name was already printed", pos(fd), name)
	}
	c := newTctx(env)
	if recvType != "" {
		c.recv = recvName(fd, recvType, false)
	} else if fd.Recv != nil {
		refuse("%s: %s: unexpected receiver", pos(fd), name)
	}
	if fd.Type.TypeParams != nil {
		for _, tp := range fd.Type.TypeParams.List {
			for _, n := range tp.Names {
				if _, ok := env.typeSubst[n.Name]; !ok {
					refuse("%s: %s: type parameter %s is not instantiated", pos(fd), name, n.Name)
				}
			}
		}
	}
	var sg tsig
	sg.method = recvType != ""
	sg.lean = env.leanName
	var pnames []string
	for _, f := range fd.Type.Params.List {
		t := valType(f.Type, env.typeSubst)
		if t == "" {
			refuse("%s: %s: parameter type not supported", pos(f), name)
		}
		for _, n := range f.Names {
			checkLocalName(n, n.Name, c)
			if n.Name == c.recv {
				refuse("%s: %s: parameter shadows the receiver", pos(f), name)
			}
			c.types[n.Name] = t
			sg.params = append(sg.params, t)
			pnames = append(pnames, n.Name)
		}
	}
	if fd.Type.Results == nil {
		refuse("%s: %s: no results", pos(fd), name)
	}
	var named []string
	for _, r := range fd.Type.Results.List {
		t := valType(r.Type, env.typeSubst)
		if !isWord(t) && !isList(t) {
			refuse("%s: %s: result type not supported", pos(r), name)
		}
		if len(r.Names) == 0 {
			sg.results = append(sg.results, t)
		}
		for _, n := range r.Names {
			checkLocalName(n, n.Name, c)
			c.types[n.Name] = t
			named = append(named, n.Name)
			sg.results = append(sg.results, t)
		}
	}
	c.nres = len(sg.results)
	c.resTypes = sg.results
	if len(named) != 0 && len(named) != c.nres {
		refuse("%s: %s: mixed named and unnamed results", pos(fd), name)
	}
	inf, pan := hasInfiniteLoop(fd.Body), hasPanic(fd.Body)
	if inf && pan {
		refuse("%s: %s: infinite loop and panic in one function not supported", pos(fd), name)
	}
	c.optMode, c.fuelFn = inf || pan, inf
	sg.opt, sg.fuel = c.optMode, c.fuelFn
	wrap := func(s string) string {
		if c.optMode {
			return "some " + s
		}
		return s
	}
	pre := ""
	inamed := make([]string, len(named))
	for i, n := range named {
		inamed[i] = ident(n)
		if isList(c.types[n]) {
			pre += "  let " + inamed[i] + " : List Nat := []\n"
		} else {
			pre += "  let " + inamed[i] + " := 0\n"
		}
	}
	fr := frame{}
	fr.ret = func(rs []string) string {
		if rs == nil {
			if len(named) == 0 {
				refuse("%s: %s: bare return without named results", pos(fd), name)
			}
			return wrap(tupleOf(inamed))
		}
		return wrap(tupleOf(rs))
	}
	if len(named) > 0 {
		fr.fall = wrap(tupleOf(inamed))
	} else {
		fr.fall = "0"
		if !endsInReturn(fd.Body.List) && !inf {
			refuse("%s: %s: unnamed results and no final return", pos(fd), name)
		}
	}
	body := c.stmts(fd.Body.List, fr, "\n  ")
	sg.getters = c.getters
	sg.gchain = c.gchain
	sg.pkg = env.curPkg
	lp := ""
	meta := tfuncMeta{Name: name, Go: goName}
	if sg.fuel {
		lp += " (fuel : Nat)"
		meta.Fuel = "explicit parameter `fuel` (for { … return … }: no bound readable from the syntax); none = no return within fuel iterations"
	} else if strings.Contains(body, "loopWhile 64 ") {
		meta.Fuel = "64 (rule S: `v > 0` / `v != 0` with `v >>= K`, K >= 1, v a 64-bit word not assigned in the body)"
	}
	for _, g := range c.getters {
		lp += " (" + ident(g) + c.gsuffix + " : " + leanType(gtypes[g]) + ")"
		meta.Getters = append(meta.Getters, g+" = "+c.gchain[g])
	}
	for i, n := range pnames {
		lp += " (" + ident(n) + " : " + leanType(sg.params[i]) + ")"
		meta.Params = append(meta.Params, n+":"+sg.params[i])
	}
	rt := leanTuple(sg.results)
	if c.optMode {
		rt = "Option (" + rt + ")"
	}
	meta.Result = rt
	sigs[name] = sg
	if env.leanName != "" {
		name = env.leanName
		meta.Name = name
	}
	doc := "/-- `" + goName + "`"
	if len(meta.Getters) > 0 {
		doc += "; explicit parameters for receiver reads: " + strings.Join(meta.Getters, ", ")
	}
	if sg.fuel {
		doc += "; `fuel` bounds the iterations of the `for { }` loop, `none` = no return within `fuel` iterations"
	} else if c.optMode {
		doc += "; `none` = panic"
	}
	doc += " -/\n"
	return fmt.Sprintf("%sdef %s%s : %s :=\n%s  %s\n", doc, name, lp, rt, pre, body), meta
}

// translateMapRange handles
//
//	func (p T) F(in []int|[]uint64) (out []uint64) {
//	    out = make([]uint64, len(in)); for i, v := range in { out[i] = e(v) }; return }
func translateMapRange(fd *ast.FuncDecl, goName string, env tenv) (string, tfuncMeta) {
	name := fd.Name.Name
	gtypes := env.gtypes
	c := newTctx(env)
	c.recv = recvName(fd, env.recvType, false)
	bad := func(n ast.Node, why string) { refuse("%s: %s: not a map loop (%s)", pos(n), name, why) }
	ps := fd.Type.Params.List
	if len(ps) != 1 || len(ps[0].Names) != 1 {
		bad(fd, "one slice parameter expected")
	}
	at, ok := ps[0].Type.(*ast.ArrayType)
	if !ok || at.Len != nil {
		bad(fd, "parameter is not a slice")
	}
	el, ok := at.Elt.(*ast.Ident)
	if !ok || !isWord(el.Name) {
		bad(fd, "slice element type")
	}
	in := ps[0].Names[0].Name
	rs := fd.Type.Results
	if rs == nil || len(rs.List) != 1 || len(rs.List[0].Names) != 1 {
		bad(fd, "one named slice result expected")
	}
	rat, ok := rs.List[0].Type.(*ast.ArrayType)
	if !ok || rat.Len != nil {
		bad(fd, "result is not a slice")
	}
	rel, ok := rat.Elt.(*ast.Ident)
	if !ok || !isWord(rel.Name) {
		bad(fd, "result element type")
	}
	out := rs.List[0].Names[0].Name
	if len(fd.Body.List) != 3 {
		bad(fd, "body must be make; range; return")
	}
	// out = make([]T, len(in))
	mk, ok := fd.Body.List[0].(*ast.AssignStmt)
	if !ok || mk.Tok != token.ASSIGN || len(mk.Lhs) != 1 || len(mk.Rhs) != 1 {
		bad(fd.Body.List[0], "make")
	}
	if id, ok := mk.Lhs[0].(*ast.Ident); !ok || id.Name != out {
		bad(mk, "make target")
	}
	call, ok := mk.Rhs[0].(*ast.CallExpr)
	if !ok || len(call.Args) != 2 {
		bad(mk, "make")
	}
	if f, ok := call.Fun.(*ast.Ident); !ok || f.Name != "make" {
		bad(mk, "make")
	}
	if mat, ok := call.Args[0].(*ast.ArrayType); !ok || mat.Len != nil {
		bad(mk, "make type")
	} else if mel, ok := mat.Elt.(*ast.Ident); !ok || mel.Name != rel.Name {
		bad(mk, "make type")
	}
	lc, ok := call.Args[1].(*ast.CallExpr)
	if !ok || len(lc.Args) != 1 {
		bad(mk, "make length")
	}
	if f, ok := lc.Fun.(*ast.Ident); !ok || f.Name != "len" {
		bad(mk, "make length")
	}
	if a, ok := lc.Args[0].(*ast.Ident); !ok || a.Name != in {
		bad(mk, "make length")
	}
	// for i, v := range in { out[i] = e }
	rg, ok := fd.Body.List[1].(*ast.RangeStmt)
	if !ok || rg.Tok != token.DEFINE || rg.Key == nil || rg.Value == nil {
		bad(fd.Body.List[1], "range")
	}
	ki, ok1 := rg.Key.(*ast.Ident)
	vi, ok2 := rg.Value.(*ast.Ident)
	if !ok1 || !ok2 || ki.Name == "_" || vi.Name == "_" {
		bad(rg, "range variables")
	}
	if x, ok := rg.X.(*ast.Ident); !ok || x.Name != in {
		bad(rg, "range over the parameter")
	}
	if len(rg.Body.List) != 1 {
		bad(rg, "range body")
	}
	as, ok := rg.Body.List[0].(*ast.AssignStmt)
	if !ok || as.Tok != token.ASSIGN || len(as.Lhs) != 1 || len(as.Rhs) != 1 {
		bad(rg, "range body")
	}
	ix, ok := as.Lhs[0].(*ast.IndexExpr)
	if !ok {
		bad(as, "target")
	}
	if b, ok := ix.X.(*ast.Ident); !ok || b.Name != out {
		bad(as, "target")
	}
	if k, ok := ix.Index.(*ast.Ident); !ok || k.Name != ki.Name {
		bad(as, "target index")
	}
	if usesIdent(as.Rhs[0], ki.Name) || usesIdent(as.Rhs[0], out) || usesIdent(as.Rhs[0], in) {
		bad(as, "right-hand side may only use the range value")
	}
	if r, ok := fd.Body.List[2].(*ast.ReturnStmt); !ok || len(r.Results) != 0 {
		bad(fd.Body.List[2], "bare return")
	}
	checkLocalName(vi, vi.Name, c)
	c.types[vi.Name] = el.Name
	c.nres = 1
	s, t := c.wordExpr(as.Rhs[0])
	if unify(as, t, rel.Name) != rel.Name {
		bad(as, "element type")
	}
	lp := ""
	meta := tfuncMeta{Name: name, Go: goName, Params: []string{in + ":[]" + el.Name}, Result: "List Nat"}
	for _, g := range c.getters {
		lp += " (" + ident(g) + c.gsuffix + " : " + leanType(gtypes[g]) + ")"
		meta.Getters = append(meta.Getters, g+" = "+c.gchain[g])
	}
	doc := "/-- `" + goName + "`: `for i, " + vi.Name + " := range " + in + " { " + out + "[i] = … }`"
	if len(meta.Getters) > 0 {
		doc += "; explicit parameters for receiver reads: " + strings.Join(meta.Getters, ", ")
	}
	doc += " -/\n"
	return fmt.Sprintf("%sdef %s%s (%s : List Nat) : List Nat :=\n  %s.map (fun %s => %s)\n", doc, name, lp, ident(in), ident(in), ident(vi.Name), s), meta
}

// translateRangeBody handles a *Ring method of ring/scalar.go:
//
//	func (r *Ring) F(words and RNSScalar slices…) [(rns RNSScalar)] {
//	    [rns = make(RNSScalar, r.level+1)]
//	    for i, s := range r.SubRings[:r.level+1] { body }
//	    [return [rns]]
//	}
//
// and prints only `body`, as a function of s.Modulus, s.MRedConstant, s.BRedConstant, the word
// parameters and the [i]-th word of every slice parameter.
func translateRangeBody(fd *ast.FuncDecl, env tenv) (string, tfuncMeta) {
	name := fd.Name.Name
	goName := "ring/scalar.go: func (r *Ring) " + name
	env.gtypes = map[string]string{}
	c := newTctx(env)
	recv := recvName(fd, "Ring", true)
	bad := func(n ast.Node, why string) { refuse("%s: %s: %s", pos(n), name, why) }
	isScalarSlice := func(e ast.Expr) bool {
		if id, ok := e.(*ast.Ident); ok && id.Name == "RNSScalar" {
			return true
		}
		if at, ok := e.(*ast.ArrayType); ok && at.Len == nil {
			if el, ok := at.Elt.(*ast.Ident); ok && el.Name == "uint64" {
				return true
			}
		}
		return false
	}
	type prm struct{ name, kind string }
	var ps []prm
	for _, f := range fd.Type.Params.List {
		kind := ""
		if isScalarSlice(f.Type) {
			kind = "slice"
		} else if t := wordType(f.Type); t == "uint64" {
			kind = "uint64"
		}
		if kind == "" {
			bad(f, "parameter type not supported")
		}
		for _, n := range f.Names {
			checkLocalName(n, n.Name, c)
			if _, clash := subRingFields[n.Name]; clash || n.Name == recv {
				bad(n, "parameter name")
			}
			ps = append(ps, prm{n.Name, kind})
			c.types[n.Name] = "uint64"
			if kind == "slice" {
				c.subSlices[n.Name] = true
			}
		}
	}
	resName := ""
	if rs := fd.Type.Results; rs != nil && len(rs.List) != 0 {
		if len(rs.List) != 1 || len(rs.List[0].Names) != 1 || !isScalarSlice(rs.List[0].Type) {
			bad(fd, "result must be one named RNSScalar")
		}
		resName = rs.List[0].Names[0].Name
		checkLocalName(fd, resName, c)
		c.subSlices[resName] = true // write-only until written
	}
	levelPlus1 := func(e ast.Expr) bool {
		be, ok := e.(*ast.BinaryExpr)
		if !ok || be.Op != token.ADD {
			return false
		}
		sel, ok := be.X.(*ast.SelectorExpr)
		if !ok || sel.Sel.Name != "level" {
			return false
		}
		if id, ok := sel.X.(*ast.Ident); !ok || id.Name != recv {
			return false
		}
		l, ok := be.Y.(*ast.BasicLit)
		return ok && l.Value == "1"
	}
	list := fd.Body.List
	if resName != "" {
		if len(list) == 0 {
			bad(fd, "body")
		}
		mk, ok := list[0].(*ast.AssignStmt)
		if !ok || mk.Tok != token.ASSIGN || len(mk.Lhs) != 1 || len(mk.Rhs) != 1 {
			bad(list[0], "expected `"+resName+" = make(RNSScalar, r.level+1)`")
		}
		if id, ok := mk.Lhs[0].(*ast.Ident); !ok || id.Name != resName {
			bad(mk, "make target")
		}
		call, ok := mk.Rhs[0].(*ast.CallExpr)
		if !ok || len(call.Args) != 2 || !isScalarSlice(call.Args[0]) || !levelPlus1(call.Args[1]) {
			bad(mk, "expected make(RNSScalar, r.level+1)")
		}
		if f, ok := call.Fun.(*ast.Ident); !ok || f.Name != "make" {
			bad(mk, "expected make")
		}
		list = list[1:]
	}
	if len(list) == 0 {
		bad(fd, "no range loop")
	}
	rg, ok := list[0].(*ast.RangeStmt)
	if !ok || rg.Tok != token.DEFINE || rg.Key == nil || rg.Value == nil {
		bad(list[0], "expected `for i, s := range r.SubRings[:r.level+1]`")
	}
	ki, ok1 := rg.Key.(*ast.Ident)
	vi, ok2 := rg.Value.(*ast.Ident)
	if !ok1 || !ok2 || ki.Name == "_" || vi.Name == "_" {
		bad(rg, "range variables")
	}
	se, ok := rg.X.(*ast.SliceExpr)
	if !ok || se.Low != nil || se.High == nil || se.Slice3 || !levelPlus1(se.High) {
		bad(rg, "range expression must be r.SubRings[:r.level+1]")
	}
	if sel, ok := se.X.(*ast.SelectorExpr); !ok || sel.Sel.Name != "SubRings" {
		bad(rg, "range expression must be r.SubRings[:r.level+1]")
	} else if id, ok := sel.X.(*ast.Ident); !ok || id.Name != recv {
		bad(rg, "range expression must be r.SubRings[:r.level+1]")
	}
	list = list[1:]
	switch len(list) {
	case 0:
	case 1:
		r, ok := list[0].(*ast.ReturnStmt)
		if !ok || len(r.Results) > 1 {
			bad(list[0], "only a return may follow the loop")
		}
		if len(r.Results) == 1 {
			if id, ok := r.Results[0].(*ast.Ident); !ok || id.Name != resName || resName == "" {
				bad(r, "return value")
			}
		}
	default:
		bad(list[0], "only a return may follow the loop")
	}
	for _, p := range ps {
		if p.name == ki.Name || p.name == vi.Name {
			bad(rg, "range variable shadows a parameter")
		}
	}
	if containsLoop(rg.Body.List) || containsReturn(rg.Body.List) {
		bad(rg, "loop / return inside the range body")
	}
	c.subIdx, c.subElem = ki.Name, vi.Name
	if resName != "" {
		delete(c.types, resName)
	}
	c.nres = 1
	body := c.stmts(rg.Body.List, frame{fall: "\x00", ret: func([]string) string { refuse("return"); return "" }}, "\n  ")
	if len(c.subOut) != 1 {
		bad(rg, fmt.Sprintf("the body must write exactly one slice (writes %v)", c.subOut))
	}
	outv := c.subOut[0]
	body = strings.Replace(body, "\x00", ident(outv), 1)
	lp := " (Modulus MRedConstant : Nat) (BRedConstant : Nat × Nat)"
	meta := tfuncMeta{Name: name + "_body", Go: goName, Result: "Nat (the word written to " + outv + "[i])"}
	var sig []string
	for _, p := range ps {
		lp += " (" + ident(p.name) + " : Nat)"
		if p.kind == "slice" {
			meta.Params = append(meta.Params, p.name+"[i]:uint64")
			sig = append(sig, p.name+" RNSScalar")
		} else {
			meta.Params = append(meta.Params, p.name+":uint64")
			sig = append(sig, p.name+" uint64")
		}
	}
	doc := fmt.Sprintf("/-- `func (r *Ring) %s(%s)`: the body of `for %s, %s := range r.SubRings[:r.level+1]` as a function of\n    `%s.Modulus, %s.MRedConstant, %s.BRedConstant`, the word parameters and the `[%s]`-th words of the slice\n    parameters; the value is the word it writes to `%s[%s]`. -/\n", name, strings.Join(sig, ", "), ki.Name, vi.Name, vi.Name, vi.Name, vi.Name, ki.Name, outv, ki.Name)
	return fmt.Sprintf("%sdef %s_body%s : Nat :=\n  %s\n", doc, name, lp, body), meta
}

// ---- source checks for the explicit parameters ----

func methodDecl(file *ast.File, recvType, name string) *ast.FuncDecl {
	for _, d := range file.Decls {
		fd, ok := d.(*ast.FuncDecl)
		if !ok || fd.Recv == nil || fd.Name.Name != name || len(fd.Recv.List) != 1 {
			continue
		}
		t := fd.Recv.List[0].Type
		if st, ok := t.(*ast.StarExpr); ok {
			t = st.X
		}
		if id, ok := t.(*ast.Ident); ok && id.Name == recvType {
			return fd
		}
	}
	return nil
}

func structField(file *ast.File, typ, field string) ast.Expr {
	for _, d := range file.Decls {
		gd, ok := d.(*ast.GenDecl)
		if !ok || gd.Tok != token.TYPE {
			continue
		}
		for _, sp := range gd.Specs {
			ts := sp.(*ast.TypeSpec)
			st, ok := ts.Type.(*ast.StructType)
			if !ok || ts.Name.Name != typ {
				continue
			}
			for _, f := range st.Fields.List {
				for _, n := range f.Names {
					if n.Name == field {
						return f.Type
					}
				}
			}
		}
	}
	return nil
}

func exprText(e ast.Expr) string {
	switch x := e.(type) {
	case *ast.Ident:
		return x.Name
	case *ast.SelectorExpr:
		return exprText(x.X) + "." + x.Sel.Name
	case *ast.StarExpr:
		return "*" + exprText(x.X)
	case *ast.ArrayType:
		if x.Len == nil {
			return "[]" + exprText(x.Elt)
		}
		if l, ok := x.Len.(*ast.BasicLit); ok {
			return "[" + l.Value + "]" + exprText(x.Elt)
		}
	}
	return "?"
}

// ringConst reads `Name [T] = 5` or `Name = Type(1)` from a const block.
func ringConst(file *ast.File, name string) (string, string, bool) {
	for _, d := range file.Decls {
		gd, ok := d.(*ast.GenDecl)
		if !ok || gd.Tok != token.CONST {
			continue
		}
		for _, sp := range gd.Specs {
			vs := sp.(*ast.ValueSpec)
			for i, n := range vs.Names {
				if n.Name != name || i >= len(vs.Values) {
					continue
				}
				typ := ""
				if vs.Type != nil {
					typ = exprText(vs.Type)
				}
				v := vs.Values[i]
				if call, ok := v.(*ast.CallExpr); ok && len(call.Args) == 1 {
					typ = exprText(call.Fun)
					v = call.Args[0]
				}
				if l, ok := v.(*ast.BasicLit); ok && l.Kind == token.INT {
					u, err := strconv.ParseUint(strings.ReplaceAll(l.Value, "_", ""), 0, 64)
					if err == nil {
						return strconv.FormatUint(u, 10), typ, true
					}
				}
			}
		}
	}
	return "", "", false
}

// constAlias checks `const Name T = pkg.Name`.
func constAlias(file *ast.File, name, pkg string) bool {
	for _, d := range file.Decls {
		gd, ok := d.(*ast.GenDecl)
		if !ok || gd.Tok != token.CONST {
			continue
		}
		for _, sp := range gd.Specs {
			vs := sp.(*ast.ValueSpec)
			for i, n := range vs.Names {
				if n.Name == name && i < len(vs.Values) {
					return exprText(vs.Values[i]) == pkg+"."+name
				}
			}
		}
	}
	return false
}
