/-
  C15: order independence (product loop of `GenAdditiveShare`, running sums of `AggregateShares`)
  and the share at a point that is `0` modulo a prime.
-/
import Lattigo.Proofs.ShamirRun

namespace Lattigo.Proofs.Shamir
open Lattigo.Model.Shamir

/-! ### running sums -/

theorem sumMod_perm (q a : ℕ) {l₁ l₂ : List ℕ} (h : l₁.Perm l₂) : sumMod q a l₁ = sumMod q a l₂ := by
  unfold sumMod
  apply h.foldl_eq'
  intro x _ y _ z
  rw [Nat.mod_add_mod, Nat.mod_add_mod]
  congr 1
  omega

/-! ### the product loop, any table -/

theorem mulScalars_right_comm (ms p c1 c2 : List ℕ) :
    mulScalars ms (mulScalars ms p c1) c2 = mulScalars ms (mulScalars ms p c2) c1 := by
  unfold mulScalars
  induction ms generalizing p c1 c2 with
  | nil => rfl
  | cons q ms ih =>
    cases p with
    | nil => simp
    | cons a p =>
      cases c1 with
      | nil => cases c2 <;> simp
      | cons x c1 =>
        cases c2 with
        | nil => simp
        | cons y c2 =>
          simp only [List.zip_cons_cons, List.zipWith_cons_cons, List.cons.injEq]
          refine ⟨?_, ih p c1 c2⟩
          rw [Nat.mod_mul_mod, Nat.mod_mul_mod, Nat.mul_right_comm]

theorem lagrangeProd_perm (ms : List ℕ) (table : List (ℕ × List ℕ)) (own : ℕ) {a b : List ℕ}
    (h : a.Perm b) : ∀ prod, lagrangeProd ms table own a prod = lagrangeProd ms table own b prod := by
  induction h with
  | nil => intro prod; rfl
  | cons x _ ih =>
    intro prod
    unfold lagrangeProd
    split
    · cases table.lookup x with
      | none => rfl
      | some c => exact ih _
    · exact ih _
  | swap x y l =>
    intro prod
    simp only [lagrangeProd]
    cases List.lookup x table <;> cases List.lookup y table <;>
      by_cases hx : x = own <;> by_cases hy : y = own <;>
      (simp only [hx, hy, ne_eq, not_true_eq_false, not_false_eq_true, if_true, if_false]
       try rw [mulScalars_right_comm])
  | trans _ _ ih1 ih2 => intro prod; rw [ih1, ih2]

/-- `GenAdditiveShare` only depends on the first `threshold` active points as a multiset —
for every combiner (any table), own point and share. -/
theorem genAdditiveShare_perm (cmb : Combiner) (a₁ a₂ : List ℕ) (own : ℕ) (share : QP)
    (hlen : a₁.length = a₂.length)
    (h : (a₁.take cmb.threshold.toNat).Perm (a₂.take cmb.threshold.toNat)) :
    genAdditiveShare cmb a₁ own share = genAdditiveShare cmb a₂ own share := by
  unfold genAdditiveShare
  rw [hlen]
  simp only [lagrangeProd_perm cmb.ring.ms cmb.table own h]

/-! ### a point that is `0` modulo `q` receives the secret -/

theorem horner_zero_point (q x : ℕ) (hx : x % q = 0) (cs : List ℕ) :
    horner q x cs % q = cs.headD 0 % q := by
  cases cs with
  | nil => rfl
  | cons c rest =>
    cases rest with
    | nil => rfl
    | cons d rest => simp [horner, hx]

/-! ### setup aggregation -/

/-- aggregating the received shares in any order gives the same polynomial. -/
theorem aggregateAll_perm (r : RingQP) (N : ℕ) (acc : QP) (hacc : ShapedQP r N acc)
    {l₁ l₂ : List QP} (h : l₁.Perm l₂) (hl : ∀ s ∈ l₁, ShapedQP r N s) :
    aggregateAll r acc l₁ = aggregateAll r acc l₂ := by
  have hl2 : ∀ s ∈ l₂, ShapedQP r N s := fun s hs => hl s (h.mem_iff.mpr hs)
  obtain ⟨o1, h1, s1, e1⟩ := aggregateAll_spec r N l₁ acc hacc hl
  obtain ⟨o2, h2, s2, e2⟩ := aggregateAll_spec r N l₂ acc hacc hl2
  rw [h1, h2]
  have hrows : o1.rows = o2.rows := by
    apply rows_ext s1.2 s2.2
    intro m k hm hk
    rw [e1 m k hm hk, e2 m k hm hk]
    exact sumMod_perm _ _ (h.map _)
  cases o1; cases o2
  simp only [ShapedQP] at s1 s2
  simp only at hrows
  rw [Outcome.ok.injEq, QP.mk.injEq]
  exact ⟨s1.1.trans s2.1.symm, hrows⟩

end Lattigo.Proofs.Shamir
