/-
  C15: order independence (product loop of `GenAdditiveShare`, running sums of `AggregateShares`)
  and the share at a point that is `0` modulo a prime.
-/
import Lattigo.Proofs.ShamirRun

namespace Lattigo.Proofs.Shamir
open Lattigo.Model.Shamir

/-! ### running sums -/

theorem sumMod_perm (q a : ℕ) {l₁ l₂ : List ℕ} (h : l₁.Perm l₂) : sumMod q a l₁ = sumMod q a l₂ := by
  unfold sumMod
  apply h.foldl_eq'
  intro x _ y _ z
  rw [Nat.mod_add_mod, Nat.mod_add_mod]
  congr 1
  omega

/-! ### the product loop, any table -/

theorem mulScalars_right_comm (ms p c1 c2 : List ℕ) :
    mulScalars ms (mulScalars ms p c1) c2 = mulScalars ms (mulScalars ms p c2) c1 := by
  unfold mulScalars
  induction ms generalizing p c1 c2 with
  | nil => rfl
  | cons q ms ih =>
    cases p with
    | nil => simp
    | cons a p =>
      cases c1 with
      | nil => cases c2 <;> simp
      | cons x c1 =>
        cases c2 with
        | nil => simp
        | cons y c2 =>
          simp only [List.zip_cons_cons, List.zipWith_cons_cons, List.cons.injEq]
          refine ⟨?_, ih p c1 c2⟩
          rw [Nat.mod_mul_mod, Nat.mod_mul_mod, Nat.mul_right_comm]

/-- the loop only depends on the active points as a multiset, provided no point gone through is
missing from the table (otherwise a collision and a miss may be met in either order: `err` vs
`panic`). -/
theorem lagrangeProd_perm (ms : List ℕ) (table : List (ℕ × List ℕ)) (own : ℕ) {a b : List ℕ}
    (h : a.Perm b) (hm : ∀ x ∈ a, x ≠ own → ∃ c, table.lookup x = some c) :
    ∀ prod, lagrangeProd ms table own a prod = lagrangeProd ms table own b prod := by
  induction h with
  | nil => intro prod; rfl
  | cons x _ ih =>
    intro prod
    have ih' := ih (fun z hz => hm z (List.mem_cons_of_mem _ hz))
    unfold lagrangeProd
    split
    · split
      · rfl
      · cases table.lookup x with
        | none => rfl
        | some c => exact ih' _
    · exact ih' _
  | swap x y l =>
    intro prod
    simp only [lagrangeProd]
    by_cases hx : x = own <;> by_cases hy : y = own
    · simp only [hx, hy, ne_eq, not_true_eq_false, if_false]
    · simp only [hx, hy, ne_eq, not_true_eq_false, not_false_eq_true, if_true, if_false]
    · simp only [hx, hy, ne_eq, not_true_eq_false, not_false_eq_true, if_true, if_false]
    · obtain ⟨cx, hcx⟩ := hm x (by simp) hx
      obtain ⟨cy, hcy⟩ := hm y (by simp) hy
      simp only [hx, hy, hcx, hcy, ne_eq, not_false_eq_true, if_true]
      cases pointsCollide ms own x <;> cases pointsCollide ms own y <;>
        simp only [Bool.false_eq_true, if_true, if_false]
      rw [mulScalars_right_comm]
  | trans h1 _ ih1 ih2 =>
    intro prod
    rw [ih1 hm, ih2 (fun z hz hne => hm z (h1.mem_iff.mpr hz) hne)]

/-- `GenAdditiveShare` only depends on the first `threshold` active points as a multiset, for every
combiner, own point and share, provided those points (other than `own`) are in the table. -/
theorem genAdditiveShare_perm (cmb : Combiner) (a₁ a₂ : List ℕ) (own : ℕ) (share : QP)
    (hlen : a₁.length = a₂.length)
    (h : (a₁.take cmb.threshold.toNat).Perm (a₂.take cmb.threshold.toNat))
    (hm : ∀ x ∈ a₁.take cmb.threshold.toNat, x ≠ own → ∃ c, cmb.table.lookup x = some c) :
    genAdditiveShare cmb a₁ own share = genAdditiveShare cmb a₂ own share := by
  unfold genAdditiveShare
  rw [hlen]
  simp only [lagrangeProd_perm cmb.ring.ms cmb.table own h hm]

/-- unconditionally: if one order yields a share, every other order yields the same share. -/
theorem genAdditiveShare_perm_ok (cmb : Combiner) (a₁ a₂ : List ℕ) (own : ℕ) (share s : QP)
    (hlen : a₁.length = a₂.length)
    (h : (a₁.take cmb.threshold.toNat).Perm (a₂.take cmb.threshold.toNat))
    (hok : genAdditiveShare cmb a₁ own share = .ok s) :
    genAdditiveShare cmb a₂ own share = .ok s := by
  rw [← hok]
  symm
  apply genAdditiveShare_perm cmb a₁ a₂ own share hlen h
  unfold genAdditiveShare at hok
  split at hok
  · exact absurd hok (by simp)
  · split at hok
    · exact absurd hok (by simp)
    · simp only at hok
      split at hok
      · exact absurd hok (by simp)
      · exact absurd hok (by simp)
      · next prod hp =>
        intro x hx hne
        exact (lagrangeProd_ok_inv _ _ _ _ _ _ hp x hx hne).1

/-! ### a point that is `0` modulo `q` receives the secret -/

theorem horner_zero_point (q x : ℕ) (hx : x % q = 0) (cs : List ℕ) :
    horner q x cs % q = cs.headD 0 % q := by
  cases cs with
  | nil => rfl
  | cons c rest =>
    cases rest with
    | nil => rfl
    | cons d rest => simp [horner, hx]

/-! ### setup aggregation -/

/-- aggregating the received shares in any order gives the same polynomial. -/
theorem aggregateAll_perm (r : RingQP) (N : ℕ) (acc : QP) (hacc : ShapedQP r N acc)
    {l₁ l₂ : List QP} (h : l₁.Perm l₂) (hl : ∀ s ∈ l₁, ShapedQP r N s) :
    aggregateAll r acc l₁ = aggregateAll r acc l₂ := by
  have hl2 : ∀ s ∈ l₂, ShapedQP r N s := fun s hs => hl s (h.mem_iff.mpr hs)
  obtain ⟨o1, h1, s1, e1⟩ := aggregateAll_spec r N l₁ acc hacc hl
  obtain ⟨o2, h2, s2, e2⟩ := aggregateAll_spec r N l₂ acc hacc hl2
  rw [h1, h2]
  have hrows : o1.rows = o2.rows := by
    apply rows_ext s1.2 s2.2
    intro m k hm hk
    rw [e1 m k hm hk, e2 m k hm hk]
    exact sumMod_perm _ _ (h.map _)
  cases o1; cases o2
  simp only [ShapedQP] at s1 s2
  simp only at hrows
  rw [Outcome.ok.injEq, QP.mk.injEq]
  exact ⟨s1.1.trans s2.1.symm, hrows⟩

end Lattigo.Proofs.Shamir
