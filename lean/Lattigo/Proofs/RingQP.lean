/-
  C01: proofs about `Model/RingQP.lean`.
  * `mulRNSScalarMontgomery_view`: `ringqp.Ring.MulRNSScalarMontgomery` on ANY view `(nq, np)` of a ring with
    chains `qs`, `ps`, applied with the Montgomery-form RNS scalar of `v` in the layout `[all of Q | all of P]`,
    returns the canonical residues of `x·v` in every active row — in particular the rows of P read the residues
    stored after the WHOLE chain of Q, whatever the level of Q.
  * `rowAutCI_eq_take`: the coefficient-domain automorphism of the conjugate-invariant ring (the loop of
    `ring.Automorphism` over the `2N` exponents) is the restriction to the first `N` coefficients of the
    automorphism `RPoly.rowAut` of `Z_q[X]/(X^2N+1)` applied to the unfolded polynomial.
-/
import Lattigo.Model.RingQP
import Lattigo.Proofs.Aut
import Lattigo.Proofs.NTTInv

namespace Lattigo.RingQP
open Lattigo Lattigo.Gen Lattigo.NTT

/-! ## 1. the RNS scalar of R_QP -/

/-- one coefficient: `MRed(x, v·2^64 mod q) = x·v mod q` for an odd prime `q`, `2q ≤ 2^64`, `x < q` -/
theorem mred_montScalar (q v x : ℕ) (hq : q.Prime) (hodd : q % 2 = 1) (h2 : 2 * q ≤ W) (hx : x < q) :
    MRed x (v * W % q) q (GenMRedConstant q) = (x * v) % q := by
  have : Fact q.Prime := ⟨hq⟩
  have hq0 : 0 < q := hq.pos
  have hm := (GenMRedConstant_spec q hodd (by unfold W at *; omega)).1
  have hy : v * W % q < q := Nat.mod_lt _ hq0
  have hxy : x * (v * W % q) < q * W := by
    have h1 : x * (v * W % q) < q * q := Nat.mul_lt_mul'' hx hy
    have h2' : q * q ≤ q * W := Nat.mul_le_mul_left _ (by unfold W at *; omega)
    omega
  have hc := NTT.MRed_cast x (v * W % q) (GenMRedConstant q) h2 hm hxy
  have hlt := (MRed_spec x (v * W % q) q (GenMRedConstant q) h2 hm hxy).2
  have hW := W_ne_zero (q := q) hodd
  have hc' : ((MRed x (v * W % q) q (GenMRedConstant q) : ℕ) : ZMod q) = ((x * v : ℕ) : ZMod q) := by
    rw [hc, ZMod.natCast_mod, Nat.cast_mul, Nat.cast_mul, mul_assoc, mul_assoc, mul_inv_cancel₀ hW, mul_one]
  have := (ZMod.natCast_eq_natCast_iff' _ _ q).1 hc'
  rwa [Nat.mod_eq_of_lt hlt] at this

theorem getD_map_of_lt (f : ℕ → ℕ) (l : List ℕ) (i : ℕ) (hi : i < l.length) :
    (l.map f).getD i 0 = f (l.getD i 0) := by
  rw [List.getD_eq_getElem?_getD, List.getD_eq_getElem?_getD, List.getElem?_map,
    List.getElem?_eq_getElem hi]
  rfl

theorem getD_mem_of_lt (l : List ℕ) (i : ℕ) (hi : i < l.length) : l.getD i 0 ∈ l := by
  rw [List.getD_eq_getElem?_getD, List.getElem?_eq_getElem hi]
  exact List.getElem_mem hi

/-- rows of `mulRNSRows` with the scalar of `v`: canonical products -/
theorem mulRNSRows_montScalar (qs : List ℕ) (rows v : ℕ) (p : List (List ℕ)) (hrows : rows ≤ qs.length)
    (hqs : ∀ q ∈ qs, q.Prime ∧ q % 2 = 1 ∧ 2 * q ≤ W)
    (hp : ∀ i, i < rows → ∀ x ∈ p.getD i [], x < qs.getD i 0) :
    mulRNSRows qs rows p (qs.map fun q => v * W % q)
      = (List.range rows).map fun i => (p.getD i []).map fun x => (x * v) % qs.getD i 0 := by
  unfold mulRNSRows
  apply List.map_congr_left
  intro i hi
  have hi' : i < qs.length := by have := List.mem_range.1 hi; omega
  apply List.map_congr_left
  intro x hx
  rw [getD_map_of_lt _ qs i hi']
  obtain ⟨h1, h2, h3⟩ := hqs _ (getD_mem_of_lt qs i hi')
  exact mred_montScalar _ v x h1 h2 h3 (hp i (List.mem_range.1 hi) x hx)

/-- **`ringqp.Ring.MulRNSScalarMontgomery` on every view.**  Chains `qs` (Q) and `ps` (P) of odd primes below
`2^63`; the view has `nq ≤ |qs|` rows of Q and `np ≤ |ps|` rows of P (any of them `0`: a view without that part);
the polynomial has coefficients below the modulus of their row; the scalar is the Montgomery-form RNS scalar of
`v` in the layout `[one residue per modulus of qs | one residue per modulus of ps]` (what `NewRNSScalar` allocates
and `SubRNSScalar`, `MulRNSScalar`, `Inverse` compute on, at whatever level).  Then every active row of the result
holds the canonical residues of `x·v`. -/
theorem mulRNSScalarMontgomery_view (qs ps : List ℕ) (nq np v : ℕ) (pQ pP : List (List ℕ))
    (hnq : nq ≤ qs.length) (hnp : np ≤ ps.length)
    (hqs : ∀ q ∈ qs, q.Prime ∧ q % 2 = 1 ∧ 2 * q ≤ W) (hps : ∀ q ∈ ps, q.Prime ∧ q % 2 = 1 ∧ 2 * q ≤ W)
    (hQ : ∀ i, i < nq → ∀ x ∈ pQ.getD i [], x < qs.getD i 0)
    (hP : ∀ j, j < np → ∀ x ∈ pP.getD j [], x < ps.getD j 0) :
    mulRNSScalarMontgomery qs ps nq np pQ pP (montScalar qs ps v)
      = ((List.range nq).map fun i => (pQ.getD i []).map fun x => (x * v) % qs.getD i 0,
         (List.range np).map fun j => (pP.getD j []).map fun x => (x * v) % ps.getD j 0) := by
  unfold mulRNSScalarMontgomery mulRNSScalarMontgomeryAt montScalar
  rw [List.take_left' (by simp), List.drop_left' (by simp)]
  rw [mulRNSRows_montScalar qs nq v pQ hnq hqs hQ, mulRNSRows_montScalar ps np v pP hnp hps hP]

/-- **The split index matters** (the seeded regression C01-r4m2): splitting the scalar at the number of ACTIVE rows
of Q (`LevelQ()+1`) instead of the length of the chain makes the rows of P read residues stored for Q.
`qs = [97, 193]`, `ps = [257]`, view `(1, 1)`, `v = 5`, `x = 1`: the P row is `5·2^64·2^-64 mod 257 = 5` with the
real split, and something else with the split at `1`. -/
theorem mulRNSScalarMontgomeryAt_level_split_counterexample :
    (mulRNSScalarMontgomery [97, 193] [257] 1 1 [[1]] [[1]] (montScalar [97, 193] [257] 5)).2 = [[5]]
    ∧ (mulRNSScalarMontgomeryAt 1 [97, 193] [257] 1 1 [[1]] [[1]] (montScalar [97, 193] [257] 5)).2 ≠ [[5]] := by
  decide +kernel

/-! ## 2. `ring.Automorphism`, conjugate-invariant ring -/

/-- fold of conditional `set!` along an index map injective on `[0, m)`: the entries written are kept -/
theorem foldl_setc_inj (n m : ℕ) (idx val : ℕ → ℕ)
    (hinj : ∀ i j, i < m → j < m → idx i = idx j → i = j) :
    ∀ t, t ≤ m →
      ((List.range t).foldl (fun (acc : Array ℕ) i => if idx i < n then acc.set! (idx i) (val i) else acc)
          (Array.replicate n 0)).size = n
      ∧ ∀ i, i < t → idx i < n →
          ((List.range t).foldl (fun (acc : Array ℕ) i => if idx i < n then acc.set! (idx i) (val i) else acc)
            (Array.replicate n 0))[idx i]! = val i
  | 0, _ => by simp
  | t + 1, ht => by
    obtain ⟨hs, hv⟩ := foldl_setc_inj n m idx val hinj t (by omega)
    rw [List.range_succ, List.foldl_append]
    simp only [List.foldl_cons, List.foldl_nil]
    by_cases hc : idx t < n
    · rw [if_pos hc]
      refine ⟨by simpa using hs, ?_⟩
      intro i hi hin
      by_cases hit : i = t
      · subst hit
        exact get!_set!_self _ _ _ (by rw [hs]; exact hin)
      · have hne : idx t ≠ idx i := fun h => hit (hinj i t (by omega) (by omega) h.symm)
        rw [get!_set!_ne _ _ _ _ hne]
        exact hv i (by omega) hin
    · rw [if_neg hc]
      refine ⟨hs, ?_⟩
      intro i hi hin
      have hit : i ≠ t := fun h => hc (h ▸ hin)
      exact hv i (by omega) hin

/-- value written by the conjugate-invariant loop for the exponent `i` -/
def valCI (n g q : ℕ) (x : List ℕ) (i : ℕ) : ℕ :=
  let tmp := (i * g) % (4 * n) / (2 * n)
  let v := x.getD (if n ≤ i then 2 * n - i else i) 0
  if (if n ≤ i then tmp = 0 else tmp = 1) then negq q v else v

theorem rowAutCI_eq (g q : ℕ) (x : List ℕ) :
    rowAutCI g q x
      = ((List.range (2 * x.length)).foldl
          (fun (acc : Array ℕ) i =>
            if (i * g) % (2 * x.length) < x.length then acc.set! ((i * g) % (2 * x.length)) (valCI x.length g q x i)
            else acc)
          (Array.replicate x.length 0)).toList := by
  unfold rowAutCI
  simp only []
  congr 1
  apply List.foldl_ext
  intro acc i _
  have hm : (i * g) % (4 * x.length) % (2 * x.length) = (i * g) % (2 * x.length) :=
    Nat.mod_mod_of_dvd _ ⟨2, by ring⟩
  rw [hm]
  split
  · unfold valCI negq
    simp only []
    have hx : ∀ k, x[k]! = x.getD k 0 := by intro k; simp [List.getD_eq_getElem?_getD]
    rw [hx]
  · rfl

theorem negq_negq (q v : ℕ) (hv : v < q) : negq q (negq q v) = v := by
  unfold negq
  rw [Nat.mod_eq_of_lt hv]
  rcases Nat.eq_zero_or_pos v with h0 | h0
  · subst h0; simp
  · have h1 : (q - v) % q = q - v := Nat.mod_eq_of_lt (by omega)
    have h2 : q - (q - v) = v := by omega
    rw [h1, h1, h2, Nat.mod_eq_of_lt hv]

theorem unfoldCI_length (q : ℕ) (x : List ℕ) : (unfoldCI q x).length = 2 * x.length := by
  simp [unfoldCI]

theorem unfoldCI_getD (q : ℕ) (x : List ℕ) (i : ℕ) (hi : i < 2 * x.length) :
    (unfoldCI q x).getD i 0
      = if i < x.length then x.getD i 0 else if i = x.length then 0 else negq q (x.getD (2 * x.length - i) 0) := by
  simp [unfoldCI, List.getD, hi, negq]

theorem half_mul_odd (n g : ℕ) (hg : g % 2 = 1) : (n * g) % (2 * n) = n % (2 * n) := by
  obtain ⟨k, hk⟩ : ∃ k, g = 2 * k + 1 := ⟨g / 2, by omega⟩
  subst hk
  have : n * (2 * k + 1) = n + 2 * n * k := by ring
  rw [this, Nat.add_mul_mod_self_left]

/-- the value the conjugate-invariant loop writes for the exponent `i` is the value the automorphism of
`Z_q[X]/(X^2n+1)` writes for the coefficient `i` of the unfolded polynomial (entries `< q`, `i ≠ n`) -/
theorem valCI_eq_autVal (n g q : ℕ) (x : List ℕ) (hlen : x.length = n) (hx : ∀ v ∈ x, v < q)
    (i : ℕ) (hi : i < 2 * n) (hin : i ≠ n) :
    valCI n g q x i = autVal (2 * n) g q (unfoldCI q x) i := by
  have hn : 0 < n := by omega
  have he : (i * g) % (4 * n) < 4 * n := Nat.mod_lt _ (by omega)
  have h4 : 2 * (2 * n) = 4 * n := by ring
  unfold valCI autVal
  rw [h4, unfoldCI_getD q x i (by rw [hlen]; exact hi), hlen]
  simp only []
  have hdiv0 : (i * g) % (4 * n) / (2 * n) = 0 ↔ (i * g) % (4 * n) < 2 * n := by
    constructor
    · intro h
      rcases Nat.div_eq_zero_iff.1 h with h | h
      · omega
      · exact h
    · exact Nat.div_eq_of_lt
  have hdiv1 : (i * g) % (4 * n) / (2 * n) = 1 ↔ ¬ (i * g) % (4 * n) < 2 * n := by
    constructor
    · intro h hlt
      rw [Nat.div_eq_of_lt hlt] at h
      exact absurd h (by decide)
    · intro h
      exact Nat.div_eq_of_lt_le (by omega) (by omega)
  by_cases hlt : i < n
  · have hnle : ¬ n ≤ i := by omega
    simp only [hnle, if_false, hlt, if_true, hdiv1]
    by_cases hs : (i * g) % (4 * n) < 2 * n
    · simp [hs]
    · simp [hs]
  · have hge : n ≤ i := by omega
    have hmem : x.getD (2 * n - i) 0 < q := by
      have : 2 * n - i < x.length := by omega
      exact hx _ (getD_mem_of_lt x _ this)
    simp only [hge, if_true, hlt, if_false, hin, hdiv0]
    by_cases hs : (i * g) % (4 * n) < 2 * n
    · simp [hs]
    · simp only [hs, if_false]
      exact (negq_negq q _ hmem).symm

/-- **`rowAutCI_eq_take`**: for a conjugate-invariant row `x` of length `N = 2^K` with entries `< q` and odd `g`, the
coefficient-domain automorphism of the conjugate-invariant ring is the first half of the automorphism
`X ↦ X^g` of `Z_q[X]/(X^2N+1)` applied to the unfolded polynomial `x_0 + Σ x_j (X^j − X^(2N−j))`. -/
theorem rowAutCI_eq_take (K g q : ℕ) (x : List ℕ) (hlen : x.length = 2 ^ K) (hg : g % 2 = 1)
    (hx : ∀ v ∈ x, v < q) :
    rowAutCI g q x = (RPoly.rowAut g q (unfoldCI q x)).take (2 ^ K) := by
  have hpos : 0 < 2 ^ K := by positivity
  have h2 : 2 * 2 ^ K = 2 ^ (K + 1) := by rw [Nat.pow_succ]; ring
  have hU : (unfoldCI q x).length = 2 ^ (K + 1) := by rw [unfoldCI_length, hlen, h2]
  obtain ⟨hl, hv⟩ := rowAut_spec (K + 1) g q (unfoldCI q x) hU hg
  obtain ⟨hs, hc⟩ := foldl_setc_inj (2 ^ K) (2 ^ (K + 1)) (fun i => (i * g) % 2 ^ (K + 1))
    (valCI (2 ^ K) g q x) (fun i j hi hj h => mul_odd_inj (K + 1) g i j hg hi hj h) (2 ^ (K + 1)) le_rfl
  rw [rowAutCI_eq, hlen, h2]
  apply List.ext_getElem
  · rw [List.length_take, hl, Array.length_toList, hs, Nat.pow_succ]; omega
  · intro j h1 _
    rw [Array.length_toList, hs] at h1
    obtain ⟨i, hi, hij⟩ := mul_odd_surj (K + 1) g hg j (by rw [Nat.pow_succ]; omega)
    have hin : i ≠ 2 ^ K := by
      intro h
      rw [h, ← h2, half_mul_odd (2 ^ K) g hg, Nat.mod_eq_of_lt (by omega)] at hij
      omega
    have ha := hc i hi (by rw [hij]; exact h1)
    have hb := hv i hi
    rw [hij] at ha hb
    rw [← h2] at hi
    rw [← h2, valCI_eq_autVal (2 ^ K) g q x hlen hx i hi hin] at ha
    rw [h2] at ha
    rw [List.getElem_take]
    have e1 : ∀ (l : List ℕ) (h : j < l.length), l[j] = l.getD j 0 := by
      intro l h; simp [List.getD_eq_getElem?_getD, h]
    rw [e1, e1, hb, ← ha]
    simp [List.getD_eq_getElem?_getD, Array.getElem!_eq_getD, Array.getD_eq_getD_getElem?]

/-! ### the image is conjugate invariant -/

/-- exponents of mirror coefficients: for `0 < i < 2n`, `g` odd, `e = i·g mod 4n` and `e' = (2n−i)·g mod 4n`
satisfy `e + e' = 2n` or `6n` -/
theorem mirror_exponents (n g i : ℕ) (hn : 0 < n) (hg : g % 2 = 1) (hi : i < 2 * n) :
    (i * g) % (4 * n) + ((2 * n - i) * g) % (4 * n) = 2 * n
    ∨ (i * g) % (4 * n) + ((2 * n - i) * g) % (4 * n) = 6 * n := by
  have h1 : (i * g + (2 * n - i) * g) % (4 * n) = 2 * n := by
    have : i * g + (2 * n - i) * g = 2 * n * g := by
      rw [← Nat.add_mul]; congr 1; omega
    rw [this]
    obtain ⟨k, hk⟩ : ∃ k, g = 2 * k + 1 := ⟨g / 2, by omega⟩
    subst hk
    have : 2 * n * (2 * k + 1) = 2 * n + 4 * n * k := by ring
    rw [this, Nat.add_mul_mod_self_left, Nat.mod_eq_of_lt (by omega)]
  rw [Nat.add_mod] at h1
  have ha : (i * g) % (4 * n) < 4 * n := Nat.mod_lt _ (by omega)
  have hb : ((2 * n - i) * g) % (4 * n) < 4 * n := Nat.mod_lt _ (by omega)
  generalize (i * g) % (4 * n) = a at *
  generalize ((2 * n - i) * g) % (4 * n) = b at *
  by_cases hlt : a + b < 4 * n
  · rw [Nat.mod_eq_of_lt hlt] at h1; left; exact h1
  · have : (a + b) % (4 * n) = a + b - 4 * n := by
      rw [Nat.mod_eq_sub_mod (by omega), Nat.mod_eq_of_lt (by omega)]
    rw [this] at h1; right; omega

/-- entries of the unfolded polynomial are mirror images: `U_(2n−i) = −U_i` (canonical), `0 < i < 2n`, `i ≠ n` -/
theorem unfoldCI_mirror (q : ℕ) (x : List ℕ) (hx : ∀ v ∈ x, v < q) (i : ℕ) (h0 : 0 < i)
    (hi : i < 2 * x.length) (hin : i ≠ x.length) :
    (unfoldCI q x).getD (2 * x.length - i) 0 = negq q ((unfoldCI q x).getD i 0) := by
  rw [unfoldCI_getD q x i hi, unfoldCI_getD q x (2 * x.length - i) (by omega)]
  by_cases hlt : i < x.length
  · rw [if_pos hlt, if_neg (by omega), if_neg (by omega)]
    congr 2; omega
  · rw [if_neg hlt, if_neg hin, if_pos (by omega)]
    have hm : x.getD (2 * x.length - i) 0 < q := hx _ (getD_mem_of_lt x _ (by omega))
    rw [negq_negq q _ hm]

theorem unfoldCI_lt (q : ℕ) (hq : 0 < q) (x : List ℕ) (hx : ∀ v ∈ x, v < q) (i : ℕ) (hi : i < 2 * x.length) :
    (unfoldCI q x).getD i 0 < q := by
  rw [unfoldCI_getD q x i hi]
  split
  · exact hx _ (getD_mem_of_lt x _ (by omega))
  · split
    · exact hq
    · exact Nat.mod_lt _ hq

/-- **The image of a conjugate-invariant polynomial under `σ_g` is conjugate invariant**: `σ_g(unfold x)` is the
unfolding of its own first half, `rowAutCI g q x`.  (`N = 2^K`, odd `g`, entries `< q`.) -/
theorem rowAut_unfoldCI (K g q : ℕ) (x : List ℕ) (hlen : x.length = 2 ^ K) (hg : g % 2 = 1)
    (hx : ∀ v ∈ x, v < q) (hq : 0 < q) :
    RPoly.rowAut g q (unfoldCI q x) = unfoldCI q (rowAutCI g q x) := by
  have hpos : 0 < 2 ^ K := by positivity
  have h2 : 2 * 2 ^ K = 2 ^ (K + 1) := by rw [Nat.pow_succ]; ring
  have hU : (unfoldCI q x).length = 2 ^ (K + 1) := by rw [unfoldCI_length, hlen, h2]
  obtain ⟨hl, hv⟩ := rowAut_spec (K + 1) g q (unfoldCI q x) hU hg
  have hR := rowAutCI_eq_take K g q x hlen hg hx
  have hRl : (rowAutCI g q x).length = 2 ^ K := by
    rw [hR, List.length_take, hl, Nat.pow_succ]; omega
  have e1 : ∀ (l : List ℕ) (j : ℕ) (h : j < l.length), l[j] = l.getD j 0 := by
    intro l j h; simp [List.getD_eq_getElem?_getD, h]
  have hRget : ∀ j, j < 2 ^ K → (rowAutCI g q x).getD j 0 = (RPoly.rowAut g q (unfoldCI q x)).getD j 0 := by
    intro j hj
    rw [hR, ← e1 _ j (by rw [List.length_take, hl, Nat.pow_succ]; omega), List.getElem_take,
      e1 _ j (by rw [hl, Nat.pow_succ]; omega)]
  apply List.ext_getElem
  · rw [hl, unfoldCI_length, hRl, h2]
  · intro j h1 h2'
    rw [hl] at h1
    rw [e1 _ j (by rw [hl]; exact h1), e1 _ j h2', unfoldCI_getD q _ j (by rw [hRl, h2]; exact h1), hRl]
    obtain ⟨i, hi, hij⟩ := mul_odd_surj (K + 1) g hg j h1
    have hvi := hv i hi
    rw [hij] at hvi
    rw [← h2] at hi hij h1 hvi
    have hmm : ∀ t, (t * g) % (4 * 2 ^ K) % (2 * 2 ^ K) = (t * g) % (2 * 2 ^ K) :=
      fun t => Nat.mod_mod_of_dvd _ ⟨2, by ring⟩
    have h4 : 2 * (2 * 2 ^ K) = 4 * 2 ^ K := by ring
    by_cases hjn : j < 2 ^ K
    · rw [if_pos hjn, hRget j hjn]
    · rw [if_neg hjn]
      by_cases hje : j = 2 ^ K
      · -- the middle coefficient: `i = n`, `U_n = 0`
        rw [if_pos hje]
        have hi_eq : i = 2 ^ K := by
          apply mul_odd_inj (K + 1) g i (2 ^ K) hg (by rw [← h2]; exact hi) (by rw [Nat.pow_succ]; omega)
          rw [← h2, hij, half_mul_odd (2 ^ K) g hg, Nat.mod_eq_of_lt (by omega), hje]
        have hUn : (unfoldCI q x).getD i 0 = 0 := by
          rw [unfoldCI_getD q x i (by rw [hlen]; exact hi), hlen, if_neg (by omega), if_pos hi_eq]
        rw [hvi]
        unfold autVal negq
        rw [hUn]
        split <;> simp
      · rw [if_neg hje]
        -- mirror coefficient `i' = 2n − i` sits at position `2n − j`
        have hi0 : 0 < i := by
          rcases Nat.eq_zero_or_pos i with h | h
          · have h0 : (0 * g) % (2 * 2 ^ K) = j := h ▸ hij
            rw [Nat.zero_mul, Nat.zero_mod] at h0
            omega
          · exact h
        have hin : i ≠ 2 ^ K := by
          intro h
          rw [h, half_mul_odd (2 ^ K) g hg, Nat.mod_eq_of_lt (by omega)] at hij
          omega
        have hsum := mirror_exponents (2 ^ K) g i hpos hg hi
        have hej : (i * g) % (4 * 2 ^ K) % (2 * 2 ^ K) = j := by rw [hmm]; exact hij
        have ha : (i * g) % (4 * 2 ^ K) < 4 * 2 ^ K := Nat.mod_lt _ (by omega)
        have hb : ((2 * 2 ^ K - i) * g) % (4 * 2 ^ K) < 4 * 2 ^ K := Nat.mod_lt _ (by omega)
        have hpos' : ((2 * 2 ^ K - i) * g) % (2 * 2 ^ K) = 2 * 2 ^ K - j
            ∧ ((i * g) % (4 * 2 ^ K) < 2 * 2 ^ K ↔ ((2 * 2 ^ K - i) * g) % (4 * 2 ^ K) < 2 * 2 ^ K) := by
          rw [← hmm (2 * 2 ^ K - i)]
          generalize (i * g) % (4 * 2 ^ K) = a at *
          generalize ((2 * 2 ^ K - i) * g) % (4 * 2 ^ K) = b at *
          by_cases hlt : a < 2 * 2 ^ K
          · rw [Nat.mod_eq_of_lt hlt] at hej
            rcases hsum with hs | hs
            · have hb2 : b < 2 * 2 ^ K := by omega
              rw [Nat.mod_eq_of_lt hb2]
              exact ⟨by omega, by constructor <;> intro _ <;> assumption⟩
            · omega
          · have : a % (2 * 2 ^ K) = a - 2 * 2 ^ K := by
              rw [Nat.mod_eq_sub_mod (by omega), Nat.mod_eq_of_lt (by omega)]
            rw [this] at hej
            rcases hsum with hs | hs
            · omega
            · have hb2 : ¬ b < 2 * 2 ^ K := by omega
              have : b % (2 * 2 ^ K) = b - 2 * 2 ^ K := by
                rw [Nat.mod_eq_sub_mod (by omega), Nat.mod_eq_of_lt (by omega)]
              rw [this]
              exact ⟨by omega, by constructor <;> intro h <;> omega⟩
        obtain ⟨hp1, hp2⟩ := hpos'
        have hvi' := hv (2 * 2 ^ K - i) (by rw [← h2]; omega)
        rw [← h2, hp1] at hvi'
        rw [hRget (2 * 2 ^ K - j) (by omega), hvi', hvi]
        have hmir := unfoldCI_mirror q x hx i hi0 (by rw [hlen]; exact hi) (by rw [hlen]; exact hin)
        rw [hlen] at hmir
        have hUi := unfoldCI_lt q hq x hx i (by rw [hlen]; exact hi)
        unfold autVal
        rw [h4]
        by_cases hs : (i * g) % (4 * 2 ^ K) < 2 * 2 ^ K
        · rw [if_pos hs, if_pos (hp2.1 hs), hmir, negq_negq q _ hUi]
        · rw [if_neg hs, if_neg (fun h => hs (hp2.2 h)), hmir, negq_negq q _ hUi]

#print axioms mulRNSScalarMontgomery_view
#print axioms mulRNSScalarMontgomeryAt_level_split_counterexample
#print axioms rowAutCI_eq_take
#print axioms rowAut_unfoldCI

end Lattigo.RingQP
