/-
  C11 proofs, part 7: `keys_sufficient` — every Galois key the rotate-and-accumulate loop looks
  up belongs to the advertised list for the same arguments.  Purely combinatorial: no hypothesis
  on the carrier, on `nthRoot`, on the presence of `P`, or on overflow.
-/
import Lattigo.Proofs.InnerSumBasic

namespace Lattigo.Proofs.InnerSum
open Lattigo Lattigo.Model.Galois Lattigo.Model.InnerSum

variable {α : Type}

/-- the two kinds of look-ups turn `i` of the loop can make, both only when `2^i < n` -/
def Req (N n : Nat) (off : Int) (r : Nat) : Prop :=
  ∃ i, 2 ^ i < n ∧
    (r = galEl N (wrapInt (((2 ^ i : Nat) : Int) * off)) ∨
     (n / 2 ^ i % 2 = 1 ∧ n - n % 2 ^ (i + 1) ≠ 0 ∧
        r = galEl N (wrapInt (((n - n % 2 ^ (i + 1) : Nat) : Int) * off))))

theorem mem_request {lazy : Bool} {g r : Nat} {reqs : List Nat} (h : r ∈ request lazy g reqs) :
    r ∈ reqs ∨ r = g := by
  unfold request at h
  split at h
  · simpa using h
  · exact Or.inl h

theorem ptsStep_reqs (S : Ops α) (f : α → α → α) (lazy : Bool) (N n : Nat) (off : Int) (i : Nat)
    (st : PState α) (hj : 0 < n / 2 ^ i) :
    ∀ r ∈ (ptsStep S f lazy N n off i (n / 2 ^ i) st).reqs, r ∈ st.reqs ∨ Req N n off r := by
  have hpi : 0 < 2 ^ i := by positivity
  have hle : 2 ^ i ≤ n := by
    have := Nat.mul_div_le n (2 ^ i)
    have : 2 ^ i * 1 ≤ 2 ^ i * (n / 2 ^ i) := Nat.mul_le_mul_left _ hj
    omega
  -- if 2^i = n then the rotation amount of the odd branch is 0
  have htop : ¬ 2 ^ i < n → n - n % 2 ^ (i + 1) = 0 := by
    intro h
    have hn : n = 2 ^ i := by omega
    have : n % 2 ^ (i + 1) = n := Nat.mod_eq_of_lt (by rw [hn, pow_succ]; omega)
    rw [this]; simp
  intro r hr
  unfold ptsStep at hr
  simp only [and_mask, shl_one] at hr
  by_cases hodd : n / 2 ^ i % 2 = 1
  · simp only [hodd, if_true] at hr
    by_cases hk : n - n % 2 ^ (i + 1) = 0
    · -- top-like turn: state := true, no look-up at all
      simp only [hk, ne_eq, not_true_eq_false, if_false] at hr
      by_cases hp : n &&& (n - 1) = 0
      · simp only [hp, not_true_eq_false, if_false, Bool.not_true, Bool.false_eq_true] at hr
        exact Or.inl hr
      · simp only [hp, not_false_eq_true, if_true, Bool.not_true, Bool.false_eq_true, if_false] at hr
        exact Or.inl hr
    · have hlt : 2 ^ i < n := by
        by_contra hc; exact hk (htop hc)
      simp only [hk, ne_eq, not_false_eq_true, if_true] at hr
      have hodd_req : ∀ r, r = galEl N (wrapInt (((n - n % 2 ^ (i + 1) : Nat) : Int) * off)) →
          Req N n off r := fun r hr => ⟨i, hlt, Or.inr ⟨hodd, hk, hr⟩⟩
      have hdbl_req : ∀ r, r = galEl N (wrapInt (((2 ^ i : Nat) : Int) * off)) → Req N n off r :=
        fun r hr => ⟨i, hlt, Or.inl hr⟩
      by_cases hcopy : st.copy = true
      · simp only [hcopy, if_true] at hr
        by_cases hs : st.state = true
        · simp only [hs, Bool.not_true, Bool.false_eq_true, if_false] at hr
          rcases mem_request hr with h | h
          · exact Or.inl h
          · exact Or.inr (hodd_req r h)
        · simp only [hs, Bool.not_false, if_true] at hr
          rcases mem_request hr with h | h
          · rcases mem_request h with h | h
            · exact Or.inl h
            · exact Or.inr (hodd_req r h)
          · exact Or.inr (hdbl_req r h)
      · simp only [hcopy, Bool.false_eq_true, if_false] at hr
        by_cases hs : st.state = true
        · simp only [hs, Bool.not_true, Bool.false_eq_true, if_false] at hr
          rcases mem_request hr with h | h
          · exact Or.inl h
          · exact Or.inr (hodd_req r h)
        · simp only [hs, Bool.not_false, if_true] at hr
          rcases mem_request hr with h | h
          · rcases mem_request h with h | h
            · exact Or.inl h
            · exact Or.inr (hodd_req r h)
          · exact Or.inr (hdbl_req r h)
  · -- even turn: n / 2^i ≥ 2, so 2^i < n
    have hlt : 2 ^ i < n := by
      have h2 : 2 ≤ n / 2 ^ i := by omega
      have : 2 ^ i * 2 ≤ 2 ^ i * (n / 2 ^ i) := Nat.mul_le_mul_left _ h2
      have := Nat.mul_div_le n (2 ^ i)
      omega
    simp only [hodd, if_false] at hr
    by_cases hs : st.state = true
    · simp only [hs, Bool.not_true, Bool.false_eq_true, if_false] at hr
      exact Or.inl hr
    · simp only [hs, Bool.not_false, if_true] at hr
      rcases mem_request hr with h | h
      · exact Or.inl h
      · exact Or.inr ⟨i, hlt, Or.inl h⟩

theorem ptsLoop_reqs (S : Ops α) (f : α → α → α) (lazy : Bool) (N n : Nat) (off : Int) :
    ∀ (fuel i : Nat) (st : PState α),
      ∀ r ∈ (ptsLoop S f lazy N n off fuel i (n / 2 ^ i) st).reqs, r ∈ st.reqs ∨ Req N n off r := by
  intro fuel
  induction fuel with
  | zero => intro i st r hr; exact Or.inl (by simpa [ptsLoop] using hr)
  | succ fu ih =>
    intro i st r hr
    unfold ptsLoop at hr
    by_cases h0 : n / 2 ^ i = 0
    · rw [if_pos h0] at hr; exact Or.inl hr
    · rw [if_neg h0, Proofs.Galois.shr_one] at hr
      have hdd : n / 2 ^ i / 2 = n / 2 ^ (i + 1) := by
        rw [Nat.div_div_eq_div_mul, pow_succ]
      rw [hdd] at hr
      rcases ih (i + 1) _ r hr with h | h
      · exact ptsStep_reqs S f lazy N n off i st (Nat.pos_of_ne_zero h0) r h
      · exact Or.inr h

/-! ### the advertised list -/

theorem mem_insertNew_self (k : Int) (l : List Int) : k ∈ insertNew k l := by
  unfold insertNew
  by_cases h : l.contains k = true
  · rw [if_pos h]; exact List.contains_iff_mem.mp h
  · rw [if_neg h]; simp

theorem mem_insertNew_of_mem {x : Int} (k : Int) {l : List Int} (h : x ∈ l) : x ∈ insertNew k l := by
  unfold insertNew
  split
  · exact h
  · simp [h]

/-- The loop of `GaloisElementsForInnerSum` terminates for `n ≤ 2^62` and its result contains,
    for every `t'` with `2^t' < n`, both rotation amounts of turn `t'`. -/
theorem advLoop_spec (batch n : Int) (hn : n ≤ 4611686018427387904) :
    ∀ (fuel t : Nat) (acc : List Int), 63 ≤ t + fuel → t ≤ 62 →
      ∃ res, advLoop batch n fuel ((2 : Int) ^ t) acc = some res ∧ (∀ x ∈ acc, x ∈ res) ∧
        ∀ t', t ≤ t' → (2 : Int) ^ t' < n →
          wrapInt ((2 : Int) ^ t' * batch) ∈ res ∧
          wrapInt ((n - n % (2 * (2 : Int) ^ t')) * batch) ∈ res := by
  intro fuel
  induction fuel with
  | zero => intro t acc h1 h2; omega
  | succ fu ih =>
    intro t acc h1 h2
    unfold advLoop
    by_cases hlt : (2 : Int) ^ t < n
    · rw [if_pos hlt]
      have ht61 : t ≤ 61 := by
        by_contra hc
        have : t = 62 := by omega
        subst this; norm_num at hlt; omega
      have hpow : (2 : Int) ^ t ≤ 2 ^ 61 := pow_le_pow_right₀ (by norm_num) ht61
      have hw : wrapInt (2 * (2 : Int) ^ t) = (2 : Int) ^ (t + 1) := by
        have hp : (0 : Int) < 2 ^ t := by positivity
        rw [wrapInt_of_small' _ (by omega) (by norm_num at hpow; omega), pow_succ]; ring
      rw [hw]
      obtain ⟨res, hres, hacc, hall⟩ := ih (t + 1)
        (insertNew (wrapInt ((n - n % (2 * (2 : Int) ^ t)) * batch)) (insertNew (wrapInt ((2 : Int) ^ t * batch)) acc))
        (by omega) (by omega)
      refine ⟨res, hres, ?_, ?_⟩
      · intro x hx
        exact hacc x (mem_insertNew_of_mem _ (mem_insertNew_of_mem _ hx))
      · intro t' ht' hlt'
        rcases Nat.eq_or_lt_of_le ht' with heq | hgt
        · subst heq
          exact ⟨hacc _ (mem_insertNew_of_mem _ (mem_insertNew_self _ _)),
                 hacc _ (mem_insertNew_self _ _)⟩
        · exact hall t' (by omega) hlt'
    · rw [if_neg hlt]
      refine ⟨acc, rfl, fun x hx => hx, ?_⟩
      intro t' ht' hlt'
      have : (2 : Int) ^ t ≤ 2 ^ t' := pow_le_pow_right₀ (by norm_num) ht'
      omega
where
  wrapInt_of_small' (x : Int) (h1 : -9223372036854775808 ≤ x) (h2 : x < 9223372036854775808) :
      wrapInt x = x := by
    unfold wrapInt; omega

/-- every `Req` for `(n, off)` is in the advertised list for `(off, n)` -/
theorem req_mem_adv (N : Nat) (off n : Int) (hn : n ≤ 4611686018427387904) :
    ∃ l, galoisElementsForInnerSum N off n = some l ∧ ∀ r, Req N n.toNat off r → r ∈ l := by
  obtain ⟨res, hres, _, hall⟩ := advLoop_spec off n hn 64 0 [] (by omega) (by omega)
  refine ⟨galEls N res, ?_, ?_⟩
  · unfold galoisElementsForInnerSum rotationsForInnerSum
    rw [show (1 : Int) = 2 ^ 0 by norm_num, hres]; rfl
  · rintro r ⟨i, hlt, hr⟩
    have hpos : 0 < n := by
      by_contra hc
      have : n.toNat = 0 := by omega
      rw [this] at hlt; exact absurd hlt (Nat.not_lt_zero _)
    have hcast : ((n.toNat : Nat) : Int) = n := by omega
    have hlt' : (2 : Int) ^ i < n := by
      rw [← hcast]; exact_mod_cast hlt
    obtain ⟨h1, h2⟩ := hall i (by omega) hlt'
    unfold galEls
    rcases hr with hr | ⟨_, _, hr⟩
    · rw [hr]
      have : ((2 ^ i : Nat) : Int) = (2 : Int) ^ i := by push_cast; rfl
      rw [this]
      exact List.mem_map_of_mem h1
    · rw [hr]
      have : ((n.toNat - n.toNat % 2 ^ (i + 1) : Nat) : Int) = n - n % (2 * (2 : Int) ^ i) := by
        rw [Nat.cast_sub (Nat.mod_le _ _), Int.natCast_mod, hcast]
        push_cast; rw [pow_succ]; ring_nf
      rw [this]
      exact List.mem_map_of_mem h2

/-- **`keys_sufficient` for `PartialTracesSum` / `RotateAndAdd`**: for *every* Go `int` pair
    `(offset, n)` with `n ≤ 2^62` (zero and negative values included) the advertised list
    `GaloisElementsForInnerSum(offset, n)` exists and contains every key the call looks up. -/
theorem partialTracesSum_keys (S : Ops α) (N : Nat) (hasP : Bool) (v out0 acc0 : α) (offset n : Int)
    (hn : n ≤ 4611686018427387904) :
    ∃ l, galoisElementsForInnerSum N offset n = some l ∧
      ∀ r ∈ (partialTracesSum S N hasP v out0 acc0 offset n).reqs, r ∈ l := by
  obtain ⟨l, hl, hmem⟩ := req_mem_adv N offset n hn
  refine ⟨l, hl, ?_⟩
  intro r hr
  unfold partialTracesSum at hr
  split at hr
  · simp [Res.reqs] at hr
  · split at hr
    · simp [Res.reqs] at hr
    · split at hr
      · simp [Res.reqs] at hr
      · simp only [Res.reqs] at hr
        have := ptsLoop_reqs S S.add true N n.toNat offset 64 0 _ r (by simpa using hr)
        rcases this with h | h
        · simp at h
        · exact hmem r h

/-- same for `InnerFunction` (which uses the list of `InnerSum`). -/
theorem innerFunction_keys (S : Ops α) (f : α → α → α) (N : Nat) (v out0 acc0 : α) (batch n : Int)
    (hn : n ≤ 4611686018427387904) :
    ∃ l, galoisElementsForInnerSum N batch n = some l ∧
      ∀ r ∈ (innerFunction S f N v out0 acc0 batch n).reqs, r ∈ l := by
  obtain ⟨l, hl, hmem⟩ := req_mem_adv N batch n hn
  refine ⟨l, hl, ?_⟩
  intro r hr
  unfold innerFunction at hr
  split at hr
  · simp [Res.reqs] at hr
  · split at hr
    · simp [Res.reqs] at hr
    · simp only [Res.reqs] at hr
      have := ptsLoop_reqs S f false N n.toNat batch 64 0 _ r (by simpa using hr)
      rcases this with h | h
      · simp at h
      · exact hmem r h

/-- `Replicate` with `GaloisElementsForReplicate`. -/
theorem replicate_keys (S : Ops α) (N : Nat) (hasP : Bool) (v out0 acc0 : α) (batch n : Int)
    (hn : n ≤ 4611686018427387904) :
    ∃ l, galoisElementsForReplicate N batch n = some l ∧
      ∀ r ∈ (replicate S N hasP v out0 acc0 batch n).reqs, r ∈ l := by
  unfold galoisElementsForReplicate replicate
  exact partialTracesSum_keys S N hasP v out0 acc0 _ n hn

/-- `ckks.Evaluator.InnerSum` with `ckks.Parameters.GaloisElementsForInnerSum`. -/
theorem innerSumCKKS_keys (S : Ops α) (N slots : Nat) (hasP : Bool) (v out0 acc0 : α) (batch n : Int)
    (hn : n ≤ 4611686018427387904) :
    ∃ l, galoisElementsForInnerSum N batch n = some l ∧
      ∀ r ∈ (innerSumCKKS S N slots hasP v out0 acc0 batch n).reqs, r ∈ l := by
  obtain ⟨l, hl, hmem⟩ := partialTracesSum_keys S N hasP v out0 acc0 batch n hn
  refine ⟨l, hl, ?_⟩
  intro r hr
  unfold innerSumCKKS at hr
  simp only at hr
  split at hr
  · simp [Res.reqs] at hr
  · split at hr
    · simp [Res.reqs] at hr
    · split at hr
      · simp [Res.reqs] at hr
      · exact hmem r hr

end Lattigo.Proofs.InnerSum
