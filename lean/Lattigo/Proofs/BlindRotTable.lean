/-
  C20 — the discrete-log table of the blind rotation covers every odd residue: `±5^i`, `i < N/2`, are all
  the odd residues modulo `2N` (`N` a power of two), hence every odd mask coefficient is treated as
  itself (`effZ N x = x`), zero as zero.
-/
import Lattigo.Proofs.BlindRot
import Mathlib.Data.Nat.ModEq

namespace Lattigo.RGSW.BlindRot

/-- `5^(2^k) = 1 + 2^(k+2)·t` with `t` ODD -/
theorem five_pow_two_pow_odd (k : Nat) : ∃ t : Nat, t % 2 = 1 ∧ 5 ^ (2 ^ k) = 1 + 2 ^ (k + 2) * t := by
  induction k with
  | zero => exact ⟨1, by norm_num, by norm_num⟩
  | succ k ih =>
    obtain ⟨t, hodd, ht⟩ := ih
    refine ⟨t + 2 ^ (k + 1) * t ^ 2, ?_, ?_⟩
    · have : 2 ^ (k + 1) * t ^ 2 = 2 * (2 ^ k * t ^ 2) := by ring
      omega
    · rw [pow_succ 2 k, pow_mul, ht]; ring

/-- two residues modulo `2M` that agree modulo `M` differ by `0` or `M` -/
theorem residues_double (A B M : Nat) (hM : 0 < M) (hA : A < 2 * M) (hB : B < 2 * M)
    (h : A % M = B % M) : A = B ∨ A = B + M ∨ B = A + M := by
  have ha := Nat.div_add_mod A M
  have hb := Nat.div_add_mod B M
  have hqa : A / M < 2 := Nat.div_lt_of_lt_mul (by omega)
  have hqb : B / M < 2 := Nat.div_lt_of_lt_mul (by omega)
  rw [h] at ha
  generalize A / M = qa at *
  generalize B / M = qb at *
  generalize B % M = r at *
  have hqa' : qa = 0 ∨ qa = 1 := by omega
  have hqb' : qb = 0 ∨ qb = 1 := by omega
  rcases hqa' with rfl | rfl <;> rcases hqb' with rfl | rfl <;> simp at ha hb <;> omega

/-- congruent modulo `M` means congruent modulo `2M` up to `M` -/
theorem modEq_double (a b M : Nat) (hM : 0 < M) (h : a ≡ b [MOD M]) :
    a ≡ b [MOD 2 * M] ∨ a + M ≡ b [MOD 2 * M] := by
  unfold Nat.ModEq at *
  have hA : a % (2 * M) % M = a % M := Nat.mod_mod_of_dvd a (Dvd.intro_left 2 rfl)
  have hB : b % (2 * M) % M = b % M := Nat.mod_mod_of_dvd b (Dvd.intro_left 2 rfl)
  have hAlt : a % (2 * M) < 2 * M := Nat.mod_lt _ (by omega)
  have hBlt : b % (2 * M) < 2 * M := Nat.mod_lt _ (by omega)
  have hsum : (a + M) % (2 * M) = (a % (2 * M) + M) % (2 * M) := by
    rw [Nat.add_mod, Nat.mod_eq_of_lt (by omega : M < 2 * M)]
  rcases residues_double _ _ M hM hAlt hBlt (by rw [hA, hB, h]) with e | e | e
  · left; exact e
  · right
    rw [hsum, e]
    have : b % (2 * M) + M + M = b % (2 * M) + 2 * M := by ring
    rw [this, Nat.add_mod_right, Nat.mod_mod]
  · right
    rw [hsum, ← e, Nat.mod_mod]

/-- every `x ≡ 1 (mod 4)` is a power `5^i`, `i < 2^k`, modulo `2^(k+2)` -/
theorem cover_one_mod_four : ∀ (k x : Nat), x % 4 = 1 → ∃ i, i < 2 ^ k ∧ 5 ^ i ≡ x [MOD 2 ^ (k + 2)]
  | 0, x, hx => ⟨0, by norm_num, by unfold Nat.ModEq; simp; omega⟩
  | k + 1, x, hx => by
      obtain ⟨i, hi, hmod⟩ := cover_one_mod_four k x hx
      have hM : 0 < 2 ^ (k + 2) := Nat.pow_pos (by norm_num)
      have h2M : 2 ^ (k + 1 + 2) = 2 * 2 ^ (k + 2) := by ring
      rw [h2M]
      rcases modEq_double _ _ _ hM hmod with h | h
      · exact ⟨i, by rw [pow_succ]; omega, h⟩
      · -- 5^(i + 2^k) = 5^i·(1 + M·t), t odd, so ≡ 5^i + M
        obtain ⟨t, hodd, ht⟩ := five_pow_two_pow_odd k
        refine ⟨i + 2 ^ k, by rw [pow_succ]; omega, ?_⟩
        have hexp : 5 ^ (i + 2 ^ k) = 5 ^ i + 2 ^ (k + 2) * (5 ^ i * t) := by
          rw [pow_add, ht]; ring
        have hoddprod : (5 ^ i * t) % 2 = 1 := by
          have h5 : 5 ^ i % 2 = 1 := by
            rw [Nat.pow_mod]; norm_num
          rw [Nat.mul_mod, h5, hodd]
        obtain ⟨r, hr⟩ : ∃ r, 5 ^ i * t = 2 * r + 1 := ⟨5 ^ i * t / 2, by omega⟩
        have : 5 ^ (i + 2 ^ k) = (5 ^ i + 2 ^ (k + 2)) + 2 * 2 ^ (k + 2) * r := by
          rw [hexp, hr]; ring
        rw [this]
        unfold Nat.ModEq at h ⊢
        rw [Nat.add_mul_mod_self_left]
        exact h

section table
variable (k : Nat)

/-- every odd residue modulo `2N` (`N = 2^(k+1)`) is a key of the table -/
theorem table_covers (x : Nat) (hx : x < 2 * 2 ^ (k + 1)) (hodd : x % 2 = 1) :
    ∃ kv ∈ dlogTable (2 ^ (k + 1)), kv.1 = x := by
  have h2N : 2 * 2 ^ (k + 1) = 2 ^ (k + 2) := by ring
  have hNhalf : 2 ^ (k + 1) / 2 = 2 ^ k := by
    rw [pow_succ]; exact Nat.mul_div_cancel _ (by norm_num)
  have h4 : 4 ∣ 2 ^ (k + 2) := ⟨2 ^ k, by ring⟩
  by_cases h1 : x % 4 = 1
  · obtain ⟨i, hi, hmod⟩ := cover_one_mod_four k x h1
    refine ⟨(powG (2 ^ (k + 1)) i, (i : Int)), ?_, ?_⟩
    · simp only [dlogTable, List.mem_append, List.mem_flatMap, List.mem_range]
      left; exact ⟨i, by rw [hNhalf]; exact hi, by simp⟩
    · show galoisGen ^ i % (2 * 2 ^ (k + 1)) = x
      rw [h2N]; unfold Nat.ModEq at hmod
      rw [show galoisGen = 5 from rfl, hmod, Nat.mod_eq_of_lt (by omega)]
  · have h3 : x % 4 = 3 := by omega
    have hx' : (2 ^ (k + 2) - x) % 4 = 1 := by
      obtain ⟨c, hc⟩ := h4
      omega
    obtain ⟨i, hi, hmod⟩ := cover_one_mod_four k (2 ^ (k + 2) - x) hx'
    refine ⟨(2 * 2 ^ (k + 1) - powG (2 ^ (k + 1)) i, -(i : Int)), ?_, ?_⟩
    · simp only [dlogTable, List.mem_append, List.mem_flatMap, List.mem_range]
      left; exact ⟨i, by rw [hNhalf]; exact hi, by simp⟩
    · show 2 * 2 ^ (k + 1) - galoisGen ^ i % (2 * 2 ^ (k + 1)) = x
      rw [h2N]; unfold Nat.ModEq at hmod
      rw [show galoisGen = 5 from rfl, hmod, Nat.mod_eq_of_lt (by omega)]
      omega

/-- a key of the table is looked up to an entry with that key -/
theorem dlog_of_mem (N x : Nat) (h : ∃ kv ∈ dlogTable N, kv.1 = x) :
    ∃ kv ∈ dlogTable N, kv.1 = x ∧ dlog N x = kv.2 := by
  unfold dlog
  cases hf : (dlogTable N).reverse.find? (fun kv => kv.1 == x) with
  | none =>
    exfalso
    obtain ⟨kv, hmem, hk⟩ := h
    have := List.find?_eq_none.mp hf kv (List.mem_reverse.mpr hmem)
    simp [hk] at this
  | some kv =>
    refine ⟨kv, List.mem_reverse.mp (List.mem_of_find?_eq_some hf), ?_, rfl⟩
    have := List.find?_some hf
    simpa using this

/-- `eff`: every odd coefficient is treated as itself (`N = 2^(k+1)`, `k ≥ 1`) -/
theorem effZ_odd (hk : 1 ≤ k) (x : Nat) (hx : x < 2 * 2 ^ (k + 1)) (hodd : x % 2 = 1) :
    effZ (2 ^ (k + 1)) x = (x : ZMod (2 * 2 ^ (k + 1))) := by
  have hN4 : 4 ≤ 2 ^ (k + 1) := by
    calc 4 = 2 ^ 2 := by norm_num
      _ ≤ 2 ^ (k + 1) := Nat.pow_le_pow_right (by norm_num) (by omega)
  have hx0 : x ≠ 0 := by omega
  by_cases hm1 : x = 2 * 2 ^ (k + 1) - 1
  · -- the class 2N: treated as -1 = 2N - 1
    rw [effZ_eq_fk _ _ hx0, hm1, dlog_minus_one]
    simp only [fk, if_true]
    rw [Nat.cast_sub (by omega), ZMod.natCast_self]; simp
  · obtain ⟨kv, hmem, hkey, hd⟩ := dlog_of_mem _ x (table_covers k x hx hodd)
    rw [effZ_eq_fk _ _ hx0, hd]
    simp only [dlogTable, List.mem_append, List.mem_flatMap, List.mem_range, List.mem_singleton] at hmem
    rcases hmem with ⟨i, hi, hm⟩ | hm
    · simp only [List.mem_cons, List.mem_nil_iff, or_false] at hm
      have hlt : powG (2 ^ (k + 1)) i < 2 * 2 ^ (k + 1) := Nat.mod_lt _ (by omega)
      rcases hm with h1 | h1
      · subst h1
        simp only at hkey
        have h0 : ¬ ((i : Int) = ((2 * 2 ^ (k + 1) : Nat) : Int)) := by omega
        have : ¬ ((i : Int) < 0) := by omega
        simp only [fk, h0, this, if_false, Int.natAbs_natCast]
        rw [← hkey, ← galEl_cast]; rfl
      · subst h1
        simp only at hkey
        by_cases hi0 : i = 0
        · exfalso; apply hm1; rw [← hkey, hi0]
          simp [powG, Nat.mod_eq_of_lt (by omega : 1 < 2 * 2 ^ (k + 1))]
        · have h0 : ¬ (-(i : Int) = ((2 * 2 ^ (k + 1) : Nat) : Int)) := by omega
          have : (-(i : Int) < 0) := by omega
          simp only [fk, h0, this, if_true, if_false, Int.natAbs_neg, Int.natAbs_natCast]
          rw [← hkey, Nat.cast_sub (Nat.le_of_lt hlt), ZMod.natCast_self, zero_sub, ← galEl_cast]; rfl
    · exfalso; apply hm1; rw [← hkey, hm]

end table

end Lattigo.RGSW.BlindRot
