import Lattigo.Proofs.NTTTables
import Lattigo.Proofs.Kernels
import Mathlib.Tactic.NormNum.Prime

/-!
  # The word-level RNS/NTT/Montgomery code implements the abstract rows of `RPoly` (C01, WP-N2)

  "Commuting squares" between the stored representation of a row (flags `IsNTT`, `IsMontgomery`)
  and the abstract row operations `RPoly.rowAdd/rowSub/rowNeg/rowMul` of `Model/RPoly.lean`.
-/
namespace Lattigo.RPolyRefine
open Lattigo Lattigo.Gen Lattigo.NTT

/-- `a` is a reduced row of the ring of `T`: `n` coefficients, each `< q` -/
structure Red (T : Tables) (a : List ℕ) : Prop where
  len : a.length = T.n
  lt : ∀ x ∈ a, x < T.q

/-- how the library stores the abstract row `a` under the flags (IsNTT, IsMontgomery) -/
def reprRow (T : Tables) (isNTT isMont : Bool) (a : List ℕ) : List ℕ :=
  (if isMont then List.map (fun x => MForm x T.q T.bred) else id) ((if isNTT then nttStd T else id) a)

/-- the abstraction function: stored limbs ↦ abstract row -/
def absRow (T : Tables) (isNTT isMont : Bool) (limbs : List ℕ) : List ℕ :=
  (if isNTT then inttStd T else id)
    ((if isMont then List.map (fun x => IMForm x T.q T.qinv) else id) (limbs.map (· % T.q)))

/-! ### scalar facts in `Z_q` -/
section scalar
variable {T : Tables} {K : ℕ}

theorem eq_of_cast_eq {q a b : ℕ} (ha : a < q) (hb : b < q)
    (h : ((a : ℕ) : ZMod q) = (b : ZMod q)) : a = b := by
  have := (ZMod.natCast_eq_natCast_iff' a b q).1 h
  rwa [Nat.mod_eq_of_lt ha, Nat.mod_eq_of_lt hb] at this

theorem q_lt_W (hT : Valid T K) : T.q < W := by
  have := hT.h8; have := hT.q_pos; unfold W at *; omega

theorem two_q_le (hT : Valid T K) : 2 * T.q ≤ W := by
  have := hT.h8; unfold W at *; omega

theorem lt_W (hT : Valid T K) {x : ℕ} (hx : x < T.q) : x < W := by
  have := (q_lt_W hT); omega

/-- `MForm x = x·W` in `Z_q`, result `< q` -/
theorem mform_cast (hT : Valid T K) [Fact T.q.Prime] (x : ℕ) (hx : x < W) :
    MForm x T.q T.bred < T.q
    ∧ ((MForm x T.q T.bred : ℕ) : ZMod T.q) = (x : ZMod T.q) * (W : ZMod T.q) := by
  rw [hT.bred]; exact MForm_cast x (two_q_le hT) hx

/-- `IMForm x = x·W⁻¹` in `Z_q`, result `< q` -/
theorem imform_cast (hT : Valid T K) [Fact T.q.Prime] (x : ℕ) (hx : x < W) :
    IMForm x T.q T.qinv < T.q
    ∧ ((IMForm x T.q T.qinv : ℕ) : ZMod T.q) = (x : ZMod T.q) * (W : ZMod T.q)⁻¹ := by
  obtain ⟨h1, h2⟩ := IMForm_spec x T.q T.qinv (q_lt_W hT) hT.mont hx
  refine ⟨h2, ?_⟩
  have hW := W_ne_zero (q := T.q) hT.mont.odd
  have := (ZMod.natCast_eq_natCast_iff' _ _ T.q).2 h1
  simp only [Nat.cast_mul] at this
  rw [← this, mul_assoc, mul_inv_cancel₀ hW, mul_one]

/-- `IMForm (MForm x) = x` on reduced words -/
theorem imform_mform (hT : Valid T K) (x : ℕ) (hx : x < T.q) :
    IMForm (MForm x T.q T.bred) T.q T.qinv = x := by
  have : Fact T.q.Prime := ⟨hT.prime⟩
  have hW := W_ne_zero (q := T.q) hT.mont.odd
  obtain ⟨m1, m2⟩ := mform_cast hT x (lt_W hT hx)
  obtain ⟨i1, i2⟩ := imform_cast hT _ (lt_W hT m1)
  apply eq_of_cast_eq i1 hx
  rw [i2, m2, mul_assoc, mul_inv_cancel₀ hW, mul_one]

/-- `MForm (IMForm x) = x` on reduced words -/
theorem mform_imform (hT : Valid T K) (x : ℕ) (hx : x < T.q) :
    MForm (IMForm x T.q T.qinv) T.q T.bred = x := by
  have : Fact T.q.Prime := ⟨hT.prime⟩
  have hW := W_ne_zero (q := T.q) hT.mont.odd
  obtain ⟨i1, i2⟩ := imform_cast hT x (lt_W hT hx)
  obtain ⟨m1, m2⟩ := mform_cast hT _ (lt_W hT i1)
  apply eq_of_cast_eq m1 hx
  rw [m2, i2, mul_assoc, inv_mul_cancel₀ hW, mul_one]

/-- the Montgomery product with one operand in Montgomery form is the plain product mod `q` -/
theorem mred_mform (hT : Valid T K) (x y : ℕ) (hx : x < T.q) (hy : y < T.q) :
    MRed x (MForm y T.q T.bred) T.q T.qinv = (x * y) % T.q := by
  have : Fact T.q.Prime := ⟨hT.prime⟩
  have hW := W_ne_zero (q := T.q) hT.mont.odd
  obtain ⟨m1, m2⟩ := mform_cast hT y (lt_W hT hy)
  have hxy : x * MForm y T.q T.bred < T.q * W :=
    Nat.mul_lt_mul'' hx (lt_W hT m1)
  have r1 := (MRed_spec x _ T.q T.qinv (two_q_le hT) hT.mont hxy).2
  have r2 := MRed_cast x (MForm y T.q T.bred) T.qinv (two_q_le hT) hT.mont hxy
  apply eq_of_cast_eq r1 (Nat.mod_lt _ hT.q_pos)
  rw [r2, m2, ZMod.natCast_mod, Nat.cast_mul, mul_assoc, mul_assoc, mul_inv_cancel₀ hW, mul_one]

end scalar

/-! ### list helpers -/

theorem zipWith_congr_mem {α β γ : Type} (f g : α → β → γ) :
    ∀ (l1 : List α) (l2 : List β), (∀ u ∈ l1, ∀ v ∈ l2, f u v = g u v) →
      List.zipWith f l1 l2 = List.zipWith g l1 l2
  | [], _, _ => by simp
  | _ :: _, [], _ => by simp
  | u :: l1, v :: l2, h => by
    rw [List.zipWith_cons_cons, List.zipWith_cons_cons,
      h u (List.mem_cons_self ..) v (List.mem_cons_self ..),
      zipWith_congr_mem f g l1 l2
        (fun u' hu' v' hv' => h u' (List.mem_cons_of_mem _ hu') v' (List.mem_cons_of_mem _ hv'))]

theorem map_mod_of_lt {q : ℕ} (l : List ℕ) (h : ∀ x ∈ l, x < q) : l.map (· % q) = l := by
  conv_rhs => rw [← List.map_id l]
  exact List.map_congr_left (fun x hx => Nat.mod_eq_of_lt (h x hx))

/-! ### 3. linearity of the forward transform -/
section linear
variable {F : Type} [CommRing F]

theorem zipWith_zipWith_comm {α : Type} (f g : α → α → α)
    (h : ∀ u u' v v', f (g u u') (g v v') = g (f u v) (f u' v')) :
    ∀ (U U' V V' : List α),
      List.zipWith f (List.zipWith g U U') (List.zipWith g V V')
        = List.zipWith g (List.zipWith f U V) (List.zipWith f U' V')
  | [], _, _, _ => by simp
  | _ :: _, [], _, _ => by simp
  | _ :: _, _ :: _, [], _ => by simp
  | _ :: _, _ :: _, _ :: _, [] => by simp
  | u :: U, u' :: U', v :: V, v' :: V' => by
    simp only [List.zipWith_cons_cons, h, zipWith_zipWith_comm f g h U U' V V']

/-- the exact forward network commutes with every coefficient-wise operation `g` that commutes with
the two butterflies (in particular `+`, `−`, `x ↦ −x`, `x ↦ c·x`) -/
theorem fwdZ_zipWith (ρ : ℕ → F) (g : F → F → F)
    (hp : ∀ r u u' v v', g u u' + r * g v v' = g (u + r * v) (u' + r * v'))
    (hm : ∀ r u u' v v', g u u' - r * g v v' = g (u - r * v) (u' - r * v')) :
    ∀ (k j : ℕ) (a b : List F), a.length = 2 ^ k → b.length = 2 ^ k →
      fwdZ ρ k j (List.zipWith g a b) = List.zipWith g (fwdZ ρ k j a) (fwdZ ρ k j b)
  | 0, _, _, _, _, _ => rfl
  | k + 1, j, a, b, ha, hb => by
    have h2a : a.length / 2 = 2 ^ k := by rw [ha, Nat.pow_succ]; omega
    have h2b : b.length / 2 = 2 ^ k := by rw [hb, Nat.pow_succ]; omega
    have hz : (List.zipWith g a b).length / 2 = 2 ^ k := by
      rw [List.length_zipWith, ha, hb, Nat.min_self, Nat.pow_succ]; omega
    have hla : (a.take (2 ^ k)).length = 2 ^ k := by
      rw [List.length_take, ha, Nat.pow_succ]; omega
    have hra : (a.drop (2 ^ k)).length = 2 ^ k := by
      rw [List.length_drop, ha, Nat.pow_succ]; omega
    have hlb : (b.take (2 ^ k)).length = 2 ^ k := by
      rw [List.length_take, hb, Nat.pow_succ]; omega
    have hrb : (b.drop (2 ^ k)).length = 2 ^ k := by
      rw [List.length_drop, hb, Nat.pow_succ]; omega
    simp only [fwdZ]
    rw [hz, h2a, h2b, List.take_zipWith, List.drop_zipWith,
      zipWith_zipWith_comm (fun u v => u + ρ j * v) g (hp (ρ j)),
      zipWith_zipWith_comm (fun u v => u - ρ j * v) g (hm (ρ j)),
      fwdZ_zipWith ρ g hp hm k (2 * j) _ _
        (by rw [List.length_zipWith, hla, hra, Nat.min_self])
        (by rw [List.length_zipWith, hlb, hrb, Nat.min_self]),
      fwdZ_zipWith ρ g hp hm k (2 * j + 1) _ _
        (by rw [List.length_zipWith, hla, hra, Nat.min_self])
        (by rw [List.length_zipWith, hlb, hrb, Nat.min_self])]
    refine (List.zipWith_append ?_).symm
    rw [fwdZ_length ρ k _ _ (by rw [List.length_zipWith, hla, hra, Nat.min_self]),
      fwdZ_length ρ k _ _ (by rw [List.length_zipWith, hlb, hrb, Nat.min_self])]

theorem fwdZ_add (ρ : ℕ → F) (k j : ℕ) (a b : List F) (ha : a.length = 2 ^ k)
    (hb : b.length = 2 ^ k) :
    fwdZ ρ k j (List.zipWith (fun x y => x + y) a b)
      = List.zipWith (fun x y => x + y) (fwdZ ρ k j a) (fwdZ ρ k j b) :=
  fwdZ_zipWith ρ _ (fun _ _ _ _ _ => by ring) (fun _ _ _ _ _ => by ring) k j a b ha hb

theorem fwdZ_sub (ρ : ℕ → F) (k j : ℕ) (a b : List F) (ha : a.length = 2 ^ k)
    (hb : b.length = 2 ^ k) :
    fwdZ ρ k j (List.zipWith (fun x y => x - y) a b)
      = List.zipWith (fun x y => x - y) (fwdZ ρ k j a) (fwdZ ρ k j b) :=
  fwdZ_zipWith ρ _ (fun _ _ _ _ _ => by ring) (fun _ _ _ _ _ => by ring) k j a b ha hb

/-- the forward network commutes with every map `x ↦ m x` that commutes with the butterflies -/
theorem fwdZ_map (ρ : ℕ → F) (m : F → F)
    (hp : ∀ r u v, m u + r * m v = m (u + r * v))
    (hm : ∀ r u v, m u - r * m v = m (u - r * v))
    (k j : ℕ) (a : List F) (ha : a.length = 2 ^ k) :
    fwdZ ρ k j (a.map m) = (fwdZ ρ k j a).map m := by
  have := fwdZ_zipWith ρ (fun x _ => m x) (fun r u _ v _ => hp r u v) (fun r u _ v _ => hm r u v)
    k j a a ha ha
  rwa [List.zipWith_self, List.zipWith_self] at this

theorem fwdZ_neg (ρ : ℕ → F) (k j : ℕ) (a : List F) (ha : a.length = 2 ^ k) :
    fwdZ ρ k j (a.map (fun x => -x)) = (fwdZ ρ k j a).map (fun x => -x) :=
  fwdZ_map ρ _ (fun _ _ _ => by ring) (fun _ _ _ => by ring) k j a ha

theorem fwdZ_smul (ρ : ℕ → F) (c : F) (k j : ℕ) (a : List F) (ha : a.length = 2 ^ k) :
    fwdZ ρ k j (a.map (fun x => c * x)) = (fwdZ ρ k j a).map (fun x => c * x) :=
  fwdZ_map ρ _ (fun _ _ _ => by ring) (fun _ _ _ => by ring) k j a ha

end linear

section rows
variable {T : Tables} {K : ℕ}

theorem nttStd_length (hT : Valid T K) (a : List ℕ) (hlen : a.length = T.n) :
    (nttStd T a).length = T.n := by
  unfold nttStd nttCoreLazy
  rw [List.length_map, hT.n_eq, log2n_two_pow]
  exact fwdRec_length _ _ _ _ K 0 1 a (by rw [hlen, hT.n_eq])

theorem Red.ntt (hT : Valid T K) {a : List ℕ} (ha : Red T a) : Red T (nttStd T a) := by
  have : Fact T.q.Prime := ⟨hT.prime⟩
  exact ⟨nttStd_length hT a ha.len, (nttStd_cast hT a ha.lt).2⟩

theorem Red.rowMul (hT : Valid T K) {a : List ℕ} (ha : Red T a) (b : List ℕ) :
    Red T (RPoly.rowMul T.q a b) :=
  ⟨by rw [rowMul_length, ha.len], rowMul_lt hT.q_pos a b⟩

/-! ### 1. multiplication -/

/-- **refine_mul_ntt** (NTT-domain square): `MulCoeffsMontgomery` of an NTT row with an
NTT+Montgomery row is the NTT row of the negacyclic product. -/
theorem refine_mul_ntt (hT : Valid T K) (hinv : TableInv (rho T.q T.rootsF) (2 ^ K))
    (a b : List ℕ) (ha : Red T a) (hb : Red T b) :
    List.zipWith (fun x y => MRed x y T.q T.qinv) (nttStd T a)
        ((nttStd T b).map (fun y => MForm y T.q T.bred))
      = nttStd T (RPoly.rowMul T.q a b) := by
  rw [nttStd_mul hT hinv a b ha.len hb.len ha.lt hb.lt, List.zipWith_map_right]
  exact zipWith_congr_mem _ _ _ _
    (fun u hu v hv => mred_mform hT u v ((ha.ntt hT).lt u hu) ((hb.ntt hT).lt v hv))

/-- **refine_mul**: `INTT (MulCoeffsMontgomery (NTT a) (MForm (NTT b))) = a ⊛ b`. -/
theorem refine_mul (hT : Valid T K) (hinv : TableInv (rho T.q T.rootsF) (2 ^ K))
    (a b : List ℕ) (ha : Red T a) (hb : Red T b) :
    inttStd T (List.zipWith (fun x y => MRed x y T.q T.qinv) (nttStd T a)
        ((nttStd T b).map (fun y => MForm y T.q T.bred)))
      = RPoly.rowMul T.q a b := by
  rw [refine_mul_ntt hT hinv a b ha hb]
  exact inttStd_nttStd hT _ (ha.rowMul hT b).len (ha.rowMul hT b).lt

/-- `refine_mul` with the generated lane function of `mulcoeffsmontgomeryvec` -/
theorem refine_mul_lane (hT : Valid T K) (hinv : TableInv (rho T.q T.rootsF) (2 ^ K))
    (a b : List ℕ) (ha : Red T a) (hb : Red T b) :
    inttStd T (List.zipWith (fun x y => mulcoeffsmontgomeryvec_lane x y 0 T.q T.qinv) (nttStd T a)
        ((nttStd T b).map (fun y => mformvec_lane y 0 T.q T.bred)))
      = RPoly.rowMul T.q a b := refine_mul hT hinv a b ha hb

/-! ### 2. abstraction ∘ representation = id -/

theorem Red.nttPart (hT : Valid T K) (f : Bool) {a : List ℕ} (ha : Red T a) :
    Red T ((if f then nttStd T else id) a) := by
  cases f
  · exact ha
  · exact ha.ntt hT

theorem montPart_lt (hT : Valid T K) (g : Bool) (x : List ℕ) (hx : ∀ u ∈ x, u < T.q) :
    ∀ u ∈ (if g then List.map (fun x => MForm x T.q T.bred) else id) x, u < T.q := by
  have : Fact T.q.Prime := ⟨hT.prime⟩
  cases g
  · exact hx
  · intro u hu
    simp only [if_true, List.mem_map] at hu
    obtain ⟨v, hv, rfl⟩ := hu
    exact (mform_cast hT v (lt_W hT (hx v hv))).1

theorem reprRow_lt (hT : Valid T K) (f g : Bool) {a : List ℕ} (ha : Red T a) :
    ∀ u ∈ reprRow T f g a, u < T.q :=
  montPart_lt hT g _ (ha.nttPart hT f).lt

theorem reprRow_length (hT : Valid T K) (f g : Bool) {a : List ℕ} (ha : Red T a) :
    (reprRow T f g a).length = T.n := by
  unfold reprRow
  cases g
  · exact (ha.nttPart hT f).len
  · simp only [if_true, List.length_map]; exact (ha.nttPart hT f).len

theorem Red.repr (hT : Valid T K) (f g : Bool) {a : List ℕ} (ha : Red T a) :
    Red T (reprRow T f g a) := ⟨reprRow_length hT f g ha, reprRow_lt hT f g ha⟩

theorem unmont_mont (hT : Valid T K) (g : Bool) (x : List ℕ) (hx : ∀ u ∈ x, u < T.q) :
    (if g then List.map (fun x => IMForm x T.q T.qinv) else id)
      ((if g then List.map (fun x => MForm x T.q T.bred) else id) x) = x := by
  cases g
  · rfl
  · simp only [if_true, List.map_map]
    conv_rhs => rw [← List.map_id x]
    exact List.map_congr_left (fun u hu => imform_mform hT u (hx u hu))

theorem unntt_ntt (hT : Valid T K) (f : Bool) {a : List ℕ} (ha : Red T a) :
    (if f then inttStd T else id) ((if f then nttStd T else id) a) = a := by
  cases f
  · rfl
  · exact inttStd_nttStd hT a ha.len ha.lt

/-- **absRow_reprRow**: the abstraction function undoes the representation, for all four flag
combinations. -/
theorem absRow_reprRow (hT : Valid T K) (f g : Bool) (a : List ℕ) (ha : Red T a) :
    absRow T f g (reprRow T f g a) = a := by
  unfold absRow
  rw [map_mod_of_lt _ (reprRow_lt hT f g ha)]
  unfold reprRow
  rw [unmont_mont hT g _ (ha.nttPart hT f).lt, unntt_ntt hT f ha]

end rows

/-! ### 3'. linearity of `nttStd`, 4. the additive squares -/

/-- a coefficient-wise binary operation `op` on reduced words which, read in `Z_q`, is an operation
`opZ` commuting with the butterflies and with scaling (`+`, `−`, `−·`) -/
structure LinOp (q : ℕ) (op : ℕ → ℕ → ℕ) (opZ : ZMod q → ZMod q → ZMod q) : Prop where
  cast : ∀ u v, ((op u v : ℕ) : ZMod q) = opZ (u : ZMod q) (v : ZMod q)
  lt : ∀ u v, op u v < q
  hp : ∀ r u u' v v', opZ u u' + r * opZ v v' = opZ (u + r * v) (u' + r * v')
  hm : ∀ r u u' v v', opZ u u' - r * opZ v v' = opZ (u - r * v) (u' - r * v')
  hs : ∀ c u v, opZ (u * c) (v * c) = opZ u v * c

theorem linAdd {q : ℕ} (hq : 0 < q) :
    LinOp q (fun a b => (a + b) % q) (fun x y => x + y) where
  cast u v := by rw [ZMod.natCast_mod, Nat.cast_add]
  lt u v := Nat.mod_lt _ hq
  hp _ _ _ _ _ := by ring
  hm _ _ _ _ _ := by ring
  hs _ _ _ := by ring

theorem linSub {q : ℕ} (hq : 0 < q) :
    LinOp q (fun a b => (a + q - b % q) % q) (fun x y => x - y) where
  cast u v := by
    have := Nat.mod_lt v hq
    rw [ZMod.natCast_mod, Nat.cast_sub (by omega), Nat.cast_add, ZMod.natCast_self, add_zero,
      ZMod.natCast_mod]
  lt u v := Nat.mod_lt _ hq
  hp _ _ _ _ _ := by ring
  hm _ _ _ _ _ := by ring
  hs _ _ _ := by ring

theorem linNeg {q : ℕ} (hq : 0 < q) :
    LinOp q (fun a _ => (q - a % q) % q) (fun x _ => -x) where
  cast u v := by
    have := Nat.mod_lt u hq
    rw [ZMod.natCast_mod, Nat.cast_sub (by omega), ZMod.natCast_self, zero_sub, ZMod.natCast_mod]
  lt u v := Nat.mod_lt _ hq
  hp _ _ _ _ _ := by ring
  hm _ _ _ _ _ := by ring
  hs _ _ _ := by ring

section rows2
variable {T : Tables} {K : ℕ} {op : ℕ → ℕ → ℕ} {opZ : ZMod T.q → ZMod T.q → ZMod T.q}

theorem Red.zipWith (L : LinOp T.q op opZ) {a b : List ℕ} (ha : Red T a) (hb : Red T b) :
    Red T (List.zipWith op a b) :=
  ⟨by rw [List.length_zipWith, ha.len, hb.len, Nat.min_self],
   forall_zipWith _ (fun z => z < T.q) _ _ (fun u _ v _ => L.lt u v)⟩

/-- `nttStd` commutes with every `LinOp` on reduced rows -/
theorem nttStd_zipWith (hT : Valid T K) (L : LinOp T.q op opZ) (a b : List ℕ)
    (ha : Red T a) (hb : Red T b) :
    nttStd T (List.zipWith op a b) = List.zipWith op (nttStd T a) (nttStd T b) := by
  have : Fact T.q.Prime := ⟨hT.prime⟩
  have hz := ha.zipWith L hb
  have e0 : ∀ l1 l2 : List ℕ, (List.zipWith op l1 l2).map (Nat.cast : ℕ → ZMod T.q)
      = List.zipWith opZ (l1.map Nat.cast) (l2.map Nat.cast) := fun l1 l2 =>
    map_zipWith_mem op (Nat.cast : ℕ → ZMod T.q) (Nat.cast : ℕ → ZMod T.q) opZ l1 l2
      (fun u _ v _ => L.cast u v)
  apply map_cast_inj (q := T.q) _ _ (nttStd_cast hT _ hz.lt).2 ((ha.ntt hT).zipWith L (hb.ntt hT)).lt
  rw [(nttStd_cast hT _ hz.lt).1, e0, e0, (nttStd_cast hT a ha.lt).1, (nttStd_cast hT b hb.lt).1]
  exact fwdZ_zipWith _ opZ L.hp L.hm K 1 _ _ (by rw [List.length_map, ha.len, hT.n_eq])
    (by rw [List.length_map, hb.len, hT.n_eq])

/-- **nttStd_add**: `NTT (a + b) = NTT a + NTT b` -/
theorem nttStd_add (hT : Valid T K) (a b : List ℕ) (ha : Red T a) (hb : Red T b) :
    nttStd T (RPoly.rowAdd T.q a b) = RPoly.rowAdd T.q (nttStd T a) (nttStd T b) :=
  nttStd_zipWith hT (linAdd hT.q_pos) a b ha hb

/-- **nttStd_sub**: `NTT (a − b) = NTT a − NTT b` -/
theorem nttStd_sub (hT : Valid T K) (a b : List ℕ) (ha : Red T a) (hb : Red T b) :
    nttStd T (RPoly.rowSub T.q a b) = RPoly.rowSub T.q (nttStd T a) (nttStd T b) :=
  nttStd_zipWith hT (linSub hT.q_pos) a b ha hb

theorem rowNeg_eq_zipWith (q : ℕ) (a : List ℕ) :
    RPoly.rowNeg q a = List.zipWith (fun a _ => (q - a % q) % q) a a := by
  rw [List.zipWith_self]; rfl

/-- **nttStd_neg**: `NTT (−a) = −NTT a` -/
theorem nttStd_neg (hT : Valid T K) (a : List ℕ) (ha : Red T a) :
    nttStd T (RPoly.rowNeg T.q a) = RPoly.rowNeg T.q (nttStd T a) := by
  rw [rowNeg_eq_zipWith, rowNeg_eq_zipWith]
  exact nttStd_zipWith hT (linNeg hT.q_pos) a a ha ha

theorem nttPart_zipWith (hT : Valid T K) (L : LinOp T.q op opZ) (f : Bool) (a b : List ℕ)
    (ha : Red T a) (hb : Red T b) :
    (if f then nttStd T else id) (List.zipWith op a b)
      = List.zipWith op ((if f then nttStd T else id) a) ((if f then nttStd T else id) b) := by
  cases f
  · rfl
  · exact nttStd_zipWith hT L a b ha hb

/-- a `LinOp` commutes with the Montgomery form on reduced words -/
theorem mform_op (hT : Valid T K) (L : LinOp T.q op opZ) (u v : ℕ) (hu : u < T.q) (hv : v < T.q) :
    op (MForm u T.q T.bred) (MForm v T.q T.bred) = MForm (op u v) T.q T.bred := by
  have : Fact T.q.Prime := ⟨hT.prime⟩
  obtain ⟨_, cu⟩ := mform_cast hT u (lt_W hT hu)
  obtain ⟨_, cv⟩ := mform_cast hT v (lt_W hT hv)
  obtain ⟨lo, co⟩ := mform_cast hT (op u v) (lt_W hT (L.lt u v))
  apply eq_of_cast_eq (L.lt _ _) lo
  rw [L.cast, cu, cv, co, L.cast, L.hs]

theorem montPart_zipWith (hT : Valid T K) (L : LinOp T.q op opZ) (kop : ℕ → ℕ → ℕ)
    (h0 : ∀ u v, u < T.q → v < T.q → kop u v = op u v) (g : Bool) (x y : List ℕ)
    (hx : ∀ u ∈ x, u < T.q) (hy : ∀ u ∈ y, u < T.q) :
    List.zipWith kop ((if g then List.map (fun x => MForm x T.q T.bred) else id) x)
        ((if g then List.map (fun x => MForm x T.q T.bred) else id) y)
      = (if g then List.map (fun x => MForm x T.q T.bred) else id) (List.zipWith op x y) := by
  have : Fact T.q.Prime := ⟨hT.prime⟩
  cases g
  · exact zipWith_congr_mem _ _ _ _ (fun u hu v hv => h0 u v (hx u hu) (hy v hv))
  · simp only [if_true, List.zipWith_map, List.map_zipWith]
    apply zipWith_congr_mem
    intro u hu v hv
    rw [h0 _ _ (mform_cast hT u (lt_W hT (hx u hu))).1 (mform_cast hT v (lt_W hT (hy v hv))).1]
    exact mform_op hT L u v (hx u hu) (hy v hv)

/-- generic additive square: a kernel `kop` that agrees with the `LinOp` `op` on reduced words
commutes with the representation, for all four flag combinations -/
theorem refine_lin (hT : Valid T K) (L : LinOp T.q op opZ) (kop : ℕ → ℕ → ℕ)
    (h0 : ∀ u v, u < T.q → v < T.q → kop u v = op u v) (f g : Bool) (a b : List ℕ)
    (ha : Red T a) (hb : Red T b) :
    List.zipWith kop (reprRow T f g a) (reprRow T f g b) = reprRow T f g (List.zipWith op a b) := by
  unfold reprRow
  rw [nttPart_zipWith hT L f a b ha hb]
  exact montPart_zipWith hT L kop h0 g _ _ (ha.nttPart hT f).lt (hb.nttPart hT f).lt

theorem addvec_lane_red (hT : Valid T K) (u v : ℕ) (hu : u < T.q) (hv : v < T.q) :
    addvec_lane u v 0 T.q = (u + v) % T.q := by
  have := q_lt_W hT; have := hT.h8
  exact addvec_lane_spec u v 0 T.q hT.q_pos (by omega) (by unfold W at *; omega)

theorem subvec_lane_red (hT : Valid T K) (u v : ℕ) (hu : u < T.q) (hv : v < T.q) :
    subvec_lane u v 0 T.q = (u + T.q - v % T.q) % T.q := by
  have := q_lt_W hT; have := hT.h8
  rw [Nat.mod_eq_of_lt hv]
  exact (subvec_lane_spec u v 0 T.q hT.q_pos (by omega) (by omega) (by unfold W at *; omega)).1

theorem negvec_lane_red (hT : Valid T K) (u : ℕ) (hu : u < T.q) :
    negvec_lane u 0 T.q % T.q = (T.q - u % T.q) % T.q := by
  rw [Nat.mod_eq_of_lt hu, (negvec_lane_spec u 0 T.q (by omega) (q_lt_W hT)).1]

/-- **refine_add**: `Add` (kernel `addvec`) on two rows stored with the same flags is the stored
form of `rowAdd`. -/
theorem refine_add (hT : Valid T K) (f g : Bool) (a b : List ℕ) (ha : Red T a) (hb : Red T b) :
    List.zipWith (fun x y => addvec_lane x y 0 T.q) (reprRow T f g a) (reprRow T f g b)
      = reprRow T f g (RPoly.rowAdd T.q a b) :=
  refine_lin hT (linAdd hT.q_pos) _ (addvec_lane_red hT) f g a b ha hb

/-- **refine_sub**: `Sub` (kernel `subvec`). -/
theorem refine_sub (hT : Valid T K) (f g : Bool) (a b : List ℕ) (ha : Red T a) (hb : Red T b) :
    List.zipWith (fun x y => subvec_lane x y 0 T.q) (reprRow T f g a) (reprRow T f g b)
      = reprRow T f g (RPoly.rowSub T.q a b) :=
  refine_lin hT (linSub hT.q_pos) _ (subvec_lane_red hT) f g a b ha hb

/-- **refine_neg**: `Neg` (kernel `negvec`) — modulo the final reduction, because the Go kernel
maps the word `0` to `q` (`Lattigo.negvec_lane_zero`): the stored words of `Neg` are in `[0, q]`. -/
theorem refine_neg (hT : Valid T K) (f g : Bool) (a : List ℕ) (ha : Red T a) :
    (List.map (fun x => negvec_lane x 0 T.q) (reprRow T f g a)).map (· % T.q)
      = reprRow T f g (RPoly.rowNeg T.q a) := by
  rw [List.map_map, rowNeg_eq_zipWith,
    ← refine_lin hT (linNeg hT.q_pos) (fun x _ => negvec_lane x 0 T.q % T.q)
      (fun u _ hu _ => negvec_lane_red hT u hu) f g a a ha ha, List.zipWith_self]
  rfl

theorem Red.rowAdd (hT : Valid T K) {a b : List ℕ} (ha : Red T a) (hb : Red T b) :
    Red T (RPoly.rowAdd T.q a b) := ha.zipWith (linAdd hT.q_pos) hb
theorem Red.rowSub (hT : Valid T K) {a b : List ℕ} (ha : Red T a) (hb : Red T b) :
    Red T (RPoly.rowSub T.q a b) := ha.zipWith (linSub hT.q_pos) hb
theorem Red.rowNeg (hT : Valid T K) {a : List ℕ} (ha : Red T a) :
    Red T (RPoly.rowNeg T.q a) := by
  rw [rowNeg_eq_zipWith]; exact ha.zipWith (linNeg hT.q_pos) ha

theorem absRow_mod (T : Tables) (f g : Bool) (l : List ℕ) :
    absRow T f g (l.map (· % T.q)) = absRow T f g l := by
  have e : (l.map (· % T.q)).map (· % T.q) = l.map (· % T.q) := by
    rw [List.map_map]
    exact List.map_congr_left (fun x _ => Nat.mod_mod _ _)
  unfold absRow
  rw [e]

theorem refine_add_abs (hT : Valid T K) (f g : Bool) (a b : List ℕ) (ha : Red T a) (hb : Red T b) :
    absRow T f g
        (List.zipWith (fun x y => addvec_lane x y 0 T.q) (reprRow T f g a) (reprRow T f g b))
      = RPoly.rowAdd T.q a b := by
  rw [refine_add hT f g a b ha hb, absRow_reprRow hT f g _ (ha.rowAdd hT hb)]

theorem refine_sub_abs (hT : Valid T K) (f g : Bool) (a b : List ℕ) (ha : Red T a) (hb : Red T b) :
    absRow T f g
        (List.zipWith (fun x y => subvec_lane x y 0 T.q) (reprRow T f g a) (reprRow T f g b))
      = RPoly.rowSub T.q a b := by
  rw [refine_sub hT f g a b ha hb, absRow_reprRow hT f g _ (ha.rowSub hT hb)]

/-- no `% q` needed here: `absRow` reduces the stored words first, so the `0 ↦ q` output of the Go
`Neg` kernel is harmless for the abstraction. -/
theorem refine_neg_abs (hT : Valid T K) (f g : Bool) (a : List ℕ) (ha : Red T a) :
    absRow T f g (List.map (fun x => negvec_lane x 0 T.q) (reprRow T f g a))
      = RPoly.rowNeg T.q a := by
  rw [← absRow_mod, refine_neg hT f g a ha, absRow_reprRow hT f g _ (ha.rowNeg hT)]

/-! ### 5. entering / leaving the Montgomery domain -/

/-- **refine_mform**: `MForm` (kernel `mformvec`) switches the flag `IsMontgomery` on. -/
theorem refine_mform (T : Tables) (f : Bool) (a : List ℕ) :
    List.map (fun x => mformvec_lane x 0 T.q T.bred) (reprRow T f false a) = reprRow T f true a :=
  rfl

/-- **refine_imform**: `IMForm` (kernel `imformvec`) switches the flag `IsMontgomery` off. -/
theorem refine_imform (hT : Valid T K) (f : Bool) (a : List ℕ) (ha : Red T a) :
    List.map (fun x => imformvec_lane x 0 T.q T.qinv) (reprRow T f true a) = reprRow T f false a :=
  unmont_mont hT true _ (ha.nttPart hT f).lt

/-! ### 6. the multiplicative square in terms of `absRow` / `reprRow` -/

/-- **refine_mul_repr**: `MulCoeffsMontgomery` of an (NTT) row and an (NTT, Montgomery) row is the
(NTT) stored form of the negacyclic product. -/
theorem refine_mul_repr (hT : Valid T K) (hinv : TableInv (rho T.q T.rootsF) (2 ^ K))
    (a b : List ℕ) (ha : Red T a) (hb : Red T b) :
    List.zipWith (fun x y => mulcoeffsmontgomeryvec_lane x y 0 T.q T.qinv)
        (reprRow T true false a) (reprRow T true true b)
      = reprRow T true false (RPoly.rowMul T.q a b) :=
  refine_mul_ntt hT hinv a b ha hb

/-- **refine_mul_full**. -/
theorem refine_mul_full (hT : Valid T K) (hinv : TableInv (rho T.q T.rootsF) (2 ^ K))
    (a b : List ℕ) (ha : Red T a) (hb : Red T b) :
    absRow T true false
        (List.zipWith (fun x y => mulcoeffsmontgomeryvec_lane x y 0 T.q T.qinv)
          (reprRow T true false a) (reprRow T true true b))
      = RPoly.rowMul T.q a b := by
  rw [refine_mul_repr hT hinv a b ha hb, absRow_reprRow hT true false _ (ha.rowMul hT b)]

end rows2

/-! ### 7. the other inverse direction: `NTT (INTT x) = x` -/
section inverse
variable {F : Type} [CommRing F]

theorem invZ_length (ρ' : ℕ → F) : ∀ (k j : ℕ) (a : List F), a.length = 2 ^ k →
    (invZ ρ' k j a).length = 2 ^ k
  | 0, _, _, h => h
  | k + 1, j, a, h => by
    have h2 : a.length / 2 = 2 ^ k := by rw [h, Nat.pow_succ]; omega
    have hl : (a.take (a.length / 2)).length = 2 ^ k := by
      rw [List.length_take, h2, h, Nat.pow_succ]; omega
    have hr : (a.drop (a.length / 2)).length = 2 ^ k := by
      rw [List.length_drop, h2, h, Nat.pow_succ]; omega
    simp only [invZ, List.length_append, List.length_zipWith]
    rw [invZ_length ρ' k _ _ hl, invZ_length ρ' k _ _ hr, Nat.pow_succ]
    omega

/-- one forward stage applied to the output of one inverse stage doubles both halves -/
theorem fwdZ_stage_inv (ρ : ℕ → F) {j : ℕ} (r r' : F) (hr : r = ρ j) (hρ : r * r' = 1) (k : ℕ)
    (L R : List F) (hL : L.length = 2 ^ k) (hR : R.length = 2 ^ k) :
    fwdZ ρ (k + 1) j
        (List.zipWith (fun u v => u + v) L R ++ List.zipWith (fun u v => (u - v) * r') L R)
      = fwdZ ρ k (2 * j) (L.map (fun x => 2 * x)) ++ fwdZ ρ k (2 * j + 1) (R.map (fun x => 2 * x)) := by
  subst hr
  have hLR : L.length = R.length := by rw [hL, hR]
  have hS : (List.zipWith (fun u v => u + v) L R).length = 2 ^ k := by
    rw [List.length_zipWith, hL, hR, Nat.min_self]
  have hD : (List.zipWith (fun u v => (u - v) * r') L R).length = 2 ^ k := by
    rw [List.length_zipWith, hL, hR, Nat.min_self]
  have hlen : (List.zipWith (fun u v => u + v) L R
      ++ List.zipWith (fun u v => (u - v) * r') L R).length / 2 = 2 ^ k := by
    rw [List.length_append, hS, hD]; omega
  simp only [fwdZ]
  rw [hlen, List.take_left' hS, List.drop_left' hS,
    zipWith_recombine_left (fun u v => u + v) (fun u v => (u - v) * r')
      (fun s d => s + ρ j * d) (fun x => 2 * x)
      (by intro u v
          have : u + v + ρ j * ((u - v) * r') = u + v + (u - v) * (ρ j * r') := by ring
          rw [this, hρ]; ring) L R hLR,
    zipWith_recombine_right (fun u v => u + v) (fun u v => (u - v) * r')
      (fun s d => s - ρ j * d) (fun x => 2 * x)
      (by intro u v
          have : u + v - ρ j * ((u - v) * r') = u + v - (u - v) * (ρ j * r') := by ring
          rw [this, hρ]; ring) L R hLR]

/-- **One forward stage undoes one inverse stage up to the factor 2**, hence
`fwdZ ρ (invZ ρ⁻¹ a) = 2^k · a` (the mirror image of `invZ_fwdZ`). -/
theorem fwdZ_invZ (ρ ρ' : ℕ → F) (M : ℕ) (hinv : ∀ i, 1 ≤ i → i < M → ρ i * ρ' i = 1) :
    ∀ (k j : ℕ) (a : List F), a.length = 2 ^ k → 1 ≤ j → (j + 1) * 2 ^ k ≤ 2 * M →
      fwdZ ρ k j (invZ ρ' k j a) = a.map (fun x => 2 ^ k * x)
  | 0, _, a, _, _, _ => by simp [invZ, fwdZ]
  | k + 1, j, a, h, hj0, hj => by
    obtain ⟨hjM, hj1, hj2⟩ := node_bounds hj
    have hρ := hinv j hj0 hjM
    have h2 : a.length / 2 = 2 ^ k := by rw [h, Nat.pow_succ]; omega
    have hl : (a.take (a.length / 2)).length = 2 ^ k := by
      rw [List.length_take, h2, h, Nat.pow_succ]; omega
    have hr : (a.drop (a.length / 2)).length = 2 ^ k := by
      rw [List.length_drop, h2, h, Nat.pow_succ]; omega
    have hL := invZ_length ρ' k (2 * j) _ hl
    have hR := invZ_length ρ' k (2 * j + 1) _ hr
    have ihL := fwdZ_invZ ρ ρ' M hinv k (2 * j) _ hl (by omega) hj1
    have ihR := fwdZ_invZ ρ ρ' M hinv k (2 * j + 1) _ hr (by omega) hj2
    show fwdZ ρ (k + 1) j
        (List.zipWith (fun u v => u + v)
          (invZ ρ' k (2 * j) (a.take (a.length / 2))) (invZ ρ' k (2 * j + 1) (a.drop (a.length / 2)))
        ++ List.zipWith (fun u v => (u - v) * ρ' j)
          (invZ ρ' k (2 * j) (a.take (a.length / 2))) (invZ ρ' k (2 * j + 1) (a.drop (a.length / 2))))
      = a.map (fun x => 2 ^ (k + 1) * x)
    rw [fwdZ_stage_inv ρ (ρ j) (ρ' j) rfl hρ k _ _ hL hR,
      fwdZ_smul ρ 2 k _ _ hL, fwdZ_smul ρ 2 k _ _ hR, ihL, ihR, List.map_map, List.map_map,
      ← List.map_append, List.take_append_drop]
    apply List.map_congr_left
    intro x _
    simp only [Function.comp, pow_succ]
    ring

end inverse

section rows3
variable {T : Tables} {K : ℕ}

/-- `inttStd`, read in `Z_q`, is the exact Gentleman–Sande network followed by the multiplication
by `nInv·W⁻¹ = N⁻¹`; its entries are `< q` (inputs `< 2q`). -/
theorem inttStd_cast (hT : Valid T K) [Fact T.q.Prime] (x : List ℕ) (hx : ∀ u ∈ x, u < 2 * T.q) :
    (inttStd T x).map (Nat.cast : ℕ → ZMod T.q)
      = (invZ (rho T.q T.rootsB) K 1 (x.map (Nat.cast : ℕ → ZMod T.q))).map
          (fun z => z * (T.nInv : ZMod T.q) * (W : ZMod T.q)⁻¹)
    ∧ ∀ y ∈ inttStd T x, y < T.q := by
  have h8 := hT.h8
  have h6 : 6 * T.q ≤ W := by omega
  have e : inttCoreLazy T x = invRec T.rootsB T.q T.qinv K 1 x := by
    unfold inttCoreLazy; rw [hT.n_eq, log2n_two_pow]
  obtain ⟨_, hilt⟩ := invRec_ok T.rootsB T.q T.qinv h6 hT.mont hT.rootsB_lt K 1 _ hx
  have hic := invRec_cast T.rootsB T.qinv h6 hT.mont hT.rootsB_lt K 1 _ hx
  have hmul : ∀ u ∈ invRec T.rootsB T.q T.qinv K 1 x, u * T.nInv < T.q * W := by
    intro u hu
    have hxW : u < W := by have := hilt u hu; omega
    rw [Nat.mul_comm T.q W]; exact Nat.mul_lt_mul'' hxW hT.nInv_lt
  constructor
  · unfold inttStd
    rw [e, List.map_map, ← hic, List.map_map]
    apply List.map_congr_left
    intro u hu
    exact MRed_cast u T.nInv T.qinv (by omega) hT.mont (hmul u hu)
  · intro y hy
    unfold inttStd at hy
    rw [List.mem_map] at hy
    obtain ⟨u, hu, rfl⟩ := hy
    rw [e] at hu
    exact (MRed_spec u T.nInv T.q T.qinv (by omega) hT.mont (hmul u hu)).2

theorem inttStd_length (hT : Valid T K) (x : List ℕ) (hlen : x.length = T.n)
    (hx : ∀ u ∈ x, u < 2 * T.q) : (inttStd T x).length = T.n := by
  have : Fact T.q.Prime := ⟨hT.prime⟩
  have h := congrArg List.length (inttStd_cast hT x hx).1
  rw [List.length_map, List.length_map,
    invZ_length _ K 1 _ (by rw [List.length_map, hlen, hT.n_eq])] at h
  rw [h, hT.n_eq]

theorem Red.intt (hT : Valid T K) {x : List ℕ} (hx : Red T x) : Red T (inttStd T x) := by
  have : Fact T.q.Prime := ⟨hT.prime⟩
  have h2 : ∀ u ∈ x, u < 2 * T.q := fun u hu => by have := hx.lt u hu; omega
  exact ⟨inttStd_length hT x hx.len h2, (inttStd_cast hT x h2).2⟩

/-- **nttStd_inttStd**: `nttStd T (inttStd T x) = x` for every reduced `x` of length `n`
(the other inverse direction; no table invariant beyond `Valid` is needed). -/
theorem nttStd_inttStd (hT : Valid T K) (x : List ℕ) (hx : Red T x) :
    nttStd T (inttStd T x) = x := by
  have : Fact T.q.Prime := ⟨hT.prime⟩
  have hW := W_ne_zero (q := T.q) hT.mont.odd
  have h2 : ∀ u ∈ x, u < 2 * T.q := fun u hu => by have := hx.lt u hu; omega
  obtain ⟨hic, hilt⟩ := inttStd_cast hT x h2
  obtain ⟨hfc, hflt⟩ := nttStd_cast hT (inttStd T x) hilt
  have hlen : (x.map (Nat.cast : ℕ → ZMod T.q)).length = 2 ^ K := by
    rw [List.length_map, hx.len, hT.n_eq]
  have hn : ((T.nInv : ZMod T.q)) * ((2 : ZMod T.q) ^ K) * (W : ZMod T.q)⁻¹ = 1 := by
    have h := (ZMod.natCast_eq_natCast_iff' _ _ T.q).2 hT.nInv_eq
    rw [hT.n_eq] at h
    simp only [Nat.cast_mul, Nat.cast_pow, Nat.cast_ofNat] at h
    rw [h]; exact mul_inv_cancel₀ hW
  apply map_cast_inj (q := T.q) _ _ hflt hx.lt
  rw [hfc, hic,
    fwdZ_map _ (fun z => z * (T.nInv : ZMod T.q) * (W : ZMod T.q)⁻¹) (fun _ _ _ => by ring)
      (fun _ _ _ => by ring) K 1 _ (invZ_length _ K 1 _ hlen),
    fwdZ_invZ (rho T.q T.rootsF) (rho T.q T.rootsB) (2 ^ K) (fun i h1 h2 => hT.rho_inv i h1 h2)
      K 1 _ hlen (by omega) (by omega), List.map_map]
  conv_rhs => rw [← List.map_id (x.map (Nat.cast : ℕ → ZMod T.q))]
  apply List.map_congr_left
  intro z _
  simp only [Function.comp, id]
  calc (2 : ZMod T.q) ^ K * z * (T.nInv : ZMod T.q) * (W : ZMod T.q)⁻¹
      = z * ((T.nInv : ZMod T.q) * (2 : ZMod T.q) ^ K * (W : ZMod T.q)⁻¹) := by ring
    _ = z := by rw [hn, mul_one]

end rows3

/-! ### 8. the squares for ALL reduced limb vectors -/
section rows4
variable {T : Tables} {K : ℕ}

theorem Red.unmontPart (hT : Valid T K) (g : Bool) {x : List ℕ} (hx : Red T x) :
    Red T ((if g then List.map (fun x => IMForm x T.q T.qinv) else id) x) := by
  have : Fact T.q.Prime := ⟨hT.prime⟩
  cases g
  · exact hx
  · refine ⟨by simp only [if_true, List.length_map]; exact hx.len, ?_⟩
    intro u hu
    simp only [if_true, List.mem_map] at hu
    obtain ⟨v, hv, rfl⟩ := hu
    exact (imform_cast hT v (lt_W hT (hx.lt v hv))).1

theorem Red.unnttPart (hT : Valid T K) (f : Bool) {x : List ℕ} (hx : Red T x) :
    Red T ((if f then inttStd T else id) x) := by
  cases f
  · exact hx
  · exact hx.intt hT

theorem absRow_of_red (_hT : Valid T K) (f g : Bool) {x : List ℕ} (hx : Red T x) :
    absRow T f g x = (if f then inttStd T else id)
      ((if g then List.map (fun x => IMForm x T.q T.qinv) else id) x) := by
  unfold absRow; rw [map_mod_of_lt _ hx.lt]

/-- the abstract row of a reduced limb vector is a reduced row -/
theorem Red.abs (hT : Valid T K) (f g : Bool) {x : List ℕ} (hx : Red T x) :
    Red T (absRow T f g x) := by
  rw [absRow_of_red hT f g hx]; exact (hx.unmontPart hT g).unnttPart hT f

theorem mont_unmont (hT : Valid T K) (g : Bool) (x : List ℕ) (hx : ∀ u ∈ x, u < T.q) :
    (if g then List.map (fun x => MForm x T.q T.bred) else id)
      ((if g then List.map (fun x => IMForm x T.q T.qinv) else id) x) = x := by
  cases g
  · rfl
  · simp only [if_true, List.map_map]
    conv_rhs => rw [← List.map_id x]
    exact List.map_congr_left (fun u hu => mform_imform hT u (hx u hu))

theorem ntt_unntt (hT : Valid T K) (f : Bool) {x : List ℕ} (hx : Red T x) :
    (if f then nttStd T else id) ((if f then inttStd T else id) x) = x := by
  cases f
  · rfl
  · exact nttStd_inttStd hT x hx

/-- **reprRow_absRow**: representation ∘ abstraction = id on reduced limb vectors: together with
`absRow_reprRow`, `reprRow T f g` and `absRow T f g` are mutually inverse bijections of the reduced
rows. -/
theorem reprRow_absRow (hT : Valid T K) (f g : Bool) (x : List ℕ) (hx : Red T x) :
    reprRow T f g (absRow T f g x) = x := by
  rw [absRow_of_red hT f g hx]
  unfold reprRow
  rw [ntt_unntt hT f (hx.unmontPart hT g), mont_unmont hT g x hx.lt]

/-- **refine_add_all**: for ALL reduced limb vectors `x y` stored under the same flags,
`abs (Add x y) = rowAdd (abs x) (abs y)`. -/
theorem refine_add_all (hT : Valid T K) (f g : Bool) (x y : List ℕ) (hx : Red T x) (hy : Red T y) :
    absRow T f g (List.zipWith (fun u v => addvec_lane u v 0 T.q) x y)
      = RPoly.rowAdd T.q (absRow T f g x) (absRow T f g y) := by
  conv_lhs => rw [← reprRow_absRow hT f g x hx, ← reprRow_absRow hT f g y hy]
  exact refine_add_abs hT f g _ _ (hx.abs hT f g) (hy.abs hT f g)

/-- **refine_sub_all**. -/
theorem refine_sub_all (hT : Valid T K) (f g : Bool) (x y : List ℕ) (hx : Red T x) (hy : Red T y) :
    absRow T f g (List.zipWith (fun u v => subvec_lane u v 0 T.q) x y)
      = RPoly.rowSub T.q (absRow T f g x) (absRow T f g y) := by
  conv_lhs => rw [← reprRow_absRow hT f g x hx, ← reprRow_absRow hT f g y hy]
  exact refine_sub_abs hT f g _ _ (hx.abs hT f g) (hy.abs hT f g)

/-- **refine_neg_all**. -/
theorem refine_neg_all (hT : Valid T K) (f g : Bool) (x : List ℕ) (hx : Red T x) :
    absRow T f g (List.map (fun u => negvec_lane u 0 T.q) x)
      = RPoly.rowNeg T.q (absRow T f g x) := by
  conv_lhs => rw [← reprRow_absRow hT f g x hx]
  exact refine_neg_abs hT f g _ (hx.abs hT f g)

/-- **refine_mul_all**: for ALL reduced limb vectors `x` (flags NTT) and `y` (flags NTT+Montgomery),
`abs (MulCoeffsMontgomery x y) = rowMul (abs x) (abs y)`. -/
theorem refine_mul_all (hT : Valid T K) (hinv : TableInv (rho T.q T.rootsF) (2 ^ K))
    (x y : List ℕ) (hx : Red T x) (hy : Red T y) :
    absRow T true false
        (List.zipWith (fun u v => mulcoeffsmontgomeryvec_lane u v 0 T.q T.qinv) x y)
      = RPoly.rowMul T.q (absRow T true false x) (absRow T true true y) := by
  conv_lhs => rw [← reprRow_absRow hT true false x hx, ← reprRow_absRow hT true true y hy]
  exact refine_mul_full hT hinv _ _ (hx.abs hT true false) (hy.abs hT true true)

/-- **refine_mform_all**: `MForm` changes the flag, not the abstract row. -/
theorem refine_mform_all (hT : Valid T K) (f : Bool) (x : List ℕ) (hx : Red T x) :
    absRow T f true (List.map (fun u => mformvec_lane u 0 T.q T.bred) x) = absRow T f false x := by
  conv_lhs => rw [← reprRow_absRow hT f false x hx, refine_mform]
  exact absRow_reprRow hT f true _ (hx.abs hT f false)

/-- **refine_imform_all**: `IMForm` changes the flag, not the abstract row. -/
theorem refine_imform_all (hT : Valid T K) (f : Bool) (x : List ℕ) (hx : Red T x) :
    absRow T f false (List.map (fun u => imformvec_lane u 0 T.q T.qinv) x) = absRow T f true x := by
  conv_lhs => rw [← reprRow_absRow hT f true x hx, refine_imform hT f _ (hx.abs hT f true)]
  exact absRow_reprRow hT f false _ (hx.abs hT f true)

/-- **refine_ntt_all** / **refine_intt_all**: `NTT` / `INTT` change the flag, not the abstract row. -/
theorem refine_ntt_all (hT : Valid T K) (x : List ℕ) (hx : Red T x) :
    absRow T true false (nttStd T x) = absRow T false false x := by
  rw [absRow_of_red hT true false (hx.ntt hT), absRow_of_red hT false false hx]
  exact inttStd_nttStd hT x hx.len hx.lt

theorem refine_intt_all (hT : Valid T K) (x : List ℕ) (hx : Red T x) :
    absRow T false false (inttStd T x) = absRow T true false x := by
  rw [absRow_of_red hT false false (hx.intt hT), absRow_of_red hT true false hx]
  rfl

end rows4

/-! ### non-vacuity -/
section nonvacuity

/-- the hypotheses `Valid T K`, `TableInv …` hold for the real table of `N = 16`, `q = 65537` -/
theorem T16_valid : Valid (mkTables (2 ^ 4) 65537 (2 ^ 5) 3) 4
    ∧ TableInv (rho 65537 (mkTables (2 ^ 4) 65537 (2 ^ 5) 3).rootsF) (2 ^ 4) :=
  mkTables_valid 4 65537 3 (by norm_num) (by decide) (by decide) (by decide +kernel)

/-- … and `Red` holds for two concrete non-trivial rows, so every `refine_*` theorem applies -/
example : Red (mkTables (2 ^ 4) 65537 (2 ^ 5) 3) ((List.range 16).map (fun i => 65536 - 4000 * i))
    ∧ Red (mkTables (2 ^ 4) 65537 (2 ^ 5) 3) ((List.range 16).map (fun i => i * i + 1)) :=
  ⟨⟨by decide, by decide⟩, ⟨by decide, by decide⟩⟩

/-- an instance of `refine_mul` obtained from the theorem (not by evaluation) -/
example :
    let T := mkTables (2 ^ 4) 65537 (2 ^ 5) 3
    let a := (List.range 16).map (fun i => 65536 - 4000 * i)
    let b := (List.range 16).map (fun i => i * i + 1)
    inttStd T (List.zipWith (fun x y => MRed x y T.q T.qinv) (nttStd T a)
        ((nttStd T b).map (fun y => MForm y T.q T.bred))) = RPoly.rowMul T.q a b :=
  refine_mul T16_valid.1 T16_valid.2 _ _ ⟨by decide, by decide⟩ ⟨by decide, by decide⟩

end nonvacuity

/-! ### 8. the multi-limb (RNS) layer: `ring.Ring.<Op>` loops over the sub-rings -/
section poly

/-- the abstract RNS polynomial denoted by stored limbs (one limb vector per sub-ring `T ∈ Ts`) -/
def absPoly (Ts : List Tables) (f g : Bool) (limbs : List (List ℕ)) : RPoly :=
  { qs := Ts.map (·.q), c := List.zipWith (fun T l => absRow T f g l) Ts limbs }

/-- `ring.Ring.<Op>(p1, p2, p3)`: `for i, s := range r.SubRings[:level+1] { s.<Op>(p1.Coeffs[i], p2.Coeffs[i], p3.Coeffs[i]) }` -/
def ringOp2 (k : Tables → List ℕ → List ℕ → List ℕ) (Ts : List Tables) (x y : List (List ℕ)) :
    List (List ℕ) :=
  List.zipWith (fun T (xy : List ℕ × List ℕ) => k T xy.1 xy.2) Ts (x.zip y)

/-- `ring.Ring.<Op>(p1, p2)` -/
def ringOp1 (k : Tables → List ℕ → List ℕ) (Ts : List Tables) (x : List (List ℕ)) : List (List ℕ) :=
  List.zipWith k Ts x

/-- every limb vector is reduced for its sub-ring -/
abbrev RedPoly (Ts : List Tables) (x : List (List ℕ)) : Prop := List.Forall₂ Red Ts x

theorem absPoly_ringOp2 (k : Tables → List ℕ → List ℕ → List ℕ) (op : ℕ → List ℕ → List ℕ → List ℕ)
    (f g f1 g1 f2 g2 : Bool) : ∀ (Ts : List Tables) (x y : List (List ℕ)),
    (∀ T ∈ Ts, ∀ u v, Red T u → Red T v →
      absRow T f g (k T u v) = op T.q (absRow T f1 g1 u) (absRow T f2 g2 v)) →
    RedPoly Ts x → RedPoly Ts y →
    absPoly Ts f g (ringOp2 k Ts x y) = RPoly.zipRows op (absPoly Ts f1 g1 x) (absPoly Ts f2 g2 y) := by
  intro Ts x y h hx hy
  unfold absPoly RPoly.zipRows ringOp2
  simp only [RPoly.mk.injEq, true_and]
  induction hx generalizing y with
  | nil => simp
  | @cons T u Ts x' hu hx' ih =>
    cases hy with
    | @cons _ v _ y' hv hy' =>
      simp only [List.zip_cons_cons, List.zipWith_cons_cons, List.map_cons, List.cons.injEq]
      exact ⟨h T (List.mem_cons_self ..) u v hu hv,
        ih y' (fun T' hT' => h T' (List.mem_cons_of_mem _ hT')) hy'⟩

theorem absPoly_ringOp1 (k : Tables → List ℕ → List ℕ) (op : ℕ → List ℕ → List ℕ)
    (f g f1 g1 : Bool) : ∀ (Ts : List Tables) (x : List (List ℕ)),
    (∀ T ∈ Ts, ∀ u, Red T u → absRow T f g (k T u) = op T.q (absRow T f1 g1 u)) →
    RedPoly Ts x →
    absPoly Ts f g (ringOp1 k Ts x) = RPoly.mapRows op (absPoly Ts f1 g1 x) := by
  intro Ts x h hx
  unfold absPoly RPoly.mapRows ringOp1
  simp only [RPoly.mk.injEq, true_and]
  induction hx with
  | nil => simp
  | @cons T u Ts x' hu hx' ih =>
    simp only [List.zip_cons_cons, List.zipWith_cons_cons, List.map_cons, List.cons.injEq]
    exact ⟨h T (List.mem_cons_self ..) u hu, ih (fun T' hT' => h T' (List.mem_cons_of_mem _ hT'))⟩

variable {K : ℕ}

/-- **refine_add_poly**: `ring.Ring.Add` on stored polynomials (any flags) is `+` of `RPoly`. -/
theorem refine_add_poly (Ts : List Tables) (hTs : ∀ T ∈ Ts, Valid T K) (f g : Bool)
    (x y : List (List ℕ)) (hx : RedPoly Ts x) (hy : RedPoly Ts y) :
    absPoly Ts f g (ringOp2 (fun T => List.zipWith (fun u v => addvec_lane u v 0 T.q)) Ts x y)
      = absPoly Ts f g x + absPoly Ts f g y :=
  absPoly_ringOp2 _ RPoly.rowAdd f g f g f g Ts x y
    (fun T hT u v hu hv => refine_add_all (hTs T hT) f g u v hu hv) hx hy

/-- **refine_sub_poly**: `ring.Ring.Sub` is `-` of `RPoly`. -/
theorem refine_sub_poly (Ts : List Tables) (hTs : ∀ T ∈ Ts, Valid T K) (f g : Bool)
    (x y : List (List ℕ)) (hx : RedPoly Ts x) (hy : RedPoly Ts y) :
    absPoly Ts f g (ringOp2 (fun T => List.zipWith (fun u v => subvec_lane u v 0 T.q)) Ts x y)
      = absPoly Ts f g x - absPoly Ts f g y :=
  absPoly_ringOp2 _ RPoly.rowSub f g f g f g Ts x y
    (fun T hT u v hu hv => refine_sub_all (hTs T hT) f g u v hu hv) hx hy

/-- **refine_neg_poly**: `ring.Ring.Neg` is unary `-` of `RPoly`. -/
theorem refine_neg_poly (Ts : List Tables) (hTs : ∀ T ∈ Ts, Valid T K) (f g : Bool)
    (x : List (List ℕ)) (hx : RedPoly Ts x) :
    absPoly Ts f g (ringOp1 (fun T => List.map (fun u => negvec_lane u 0 T.q)) Ts x)
      = -absPoly Ts f g x :=
  absPoly_ringOp1 _ RPoly.rowNeg f g f g Ts x
    (fun T hT u hu => refine_neg_all (hTs T hT) f g u hu) hx

/-- **refine_mul_poly**: `ring.Ring.MulCoeffsMontgomery` of an NTT polynomial with an NTT+Montgomery
polynomial is `*` of `RPoly` (the result is an NTT polynomial, not in Montgomery form). -/
theorem refine_mul_poly (Ts : List Tables)
    (hTs : ∀ T ∈ Ts, Valid T K ∧ TableInv (rho T.q T.rootsF) (2 ^ K))
    (x y : List (List ℕ)) (hx : RedPoly Ts x) (hy : RedPoly Ts y) :
    absPoly Ts true false
        (ringOp2 (fun T => List.zipWith (fun u v => mulcoeffsmontgomeryvec_lane u v 0 T.q T.qinv)) Ts x y)
      = absPoly Ts true false x * absPoly Ts true true y :=
  absPoly_ringOp2 _ RPoly.rowMul true false true false true true Ts x y
    (fun T hT u v hu hv => refine_mul_all (hTs T hT).1 (hTs T hT).2 u v hu hv) hx hy

end poly

/-
  STATUS.  Items 1–7 of the work package are all proved, including the stretch goal
  `nttStd_inttStd`, and the squares are stated for ALL reduced limb vectors (`refine_*_all`).
  What is NOT covered here (by design of the statements, not an open proof obligation):
  * rows whose words are not reduced (`≥ q`): lazy kernels (`AddLazy`, `MulCoeffsMontgomeryLazy`, …)
    keep words in `[0, 2q)` or more; `absRow` reduces them first, but `reprRow ∘ absRow = id` and the
    `_all` squares are stated for reduced words only;
  * `Neg`: the Go kernel returns `q` (not `0`) on the word `0` (`Lattigo.negvec_lane_zero`), so the
    output of `Neg` is in `[0, q]`; `refine_neg` is therefore stated modulo the final `% q` and
    `refine_neg_abs`/`refine_neg_all` through `absRow` (which reduces first);
  * the multi-limb layer is treated for `Add/Sub/Neg/MulCoeffsMontgomery` (`refine_*_poly`, §8);
    `rowScale`, `rowAut`, `rowMonomial` have no word-level counterpart in this file (their word-level
    kernels — `MulScalar*`, `AutomorphismNTT` with its index table — are per-row statements of
    `Proofs/Kernels.lean` resp. `Proofs/GaloisNTTIndex.lean`, not connected here).
-/

end Lattigo.RPolyRefine

#print axioms Lattigo.RPolyRefine.refine_mul
#print axioms Lattigo.RPolyRefine.refine_mul_lane
#print axioms Lattigo.RPolyRefine.refine_mul_ntt
#print axioms Lattigo.RPolyRefine.refine_mul_repr
#print axioms Lattigo.RPolyRefine.refine_mul_full
#print axioms Lattigo.RPolyRefine.absRow_reprRow
#print axioms Lattigo.RPolyRefine.reprRow_absRow
#print axioms Lattigo.RPolyRefine.nttStd_add
#print axioms Lattigo.RPolyRefine.nttStd_sub
#print axioms Lattigo.RPolyRefine.nttStd_neg
#print axioms Lattigo.RPolyRefine.nttStd_inttStd
#print axioms Lattigo.RPolyRefine.refine_add
#print axioms Lattigo.RPolyRefine.refine_sub
#print axioms Lattigo.RPolyRefine.refine_neg
#print axioms Lattigo.RPolyRefine.refine_add_abs
#print axioms Lattigo.RPolyRefine.refine_sub_abs
#print axioms Lattigo.RPolyRefine.refine_neg_abs
#print axioms Lattigo.RPolyRefine.refine_mform
#print axioms Lattigo.RPolyRefine.refine_imform
#print axioms Lattigo.RPolyRefine.refine_add_all
#print axioms Lattigo.RPolyRefine.refine_sub_all
#print axioms Lattigo.RPolyRefine.refine_neg_all
#print axioms Lattigo.RPolyRefine.refine_mul_all
#print axioms Lattigo.RPolyRefine.refine_mform_all
#print axioms Lattigo.RPolyRefine.refine_imform_all
#print axioms Lattigo.RPolyRefine.refine_ntt_all
#print axioms Lattigo.RPolyRefine.refine_intt_all
#print axioms Lattigo.RPolyRefine.T16_valid
#print axioms Lattigo.RPolyRefine.refine_add_poly
#print axioms Lattigo.RPolyRefine.refine_sub_poly
#print axioms Lattigo.RPolyRefine.refine_neg_poly
#print axioms Lattigo.RPolyRefine.refine_mul_poly
