/-
  Limb level ⊑ integer level for `Decomposer.DecomposeAndSplit` (ring/basis_extension.go), twin
  `Decomp.decomposeAndSplit` of Model/Decomp.lean.

  * single-prime digit (`decompLvl < 0`, copy/re-centre branch): every Q- and P-limb of digit `d` is congruent to the
    centred value of `[x]_{q_d}` (centring convention of the code: `coeff ≥ q_d >> 1` is negative);
  * multi-prime digit (HPS branch, `reconstructRNSCentered` + `multSum` + `SubScalarBigint`): every Q-limb outside the
    digit's own moduli and every P-limb is congruent to `centeredRep Q_d x + δ·Q_d` (`δ = hpsV − v`, `0` for the exact
    index) and `< (k+2)·m`.
  In both cases the digit value `d` satisfies `d ≡ x (mod Q_d)`, so `rns_digits_recombine` applies.
-/
import Lattigo.Proofs.BasisExtLimb
import Lattigo.Proofs.DecompInt

set_option linter.unusedVariables false

namespace Lattigo.Decomp
open Lattigo Lattigo.Gen Lattigo.Scaling Lattigo.BasisExt

/-! ## 0. the Go `int` arithmetic of `decompLvl` -/

/-- for a valid digit index (`d·nbPi ≤ levelQ`, `nbPi ≥ 1`) `decompLvl + 2` is the number of moduli of the digit -/
theorem decompLvl_eq (levelQ nbPi d : Nat) (hnb : 0 < nbPi) (hd : d * nbPi ≤ levelQ) :
    decompLvl levelQ nbPi d = ((min (d * nbPi + nbPi) (levelQ + 1) - d * nbPi : ℕ) : ℤ) - 2 := by
  unfold decompLvl
  by_cases h : (levelQ : ℤ) > (nbPi : ℤ) * ((d : ℤ) + 1) - 1
  · rw [if_pos h]
    have h' : nbPi * (d + 1) ≤ levelQ := by
      have : ((nbPi * (d + 1) : ℕ) : ℤ) ≤ (levelQ : ℤ) := by push_cast; omega
      exact_mod_cast this
    have : min (d * nbPi + nbPi) (levelQ + 1) = d * nbPi + nbPi := by
      rw [Nat.mul_add, Nat.mul_one, Nat.mul_comm] at h'; omega
    rw [this]; simp
  · rw [if_neg h]
    have h' : levelQ < nbPi * (d + 1) := by
      have : (levelQ : ℤ) < ((nbPi * (d + 1) : ℕ) : ℤ) := by push_cast; omega
      exact_mod_cast this
    have hmin : min (d * nbPi + nbPi) (levelQ + 1) = levelQ + 1 := by
      rw [Nat.mul_add, Nat.mul_one, Nat.mul_comm] at h'; omega
    have hmod : levelQ % nbPi = levelQ - d * nbPi := by
      have hdiv : levelQ / nbPi = d := by
        apply Nat.div_eq_of_lt_le
        · exact hd
        · rw [Nat.mul_comm]; exact h'
      have := Nat.div_add_mod levelQ nbPi
      rw [hdiv, Nat.mul_comm] at this; omega
    rw [hmin, ← Int.natCast_mod, hmod]
    have : levelQ + 1 - d * nbPi = (levelQ - d * nbPi) + 1 := by omega
    rw [this]; push_cast; ring

/-! ## 1. single-prime digit: the copy / re-centring branch -/

/-- the signed value the copy branch assigns to a residue `c` modulo `q_d`: `c ≥ q_d >> 1` is NEGATIVE
(`c − q_d`), so the range is `[−⌈q_d/2⌉, ⌊q_d/2⌋)`: for odd `q_d` the value `(q_d−1)/2` is represented by
`−(q_d+1)/2`, i.e. `|digit| ≤ (q_d+1)/2` (half a unit more than `q_d/2`). -/
def digitA (qd c : Nat) : ℤ := if qd / 2 ≤ c then (c : ℤ) - (qd : ℤ) else (c : ℤ)

theorem digitA_emod (qd c : Nat) : digitA qd c % (qd : ℤ) = (c : ℤ) % (qd : ℤ) := by
  unfold digitA
  split
  · have : (c : ℤ) - (qd : ℤ) = (c : ℤ) + (qd : ℤ) * (-1) := by ring
    rw [this, Int.add_mul_emod_self_left]
  · rfl

theorem digitA_bounds (qd c : Nat) (hc : c < qd) :
    -((qd : ℤ) - ((qd / 2 : ℕ) : ℤ)) ≤ digitA qd c ∧ digitA qd c < ((qd / 2 : ℕ) : ℤ) := by
  unfold digitA
  split <;> constructor <;> omega

theorem neg_emod_emod (a m : ℤ) : (-(a % m)) % m = (-a) % m := by
  have h := Int.mul_ediv_add_emod a m
  have : -a = -(a % m) + m * (-(a / m)) := by linarith
  rw [this, Int.add_mul_emod_self_left]

/-- **one limb of the copy branch**: congruent to the signed digit, `≤ m` (it equals `m`, unreduced, for a negative
digit divisible by `m`). -/
theorem splitLimb_spec (qd m c : Nat) (hc : c < qd) (hqd : qd < W) (hm1 : 1 < m) (hmW : m < W) :
    ((splitLimb qd m c : ℕ) : ℤ) % (m : ℤ) = digitA qd c % (m : ℤ) ∧ splitLimb qd m c ≤ m := by
  unfold splitLimb digitA
  have hsh : u64shr qd 1 = qd / 2 := by unfold u64shr; rw [Nat.pow_one]
  rw [hsh]
  by_cases h : qd / 2 ≤ c
  · simp only [h, decide_true, if_true]
    rw [Lattigo.u64sub_eq qd c (Nat.le_of_lt hc) hqd, BRedAdd_spec _ m hm1 (by omega)]
    have ht : (qd - c) % m < m := Nat.mod_lt _ (by omega)
    rw [Lattigo.u64sub_eq m _ (Nat.le_of_lt ht) hmW, u64mul_zero_right, u64mul_one_right,
      Nat.mod_eq_of_lt (by omega : m - (qd - c) % m < W), Lattigo.u64add_eq _ _ (by omega), Nat.zero_add]
    refine ⟨?_, by omega⟩
    rw [Nat.cast_sub (Nat.le_of_lt ht), Int.natCast_mod, Nat.cast_sub (Nat.le_of_lt hc)]
    rw [Int.sub_emod, Int.emod_self, Int.emod_emod_of_dvd _ (dvd_refl _), Int.zero_sub, neg_emod_emod]
    congr 1; ring
  · simp only [h, decide_false, Bool.false_eq_true, if_false]
    rw [BRedAdd_spec _ m hm1 (by omega)]
    have ht : c % m < m := Nat.mod_lt _ (by omega)
    rw [u64mul_zero_right, u64mul_one_right, Nat.mod_eq_of_lt (by omega : c % m < W),
      Lattigo.u64add_eq _ _ (by omega), Nat.add_zero]
    exact ⟨by rw [Int.natCast_mod, Int.emod_emod_of_dvd _ (dvd_refl _)], by omega⟩

/-- the copy branch of `decomposeAndSplit`, unfolded -/
theorem das_single (Q P : List Nat) (hasP : Bool) (levelQ levelP nbPi d : Nat) (p0Q prevQ : Rows)
    (hdl : decompLvl levelQ nbPi d < 0) (hst : ¬ d * nbPi > levelQ) :
    decomposeAndSplit Q P hasP levelQ levelP nbPi d p0Q prevQ =
      some ((List.range (levelQ + 1)).map fun i =>
              (row p0Q (d * nbPi)).map (splitLimb (Q.getD (d * nbPi) 0) (Q.getD i 0)),
            if hasP then (List.range (levelP + 1)).map fun i =>
              (row p0Q (d * nbPi)).map (splitLimb (Q.getD (d * nbPi) 0) (P.getD i 0)) else []) := by
  unfold decomposeAndSplit
  show (if decompLvl levelQ nbPi d < 0 then
      (if d * nbPi > levelQ then none else some _) else _) = _
  rw [if_pos hdl, if_neg hst]

/-- **`DecomposeAndSplit`, single-prime digit** (`decompLvl < 0`: one modulus `q_d = Q[d·nbPi]` in the digit).
`X` the integer coefficients (only `[x]_{q_d}` is read).  The function does not panic and every limb of every
Q-row `i ≤ levelQ` and (if there is a ring `P`) every P-row `j ≤ levelP` is congruent to the signed digit
`digitA q_d (x mod q_d)` (`≡ x (mod q_d)`, `digitA_emod`; range `digitA_bounds`) and `≤` the row's modulus. -/
theorem decompose_single_limbs (Q P : List Nat) (hasP : Bool) (levelQ levelP nbPi d : Nat)
    (hdl : decompLvl levelQ nbPi d < 0) (hst : d * nbPi ≤ levelQ) (hlQ : levelQ < Q.length)
    (hlP : hasP = true → levelP < P.length)
    (hQ : ∀ m ∈ Q, 1 < m ∧ m < W) (hP : ∀ m ∈ P, 1 < m ∧ m < W)
    (p0Q prevQ : Rows) (X : List Nat)
    (hrow : row p0Q (d * nbPi) = X.map (· % Q.getD (d * nbPi) 0)) :
    ∃ outQ outP, decomposeAndSplit Q P hasP levelQ levelP nbPi d p0Q prevQ = some (outQ, outP)
      ∧ (∀ i, i ≤ levelQ → List.Forall₂ (fun x out =>
            ((out : ℕ) : ℤ) % (Q.getD i 0 : ℤ)
                = digitA (Q.getD (d * nbPi) 0) (x % Q.getD (d * nbPi) 0) % (Q.getD i 0 : ℤ)
              ∧ out ≤ Q.getD i 0) X (row outQ i))
      ∧ (hasP = true → ∀ j, j ≤ levelP → List.Forall₂ (fun x out =>
            ((out : ℕ) : ℤ) % (P.getD j 0 : ℤ)
                = digitA (Q.getD (d * nbPi) 0) (x % Q.getD (d * nbPi) 0) % (P.getD j 0 : ℤ)
              ∧ out ≤ P.getD j 0) X (row outP j)) := by
  have hqd := hQ _ (getD_mem Q (d * nbPi) (by omega))
  refine ⟨_, _, das_single Q P hasP levelQ levelP nbPi d p0Q prevQ hdl (by omega), ?_, ?_⟩
  · intro i hi
    have hm := hQ _ (getD_mem Q i (by omega))
    rw [row_map_range _ _ i (by omega), hrow, List.forall₂_map_right_iff, List.forall₂_map_right_iff,
      List.forall₂_same]
    intro x _
    have h0 : 0 < Q.getD (d * nbPi) 0 := Nat.lt_trans Nat.zero_lt_one hqd.1
    exact splitLimb_spec (Q.getD (d * nbPi) 0) (Q.getD i 0) (x % Q.getD (d * nbPi) 0) (Nat.mod_lt _ h0)
      hqd.2 hm.1 hm.2
  · intro hp j hj
    have hm := hP _ (getD_mem P j (by have := hlP hp; omega))
    rw [if_pos hp, row_map_range _ _ j (by omega), hrow, List.forall₂_map_right_iff,
      List.forall₂_map_right_iff, List.forall₂_same]
    intro x _
    have h0 : 0 < Q.getD (d * nbPi) 0 := Nat.lt_trans Nat.zero_lt_one hqd.1
    exact splitLimb_spec (Q.getD (d * nbPi) 0) (P.getD j 0) (x % Q.getD (d * nbPi) 0) (Nat.mod_lt _ h0)
      hqd.2 hm.1 hm.2

/-! ## 2. multi-prime digit: the HPS branch -/

/-- the moduli of digit `d`: `Q[d·nbPi .. min(d·nbPi + nbPi, levelQ+1))` -/
def dasGrp (Q : List Nat) (levelQ nbPi d : Nat) : List Nat :=
  (Q.drop (d * nbPi)).take (min (d * nbPi + nbPi) (levelQ + 1) - d * nbPi)

/-- `ModUpConstants[nbPi-2][d][decompLvl]` -/
def dasMuc (Q P : List Nat) (levelQ nbPi d : Nat) : MUC :=
  genModUpConstants ((Q.drop (d * nbPi)).take ((decompLvl levelQ nbPi d).toNat + 2)) (Q ++ P.take nbPi)

/-- the lanes after `reconstructRNSCentered` -/
def dasRecs (Q P : List Nat) (levelQ nbPi d : Nat) (p0Q : Rows) : List (List Nat × Nat) :=
  (transpose ((List.range (min (d * nbPi + nbPi) (levelQ + 1) - d * nbPi)).map
      fun i => row p0Q (d * nbPi + i))).map
    (reconstructCentered (dasGrp Q levelQ nbPi d) ((dasGrp Q levelQ nbPi d).map GenMRedConstant)
      ((dasGrp Q levelQ nbPi d).map fun q => (prodN (dasGrp Q levelQ nbPi d) / 2) % q) (dasMuc Q P levelQ nbPi d))

/-- one target row before `SubScalarBigint` -/
def dasMs (Q P : List Nat) (levelQ nbPi d : Nat) (p0Q : Rows) (m j : Nat) : List Nat :=
  (dasRecs Q P levelQ nbPi d p0Q).map fun (ys, v) =>
    multSum (ys.take ((decompLvl levelQ nbPi d).toNat + 2)) v m (GenMRedConstant m)
      (dasMuc Q P levelQ nbPi d).vtimesqmodp[j]! (dasMuc Q P levelQ nbPi d).qoverqimodp[j]!

/-- the HPS branch of `decomposeAndSplit`, unfolded -/
theorem das_multi (Q P : List Nat) (hasP : Bool) (levelQ levelP nbPi d : Nat) (p0Q prevQ : Rows)
    (hdl : ¬ decompLvl levelQ nbPi d < 0) :
    decomposeAndSplit Q P hasP levelQ levelP nbPi d p0Q prevQ =
      some (subScalarBig Q levelQ (prodN (dasGrp Q levelQ nbPi d) / 2)
              ((List.range (levelQ + 1)).map fun j =>
                if j < d * nbPi ∨ min (d * nbPi + nbPi) (levelQ + 1) ≤ j
                then dasMs Q P levelQ nbPi d p0Q (Q.getD j 0) j else row prevQ j),
            subScalarBig P levelP (prodN (dasGrp Q levelQ nbPi d) / 2)
              ((List.range (levelP + 1)).map fun j =>
                dasMs Q P levelQ nbPi d p0Q (P.getD j 0) (Q.length + j))) := by
  unfold decomposeAndSplit
  show (if decompLvl levelQ nbPi d < 0 then _ else some _) = _
  rw [if_neg hdl]
  rfl

theorem residues_getD (qs : List Nat) (x i : Nat) (hi : i < qs.length) :
    (residues qs x).getD i 0 = x % qs.getD i 0 := by
  unfold residues
  simp [List.getD_eq_getElem?_getD, hi]

theorem map_getD' (qs : List Nat) (f : Nat → Nat) (i : Nat) (hi : i < qs.length) :
    (qs.map f).getD i 0 = f (qs.getD i 0) := by
  simp [List.getD_eq_getElem?_getD, hi]

/-- **`reconstructRNSCentered`, one lane**: on the residues of `x` the `y_i` are `hpsY` of the SHIFTED value
`x' = (x + ⌊Q_d/2⌋) mod Q_d`, the index is the IEEE `fidx`. -/
theorem reconstructCentered_eq (qs T : List Nat) (hC : Chain qs) (x : Nat) :
    reconstructCentered qs (qs.map GenMRedConstant) (qs.map fun q => (prodN qs / 2) % q)
        (genModUpConstants qs T) (residues qs x)
      = (hpsY qs (residues qs ((x + prodN qs / 2) % prodN qs)),
         fidx qs (hpsY qs (residues qs ((x + prodN qs / 2) % prodN qs)))) := by
  have hrl : ∀ z, (residues qs z).length = qs.length := fun z => by unfold residues; simp
  have hys : (List.range (residues qs x).length).map (fun i =>
        MRed (u64add ((residues qs x).getD i 0) ((qs.map fun q => (prodN qs / 2) % q).getD i 0))
          (genModUpConstants qs T).qoverqiinvqi[i]! (qs.getD i 0) ((qs.map GenMRedConstant).getD i 0))
      = hpsY qs (residues qs ((x + prodN qs / 2) % prodN qs)) := by
    apply List.ext_getElem
    · rw [List.length_map, List.length_range, hrl, hpsY_length _ _ (hrl _)]
    · intro i h1 h2
      rw [List.length_map, List.length_range, hrl] at h1
      have hmem := getD_mem qs i h1
      have hq0 := (hC.prime _ hmem).pos
      have hq61 := hC.small _ hmem
      have e2 := hpsY_getD qs (residues qs ((x + prodN qs / 2) % prodN qs)) (hrl _) i h1
      rw [List.getD_eq_getElem?_getD, List.getElem?_eq_getElem (by rw [hpsY_length _ _ (hrl _)]; exact h1),
        Option.getD_some] at e2
      rw [List.getElem_map, List.getElem_range, e2, residues_getD qs x i h1, residues_getD qs _ i h1,
        map_getD' qs _ i h1, map_getD' qs _ i h1]
      have hx : x % qs.getD i 0 < qs.getD i 0 := Nat.mod_lt _ hq0
      have hh : prodN qs / 2 % qs.getD i 0 < qs.getD i 0 := Nat.mod_lt _ hq0
      rw [Lattigo.u64add_eq _ _ (by unfold W; omega),
        reconstruct_y qs T hC i h1 _ (by unfold W; omega),
        Nat.mod_mod_of_dvd _ (Scaling.dvd_prodN_of_mem qs _ hmem)]
      rw [Nat.mul_mod, ← Nat.add_mod, ← Nat.mul_mod]
      exact Nat.mod_mul_mod _ _ _ |>.symm
  unfold reconstructCentered
  simp only []
  rw [hys]
  rfl

/-- the `y_i` of a lane of digit `d` -/
def dasY (qs : List Nat) (x : Nat) : List Nat := hpsY qs (residues qs ((x + prodN qs / 2) % prodN qs))

theorem drop_getD (Q : List Nat) (st i : Nat) : (Q.drop st).getD i 0 = Q.getD (st + i) 0 := by
  simp [List.getD_eq_getElem?_getD]

theorem dasGrp_length (Q : List Nat) (levelQ nbPi d : Nat) (hlQ : levelQ < Q.length) :
    (dasGrp Q levelQ nbPi d).length = min (d * nbPi + nbPi) (levelQ + 1) - d * nbPi := by
  unfold dasGrp
  rw [List.length_take, List.length_drop]; omega

theorem toNat_decompLvl (levelQ nbPi d : Nat) (hnb : 0 < nbPi) (hst : d * nbPi ≤ levelQ)
    (hcnt : 2 ≤ min (d * nbPi + nbPi) (levelQ + 1) - d * nbPi) :
    (decompLvl levelQ nbPi d).toNat + 2 = min (d * nbPi + nbPi) (levelQ + 1) - d * nbPi
    ∧ ¬ decompLvl levelQ nbPi d < 0 := by
  rw [decompLvl_eq levelQ nbPi d hnb hst]
  generalize min (d * nbPi + nbPi) (levelQ + 1) - d * nbPi = c at *
  constructor <;> omega

/-- the lanes after `reconstructRNSCentered`, in terms of the integer coefficients -/
theorem dasRecs_eq (Q P : List Nat) (levelQ nbPi d : Nat) (hnb : 0 < nbPi) (hst : d * nbPi ≤ levelQ)
    (hlQ : levelQ < Q.length) (hcnt : 2 ≤ min (d * nbPi + nbPi) (levelQ + 1) - d * nbPi)
    (hC : Chain (dasGrp Q levelQ nbPi d)) (p0Q : Rows) (X : List Nat)
    (hrows : ∀ i, d * nbPi ≤ i → i < min (d * nbPi + nbPi) (levelQ + 1) →
      row p0Q i = X.map (· % Q.getD i 0)) :
    dasRecs Q P levelQ nbPi d p0Q = X.map fun x =>
      (dasY (dasGrp Q levelQ nbPi d) x, fidx (dasGrp Q levelQ nbPi d) (dasY (dasGrp Q levelQ nbPi d) x)) := by
  have hmuc : dasMuc Q P levelQ nbPi d = genModUpConstants (dasGrp Q levelQ nbPi d) (Q ++ P.take nbPi) := by
    unfold dasMuc dasGrp
    rw [(toNat_decompLvl levelQ nbPi d hnb hst hcnt).1]
  unfold dasRecs
  rw [hmuc]
  generalize hc : min (d * nbPi + nbPi) (levelQ + 1) - d * nbPi = cnt at *
  have hrw : (List.range cnt).map (fun i => row p0Q (d * nbPi + i))
      = (List.range cnt).map fun i => X.map ((fun i x => x % Q.getD (d * nbPi + i) 0) i) := by
    apply List.map_congr_left
    intro i hi
    have := List.mem_range.mp hi
    exact hrows (d * nbPi + i) (by omega) (by omega)
  rw [hrw, transpose_map_rows cnt (by omega) X (fun i x => x % Q.getD (d * nbPi + i) 0), List.map_map]
  apply List.map_congr_left
  intro x _
  simp only [Function.comp]
  have hres : (List.range cnt).map (fun i => x % Q.getD (d * nbPi + i) 0) = residues (dasGrp Q levelQ nbPi d) x := by
    have := range_map_residues (Q.drop (d * nbPi)) cnt x (by rw [List.length_drop]; omega)
    unfold dasGrp
    rw [hc, ← this]
    apply List.map_congr_left
    intro i _
    rw [drop_getD]
  rw [hres, reconstructCentered_eq _ _ hC x]
  rfl

theorem dasY_length (qs : List Nat) (x : Nat) : (dasY qs x).length = qs.length := by
  unfold dasY
  exact hpsY_length _ _ (by unfold residues; simp)

/-- a target row before `SubScalarBigint`, in terms of the integer coefficients -/
theorem dasMs_eq (Q P : List Nat) (levelQ nbPi d : Nat) (hnb : 0 < nbPi) (hst : d * nbPi ≤ levelQ)
    (hlQ : levelQ < Q.length) (hcnt : 2 ≤ min (d * nbPi + nbPi) (levelQ + 1) - d * nbPi)
    (hC : Chain (dasGrp Q levelQ nbPi d)) (p0Q : Rows) (X : List Nat)
    (hrows : ∀ i, d * nbPi ≤ i → i < min (d * nbPi + nbPi) (levelQ + 1) →
      row p0Q i = X.map (· % Q.getD i 0)) (m j : Nat) :
    dasMs Q P levelQ nbPi d p0Q m j = X.map fun x =>
      multSum (dasY (dasGrp Q levelQ nbPi d) x) (fidx (dasGrp Q levelQ nbPi d) (dasY (dasGrp Q levelQ nbPi d) x))
        m (GenMRedConstant m)
        (genModUpConstants (dasGrp Q levelQ nbPi d) (Q ++ P.take nbPi)).vtimesqmodp[j]!
        (genModUpConstants (dasGrp Q levelQ nbPi d) (Q ++ P.take nbPi)).qoverqimodp[j]! := by
  have hmuc : dasMuc Q P levelQ nbPi d = genModUpConstants (dasGrp Q levelQ nbPi d) (Q ++ P.take nbPi) := by
    unfold dasMuc dasGrp
    rw [(toNat_decompLvl levelQ nbPi d hnb hst hcnt).1]
  unfold dasMs
  rw [dasRecs_eq Q P levelQ nbPi d hnb hst hlQ hcnt hC p0Q X hrows, hmuc, List.map_map]
  apply List.map_congr_left
  intro x _
  simp only [Function.comp]
  rw [List.take_of_length_le (by
    rw [dasY_length, dasGrp_length Q levelQ nbPi d hlQ, (toNat_decompLvl levelQ nbPi d hnb hst hcnt).1])]

/-- **one target row of the HPS branch** (target index `jt` in `Q ++ P[:nbPi]`, modulus `m`), after `SubScalarBigint` -/
theorem das_row (Q P : List Nat) (levelQ nbPi d : Nat) (hnb : 0 < nbPi) (hst : d * nbPi ≤ levelQ)
    (hlQ : levelQ < Q.length) (hcnt : 2 ≤ min (d * nbPi + nbPi) (levelQ + 1) - d * nbPi)
    (hC : Chain (dasGrp Q levelQ nbPi d)) (k : Nat) (hk : (dasGrp Q levelQ nbPi d).sum ≤ k * W)
    (p0Q : Rows) (X : List Nat)
    (hrows : ∀ i, d * nbPi ≤ i → i < min (d * nbPi + nbPi) (levelQ + 1) →
      row p0Q i = X.map (· % Q.getD i 0))
    (jt m : Nat) (hjt : jt < (Q ++ P.take nbPi).length) (hm : (Q ++ P.take nbPi).getD jt 0 = m)
    (hpp : m.Prime) (hodd : m % 2 = 1) (hsm : (k + 1 + 2) * m ≤ W) :
    List.Forall₂ (fun x out =>
        fidx (dasGrp Q levelQ nbPi d) (dasY (dasGrp Q levelQ nbPi d) x) ≤ (dasGrp Q levelQ nbPi d).length →
          ((out : ℕ) : ℤ) % (m : ℤ)
              = (centeredRep (prodN (dasGrp Q levelQ nbPi d)) x
                  + ((hpsV (dasGrp Q levelQ nbPi d) (dasY (dasGrp Q levelQ nbPi d) x) : ℤ)
                      - (fidx (dasGrp Q levelQ nbPi d) (dasY (dasGrp Q levelQ nbPi d) x) : ℤ))
                    * (prodN (dasGrp Q levelQ nbPi d) : ℤ)) % (m : ℤ)
            ∧ out < (k + 2) * m)
      X ((dasMs Q P levelQ nbPi d p0Q m jt).map fun o =>
          subscalarvec_lane o ((prodN (dasGrp Q levelQ nbPi d) / 2) % m) 0 m) := by
  rw [dasMs_eq Q P levelQ nbPi d hnb hst hlQ hcnt hC p0Q X hrows, List.forall₂_map_right_iff,
    List.forall₂_map_right_iff, List.forall₂_same]
  intro x _ hv
  have hne : dasGrp Q levelQ nbPi d ≠ [] := by
    intro h
    have := dasGrp_length Q levelQ nbPi d hlQ
    rw [h] at this; simp at this; omega
  have hQpos : 0 < prodN (dasGrp Q levelQ nbPi d) :=
    Scaling.prodN_pos _ (fun q hq => (hC.prime q hq).pos)
  subst hm
  have := centred_lane (dasGrp Q levelQ nbPi d) (Q ++ P.take nbPi) hC hne jt hjt k hk hpp hodd hsm
    ((x + prodN (dasGrp Q levelQ nbPi d) / 2) % prodN (dasGrp Q levelQ nbPi d))
    (prodN (dasGrp Q levelQ nbPi d) / 2)
    (fidx (dasGrp Q levelQ nbPi d) (dasY (dasGrp Q levelQ nbPi d) x)) (Nat.mod_lt _ hQpos) hv
  unfold centeredRep
  exact this

theorem append_getD_left (Q R : List Nat) (j : Nat) (h : j < Q.length) : (Q ++ R).getD j 0 = Q.getD j 0 := by
  simp [List.getD_eq_getElem?_getD, List.getElem?_append_left h]

theorem append_getD_right (Q R : List Nat) (j : Nat) : (Q ++ R).getD (Q.length + j) 0 = R.getD j 0 := by
  simp [List.getD_eq_getElem?_getD, List.getElem?_append_right]

/-- **`DecomposeAndSplit`, multi-prime digit** (HPS branch: the digit `d` has `≥ 2` moduli `Q_d = Π dasGrp`).
`X` the integer coefficients (rows `d·nbPi ≤ i < min(d·nbPi+nbPi, levelQ+1)` of `p0Q` are `X mod q_i`).  The function
does not panic; every limb of every Q-row OUTSIDE the digit's own moduli and of every P-row `j ≤ levelP` is

  `≡ centeredRep Q_d x + δ·Q_d (mod m)`,  `δ = hpsV − v`,   and `< (k+2)·m`

(`v = fidx` the IEEE index, hypothesis `v ≤ #moduli of the digit`; `δ = 0` for the exact index, then the limb is
congruent to THE centred digit `d = centeredRep Q_d x`, `d ≡ x (mod Q_d)` (`centeredRep_emod`), `−⌊Q_d/2⌋ ≤ d <
Q_d − ⌊Q_d/2⌋` (`centeredRep_bounds`); for `δ = ±1` it is the digit `d ± Q_d`, still `≡ x (mod Q_d)`).  The rows of
`p1Q` inside the digit's own moduli are not written by the Go function (they keep `prevQ` minus `⌊Q_d/2⌋`). -/
theorem decompose_multi_limbs (Q P : List Nat) (hasP : Bool) (levelQ levelP nbPi d : Nat) (hnb : 0 < nbPi)
    (hst : d * nbPi ≤ levelQ) (hlQ : levelQ < Q.length)
    (hcnt : 2 ≤ min (d * nbPi + nbPi) (levelQ + 1) - d * nbPi)
    (hC : Chain (dasGrp Q levelQ nbPi d)) (k : Nat) (hk : (dasGrp Q levelQ nbPi d).sum ≤ k * W)
    (hTQ : Target Q (k + 1)) (hTP : Target P (k + 1)) (hlP : levelP + 1 ≤ nbPi) (hnP : nbPi ≤ P.length)
    (p0Q prevQ : Rows) (X : List Nat)
    (hrows : ∀ i, d * nbPi ≤ i → i < min (d * nbPi + nbPi) (levelQ + 1) →
      row p0Q i = X.map (· % Q.getD i 0)) :
    ∃ outQ outP, decomposeAndSplit Q P hasP levelQ levelP nbPi d p0Q prevQ = some (outQ, outP)
      ∧ (∀ j, j ≤ levelQ → (j < d * nbPi ∨ min (d * nbPi + nbPi) (levelQ + 1) ≤ j) →
          List.Forall₂ (fun x out =>
            fidx (dasGrp Q levelQ nbPi d) (dasY (dasGrp Q levelQ nbPi d) x) ≤ (dasGrp Q levelQ nbPi d).length →
              ((out : ℕ) : ℤ) % (Q.getD j 0 : ℤ)
                  = (centeredRep (prodN (dasGrp Q levelQ nbPi d)) x
                      + ((hpsV (dasGrp Q levelQ nbPi d) (dasY (dasGrp Q levelQ nbPi d) x) : ℤ)
                          - (fidx (dasGrp Q levelQ nbPi d) (dasY (dasGrp Q levelQ nbPi d) x) : ℤ))
                        * (prodN (dasGrp Q levelQ nbPi d) : ℤ)) % (Q.getD j 0 : ℤ)
                ∧ out < (k + 2) * Q.getD j 0) X (row outQ j))
      ∧ (∀ j, j ≤ levelP →
          List.Forall₂ (fun x out =>
            fidx (dasGrp Q levelQ nbPi d) (dasY (dasGrp Q levelQ nbPi d) x) ≤ (dasGrp Q levelQ nbPi d).length →
              ((out : ℕ) : ℤ) % (P.getD j 0 : ℤ)
                  = (centeredRep (prodN (dasGrp Q levelQ nbPi d)) x
                      + ((hpsV (dasGrp Q levelQ nbPi d) (dasY (dasGrp Q levelQ nbPi d) x) : ℤ)
                          - (fidx (dasGrp Q levelQ nbPi d) (dasY (dasGrp Q levelQ nbPi d) x) : ℤ))
                        * (prodN (dasGrp Q levelQ nbPi d) : ℤ)) % (P.getD j 0 : ℤ)
                ∧ out < (k + 2) * P.getD j 0) X (row outP j)) := by
  refine ⟨_, _, das_multi Q P hasP levelQ levelP nbPi d p0Q prevQ
    (toNat_decompLvl levelQ nbPi d hnb hst hcnt).2, ?_, ?_⟩
  · intro j hj hout
    unfold subScalarBig
    rw [row_map_range _ _ j (by omega), row_map_range _ _ j (by omega), if_pos hout]
    have hmem := getD_mem Q j (by omega)
    exact das_row Q P levelQ nbPi d hnb hst hlQ hcnt hC k hk p0Q X hrows j (Q.getD j 0)
      (by rw [List.length_append]; omega) (append_getD_left Q _ j (by omega))
      (hTQ.prime _ hmem) (hTQ.odd _ hmem) (hTQ.small _ hmem)
  · intro j hj
    unfold subScalarBig
    rw [row_map_range _ _ j (by omega), row_map_range _ _ j (by omega)]
    have hmem := getD_mem P j (by omega)
    exact das_row Q P levelQ nbPi d hnb hst hlQ hcnt hC k hk p0Q X hrows (Q.length + j) (P.getD j 0)
      (by rw [List.length_append, List.length_take]; omega)
      (by rw [append_getD_right, take_getD P nbPi j (by omega)])
      (hTP.prime _ hmem) (hTP.odd _ hmem) (hTP.small _ hmem)

/-! ## 3. the digits recombine -/

/-- Whatever the digit branch and whatever the index error `δ_i`, the signed digit values
`d_i = centred [x]_{Q_i} + δ_i·Q_i` satisfy the hypothesis of `rns_digits_recombine`: they recombine to `x`. -/
theorem digits_recombine (Qs : List Nat) (inv : Nat → Nat) (x : Nat) (δ : Nat → ℤ)
    (hc : Qs.Pairwise Nat.Coprime) (hpos : ∀ Q ∈ Qs, 0 < Q)
    (hinv : ∀ Q ∈ Qs, ((prodN Qs / Q) * inv Q) % Q = 1) :
    rnsRecombine Qs inv (Qs.map fun Qi => centeredRep Qi x + δ Qi * (Qi : ℤ)) % (prodN Qs : ℤ)
      = (x : ℤ) % (prodN Qs : ℤ) := by
  apply rnsRecombine_modEq Qs inv (x : ℤ) _ hc hpos hinv
  rw [List.forall₂_map_right_iff, List.forall₂_same]
  intro Qi _
  rw [Int.add_mul_emod_self_right, centeredRep_emod]

/-- the same for single-prime digits with the copy branch's centring `digitA` -/
theorem digits_recombine_single (Qs : List Nat) (inv : Nat → Nat) (x : Nat)
    (hc : Qs.Pairwise Nat.Coprime) (hpos : ∀ Q ∈ Qs, 0 < Q)
    (hinv : ∀ Q ∈ Qs, ((prodN Qs / Q) * inv Q) % Q = 1) :
    rnsRecombine Qs inv (Qs.map fun qd => digitA qd (x % qd)) % (prodN Qs : ℤ)
      = (x : ℤ) % (prodN Qs : ℤ) := by
  apply rnsRecombine_modEq Qs inv (x : ℤ) _ hc hpos hinv
  rw [List.forall₂_map_right_iff, List.forall₂_same]
  intro qd _
  rw [digitA_emod, Int.natCast_mod, Int.emod_emod_of_dvd _ (dvd_refl _)]

/-! ## 4. unconditional ranges (whatever the IEEE index) -/

/-- every limb of a target row of the HPS branch is `< (k+2)·m`, for EVERY value of the IEEE index -/
theorem das_row_lt (Q P : List Nat) (levelQ nbPi d : Nat) (hnb : 0 < nbPi) (hst : d * nbPi ≤ levelQ)
    (hlQ : levelQ < Q.length) (hcnt : 2 ≤ min (d * nbPi + nbPi) (levelQ + 1) - d * nbPi)
    (hC : Chain (dasGrp Q levelQ nbPi d)) (k : Nat) (hk : (dasGrp Q levelQ nbPi d).sum ≤ k * W)
    (p0Q : Rows) (X : List Nat)
    (hrows : ∀ i, d * nbPi ≤ i → i < min (d * nbPi + nbPi) (levelQ + 1) →
      row p0Q i = X.map (· % Q.getD i 0))
    (jt m : Nat) (hjt : jt < (Q ++ P.take nbPi).length) (hm : (Q ++ P.take nbPi).getD jt 0 = m)
    (hpp : m.Prime) (hodd : m % 2 = 1) (hsm : (k + 1 + 2) * m ≤ W) :
    ∀ out ∈ (dasMs Q P levelQ nbPi d p0Q m jt).map (fun o =>
        subscalarvec_lane o ((prodN (dasGrp Q levelQ nbPi d) / 2) % m) 0 m), out < (k + 2) * m := by
  rw [dasMs_eq Q P levelQ nbPi d hnb hst hlQ hcnt hC p0Q X hrows, List.map_map]
  intro out hout
  rw [List.mem_map] at hout
  obtain ⟨x, _, rfl⟩ := hout
  simp only [Function.comp]
  have hne : dasGrp Q levelQ nbPi d ≠ [] := by
    intro h
    have := dasGrp_length Q levelQ nbPi d hlQ
    rw [h] at this; simp at this; omega
  subst hm
  have h3 : (k + 1 + 2) * (Q ++ P.take nbPi).getD jt 0
      = (k + 2) * (Q ++ P.take nbPi).getD jt 0 + (Q ++ P.take nbPi).getD jt 0 := by
    rw [Nat.add_mul, Nat.add_mul, Nat.add_mul]; omega
  have hlt := multSum_lt (dasGrp Q levelQ nbPi d) (Q ++ P.take nbPi) hC hne jt hjt hpp hodd k hk (by omega)
    (dasY (dasGrp Q levelQ nbPi d) x) (dasY_length _ _)
    (by unfold dasY
        exact hpsY_lt _ _ (by unfold residues; simp) (fun q hq => (hC.prime q hq).pos))
    (fidx (dasGrp Q levelQ nbPi d) (dasY (dasGrp Q levelQ nbPi d) x))
  have hp2 : (Q ++ P.take nbPi).getD jt 0 ≤ (k + 2) * (Q ++ P.take nbPi).getD jt 0 :=
    Nat.le_mul_of_pos_left _ (by omega)
  exact (subscalar_lazy _ _ _ _ hpp.pos (Nat.mod_lt _ hpp.pos) (by omega) hlt hp2).2

/-- **ranges of the HPS branch**: whatever `DecomposeAndSplit` returns, every limb of a Q-row outside the digit's own
moduli and of every P-row is `< (k+2)·m`, for every value of the IEEE index. -/
theorem decompose_multi_lt (Q P : List Nat) (hasP : Bool) (levelQ levelP nbPi d : Nat) (hnb : 0 < nbPi)
    (hst : d * nbPi ≤ levelQ) (hlQ : levelQ < Q.length)
    (hcnt : 2 ≤ min (d * nbPi + nbPi) (levelQ + 1) - d * nbPi)
    (hC : Chain (dasGrp Q levelQ nbPi d)) (k : Nat) (hk : (dasGrp Q levelQ nbPi d).sum ≤ k * W)
    (hTQ : Target Q (k + 1)) (hTP : Target P (k + 1)) (hlP : levelP + 1 ≤ nbPi) (hnP : nbPi ≤ P.length)
    (p0Q prevQ : Rows) (X : List Nat)
    (hrows : ∀ i, d * nbPi ≤ i → i < min (d * nbPi + nbPi) (levelQ + 1) →
      row p0Q i = X.map (· % Q.getD i 0))
    (outQ outP : Rows) (hout : decomposeAndSplit Q P hasP levelQ levelP nbPi d p0Q prevQ = some (outQ, outP)) :
    (∀ j, j ≤ levelQ → (j < d * nbPi ∨ min (d * nbPi + nbPi) (levelQ + 1) ≤ j) →
        ∀ y ∈ row outQ j, y < (k + 2) * Q.getD j 0)
    ∧ (∀ j, j ≤ levelP → ∀ y ∈ row outP j, y < (k + 2) * P.getD j 0) := by
  rw [das_multi Q P hasP levelQ levelP nbPi d p0Q prevQ (toNat_decompLvl levelQ nbPi d hnb hst hcnt).2] at hout
  injection hout with hout
  injection hout with h1 h2
  subst h1; subst h2
  constructor
  · intro j hj ho
    unfold subScalarBig
    rw [row_map_range _ _ j (by omega), row_map_range _ _ j (by omega), if_pos ho]
    have hmem := getD_mem Q j (by omega)
    exact das_row_lt Q P levelQ nbPi d hnb hst hlQ hcnt hC k hk p0Q X hrows j (Q.getD j 0)
      (by rw [List.length_append]; omega) (append_getD_left Q _ j (by omega))
      (hTQ.prime _ hmem) (hTQ.odd _ hmem) (hTQ.small _ hmem)
  · intro j hj
    unfold subScalarBig
    rw [row_map_range _ _ j (by omega), row_map_range _ _ j (by omega)]
    have hmem := getD_mem P j (by omega)
    exact das_row_lt Q P levelQ nbPi d hnb hst hlQ hcnt hC k hk p0Q X hrows (Q.length + j) (P.getD j 0)
      (by rw [List.length_append, List.length_take]; omega)
      (by rw [append_getD_right, take_getD P nbPi j (by omega)])
      (hTP.prime _ hmem) (hTP.odd _ hmem) (hTP.small _ hmem)

end Lattigo.Decomp

#print axioms Lattigo.Decomp.decompLvl_eq
#print axioms Lattigo.Decomp.splitLimb_spec
#print axioms Lattigo.Decomp.decompose_single_limbs
#print axioms Lattigo.Decomp.reconstructCentered_eq
#print axioms Lattigo.Decomp.das_row
#print axioms Lattigo.Decomp.decompose_multi_limbs
#print axioms Lattigo.Decomp.digits_recombine
#print axioms Lattigo.Decomp.digits_recombine_single
#print axioms Lattigo.Decomp.decompose_multi_lt
