/-
  The hypotheses of the HPS theorems (Proofs/BasisExtInt.lean) discharged for what the code actually has:
  a chain of distinct primes below 2^64 and the Fermat inverse `ModExp(a, q−2, q)`.
-/
import Lattigo.Proofs.ScalingArith
import Lattigo.Proofs.BasisExtFloor
import Mathlib.Algebra.BigOperators.Group.List.Basic
import Mathlib.Data.Nat.Prime.Basic

namespace Lattigo.BasisExt
open Lattigo Lattigo.Scaling

/-- `Q/q_i` is not divisible by `q_i` in a chain of distinct primes -/
theorem qStar_not_dvd (qs : List Nat) (hp : ∀ q ∈ qs, Nat.Prime q) (hnd : qs.Nodup) (qi : Nat) (hqi : qi ∈ qs) :
    ¬ qi ∣ qStar qs qi := by
  unfold qStar
  rw [Scaling.prodN_eq_prod, ← List.prod_erase hqi, Nat.mul_div_cancel_left _ (hp qi hqi).pos]
  intro h
  obtain ⟨a, ha, hdvd⟩ := ((Nat.Prime.prime (hp qi hqi)).dvd_prod_iff).mp h
  have hpa : Nat.Prime a := hp a (List.mem_of_mem_erase ha)
  have : qi = a := (Nat.prime_dvd_prime_iff_eq (hp qi hqi) hpa).mp hdvd
  subst this
  exact (List.Nodup.not_mem_erase hnd) ha

/-- the inverse hypothesis of `hpsY_ok` holds on a chain of distinct primes `< 2^64` -/
theorem hinv_of_primes (qs : List Nat) (hp : ∀ q ∈ qs, Nat.Prime q ∧ q < 2 ^ 64) (hnd : qs.Nodup) :
    ∀ qi ∈ qs, (qStar qs qi % qi * invMod (qStar qs qi % qi) qi) % qi = 1 := by
  intro qi hqi
  apply invMod_spec _ _ (hp qi hqi).1 (hp qi hqi).2
  intro h
  exact qStar_not_dvd qs (fun q hq => (hp q hq).1) hnd qi hqi ((Nat.dvd_mod_iff (dvd_refl qi)).mp h)

/-- **HPS on a prime chain, exact index**: with `y_i = [x·(Q/q_i)⁻¹]_{q_i}` computed from the residues of
`x < Q` and the exact `v = ⌊Σ y_i/q_i⌋`, what the code writes for target modulus `p` is `x mod p`;
moreover `Σ y_i·(Q/q_i) = x + v·Q` with `v < #moduli`. -/
theorem modUp_exact_primes (qs : List Nat) (x p : Nat) (hne : qs ≠ [])
    (hp : ∀ q ∈ qs, Nat.Prime q ∧ q < 2 ^ 64) (hnd : qs.Nodup) (hx : x < prodN qs) (hp0 : 0 < p) :
    let ys := hpsY qs (residues qs x)
    hpsSum qs ys = x + hpsV qs ys * prodN qs ∧ hpsV qs ys < qs.length ∧ hpsOut qs ys (hpsV qs ys) p = x % p := by
  intro ys
  have hpos : ∀ q ∈ qs, 0 < q := fun q hq => (hp q hq).1.pos
  have hc := pairwise_coprime_of_primes qs (fun q hq => (hp q hq).1) hnd
  have hy := hpsY_ok qs x (hinv_of_primes qs hp hnd) hpos
  obtain ⟨h1, h2⟩ := hps_sum qs ys x hne hc hpos hx hy
  exact ⟨h1, h2, modUp_exact qs ys x p hc hpos hx hy hp0⟩

-- test
example : hpsOut [3, 5, 7] (hpsY [3, 5, 7] (residues [3, 5, 7] 52)) (hpsV [3, 5, 7] (hpsY [3, 5, 7] (residues [3, 5, 7] 52))) 11
    = 52 % 11 := by decide

end Lattigo.BasisExt

#print axioms Lattigo.BasisExt.qStar_not_dvd
#print axioms Lattigo.BasisExt.hinv_of_primes
#print axioms Lattigo.BasisExt.modUp_exact_primes
