/-
  C11 — the regenerated tie: the definitions of `Lattigo/Gen/Galois.lean` (printed by tools/go2lean
  from core/rlwe/params.go and ring/utils.go on every run) are equal to the hand-written model
  `Model/Galois.lean`, for ALL inputs in the domain `1 < NthRoot`, `2·NthRoot ≤ 2^64`
  (`ring.BRed` inside `ModExp` is now the generated word-level `Gen.BRed`, discharged by `BRed_spec`).
-/
import Lattigo.Gen.Galois
import Lattigo.Model.Galois
import Lattigo.Model.GaloisGen
import Lattigo.Proofs.ModRed
import Lattigo.Proofs.LoopWhile

namespace Lattigo.Proofs.GenGalois
open Lattigo Lattigo.Model.Galois Lattigo.Proofs.LoopWhile

/-! ### word primitives in the form the model uses -/

theorem u64sub_one (p : Nat) (h0 : 0 < p) (hW : p ≤ W) : u64sub p 1 = p - 1 := by
  unfold u64sub; unfold W at *; omega

theorem and_one (i : Nat) : u64and i 1 = i % 2 := by
  unfold u64and; exact Nat.and_one_is_mod i

theorem shr_one (i : Nat) : u64shr i 1 = i >>> 1 := by
  unfold u64shr; rw [Nat.shiftRight_eq_div_pow]

theorem shr_three (i : Nat) : u64shr i 3 = i >>> 3 := by
  unfold u64shr; rw [Nat.shiftRight_eq_div_pow]

/-! ### `ring.ModExp` -/

/-- condition of the loop `for i := e; i > 0; i >>= 1` on the carried state `(i, result, x)`. -/
def expCond : Nat × Nat × Nat → Bool := fun st => u64gt st.1 0

/-- body (+ post statement) of the loop of `ring.ModExp`. -/
def modExpBody (p : Nat) : Nat × Nat × Nat → Nat × Nat × Nat := fun st =>
  (u64shr st.1 1,
   if u64eq (u64and st.1 1) 1 then Gen.BRed st.2.1 st.2.2 p (brc p) else st.2.1,
   Gen.BRed st.2.2 st.2.2 p (brc p))

/-- the generated `ModExp` is this loop (definitional unfolding of the printed `let`s). -/
theorem ModExp_unfold (x e p : Nat) :
    Gen.ModExp x e p = (loopWhile 64 expCond (modExpBody p) (e, 1, x)).2.1 := rfl

theorem modExp_loop (p : Nat) (hp : 1 < p) (h2p : 2 * p ≤ W) :
    ∀ fuel i x r, x < W → r < W →
      (loopWhile fuel expCond (modExpBody p) (i, r, x)).2.1 = modExpLoop p fuel i x r := by
  intro fuel
  induction fuel with
  | zero => intro i x r _ _; rfl
  | succ f ih =>
    intro i x r hx hr
    rw [loopWhile_succ, modExpLoop]
    by_cases hi : i = 0
    · subst hi; simp [expCond]
    · have hc : expCond (i, r, x) = true := by simp [expCond]; omega
      rw [hc, if_pos rfl, if_neg hi]
      have hxx : Gen.BRed x x p (brc p) = x * x % p := BRed_spec x x p hp h2p hx hx
      have hrx : Gen.BRed r x p (brc p) = r * x % p := BRed_spec r x p hp h2p hr hx
      have hpW : p < W := by omega
      have hb : modExpBody p (i, r, x)
          = (i >>> 1, (if i % 2 = 1 then r * x % p else r), x * x % p) := by
        simp only [modExpBody, and_one, shr_one, hxx, hrx, decide_eq_true_eq]
      rw [hb]
      apply ih
      · exact Nat.lt_trans (Nat.mod_lt _ (by omega)) hpW
      · split
        · exact Nat.lt_trans (Nat.mod_lt _ (by omega)) hpW
        · exact hr

/-- **`ring.ModExp`, regenerated = model**, all exponents. -/
theorem ModExp_eq (x e p : Nat) (hp : 1 < p) (h2p : 2 * p ≤ W) (hx : x < W) :
    Gen.ModExp x e p = modExp x e p := by
  rw [ModExp_unfold, modExp]
  exact modExp_loop p hp h2p 64 e x 1 hx (by unfold W; omega)

/-- rule S of the printer, checked for this loop: every fuel `≥ 64` gives the same final state. -/
theorem ModExp_fuel (x e p : Nat) (he : e < W) (m : Nat) (hm : 64 ≤ m) :
    loopWhile m expCond (modExpBody p) (e, 1, x) = loopWhile 64 expCond (modExpBody p) (e, 1, x) := by
  refine loopWhile_fuel expCond (modExpBody p) (fun n st => st.1 < 2 ^ n) ?_ ?_ 64 (e, 1, x)
    (by simpa [W] using he) m hm
  · intro s hs; simp only [Nat.pow_zero] at hs; simp [expCond]; omega
  · intro n s hs _
    simp only [modExpBody, u64shr]
    rw [Nat.pow_succ] at hs
    omega

/-! ### `ring.ModExpPow2` -/

/-- body (+ post statement) of the loop of `ring.ModExpPow2`. -/
def modExpPow2Body : Nat × Nat × Nat → Nat × Nat × Nat := fun st =>
  (u64shr st.1 1,
   if u64eq (u64and st.1 1) 1 then u64mul st.2.1 st.2.2 else st.2.1,
   u64mul st.2.2 st.2.2)

theorem ModExpPow2_unfold (x e p : Nat) :
    Gen.ModExpPow2 x e p = u64and (loopWhile 64 expCond modExpPow2Body (e, 1, x)).2.1 (u64sub p 1) := rfl

theorem modExpPow2_loop :
    ∀ fuel i x r, (loopWhile fuel expCond modExpPow2Body (i, r, x)).2.1 = modExpPow2Loop fuel i x r := by
  intro fuel
  induction fuel with
  | zero => intro i x r; rfl
  | succ f ih =>
    intro i x r
    rw [loopWhile_succ, modExpPow2Loop]
    by_cases hi : i = 0
    · subst hi; simp [expCond]
    · have hc : expCond (i, r, x) = true := by simp [expCond]; omega
      rw [hc, if_pos rfl, if_neg hi]
      have hb : modExpPow2Body (i, r, x)
          = (i >>> 1, (if i % 2 = 1 then u64mul r x else r), u64mul x x) := by
        simp only [modExpPow2Body, and_one, shr_one, decide_eq_true_eq]
      rw [hb]
      exact ih _ _ _

/-- **`ring.ModExpPow2`, regenerated = model** (`0 < p ≤ 2^64`; for `p = 0` Go's `p-1` wraps). -/
theorem ModExpPow2_eq (x e p : Nat) (h0 : 0 < p) (hW : p ≤ W) :
    Gen.ModExpPow2 x e p = modExpPow2 x e p := by
  rw [ModExpPow2_unfold, modExpPow2, modExpPow2_loop, u64sub_one p h0 hW]; rfl

theorem ModExpPow2_fuel (x e : Nat) (he : e < W) (m : Nat) (hm : 64 ≤ m) :
    loopWhile m expCond modExpPow2Body (e, 1, x) = loopWhile 64 expCond modExpPow2Body (e, 1, x) := by
  refine loopWhile_fuel expCond modExpPow2Body (fun n st => st.1 < 2 ^ n) ?_ ?_ 64 (e, 1, x)
    (by simpa [W] using he) m hm
  · intro s hs; simp only [Nat.pow_zero] at hs; simp [expCond]; omega
  · intro n s hs _
    simp only [modExpPow2Body, u64shr]
    rw [Nat.pow_succ] at hs
    omega

/-! ### the methods of `rlwe.Parameters` -/

/-- **`GaloisElement`, regenerated = model**, every Go `int` `k` (as its word `toU64 k`). -/
theorem GaloisElement_eq (N : Nat) (hN : 1 < N) (h2N : 2 * N ≤ W) (k : Int) :
    Gen.GaloisElement N (toU64 k) = galEl N k := by
  unfold Gen.GaloisElement galEl
  rw [ModExp_eq _ _ _ hN h2N (by unfold Gen.GaloisGen W; omega), u64sub_one N (by omega) (by omega)]
  rfl

/-- the driver's wrapper is the model. -/
theorem galEl_gen_eq (N : Nat) (hN : 1 < N) (h2N : 2 * N ≤ W) (k : Int) :
    Model.GaloisGen.galEl N k = galEl N k := GaloisElement_eq N hN h2N k

theorem galEls_gen_eq (N : Nat) (hN : 1 < N) (h2N : 2 * N ≤ W) (ks : List Int) :
    Model.GaloisGen.galEls N ks = galEls N ks := by
  unfold Model.GaloisGen.galEls Gen.GaloisElements galEls
  rw [List.map_map]
  apply List.map_congr_left
  intro k _
  exact GaloisElement_eq N hN h2N k

/-- **`ModInvGaloisElement`, regenerated = model**, every `uint64` `g`. -/
theorem ModInvGaloisElement_eq (N : Nat) (hN : 1 < N) (h2N : 2 * N ≤ W) (g : Nat) (hg : g < W) :
    Gen.ModInvGaloisElement N g = modInv N g := by
  unfold Gen.ModInvGaloisElement modInv
  rw [ModExp_eq _ _ _ hN h2N hg, u64sub_one N (by omega) (by omega)]

/-- **`GaloisElementOrderTwoOrthogonalSubgroup`, regenerated = model** (`none` = panic). -/
theorem orderTwo_eq (rt : RingType) (N : Nat) (h0 : 0 < N) (hW : N ≤ W) :
    Gen.GaloisElementOrderTwoOrthogonalSubgroup (Model.GaloisGen.rtCode rt) N = orderTwo rt N := by
  cases rt
  · simp [Gen.GaloisElementOrderTwoOrthogonalSubgroup, Model.GaloisGen.rtCode, Gen.Standard,
      Gen.ConjugateInvariant, orderTwo, u64sub_one N h0 hW]
  · simp [Gen.GaloisElementOrderTwoOrthogonalSubgroup, Model.GaloisGen.rtCode,
      Gen.ConjugateInvariant, orderTwo]

/-! ### `SolveDiscreteLogGaloisElement` -/

/-- condition of the `for { … return … }` loop on the state `(ret_, kuint, x)`. -/
def dlogCond : Option Nat × Nat × Nat → Bool := fun st => st.1.isNone

/-- body of the loop of `SolveDiscreteLogGaloisElement`. -/
def dlogBody (N g : Nat) : Option Nat × Nat × Nat → Option Nat × Nat × Nat := fun st =>
  let k' := if u64ne (Gen.ModExpPow2 Gen.GaloisGen st.2.1 N) (Gen.ModExpPow2 g st.2.2 N)
            then u64or st.2.1 (u64shr N 3) else st.2.1
  if u64eq st.2.2 1 then (some k', k', st.2.2) else (none, u64shr k' 1, u64shr st.2.2 1)

theorem Solve_unfold (fuel N g : Nat) :
    Gen.SolveDiscreteLogGaloisElement fuel N g
      = (loopWhile fuel dlogCond (dlogBody N g) (none, 0, u64shr N 3)).1 := rfl

theorem dlog_loop (N g : Nat) (h0 : 0 < N) (hW : N ≤ W) :
    ∀ fuel k x, (loopWhile fuel dlogCond (dlogBody N g) (none, k, x)).1 = dlogLoop N g fuel x k := by
  intro fuel
  induction fuel with
  | zero => intro k x; rfl
  | succ f ih =>
    intro k x
    rw [loopWhile_succ, dlogLoop]
    have hc : dlogCond ((none : Option Nat), k, x) = true := rfl
    rw [hc, if_pos rfl]
    have hk : (if u64ne (Gen.ModExpPow2 Gen.GaloisGen k N) (Gen.ModExpPow2 g x N)
                then u64or k (u64shr N 3) else k)
        = (if modExpPow2 galoisGen k N ≠ modExpPow2 g x N then k ||| (N >>> 3) else k) := by
      rw [ModExpPow2_eq _ _ _ h0 hW, ModExpPow2_eq _ _ _ h0 hW, shr_three]
      simp only [decide_eq_true_eq, u64or]
      rfl
    have hb : dlogBody N g (none, k, x)
        = (if x = 1 then
            (some (if modExpPow2 galoisGen k N ≠ modExpPow2 g x N then k ||| (N >>> 3) else k),
             (if modExpPow2 galoisGen k N ≠ modExpPow2 g x N then k ||| (N >>> 3) else k), x)
           else
            (none, (if modExpPow2 galoisGen k N ≠ modExpPow2 g x N then k ||| (N >>> 3) else k) >>> 1,
             x >>> 1)) := by
      simp only [dlogBody]
      rw [hk]
      simp only [shr_one, decide_eq_true_eq]
    rw [hb]
    by_cases hx : x = 1
    · rw [if_pos hx, loopWhile_of_false _ _ _ _ (by rfl)]
      simp [hx]
    · rw [if_neg hx, ih]
      simp [hx]

/-- **`SolveDiscreteLogGaloisElement`, regenerated = model**, every fuel (the model's fuel is 64). -/
theorem Solve_eq (fuel N g : Nat) (h0 : 0 < N) (hW : N ≤ W) :
    Gen.SolveDiscreteLogGaloisElement fuel N g = dlogLoop N g fuel (N >>> 3) 0 := by
  rw [Solve_unfold, shr_three]; exact dlog_loop N g h0 hW fuel 0 (N >>> 3)

theorem Solve64_eq (N g : Nat) (h0 : 0 < N) (hW : N ≤ W) :
    Gen.SolveDiscreteLogGaloisElement 64 N g = solveDiscreteLog N g := Solve_eq 64 N g h0 hW

/-- once `x = 0` the Go loop never returns. -/
theorem dlogLoop_zero (N g : Nat) : ∀ fuel k, dlogLoop N g fuel 0 k = none := by
  intro fuel
  induction fuel with
  | zero => intro k; rfl
  | succ f ih => intro k; rw [dlogLoop]; simp [ih]

/-- the explicit fuel: `x` is a 64-bit word shifted right once per iteration, so what has not
    returned within `n` iterations (`x < 2^n`) never returns. -/
theorem dlogLoop_fuel (N g : Nat) : ∀ n x k, x < 2 ^ n → ∀ m, n ≤ m →
    dlogLoop N g m x k = dlogLoop N g n x k := by
  intro n
  induction n with
  | zero =>
    intro x k hx m _
    have : x = 0 := by simpa using hx
    subst this
    rw [dlogLoop_zero, dlogLoop_zero]
  | succ n ih =>
    intro x k hx m hm
    obtain ⟨m', rfl⟩ : ∃ m', m = m' + 1 := ⟨m - 1, by omega⟩
    rw [dlogLoop, dlogLoop]
    by_cases h1 : x = 1
    · simp [h1]
    · simp only [if_neg h1]
      apply ih
      · rw [Nat.shiftRight_eq_div_pow]; rw [Nat.pow_succ] at hx; omega
      · omega

/-- every fuel `≥ 64` gives the result of fuel 64 (in particular `none` = the Go loop diverges). -/
theorem Solve_fuel (N g : Nat) (h0 : 0 < N) (hW : N ≤ W) (m : Nat) (hm : 64 ≤ m) :
    Gen.SolveDiscreteLogGaloisElement m N g = Gen.SolveDiscreteLogGaloisElement 64 N g := by
  rw [Solve_eq m N g h0 hW, Solve_eq 64 N g h0 hW]
  apply dlogLoop_fuel N g 64 _ _ _ m hm
  rw [Nat.shiftRight_eq_div_pow]
  unfold W at hW
  omega

/-- the `int` the driver prints: the result word read as a Go `int`. -/
theorem solveDiscreteLog_gen_eq (N g : Nat) (h0 : 0 < N) (hW : N ≤ W) :
    Model.GaloisGen.solveDiscreteLog N g = (solveDiscreteLog N g).map i64toInt := by
  unfold Model.GaloisGen.solveDiscreteLog Model.GaloisGen.dlogFuel
  rw [Solve64_eq N g h0 hW]

end Lattigo.Proofs.GenGalois
