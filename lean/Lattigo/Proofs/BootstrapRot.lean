/-
  C18 — helper rotations (`dft.MatrixLiteral.GaloisElements`) versus the rotations the BSGS
  evaluation of the DFT matrices requests (`lintrans` evaluator), for every matrix literal.
-/
import Lattigo.Proofs.BootstrapIndex

namespace Lattigo.Proofs.Bootstrap
open Lattigo.Model.Bootstrap

/-! ### arithmetic of the baby/giant split -/

theorem giant_eq {cols n1 d : Nat} (h : d < cols) : bsgsGiant cols n1 d = d / n1 * n1 := by
  unfold bsgsGiant
  rw [Nat.mod_eq_of_lt h, Nat.mod_eq_of_lt (lt_of_le_of_lt (Nat.div_mul_le_self d n1) h)]

theorem baby_eq {cols n1 d : Nat} (h : d < cols) : bsgsBaby cols n1 d = d % n1 := by
  unfold bsgsBaby
  rw [Nat.mod_eq_of_lt h]

theorem mem_nz {x : Nat} {l : List Nat} : x ∈ nz l ↔ x ∈ l ∧ x ≠ 0 := by
  unfold nz; simp

/-- rotations of the BSGS evaluation of the diagonals `D` with inner loop size `n1`:
    the non-zero giant steps `(d / n1) * n1` and the non-zero baby steps `d % n1`. -/
def splitRots (D : List Nat) (n1 : Nat) : List Nat := nz (D.flatMap fun j => [j / n1 * n1, j % n1])

theorem mem_splitRots {D : List Nat} {n1 x : Nat} :
    x ∈ splitRots D n1 ↔ x ≠ 0 ∧ ∃ d ∈ D, x = d / n1 * n1 ∨ x = d % n1 := by
  unfold splitRots
  rw [mem_nz]
  simp only [List.mem_flatMap, List.mem_cons, List.not_mem_nil, or_false]
  exact and_comm

/-- the keys of `Vec` are the diagonals themselves -/
theorem mem_ltVecKeys {D : List Nat} {cols n1 : Nat} (hb : ∀ d ∈ D, d < cols) {y : Nat} :
    y ∈ ltVecKeys D cols n1 ↔ y ∈ D := by
  unfold ltVecKeys
  simp only [mem_dedupL, List.mem_map]
  constructor
  · rintro ⟨d, hd, rfl⟩
    rw [giant_eq (hb d hd), baby_eq (hb d hd), Nat.div_add_mod']
    exact hd
  · intro hy
    exact ⟨y, hy, by rw [giant_eq (hb y hy), baby_eq (hb y hy), Nat.div_add_mod']⟩

/-- EVALUATOR: what one BSGS linear transformation requests -/
theorem mem_ltRequested {D : List Nat} {cols bsgs : Nat} (hb : ∀ d ∈ D, d < cols) {x : Nat} :
    x ∈ ltRequested D cols bsgs ↔ x ∈ splitRots D (findBestBSGSRatio D cols bsgs) := by
  unfold ltRequested
  simp only [List.mem_append, mem_nz, bsgsBabies, bsgsGiants, mem_dedupL, List.mem_map, mem_splitRots]
  constructor
  · rintro (⟨⟨y, hy, rfl⟩, hx⟩ | ⟨⟨y, hy, rfl⟩, hx⟩)
    · have hyD := (mem_ltVecKeys hb).mp hy
      rw [baby_eq (hb y hyD)] at hx ⊢
      exact ⟨hx, y, hyD, Or.inr rfl⟩
    · have hyD := (mem_ltVecKeys hb).mp hy
      rw [giant_eq (hb y hyD)] at hx ⊢
      exact ⟨hx, y, hyD, Or.inl rfl⟩
  · rintro ⟨hx, d, hd, rfl | rfl⟩
    · right
      refine ⟨⟨d, (mem_ltVecKeys hb).mpr hd, giant_eq (hb d hd)⟩, hx⟩
    · left
      refine ⟨⟨d, (mem_ltVecKeys hb).mpr hd, baby_eq (hb d hd)⟩, hx⟩

/-- HELPER: a matrix with at least three diagonals -/
theorem mem_addMatrixRot_wide {D : List Nat} {n1 slots : Nat} {rf : Bool} (hw : 3 ≤ D.length)
    (hb : ∀ d ∈ D, d < (if rf then 2 * slots else slots)) {x : Nat} :
    x ∈ addMatrixRot D n1 slots rf ↔ x ∈ splitRots D n1 := by
  unfold addMatrixRot
  rw [if_neg (by omega), mem_nz, mem_splitRots]
  simp only [List.mem_flatMap, List.mem_cons, List.not_mem_nil, or_false]
  constructor
  · rintro ⟨⟨d, hd, h⟩, hx⟩
    refine ⟨hx, d, hd, ?_⟩
    rwa [Nat.mod_eq_of_lt (lt_of_le_of_lt (Nat.div_mul_le_self d n1) (hb d hd))] at h
  · rintro ⟨hx, d, hd, h⟩
    refine ⟨⟨d, hd, ?_⟩, hx⟩
    rwa [Nat.mod_eq_of_lt (lt_of_le_of_lt (Nat.div_mul_le_self d n1) (hb d hd))]

theorem mem_addMatrixRot_narrow {D : List Nat} {n1 slots : Nat} {rf : Bool} (hn : D.length < 3) {x : Nat} :
    x ∈ addMatrixRot D n1 slots rf ↔ x ∈ D ∧ x ≠ 0 := by
  unfold addMatrixRot
  rw [if_pos hn, mem_nz]

/-! ### `FindBestBSGSRatio` returns a power of two (or the impossible 0) -/

theorem findBestLoop_pow (D : List Nat) (maxN ratio : Nat) : ∀ (fuel j : Nat),
    findBestLoop D maxN ratio fuel (2 ^ j) = 0 ∨ ∃ k, findBestLoop D maxN ratio fuel (2 ^ j) = 2 ^ k
  | 0, _ => Or.inr ⟨0, by simp [findBestLoop]⟩
  | fuel + 1, j => by
    unfold findBestLoop
    by_cases h1 : 2 ^ j < maxN
    · simp only [h1, if_true]
      split
      · exact Or.inr ⟨j, rfl⟩
      · split
        · cases j with
          | zero => left; simp
          | succ j' => right; exact ⟨j', by rw [Nat.pow_succ]; omega⟩
        · have := findBestLoop_pow D maxN ratio fuel (j + 1)
          rwa [Nat.pow_succ, Nat.mul_comm] at this
    · simp only [h1, if_false]
      exact Or.inr ⟨0, rfl⟩

theorem findBest_pow (D : List Nat) (maxN l : Nat) :
    findBestBSGSRatio D maxN l = 0 ∨ ∃ k, findBestBSGSRatio D maxN l = 2 ^ k := by
  unfold findBestBSGSRatio
  simpa using findBestLoop_pow D maxN (2 ^ l) maxN 0

/-- split of a power of two by a power of two (or by 0) -/
theorem pow_split {e n1 : Nat} (hn : n1 = 0 ∨ ∃ k, n1 = 2 ^ k) :
    (2 ^ e / n1 * n1 = 2 ^ e ∧ 2 ^ e % n1 = 0) ∨ (2 ^ e / n1 * n1 = 0 ∧ 2 ^ e % n1 = 2 ^ e) := by
  rcases hn with rfl | ⟨k, rfl⟩
  · right; simp
  · by_cases h : k ≤ e
    · left
      have hd : 2 ^ k ∣ 2 ^ e := Nat.pow_dvd_pow 2 h
      exact ⟨Nat.div_mul_cancel hd, Nat.mod_eq_zero_of_dvd hd⟩
    · right
      have hlt : 2 ^ e < 2 ^ k := Nat.pow_lt_pow_right (by omega) (by omega)
      rw [Nat.div_eq_of_lt hlt, Nat.mod_eq_of_lt hlt]; simp

/-- a matrix whose diagonals are `0` and one power of two: the BSGS evaluation rotates by exactly
    that power of two -/
theorem split_narrow {D : List Nat} {e n1 : Nat} (hD : ∀ x ∈ D, x = 0 ∨ x = 2 ^ e)
    (hn : n1 = 0 ∨ ∃ k, n1 = 2 ^ k) :
    (∀ x ∈ splitRots D n1, x ∈ D) ∧ (∀ x ∈ D, x = 0 ∨ x ∈ splitRots D n1) := by
  have hp := two_pow_pos' e
  constructor
  · intro x hx
    obtain ⟨hx0, d, hd, h⟩ := mem_splitRots.mp hx
    rcases hD d hd with rfl | rfl
    · rcases h with rfl | rfl <;> simp at hx0
    · rcases pow_split (e := e) hn with ⟨h1, h2⟩ | ⟨h1, h2⟩ <;> rcases h with rfl | rfl
      · rw [h1]; exact hd
      · rw [h2] at hx0; exact absurd rfl hx0
      · rw [h1] at hx0; exact absurd rfl hx0
      · rw [h2]; exact hd
  · intro x hx
    rcases hD x hx with rfl | rfl
    · exact Or.inl rfl
    · right
      refine mem_splitRots.mpr ⟨hp.ne', 2 ^ e, hx, ?_⟩
      rcases pow_split (e := e) hn with ⟨h1, _⟩ | ⟨_, h2⟩
      · exact Or.inl h1.symm
      · exact Or.inr h2.symm

/-! ### one matrix: helper versus evaluator -/

theorem factor_rots {D : List Nat} {cols slots bsgs : Nat} {rf : Bool}
    (hb : ∀ d ∈ D, d < (if rf then 2 * slots else slots))
    (hmc : (if rf then 2 * slots else slots) ≤ cols)
    (hnarrow : D.length < 3 → ∃ e, ∀ x ∈ D, x = 0 ∨ x = 2 ^ e) (x : Nat) :
    x ∈ ltRequested D cols bsgs ↔ x ∈ addMatrixRot D (findBestBSGSRatio D cols bsgs) slots rf := by
  have hbc : ∀ d ∈ D, d < cols := fun d hd => lt_of_lt_of_le (hb d hd) hmc
  rw [mem_ltRequested hbc]
  by_cases hw : 3 ≤ D.length
  · rw [mem_addMatrixRot_wide hw hb]
  · have hn : D.length < 3 := by omega
    obtain ⟨e, he⟩ := hnarrow hn
    obtain ⟨s1, s2⟩ := split_narrow he (findBest_pow D cols bsgs)
    rw [mem_addMatrixRot_narrow hn]
    constructor
    · intro hx
      exact ⟨s1 x hx, (mem_splitRots.mp hx).1⟩
    · rintro ⟨hx, hx0⟩
      rcases s2 x hx with h | h
      · exact absurd h hx0
      · exact h

/-! ### all matrices of a literal -/

/-- EVALUATOR over a list of index sets -/
def reqOver (d : MatLit) (logN : Nat) (fs : List (List Nat)) : List Nat :=
  fs.flatMap fun D => ltRequested D (d.dslots logN) d.logBSGS

theorem loop_rots (d : MatLit) (logN : Nat) :
    ∀ (ms : List Nat) (first : Bool) (level : Nat), ms.sum ≤ level → (∀ m ∈ ms, 1 ≤ m) → level ≤ d.logSlots →
      let sf := (decide (d.logSlots < logN - 1) && !d.encode && d.repack)
      let fs := indexLoop d sf first level ms
      ∀ x, x ∈ reqOver d logN fs ↔ x ∈ helperGo d logN fs first
  | [], _, _, _, _, _ => by
    intro sf fs
    simp [fs, indexLoop, reqOver, helperGo]
  | m :: ms, first, level, hsum, hpos, hle => by
    intro sf fs
    have hm : 1 ≤ m := hpos m (List.mem_cons_self ..)
    have hsum' : ms.sum + m ≤ level := by simpa [List.sum_cons, Nat.add_comm] using hsum
    have ih := loop_rots d logN ms false (level - m) (by omega)
      (fun x hx => hpos x (List.mem_cons_of_mem _ hx)) (by omega)
    -- the helper's `repack` flag is the `special` flag of the index computation
    have hflag : (!d.encode && decide (d.logSlots < logN - 1) && first && d.repack) = (first && sf) := by
      simp only [sf]
      cases d.encode <;> cases first <;> cases d.repack <;> cases decide (d.logSlots < logN - 1) <;> rfl
    set D := factorIndex d (first && sf) level m with hD
    have hfs : fs = D :: indexLoop d sf false (level - m) ms := by simp [fs, indexLoop, hD]
    have hb : ∀ x ∈ D, x < (if (first && sf) = true then 2 * 2 ^ d.logSlots else 2 ^ d.logSlots) := by
      have := factorIndex_lt d (first && sf) m (by omega : 1 ≤ level) hle
      simpa [factorBound] using this
    have hmc : (if (first && sf) = true then 2 * 2 ^ d.logSlots else 2 ^ d.logSlots) ≤ d.dslots logN := by
      unfold MatLit.dslots MatLit.sparseRepack
      by_cases hs : (first && sf) = true
      · have h1 : decide (d.logSlots < logN - 1) = true ∧ d.repack = true := by
          simp only [sf, Bool.and_eq_true] at hs
          exact ⟨hs.2.1.1, hs.2.2⟩
        simp [hs, h1.1, h1.2]
      · rw [if_neg hs]
        split
        · omega
        · exact le_rfl
    have f := factor_rots (D := D) (cols := d.dslots logN) (slots := 2 ^ d.logSlots) (bsgs := d.logBSGS)
      (rf := (first && sf)) hb hmc (factorIndex_narrow d _ level m)
    rw [hfs]
    intro x
    simp only [reqOver, List.flatMap_cons, List.mem_append, helperGo, hflag]
    rw [f x]
    have := ih x
    simp only [reqOver] at this
    rw [this]

/-- HELPER = EVALUATOR ∪ {the sparse repacking rotation of CoeffsToSlots} for one DFT -/
theorem mem_helperRotations (d : MatLit) (logN : Nat) (hv : d.valid) (x : Nat) :
    x ∈ helperRotations d logN ↔
      x ∈ dftRequested d logN ∨ (x = 2 ^ d.logSlots ∧ d.sparseRepack logN = true ∧ d.encode = true) := by
  unfold helperRotations dftRequested
  rw [mem_dedupL, List.mem_append, genMatricesIndex_eq, dslots_eq]
  have h := loop_rots d logN (mergeSched d) true d.logSlots (mergeSched_sum d) (mergeSched_pos d hv) le_rfl x
  simp only [reqOver] at h
  unfold computeIndexMap
  rw [← h]
  constructor
  · rintro (hx | hx)
    · right
      split at hx
      · rename_i hc
        simp only [Bool.and_eq_true] at hc
        simp only [List.mem_cons, List.not_mem_nil, or_false] at hx
        exact ⟨hx, hc.1, hc.2⟩
      · simp at hx
    · exact Or.inl hx
  · rintro (hx | ⟨rfl, h1, h2⟩)
    · exact Or.inr hx
    · left
      simp [h1, h2]

end Lattigo.Proofs.Bootstrap
