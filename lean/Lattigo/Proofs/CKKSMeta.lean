/-
  Metadata specification of every `ckks.Evaluator` operation of `Lattigo.CKKS` (decision logic over
  the model), plus the closed-form witnesses of the bookkeeping defects.
-/
import Lattigo.Model.CKKS
import Mathlib.Tactic.Ring
import Mathlib.Tactic.Linarith

namespace Lattigo.CKKS

/-! ## Add / Sub -/

theorem addElt_meta {P : Params} {sub : Bool} {a b o : Meta} {r : Res}
    (h : addElt P sub a b o = .ok r) :
    r.md.level = min (min a.level b.level) o.level ∧
    r.md.degree = max a.degree b.degree ∧
    r.md.scale = a.scale.max b.scale ∧
    r.md.logSlots = max a.logSlots b.logSlots := by
  unfold addElt at h
  split at h
  · cases h
  · cases h; exact ⟨rfl, rfl, rfl, rfl⟩

/-- the alignment multipliers `(k0, k1)`: the operand with the smaller scale is multiplied by the integer
    part of the (128-bit rounded) quotient of the scales, the other one by `1`. -/
def alignMult (P : Params) (a b : Meta) : Int × Int :=
  match a.scale.cmp b.scale with
  | .gt => (1, bigIntConst P (sdiv a.scale b.scale).toNat)
  | .lt => (bigIntConst P (sdiv b.scale a.scale).toNat, 1)
  | .eq => (1, 1)

/-- **per-component effect of Add/Sub**: component `i` of the result is
    `k0·op0.c_i ± k1·op1.c_i` up to the smaller degree and the *scale-matched* operand of higher degree
    alone above it (`k0·op0.c_i`, resp. `±k1·op1.c_i`); nothing of the receiver survives. -/
theorem addElt_eff {P : Params} {sub : Bool} {a b o : Meta} {r : Res}
    (h : addElt P sub a b o = .ok r) :
    r.eff = perComp (max a.degree b.degree) (fun i =>
      if i ≤ min a.degree b.degree then
        [centerMod (alignMult P a b).1 (P.bigQ r.md.level), centerMod (sgn sub (alignMult P a b).2) (P.bigQ r.md.level), 0]
      else if b.degree < a.degree then [centerMod (alignMult P a b).1 (P.bigQ r.md.level), 0, 0]
      else [0, centerMod (sgn sub (alignMult P a b).2) (P.bigQ r.md.level), 0]) := by
  unfold addElt at h
  split at h
  · cases h
  · cases h
    unfold alignMult
    cases hc : a.scale.cmp b.scale <;> simp

theorem addElt_err_iff {P : Params} {sub : Bool} {a b o : Meta} :
    (∃ e, addElt P sub a b o = .error e) ↔ a.degree + b.degree = 0 := by
  unfold addElt
  constructor
  · rintro ⟨e, h⟩
    split at h
    · assumption
    · cases h
  · intro h; exact ⟨.err, by simp [h]⟩

/-- `Add/Sub` with a scalar: the result is recorded at the operand's scale, whatever the receiver. -/
theorem addScalar_meta {P : Params} {sub : Bool} {a o : Meta} {re im : SD} {r : Res}
    (h : addScalar P sub a o re im = .ok r) :
    r.md.level = min a.level o.level ∧ r.md.degree = a.degree ∧ r.md.scale = a.scale ∧
    r.md.logSlots = a.logSlots := by
  unfold addScalar at h
  cases h; exact ⟨rfl, rfl, rfl, rfl⟩

/-- in place (`opOut == op0`) the scale is the operand's, as documented. -/
theorem addScalar_inplace {P : Params} {sub : Bool} {a : Meta} {re im : SD} {r : Res}
    (h : addScalar P sub a a re im = .ok r) : r.md = a := by
  unfold addScalar at h
  cases h; cases a; simp

theorem addVec_meta {P : Params} {a o : Meta} {len : Nat} {r : Res}
    (h : addVec P a o len = .ok r) :
    r.md = ⟨min a.level o.level, a.degree, a.scale, a.logSlots⟩ ∧ len ≤ 2 ^ a.logSlots := by
  unfold addVec at h
  split at h
  · cases h
  · cases h
    rename_i hok
    simp [encodeOk] at hok
    exact ⟨rfl, hok.2⟩

/-! ## Mul -/

theorem mulElt_meta {P : Params} {relin : Bool} {a b o : Meta} {r : Res}
    (h : mulElt P relin a b o = .ok r) :
    r.md.level = min (min a.level b.level) o.level ∧
    r.md.scale = smul a.scale b.scale ∧
    r.md.logSlots = max a.logSlots b.logSlots ∧
    r.md.degree = (if a.degree = 1 ∧ b.degree = 1 then (if relin then 1 else 2)
                   else max a.degree b.degree) ∧
    0 < a.degree + b.degree ∧ a.degree + b.degree ≤ 2 := by
  unfold mulElt at h
  split at h
  · cases h
  · split at h
    · cases h
    · rename_i h0 h2
      split at h
      · rename_i h11
        split at h
        · rename_i hr
          split at h
          · cases h; simp [h11, hr]
          · cases h
        · rename_i hr
          cases h; simp [h11, hr]
      · rename_i h11
        cases h; simp [h11]; omega

/-- the constant scaling factor is `1` for Gaussian integers and the product of the `lcpr` current
    primes otherwise. -/
theorem mulScalar_meta {P : Params} {a o : Meta} {re im : SD} {r : Res}
    (h : mulScalar P a o re im = .ok r) :
    ∃ s, scalarScale P (min a.level o.level) re im = .ok s ∧
      r.md = ⟨min a.level o.level, a.degree, smul a.scale s, a.logSlots⟩ ∧
      r.eff = perComp a.degree (fun _ => [centerMod (consts P re im s).1 (P.bigQ (min a.level o.level)),
               centerMod (consts P re im s).2 (P.bigQ (min a.level o.level))]) := by
  unfold mulScalar at h
  cases hs : scalarScale P (min a.level o.level) re im with
  | error e => simp [hs, bind, Except.bind] at h
  | ok s =>
    simp [hs, bind, Except.bind] at h
    exact ⟨s, rfl, by cases h; exact ⟨rfl, rfl⟩⟩

theorem scalarScale_int {P : Params} {level : Nat} {re im : SD}
    (h : (re.round P.prec).isInt = true ∧ (im.round P.prec).isInt = true) :
    scalarScale P level re im = .ok Dy.one := by
  unfold scalarScale; simp [h.1, h.2]

theorem primeScale_one {P : Params} {level : Nat} (h : P.lcpr = 1) :
    primeScale P level = .ok (Dy.ofNat (P.q level)) := by
  unfold primeScale
  simp [h, List.range_succ]

theorem primeScale_two {P : Params} {level : Nat} (h : P.lcpr = 2) (hl : 1 ≤ level) :
    primeScale P level = .ok (smul (Dy.ofNat (P.q level)) (Dy.ofNat (P.q (level - 1)))) := by
  unfold primeScale
  have : ¬ (level + 1 < 2) := by omega
  simp [h, this, List.range_succ]

/-- two primes per rescale at level 0: a documented error (no panic). -/
theorem primeScale_low_level {P : Params} (h : P.lcpr = 2) : primeScale P 0 = .error .err := by
  unfold primeScale; simp [h]

/-! ## Rescale -/

theorem rescale_meta {P : Params} {a : Meta} {r : Res} (h : rescale P a = .ok r) :
    P.lcpr ≤ a.level ∧
    r.md.level = a.level - P.lcpr ∧ r.md.degree = a.degree ∧ r.md.logSlots = a.logSlots ∧
    r.md.scale = (List.range P.lcpr).foldl (fun s i => sdiv s (Dy.ofNat (P.q (a.level - i)))) a.scale := by
  unfold rescale at h
  split at h
  · cases h
  · cases h; refine ⟨by omega, rfl, rfl, rfl, rfl⟩

/-- one prime per rescale: the new scale is the old one divided by `q_level`, rounded to 128 bits. -/
theorem rescale_scale_one {P : Params} {a : Meta} {r : Res} (h1 : P.lcpr = 1)
    (h : rescale P a = .ok r) :
    r.md.level + 1 = a.level ∧ r.md.scale = sdiv a.scale (Dy.ofNat (P.q a.level)) := by
  obtain ⟨hl, hlev, -, -, hs⟩ := rescale_meta h
  rw [h1] at hl hlev hs
  simp [List.range_succ] at hs
  exact ⟨by omega, hs⟩

/-- two primes per rescale (PREC128): divided by `q_level` then by `q_{level-1}`, each rounded. -/
theorem rescale_scale_two {P : Params} {a : Meta} {r : Res} (h2 : P.lcpr = 2)
    (h : rescale P a = .ok r) :
    r.md.level + 2 = a.level ∧
    r.md.scale = sdiv (sdiv a.scale (Dy.ofNat (P.q a.level))) (Dy.ofNat (P.q (a.level - 1))) := by
  obtain ⟨hl, hlev, -, -, hs⟩ := rescale_meta h
  rw [h2] at hl hlev hs
  simp [List.range_succ] at hs
  exact ⟨by omega, hs⟩

theorem rescale_err_iff {P : Params} {a : Meta} :
    (∃ e, rescale P a = .error e) ↔ a.level < P.lcpr := by
  unfold rescale
  constructor
  · rintro ⟨e, h⟩
    split at h
    · omega
    · cases h
  · intro h
    have : a.level + 1 ≤ P.lcpr := by omega
    exact ⟨.err, by simp [this]⟩

theorem levelsConsumed_one_or_two (d : Dy) : levelsConsumed d = 1 ∨ levelsConsumed d = 2 := by
  unfold levelsConsumed
  dsimp only
  split <;> simp

/-- the loop of `RescaleTo` never increases the count beyond the number of primes offered and the
    count plus the remaining primes is constant. -/
theorem rescaleToLoop_le (P : Params) (mh : Dy) : ∀ (n nb : Nat) (cur : Dy),
    (rescaleToLoop P mh n nb cur).1 ≤ nb + n ∧ nb ≤ (rescaleToLoop P mh n nb cur).1
  | 0, nb, cur => by simp [rescaleToLoop]
  | n + 1, nb, cur => by
    unfold rescaleToLoop
    simp only
    split
    · simp
    · have := rescaleToLoop_le P mh n (nb + 1) (sdiv cur (Dy.ofNat (P.q (n + 1))))
      omega

theorem rescaleTo_meta {P : Params} {a : Meta} {m : Dy} {r : Res} (h : rescaleTo P a m = .ok r) :
    r.md.level ≤ a.level ∧ r.md.degree = a.degree ∧ r.md.logSlots = a.logSlots ∧
    r.eff = [((a.level - r.md.level : Nat) : Int)] ∧ 0 < a.level := by
  unfold rescaleTo at h
  split at h
  · cases h
  · split at h
    · cases h
    · split at h
      · cases h
      · rename_i hl
        have hle := (rescaleToLoop_le P (sdiv m (Dy.ofNat 2)) a.level 0 a.scale).1
        simp only at h
        cases h
        refine ⟨by simp, rfl, rfl, ?_, by omega⟩
        simp only [List.cons.injEq, and_true]
        congr 1
        omega

/-- `RescaleTo` never fails on a ciphertext of level ≥ 1 with positive scales: the panic of the original
    loop (`newLevel >= 0`) is gone. -/
theorem rescaleTo_total {P : Params} {a : Meta} {m : Dy} (hm : m.m ≠ 0) (hs : a.scale.m ≠ 0) (hl : a.level ≠ 0) :
    ∃ r, rescaleTo P a m = .ok r := by
  unfold rescaleTo
  simp [hm, hs, hl]

/-! ## SetScale, ScaleUp, DropLevel -/

/-- `SetScale` always records the target scale … -/
theorem setScale_scale {P : Params} {a : Meta} {t : Dy} {r : Res} (h : setScale P a t = .ok r) :
    r.md.scale = t := by
  unfold setScale at h
  simp only [bind, Except.bind] at h
  split at h
  · cases h
  · split at h
    · cases h
    · cases h; rfl

theorem scaleUp_meta {P : Params} {a o : Meta} {s : Dy} {r : Res} (h : scaleUp P a o s = .ok r) :
    r.md = ⟨min a.level o.level, a.degree, smul a.scale s, a.logSlots⟩ ∧
    r.eff = perComp a.degree (fun _ => [centerMod (bigIntConst P s.toU64) (P.bigQ (min a.level o.level))]) := by
  unfold scaleUp at h; cases h; exact ⟨rfl, rfl⟩

theorem dropLevel_meta {a : Meta} {n : Nat} {r : Res} (h : dropLevel a n = .ok r) :
    n ≤ a.level ∧ r.md = { a with level := a.level - n } := by
  unfold dropLevel at h
  split at h
  · cases h
  · cases h; exact ⟨by omega, rfl⟩

/-! ## Rotate, Conjugate, Relinearize -/

theorem automorphism_meta {P : Params} {g : Nat} {a o : Meta} {r : Res}
    (h : automorphism P g a o = .ok r) :
    a.degree = 1 ∧ o.degree = 1 ∧ r.md.scale = a.scale ∧ r.md.degree = 1 ∧ r.md.logSlots = a.logSlots ∧
    r.md.level = (if g = 1 then a.level else min a.level o.level) ∧
    (g ≠ 1 → P.galEls.contains g = true) := by
  unfold automorphism at h
  split at h
  · cases h
  · rename_i hd
    have hd' : a.degree = 1 ∧ o.degree = 1 := by omega
    split at h
    · rename_i hg
      cases h; simp [hg, hd'.1, hd'.2]
    · rename_i hg
      split at h
      · cases h
      · rename_i hk
        cases h
        simp [hg, hd'.1, hd'.2]
        simpa using hk

theorem conjugate_ci {P : Params} {a o : Meta} (h : P.conjInv = true) :
    conjugate P a o = .error .err := by
  unfold conjugate; simp [h]

theorem relinearize_meta {P : Params} {a o : Meta} {r : Res} (h : relinearize P a o = .ok r) :
    a.degree = 2 ∧ P.hasRlk = true ∧
    r.md = { a with level := min a.level o.level, degree := 1 } := by
  unfold relinearize at h
  split at h
  · cases h
  · split at h
    · cases h
    · rename_i h2 hk
      cases h
      exact ⟨by omega, by simpa using hk, rfl⟩

/-! ## MulThenAdd -/

/-- `MulThenAdd` with a scalar: evaluated at the minimum level, the receiver keeps its own
    higher-degree terms, and the receiver must not be the operand. -/
theorem mulThenAddScalar_meta {P : Params} {al : Alias} {a o : Meta} {re im : SD} {r : Res}
    (h : mulThenAddScalar P al a o re im = .ok r) :
    al = .fresh ∧ r.md.level = min a.level o.level ∧ r.md.degree = max a.degree o.degree ∧
    r.md.logSlots = a.logSlots ∧ a.scale.cmp o.scale ≠ .gt := by
  unfold mulThenAddScalar at h
  simp only [bind, Except.bind] at h
  split at h
  · cases h
  · rename_i hal
    split at h
    · cases h
    · rename_i v hv
      cases h
      refine ⟨by simpa using hal, rfl, rfl, rfl, ?_⟩
      intro hgt
      unfold mtaScale at hv
      simp [hgt] at hv

theorem mtaEltScale_scale {P : Params} {level : Nat} {a b o : Meta} {v : Int × Dy}
    (h : mtaEltScale P level a b o = .ok v) : v.2 = o.scale ∨ v.2 = smul a.scale b.scale := by
  unfold mtaEltScale at h
  simp only [bind, Except.bind, pure, Except.pure] at h
  repeat' split at h
  all_goals first
    | (cases h; first | exact Or.inl rfl | exact Or.inr rfl)
    | cases h

theorem mulThenAddElt_meta {P : Params} {relin : Bool} {al : Alias} {a b o : Meta} {r : Res}
    (h : mulThenAddElt P relin al a b o = .ok r) :
    al = .fresh ∧ 0 < a.degree + b.degree ∧ a.degree + b.degree ≤ 2 ∧
    r.md.level = min (min a.level b.level) o.level ∧
    r.md.logSlots = max a.logSlots b.logSlots ∧
    (r.md.scale = o.scale ∨ r.md.scale = smul a.scale b.scale) := by
  unfold mulThenAddElt at h
  simp only [bind, Except.bind] at h
  repeat' split at h
  all_goals first
    | (cases h
       refine ⟨?_, by omega, by omega, rfl, rfl, ?_⟩
       · simpa using ‹¬(al != Alias.fresh) = true›
       · exact mtaEltScale_scale ‹_›)
    | cases h

end Lattigo.CKKS
