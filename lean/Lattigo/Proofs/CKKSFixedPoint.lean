/-
  Error of the fixed-point conversion **as the code performs it** (`Lattigo.CKKS.fixedPoint`, the
  function the driver executes for `bigComplexToRNSScalar`, `ComplexArbitraryToFixedPointCRT`,
  `BigFloatToFixedPointCRT` and — with `P = 53` — `SingleFloat64ToFixedPointCRT`):
  rounding error `1/2` of the conversion plus the floating-point error of the working precision `P`.
-/
import Lattigo.Proofs.CKKSDyadic

namespace Lattigo.CKKS

theorem Dy.val_nonneg (d : Dy) : 0 ≤ d.val := by unfold Dy.val; positivity

theorem Dy.val_pos_iff (d : Dy) : 0 < d.val ↔ 0 < d.m := by
  unfold Dy.val
  have h2 : (0 : ℚ) < (2 : ℚ) ^ d.e := zpow_pos (by norm_num) _
  constructor
  · intro h
    by_contra hm
    have : d.m = 0 := by omega
    rw [this] at h; simp at h
  · intro h
    have : (0 : ℚ) < (d.m : ℚ) := by exact_mod_cast h
    positivity

/-- `addHalf t = t + 1/2` exactly. -/
theorem addHalf_val (t : Dy) : (addHalf t).val = t.val + 1 / 2 := by
  unfold addHalf
  have h2 : (2 : ℚ) ≠ 0 := by norm_num
  split
  · rename_i h
    rw [Dy.norm_val]; push_cast
    rw [pow2_cast _ (by omega : 0 ≤ t.e + 1), zpow_add_one₀ h2]
    unfold Dy.val
    rw [show (-1 : ℤ) = -(1 : ℤ) from rfl, zpow_neg, zpow_one]
    ring
  · rename_i h
    rw [Dy.norm_val]; push_cast
    rw [pow2_cast _ (by omega : 0 ≤ -t.e - 1)]
    unfold Dy.val
    have : (2 : ℚ) ^ (-t.e - 1) * (2 : ℚ) ^ t.e = 1 / 2 := by
      rw [← zpow_add₀ h2, show -t.e - 1 + t.e = -(1 : ℤ) by ring, zpow_neg, zpow_one]; norm_num
    rw [add_mul, this]

/-- relative-error form of `roundRat_spec` with a unit denominator. -/
theorem roundRat_one_spec (P m : ℕ) (e : ℤ) (hm : 0 < m) :
    |(roundRat P m 1 e).val - (m : ℚ) * (2 : ℚ) ^ e| ≤ (m : ℚ) * (2 : ℚ) ^ e * (2 : ℚ) ^ (-(P : ℤ)) := by
  have h := roundRat_spec P m 1 e hm (by norm_num)
  simpa using h

/-- **Error of the fixed-point conversion performed with `P`-bit floats.**  For `x ≠ 0` of magnitude
    `|x| = x.mag.val` and scale `Δ = scale.val > 0`, with `ε = 2^-P ≤ 1/2`:
    `| |fixedPoint P x Δ| − |x|·Δ | ≤ 1/2 + 3·ε·(|x|·Δ + 1)`,
    and the sign is the sign of `x`.  Dividing by `Δ`: the decoded value differs from `x` by at most
    `1/(2Δ)` (conversion) `+ 3·2^-P·(|x| + 1/Δ)` (floating point). -/
theorem fixedPoint_error (P : ℕ) (x : SD) (scale : Dy) (hP : 1 ≤ P) (hx : 0 < x.mag.m) (hs : 0 < scale.m) :
    ∃ n : ℕ, fixedPoint P x scale = (if x.neg then -(n : ℤ) else (n : ℤ)) ∧
      |(n : ℚ) - x.mag.val * scale.val| ≤ 1 / 2 + 3 * (2 : ℚ) ^ (-(P : ℤ)) * (x.mag.val * scale.val + 1) := by
  unfold fixedPoint
  rw [if_neg (by omega)]
  simp only
  set t := Dy.mul P x.mag scale with ht
  set h := addHalf t with hh
  set u := roundRat P h.m 1 h.e with hu
  refine ⟨u.toNat, by split <;> rfl, ?_⟩
  set ε : ℚ := (2 : ℚ) ^ (-(P : ℤ)) with hε
  have hε0 : 0 < ε := zpow_pos (by norm_num) _
  have hε1 : ε ≤ 1 / 2 := by
    rw [hε, zpow_neg, zpow_natCast]
    have : (2 : ℚ) ^ 1 ≤ (2 : ℚ) ^ P := pow_le_pow_right₀ (by norm_num) hP
    rw [inv_le_comm₀ (by positivity) (by norm_num)]
    simpa using this
  set v : ℚ := x.mag.val * scale.val with hv
  have hvpos : 0 < v := mul_pos ((Dy.val_pos_iff _).mpr hx) ((Dy.val_pos_iff _).mpr hs)
  -- t ≈ v
  have htspec : |t.val - v| ≤ v * ε := by
    have := roundRat_spec P (x.mag.m * scale.m) 1 (x.mag.e + scale.e) (Nat.mul_pos hx hs) (by norm_num)
    have hv' : ((x.mag.m * scale.m : ℕ) : ℚ) / (1 : ℕ) * (2 : ℚ) ^ (x.mag.e + scale.e) = v := by
      rw [hv]; unfold Dy.val; rw [zpow_add₀ (by norm_num : (2 : ℚ) ≠ 0)]; push_cast; ring
    rw [hv'] at this
    exact this
  have htnn : 0 ≤ t.val := Dy.val_nonneg t
  -- h = t + 1/2 > 0
  have hhval : h.val = t.val + 1 / 2 := addHalf_val t
  have hhpos : 0 < h.m := (Dy.val_pos_iff h).mp (by rw [hhval]; linarith)
  -- u ≈ h
  have huspec : |u.val - h.val| ≤ h.val * ε := by
    have := roundRat_one_spec P h.m h.e hhpos
    unfold Dy.val
    exact this
  have hfl := Dy.toNat_floor u
  rw [abs_le] at htspec huspec ⊢
  obtain ⟨ht1, ht2⟩ := htspec
  obtain ⟨hu1, hu2⟩ := huspec
  rw [hhval] at hu1 hu2
  constructor <;> nlinarith [mul_pos hε0 hvpos, mul_pos hε0 hε0]

end Lattigo.CKKS
