/-
  Error of the fixed-point conversion **as the code performs it** (`Lattigo.CKKS.fixedPoint`, the
  function the driver executes for `bigComplexToRNSScalar`, `ComplexArbitraryToFixedPointCRT`,
  `BigFloatToFixedPointCRT` and — with `P = 53` — `SingleFloat64ToFixedPointCRT`):
  rounding error `1/2` of the conversion plus the floating-point error of the working precision `P`.
-/
import Lattigo.Proofs.CKKSDyadic

namespace Lattigo.CKKS

theorem Dy.val_nonneg (d : Dy) : 0 ≤ d.val := by unfold Dy.val; positivity

theorem Dy.val_pos_iff (d : Dy) : 0 < d.val ↔ 0 < d.m := by
  unfold Dy.val
  have h2 : (0 : ℚ) < (2 : ℚ) ^ d.e := zpow_pos (by norm_num) _
  constructor
  · intro h
    by_contra hm
    have : d.m = 0 := by omega
    rw [this] at h; simp at h
  · intro h
    have : (0 : ℚ) < (d.m : ℚ) := by exact_mod_cast h
    positivity

/-- `addHalf t = t + 1/2` exactly. -/
theorem addHalf_val (t : Dy) : (addHalf t).val = t.val + 1 / 2 := by
  unfold addHalf
  have h2 : (2 : ℚ) ≠ 0 := by norm_num
  split
  · rename_i h
    rw [Dy.norm_val]; push_cast
    rw [pow2_cast _ (by omega : 0 ≤ t.e + 1), zpow_add_one₀ h2]
    unfold Dy.val
    rw [show (-1 : ℤ) = -(1 : ℤ) from rfl, zpow_neg, zpow_one]
    ring
  · rename_i h
    rw [Dy.norm_val]; push_cast
    rw [pow2_cast _ (by omega : 0 ≤ -t.e - 1)]
    unfold Dy.val
    have : (2 : ℚ) ^ (-t.e - 1) * (2 : ℚ) ^ t.e = 1 / 2 := by
      rw [← zpow_add₀ h2, show -t.e - 1 + t.e = -(1 : ℤ) by ring, zpow_neg, zpow_one]; norm_num
    rw [add_mul, this]

/-- relative-error form of `roundRat_spec` with a unit denominator. -/
theorem roundRat_one_spec (P m : ℕ) (e : ℤ) (hm : 0 < m) :
    |(roundRat P m 1 e).val - (m : ℚ) * (2 : ℚ) ^ e| ≤ (m : ℚ) * (2 : ℚ) ^ e * (2 : ℚ) ^ (-(P : ℤ)) := by
  have h := roundRat_spec P m 1 e hm (by norm_num)
  simpa using h

/-- **Error of the fixed-point conversion performed with `P`-bit floats.**  For `x ≠ 0` of magnitude
    `|x| = x.mag.val` and scale `Δ = scale.val > 0`, with `ε = 2^-P ≤ 1/2`:
    `| |fixedPoint P x Δ| − |x|·Δ | ≤ 1/2 + 3·ε·(|x|·Δ + 1)`,
    and the sign is the sign of `x`.  Dividing by `Δ`: the decoded value differs from `x` by at most
    `1/(2Δ)` (conversion) `+ 3·2^-P·(|x| + 1/Δ)` (floating point). -/
theorem fixedPoint_error (P : ℕ) (x : SD) (scale : Dy) (hP : 1 ≤ P) (hx : 0 < x.mag.m) (hs : 0 < scale.m) :
    ∃ n : ℕ, fixedPoint P x scale = (if x.neg then -(n : ℤ) else (n : ℤ)) ∧
      |(n : ℚ) - x.mag.val * scale.val| ≤ 1 / 2 + 3 * (2 : ℚ) ^ (-(P : ℤ)) * (x.mag.val * scale.val + 1) := by
  unfold fixedPoint
  rw [if_neg (by omega)]
  simp only
  set t := Dy.mul P x.mag scale with ht
  set h := addHalf t with hh
  set u := roundRat P h.m 1 h.e with hu
  refine ⟨u.toNat, by split <;> rfl, ?_⟩
  set ε : ℚ := (2 : ℚ) ^ (-(P : ℤ)) with hε
  have hε0 : 0 < ε := zpow_pos (by norm_num) _
  have hε1 : ε ≤ 1 / 2 := by
    rw [hε, zpow_neg, zpow_natCast]
    have : (2 : ℚ) ^ 1 ≤ (2 : ℚ) ^ P := pow_le_pow_right₀ (by norm_num) hP
    rw [inv_le_comm₀ (by positivity) (by norm_num)]
    simpa using this
  set v : ℚ := x.mag.val * scale.val with hv
  have hvpos : 0 < v := mul_pos ((Dy.val_pos_iff _).mpr hx) ((Dy.val_pos_iff _).mpr hs)
  -- t ≈ v
  have htspec : |t.val - v| ≤ v * ε := by
    have := roundRat_spec P (x.mag.m * scale.m) 1 (x.mag.e + scale.e) (Nat.mul_pos hx hs) (by norm_num)
    have hv' : ((x.mag.m * scale.m : ℕ) : ℚ) / (1 : ℕ) * (2 : ℚ) ^ (x.mag.e + scale.e) = v := by
      rw [hv]; unfold Dy.val; rw [zpow_add₀ (by norm_num : (2 : ℚ) ≠ 0)]; push_cast; ring
    rw [hv'] at this
    exact this
  have htnn : 0 ≤ t.val := Dy.val_nonneg t
  -- h = t + 1/2 > 0
  have hhval : h.val = t.val + 1 / 2 := addHalf_val t
  have hhpos : 0 < h.m := (Dy.val_pos_iff h).mp (by rw [hhval]; linarith)
  -- u ≈ h
  have huspec : |u.val - h.val| ≤ h.val * ε := by
    have := roundRat_one_spec P h.m h.e hhpos
    unfold Dy.val
    exact this
  have hfl := Dy.toNat_floor u
  rw [abs_le] at htspec huspec ⊢
  obtain ⟨ht1, ht2⟩ := htspec
  obtain ⟨hu1, hu2⟩ := huspec
  rw [hhval] at hu1 hu2
  constructor <;> nlinarith [mul_pos hε0 hvpos, mul_pos hε0 hε0]

end Lattigo.CKKS

namespace Lattigo.CKKS

/-! ## exactness: when the working precision holds the product, `fixedPoint` IS round-half-away(x·Δ) -/

theorem bitLen_eq_of_bounds (m b : ℕ) (hb : 0 < b) (h1 : 2 ^ (b - 1) ≤ m) (h2 : m < 2 ^ b) : bitLen m = b := by
  have hm : m ≠ 0 := by
    have : 0 < 2 ^ (b - 1) := by positivity
    omega
  unfold bitLen
  rw [if_neg hm]
  have hlo : b - 1 ≤ m.log2 := (Nat.le_log2 hm).mpr h1
  have hhi : m.log2 < b := (Nat.log2_lt hm).mpr h2
  omega

theorem bitLen_mul_pow (n j : ℕ) (hn : n ≠ 0) : bitLen (n * 2 ^ j) = bitLen n + j := by
  have hb := bitLen_bounds n hn
  have hp := bitLen_pos n hn
  apply bitLen_eq_of_bounds
  · omega
  · have : bitLen n + j - 1 = (bitLen n - 1) + j := by omega
    rw [this, pow_add]
    exact Nat.mul_le_mul_right _ hb.1
  · rw [pow_add]
    exact Nat.mul_lt_mul_of_pos_right hb.2 (by positivity)

/-- a number that fits `prec` bits is not changed by `roundRat`. -/
theorem roundRat_exact (prec num : ℕ) (e : ℤ) (hn : 0 < num) (hb : bitLen num ≤ prec) :
    (roundRat prec num 1 e).val = (num : ℚ) * (2 : ℚ) ^ e := by
  have hn0 : num ≠ 0 := hn.ne'
  have hbp := bitLen_pos num hn0
  unfold roundRat
  rw [if_neg hn0]
  simp only []
  have hb1 : bitLen 1 = 1 := by decide
  rw [hb1]
  set k : ℤ := (prec : ℤ) + 1 + ((1 : ℕ) : ℤ) - (bitLen num : ℤ) with hk
  have hk2 : 2 ≤ k := by rw [hk]; push_cast; omega
  have hkn : k = ((k.toNat : ℕ) : ℤ) := (Int.toNat_of_nonneg (by omega)).symm
  have hp2 : pow2 (-k) = 1 := pow2_nonpos _ (by omega)
  have hpk : pow2 k = 2 ^ k.toNat := rfl
  rw [hp2, hpk, Nat.mul_one, Nat.div_one, Nat.mod_one]
  set j := k.toNat with hj
  have hj2 : 2 ≤ j := by omega
  have hbl : bitLen (num * 2 ^ j) = prec + 2 := by
    rw [bitLen_mul_pow num j hn0]
    have : (j : ℤ) = (prec : ℤ) + 2 - (bitLen num : ℤ) := by rw [← hkn, hk]; push_cast; ring
    omega
  rw [hbl, show prec + 2 - prec = 2 by omega]
  have hdiv : num * 2 ^ j = (num * 2 ^ (j - 2)) * 2 ^ 2 := by
    have : j = (j - 2) + 2 := by omega
    conv_lhs => rw [this, pow_add]
    ring
  have hmod : num * 2 ^ j % 2 ^ 2 = 0 := by rw [hdiv]; exact Nat.mul_mod_left _ _
  have hquo : num * 2 ^ j / 2 ^ 2 = num * 2 ^ (j - 2) := by rw [hdiv]; exact Nat.mul_div_cancel _ (by norm_num)
  rw [hmod, hquo]
  simp only [show (2 : ℕ) ^ (2 - 1) = 2 by norm_num, show ¬ (2 < 0) by omega, decide_false, Bool.false_or]
  rw [show ((0 : ℕ) == 2) = false by decide, Bool.false_and]
  simp only [Bool.false_eq_true, if_false]
  rw [Dy.norm_val]
  push_cast
  have h2 : (2 : ℚ) ≠ 0 := by norm_num
  have e1 : (2 : ℚ) ^ (j - 2) = (2 : ℚ) ^ (((j - 2 : ℕ) : ℤ)) := (zpow_natCast _ _).symm
  rw [e1, mul_assoc, ← zpow_add₀ h2]
  congr 2
  have : ((j - 2 : ℕ) : ℤ) = k - 2 := by omega
  rw [this]; ring

/-- **Exact fixed-point conversion.**  If the working precision `P` holds the product `|x|·Δ` and the same plus
    one half (always the case on the `big.Float` paths for `|x·Δ| < 2^(P-1)` with few-bit inputs, and on the float64
    path below `2^52`), the integer written is the round-half-away-from-zero of `x·Δ`:
    `n ≤ |x|·Δ + 1/2 < n + 1` with the sign of `x`. -/
theorem fixedPoint_exact (P : ℕ) (x : SD) (scale : Dy) (hx : 0 < x.mag.m) (hs : 0 < scale.m)
    (h1 : bitLen (x.mag.m * scale.m) ≤ P) (h2 : bitLen (addHalf (Dy.mul P x.mag scale)).m ≤ P) :
    ∃ n : ℕ, fixedPoint P x scale = (if x.neg then -(n : ℤ) else (n : ℤ)) ∧
      (n : ℚ) ≤ x.mag.val * scale.val + 1 / 2 ∧ x.mag.val * scale.val + 1 / 2 < n + 1 := by
  unfold fixedPoint
  rw [if_neg (by omega)]
  simp only
  set t := Dy.mul P x.mag scale with ht
  set h := addHalf t with hh
  set u := roundRat P h.m 1 h.e with hu
  refine ⟨u.toNat, by split <;> rfl, ?_⟩
  have htv : t.val = x.mag.val * scale.val := by
    rw [ht]; unfold Dy.mul
    rw [roundRat_exact P _ _ (Nat.mul_pos hx hs) h1]
    unfold Dy.val; rw [zpow_add₀ (by norm_num : (2 : ℚ) ≠ 0)]; push_cast; ring
  have hhv : h.val = t.val + 1 / 2 := addHalf_val t
  have hhpos : 0 < h.m := (Dy.val_pos_iff h).mp (by rw [hhv]; have := Dy.val_nonneg t; linarith)
  have huv : u.val = h.val := by
    rw [hu, roundRat_exact P h.m h.e hhpos h2]; rfl
  have hfl := Dy.toNat_floor u
  rw [huv, hhv, htv] at hfl
  exact hfl

/-- the float64 conversion with its two branches is `fixedPoint 53`: both branches compute the same value,
    PROVIDED the branch point is where `uint64(value + 0.5)` stops being defined (`2^64`). -/
theorem singleFloat64_eq_fixedPoint_aux (x : SD) (scale : Dy) :
    (if x.mag.m = 0 then (0 : ℤ) else
      let t := Dy.mul 53 x.mag scale
      let u := let h := addHalf t; roundRat 53 h.m 1 h.e
      let mag : Nat := if (Dy.norm 1 64).cmp t != .gt then u.toNat else u.toNat
      if x.neg then - (mag : Int) else (mag : Int)) = fixedPoint 53 x scale := by
  unfold fixedPoint
  split
  · rfl
  · simp

end Lattigo.CKKS
