/-
  Rational-number statements about the HPS correction index (https://eprint.iacr.org/2018/117):

  * `hps_v_rat`, `hpsV_eq_floor` : `(Σ y_i·Q/q_i)/Q = Σ y_i/q_i` and `hpsV = ⌊Σ y_i/q_i⌋`
  * `floor_exact_of_quarter`, `floor_off_by_one` : pure ℚ
  * `modUp_centered_exact` : with the shifted input (`Q/4 ≤ x < 3Q/4`) any approximation `t` of
    `Σ y_i/q_i` within `1/4` floors to the exact `v`
  * `modUp_never_off_by_more_than_one` : any approximation within `1` floors to `v − 1`, `v` or `v + 1`

  The IEEE-754 error of the Go float computation (`vi += float64(y)/float64(q)`) is NOT modelled:
  `t` stands for the float sum as a rational and the bound on `|t − Σ y_i/q_i|` is a hypothesis.
-/
import Mathlib.Algebra.Order.Floor.Semifield
import Mathlib.Data.Rat.Floor
import Mathlib.Tactic.FieldSimp
import Mathlib.Tactic.Positivity
import Lattigo.Proofs.BasisExtInt

namespace Lattigo.BasisExt
open Lattigo Lattigo.Scaling

/-- `Σ y_i / q_i` -/
def ratSum (qs ys : List Nat) : ℚ := (List.zipWith (fun (qi yi : Nat) => (yi : ℚ) / (qi : ℚ)) qs ys).sum

/-! ## 3. `v = ⌊Σ y_i/q_i⌋` -/

theorem sumQ_rat (Q : Nat) : ∀ (l ys : List Nat), (∀ q ∈ l, 0 < q ∧ q ∣ Q) →
    ((sumQ Q l ys : Nat) : ℚ) = (Q : ℚ) * ratSum l ys
  | [], _, _ => by simp [ratSum]
  | _ :: _, [], _ => by simp [ratSum]
  | q :: l, y :: ys, h => by
    have ih := sumQ_rat Q l ys (fun a ha => h a (by simp [ha]))
    obtain ⟨hq, d, rfl⟩ := h q (by simp)
    have hq' : (q : ℚ) ≠ 0 := by exact_mod_cast (Nat.pos_iff_ne_zero.mp hq)
    unfold ratSum at ih ⊢
    rw [sumQ_cons, List.zipWith_cons_cons, List.sum_cons, Nat.mul_div_cancel_left d hq]
    push_cast at ih ⊢
    rw [ih]
    field_simp

/-- `(Σ y_i·Q/q_i) / Q = Σ y_i/q_i` over ℚ -/
theorem hps_v_rat (qs ys : List Nat) (hpos : ∀ q ∈ qs, 0 < q) :
    ((hpsSum qs ys : Nat) : ℚ) / (prodN qs : ℚ)
      = (List.zipWith (fun (qi yi : Nat) => (yi : ℚ) / (qi : ℚ)) qs ys).sum := by
  have hQ : ((prodN qs : Nat) : ℚ) ≠ 0 := by
    exact_mod_cast (Nat.pos_iff_ne_zero.mp (prodN_pos qs hpos))
  rw [hpsSum_eq_sumQ, sumQ_rat (prodN qs) qs ys (fun q hq => ⟨hpos q hq, dvd_prodN qs q hq⟩)]
  unfold ratSum
  field_simp

/-- the exact correction index is the floor of `Σ y_i/q_i` -/
theorem hpsV_eq_floor (qs ys : List Nat) (hpos : ∀ q ∈ qs, 0 < q) :
    hpsV qs ys = ⌊(List.zipWith (fun (qi yi : Nat) => (yi : ℚ) / (qi : ℚ)) qs ys).sum⌋₊ := by
  rw [← hps_v_rat qs ys hpos, Nat.floor_div_eq_div]
  rfl

-- test: 2/3 + 2/5 + 3/7 = 157/105
example : ((hpsSum [3, 5, 7] [2, 2, 3] : Nat) : ℚ) / (prodN [3, 5, 7] : ℚ) = 157 / 105 := by
  have : hpsSum [3, 5, 7] [2, 2, 3] = 157 ∧ prodN [3, 5, 7] = 105 := by decide
  rw [this.1, this.2]; norm_num
example : (List.zipWith (fun (qi yi : Nat) => (yi : ℚ) / (qi : ℚ)) [3, 5, 7] [2, 2, 3]).sum = 157 / 105 := by
  norm_num

/-! ## 5. floors of approximations -/

theorem floor_exact_of_quarter (v : ℕ) (f t : ℚ) (hf1 : 1 / 4 ≤ f) (hf2 : f < 3 / 4)
    (ht : |t - (v + f)| < 1 / 4) : ⌊t⌋₊ = v := by
  rcases abs_lt.mp ht with ⟨h1, h2⟩
  have hv : (0 : ℚ) ≤ v := Nat.cast_nonneg v
  have h0 : 0 ≤ t := by linarith
  rw [Nat.floor_eq_iff h0]
  constructor <;> linarith

-- test
example : |(13 / 10 : ℚ) - ((1 : ℕ) + 1 / 2)| < 1 / 4 := by norm_num [abs_lt]

theorem floor_off_by_one (v : ℕ) (f t : ℚ) (hf0 : 0 ≤ f) (hf1 : f < 1)
    (ht : |t - (v + f)| < 1) : ⌊t⌋₊ = v ∨ ⌊t⌋₊ = v + 1 ∨ ⌊t⌋₊ + 1 = v := by
  rcases abs_lt.mp ht with ⟨h1, h2⟩
  rcases lt_or_ge t (v : ℚ) with hlt | hge
  · -- `v − 1 < t < v`
    rcases Nat.eq_zero_or_pos v with hv | hv
    · left
      subst hv
      rw [Nat.floor_eq_zero]
      have : ((0 : ℕ) : ℚ) = 0 := Nat.cast_zero
      linarith
    · right; right
      obtain ⟨w, rfl⟩ : ∃ w, v = w + 1 := ⟨v - 1, by omega⟩
      have hw : ((w + 1 : ℕ) : ℚ) = (w : ℚ) + 1 := by push_cast; ring
      rw [hw] at h1 hlt
      have hw0 : (0 : ℚ) ≤ w := Nat.cast_nonneg w
      have h0 : 0 ≤ t := by linarith
      have : ⌊t⌋₊ = w := by
        rw [Nat.floor_eq_iff h0]
        constructor <;> linarith
      omega
  · have hv : (0 : ℚ) ≤ v := Nat.cast_nonneg v
    have h0 : 0 ≤ t := by linarith
    rcases lt_or_ge t ((v : ℚ) + 1) with hlt | hge1
    · left
      rw [Nat.floor_eq_iff h0]
      exact ⟨hge, hlt⟩
    · right; left
      rw [Nat.floor_eq_iff h0]
      push_cast
      constructor <;> linarith

-- test
example : |(21 / 10 : ℚ) - ((1 : ℕ) + 1 / 2)| < 1 := by norm_num [abs_lt]

/-- `Σ y_i/q_i = v + x/Q` -/
theorem ratSum_eq (qs ys : List Nat) (x : Nat)
    (hc : qs.Pairwise Nat.Coprime) (hpos : ∀ q ∈ qs, 0 < q) (hx : x < prodN qs)
    (hy : List.Forall₂ (fun qi yi => yi < qi ∧ (yi * qStar qs qi) % qi = x % qi) qs ys) :
    (List.zipWith (fun (qi yi : Nat) => (yi : ℚ) / (qi : ℚ)) qs ys).sum
      = (hpsV qs ys : ℚ) + (x : ℚ) / (prodN qs : ℚ) := by
  have hQ : ((prodN qs : Nat) : ℚ) ≠ 0 := by
    exact_mod_cast (Nat.pos_iff_ne_zero.mp (prodN_pos qs hpos))
  rw [← hps_v_rat qs ys hpos, hps_sum_eq qs ys x hc hpos hx hy]
  push_cast
  field_simp
  ring

/-- HPS exactness for the shifted input: when `Q/4 ≤ x < 3Q/4` (what `|x_c| < Q/4` gives for the
    input `x = x_c + Q/2` the code feeds in), any `t` within `1/4` of `Σ y_i/q_i` floors to the exact `v`. -/
theorem modUp_centered_exact (qs ys : List Nat) (x : Nat) (t : ℚ)
    (hc : qs.Pairwise Nat.Coprime) (hpos : ∀ q ∈ qs, 0 < q) (hx : x < prodN qs)
    (hy : List.Forall₂ (fun qi yi => yi < qi ∧ (yi * qStar qs qi) % qi = x % qi) qs ys)
    (hlo : prodN qs ≤ 4 * x) (hhi : 4 * x < 3 * prodN qs)
    (ht : |t - (List.zipWith (fun (qi yi : Nat) => (yi : ℚ) / (qi : ℚ)) qs ys).sum| < 1 / 4) :
    ⌊t⌋₊ = hpsV qs ys := by
  have hQ : (0 : ℚ) < (prodN qs : ℚ) := by exact_mod_cast prodN_pos qs hpos
  rw [ratSum_eq qs ys x hc hpos hx hy] at ht
  have hlo' : ((prodN qs : Nat) : ℚ) ≤ 4 * (x : ℚ) := by exact_mod_cast hlo
  have hhi' : 4 * (x : ℚ) < 3 * ((prodN qs : Nat) : ℚ) := by exact_mod_cast hhi
  apply floor_exact_of_quarter _ ((x : ℚ) / (prodN qs : ℚ)) t _ _ ht
  · rw [le_div_iff₀ hQ]; linarith
  · rw [div_lt_iff₀ hQ]; linarith

/-- without the exactness condition: any `t` within `1` of `Σ y_i/q_i` floors to `v`, `v + 1` or `v − 1` -/
theorem modUp_never_off_by_more_than_one (qs ys : List Nat) (x : Nat) (t : ℚ)
    (hc : qs.Pairwise Nat.Coprime) (hpos : ∀ q ∈ qs, 0 < q) (hx : x < prodN qs)
    (hy : List.Forall₂ (fun qi yi => yi < qi ∧ (yi * qStar qs qi) % qi = x % qi) qs ys)
    (ht : |t - (List.zipWith (fun (qi yi : Nat) => (yi : ℚ) / (qi : ℚ)) qs ys).sum| < 1) :
    ⌊t⌋₊ = hpsV qs ys ∨ ⌊t⌋₊ = hpsV qs ys + 1 ∨ ⌊t⌋₊ + 1 = hpsV qs ys := by
  have hQ : (0 : ℚ) < (prodN qs : ℚ) := by exact_mod_cast prodN_pos qs hpos
  rw [ratSum_eq qs ys x hc hpos hx hy] at ht
  have hx' : (x : ℚ) < ((prodN qs : Nat) : ℚ) := by exact_mod_cast hx
  apply floor_off_by_one _ ((x : ℚ) / (prodN qs : ℚ)) t _ _ ht
  · positivity
  · rw [div_lt_one hQ]; exact hx'

-- test: x = 52, Q = 105: 105 ≤ 208 < 315; Σ = 157/105 ≈ 1.495, t = 3/2
example : prodN [3, 5, 7] ≤ 4 * 52 ∧ 4 * 52 < 3 * prodN [3, 5, 7] := by decide
example : |(3 / 2 : ℚ) - (List.zipWith (fun (qi yi : Nat) => (yi : ℚ) / (qi : ℚ)) [3, 5, 7] [2, 2, 3]).sum| < 1 / 4 := by
  norm_num [abs_lt]

end Lattigo.BasisExt

#print axioms Lattigo.BasisExt.hps_v_rat
#print axioms Lattigo.BasisExt.hpsV_eq_floor
#print axioms Lattigo.BasisExt.floor_exact_of_quarter
#print axioms Lattigo.BasisExt.floor_off_by_one
#print axioms Lattigo.BasisExt.modUp_centered_exact
#print axioms Lattigo.BasisExt.modUp_never_off_by_more_than_one
