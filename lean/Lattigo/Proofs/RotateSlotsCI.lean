/-
  C11 proofs: the NTT-domain automorphism of the CONJUGATE-INVARIANT transform.

  Ring `Z[X+X⁻¹]/(X^{2N}+1)`, `N = 2^K`, `nthRoot = 4N = 2^(K+2)`.  `ring.NTT` (conjugate-invariant branch,
  model `NTT.nttCI`, generated tables) puts at position `t` the value of
  `a_0 + Σ_{m≥1} a_m (X^m + X^{-m})` at `x_t = ψ^(2·brv_{K+1}(t)+1)`, `ψ` a primitive `4N`-th root of unity
  (`mkTables_ptCI`, `nttCI_entry`).  `ring.AutomorphismNTTWithIndex` with the table
  `AutomorphismNTTIndex(N, 4N, g)` (`nttIndexAt (2^(K+2)) g`) reads position `index[i]`; for every `g ≡ 1 (mod 4)`
  (all rotations `GaloisElement(k) = 5^k`) that position is `< N` and holds the value at `x_i^g`
  (`automorphismNTT_ci`): the index permutation is the automorphism `X ↦ X^g` of the conjugate-invariant ring,
  in the evaluation domain; the table is a permutation of `[0, N)` (`nttIndex_perm_ci`).
-/
import Lattigo.Proofs.RotateSlots
import Lattigo.Proofs.NTTCI

namespace Lattigo.Proofs.RotateSlots
open Lattigo Lattigo.Model.Galois Lattigo.Proofs.Galois Lattigo.NTT
open Finset

/-! ### the index table for `nthRoot = 4N` -/

theorem bitRev_even_of_lt (b i : ℕ) (hi : i < 2 ^ b) : NTT.bitRev i (b + 1) % 2 = 0 := by
  rw [NTT.bitRev_succ_last]
  have : i / 2 ^ b = 0 := Nat.div_eq_of_lt hi
  rw [this]; omega

theorem bitRev_lt_of_even (b x : ℕ) (hx : x % 2 = 0) : NTT.bitRev x (b + 1) < 2 ^ b := by
  rw [NTT.bitRev_succ_first, hx, Nat.zero_mul, Nat.zero_add]
  exact NTT.bitRev_lt b _

/-- For `g ≡ 1 (mod 4)` and `i < N = 2^K`: the entry `index[i]` of `AutomorphismNTTIndex(N, 4N, g)` is `< N`, and
    the exponent of its evaluation point is `g` times the exponent of the point of `i`, modulo `4N`. -/
theorem nttIndexAt_ci (K : ℕ) (hK : K + 2 ≤ 64) (g i : ℕ) (hg : g % 4 = 1) (hi : i < 2 ^ K) :
    nttIndexAt (2 ^ (K + 2)) g i < 2 ^ K ∧
    2 * NTT.bitRev (nttIndexAt (2 ^ (K + 2)) g i) (K + 1) + 1
      = g * (2 * NTT.bitRev i (K + 1) + 1) % 2 ^ (K + 2) := by
  have hg2 : g % 2 = 1 := by omega
  have hidx := nttIndexAt_eq (K + 2) (by omega) hK g i hg2
  simp only [show K + 2 - 1 = K + 1 by omega, bitRev_eq] at hidx
  set r := NTT.bitRev i (K + 1) with hr
  set P := g * (2 * r + 1) % 2 ^ (K + 2) with hP
  have hreven : r % 2 = 0 := bitRev_even_of_lt K i hi
  have h4 : 4 ∣ 2 ^ (K + 2) := ⟨2 ^ K, by ring⟩
  have hP4 : P % 4 = 1 := by
    rw [hP, Nat.mod_mod_of_dvd _ h4, Nat.mul_mod, hg]
    have : (2 * r + 1) % 4 = 1 := by omega
    rw [this]
  have hPlt : P < 2 ^ (K + 2) := Nat.mod_lt _ (by positivity)
  have hhalf : (P - 1) / 2 < 2 ^ (K + 1) := by
    have : 2 ^ (K + 2) = 2 * 2 ^ (K + 1) := by ring
    omega
  have heven : (P - 1) / 2 % 2 = 0 := by omega
  rw [hidx]
  refine ⟨bitRev_lt_of_even K _ heven, ?_⟩
  rw [NTT.bitRev_invol (K + 1) _ hhalf]
  omega

/-- **`nttIndex_perm_ci`**: `AutomorphismNTTIndex(N, 4N, g)` (`N = 2^K`, `g ≡ 1 mod 4`) succeeds; its table has
    length `N`, no repetition and only entries `< N`: a permutation of `[0, N)`. -/
theorem nttIndex_perm_ci (K : ℕ) (hK : K + 2 ≤ 64) (g : ℕ) (hg : g % 4 = 1) :
    ∃ l, automorphismNTTIndex (2 ^ K) (2 ^ (K + 2)) g = some l ∧ l.length = 2 ^ K ∧
      l.Nodup ∧ ∀ x ∈ l, x < 2 ^ K := by
  refine ⟨(List.range (2 ^ K)).map (nttIndexAt (2 ^ (K + 2)) g), ?_, by simp, ?_, ?_⟩
  · unfold automorphismNTTIndex
    rw [if_neg (by rw [Nat.and_two_pow_sub_one_eq_mod]; simp),
      if_neg (by rw [Nat.and_two_pow_sub_one_eq_mod]; simp)]
  · apply List.Nodup.map_on _ List.nodup_range
    intro i hi j hj hij
    rw [List.mem_range] at hi hj
    have h1 := (nttIndexAt_ci K hK g i hg hi).2
    have h2 := (nttIndexAt_ci K hK g j hg hj).2
    rw [hij, h2] at h1
    -- cancel the unit g
    have hcop : Nat.Coprime g (2 ^ (K + 2)) := by
      apply Nat.Coprime.pow_right
      rw [Nat.coprime_comm, Nat.Prime.coprime_iff_not_dvd Nat.prime_two]; omega
    have h3 : ((g * (2 * NTT.bitRev j (K + 1) + 1) : ℕ) : ZMod (2 ^ (K + 2)))
        = ((g * (2 * NTT.bitRev i (K + 1) + 1) : ℕ) : ZMod (2 ^ (K + 2))) := by
      rw [ZMod.natCast_eq_natCast_iff]; exact h1
    rw [Nat.cast_mul, Nat.cast_mul, ← ZMod.coe_unitOfCoprime g hcop] at h3
    have h4 := (Units.mul_right_inj _).mp h3
    have hri := NTT.bitRev_lt (K + 1) i
    have hrj := NTT.bitRev_lt (K + 1) j
    have hpow : 2 ^ (K + 2) = 2 * 2 ^ (K + 1) := by ring
    have h5 := eq_of_cast_eq (2 ^ (K + 2)) _ _ (by omega) (by omega) h4
    have h6 : NTT.bitRev j (K + 1) = NTT.bitRev i (K + 1) := by omega
    have hlt : ∀ x, x < 2 ^ K → x < 2 ^ (K + 1) := fun x hx => by rw [pow_succ]; omega
    have := congrArg (fun x => NTT.bitRev x (K + 1)) h6
    simp only [NTT.bitRev_invol (K + 1) _ (hlt _ hi), NTT.bitRev_invol (K + 1) _ (hlt _ hj)] at this
    exact this.symm
  · intro x hx
    rw [List.mem_map] at hx
    obtain ⟨i, hi, rfl⟩ := hx
    exact (nttIndexAt_ci K hK g i hg (List.mem_range.mp hi)).1

/-! ### the evaluation points of the conjugate-invariant transform -/

/-- evaluation points of `nttCI` with generated tables: `x_t = ψ^(2·brv_{K+1}(t)+1)`, `ψ = g₀^((q−1)/4N)` -/
theorem mkTables_ptCI (K q g₀ : ℕ) (hq : q.Prime) (h8 : 8 * q ≤ W) (hdiv : 2 ^ (K + 2) ∣ q - 1)
    (hg₀ : g₀ ^ ((q - 1) / 2) % q = q - 1) (t : ℕ) (ht : t < 2 ^ K) :
    pt (rho q (mkTables (2 ^ K) q (2 ^ (K + 2)) g₀).rootsF) K 2 t
      = (((g₀ : ℕ) : ZMod q) ^ ((q - 1) / 2 ^ (K + 2))) ^ (2 * NTT.bitRev t (K + 1) + 1) := by
  obtain ⟨_, _, _, _, _, _, _, hhalf', hF'⟩ := mkTables_core (2 ^ K) (K + 1) q g₀ hq h8 hdiv hg₀
  have hhalf : (((g₀ : ℕ) : ZMod q) ^ ((q - 1) / 2 ^ (K + 2))) ^ 2 ^ (K + 1) = -1 := hhalf'
  have hF : ∀ idx, idx < 2 ^ (K + 1) → rho q (mkTables (2 ^ K) q (2 ^ (K + 2)) g₀).rootsF idx
      = (((g₀ : ℕ) : ZMod q) ^ ((q - 1) / 2 ^ (K + 2))) ^ NTT.bitRev idx (K + 1) := hF'
  clear hhalf' hF'
  rw [pt_eq_cnode _ _ _ _ ht]
  have hp : 2 ^ (K + 1) = 2 * 2 ^ K := by rw [Nat.pow_succ]; omega
  have hK0 : 0 < 2 ^ K := Nat.two_pow_pos K
  have ht2 : t / 2 < 2 ^ K := by omega
  have hbt := NTT.bitRev_succ_first K t
  have htop := NTT.bitRev_top K (t / 2) ht2
  have hge : 1 ≤ 2 ^ K + t / 2 := by omega
  have hlt : 2 ^ K + t / 2 < 2 ^ (K + 1) := by omega
  rcases Nat.mod_two_eq_zero_or_one t with h0 | h1
  · have e : 2 * 2 ^ K + t = 2 * (2 ^ K + t / 2) := by omega
    have hc := congrArg (cnode (rho q (mkTables (2 ^ K) q (2 ^ (K + 2)) g₀).rootsF)) e
    rw [hc]
    rw [cnode_even _ _ hge]
    rw [hF _ hlt]
    have hbt' : NTT.bitRev t (K + 1) = NTT.bitRev (t / 2) K := by
      have h := hbt; rw [h0] at h; simpa using h
    rw [htop, hbt']
  · have e : 2 * 2 ^ K + t = 2 * (2 ^ K + t / 2) + 1 := by omega
    have hc := congrArg (cnode (rho q (mkTables (2 ^ K) q (2 ^ (K + 2)) g₀).rootsF)) e
    have hbt' : NTT.bitRev t (K + 1) = 2 ^ K + NTT.bitRev (t / 2) K := by
      have h := hbt; rw [h1] at h; simpa using h
    rw [hc, cnode_odd _ _ hge, hF _ hlt, htop, hbt']
    have hsplit : 2 * (2 ^ K + NTT.bitRev (t / 2) K) + 1 = 2 ^ (K + 1) + (2 * NTT.bitRev (t / 2) K + 1) := by
      rw [hp]; ring
    rw [hsplit, pow_add _ (2 ^ (K + 1)) (2 * NTT.bitRev (t / 2) K + 1), hhalf, neg_one_mul]

theorem getD_map_range {α : Type} (f : ℕ → α) (n t : ℕ) (ht : t < n) (d : α) :
    ((List.range n).map f).getD t d = f t := by
  simp [List.getD_eq_getElem?_getD, ht]

/-- value of the conjugate-invariant polynomial `a_0 + Σ_{m≥1} a_m (X^m + X^{-m})` at `x` -/
def evalCI {F : Type} [Field F] (a : List F) (x : F) : F :=
  ∑ j ∈ range a.length, a.getD j 0 * x ^ j + ∑ m ∈ range (a.length - 1), a.getD (m + 1) 0 * x⁻¹ ^ (m + 1)

/-- entry `t` of the conjugate-invariant NTT is the value at `x_t` -/
theorem nttCI_entry (K q g₀ : ℕ) (hq : q.Prime) (h8 : 8 * q ≤ W) (hdiv : 2 ^ (K + 2) ∣ q - 1)
    (hg₀ : g₀ ^ ((q - 1) / 2) % q = q - 1) (a : List ℕ) (hlen : a.length = 2 ^ K) (ha : ∀ x ∈ a, x < q)
    (t : ℕ) (ht : t < 2 ^ K) :
    haveI : Fact q.Prime := ⟨hq⟩
    (((nttCI (mkTables (2 ^ K) q (2 ^ (K + 2)) g₀) a).getD t 0 : ℕ) : ZMod q)
      = evalCI (a.map (Nat.cast : ℕ → ZMod q))
          ((((g₀ : ℕ) : ZMod q) ^ ((q - 1) / 2 ^ (K + 2))) ^ (2 * NTT.bitRev t (K + 1) + 1)) := by
  have : Fact q.Prime := ⟨hq⟩
  have hT := mkTables_validCI K q g₀ hq h8 hdiv hg₀
  have hinv := mkTables_tableInvCI K q g₀ hq h8 hdiv hg₀
  have : Fact (mkTables (2 ^ K) q (2 ^ (K + 2)) g₀).q.Prime := ⟨hq⟩
  have hev := (nttCI_eval hT hinv a (by rw [hlen]; exact hT.n_eq.symm) ha).1
  have hqq : (mkTables (2 ^ K) q (2 ^ (K + 2)) g₀).q = q := rfl
  rw [← getD_map_cast]
  have hev' : (nttCI (mkTables (2 ^ K) q (2 ^ (K + 2)) g₀) a).map (Nat.cast : ℕ → ZMod q) = _ := hev
  rw [hev']
  refine (getD_map_range _ _ _ ht _).trans ?_
  have hpt := mkTables_ptCI K q g₀ hq h8 hdiv hg₀ t ht
  have hpt' : pt (rho (mkTables (2 ^ K) q (2 ^ (K + 2)) g₀).q (mkTables (2 ^ K) q (2 ^ (K + 2)) g₀).rootsF) K 2 t
      = (((g₀ : ℕ) : ZMod q) ^ ((q - 1) / 2 ^ (K + 2))) ^ (2 * NTT.bitRev t (K + 1) + 1) := hpt
  simp only [hpt']
  unfold evalCI
  rw [List.length_map, hlen]
  congr 1
  · apply sum_congr rfl
    intro j _
    rw [getD_map_cast]; rfl
  · apply sum_congr rfl
    intro m _
    rw [getD_map_cast]; rfl

/-- **`AutomorphismNTT` on the conjugate-invariant transform.**  For every rotation element `g ≡ 1 (mod 4)` and
    every `i < N`: the entry `out[i] = in[index[i]]` written by `AutomorphismNTTWithIndex`
    (`index = AutomorphismNTTIndex(N, 4N, g)`) is the value of the polynomial at `x_i^g`, where `x_i` is the
    evaluation point of position `i` — the evaluation-domain form of `X ↦ X^g` on `Z[X+X⁻¹]/(X^{2N}+1)`. -/
theorem automorphismNTT_ci (K q g₀ : ℕ) (hK : K + 2 ≤ 64) (hq : q.Prime) (h8 : 8 * q ≤ W)
    (hdiv : 2 ^ (K + 2) ∣ q - 1) (hg₀ : g₀ ^ ((q - 1) / 2) % q = q - 1) (a : List ℕ) (hlen : a.length = 2 ^ K)
    (ha : ∀ x ∈ a, x < q) (g : ℕ) (hg : g % 4 = 1) (i : ℕ) (hi : i < 2 ^ K) :
    haveI : Fact q.Prime := ⟨hq⟩
    nttIndexAt (2 ^ (K + 2)) g i < 2 ^ K ∧
    (((nttCI (mkTables (2 ^ K) q (2 ^ (K + 2)) g₀) a).getD (nttIndexAt (2 ^ (K + 2)) g i) 0 : ℕ) : ZMod q)
      = evalCI (a.map (Nat.cast : ℕ → ZMod q))
          (((((g₀ : ℕ) : ZMod q) ^ ((q - 1) / 2 ^ (K + 2))) ^ (2 * NTT.bitRev i (K + 1) + 1)) ^ g) := by
  have : Fact q.Prime := ⟨hq⟩
  obtain ⟨hlt, hexp⟩ := nttIndexAt_ci K hK g i hg hi
  refine ⟨hlt, ?_⟩
  rw [nttCI_entry K q g₀ hq h8 hdiv hg₀ a hlen ha _ hlt, hexp]
  obtain ⟨_, _, _, _, _, _, _, hhalf', _⟩ := mkTables_core (2 ^ K) (K + 1) q g₀ hq h8 hdiv hg₀
  have hhalf : (((g₀ : ℕ) : ZMod q) ^ ((q - 1) / 2 ^ (K + 2))) ^ 2 ^ (K + 1) = -1 := hhalf'
  generalize (((g₀ : ℕ) : ZMod q) ^ ((q - 1) / 2 ^ (K + 2))) = ψ at hhalf ⊢
  have hψ1 : ψ ^ 2 ^ (K + 2) = 1 := by
    have h := sq_of_neg_one hhalf
    rwa [show 2 * 2 ^ (K + 1) = 2 ^ (K + 2) by ring] at h
  rw [pow_mod_of_pow_eq_one hψ1, ← pow_mul, mul_comm g]

end Lattigo.Proofs.RotateSlots
