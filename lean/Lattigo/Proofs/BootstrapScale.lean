/-
  C18 — `Evaluator.ScaleDown` on exact integers: the rescaling loop always reaches level 0,
  the integer multiplier is the rounded message-ratio quotient, admissibility.
-/
import Lattigo.Model.Bootstrap
import Mathlib.Tactic.Linarith
import Mathlib.Tactic.Ring
import Mathlib.Data.List.Basic

namespace Lattigo.Proofs.Bootstrap
open Lattigo.Model.Bootstrap

/-- `q_1 · … · q_l` (primes above `Q[0]`; absent entries count as 1, like the model's `getD`) -/
def prodTo (qs : List Nat) : Nat → Nat
  | 0 => 1
  | l + 1 => prodTo qs l * qs.getD (l + 1) 1

theorem prodTo_succ (qs : List Nat) (l : Nat) : prodTo qs (l + 1) = prodTo qs l * qs.getD (l + 1) 1 := rfl

theorem prodTo_pos (qs : List Nat) (hq : ∀ i, 1 ≤ qs.getD i 1) : ∀ l, 1 ≤ prodTo qs l
  | 0 => le_rfl
  | l + 1 => by
    have := prodTo_pos qs hq l
    have := hq (l + 1)
    rw [prodTo_succ]
    exact Nat.mul_le_mul ‹1 ≤ prodTo qs l› ‹1 ≤ qs.getD (l + 1) 1›

theorem foldl_mul_init (l : List Nat) (a : Nat) : l.foldl (· * ·) a = a * l.foldl (· * ·) 1 := by
  induction l generalizing a with
  | nil => simp
  | cons x xs ih => simp only [List.foldl_cons, Nat.one_mul]; rw [ih (a * x), ih x, Nat.mul_assoc]

theorem modulusAt_succ (qs : List Nat) (l : Nat) :
    modulusAt qs (l + 1) = modulusAt qs l * qs.getD (l + 1) 1 := by
  unfold modulusAt
  rw [List.take_add_one, List.foldl_append]
  cases h : qs[l + 1]? with
  | none => simp [List.getD, h]
  | some x => simp [List.getD, h]

theorem modulusAt_eq (qs : List Nat) : ∀ l, modulusAt qs l = qs.getD 0 1 * prodTo qs l
  | 0 => by
    unfold modulusAt prodTo
    cases qs with
    | nil => simp
    | cons x xs => simp
  | l + 1 => by
    rw [modulusAt_succ, modulusAt_eq qs l, prodTo_succ, Nat.mul_assoc]

theorem headD_eq_getD (qs : List Nat) : qs.headD 1 = qs.getD 0 1 := by
  cases qs <;> simp

/-- the loop of `RescaleTo` goes all the way down when the whole product still leaves half the target -/
theorem rescaleLoop_zero (qs : List Nat) (sn tnum tden : Nat) (hq : ∀ i, 1 ≤ qs.getD i 1) :
    ∀ (lv den : Nat), den * prodTo qs lv * tnum ≤ 2 * sn * tden →
      rescaleLoop qs sn tnum tden lv den = (0, den * prodTo qs lv)
  | 0, den, _ => by simp [rescaleLoop, prodTo]
  | lv + 1, den, h => by
    unfold rescaleLoop
    simp only
    have hp := prodTo_pos qs hq lv
    have hstep : den * qs.getD (lv + 1) 1 * tnum ≤ 2 * sn * tden := by
      refine le_trans ?_ h
      rw [prodTo_succ]
      apply Nat.mul_le_mul_right
      calc den * qs.getD (lv + 1) 1 = den * (1 * qs.getD (lv + 1) 1) := by rw [Nat.one_mul]
        _ ≤ den * (prodTo qs lv * qs.getD (lv + 1) 1) :=
          Nat.mul_le_mul_left _ (Nat.mul_le_mul_right _ hp)
    rw [if_pos hstep]
    have h' : den * qs.getD (lv + 1) 1 * prodTo qs lv * tnum ≤ 2 * sn * tden := by
      refine le_of_eq_of_le ?_ h
      rw [prodTo_succ]; ring
    rw [rescaleLoop_zero qs sn tnum tden hq lv _ h', prodTo_succ]
    congr 1; ring

theorem f64round_pos (q : Nat) (h : 0 < q) : 0 < f64round q := by
  unfold f64round
  simp only
  split
  · exact h
  · rename_i hl
    have h2 : 2 ^ Nat.log2 q ≤ q := Nat.log2_self_le (by omega)
    have hsh : 2 ^ (Nat.log2 q - 52) ≤ 2 ^ Nat.log2 q := Nat.pow_le_pow_right (by omega) (by omega)
    have hpos : 0 < 2 ^ (Nat.log2 q - 52) := Nat.pos_of_ne_zero (by positivity)
    have ht : 1 ≤ q / 2 ^ (Nat.log2 q - 52) := by
      rw [Nat.le_div_iff_mul_le hpos]; omega
    apply Nat.mul_pos _ hpos
    omega

/-- rounding `x/a` half up: `|2(a·n − x)| ≤ a` and, when `2x ≥ a`, `x ≤ 2·a·n` -/
theorem roundHalfUp_spec (x a : Nat) (ha : 0 < a) :
    2 * (a * roundHalfUp x a) ≤ 2 * x + a ∧ 2 * x < 2 * (a * roundHalfUp x a) + a ∧
    (a ≤ 2 * x → 1 ≤ roundHalfUp x a ∧ x ≤ 2 * (a * roundHalfUp x a)) := by
  unfold roundHalfUp
  set n := (2 * x + a) / (2 * a) with hn
  have h1 : 2 * a * n ≤ 2 * x + a := Nat.mul_div_le _ _
  have h2 : 2 * x + a < 2 * a * (n + 1) := Nat.lt_mul_div_succ _ (by omega)
  have e1 : 2 * a * n = 2 * (a * n) := by ring
  have e2 : 2 * a * (n + 1) = 2 * (a * n) + 2 * a := by ring
  rw [e1] at h1; rw [e2] at h2
  refine ⟨h1, by omega, ?_⟩
  intro hx
  have hn1 : 1 ≤ n := by
    rw [hn, Nat.le_div_iff_mul_le (by omega)]; omega
  have : a * 1 ≤ a * n := Nat.mul_le_mul_left _ hn1
  constructor
  · exact hn1
  · omega

theorem roundHalfUp_cancel (q x a : Nat) (hq : 0 < q) : roundHalfUp (q * x) (a * q) = roundHalfUp x a := by
  unfold roundHalfUp
  rw [show 2 * (q * x) + a * q = q * (2 * x + a) by ring, show 2 * (a * q) = q * (2 * a) by ring,
    Nat.mul_div_mul_left _ _ hq]

theorem dropLevels_le (qs : List Nat) (S r : Nat) : ∀ l, dropLevels qs S r l ≤ l
  | 0 => le_rfl
  | l + 1 => by
    unfold dropLevels
    split
    · exact le_trans (dropLevels_le qs S r l) (Nat.le_succ l)
    · exact le_rfl

/-- after the dropping loop the message ratio no longer fits one prime lower -/
theorem dropLevels_spec (qs : List Nat) (S r : Nat) : ∀ l,
    dropLevels qs S r l ≠ 0 → modulusAt qs (dropLevels qs S r l - 1) < S * 2 ^ r
  | 0 => by simp [dropLevels]
  | l + 1 => by
    unfold dropLevels
    split
    · exact dropLevels_spec qs S r l
    · rename_i h
      intro _
      simpa using Nat.lt_of_not_le h

/-- **`ScaleDown` reaches level 0.** Whenever `ScaleDown` succeeds (positive primes, positive scale), the
    output is at level 0, the multiplier is at least 1, the primes divided out are exactly those of the
    level `l'` the dropping loop stopped at, and the multiplier is the rounded quotient `num/dn` of `scaleUpFrac`:
    `|2·(dn·n − num)| ≤ dn` with `num/dn = Q[0]/(S·2^r)` for `l' = 0` and
    `num/dn = Q[0]·q_1⋯q_{l'}·2^e / (S·2^r·f64round Q[0])` otherwise — i.e. the output scale `S·n/den` is the target
    `Q[0]/2^r` resp. `2^e/2^r · Q[0]/f64round Q[0]` up to the rounding of `n`. -/
theorem scaleDown_spec (qs : List Nat) (S r l : Nat) (hq : ∀ i, 1 ≤ qs.getD i 1) (hS : 0 < S)
    {lv n den : Nat} (h : scaleDown qs S r l = some (lv, n, den)) :
    lv = 0 ∧ 1 ≤ n ∧ den = prodTo qs (dropLevels qs S r l) ∧
    (let num := if dropLevels qs S r l = 0 then qs.getD 0 1
                else qs.getD 0 1 * (den * 2 ^ roundLog2 (qs.getD 0 1))
     let dn := if dropLevels qs S r l = 0 then S * 2 ^ r else S * 2 ^ r * f64round (qs.getD 0 1)
     2 * (dn * n) ≤ 2 * num + dn ∧ 2 * num < 2 * (dn * n) + dn) := by
  have hA : 0 < S * 2 ^ r := Nat.mul_pos hS (Nat.pos_of_ne_zero (by positivity))
  have hq0 : 0 < qs.getD 0 1 := hq 0
  have hf := f64round_pos _ hq0
  unfold scaleDown at h
  simp only at h
  generalize dropLevels qs S r l = l' at h ⊢
  unfold scaleUpFrac at h
  by_cases h0 : l' = 0
  · subst h0
    simp only [if_true] at h
    split at h
    · cases h
    · rename_i hok
      simp only [Option.some.injEq, Prod.mk.injEq] at h
      obtain ⟨rfl, rfl, rfl⟩ := h
      rw [modulusAt_eq] at hok ⊢
      simp only [prodTo, Nat.mul_one] at hok ⊢
      obtain ⟨s1, s2, s3⟩ := roundHalfUp_spec (qs.getD 0 1) (S * 2 ^ r) hA
      obtain ⟨n1, _⟩ := s3 (by omega)
      exact ⟨trivial, n1, trivial, s1, s2⟩
  · simp only [h0, if_false] at h
    rw [headD_eq_getD, modulusAt_eq] at h
    split at h
    · cases h
    · rename_i hok
      generalize hY : qs.getD 0 1 * prodTo qs l' * 2 ^ roundLog2 (qs.getD 0 1) = Y at *
      generalize hD : S * 2 ^ r * f64round (qs.getD 0 1) = D at *
      have hDpos : 0 < D := by rw [← hD]; exact Nat.mul_pos hA hf
      obtain ⟨s1, s2, s3⟩ := roundHalfUp_spec Y D hDpos
      obtain ⟨n1, n2⟩ := s3 (by omega)
      have hloop := rescaleLoop_zero qs (S * roundHalfUp Y D) (qs.getD 0 1 * 2 ^ roundLog2 (qs.getD 0 1))
        (2 ^ r * f64round (qs.getD 0 1)) hq l' 1
        (by
          calc 1 * prodTo qs l' * (qs.getD 0 1 * 2 ^ roundLog2 (qs.getD 0 1)) = Y := by rw [← hY]; ring
            _ ≤ 2 * (D * roundHalfUp Y D) := n2
            _ = 2 * (S * roundHalfUp Y D) * (2 ^ r * f64round (qs.getD 0 1)) := by rw [← hD]; ring)
      rw [hloop] at h
      simp only [Nat.one_mul, Option.some.injEq, Prod.mk.injEq] at h
      obtain ⟨rfl, rfl, rfl⟩ := h
      refine ⟨rfl, n1, rfl, ?_⟩
      simp only [h0, if_false]
      rw [show qs.getD 0 1 * (prodTo qs l' * 2 ^ roundLog2 (qs.getD 0 1)) = Y by rw [← hY]; ring]
      exact ⟨s1, s2⟩

/-- **admissibility.** `ScaleDown` returns the error exactly when, at the level `l'` where the dropping
    loop stops, `scaleUp < 1/2`: level 0: `2·Q[0] < S·2^r`;
    level `l' > 0`: `2·Q[0]·q_1⋯q_{l'}·2^e < S·2^r·f64round Q[0]` (`e = round(log2 Q[0])`). -/
theorem scaleDown_none_iff (qs : List Nat) (S r l : Nat) :
    scaleDown qs S r l = none ↔
      (if dropLevels qs S r l = 0 then 2 * qs.getD 0 1 < S * 2 ^ r
       else 2 * (qs.getD 0 1 * prodTo qs (dropLevels qs S r l) * 2 ^ roundLog2 (qs.getD 0 1))
              < S * 2 ^ r * f64round (qs.getD 0 1)) := by
  unfold scaleDown
  simp only
  generalize dropLevels qs S r l = l'
  unfold scaleUpFrac
  by_cases h0 : l' = 0
  · simp only [h0, if_true]
    rw [modulusAt_eq]
    simp only [prodTo, Nat.mul_one]
    split <;> simp_all
  · simp only [h0, if_false]
    rw [headD_eq_getD, modulusAt_eq]
    split
    · rename_i hc
      simp only [true_iff]
      exact hc
    · rename_i hc
      constructor
      · intro h
        simp at h
      · intro h
        exact absurd h hc

end Lattigo.Proofs.Bootstrap
