import Lattigo.Proofs.BasisExtLimb

/-!
  # The IEEE correction index of the HPS base conversion: ONE named hypothesis, in rational form (C02)

  `fidx Q ys` (Proofs/BasisExtLimb.lean) is the index `v = uint64(Σ float64(y_i)/float64(q_i))` exactly as the code and
  the twin compute it; Lean's `Float` is opaque to the kernel, so nothing about it can be PROVED.  The limb theorems
  of BasisExtLimb.lean are therefore conditional on two facts about it (`fidx ≤ #moduli`, `fidx = hpsV`).  Here both
  are derived from a single hypothesis of the standard numerical-analysis form

      `FidxApprox Q qs ys ε` :  `fidx Q ys = ⌊t⌋` for some rational `t ≥ 0` with `|t − Σ y_i/q_i| < ε`

  (`t` = the float sum read as a rational; for `n ≤ 32` terms in binary64 the true `ε` is `≈ n·2⁻⁵²`):
  * `floor_exact_iff` / `fidx_exact_iff` — the EXACT condition (an iff) under which `⌊t⌋` is the exact index `hpsV`:
    the error `t − Σ` lies in `[−x/Q, 1 − x/Q)`, `x` the (shifted) input;
  * `fidxApprox_cases`, `fidxApprox_le` — `ε ≤ 1` ⇒ the index is off by at most one and `≤ #moduli` (the table lookup
    `vtimesqmodp[v]` is in range);
  * `fidxApprox_exact` — `ε ≤ 1/4` and `Q/4 ≤ x < 3Q/4` ⇒ exact;
  * limb level: `modDownQPtoQ_err_le_one`, `modDownQPtoQ_exact_of_quarter`, `modUp_err_le_one`,
    `modUp_exact_of_quarter`: the property's "±1" and "exact below a quarter" sentences for the limb-level twins of
    `ModDownQPtoQ` and `ModUpQtoP/PtoQ`, with NO exactness hypothesis on the index.
-/
namespace Lattigo.BasisExt
open Lattigo Lattigo.Scaling

/-- `Σ y_i/q_i` over ℚ -/
abbrev exactSum (qs ys : List Nat) : ℚ := (List.zipWith (fun (qi yi : Nat) => (yi : ℚ) / (qi : ℚ)) qs ys).sum

/-- the `y_i` are admissible for `x`: `y_i < q_i`, `y_i·(Q/q_i) ≡ x (mod q_i)` -/
abbrev HY (qs : List Nat) (x : Nat) (ys : List Nat) : Prop :=
  List.Forall₂ (fun qi yi => yi < qi ∧ (yi * qStar qs qi) % qi = x % qi) qs ys

/-- **the named IEEE hypothesis**: the index the code computes is the floor of a rational within `ε` of the exact sum -/
def FidxApprox (Q qs ys : List Nat) (ε : ℚ) : Prop :=
  ∃ t : ℚ, 0 ≤ t ∧ fidx Q ys = ⌊t⌋₊ ∧ |t - exactSum qs ys| < ε

theorem FidxApprox.mono {Q qs ys : List Nat} {ε ε' : ℚ} (h : FidxApprox Q qs ys ε) (hle : ε ≤ ε') :
    FidxApprox Q qs ys ε' := by
  obtain ⟨t, h0, h1, h2⟩ := h
  exact ⟨t, h0, h1, lt_of_lt_of_le h2 hle⟩

/-- exact condition for a floor: with `s = v + f`, `0 ≤ f < 1`: `⌊t⌋ = v ↔ −f ≤ t − s < 1 − f` -/
theorem floor_exact_iff (v : ℕ) (f t : ℚ) (ht0 : 0 ≤ t) :
    ⌊t⌋₊ = v ↔ -f ≤ t - ((v : ℚ) + f) ∧ t - ((v : ℚ) + f) < 1 - f := by
  rw [Nat.floor_eq_iff ht0]
  constructor
  · rintro ⟨h1, h2⟩; constructor <;> linarith
  · rintro ⟨h1, h2⟩; constructor <;> linarith

/-- **the exact condition under which the floor of an approximation `t` of `Σ y_i/q_i` IS the exact index**:
the error `t − Σ` lies in `[−x/Q, 1 − x/Q)`. -/
theorem fidx_exact_iff (qs ys : List Nat) (x : Nat) (t : ℚ) (ht0 : 0 ≤ t)
    (hc : qs.Pairwise Nat.Coprime) (hpos : ∀ q ∈ qs, 0 < q) (hx : x < prodN qs) (hy : HY qs x ys) :
    ⌊t⌋₊ = hpsV qs ys ↔
      -((x : ℚ) / (prodN qs : ℚ)) ≤ t - exactSum qs ys
      ∧ t - exactSum qs ys < 1 - (x : ℚ) / (prodN qs : ℚ) := by
  rw [show exactSum qs ys = (hpsV qs ys : ℚ) + (x : ℚ) / (prodN qs : ℚ) from ratSum_eq qs ys x hc hpos hx hy]
  exact floor_exact_iff _ _ t ht0

/-- error `< 1` ⇒ the index is off by at most one -/
theorem fidxApprox_cases (Q qs ys : List Nat) (x : Nat)
    (hc : qs.Pairwise Nat.Coprime) (hpos : ∀ q ∈ qs, 0 < q) (hx : x < prodN qs) (hy : HY qs x ys)
    (h : FidxApprox Q qs ys 1) :
    fidx Q ys = hpsV qs ys ∨ fidx Q ys = hpsV qs ys + 1 ∨ fidx Q ys + 1 = hpsV qs ys := by
  obtain ⟨t, _, h1, h2⟩ := h
  rw [h1]
  exact modUp_never_off_by_more_than_one qs ys x t hc hpos hx hy h2

/-- error `< 1` ⇒ the table lookup `vtimesqmodp[v]` is in range -/
theorem fidxApprox_le (Q qs ys : List Nat) (x : Nat) (hne : qs ≠ [])
    (hc : qs.Pairwise Nat.Coprime) (hpos : ∀ q ∈ qs, 0 < q) (hx : x < prodN qs) (hy : HY qs x ys)
    (h : FidxApprox Q qs ys 1) : fidx Q ys ≤ qs.length := by
  have hv := (hps_sum qs ys x hne hc hpos hx hy).2
  rcases fidxApprox_cases Q qs ys x hc hpos hx hy h with h | h | h <;> omega

/-- error `< 1/4` and `Q/4 ≤ x < 3Q/4` ⇒ the index is exact -/
theorem fidxApprox_exact (Q qs ys : List Nat) (x : Nat)
    (hc : qs.Pairwise Nat.Coprime) (hpos : ∀ q ∈ qs, 0 < q) (hx : x < prodN qs) (hy : HY qs x ys)
    (hlo : prodN qs ≤ 4 * x) (hhi : 4 * x < 3 * prodN qs) (h : FidxApprox Q qs ys (1 / 4)) :
    fidx Q ys = hpsV qs ys := by
  obtain ⟨t, _, h1, h2⟩ := h
  rw [h1]
  exact modUp_centered_exact qs ys x t hc hpos hx hy hlo hhi h2

/-- the code's own `y_i` on an admissible chain are admissible -/
theorem hy_of_chain (qs : List Nat) (hC : Chain qs) (x : Nat) : HY qs x (hpsY qs (residues qs x)) :=
  hpsY_ok qs x
    (hinv_of_primes qs (fun q hq => ⟨hC.prime q hq, by have := hC.small q hq; omega⟩) hC.nodup)
    (fun q hq => (hC.prime q hq).pos)

theorem coprime_of_chain (qs : List Nat) (hC : Chain qs) : qs.Pairwise Nat.Coprime :=
  pairwise_coprime_of_primes qs hC.prime hC.nodup

-- test (non-vacuity of `FidxApprox`): qs = [3,5,7], x = 52: Σ = 157/105, t = 3/2, v = 1
example : ∃ t : ℚ, 0 ≤ t ∧ (1 : ℕ) = ⌊t⌋₊ ∧ |t - exactSum [3, 5, 7] [2, 2, 3]| < 1 / 4 :=
  ⟨3 / 2, by norm_num, by norm_num [Nat.floor_eq_iff], by norm_num [exactSum, abs_lt]⟩

/-! ## limb level: the property's "±1" and "exact below a quarter" sentences, no exactness hypothesis on the index -/

theorem take_length_succ (P : List Nat) (l : Nat) (h : l < P.length) : (P.take (l + 1)).length = l + 1 := by
  rw [List.length_take]; omega

theorem take_ne_nil (P : List Nat) (l : Nat) (h : l < P.length) : P.take (l + 1) ≠ [] := by
  intro h0
  have := take_length_succ P l h
  rw [h0] at this; simp at this

/-- the three facts about the index that follow from `FidxApprox … 1` for the code's own `y_i` of a shifted input -/
theorem fidx_facts (P : List Nat) (l : Nat) (hl : l < P.length) (hC : Chain (P.take (l + 1))) (x' : Nat)
    (hx' : x' < prodN (P.take (l + 1)))
    (h : FidxApprox P (P.take (l + 1)) (hpsY (P.take (l + 1)) (residues (P.take (l + 1)) x')) 1) :
    fidx P (hpsY (P.take (l + 1)) (residues (P.take (l + 1)) x')) ≤ l + 1
    ∧ ∃ δ : ℤ, (δ = -1 ∨ δ = 0 ∨ δ = 1)
        ∧ ((hpsV (P.take (l + 1)) (hpsY (P.take (l + 1)) (residues (P.take (l + 1)) x')) : ℤ)
            - (fidx P (hpsY (P.take (l + 1)) (residues (P.take (l + 1)) x')) : ℤ)) = δ := by
  have hy := hy_of_chain _ hC x'
  have hc := coprime_of_chain _ hC
  have hpos : ∀ q ∈ P.take (l + 1), 0 < q := fun q hq => (hC.prime q hq).pos
  have hle := fidxApprox_le P _ _ x' (take_ne_nil P l hl) hc hpos hx' hy h
  rw [take_length_succ P l hl] at hle
  refine ⟨hle, ?_⟩
  rcases fidxApprox_cases P _ _ x' hc hpos hx' hy h with e | e | e
  · exact ⟨0, Or.inr (Or.inl rfl), by rw [e]; ring⟩
  · exact ⟨-1, Or.inl rfl, by rw [e]; push_cast; ring⟩
  · exact ⟨1, Or.inr (Or.inr rfl), by rw [← e]; push_cast; ring⟩

/-- **`ModDownQPtoQ`: rounded quotient up to an error of at most 1**, every limb, under the single hypothesis that the
float sum is within `1` of the exact sum (`FidxApprox … 1`).  `X` the integer coefficients in basis `QP`,
`Pb = p_0⋯p_levelP`: every limb of row `i` is `< q_i` and `≡ ⌊(x + ⌊Pb/2⌋)/Pb⌋ + e (mod q_i)` with `|e| ≤ 1`. -/
theorem modDownQPtoQ_err_le_one (Q P : List Nat) (levelQ levelP : Nat) (hlQ : levelQ < Q.length)
    (hlP : levelP < P.length) (hCP : Chain (P.take (levelP + 1))) (k : Nat)
    (hk : (P.take (levelP + 1)).sum ≤ k * W) (hTQ : Target Q (k + 2))
    (hdisj : ∀ i, i ≤ levelQ → Q.getD i 0 ∉ P.take (levelP + 1)) (p1Q p1P : Rows) (X : List Nat)
    (hQ : ∀ i, i ≤ levelQ → row p1Q i = X.map (· % Q.getD i 0))
    (hP : ∀ j, j ≤ levelP → row p1P j = X.map (· % P.getD j 0)) (i : Nat) (hi : i ≤ levelQ) :
    List.Forall₂ (fun x out =>
        FidxApprox P (P.take (levelP + 1)) (hpsY (P.take (levelP + 1)) (residues (P.take (levelP + 1))
            ((x + prodN (P.take (levelP + 1)) / 2) % prodN (P.take (levelP + 1))))) 1 →
          out < Q.getD i 0 ∧ ∃ e : ℤ, |e| ≤ 1 ∧
            ((out : ℕ) : ℤ) % (Q.getD i 0 : ℤ)
              = ((((x + prodN (P.take (levelP + 1)) / 2) / prodN (P.take (levelP + 1)) : ℕ) : ℤ) + e)
                  % (Q.getD i 0 : ℤ))
      X (row (modDownQPtoQ Q P levelQ levelP p1Q p1P) i) := by
  have hPb : 0 < prodN (P.take (levelP + 1)) := prodN_pos _ (fun q hq => (hCP.prime q hq).pos)
  refine (modDownQPtoQ_limbs Q P levelQ levelP hlQ hlP hCP k hk hTQ hdisj p1Q p1P X hQ hP i hi).imp ?_
  intro x out h hA
  obtain ⟨hle, δ, hδ, he⟩ := fidx_facts P levelP hlP hCP _ (Nat.mod_lt _ hPb) hA
  obtain ⟨h1, h2⟩ := h hle
  refine ⟨h2, -δ, ?_, ?_⟩
  · rcases hδ with r | r | r <;> subst r <;> norm_num
  · rw [h1, he, sub_eq_add_neg]

/-- **`ModDownQPtoQ`: EXACT rounded quotient** when the centred remainder `[x]_Pb` is below `Pb/4` in absolute value
(`Pb ≤ 4·x' < 3·Pb` for the shifted remainder `x' = (x + ⌊Pb/2⌋) mod Pb`) and the float error is below `1/4`. -/
theorem modDownQPtoQ_exact_of_quarter (Q P : List Nat) (levelQ levelP : Nat) (hlQ : levelQ < Q.length)
    (hlP : levelP < P.length) (hCP : Chain (P.take (levelP + 1))) (k : Nat)
    (hk : (P.take (levelP + 1)).sum ≤ k * W) (hTQ : Target Q (k + 2))
    (hdisj : ∀ i, i ≤ levelQ → Q.getD i 0 ∉ P.take (levelP + 1)) (p1Q p1P : Rows) (X : List Nat)
    (hQ : ∀ i, i ≤ levelQ → row p1Q i = X.map (· % Q.getD i 0))
    (hP : ∀ j, j ≤ levelP → row p1P j = X.map (· % P.getD j 0)) (i : Nat) (hi : i ≤ levelQ) :
    List.Forall₂ (fun x out =>
        FidxApprox P (P.take (levelP + 1)) (hpsY (P.take (levelP + 1)) (residues (P.take (levelP + 1))
            ((x + prodN (P.take (levelP + 1)) / 2) % prodN (P.take (levelP + 1))))) (1 / 4) →
        prodN (P.take (levelP + 1)) ≤ 4 * ((x + prodN (P.take (levelP + 1)) / 2) % prodN (P.take (levelP + 1))) →
        4 * ((x + prodN (P.take (levelP + 1)) / 2) % prodN (P.take (levelP + 1))) < 3 * prodN (P.take (levelP + 1)) →
          out = ((x + prodN (P.take (levelP + 1)) / 2) / prodN (P.take (levelP + 1))) % Q.getD i 0)
      X (row (modDownQPtoQ Q P levelQ levelP p1Q p1P) i) := by
  have hPb : 0 < prodN (P.take (levelP + 1)) := prodN_pos _ (fun q hq => (hCP.prime q hq).pos)
  refine (modDownQPtoQ_limbs Q P levelQ levelP hlQ hlP hCP k hk hTQ hdisj p1Q p1P X hQ hP i hi).imp ?_
  intro x out h hA hlo hhi
  have hx' := Nat.mod_lt (x + prodN (P.take (levelP + 1)) / 2) hPb
  obtain ⟨hle, _, _, _⟩ := fidx_facts P levelP hlP hCP _ hx' (hA.mono (by norm_num))
  have hex := fidxApprox_exact P _ _ _ (coprime_of_chain _ hCP) (fun q hq => (hCP.prime q hq).pos) hx'
    (hy_of_chain _ hCP _) hlo hhi hA
  obtain ⟨h1, h2⟩ := h hle
  rw [hex, sub_self, sub_zero] at h1
  have h3 : ((out : ℕ) : ℤ) % (Q.getD i 0 : ℤ) = (out : ℤ) := Int.emod_eq_of_lt (by positivity) (by exact_mod_cast h2)
  rw [h3] at h1
  have : ((out : ℕ) : ℤ) = (((((x + prodN (P.take (levelP + 1)) / 2) / prodN (P.take (levelP + 1)))
      % Q.getD i 0 : ℕ)) : ℤ) := by rw [h1]; push_cast; rfl
  exact_mod_cast this

/-- **`ModUpQtoP` / `ModUpPtoQ`: never off by more than one multiple of the source modulus** (`FidxApprox … 1`): every
limb of target row `j` is `≡ centeredRep Qb x + δ·Qb (mod p_j)` with `δ ∈ {−1, 0, 1}`, and `< (k+2)·p_j`. -/
theorem modUp_err_le_one (Q P : List Nat) (levelQ levelP : Nat) (hlQ : levelQ < Q.length) (hlP : levelP < P.length)
    (hC : Chain (Q.take (levelQ + 1))) (k : Nat) (hk : (Q.take (levelQ + 1)).sum ≤ k * W)
    (hT : Target P (k + 1)) (polQ : Rows) (X : List Nat)
    (hrows : ∀ i, i ≤ levelQ → row polQ i = X.map (· % Q.getD i 0)) (j : Nat) (hj : j ≤ levelP) :
    List.Forall₂ (fun x out =>
        FidxApprox Q (Q.take (levelQ + 1)) (hpsY (Q.take (levelQ + 1)) (residues (Q.take (levelQ + 1))
            ((x + prodN (Q.take (levelQ + 1)) / 2) % prodN (Q.take (levelQ + 1))))) 1 →
          out < (k + 2) * P.getD j 0 ∧ ∃ δ : ℤ, (δ = -1 ∨ δ = 0 ∨ δ = 1) ∧
            ((out : ℕ) : ℤ) % (P.getD j 0 : ℤ)
              = (centeredRep (prodN (Q.take (levelQ + 1))) x + δ * (prodN (Q.take (levelQ + 1)) : ℤ))
                  % (P.getD j 0 : ℤ))
      X (row (modUp Q P levelQ levelP polQ) j) := by
  have hQb : 0 < prodN (Q.take (levelQ + 1)) := prodN_pos _ (fun q hq => (hC.prime q hq).pos)
  refine (modUp_limbs Q P levelQ levelP hlQ hlP hC k hk hT polQ X hrows j hj).imp ?_
  intro x out h hA
  obtain ⟨hle, δ, hδ, he⟩ := fidx_facts Q levelQ hlQ hC _ (Nat.mod_lt _ hQb) hA
  obtain ⟨h1, h2⟩ := h hle
  exact ⟨h2, δ, hδ, by rw [h1, he]⟩

/-- **`ModUpQtoP` / `ModUpPtoQ`: the EXACT centred representative** when `|centred x| < Qb/4` (`Qb ≤ 4x' < 3Qb` for the
shifted input `x' = (x + ⌊Qb/2⌋) mod Qb`) and the float error is below `1/4`. -/
theorem modUp_exact_of_quarter (Q P : List Nat) (levelQ levelP : Nat) (hlQ : levelQ < Q.length)
    (hlP : levelP < P.length) (hC : Chain (Q.take (levelQ + 1))) (k : Nat)
    (hk : (Q.take (levelQ + 1)).sum ≤ k * W) (hT : Target P (k + 1)) (polQ : Rows) (X : List Nat)
    (hrows : ∀ i, i ≤ levelQ → row polQ i = X.map (· % Q.getD i 0)) (j : Nat) (hj : j ≤ levelP) :
    List.Forall₂ (fun x out =>
        FidxApprox Q (Q.take (levelQ + 1)) (hpsY (Q.take (levelQ + 1)) (residues (Q.take (levelQ + 1))
            ((x + prodN (Q.take (levelQ + 1)) / 2) % prodN (Q.take (levelQ + 1))))) (1 / 4) →
        prodN (Q.take (levelQ + 1)) ≤ 4 * ((x + prodN (Q.take (levelQ + 1)) / 2) % prodN (Q.take (levelQ + 1))) →
        4 * ((x + prodN (Q.take (levelQ + 1)) / 2) % prodN (Q.take (levelQ + 1))) < 3 * prodN (Q.take (levelQ + 1)) →
          ((out : ℕ) : ℤ) % (P.getD j 0 : ℤ) = centeredRep (prodN (Q.take (levelQ + 1))) x % (P.getD j 0 : ℤ)
          ∧ out < (k + 2) * P.getD j 0)
      X (row (modUp Q P levelQ levelP polQ) j) := by
  have hQb : 0 < prodN (Q.take (levelQ + 1)) := prodN_pos _ (fun q hq => (hC.prime q hq).pos)
  refine (modUp_limbs Q P levelQ levelP hlQ hlP hC k hk hT polQ X hrows j hj).imp ?_
  intro x out h hA hlo hhi
  have hx' := Nat.mod_lt (x + prodN (Q.take (levelQ + 1)) / 2) hQb
  obtain ⟨hle, _, _, _⟩ := fidx_facts Q levelQ hlQ hC _ hx' (hA.mono (by norm_num))
  have hex := fidxApprox_exact Q _ _ _ (coprime_of_chain _ hC) (fun q hq => (hC.prime q hq).pos) hx'
    (hy_of_chain _ hC _) hlo hhi hA
  obtain ⟨h1, h2⟩ := h hle
  rw [hex, sub_self, zero_mul, add_zero] at h1
  exact ⟨h1, h2⟩

end Lattigo.BasisExt

#print axioms Lattigo.BasisExt.fidx_exact_iff
#print axioms Lattigo.BasisExt.fidxApprox_cases
#print axioms Lattigo.BasisExt.fidxApprox_le
#print axioms Lattigo.BasisExt.fidxApprox_exact
#print axioms Lattigo.BasisExt.modDownQPtoQ_err_le_one
#print axioms Lattigo.BasisExt.modDownQPtoQ_exact_of_quarter
#print axioms Lattigo.BasisExt.modUp_err_le_one
#print axioms Lattigo.BasisExt.modUp_exact_of_quarter
