/-
  C04 — the lazy `uint64` accumulators of `GadgetProduct{,Hoisted}Lazy` never wrap (`Model/KeySwitch.gpLazyLimb`,
  tie `gplazyw`): with the code's schedule (`QiOverflowMargin >> 1` / `PiOverflowMargin >> 1`, each family on its
  own) every slot of every limb is the EXACT sum of the lazy Montgomery products modulo `p`, and that sum is the
  Montgomery-domain inner product `Σ key·digit·2^{-64}`.

  Port of `Proofs/RGSWLazy` (C20) to the rlwe gadget product.  Difference: in the single-`P`/base-`2^w` loop the
  digits are `NTTLazy` outputs, documented in `[0, 6p−2]` (not reduced), so the term bound is `p + ⌊6p²/2^64⌋`.
-/
import Lattigo.Model.KeySwitch
import Lattigo.Proofs.RGSWLazy
import Lattigo.Proofs.ModRed

namespace Lattigo.KS
open Lattigo Lattigo.RGSW

/-- `MRedLazy(x, y) ≤ q + ⌊x·y/2^64⌋` for a reduced `x` and ANY word `y` (`8q ≤ 2^64`) -/
theorem mredLazy_le_word (x y q mrc : Nat) (hx : x < q) (hy : y < W) (hq : 8 * q ≤ W) (hq0 : 0 < q) :
    Gen.MRedLazy x y q mrc ≤ q + x * y / W := by
  have hahi : x * y / W < q := by
    apply Nat.div_lt_of_lt_mul
    calc x * y ≤ x * W := Nat.mul_le_mul_left x (Nat.le_of_lt hy)
      _ < q * W := Nat.mul_lt_mul_of_pos_right hx (by decide)
      _ = W * q := Nat.mul_comm _ _
  have hH : ∀ m, m < W → m * q / W < q := fun m hm =>
    Nat.div_lt_of_lt_mul (Nat.mul_lt_mul_of_pos_right hm hq0)
  simp only [Gen.MRedLazy, mul64, u64mul, u64sub, u64add]
  have hm : x * y % W * mrc % W < W := Nat.mod_lt _ (by decide)
  have hH' := hH _ hm
  generalize x * y % W * mrc % W * q / W = H at *
  generalize x * y / W = ahi at *
  have e1 : ahi % W = ahi := Nat.mod_eq_of_lt (by unfold W at *; omega)
  have e2 : H % W = H := Nat.mod_eq_of_lt (by unfold W at *; omega)
  rw [e1, e2, e2]
  unfold W at *
  omega

/-- the code's margin with digits in the `NTTLazy` range `[0, 6p)`: `(p−1) + F·(p + ⌊6p²/2^64⌋) < 2^64` -/
theorem lazyMargin_ok6 (p pmax : Nat) (hp : 0 < p) (hle : p ≤ pmax) (hmax : 8 * pmax ≤ W) :
    1 ≤ (W - 1) / pmax / 2 ∧ (p - 1) + ((W - 1) / pmax / 2) * (p + 6 * (p * p) / W) < W := by
  have hpm : 0 < pmax := by omega
  have h1 : 7 ≤ (W - 1) / pmax := by
    rw [Nat.le_div_iff_mul_le hpm]; unfold W at *; omega
  generalize hM : (W - 1) / pmax = M at *
  have hMp : M * pmax ≤ W - 1 := by rw [← hM]; exact Nat.div_mul_le_self _ _
  have hF2 : 2 * (M / 2) ≤ M := Nat.mul_div_le M 2
  have hF1 : 1 ≤ M / 2 := by omega
  generalize M / 2 = F at *
  have hFp : 2 * (F * p) ≤ W - 1 := by
    have a1 : 2 * F * p ≤ M * p := Nat.mul_le_mul_right p hF2
    have a2 : M * p ≤ M * pmax := Nat.mul_le_mul_left M hle
    rw [Nat.mul_assoc] at a1; omega
  have h8 : 8 * p ≤ W := by omega
  -- F·d < 3p where d = ⌊6p²/W⌋
  have hdW : 6 * (p * p) / W * W ≤ 6 * (p * p) := Nat.div_mul_le_self _ _
  generalize 6 * (p * p) / W = d at *
  have hFd : F * d < 3 * p := by
    have hW0 : 0 < W := by decide
    apply Nat.lt_of_mul_lt_mul_right (a := W)
    calc F * d * W = F * (d * W) := by ring
      _ ≤ F * (6 * (p * p)) := Nat.mul_le_mul_left F hdW
      _ = 3 * p * (2 * (F * p)) := by ring
      _ ≤ 3 * p * (W - 1) := Nat.mul_le_mul_left _ hFp
      _ < 3 * p * W := Nat.mul_lt_mul_of_pos_left (by unfold W; omega) (by omega)
  refine ⟨hF1, ?_⟩
  rw [Nat.mul_add]
  generalize F * p = A at *
  generalize F * d = D at *
  unfold W at *
  omega

/-- **no wrap, large or small primes, digits in the `NTTLazy` range.**  `p` a prime of its family `fam` (all of at
most 61 bits: `8·q ≤ 2^64`, what `rlwe` accepts), key words reduced (`< p`), digit words `< 6p` (reduced digits of
the multiple-`P`/hoisted loops, `NTTLazy` outputs of the single-`P` loop): with the family's own margin the 64-bit
accumulator never wraps — the slot is the exact sum of the lazy products modulo `p`, for ANY number of terms. -/
theorem gpLazySlot_exact (p mrc : Nat) (fam : List Nat) (hp : 0 < p) (hmem : p ∈ fam) (hfam : ∀ q ∈ fam, 8 * q ≤ W)
    (rs cs : List Nat) (hr : ∀ r ∈ rs, r < p) (hc : ∀ c ∈ cs, c < 6 * p) :
    lazySlot p mrc (lazyMargin fam) rs cs =
      (List.zipWith (fun r c => Gen.MRedLazy r c p mrc) rs cs).sum % p := by
  have hge := (foldl_max_ge fam 0).2 p hmem
  have hle : 8 * fam.foldl max 0 ≤ W := by
    have := foldl_max_le (W / 8) fam 0 (Nat.zero_le _) (fun q hq => by have := hfam q hq; omega)
    omega
  obtain ⟨hF, hB⟩ := lazyMargin_ok6 p (fam.foldl max 0) hp hge hle
  have h8 : 8 * p ≤ W := hfam p hmem
  apply accSched_eq p (lazyMargin fam) (p + 6 * (p * p) / W) hp hF hB
  intro t ht
  obtain ⟨i, hi, rfl⟩ := List.mem_iff_getElem.mp ht
  simp only [List.length_zipWith, Nat.lt_min] at hi
  simp only [List.getElem_zipWith]
  have h1 := hr _ (List.getElem_mem hi.1)
  have h2 := hc _ (List.getElem_mem hi.2)
  have hb := mredLazy_le_word rs[i] cs[i] p mrc h1 (by unfold W at *; omega) h8 hp
  have hmono : rs[i] * cs[i] / W ≤ 6 * (p * p) / W := by
    apply Nat.div_le_div_right
    calc rs[i] * cs[i] ≤ p * (6 * p) := Nat.mul_le_mul (Nat.le_of_lt h1) (Nat.le_of_lt h2)
      _ = 6 * (p * p) := by ring
  omega

/-- **no wrap, general form.**  Key words reduced, digit words below ANY bound `Y ≤ 2^64`: if a residue plus `F` terms
of size `p + ⌊p·Y/2^64⌋` fit a word (`F` the family's margin), the slot is the exact sum.  `gpLazySlot_exact` is the
case `Y = 6p` for primes of at most 61 bits; small primes in a family with a large prime (small `F`) and digit words
beyond `6p` (base-`2^w` digits with `2^w > p` fed unreduced to `NTTLazy`) are covered by this form: the numeric
condition is evaluated by the probe `lazy_digit_range` on every tied limb. -/
theorem gpLazySlot_exact_bound (p mrc Y : Nat) (fam : List Nat) (hp : 0 < p) (h8 : 8 * p ≤ W) (hY : Y ≤ W)
    (hF : 1 ≤ lazyMargin fam) (hB : (p - 1) + lazyMargin fam * (p + p * Y / W) < W)
    (rs cs : List Nat) (hr : ∀ r ∈ rs, r < p) (hc : ∀ c ∈ cs, c < Y) :
    lazySlot p mrc (lazyMargin fam) rs cs =
      (List.zipWith (fun r c => Gen.MRedLazy r c p mrc) rs cs).sum % p := by
  apply accSched_eq p (lazyMargin fam) (p + p * Y / W) hp hF hB
  intro t ht
  obtain ⟨i, hi, rfl⟩ := List.mem_iff_getElem.mp ht
  simp only [List.length_zipWith, Nat.lt_min] at hi
  simp only [List.getElem_zipWith]
  have h1 := hr _ (List.getElem_mem hi.1)
  have h2 := hc _ (List.getElem_mem hi.2)
  have hb := mredLazy_le_word rs[i] cs[i] p mrc h1 (by omega) h8 hp
  have hmono : rs[i] * cs[i] / W ≤ p * Y / W :=
    Nat.div_le_div_right (Nat.mul_le_mul (Nat.le_of_lt h1) (Nat.le_of_lt h2))
  omega

/-- **no wrap, small primes, ARBITRARY digit words.**  If `p ≤ F + 1` (`F` the margin; true for every `p` below
`2^31.5`), nothing is needed on the digit words: the terms are `< 2p` (`MRedLazy_eq`) and `(p−1) + F(2p−1) < 2^64`.
Covers base-`2^w` digits fed unreduced to `NTTLazy` with `2^w > p`. -/
theorem gpLazySlot_exact_small (p mrc : Nat) (fam : List Nat) (hp : 2 ≤ p) (hmem : p ∈ fam)
    (hm : MontConst p mrc) (h2p : 2 * p ≤ W) (hsmall : p ≤ lazyMargin fam + 1)
    (rs cs : List Nat) (hr : ∀ r ∈ rs, r < p) (hc : ∀ c ∈ cs, c < W) :
    lazySlot p mrc (lazyMargin fam) rs cs =
      (List.zipWith (fun r c => Gen.MRedLazy r c p mrc) rs cs).sum % p := by
  have hge := (foldl_max_ge fam 0).2 p hmem
  have hF1 : 1 ≤ lazyMargin fam := by omega
  have hFp : 2 * (lazyMargin fam * p) ≤ W - 1 := by
    unfold lazyMargin
    generalize hM : (W - 1) / fam.foldl max 0 = M
    have hMp : M * fam.foldl max 0 ≤ W - 1 := by rw [← hM]; exact Nat.div_mul_le_self _ _
    have hF2 : 2 * (M / 2) ≤ M := Nat.mul_div_le M 2
    have a1 : 2 * (M / 2) * p ≤ M * p := Nat.mul_le_mul_right p hF2
    have a2 : M * p ≤ M * fam.foldl max 0 := Nat.mul_le_mul_left M hge
    rw [Nat.mul_assoc] at a1; omega
  have hB : (p - 1) + lazyMargin fam * (2 * p - 1) < W := by
    have e : lazyMargin fam * (2 * p - 1) = 2 * (lazyMargin fam * p) - lazyMargin fam := by
      rw [Nat.mul_sub, Nat.mul_one]; congr 1; ring
    rw [e]; unfold W at *; omega
  apply accSched_eq p (lazyMargin fam) (2 * p - 1) (by omega) hF1 hB
  intro t ht
  obtain ⟨i, hi, rfl⟩ := List.mem_iff_getElem.mp ht
  simp only [List.length_zipWith, Nat.lt_min] at hi
  simp only [List.getElem_zipWith]
  have h1 := hr _ (List.getElem_mem hi.1)
  have h2 := hc _ (List.getElem_mem hi.2)
  have hxy : rs[i] * cs[i] < p * W := by
    calc rs[i] * cs[i] ≤ rs[i] * W := Nat.mul_le_mul_left _ (Nat.le_of_lt h2)
      _ < p * W := Nat.mul_lt_mul_of_pos_right h1 (by decide)
  have := (MRedLazy_eq rs[i] cs[i] p mrc h2p hm hxy).2.1
  omega

/-! ### the exact sum is the Montgomery-domain inner product -/

/-- `(Σ MRedLazy(r_k, c_k))·2^64 ≡ Σ r_k·c_k (mod p)` -/
theorem mredLazy_sum_mont (p mrc : Nat) (hm : MontConst p mrc) (h2p : 2 * p ≤ W) :
    ∀ (rs cs : List Nat), (∀ r ∈ rs, r < p) → (∀ c ∈ cs, c < W) →
      (List.zipWith (fun r c => Gen.MRedLazy r c p mrc) rs cs).sum * W % p
        = (List.zipWith (fun r c => r * c) rs cs).sum % p
  | [], _, _, _ => by simp
  | _ :: _, [], _, _ => by simp
  | r :: rs, c :: cs, hr, hc => by
      have ih := mredLazy_sum_mont p mrc hm h2p rs cs (fun x hx => hr x (List.mem_cons_of_mem _ hx))
        (fun x hx => hc x (List.mem_cons_of_mem _ hx))
      have h1 := hr r List.mem_cons_self
      have h2 := hc c List.mem_cons_self
      have hxy : r * c < p * W := by
        calc r * c ≤ r * W := Nat.mul_le_mul_left _ (Nat.le_of_lt h2)
          _ < p * W := Nat.mul_lt_mul_of_pos_right h1 (by decide)
      have ht := (MRedLazy_spec r c p mrc h2p hm hxy).1
      simp only [List.zipWith_cons_cons, List.sum_cons]
      rw [Nat.add_mul, Nat.add_mod, ht, ih, ← Nat.add_mod]

/-- **the lazy slot is the Montgomery inner product**: `slot·2^64 ≡ Σ key_k·digit_k (mod p)` — with the key stored
in Montgomery form (`key = a·2^64 mod p`) the slot is `Σ a_k·digit_k mod p`, the row of the canonical `dotMat`. -/
theorem gpLazySlot_montgomery (p mrc : Nat) (fam : List Nat) (hp : 0 < p) (hmem : p ∈ fam)
    (hfam : ∀ q ∈ fam, 8 * q ≤ W) (hm : MontConst p mrc)
    (rs cs : List Nat) (hr : ∀ r ∈ rs, r < p) (hc : ∀ c ∈ cs, c < 6 * p) :
    lazySlot p mrc (lazyMargin fam) rs cs * W % p = (List.zipWith (fun r c => r * c) rs cs).sum % p
      ∧ lazySlot p mrc (lazyMargin fam) rs cs < p := by
  have h8 : 8 * p ≤ W := hfam p hmem
  rw [gpLazySlot_exact p mrc fam hp hmem hfam rs cs hr hc]
  refine ⟨?_, Nat.mod_lt _ hp⟩
  rw [Nat.mod_mul_mod]
  exact mredLazy_sum_mont p mrc hm (by omega) rs cs hr (fun c h => by have := hc c h; unfold W at *; omega)

/-! ### limb level (what the driver op `gplazyw` computes) -/

theorem getElem!_mem_or_zero (row : List Nat) (j : Nat) : row[j]! ∈ row ∨ row[j]! = 0 := by
  by_cases h : j < row.length
  · left; rw [getElem!_pos row j h]; exact List.getElem_mem h
  · right; rw [getElem!_neg row j h]; rfl

theorem transpose_mem {rows : List (List Nat)} {col : List Nat} (h : col ∈ RPoly.transpose rows) :
    ∀ x ∈ col, x = 0 ∨ ∃ row ∈ rows, x ∈ row := by
  intro x hx
  cases rows with
  | nil => simp [RPoly.transpose] at h
  | cons r rest =>
    simp only [RPoly.transpose, List.mem_map, List.mem_range] at h
    obtain ⟨j, _, rfl⟩ := h
    simp only [List.mem_map] at hx
    obtain ⟨row, hrow, rfl⟩ := hx
    rcases getElem!_mem_or_zero row j with h1 | h1
    · right; exact ⟨row, hrow, h1⟩
    · left; exact h1

/-- **gpLazyLimb_exact**: every slot of a limb of the lazy accumulators (`gplazyw`) is the exact sum modulo `p` -/
theorem gpLazyLimb_exact (p mrc : Nat) (fam : List Nat) (hp : 0 < p) (hmem : p ∈ fam)
    (hfam : ∀ q ∈ fam, 8 * q ≤ W) (R C : List (List Nat))
    (hR : ∀ row ∈ R, ∀ x ∈ row, x < p) (hC : ∀ row ∈ C, ∀ x ∈ row, x < 6 * p) :
    gpLazyLimb p mrc fam R C
      = (List.zip (RPoly.transpose R) (RPoly.transpose C)).map fun (rs, cs) =>
          (List.zipWith (fun r c => Gen.MRedLazy r c p mrc) rs cs).sum % p := by
  unfold gpLazyLimb
  apply List.map_congr_left
  rintro ⟨rs, cs⟩ hmemz
  have h1 := (List.of_mem_zip hmemz).1
  have h2 := (List.of_mem_zip hmemz).2
  apply gpLazySlot_exact p mrc fam hp hmem hfam rs cs
  · intro r hr
    rcases transpose_mem h1 r hr with h0 | ⟨row, hrow, hx⟩
    · omega
    · exact hR row hrow r hx
  · intro c hc
    rcases transpose_mem h2 c hc with h0 | ⟨row, hrow, hx⟩
    · omega
    · exact hC row hrow c hx

end Lattigo.KS
