/-
  Soundness of `BGV.step` (message level): each public evaluator call computes the
  corresponding slot-wise Z_t operation on the decoded messages.
-/
import Lattigo.Proofs.BGVSound

namespace Lattigo.BGV

/-- message of the second operand -/
def argMsg (t n : Nat) (a : Reg) (b : Arg) : List (ZMod t) :=
  match b.reg? a with
  | some rb => msg t rb
  | Option.none =>
    if b.isScalar then List.replicate a.slots.length ((b.scalar t : Nat) : ZMod t)
    else cz t ((b.vec? t n).getD [])

theorem addSub_sound (c : Cfg) [Fact c.t.Prime] (ht : c.t < 2 ^ 64) (isSub : Bool) (o : Out)
    (a : Reg) (b : Arg) (r : Reg)
    (ha : (a.scale : ZMod c.t) ≠ 0)
    (hb : ∀ rb, b.reg? a = some rb → (rb.scale : ZMod c.t) ≠ 0)
    (h : addSub c isSub o a b = .ok [r]) :
    msg c.t r = if isSub then zsub (msg c.t a) (argMsg c.t c.n a b) else zadd (msg c.t a) (argMsg c.t c.n a b) := by
  unfold addSub at h
  unfold argMsg
  cases hreg : b.reg? a with
  | some rb =>
    have hms := matchScales_spec ht a.scale rb.scale ha (hb rb hreg)
    simp only [hreg] at h ⊢
    split_ifs at h with h1 h2 h3
    all_goals (try simp only [ok1] at h)
    all_goals (cases h)
    all_goals (simp only [msg, if_true, if_false, *])
    · rw [← h2]; exact sub_same _ _ _
    · rw [← h2]; exact addsub_same _ _ _
    · exact sub_matched _ _ _ _ _ _ ha (hb rb hreg) hms.2.1 hms.1
    · exact add_matched _ _ _ _ _ _ ha (hb rb hreg) hms.2.1 hms.1
  | none =>
    simp only [hreg] at h ⊢
    split_ifs at h with h1 h2 h3
    all_goals (try simp only [ok1] at h)
    · cases h
      simp only [msg, if_true, if_false, *]
      exact sub_scalar _ _ _ ha
    · cases h
      simp only [msg, if_true, if_false, *]
      exact add_scalar _ _ _ ha
    · cases hv : b.vec? c.t c.n with
      | none => simp [hv] at h
      | some v =>
        simp only [hv, ok1] at h
        cases h
        simp only [msg, hv, Option.getD_some, if_true, if_false, *]
        exact sub_vec _ _ _ ha
    · cases hv : b.vec? c.t c.n with
      | none => simp [hv] at h
      | some v =>
        simp only [hv, ok1] at h
        cases h
        simp only [msg, hv, Option.getD_some, if_true, if_false, *]
        exact add_vec _ _ _ ha


theorem addSub_scale_ne (c : Cfg) [Fact c.t.Prime] (ht : c.t < 2 ^ 64) (isSub : Bool) (o : Out)
    (a : Reg) (b : Arg) (r : Reg)
    (ha : (a.scale : ZMod c.t) ≠ 0)
    (hb : ∀ rb, b.reg? a = some rb → (rb.scale : ZMod c.t) ≠ 0)
    (h : addSub c isSub o a b = .ok [r]) : (r.scale : ZMod c.t) ≠ 0 := by
  unfold addSub at h
  cases hreg : b.reg? a with
  | some rb =>
    have hms := matchScales_spec ht a.scale rb.scale ha (hb rb hreg)
    simp only [hreg] at h
    split_ifs at h with h1 h2 h3
    all_goals (try simp only [ok1] at h)
    all_goals (cases h)
    all_goals (dsimp only)
    all_goals (first | exact ha | (rw [mulmod_cast]; exact mul_ne_zero ha hms.2.1))
  | none =>
    simp only [hreg] at h
    split_ifs at h with h1 h2 h3
    all_goals (try simp only [ok1] at h)
    · cases h; exact ha
    · cases h; exact ha
    · cases hv : b.vec? c.t c.n with
      | none => simp [hv] at h
      | some v => simp only [hv, ok1] at h; cases h; exact ha
    · cases hv : b.vec? c.t c.n with
      | none => simp [hv] at h
      | some v => simp only [hv, ok1] at h; cases h; exact ha

/-! ### Q_ℓ and q_ℓ are invertible modulo t when no q divides... (t prime, q ≢ 0) -/

theorem foldl_qmod (t : Nat) [Fact t.Prime] :
    ∀ (l : List Nat) (acc : Nat), acc < t → (acc : ZMod t) ≠ 0 → (∀ q ∈ l, (q : ZMod t) ≠ 0) →
      l.foldl (fun acc q => acc * (q % t) % t) acc < t
      ∧ ((l.foldl (fun acc q => acc * (q % t) % t) acc : Nat) : ZMod t) ≠ 0 := by
  have hp : t.Prime := Fact.out
  intro l
  induction l with
  | nil => intro acc h1 h2 _; exact ⟨h1, h2⟩
  | cons q l ih =>
    intro acc h1 h2 hq
    simp only [List.foldl_cons]
    apply ih
    · exact Nat.mod_lt _ hp.pos
    · rw [mulmod_cast, ZMod.natCast_mod]
      exact mul_ne_zero h2 (hq q (List.mem_cons_self))
    · intro q' hq'; exact hq q' (List.mem_cons_of_mem _ hq')

theorem qModT_spec (c : Cfg) [Fact c.t.Prime] (hQ : ∀ q ∈ c.qs, (q : ZMod c.t) ≠ 0) (l : Nat) :
    qModT c l < c.t ∧ ((qModT c l : Nat) : ZMod c.t) ≠ 0 := by
  have hp : c.t.Prime := Fact.out
  unfold qModT
  apply foldl_qmod
  · exact Nat.mod_lt _ hp.pos
  · rw [Nat.mod_eq_of_lt hp.one_lt]; simp
  · intro q hq; exact hQ q (List.mem_of_mem_take hq)

theorem kSI_ne (c : Cfg) [Fact c.t.Prime] (ht : c.t < 2 ^ 64) (hQ : ∀ q ∈ c.qs, (q : ZMod c.t) ≠ 0) (l : Nat) :
    ((inv c.t (c.t - qModT c l) : Nat) : ZMod c.t) ≠ 0 := by
  obtain ⟨hlt, hne⟩ := qModT_spec c hQ l
  have hcast : ((c.t - qModT c l : Nat) : ZMod c.t) ≠ 0 := by
    rw [Nat.cast_sub (le_of_lt hlt)]; simpa using hne
  rw [inv_cast ht _ hcast]
  exact inv_ne_zero hcast

theorem qmod_ne (c : Cfg) [Fact c.t.Prime] (hQ : ∀ q ∈ c.qs, (q : ZMod c.t) ≠ 0) (l : Nat) :
    ((c.qs.getD l 1 % c.t : Nat) : ZMod c.t) ≠ 0 := by
    rw [ZMod.natCast_mod]
    by_cases hl : l < c.qs.length
    · have h1 : c.qs.getD l 1 = c.qs[l] := by simp [List.getD, List.getElem?_eq_getElem hl]
      rw [h1]; exact hQ _ (List.getElem_mem hl)
    · have h1 : c.qs.getD l 1 = 1 := by simp [List.getD, List.getElem?_eq_none (by omega : c.qs.length ≤ l)]
      rw [h1]; simp

theorem qi_ne (c : Cfg) [Fact c.t.Prime] (ht : c.t < 2 ^ 64) (hQ : ∀ q ∈ c.qs, (q : ZMod c.t) ≠ 0) (l : Nat) :
    ((inv c.t (c.qs.getD l 1 % c.t) : Nat) : ZMod c.t) ≠ 0 := by
  have hcast : ((c.qs.getD l 1 % c.t : Nat) : ZMod c.t) ≠ 0 := by
    rw [ZMod.natCast_mod]
    by_cases hl : l < c.qs.length
    · have h1 : c.qs.getD l 1 = c.qs[l] := by simp [List.getD, List.getElem?_eq_getElem hl]
      rw [h1]; exact hQ _ (List.getElem_mem hl)
    · have h1 : c.qs.getD l 1 = 1 := by simp [List.getD, List.getElem?_eq_none (by omega : c.qs.length ≤ l)]
      rw [h1]; simp
  rw [inv_cast ht _ hcast]
  exact inv_ne_zero hcast

/-! ### products -/

theorem tensorStd_sound (c : Cfg) [Fact c.t.Prime] (relin : Bool) (a b : Reg) (lvl : Nat) (r : Reg)
    (h : tensorStd c relin a b lvl = .ok [r]) :
    msg c.t r = zmul (msg c.t a) (msg c.t b) ∧ (r.scale : ZMod c.t) = (a.scale : ZMod c.t) * b.scale := by
  unfold tensorStd at h
  split_ifs at h
  all_goals (try simp only [ok1] at h)
  all_goals (cases h)
  all_goals (simp only [msg])
  all_goals (exact ⟨mul_std _ _ _ _, mulmod_cast _ _⟩)

theorem tensorSI_sound (c : Cfg) [Fact c.t.Prime] (ht : c.t < 2 ^ 64) (hQ : ∀ q ∈ c.qs, (q : ZMod c.t) ≠ 0)
    (relin : Bool) (a b : Reg) (lvl : Nat) (r : Reg)
    (h : tensorSI c relin a b lvl = .ok [r]) :
    msg c.t r = zmul (msg c.t a) (msg c.t b)
    ∧ (r.scale : ZMod c.t) = (a.scale : ZMod c.t) * b.scale * ((c.t - qModT c lvl : Nat) : ZMod c.t)⁻¹ := by
  have hk := kSI_ne c ht hQ lvl
  obtain ⟨hlt, hne⟩ := qModT_spec c hQ lvl
  have hcast : ((c.t - qModT c lvl : Nat) : ZMod c.t) ≠ 0 := by
    rw [Nat.cast_sub (le_of_lt hlt)]; simpa using hne
  unfold tensorSI at h
  split_ifs at h
  all_goals (try simp only [ok1] at h)
  all_goals (cases h)
  all_goals (simp only [msg])
  all_goals (refine ⟨mul_si _ _ _ _ _ hk, ?_⟩)
  all_goals (rw [mulmod_cast, mulmod_cast, inv_cast ht _ hcast])

theorem outReg_scale (c : Cfg) (o : Out) (a : Reg) (d l d' l' : Nat) :
    (outReg c o a d l).scale = (outReg c o a d' l').scale := by
  cases o <;> rfl

theorem mulScalar_sound (c : Cfg) [Fact c.t.Prime] (o : Out) (a : Reg) (z : Nat) (r : Reg)
    (h : mulScalar c o a z = .ok [r]) :
    msg c.t r = zmul (msg c.t a) (List.replicate a.slots.length (z : ZMod c.t)) ∧ r.scale = a.scale := by
  unfold mulScalar at h
  simp only [ok1] at h
  cases h
  simp only [msg]
  exact ⟨mul_scalar _ _ _, trivial⟩

theorem one_mod_ne (t : Nat) [Fact t.Prime] : ((1 % t : Nat) : ZMod t) ≠ 0 := by
  have hp : t.Prime := Fact.out
  rw [Nat.mod_eq_of_lt hp.one_lt]; simp

theorem tq_ne (c : Cfg) [Fact c.t.Prime] (hQ : ∀ q ∈ c.qs, (q : ZMod c.t) ≠ 0) (l : Nat) :
    ((c.t - qModT c l : Nat) : ZMod c.t) ≠ 0 := by
  obtain ⟨hlt, hne⟩ := qModT_spec c hQ l
  rw [Nat.cast_sub (le_of_lt hlt)]; simpa using hne

theorem pack_std {t : Nat} [Fact t.Prime] {P : Prop} {r a b : Reg}
    (H : P ∧ (r.scale : ZMod t) = (a.scale : ZMod t) * b.scale)
    (ha : (a.scale : ZMod t) ≠ 0) (hb : (b.scale : ZMod t) ≠ 0) : P ∧ (r.scale : ZMod t) ≠ 0 :=
  ⟨H.1, by rw [H.2]; exact mul_ne_zero ha hb⟩

theorem pack_si {t : Nat} [Fact t.Prime] {P : Prop} {r a b : Reg} {x : ZMod t}
    (H : P ∧ (r.scale : ZMod t) = (a.scale : ZMod t) * b.scale * x⁻¹)
    (ha : (a.scale : ZMod t) ≠ 0) (hb : (b.scale : ZMod t) ≠ 0) (hx : x ≠ 0) : P ∧ (r.scale : ZMod t) ≠ 0 :=
  ⟨H.1, by rw [H.2]; exact mul_ne_zero (mul_ne_zero ha hb) (inv_ne_zero hx)⟩

theorem pack_scalar {t : Nat} {P : Prop} {r a : Reg}
    (H : P ∧ r.scale = a.scale) (ha : (a.scale : ZMod t) ≠ 0) : P ∧ (r.scale : ZMod t) ≠ 0 :=
  ⟨H.1, by rw [H.2]; exact ha⟩

theorem ptOf_scale_ne {t : Nat} [Fact t.Prime] (l : Nat) (v : List Nat) :
    ((ptOf l (1 % t) t v).scale : ZMod t) ≠ 0 := by
  simp only [ptOf]; exact one_mod_ne t

theorem mulStd_sound (c : Cfg) [Fact c.t.Prime] (relin : Bool) (o : Out) (a : Reg) (b : Arg) (d : Nat) (r : Reg)
    (ha : (a.scale : ZMod c.t) ≠ 0) (hb : ∀ rb, b.reg? a = some rb → (rb.scale : ZMod c.t) ≠ 0)
    (h : mulStd c relin o a b d = .ok [r]) :
    msg c.t r = zmul (msg c.t a) (argMsg c.t c.n a b) ∧ (r.scale : ZMod c.t) ≠ 0 := by
  unfold mulStd at h
  unfold argMsg
  cases hreg : b.reg? a with
  | some rb =>
    simp only [hreg] at h ⊢
    by_cases hbc : binChk a rb = true
    · rw [if_neg (not_not.mpr hbc)] at h
      exact pack_std (tensorStd_sound c relin a rb _ r h) ha (hb rb hreg)
    · rw [if_pos hbc] at h; cases h
  | none =>
    simp only [hreg] at h ⊢
    by_cases h1 : b.isScalar = true
    · rw [if_pos h1] at h
      simp only [h1, if_true]
      exact pack_scalar (mulScalar_sound c o a _ r h) ha
    · rw [if_neg h1] at h
      by_cases h2 : b.isVec = true
      · rw [if_pos h2] at h
        cases hv : b.vec? c.t c.n with
        | none => simp [hv] at h
        | some v =>
          simp only [hv] at h
          by_cases hbc : binChk a (ptOf (min a.level (outReg c o a d a.level).level) (1 % c.t) c.t v) = true
          · rw [if_neg (not_not.mpr hbc)] at h
            simp only [h1, hv, Option.getD_some]
            rw [← msg_ptOf (min a.level (outReg c o a d a.level).level) (1 % c.t) v (one_mod_ne c.t)]
            exact pack_std (tensorStd_sound c false a _ _ r h) ha (ptOf_scale_ne _ _)
          · rw [if_pos hbc] at h; cases h
      · rw [if_neg h2] at h; cases h

theorem mulInv_sound (c : Cfg) [Fact c.t.Prime] (ht : c.t < 2 ^ 64) (hQ : ∀ q ∈ c.qs, (q : ZMod c.t) ≠ 0)
    (relin : Bool) (o : Out) (a : Reg) (b : Arg) (d : Nat) (r : Reg)
    (ha : (a.scale : ZMod c.t) ≠ 0) (hb : ∀ rb, b.reg? a = some rb → (rb.scale : ZMod c.t) ≠ 0)
    (h : mulInv c relin o a b d = .ok [r]) :
    msg c.t r = zmul (msg c.t a) (argMsg c.t c.n a b) ∧ (r.scale : ZMod c.t) ≠ 0 := by
  unfold mulInv at h
  unfold argMsg
  cases hreg : b.reg? a with
  | some rb =>
    simp only [hreg] at h ⊢
    by_cases hbc : binChk a rb = true
    · rw [if_neg (not_not.mpr hbc)] at h
      by_cases hd : rb.degree = 0
      · rw [if_pos hd] at h
        exact pack_std (tensorStd_sound c relin a rb _ r h) ha (hb rb hreg)
      · rw [if_neg hd] at h
        exact pack_si (tensorSI_sound c ht hQ relin a rb _ r h) ha (hb rb hreg) (tq_ne c hQ _)
    · rw [if_pos hbc] at h; cases h
  | none =>
    simp only [hreg] at h ⊢
    by_cases h1 : b.isScalar = true
    · rw [if_pos h1] at h
      simp only [h1, if_true]
      exact pack_scalar (mulScalar_sound c o a _ r h) ha
    · rw [if_neg h1] at h
      by_cases h2 : b.isVec = true
      · rw [if_pos h2] at h
        cases hv : b.vec? c.t c.n with
        | none => simp [hv] at h
        | some v =>
          simp only [hv] at h
          simp only [h1, hv, Option.getD_some]
          rw [← msg_ptOf (min a.level (outReg c o a d a.level).level) (1 % c.t) v (one_mod_ne c.t)]
          exact pack_std (tensorStd_sound c relin a _ _ r h) ha (ptOf_scale_ne _ _)
      · rw [if_neg h2] at h; cases h

theorem mulOp_sound (c : Cfg) [Fact c.t.Prime] (ht : c.t < 2 ^ 64) (hQ : ∀ q ∈ c.qs, (q : ZMod c.t) ≠ 0)
    (op : Op) (o : Out) (a : Reg) (b : Arg) (r : Reg)
    (ha : (a.scale : ZMod c.t) ≠ 0) (hb : ∀ rb, b.reg? a = some rb → (rb.scale : ZMod c.t) ≠ 0)
    (h : mulOp c op o a b = .ok [r]) :
    msg c.t r = zmul (msg c.t a) (argMsg c.t c.n a b) ∧ (r.scale : ZMod c.t) ≠ 0 := by
  unfold mulOp at h
  cases op
  all_goals (simp only at h)
  all_goals (try (cases h; done))
  all_goals (try split_ifs at h)
  all_goals (first
    | exact mulInv_sound c ht hQ _ o a b _ r ha hb h
    | exact mulStd_sound c _ o a b _ r ha hb h)

/-! ### accumulate -/

theorem acc_scalar {t : Nat} [Fact t.Prime] (so sa z zz : Nat) (R A : List Nat)
    (hso : (so : ZMod t) ≠ 0) (hsa : (sa : ZMod t) ≠ 0)
    (hz : (zz : ZMod t) = (z : ZMod t) * (sa : ZMod t)⁻¹ * so) :
    (cz t (vadd t R (vscale t zz A))).map (fun x => x * (so : ZMod t)⁻¹)
      = zadd ((cz t R).map fun x => x * (so : ZMod t)⁻¹)
          (zmul ((cz t A).map fun x => x * (sa : ZMod t)⁻¹) (List.replicate A.length (z : ZMod t))) := by
  rw [cz_vadd, cz_vscale]
  simp only [zmul]
  rw [zipWith_replicate_right _ _ _ _ (by simp [cz])]
  simp only [zadd, List.map_zipWith, List.zipWith_map, List.zipWith_map_left, List.zipWith_map_right,
    List.map_map]
  congr 1; funext x y; simp only [Function.comp]; rw [hz]; field_simp

theorem scale_both {t : Nat} [Fact t.Prime] (s k : Nat) (A : List Nat) (hk : (k : ZMod t) ≠ 0) :
    (cz t (vscale t k A)).map (fun x => x * ((s * k % t : Nat) : ZMod t)⁻¹)
      = (cz t A).map fun x => x * (s : ZMod t)⁻¹ := by
  rw [cz_vscale, mulmod_cast, List.map_map]
  congr 1; funext x; simp only [Function.comp, mul_inv]; field_simp

theorem accReg_sound (c : Cfg) [Fact c.t.Prime] (ht : c.t < 2 ^ 64) (relin : Bool) (a b R : Reg) (lvl : Nat)
    (r : Reg) (ha : (a.scale : ZMod c.t) ≠ 0) (hb : (b.scale : ZMod c.t) ≠ 0) (hR : (R.scale : ZMod c.t) ≠ 0)
    (h : accReg c relin a b R lvl = .ok [r]) :
    msg c.t r = zadd (msg c.t R) (zmul (msg c.t a) (msg c.t b)) ∧ (r.scale : ZMod c.t) ≠ 0 := by
  have htg : ((a.scale * b.scale % c.t : Nat) : ZMod c.t) ≠ 0 := by
    rw [mulmod_cast]; exact mul_ne_zero ha hb
  have hms := matchScales_spec ht (a.scale * b.scale % c.t) R.scale htg hR
  unfold accReg at h
  by_cases h1 : a.degree = 0
  · rw [if_pos h1] at h; cases h
  · rw [if_neg h1] at h
    by_cases h2 : (a.degree = 1 ∧ b.degree = 1) ∧ relin = true ∧ c.rlk = false
    · rw [if_pos h2] at h; cases h
    · rw [if_neg h2] at h
      by_cases heq : R.scale = a.scale * b.scale % c.t
      · rw [if_pos heq] at h
        simp only [ok1] at h; cases h
        simp only [msg]
        refine ⟨?_, hR⟩
        rw [addsub_same]; congr 1; rw [heq]; exact mul_std _ _ _ _
      · rw [if_neg heq] at h
        simp only [ok1] at h; cases h
        simp only [msg]
        refine ⟨?_, ?_⟩
        · rw [add_matched R.scale (a.scale * b.scale % c.t) _ _ R.slots (vmul c.t a.slots b.slots) hR htg
            hms.2.2 hms.1.symm]
          congr 1; exact mul_std _ _ _ _
        · rw [mulmod_cast]; exact mul_ne_zero hR hms.2.2

theorem accScalar_cast {t : Nat} [Fact t.Prime] (ht : t < 2 ^ 64) (sa so z : Nat)
    (hsa : (sa : ZMod t) ≠ 0) :
    ((accScalar t sa so z : Nat) : ZMod t) = (z : ZMod t) * (sa : ZMod t)⁻¹ * so := by
  unfold accScalar
  split
  · rename_i h; rw [← h]; field_simp
  · rw [mulmod_cast, mulmod_cast, inv_cast ht _ hsa]; ring

theorem accPtScale_ne {t : Nat} [Fact t.Prime] (ht : t < 2 ^ 64) (sa so : Nat)
    (hsa : (sa : ZMod t) ≠ 0) (hso : (so : ZMod t) ≠ 0) : ((accPtScale t sa so : Nat) : ZMod t) ≠ 0 := by
  unfold accPtScale
  split
  · exact one_mod_ne t
  · rw [mulmod_cast, inv_cast ht _ hsa]; exact mul_ne_zero (inv_ne_zero hsa) hso

theorem accOp_sound (c : Cfg) [Fact c.t.Prime] (ht : c.t < 2 ^ 64) (relin : Bool) (o : Out) (a : Reg) (b : Arg)
    (r : Reg) (ha : (a.scale : ZMod c.t) ≠ 0)
    (hb : ∀ rb, b.reg? a = some rb → (rb.scale : ZMod c.t) ≠ 0)
    (hR : ∀ R, o = .into R → (R.scale : ZMod c.t) ≠ 0)
    (h : accOp c relin o a b = .ok [r]) :
    ∃ R, o = .into R ∧ msg c.t r = zadd (msg c.t R) (zmul (msg c.t a) (argMsg c.t c.n a b))
      ∧ (r.scale : ZMod c.t) ≠ 0 := by
  unfold accOp at h
  cases o with
  | new => cases h
  | inp => cases h
  | into R =>
    refine ⟨R, rfl, ?_⟩
    have hR' := hR R rfl
    simp only at h
    unfold argMsg
    cases hreg : b.reg? a with
    | some rb =>
      simp only [hreg] at h ⊢
      by_cases hbc : binChk a rb = true
      · rw [if_neg (not_not.mpr hbc)] at h
        exact accReg_sound c ht _ a rb R _ r ha (hb rb hreg) hR' h
      · rw [if_pos hbc] at h; cases h
    | none =>
      simp only [hreg] at h ⊢
      by_cases h1 : b.isScalar = true
      · rw [if_pos h1] at h
        simp only [h1, if_true]
        simp only [ok1] at h; cases h
        simp only [msg]
        exact ⟨acc_scalar _ _ _ _ _ _ hR' ha (accScalar_cast ht _ _ _ ha), hR'⟩
      · rw [if_neg h1] at h
        by_cases h2 : b.isVec = true
        · rw [if_pos h2] at h
          cases hv : b.vec? c.t c.n with
          | none => simp [hv] at h
          | some v =>
            simp only [hv] at h
            have hps := accPtScale_ne ht a.scale R.scale ha hR'
            by_cases hbc : binChk a (ptOf (min a.level R.level) (accPtScale c.t a.scale R.scale) c.t v) = true
            · rw [if_neg (not_not.mpr hbc)] at h
              simp only [h1, hv, Option.getD_some]
              have := accReg_sound c ht false a _ R _ r ha (by simpa [ptOf] using hps) hR' h
              rw [msg_ptOf _ _ v hps] at this
              exact this
            · rw [if_pos hbc] at h; cases h
        · rw [if_neg h2] at h; cases h

/-! ### unary operations -/

theorem rescaleOp_sound (c : Cfg) [Fact c.t.Prime] (ht : c.t < 2 ^ 64) (hQ : ∀ q ∈ c.qs, (q : ZMod c.t) ≠ 0)
    (o : Out) (a : Reg) (r : Reg) (ha : (a.scale : ZMod c.t) ≠ 0)
    (h : rescaleOp c o a = .ok [r]) :
    msg c.t r = msg c.t a ∧ (r.scale : ZMod c.t) ≠ 0
    ∧ (c.si = false → (r.scale : ZMod c.t) = (a.scale : ZMod c.t) * ((c.qs.getD a.level 1 : Nat) : ZMod c.t)⁻¹
        ∧ r.level + 1 = a.level ∧ r.degree = a.degree)
    ∧ (c.si = true → r = a) := by
  have hqi := qi_ne c ht hQ a.level
  have hq := qmod_ne c hQ a.level
  unfold rescaleOp at h
  cases hsi : c.si
  case true =>
    rw [hsi, if_pos rfl] at h
    simp only [ok1] at h; cases h
    exact ⟨rfl, ha, fun h => absurd h (by decide), fun _ => rfl⟩
  rw [hsi] at h
  rw [if_neg Bool.false_ne_true] at h
  by_cases h1 : a.level = 0
  · rw [if_pos h1] at h; cases h
  · rw [if_neg h1] at h
    by_cases h2 : (outReg c o a a.degree a.level).level + 1 < a.level
    · rw [if_pos h2] at h; cases h
    · rw [if_neg h2] at h
      simp only [ok1] at h; cases h
      simp only [msg]
      refine ⟨scale_both _ _ _ hqi, ?_, fun _ => ⟨?_, ?_, trivial⟩, fun h => absurd h (by decide)⟩
      · rw [mulmod_cast]; exact mul_ne_zero ha hqi
      · rw [mulmod_cast, inv_cast ht _ hq, ZMod.natCast_mod]
      · show a.level - 1 + 1 = a.level
        omega

theorem relinOp_sound (c : Cfg) (o : Out) (a : Reg) (r : Reg) (h : relinOp c o a = .ok [r]) :
    msg c.t r = msg c.t a ∧ r.scale = a.scale ∧ r.degree = 1 ∧ a.degree = 2 ∧ c.rlk = true := by
  unfold relinOp at h
  by_cases h1 : a.degree ≠ 2
  · rw [if_pos h1] at h; cases h
  · rw [if_neg h1] at h
    by_cases h2 : ¬ c.rlk = true
    · rw [if_pos h2] at h; cases h
    · rw [if_neg h2] at h
      by_cases h3 : (outReg c o a 1 a.level).degree = 0
      · rw [if_pos h3] at h; cases h
      · rw [if_neg h3] at h
        simp only [ok1] at h; cases h
        exact ⟨rfl, rfl, rfl, not_not.mp h1, not_not.mp h2⟩

theorem dropOp_sound (t : Nat) (a : Reg) (k : Nat) (r : Reg) (h : dropOp a k = .ok [r]) :
    msg t r = msg t a ∧ r.scale = a.scale ∧ r.level = a.level - k ∧ r.degree = a.degree ∧ k ≤ a.level := by
  unfold dropOp at h
  by_cases h1 : k > a.level
  · rw [if_pos h1] at h; cases h
  · rw [if_neg h1] at h
    simp only [ok1] at h; cases h
    exact ⟨rfl, rfl, rfl, rfl, by omega⟩

theorem matchOp_sound (c : Cfg) [Fact c.t.Prime] (ht : c.t < 2 ^ 64) (a b : Reg) (r1 r2 : Reg)
    (ha : (a.scale : ZMod c.t) ≠ 0) (hb : (b.scale : ZMod c.t) ≠ 0)
    (h : matchOp c a b = .ok [r1, r2]) :
    msg c.t r1 = msg c.t a ∧ msg c.t r2 = msg c.t b
    ∧ (r1.scale : ZMod c.t) = (r2.scale : ZMod c.t) ∧ (r1.scale : ZMod c.t) ≠ 0 ∧ (r2.scale : ZMod c.t) ≠ 0
    ∧ r1.level = min a.level b.level ∧ r2.level = min a.level b.level := by
  have hms := matchScales_spec ht a.scale b.scale ha hb
  unfold matchOp at h
  simp only at h
  cases h
  simp only [msg]
  refine ⟨scale_both _ _ _ hms.2.1, scale_both _ _ _ hms.2.2, ?_, ?_, ?_, by first | rfl | trivial, by first | rfl | trivial⟩
  · rw [mulmod_cast, mulmod_cast, mul_comm, hms.1, mul_comm]
  · rw [mulmod_cast]; exact mul_ne_zero ha hms.2.1
  · rw [mulmod_cast]; exact mul_ne_zero hb hms.2.2

end Lattigo.BGV
