/-
  Integer encoder (schemes/bgv/encoder.go): DecodeRingT ∘ EncodeRingT = id (mod t), the int64
  centring rule, and the level-0 RingQ2T ∘ RingT2Q round trip.
-/
import Lattigo.Model.EncoderT
import Mathlib.Data.List.Nodup
import Mathlib.Data.ZMod.Basic
import Mathlib.Tactic.Ring

namespace Lattigo.EncoderT
open Lattigo

/-! ### the scatter loop -/

theorem setAll_length : ∀ (ps vs buf : List Nat), (setAll ps vs buf).length = buf.length
  | [], _, _ => by simp [setAll]
  | _ :: _, [], _ => by simp [setAll]
  | p :: ps, v :: vs, buf => by simp [setAll, setAll_length ps vs]

theorem setAll_forall (P : Nat → Prop) : ∀ (ps vs buf : List Nat),
    (∀ e ∈ buf, P e) → (∀ v ∈ vs, P v) → ∀ e ∈ setAll ps vs buf, P e
  | [], _, _ => by intro hb _ e he; simp only [setAll] at he; exact hb e he
  | _ :: _, [], _ => by intro hb _ e he; simp only [setAll] at he; exact hb e he
  | p :: ps, v :: vs, buf => by
    intro hb hv e he
    simp only [setAll] at he
    refine setAll_forall P ps vs (buf.set p v) ?_ (fun w hw => hv w (List.mem_cons_of_mem _ hw)) e he
    intro x hx
    rcases List.mem_or_eq_of_mem_set hx with h | h
    · exact hb x h
    · rw [h]; exact hv v (List.mem_cons_self)

theorem setAll_getD_of_not_mem : ∀ (ps vs buf : List Nat) (q : Nat), q ∉ ps →
    (setAll ps vs buf).getD q 0 = buf.getD q 0
  | [], _, _, _ => by intro _; simp [setAll]
  | _ :: _, [], _, _ => by intro _; simp [setAll]
  | p :: ps, v :: vs, buf, q => by
    intro h
    have hne : p ≠ q := fun e => h (by rw [e]; exact List.mem_cons_self)
    have hq : q ∉ ps := fun e => h (List.mem_cons_of_mem _ e)
    simp only [setAll]
    rw [setAll_getD_of_not_mem ps vs (buf.set p v) q hq]
    simp [List.getD_eq_getElem?_getD, List.getElem?_set, hne]

theorem setAll_getD : ∀ (ps vs buf : List Nat), ps.Nodup → (∀ p ∈ ps, p < buf.length) →
    ∀ (i : Nat) (hi : i < ps.length) (hv : i < vs.length), (setAll ps vs buf).getD ps[i] 0 = vs[i]
  | [], _, _ => by intro _ _ i hi; simp at hi
  | _ :: _, [], _ => by intro _ _ i _ hv; simp at hv
  | p :: ps, v :: vs, buf => by
    intro hnd hlt i hi hv
    have hnd' := List.nodup_cons.mp hnd
    simp only [setAll]
    cases i with
    | zero =>
      simp only [List.getElem_cons_zero]
      rw [setAll_getD_of_not_mem ps vs (buf.set p v) p hnd'.1]
      have hp : p < buf.length := hlt p List.mem_cons_self
      simp [List.getD_eq_getElem?_getD, List.getElem?_set, hp]
    | succ i =>
      simp only [List.getElem_cons_succ]
      exact setAll_getD ps vs (buf.set p v) hnd'.2
        (by intro q hq; rw [List.length_set]; exact hlt q (List.mem_cons_of_mem _ hq)) i
        (by simpa using hi) (by simpa using hv)

/-! ### scalar multiplication by the scale and its inverse -/

theorem mulScalar_inv (t s si : Nat) (h : s * si % t = 1) (y : List Nat) (hy : ∀ e ∈ y, e < t) :
    mulScalar t si (mulScalar t s y) = y := by
  unfold mulScalar
  rw [List.map_map]
  conv_rhs => rw [← List.map_id y]
  apply List.map_congr_left
  intro e he
  simp only [Function.comp, id]
  rw [Nat.mod_mul_mod, mul_assoc, Nat.mul_mod, h, mul_one, Nat.mod_mod, Nat.mod_eq_of_lt (hy e he)]

/-! ### DecodeRingT ∘ EncodeRingT -/

/-- the slot vector the uint64 path hands to INTT -/
def slotsU (t : Nat) (perm vals buf : List Nat) : List Nat :=
  zeroFill perm vals.length ((scatter perm vals buf).map (· % t))

theorem slotsU_length (t : Nat) (perm vals buf : List Nat) : (slotsU t perm vals buf).length = buf.length := by
  simp [slotsU, zeroFill, scatter, setAll_length]

theorem slotsU_lt (t : Nat) (ht : 0 < t) (perm vals buf : List Nat) : ∀ e ∈ slotsU t perm vals buf, e < t := by
  unfold slotsU zeroFill
  apply setAll_forall (fun e => e < t)
  · intro e he
    simp only [List.mem_map] at he
    obtain ⟨x, _, rfl⟩ := he
    exact Nat.mod_lt _ ht
  · intro v hv
    rw [List.eq_of_mem_replicate hv]; exact ht

theorem getD_map_mod (l : List Nat) (k t : Nat) : (l.map (· % t)).getD k 0 = (l.getD k 0) % t := by
  simp only [List.getD_eq_getElem?_getD, List.getElem?_map]
  cases l[k]? <;> simp

/-- value of the slot vector at position `perm[i]`: the i-th input residue, 0 beyond the input -/
theorem slotsU_get (t : Nat) (perm vals buf : List Nat) (hnd : perm.Nodup)
    (hlt : ∀ p ∈ perm, p < buf.length) (hvl : vals.length ≤ perm.length) (i : Nat) (hi : i < perm.length) :
    (slotsU t perm vals buf).getD perm[i] 0 = if h : i < vals.length then vals[i] % t else 0 := by
  unfold slotsU zeroFill scatter
  by_cases h : i < vals.length
  · rw [dif_pos h]
    have hnot : perm[i] ∉ perm.drop vals.length := by
      intro hm
      obtain ⟨j, hj, hje⟩ := List.getElem_of_mem hm
      rw [List.getElem_drop] at hje
      have := (List.Nodup.getElem_inj_iff hnd).mp hje
      omega
    rw [setAll_getD_of_not_mem _ _ _ _ hnot]
    have h1 := setAll_getD perm vals buf hnd hlt i hi h
    rw [getD_map_mod, h1]
  · rw [dif_neg h]
    have hj : i - vals.length < (perm.drop vals.length).length := by simp; omega
    have hpe : perm[i] = (perm.drop vals.length)[i - vals.length] := by
      rw [List.getElem_drop]; congr 1; omega
    rw [hpe]
    have := setAll_getD (perm.drop vals.length) (List.replicate (perm.length - vals.length) 0)
      ((setAll perm vals buf).map (· % t)) (List.Nodup.sublist (List.drop_sublist _ _) hnd)
      (by intro p hp; simp only [List.length_map, setAll_length]; exact hlt p (List.mem_of_mem_drop hp))
      (i - vals.length) hj (by simp; omega)
    rw [this]; simp

/-- **decode_encode_T** (uint64 path).  For every vector no longer than the slot count, every scale
    invertible modulo `t`, and any previous content of the buffer, `DecodeRingT(EncodeRingT(v))` returns
    `v mod t`, zero in the unspecified slots — GIVEN that the slot permutation has no repeated
    position (`hperm`, `hplt`) and that NTT∘INTT is the identity on reduced vectors over Z_t (`hntt`,
    with `hlt`: INTT returns reduced values). -/
theorem decode_encode_T (T : NTT.Tables) (perm vals buf p : List Nat) (scale len : Nat)
    (ht : 1 < T.q) (hperm : perm.Nodup) (hplt : ∀ q ∈ perm, q < T.n) (hbuf : buf.length = T.n)
    (hs : scale * scaleInv T.q scale % T.q = 1)
    (hntt : ∀ x : List Nat, x.length = T.n → (∀ e ∈ x, e < T.q) → NTT.nttStd T (NTT.inttStd T x) = x)
    (hlt : ∀ x : List Nat, x.length = T.n → ∀ e ∈ NTT.inttStd T x, e < T.q)
    (hlen : len ≤ perm.length)
    (henc : encodeRingTU T perm vals scale buf = some p) :
    decodeRingTU T perm scale p len
      = ((vals.map (· % T.q)) ++ List.replicate (perm.length - vals.length) 0).take len := by
  unfold encodeRingTU at henc
  by_cases hvl : vals.length > perm.length
  · rw [if_pos hvl] at henc; cases henc
  · rw [if_neg hvl] at henc
    have hvl' : vals.length ≤ perm.length := by omega
    have hx : p = mulScalar T.q scale (NTT.inttStd T (slotsU T.q perm vals buf)) := by
      simp only [Option.some.injEq] at henc; exact henc.symm
    have hxl : (slotsU T.q perm vals buf).length = T.n := by rw [slotsU_length, hbuf]
    have hxlt := slotsU_lt T.q (by omega) perm vals buf
    unfold decodeRingTU
    rw [hx, mulScalar_inv T.q scale _ hs _ (hlt _ hxl), hntt _ hxl hxlt]
    apply List.ext_getElem
    · simp; omega
    · intro i h1 h2
      have hi : i < perm.length := by simp at h1; omega
      have hil : i < len := by simp at h1; omega
      simp only [List.getElem_map, List.getElem_take]
      rw [slotsU_get T.q perm vals buf hperm (by intro q hq; rw [hbuf]; exact hplt q hq) hvl' i hi]
      by_cases h : i < vals.length
      · rw [dif_pos h, List.getElem_append_left (by simpa using h)]; simp
      · rw [dif_neg h, List.getElem_append_right (by simpa using h)]; simp

/-! ### signed outputs -/

/-- the centring rule as coded (`value >= T>>1 → value − T`): congruent to the residue, and in
    `[−⌈t/2⌉, ⌈t/2⌉ − 1]`, hence of absolute value at most `(t+1)/2`. -/
theorem centerI64_spec (t x : Nat) (hx : x < t) :
    (centerI64 t x - (x : Int)) % (t : Int) = 0
    ∧ -(((t + 1) / 2 : Nat) : Int) ≤ centerI64 t x ∧ centerI64 t x < (((t + 1) / 2 : Nat) : Int) := by
  unfold centerI64
  split
  · rename_i h
    refine ⟨?_, ?_, ?_⟩
    · have : ((x : Int) - t - x) = -(t : Int) := by ring
      rw [this]; simp
    · omega
    · omega
  · rename_i h
    refine ⟨by simp, ?_, ?_⟩ <;> omega

/-- the boundary: for odd `t` the residue `(t−1)/2` is decoded as the NEGATIVE `−(t+1)/2` -/
theorem centerI64_boundary (t : Nat) (hodd : t % 2 = 1) :
    centerI64 t ((t - 1) / 2) = -(((t + 1) / 2 : Nat) : Int) := by
  unfold centerI64
  have h : (t - 1) / 2 ≥ t / 2 := by omega
  rw [if_pos h]; omega

/-! ### the int64 sign trick -/

/-- For every Go `int64` value `c`, the residue produced by the sign trick is congruent to `c` and lies
    in `[0, t]` — `t` itself (not `0`) for negative multiples of `t`. -/
theorem i64Slot_spec (t : Nat) (c : Int) (ht : 0 < t) (hlo : -(2 ^ 63 : Int) ≤ c) (hhi : c < (2 ^ 63 : Int)) :
    ((i64Slot t c : Nat) : Int) ≡ c [ZMOD (t : Int)] ∧ i64Slot t c ≤ t := by
  unfold i64Slot
  simp only [W]
  have hW : ((18446744073709551616 : Nat) : Int) = (18446744073709551616 : Int) := by norm_num
  rw [hW]
  by_cases hc : 0 ≤ c
  · have hu : (c % (18446744073709551616 : Int)).toNat = c.toNat := by
      rw [Int.emod_eq_of_lt hc (by omega)]
    rw [hu]
    have hs : c.toNat / 2 ^ 63 = 0 := by
      apply Nat.div_eq_of_lt; omega
    simp only [hs, if_true]
    have h01 : ¬ (0 = 1) := by decide
    rw [if_neg h01]
    refine ⟨?_, le_of_lt (Nat.mod_lt _ ht)⟩
    rw [Int.natCast_mod]
    have : ((c.toNat : Nat) : Int) = c := Int.toNat_of_nonneg hc
    rw [this]
    exact Int.emod_emod_of_dvd c (dvd_refl _) ▸ Int.mod_modEq c t
  · have hneg : c < 0 := by omega
    have hu : (c % (18446744073709551616 : Int)).toNat = (c + 18446744073709551616).toNat := by
      congr 1
      rw [← Int.add_emod_right, Int.emod_eq_of_lt (by omega) (by omega)]
    rw [hu]
    have hun : ((c + 18446744073709551616).toNat : Int) = c + 18446744073709551616 :=
      Int.toNat_of_nonneg (by omega)
    have hs : (c + 18446744073709551616).toNat / 2 ^ 63 = 1 := by omega
    simp only [hs]
    have h10 : ¬ ((1 : Nat) = 0) := by decide
    simp only [h10, if_false, if_true]
    have hm : (18446744073709551616 - (c + 18446744073709551616).toNat) % 18446744073709551616
        = (-c).toNat := by omega
    rw [hm]
    have hlt : (-c).toNat % t < t := Nat.mod_lt _ ht
    refine ⟨?_, Nat.sub_le _ _⟩
    rw [Nat.cast_sub (le_of_lt hlt), Int.natCast_mod]
    have hc' : (((-c).toNat : Nat) : Int) = -c := Int.toNat_of_nonneg (by omega)
    rw [hc']
    have h1 : (-c) % (t : Int) ≡ -c [ZMOD (t : Int)] := Int.mod_modEq _ _
    have h2 : ((t : Int) - (-c) % (t : Int)) ≡ (0 - (-c)) [ZMOD (t : Int)] :=
      Int.ModEq.sub (by simp [Int.ModEq]) h1
    simpa using h2

/-! ### RingQ2T ∘ RingT2Q, level 0, one coefficient -/

/-- level-0 branch (`AddScalar(q0>>1)`, reduce mod t, `SubScalar`): a reduced residue `p` survives the
    lift by `T⁻¹ mod q0` and the way back PROVIDED `2(t−1) < q0`. -/
theorem q2t_coeff_level0 (t q0 p tinv : Nat) (ht : 0 < t) (hp : p < t) (hq : 2 * (t - 1) < q0)
    (htinv : (tinv % q0) * (t % q0) % q0 = 1) :
    (((p * (tinv % q0) % q0) * (t % q0) % q0 + q0 / 2) % q0 % t + t - q0 / 2 % t) % t = p := by
  have hpq : p < q0 := by omega
  have h1 : (p * (tinv % q0) % q0) * (t % q0) % q0 = p := by
    rw [Nat.mod_mul_mod, mul_assoc, Nat.mul_mod, htinv, mul_one, Nat.mod_mod, Nat.mod_eq_of_lt hpq]
  rw [h1]
  have h2 : (p + q0 / 2) % q0 = p + q0 / 2 := Nat.mod_eq_of_lt (by omega)
  rw [h2]
  have ha : q0 / 2 % t < t := Nat.mod_lt _ ht
  have hb : (p + q0 / 2) % t = (p + q0 / 2 % t) % t := by
    rw [Nat.add_mod, Nat.mod_eq_of_lt hp]
  rw [hb]
  generalize q0 / 2 % t = a at ha ⊢
  by_cases hlt : p + a < t
  · rw [Nat.mod_eq_of_lt hlt]
    have : p + a + t - a = p + t := by omega
    rw [this, Nat.add_mod_right, Nat.mod_eq_of_lt hp]
  · have h3 : (p + a) % t = p + a - t := by
      rw [Nat.mod_eq_sub_mod (by omega), Nat.mod_eq_of_lt (by omega)]
    rw [h3]
    have : p + a - t + t - a = p := by omega
    rw [this, Nat.mod_eq_of_lt hp]

end Lattigo.EncoderT
