/-
  C09 — levels: `Element.Resize` on shapes and the receiver's shape after every modelled operation
  (`OpS.shapeAfter` of Model/Store.lean).
-/
import Lattigo.Proofs.Store

set_option linter.unusedSimpArgs false
set_option linter.unusedVariables false
namespace Lattigo.Store

/-- all polynomials at the level of `Value[0]` -/
def Uniform (s : Shape) : Prop := ∀ x ∈ s, x = s.level

theorem uniform_replicate (n l : Nat) : Uniform (List.replicate (n + 1) l) := by
  intro x hx
  simp [Shape.level, List.replicate_succ] at hx ⊢
  rcases hx with h | h
  · exact h
  · exact h.2

theorem level_replicate (n l : Nat) : Shape.level (List.replicate (n + 1) l) = l := by
  simp [Shape.level, List.replicate_succ]

theorem degree_replicate (n l : Nat) : Shape.degree (List.replicate (n + 1) l) = n := by
  simp [Shape.degree]

/-- `Element.Resize` brings EVERY polynomial to the target level iff `Value[0]` is not already there, or
    all polynomials were at one level -/
theorem resizeShape_replicate (s : Shape) (hs : s ≠ []) (degree level : Nat)
    (h : s.level ≠ level ∨ Uniform s) : resizeShape s degree level = List.replicate (degree + 1) level := by
  have hs1 : (if s.level = level then s else s.map fun _ => level) = List.replicate s.length level := by
    by_cases hl : s.level = level
    · rw [if_pos hl]
      rcases h with h | h
      · exact absurd hl h
      · rw [List.eq_replicate_iff]
        exact ⟨rfl, fun b hb => (h b hb).trans hl⟩
    · rw [if_neg hl, List.eq_replicate_iff]
      refine ⟨by simp, ?_⟩
      intro b hb
      simp at hb
      exact hb.2.symm
  unfold resizeShape
  simp only [hs1, List.length_replicate]
  split
  · rw [List.take_replicate]
    congr 1
    omega
  · rw [List.replicate_append_replicate]
    congr 1
    omega

theorem replicate_no_short (n l : Nat) : (List.replicate n l).any (· < Shape.level (List.replicate n l)) = false := by
  cases n with
  | zero => rfl
  | succ n =>
    rw [level_replicate]
    simp

theorem setSh_self (sh : Nat → Shape) (o : Nat) (u : Shape) : setSh sh o u o = u := by simp [setSh]

theorem setSh_degree (sh : Nat → Shape) (o : Nat) (u : Shape) (hu : u.degree = (sh o).degree) (x : Nat) :
    (setSh sh o u x).degree = (sh x).degree := by
  unfold setSh
  split
  · rename_i h; subst h; exact hu
  · rfl

theorem shape_degree_succ (s : Shape) (hs : s ≠ []) : s.degree + 1 = s.length := by
  cases s with
  | nil => exact absurd rfl hs
  | cons a t => simp [Shape.degree]

theorem Gen.ok_inj {β : Type} {x y : β} (h : Gen.ok x = Gen.ok y) : x = y := by injection h

/-- with patch fixes/C09-7 (`Resize` resizes every polynomial) no hypothesis on the receiver is needed -/
theorem resizeShapeFixed_replicate (s : Shape) (degree level : Nat) :
    resizeShapeFixed s degree level = List.replicate (degree + 1) level := by
  have hs1 : (s.map fun _ => level) = List.replicate s.length level := by
    rw [List.eq_replicate_iff]
    refine ⟨by simp, ?_⟩
    intro b hb
    simp at hb
    exact hb.2.symm
  unfold resizeShapeFixed
  simp only [hs1, List.length_replicate]
  split
  · rw [List.take_replicate]
    congr 1
    omega
  · rw [List.replicate_append_replicate]
    congr 1
    omega

/-- GENERIC form, for any implementation `rs` of `Element.Resize` on shapes that yields the uniform shape
    whenever the receiver satisfies `P` (and `P` holds of uniform shapes): whenever a modelled operation accepts
    the call, the receiver has the documented degree and every polynomial is at the documented level. -/
theorem shapeAfterG_documented (rs : Shape → Nat → Nat → Shape) (fix6 : Bool) (P : Shape → Nat → Prop)
    (hrs : ∀ s, s ≠ [] → ∀ d l, P s l → rs s d l = List.replicate (d + 1) l)
    (hP : ∀ n l l', P (List.replicate (n + 1) l) l')
    (op : OpS) (p : Pat) (sh : Nat → Shape) (hne : ∀ o, sh o ≠ [])
    (hrecv' : P (sh p.out) (op.docLevel (sh p.op0).level (sh p.op1).level (sh p.out).level))
    (r : Shape) (hr : op.shapeAfterG rs fix6 p sh = .ok r) :
    r = List.replicate (op.docDegree (sh p.op0).degree (sh p.op1).degree (sh p.out).degree + 1)
          (op.docLevel (sh p.op0).level (sh p.op1).level (sh p.out).level) := by
  -- the result of `resizes` is a `replicate`, hence passes the short-polynomial test unchanged
  have key : ∀ (n l : Nat), op.resizesG rs fix6 p sh = .ok (List.replicate n l) → r = List.replicate n l := by
    intro n l h
    unfold OpS.shapeAfterG at hr
    rw [h] at hr
    simp only [replicate_no_short] at hr
    exact (Gen.ok_inj hr).symm
  -- first resize of the products
  have hu : ∀ level, P (sh p.out) level →
      rs (sh p.out) (sh p.out).degree level = List.replicate ((sh p.out).degree + 1) level :=
    fun level h => hrs _ (hne _) _ _ h
  cases op with
  | addLike =>
    apply key
    simp only [OpS.resizesG, OpS.docDegree, OpS.docLevel] at hrecv' ⊢
    split
    · rename_i h0
      unfold OpS.shapeAfterG OpS.resizesG at hr
      simp [h0] at hr
    · rw [hrs _ (hne _) _ _ hrecv']
  | unaryBig =>
    apply key
    simp only [OpS.resizesG, OpS.docDegree, OpS.docLevel] at hrecv' ⊢
    rw [hrs _ (hne _) _ _ hrecv']
  | rlwePTS =>
    apply key
    simp only [OpS.resizesG, OpS.docDegree, OpS.docLevel] at hrecv' ⊢
    split
    · rename_i h0
      unfold OpS.shapeAfterG OpS.resizesG at hr
      simp [h0] at hr
    · rw [hrs _ (hne _) _ _ hrecv']
  | rlweAut =>
    apply key
    simp only [OpS.resizesG, OpS.docDegree, OpS.docLevel] at hrecv' ⊢
    split
    · rename_i h0
      unfold OpS.shapeAfterG OpS.resizesG at hr
      simp [h0] at hr
    · rw [hrs _ (hne _) _ _ hrecv']
  | ckksMul relin =>
    apply key
    have hu' := hu _ hrecv'
    have hrep : ∀ d, rs (List.replicate ((sh p.out).degree + 1) (min (min (sh p.op0).level (sh p.op1).level) (sh p.out).level)) d (min (min (sh p.op0).level (sh p.op1).level) (sh p.out).level) = List.replicate (d + 1) (min (min (sh p.op0).level (sh p.op1).level) (sh p.out).level) :=
      fun d => hrs _ (by simp) _ _ (hP _ _ _)
    have hdeg : ∀ x, (setSh sh p.out (List.replicate ((sh p.out).degree + 1) (min (min (sh p.op0).level (sh p.op1).level) (sh p.out).level)) x).degree = (sh x).degree :=
      setSh_degree sh p.out _ (degree_replicate _ _)
    unfold OpS.shapeAfterG OpS.resizesG at hr
    simp only [OpS.resizesG, OpS.docDegree, OpS.docLevel] at hr hu' ⊢
    simp only [hu', setSh_self, hdeg, level_replicate, degree_replicate, hrep] at hr ⊢
    split <;> (try (rename_i h0; simp [h0] at hr)) <;>
    (split <;> (try split) <;> (try (rename_i h1 h2; simp [h1, h2] at hr)) <;>
      first
        | (simp_all; done)
        | (have h11 : (sh p.op0).degree = 1 ∧ (sh p.op1).degree = 1 := by omega
           simp_all; done)
        | (have hz : ¬(fix6 = false ∧ (sh p.out).degree = 0) := by intro hz; simp [hz] at hr
           simp_all))
  | bgvMul relin =>
    apply key
    have hu' := hu _ hrecv'
    have hrep : ∀ d, rs (List.replicate ((sh p.out).degree + 1) (min (min (sh p.op0).level (sh p.op1).level) (sh p.out).level)) d (min (min (sh p.op0).level (sh p.op1).level) (sh p.out).level) = List.replicate (d + 1) (min (min (sh p.op0).level (sh p.op1).level) (sh p.out).level) :=
      fun d => hrs _ (by simp) _ _ (hP _ _ _)
    have hdeg : ∀ x, (setSh sh p.out (List.replicate ((sh p.out).degree + 1) (min (min (sh p.op0).level (sh p.op1).level) (sh p.out).level)) x).degree = (sh x).degree :=
      setSh_degree sh p.out _ (degree_replicate _ _)
    unfold OpS.shapeAfterG OpS.resizesG at hr
    simp only [OpS.resizesG, OpS.docDegree, OpS.docLevel] at hr hu' ⊢
    simp only [hu', setSh_self, hdeg, level_replicate, degree_replicate, hrep] at hr ⊢
    split <;> (try (rename_i h0; simp [h0] at hr)) <;>
    (split <;> (try split) <;> (try (rename_i h1 h2; simp [h1, h2] at hr)) <;>
      first
        | (simp_all; done)
        | (have h11 : (sh p.op0).degree = 1 ∧ (sh p.op1).degree = 1 := by omega
           simp_all; done)
        | (have hz : ¬(fix6 = false ∧ (sh p.out).degree = 0) := by intro hz; simp [hz] at hr
           simp_all))
  | bgvMulSI relin =>
    apply key
    have hu' := hu _ hrecv'
    have hrep : ∀ d, rs (List.replicate ((sh p.out).degree + 1) (min (min (sh p.op0).level (sh p.op1).level) (sh p.out).level)) d (min (min (sh p.op0).level (sh p.op1).level) (sh p.out).level) = List.replicate (d + 1) (min (min (sh p.op0).level (sh p.op1).level) (sh p.out).level) :=
      fun d => hrs _ (by simp) _ _ (hP _ _ _)
    have hdeg : ∀ x, (setSh sh p.out (List.replicate ((sh p.out).degree + 1) (min (min (sh p.op0).level (sh p.op1).level) (sh p.out).level)) x).degree = (sh x).degree :=
      setSh_degree sh p.out _ (degree_replicate _ _)
    unfold OpS.shapeAfterG OpS.resizesG at hr
    simp only [OpS.resizesG, OpS.docDegree, OpS.docLevel] at hr hu' ⊢
    simp only [hu', setSh_self, hdeg, level_replicate, degree_replicate, hrep] at hr ⊢
    split <;> (try (rename_i h0; simp [h0] at hr)) <;>
    (split <;> (try split) <;> (try (rename_i h1 h2; simp [h1, h2] at hr)) <;>
      first
        | (simp_all; done)
        | (have h11 : (sh p.op0).degree = 1 ∧ (sh p.op1).degree = 1 := by omega
           simp_all; done)
        | (have hz : ¬(fix6 = false ∧ (sh p.out).degree = 0) := by intro hz; simp [hz] at hr
           simp_all))

/-- HISTORY-FREE LEVEL AND DEGREE (code without patch C09-7): whenever a modelled operation accepts the call,
    every polynomial of the receiver is afterwards at the documented level and the receiver has the
    documented degree — whatever degree and level the receiver had before, provided its polynomials were all at
    one level, or `Value[0]` was not already at the target level (the case `Element.Resize` mishandles). -/
theorem shapeAfter_documented (op : OpS) (p : Pat) (sh : Nat → Shape) (hne : ∀ o, sh o ≠ [])
    (hrecv : Uniform (sh p.out) ∨
      (sh p.out).level ≠ op.docLevel (sh p.op0).level (sh p.op1).level (sh p.out).level)
    (r : Shape) (hr : op.shapeAfter p sh = .ok r) :
    r = List.replicate (op.docDegree (sh p.op0).degree (sh p.op1).degree (sh p.out).degree + 1)
          (op.docLevel (sh p.op0).level (sh p.op1).level (sh p.out).level) :=
  shapeAfterG_documented resizeShape false (fun s l => s.level ≠ l ∨ Uniform s)
    (fun s hs d l h => resizeShape_replicate s hs d l h) (fun n l l' => Or.inr (uniform_replicate n l))
    op p sh hne hrecv.symm r hr

/-- the documented degree does not depend on the receiver's previous degree, except for Automorphism, which
    rejects every receiver whose degree is not 1 -/
theorem docDegree_indepG (rs : Shape → Nat → Nat → Shape) (fix6 : Bool) (op : OpS) (p : Pat) (sh : Nat → Shape)
    (r : Shape) (hr : op.shapeAfterG rs fix6 p sh = .ok r)
    (d0 d1 : Nat) : op.docDegree d0 d1 (sh p.out).degree = op.docDegree d0 d1 1 := by
  cases op <;> simp only [OpS.docDegree]
  -- rlweAut
  unfold OpS.shapeAfterG OpS.resizesG at hr
  simp only at hr
  split at hr
  · rename_i s hs
    split at hs
    · cases hs
    · rename_i hc
      omega
  · rename_i hx
    split at hx
    · rename_i hc; simp [hc] at hr
    · exact absurd rfl (hx _)

theorem docDegree_indep (op : OpS) (p : Pat) (sh : Nat → Shape) (r : Shape) (hr : op.shapeAfter p sh = .ok r)
    (d0 d1 : Nat) : op.docDegree d0 d1 (sh p.out).degree = op.docDegree d0 d1 1 :=
  docDegree_indepG resizeShape false op p sh r hr d0 d1

/-- HISTORY-FREE LEVEL: two receivers, both with all their polynomials at one level (of any degree, at any
    level at which the documented level is the same — e.g. both at least at the level of the operands), give
    the same shape: the level and degree of the result do not depend on what the receiver was used for. -/
theorem history_free_level' (op : OpS) (p : Pat) (sh sh' : Nat → Shape) (hne : ∀ o, sh o ≠ []) (hne' : ∀ o, sh' o ≠ [])
    (h0 : sh p.op0 = sh' p.op0) (h1 : sh p.op1 = sh' p.op1)
    (hU : Uniform (sh p.out)) (hU' : Uniform (sh' p.out))
    (hl : op.docLevel (sh p.op0).level (sh p.op1).level (sh p.out).level =
          op.docLevel (sh p.op0).level (sh p.op1).level (sh' p.out).level)
    (r r' : Shape) (hr : op.shapeAfter p sh = .ok r) (hr' : op.shapeAfter p sh' = .ok r') : r = r' := by
  rw [shapeAfter_documented op p sh hne (Or.inl hU) r hr, shapeAfter_documented op p sh' hne' (Or.inl hU') r' hr',
    ← h0, ← h1, ← hl, docDegree_indep op p sh r hr, docDegree_indep op p sh' r' hr']

/-- code WITH patches C09-6 and C09-7: the documented shape from ANY previous shape of the receiver -/
theorem shapeAfterFixed_documented (op : OpS) (p : Pat) (sh : Nat → Shape) (hne : ∀ o, sh o ≠ [])
    (r : Shape) (hr : op.shapeAfterFixed p sh = .ok r) :
    r = List.replicate (op.docDegree (sh p.op0).degree (sh p.op1).degree (sh p.out).degree + 1)
          (op.docLevel (sh p.op0).level (sh p.op1).level (sh p.out).level) :=
  shapeAfterG_documented resizeShapeFixed true (fun _ _ => True)
    (fun s _ d l _ => resizeShapeFixed_replicate s d l) (fun _ _ _ => trivial) op p sh hne trivial r hr

/-- … hence full history-freeness of level and degree: any two receivers for which the documented level is the
    same give the same shape -/
theorem history_free_level_fixed (op : OpS) (p : Pat) (sh sh' : Nat → Shape) (hne : ∀ o, sh o ≠ [])
    (hne' : ∀ o, sh' o ≠ []) (h0 : sh p.op0 = sh' p.op0) (h1 : sh p.op1 = sh' p.op1)
    (hl : op.docLevel (sh p.op0).level (sh p.op1).level (sh p.out).level =
          op.docLevel (sh p.op0).level (sh p.op1).level (sh' p.out).level)
    (r r' : Shape) (hr : op.shapeAfterFixed p sh = .ok r) (hr' : op.shapeAfterFixed p sh' = .ok r') : r = r' := by
  rw [shapeAfterFixed_documented op p sh hne r hr, shapeAfterFixed_documented op p sh' hne' r' hr',
    ← h0, ← h1, ← hl, docDegree_indepG _ _ op p sh r hr, docDegree_indepG _ _ op p sh' r' hr']

theorem resizesG_fixed_ok (op : OpS) (p : Pat) (sh : Nat → Shape) (s : Shape)
    (hs : op.resizesG resizeShapeFixed true p sh = .ok s) : ∃ n l, s = List.replicate (n + 1) l := by
  unfold OpS.resizesG at hs
  simp only [resizeShapeFixed_replicate] at hs
  cases op <;> simp only at hs <;> (repeat' split at hs) <;>
    first
      | (cases hs; exact ⟨_, _, rfl⟩)
      | cases hs

theorem resizesG_fixed_ne_panic (op : OpS) (p : Pat) (sh : Nat → Shape) :
    op.resizesG resizeShapeFixed true p sh ≠ .panic := by
  intro h
  unfold OpS.resizesG at h
  simp only [resizeShapeFixed_replicate] at h
  cases op <;> simp only at h <;> (repeat' split at h) <;>
    first
      | (rename_i hc; exact absurd hc.1 (by decide))
      | cases h

/-- with both patches no modelled operation panics -/
theorem shapeAfterFixed_no_panic (op : OpS) (p : Pat) (sh : Nat → Shape) :
    op.shapeAfterFixed p sh ≠ .panic := by
  intro h
  unfold OpS.shapeAfterFixed OpS.shapeAfterG at h
  split at h
  · rename_i s hs
    obtain ⟨n, l, rfl⟩ := resizesG_fixed_ok op p sh s hs
    rw [replicate_no_short] at h
    cases h
  · exact resizesG_fixed_ne_panic op p sh h

end Lattigo.Store
