/-
  Stack closure C02 → C04, part 4: the gadget recombination (G)
      `Σ_{i,j} d_ij · (P·g_ij) = P · c`      in `R_{QP}`
  for the digits `KS.decompose` produces (RNS digits with one or several primes per digit, base-`2^w` digits) and the
  gadget vector `KS.pgElt` exactly as laid out on the RNS rows.

  Row by row (`KS.gadget_identity`, product ring `Π_k Z_{q_k}[X]/(X^n+1)` through `WFPoly.toProd`):
    * `decomposeRNS_row`  : RNS digit `i = k / nbPi` agrees with `c` on row `k` — copy branch: `centerSingle`;
                            HPS branch: `StackKS.ofInts_remZ` on the block of the digit's moduli, i.e. C02's
                            `hps_sum_eq`, for EVERY value of the IEEE index;
    * `bits_row`          : `Σ_j digit_j · 2^{wj} = c` on row `k` (`KS.digits_recombine_of_modulus`);
    * `pgElt_toProd`      : row `k` of `pgElt … i j` is `P·2^{wj}` if `k / m = i`, else `0` (`P ≡ 0` on the rows of `P`).
-/
import Lattigo.Proofs.StackKS
import Lattigo.Proofs.GadgetIdentity
import Lattigo.Proofs.GadgetDigits
import Lattigo.Proofs.KeySwitchDigits

set_option linter.unusedSectionVars false

namespace Lattigo.StackKS
open Lattigo Lattigo.RPolyRing Lattigo.Transport Lattigo.Scaling Lattigo.BasisExt Lattigo.KS

/-! ## a block of consecutive rows -/

/-- rows `st … st+len−1` of a polynomial, over their own moduli -/
def block (st len : ℕ) (c : RPoly) : RPoly :=
  { qs := (c.qs.drop st).take len, c := (c.c.drop st).take len }

theorem block_wf {qs : List ℕ} {n : ℕ} {c : RPoly} (h : WFq qs n c) (st len : ℕ) :
    WFq ((qs.drop st).take len) n (block st len c) := by
  obtain ⟨h1, h2, h3⟩ := h
  refine ⟨by simp [block, h1], by simp [block, h1, h2], fun i hi => ?_⟩
  have hi' : i < len ∧ st + i < c.qs.length := by
    simp only [block, List.length_take, List.length_drop] at hi; omega
  have := h3 (st + i) hi'.2
  have e1 : (block st len c).qs[i] = c.qs[st + i] := by simp [block]
  have e2 : (block st len c).c.getD i [] = c.c.getD (st + i) [] := by
    simp [block, List.getD_eq_getElem?_getD, hi'.1]
  rw [e1, e2]; exact this

theorem block_row (st len i : ℕ) (c : RPoly) (hi : i < len) :
    (block st len c).c.getD i [] = c.c.getD (st + i) [] := by
  simp [block, List.getD_eq_getElem?_getD, hi]

theorem sublist_drop_take (l : List ℕ) (st len : ℕ) : ((l.drop st).take len).Sublist l :=
  (List.take_sublist _ _).trans (List.drop_sublist _ _)

/-- the row of `ofInts` for a modulus that also belongs to a block -/
theorem ofInts_row_eq (L : List ℕ) (v : List ℤ) (k : ℕ) (hk : k < L.length) :
    (RPoly.ofInts L v).c.getD k [] = v.map fun (x : ℤ) => (x % ((L.getD k 1 : ℕ) : ℤ)).toNat :=
  KS.ofInts_row L v k hk

/-! ## RNS digits -/

theorem mod_eq_zero_between (a r nb : ℕ) (hr : r < nb) (h : (a * nb + r) % nb = 0) : r = 0 := by
  rw [Nat.mul_comm, Nat.mul_add_mod, Nat.mod_eq_of_lt hr] at h; exact h

/-- the `decompLvl` of `DecomposeAndSplit` (Go `int` arithmetic) -/
def dLvl (nQ nbPi i : ℕ) : ℤ :=
  if nQ - 1 + 1 > nbPi * (i + 1) then (nbPi : ℤ) - 2 else (((nQ - 1) % nbPi : ℕ) : ℤ) - 1

theorem decomposeRNS_unfold (ps : List ℕ) (nbPi i : ℕ) (c : RPoly) :
    decomposeRNS ps nbPi i c =
      if dLvl c.qs.length nbPi i < 0 then
        RPoly.ofInts (c.qs ++ ps)
          ((c.c.getD (i * nbPi) []).map fun x => centerSingle (c.qs.getD (i * nbPi) 1) x)
      else
        RPoly.ofInts (c.qs ++ ps) ((List.range (c.c.headD []).length).map fun t =>
          centerHalf ((c.qs.drop (i * nbPi)).take (min (i * nbPi + nbPi) (c.qs.length - 1 + 1) - i * nbPi))
            (colOf ((c.c.drop (i * nbPi)).take (min (i * nbPi + nbPi) (c.qs.length - 1 + 1) - i * nbPi)) t)) :=
  rfl

section rns
variable {qs : List ℕ} {n : ℕ} [hg : Good qs n]

/-- **RNS digit `i = k / nbPi` agrees with `c` on row `k`** (any number `nbPi ≥ 1` of primes per digit, both branches
of `DecomposeAndSplit`, every value of the IEEE index) -/
theorem decomposeRNS_row (ps : List ℕ) (nbPi i k : ℕ) {c : RPoly} (hc : WFq qs n c)
    (hco : qs.Pairwise Nat.Coprime) (hnb : 1 ≤ nbPi) (hk : k < qs.length) (hik : k / nbPi = i) :
    (decomposeRNS ps nbPi i c).c.getD k [] = c.c.getD k [] := by
  have hcq : c.qs = qs := hc.1
  have hqs : qs ≠ [] := by intro h; rw [h] at hk; exact absurd hk (Nat.not_lt_zero _)
  have hn : (c.c.headD []).length = n := headD_length hc hqs
  have hkL : k < (qs ++ ps).length := by rw [List.length_append]; omega
  have hqk : (qs ++ ps).getD k 1 = qs.getD k 1 := by
    simp [List.getD_eq_getElem?_getD, List.getElem?_append_left hk]
  -- position of `k` in its group
  have hst : i * nbPi ≤ k := by rw [← hik]; exact Nat.div_mul_le_self k nbPi
  have hen : k < i * nbPi + nbPi := by
    rw [← hik]; have := Nat.lt_div_mul_add (a := k) (b := nbPi) (by omega); omega
  obtain ⟨hlenk, hltk⟩ : (c.c.getD k []).length = n ∧ ∀ x ∈ c.c.getD k [], x < qs.getD k 1 := by
    have hw := hc.2.2 k (by rw [hcq]; exact hk)
    have e : c.qs[k]'(by rw [hcq]; exact hk) = qs.getD k 1 := by
      simp [List.getD_eq_getElem?_getD, hcq, hk]
    rw [e] at hw
    exact ⟨hw.len, hw.lt⟩
  rw [decomposeRNS_unfold, hcq, hn]
  by_cases hneg : dLvl qs.length nbPi i < 0
  · -- copy branch: the digit has the single modulus `q_k`
    rw [if_pos hneg]
    have hstk : i * nbPi = k := by
      unfold dLvl at hneg
      by_cases hcond : qs.length - 1 + 1 > nbPi * (i + 1)
      · rw [if_pos hcond] at hneg
        have : nbPi = 1 := by omega
        subst this; omega
      · rw [if_neg hcond] at hneg
        have hmod : (qs.length - 1) % nbPi = 0 := by omega
        have hle : qs.length - 1 < i * nbPi + nbPi := by
          have : nbPi * (i + 1) = i * nbPi + nbPi := by ring
          omega
        have hge : i * nbPi ≤ qs.length - 1 := by omega
        obtain ⟨r, hr⟩ : ∃ r, qs.length - 1 = i * nbPi + r := ⟨qs.length - 1 - i * nbPi, by omega⟩
        have hr0 : r = 0 := mod_eq_zero_between i r nbPi (by omega) (by rw [← hr]; exact hmod)
        omega
    rw [hstk, ofInts_row_eq _ _ k hkL, hqk]
    exact map_centerSingle _ _ hltk
  · -- HPS branch: the block of the digit's moduli
    rw [if_neg hneg]
    set st := i * nbPi with hstd
    set len := min (st + nbPi) (qs.length - 1 + 1) - st with hlend
    have hklen : k - st < len := by omega
    have hb : WFq ((qs.drop st).take len) n (block st len c) := block_wf hc st len
    have hbne : (qs.drop st).take len ≠ [] := by
      intro h
      have := congrArg List.length h
      simp only [List.length_take, List.length_drop, List.length_nil] at this
      omega
    have hsub := sublist_drop_take qs st len
    have hbco : ((qs.drop st).take len).Pairwise Nat.Coprime := hco.sublist hsub
    have hbge : ∀ p ∈ (qs.drop st).take len, 2 ≤ p := fun p hp => hg.q_ge p (hsub.subset hp)
    have hrem := ofInts_remZ hb hbne hbco hbge
    have hbn : ((block st len c).c.headD []).length = n := headD_length hb hbne
    -- the digit's coefficient list is `remZ` of the block
    have hv : ((List.range n).map fun t =>
          centerHalf ((qs.drop st).take len) (colOf ((c.c.drop st).take len) t))
        = remZ (block st len c) := by
      unfold remZ
      rw [hbn]
      have : (block st len c).qs = (qs.drop st).take len := by simp [block, hcq]
      rw [this]
      rfl
    rw [hv, ofInts_row_eq _ _ k hkL, hqk]
    -- the same row seen in the block
    have hrow : (RPoly.ofInts ((qs.drop st).take len) (remZ (block st len c))).c.getD (k - st) []
        = (block st len c).c.getD (k - st) [] := by rw [hrem]
    rw [ofInts_row_eq _ _ (k - st) (by simp only [List.length_take, List.length_drop]; omega),
      block_row st len _ c hklen] at hrow
    have hqb : ((qs.drop st).take len).getD (k - st) 1 = qs.getD k 1 := by
      have : st + (k - st) = k := by omega
      simp [List.getD_eq_getElem?_getD, hklen, this]
    rw [hqb, show st + (k - st) = k by omega] at hrow
    exact hrow

end rns

/-! ## base-`2^w` digits -/

section bits
open Finset Polynomial
variable {q n : ℕ}

theorem toQuot_map (row : List ℕ) (hl : row.length = n) (g : ℕ → ℕ) :
    toQuot q n (row.map g)
      = ∑ t ∈ range n, ((g (row.getD t 0) : ℕ) : Rq q n) * (AdjoinRoot.root (X ^ n + 1 : (ZMod q)[X])) ^ t := by
  rw [toQuot_eq_evalRow]
  unfold evalRow
  apply sum_congr rfl
  intro t ht
  rw [getD_map _ _ _ (by rw [hl]; exact mem_range.1 ht)]

theorem toQuot_map_mod (row : List ℕ) (hl : row.length = n) (g : ℕ → ℕ) :
    toQuot q n (row.map fun x => g x % q) = toQuot q n (row.map g) := by
  rw [toQuot_map row hl, toQuot_map row hl]
  apply sum_congr rfl
  intro t _
  rw [cast_mod_eq natCast_q_Rq]

/-- partial recombination along a key row, digits `j0, j0+1, …` -/
theorem bits_row_from (w : ℕ) (row : List ℕ) (hl : row.length = n) {β : Type} : ∀ (shape : List β) (j0 : ℕ),
    wsumRow (0 : Rq q n)
        ((List.range' j0 shape.length).map fun j => toQuot q n (row.map fun x => bitDigit w j x % q))
        (idxRowFrom (fun _ j => ((2 ^ (w * j) : ℕ) : Rq q n)) 0 j0 shape)
      = toQuot q n (row.map fun x => ∑ j ∈ range shape.length, bitDigit w (j0 + j) x * 2 ^ (w * (j0 + j)))
  | [], j0 => by
    simp only [List.length_nil, List.range'_zero, List.map_nil, idxRowFrom, wsumRow, range_zero, sum_empty]
    rw [toQuot_map row hl]
    exact (sum_eq_zero (fun t _ => by rw [Nat.cast_zero, zero_mul])).symm
  | _ :: rest, j0 => by
    have ih := bits_row_from w row hl rest (j0 + 1)
    simp only [List.length_cons, List.range'_succ, List.map_cons, idxRowFrom, wsumRow]
    rw [ih, toQuot_map_mod row hl, toQuot_map row hl, toQuot_map row hl, toQuot_map row hl, sum_mul,
      ← sum_add_distrib]
    apply sum_congr rfl
    intro t _
    rw [sum_range_succ' (fun j => bitDigit w (j0 + j) (row.getD t 0) * 2 ^ (w * (j0 + j)))]
    have hs : ∑ j ∈ range rest.length, bitDigit w (j0 + 1 + j) (row.getD t 0) * 2 ^ (w * (j0 + 1 + j))
        = ∑ j ∈ range rest.length, bitDigit w (j0 + (j + 1)) (row.getD t 0) * 2 ^ (w * (j0 + (j + 1))) :=
      sum_congr rfl (fun j _ => by rw [show j0 + 1 + j = j0 + (j + 1) by omega])
    rw [hs, Nat.add_zero]
    push_cast
    ring

/-- **row-wise recombination of the base-`2^w` digits**: `Σ_j digit_j · 2^{wj} = c` on a row whose modulus is
covered by the `nJ` digits (`q ≤ 2^{w·nJ}`; true of the code's digit count by `KS.digitCount_sufficient`) -/
theorem bits_row (w nJ : ℕ) (row : List ℕ) (hrow : RowWF q n row) (hq : q ≤ 2 ^ (w * nJ)) {β : Type}
    (shape : List β) (hs : shape.length = nJ) :
    wsumRow (0 : Rq q n)
        ((List.range nJ).map fun j => toQuot q n (row.map fun x => bitDigit w j x % q))
        (idxRowFrom (fun _ j => ((2 ^ (w * j) : ℕ) : Rq q n)) 0 0 shape)
      = toQuot q n row := by
  have h := bits_row_from (q := q) w row hrow.len shape 0
  rw [hs, ← List.range_eq_range'] at h
  rw [h]
  congr 1
  conv_rhs => rw [← List.map_id row]
  apply List.map_congr_left
  intro x hx
  simp only [Nat.zero_add, id]
  exact digits_recombine_of_modulus w nJ q x hq (hrow.lt x hx)

end bits

/-! ## the gadget vector on the RNS rows -/

theorem takeWhile_range' (N : ℕ) : ∀ (m a : ℕ),
    (List.range' a m).takeWhile (fun x => decide (x < N)) = List.range' a (min m (N - a))
  | 0, a => by simp
  | m + 1, a => by
    rw [List.range'_succ, List.takeWhile_cons]
    by_cases h : a < N
    · have e : min (m + 1) (N - a) = min m (N - (a + 1)) + 1 := by omega
      rw [e, List.range'_succ, takeWhile_range' N m (a + 1)]
      simp [h]
    · have e : min (m + 1) (N - a) = 0 := by omega
      rw [e]; simp [h]

/-- group width: `levelP + 1`, `1` without `P` -/
def gw (nP : ℕ) : ℕ := if nP = 0 then 1 else nP

theorem gw_pos (nP : ℕ) : 0 < gw nP := by unfold gw; split <;> omega

/-- the rows `AddPolyTimesGadgetVectorToGadgetCiphertext` touches for digit `i` are the rows `k ≤ levelQ` with
`k / m = i` -/
theorem gadgetRowIdx_contains (levelQ nP i k : ℕ) :
    (gadgetRowIdx levelQ nP i).contains k = true ↔ k / gw nP = i ∧ k < levelQ + 1 := by
  have hm := gw_pos nP
  have e : gadgetRowIdx levelQ nP i
      = (List.range' (i * gw nP) (gw nP)).takeWhile (fun x => decide (x < levelQ + 1)) := by
    unfold gadgetRowIdx gw
    simp only [List.range'_eq_map_range]
  rw [e, takeWhile_range', List.contains_iff_mem, List.mem_range'_1]
  constructor
  · rintro ⟨h1, h2⟩
    refine ⟨?_, by omega⟩
    apply Nat.div_eq_of_lt_le
    · exact h1
    · have : (i + 1) * gw nP = i * gw nP + gw nP := by ring
      omega
  · rintro ⟨h1, h2⟩
    have h3 : i * gw nP ≤ k := by rw [← h1]; exact Nat.div_mul_le_self k _
    have h4 : k < i * gw nP + gw nP := by
      rw [← h1]; have := Nat.lt_div_mul_add (a := k) (b := gw nP) hm; omega
    omega

section rows
open Polynomial
variable {L : List ℕ} {n : ℕ}

theorem constPoly_row (vals : List ℕ) (hl : vals.length = L.length) (k : ℕ) (hk : k < L.length) :
    (constPoly L n vals).c.getD k [] = (vals.getD k 0 % L.getD k 0) :: List.replicate (n - 1) 0 := by
  have hv : k < vals.length := by omega
  simp [constPoly, List.getD_eq_getElem?_getD, hk, hv]

theorem constPoly_wf' [hg : Good L n] (vals : List ℕ) (hl : vals.length = L.length) :
    WFq L n (constPoly L n vals) := by
  refine ⟨rfl, by simp [constPoly, hl], fun i hi => ?_⟩
  have hi' : i < L.length := hi
  have e : L.getD i 0 = L[i] := by simp [List.getD_eq_getElem?_getD, hi']
  rw [constPoly_row vals hl i hi', ← scalarRow_eq _ _ _ hg.n_pos, e]
  show RowWF L[i] n _
  exact RowWF.scalar (by have := hg.q_ge _ (List.getElem_mem hi'); omega) _

theorem toQuot_constPoly_row [hg : Good L n] (vals : List ℕ) (hl : vals.length = L.length)
    (k : Fin L.length) :
    toQuot (L.get k) n ((constPoly L n vals).c.getD k []) = ((vals.getD k 0 : ℕ) : Rq (L.get k) n) := by
  have e : L.getD k 0 = L.get k := by simp [List.getD_eq_getElem?_getD]
  rw [constPoly_row vals hl k k.2, e, ← scalarRow_eq _ _ _ hg.n_pos, toQuot_scalarRow hg.n_pos]

end rows

/-! ## pushing the weighted sums through a map that preserves `+ *` -/

section push
variable {α β γ : Type} [Add α] [Mul α] [Neg α] [Sub α] [Add β] [Mul β] [Neg β] [Sub β]
variable {φ : α → β} (hφ : OpsHom φ)
include hφ

theorem wsumRow_map (z : α) : ∀ (x y : List α),
    φ (wsumRow z x y) = wsumRow (φ z) (x.map φ) (y.map φ)
  | [], _ => by simp [wsumRow]
  | _ :: _, [] => by simp [wsumRow]
  | x :: xs, y :: ys => by simp only [wsumRow, List.map_cons, hφ.add, hφ.mul, wsumRow_map z xs ys]

theorem wsumMat_map (z : α) : ∀ (x y : List (List α)),
    φ (wsumMat z x y) = wsumMat (φ z) (x.map (List.map φ)) (y.map (List.map φ))
  | [], _ => by simp [wsumMat]
  | _ :: _, [] => by simp [wsumMat]
  | x :: xs, y :: ys => by
      simp only [wsumMat, List.map_cons, hφ.add, wsumRow_map hφ, wsumMat_map z xs ys]

end push

theorem idxRowFrom_map' {α β γ : Type} (φ : α → β) (f : ℕ → ℕ → α) (i : ℕ) : ∀ (j : ℕ) (row : List γ),
    (idxRowFrom f i j row).map φ = idxRowFrom (fun i j => φ (f i j)) i j row
  | _, [] => rfl
  | j, _ :: rest => by simp only [idxRowFrom, List.map_cons, idxRowFrom_map' φ f i (j + 1) rest]

theorem idxMatFrom_map' {α β γ : Type} (φ : α → β) (f : ℕ → ℕ → α) : ∀ (i : ℕ) (m : List (List γ)),
    (idxMatFrom f i m).map (List.map φ) = idxMatFrom (fun i j => φ (f i j)) i m
  | _, [] => rfl
  | i, row :: rest => by
      simp only [idxMatFrom, List.map_cons, idxRowFrom_map', idxMatFrom_map' φ f (i + 1) rest]

theorem pgMat_map {α β γ : Type} (φ : α → β) (pg : ℕ → ℕ → α) (m : List (List γ)) :
    (pgMat pg m).map (List.map φ) = pgMat (fun i j => φ (pg i j)) m := idxMatFrom_map' φ pg 0 m

/-! ## well-formedness of the digits, zero extension -/

section digits_wf
variable {qs : List ℕ} {n : ℕ}

/-- `c` extended by zero rows on the moduli of `P` (a lift of `c ∈ R_Q` to `R_{QP}`) -/
def extZ (ps : List ℕ) (n : ℕ) (c : RPoly) : RPoly :=
  { qs := c.qs ++ ps, c := c.c ++ ps.map fun _ => zeroRow n }

theorem extZ_row_lt (ps : List ℕ) {c : RPoly} (hc : WFq qs n c) (k : ℕ) (hk : k < qs.length) :
    (extZ ps n c).c.getD k [] = c.c.getD k [] := by
  have : k < c.c.length := by rw [hc.2.1, hc.1]; exact hk
  simp [extZ, List.getD_eq_getElem?_getD, List.getElem?_append_left this]

theorem extZ_row_ge (ps : List ℕ) {c : RPoly} (hc : WFq qs n c) (k : ℕ) (hk : qs.length ≤ k)
    (hk2 : k < (qs ++ ps).length) : (extZ ps n c).c.getD k [] = zeroRow n := by
  have hl : c.c.length = qs.length := by rw [hc.2.1, hc.1]
  have h1 : c.c.length ≤ k := by omega
  have h2 : k - c.c.length < ps.length := by rw [List.length_append] at hk2; omega
  simp [extZ, List.getD_eq_getElem?_getD, List.getElem?_append_right h1, h2]

theorem extZ_wf (ps : List ℕ) [hg : Good (qs ++ ps) n] {c : RPoly} (hc : WFq qs n c) :
    WFq (qs ++ ps) n (extZ ps n c) := by
  have hl : c.c.length = qs.length := by rw [hc.2.1, hc.1]
  refine ⟨by simp [extZ, hc.1], by simp [extZ, hl, hc.1], fun i hi => ?_⟩
  have hi' : i < (qs ++ ps).length := by simpa [extZ, hc.1] using hi
  by_cases hlt : i < qs.length
  · rw [extZ_row_lt ps hc i hlt]
    have := hc.2.2 i (by rw [hc.1]; exact hlt)
    have e : (extZ ps n c).qs[i] = c.qs[i]'(by rw [hc.1]; exact hlt) := by
      simp [extZ, List.getElem_append_left (by rw [hc.1]; exact hlt : i < c.qs.length)]
    rw [e]; exact this
  · rw [extZ_row_ge ps hc i (by omega) hi']
    refine RowWF.zero ?_
    have : (extZ ps n c).qs[i] ∈ qs ++ ps := by
      have h := List.getElem_mem hi
      have e : (extZ ps n c).qs = qs ++ ps := by simp [extZ, hc.1]
      exact e ▸ h
    have := hg.q_ge _ this
    omega

theorem takeRows_extZ (ps : List ℕ) {c : RPoly} (hc : WFq qs n c) : takeRows qs.length (extZ ps n c) = c := by
  have hl : c.c.length = qs.length := by rw [hc.2.1, hc.1]
  obtain ⟨cq, cc⟩ := c
  have h1 : cq = qs := hc.1
  subst h1
  simp only at hl
  simp [takeRows, extZ, List.take_left' hl]

theorem decomposeRNS_wf (ps : List ℕ) [hg : Good (qs ++ ps) n] (nbPi i : ℕ) {c : RPoly} (hc : WFq qs n c)
    (hi : i * nbPi < qs.length) : WFq (qs ++ ps) n (decomposeRNS ps nbPi i c) := by
  have hqs : qs ≠ [] := by intro h; rw [h] at hi; exact absurd hi (Nat.not_lt_zero _)
  rw [decomposeRNS_unfold, hc.1]
  split
  · refine ofInts_wf _ ?_
    rw [List.length_map]
    exact (hc.2.2 (i * nbPi) (by rw [hc.1]; exact hi)).len
  · refine ofInts_wf _ ?_
    rw [List.length_map, List.length_range]
    exact headD_length hc hqs

theorem decomposeBits_wf (ps : List ℕ) [hg : Good (qs ++ ps) n] (w i j : ℕ) {c : RPoly} (hc : WFq qs n c)
    (hi : i < qs.length) : WFq (qs ++ ps) n (decomposeBits ps w i j c) := by
  unfold decomposeBits
  rw [hc.1]
  refine ofInts_wf _ ?_
  rw [List.length_map]
  exact (hc.2.2 i (by rw [hc.1]; exact hi)).len

/-- every digit `KS.decompose` produces is a well-formed element of `R_{QP}` -/
theorem decompose_wf (ps : List ℕ) [hg : Good (qs ++ ps) n] (hqs : qs ≠ []) (w : ℕ) (nJ : List ℕ) {c : RPoly}
    (hc : WFq qs n c) : ∀ r ∈ decompose ps w nJ c, ∀ p ∈ r, WFq (qs ++ ps) n p := by
  have hlen : 0 < qs.length := List.length_pos_of_ne_nil hqs
  intro r hr p hp
  unfold decompose at hr
  simp only [hc.1] at hr
  split at hr
  · rename_i hnP
    simp only [List.mem_map, List.mem_range] at hr
    obtain ⟨i, hi, rfl⟩ := hr
    simp only [List.mem_singleton] at hp
    subst hp
    refine decomposeRNS_wf ps _ i hc ?_
    unfold baseRNSDecompositionVectorSize at hi
    rw [if_neg (by omega)] at hi
    have := (Nat.le_div_iff_mul_le (by omega : 0 < ps.length)).mp (Nat.succ_le_of_lt hi)
    rw [Nat.succ_mul] at this
    omega
  · simp only [List.mem_map, List.mem_range] at hr
    obtain ⟨i, hi, rfl⟩ := hr
    split at hp
    · rw [List.mem_replicate] at hp
      rw [hp.2]
      exact decomposeRNS_wf ps 1 i hc (by omega)
    · simp only [List.mem_map, List.mem_range] at hp
      obtain ⟨j, _, rfl⟩ := hp
      exact decomposeBits_wf ps w i j hc (by omega)

end digits_wf

/-! ## (G) assembled -/

theorem getD_map_nil {α β : Type} (f : List α → List β) (hf : f [] = []) (l : List (List α)) (i : ℕ) :
    (l.map f).getD i [] = f (l.getD i []) := by
  simp only [List.getD_eq_getElem?_getD, List.getElem?_map]
  cases l[i]? <;> simp [hf]

theorem getD_map_range' {α : Type} (f : ℕ → α) (d : α) (N i : ℕ) (hi : i < N) :
    ((List.range N).map f).getD i d = f i := by
  simp [List.getD_eq_getElem?_getD, hi]

theorem getD_length_map {β : Type} (m : List (List β)) (i : ℕ) :
    (m.getD i []).length = (m.map List.length).getD i 0 := by
  simp only [List.getD_eq_getElem?_getD, List.getElem?_map]
  cases m[i]? <;> simp

section onerow
variable {q n : ℕ}

/-- one digit, one key entry: `d·2^0 = d` -/
theorem one_digit_row (w k : ℕ) (D : RPoly) (row : List ℕ) (hrow : D.c.getD k [] = row) {β : Type}
    (shape : List β) (hs : shape.length = 1) :
    wsumRow (0 : Rq q n) ([D].map fun p => toQuot q n (p.c.getD k []))
        (idxRowFrom (fun _ j => ((2 ^ (w * j) : ℕ) : Rq q n)) 0 0 shape)
      = toQuot q n row := by
  obtain ⟨s, rfl⟩ := List.length_eq_one_iff.mp hs
  simp only [List.map_cons, List.map_nil, idxRowFrom, wsumRow, hrow, Nat.mul_zero, pow_zero, Nat.cast_one,
    mul_one, add_zero]

end onerow

section assembly
variable {qs ps : List ℕ} {n : ℕ} [hgq : Good qs n] [hg : Good (qs ++ ps) n]

theorem two_pow_sub_one_eq_zero (w : ℕ) : 2 ^ w - 1 = 0 ↔ w = 0 := by
  constructor
  · intro h
    by_contra hw
    have : 2 ≤ 2 ^ w := by
      calc 2 = 2 ^ 1 := rfl
        _ ≤ 2 ^ w := Nat.pow_le_pow_right (by omega) (by omega)
    omega
  · rintro rfl; rfl

/-- row lengths of a sample matrix of the shape `gadgetShape` -/
theorem shape_row {β : Type} (samples : List (List β)) (w : ℕ)
    (hshape : samples.map List.length = gadgetShape qs (qs.length - 1) ps.length w) (i : ℕ)
    (hi : i < baseRNSDecompositionVectorSize (qs.length - 1) ps.length) (hiq : i < qs.length) :
    (samples.getD i []).length
      = if w = 0 ∨ ps.length ≥ 2 then 1 else baseTwoDigits (qs.getD i 0) w := by
  rw [getD_length_map, hshape]
  unfold gadgetShape
  rw [getD_map_range' _ _ _ _ hi]
  unfold baseTwoDecompositionVectorSize
  split <;> simp [List.getD_eq_getElem?_getD, hiq]

/-- **(G) gadget recombination, closed**: for the digits the model's `decompose` produces (RNS digits of one or of
`#P` primes, base-`2^w` digits; EVERY value of the IEEE index in the HPS branch) and the gadget vector `pgElt` as
laid out by `AddPolyTimesGadgetVectorToGadgetCiphertext`, on a key of the shape the parameters prescribe:
`Σ_{i,j} d_ij·(P·g_ij) = P·c` in `R_{QP}` (`c` lifted by zero rows; `P ≡ 0` there). -/
theorem gadget_closed (hqs : qs ≠ []) (hco : qs.Pairwise Nat.Coprime) (w : ℕ) {c1 : RPoly}
    (hc1 : WFq qs n c1) {β : Type} (samples : List (List β))
    (hshape : samples.map List.length = gadgetShape qs (qs.length - 1) ps.length w) :
    wsumMat (RPoly.zero (qs ++ ps) n) (decompose ps w (samples.map List.length) c1)
        (pgMat (pgElt qs ps n w) samples)
      = constQ (qs ++ ps) n (RPoly.prod ps) * extZ ps n c1 := by
  have hnQ : 0 < qs.length := List.length_pos_of_ne_nil hqs
  have hd := decompose_wf ps hqs w (samples.map List.length) hc1
  obtain ⟨d', hd'⟩ := exists_lift_mat _ hd
  have hpgw : ∀ i j, WFq (qs ++ ps) n (pgElt qs ps n w i j) := fun i j => by
    unfold pgElt; exact constPoly_wf' _ (by simp)
  let pg' : ℕ → ℕ → WFPoly (qs ++ ps) n := fun i j => lift (pgElt qs ps n w i j) (hpgw i j)
  let Pw : WFPoly (qs ++ ps) n := lift (constQ (qs ++ ps) n (RPoly.prod ps)) (constQ_wf _)
  let cw : WFPoly (qs ++ ps) n := lift (extZ ps n c1) (extZ_wf ps hc1)
  suffices h : wsumMat 0 d' (pgMat pg' samples) = Pw * cw by
    have h2 := congrArg val h
    rw [wsumMat_map val_hom, pgMat_map, hd'] at h2
    exact h2
  apply WFPoly.toProd_injective
  have hpush : WFPoly.toProd (wsumMat 0 d' (pgMat pg' samples))
      = wsumMat 0 (d'.map (List.map WFPoly.toProd)) (pgMat (fun i j => WFPoly.toProd (pg' i j)) samples) := by
    have := wsumMat_map (OpsHom.ofRingHom (WFPoly.toProdHom (qs := qs ++ ps) (n := n))) 0 d' (pgMat pg' samples)
    rw [pgMat_map, map_zero] at this
    exact this
  rw [hpush, WFPoly.toProd_mul]
  -- notation
  set m := gw ps.length with hm
  have hmpos : 0 < m := gw_pos _
  let grp : Fin (qs ++ ps).length → ℕ := fun k => if k.1 < qs.length then k.1 / m else d'.length
  let Pk : ∀ k : Fin (qs ++ ps).length, Rq ((qs ++ ps).get k) n := fun k => ((RPoly.prod ps : ℕ) : Rq _ n)
  let b : ℕ → ∀ k : Fin (qs ++ ps).length, Rq ((qs ++ ps).get k) n := fun j k => ((2 ^ (w * j) : ℕ) : Rq _ n)
  have hkl : ∀ k : Fin (qs ++ ps).length, k.1 < qs.length + ps.length := fun k => by
    have := k.2; simp only [List.length_append] at this; exact this
  have hPw : WFPoly.toProd Pw = Pk := by
    funext k
    show toQuot _ n ((constPoly (qs ++ ps) n _).c.getD k []) = _
    rw [toQuot_constPoly_row _ (by simp) k]
    have : ((qs ++ ps).map fun _ => RPoly.prod ps).getD k 0 = RPoly.prod ps := by
      rw [List.getD_eq_getElem?_getD, List.getElem?_map, List.getElem?_eq_getElem k.2]; rfl
    rw [this]
  -- `P ≡ 0` on the rows of `P`
  have hPk0 : ∀ k : Fin (qs ++ ps).length, ¬ k.1 < qs.length → Pk k = 0 := by
    intro k hk
    have hmem : (qs ++ ps).get k ∈ ps := by
      have : (qs ++ ps).get k = ps[k.1 - qs.length]'(by have := hkl k; omega) := by
        rw [List.get_eq_getElem, List.getElem_append_right (by omega)]
      rw [this]; exact List.getElem_mem _
    show ((RPoly.prod ps : ℕ) : Rq ((qs ++ ps).get k) n) = 0
    rw [← cast_mod_eq natCast_q_Rq, prod_eq_prodN, Nat.mod_eq_zero_of_dvd (dvd_prodN ps _ hmem), Nat.cast_zero]
  -- the gadget vector, row by row
  have hpg : (fun i j => WFPoly.toProd (pg' i j))
      = fun i j => fun k => if grp k = i then Pk k * b j k else 0 := by
    funext i j k
    show toQuot _ n ((pgElt qs ps n w i j).c.getD k []) = _
    unfold pgElt
    rw [toQuot_constPoly_row _ (by simp) k]
    by_cases hk : k.1 < qs.length
    · have hv : (((List.range qs.length).map fun k' =>
            if (gadgetRowIdx (qs.length - 1) ps.length i).contains k' then RPoly.prod ps * 2 ^ (w * j) else 0)
            ++ ps.map fun _ => 0).getD k 0
          = if k.1 / m = i then RPoly.prod ps * 2 ^ (w * j) else 0 := by
        rw [List.getD_eq_getElem?_getD, List.getElem?_append_left (by simpa using hk),
          ← List.getD_eq_getElem?_getD, getD_map_range' _ _ _ _ hk]
        have := gadgetRowIdx_contains (qs.length - 1) ps.length i k.1
        by_cases hc : k.1 / m = i
        · rw [if_pos hc, if_pos (this.mpr ⟨hc, by omega⟩)]
        · rw [if_neg hc, if_neg (fun h => hc (this.mp h).1)]
      rw [hv]
      show _ = if (if k.1 < qs.length then k.1 / m else d'.length) = i then Pk k * b j k else 0
      rw [if_pos hk]
      by_cases hc : k.1 / m = i
      · rw [if_pos hc, if_pos hc, Nat.cast_mul]
      · rw [if_neg hc, if_neg hc, Nat.cast_zero]
    · have hv : (((List.range qs.length).map fun k' =>
            if (gadgetRowIdx (qs.length - 1) ps.length i).contains k' then RPoly.prod ps * 2 ^ (w * j) else 0)
            ++ ps.map fun _ => 0).getD k 0 = 0 := by
        have h2 : k.1 - qs.length < ps.length := by have := hkl k; omega
        rw [List.getD_eq_getElem?_getD, List.getElem?_append_right (by simp; omega)]
        simp [h2]
      rw [hv, Nat.cast_zero, hPk0 k hk, zero_mul, ite_self]
  rw [hpg, hPw]
  -- rows of the lifted digits
  have hdlen : d'.length = (decompose ps w (samples.map List.length) c1).length := by
    rw [← hd', List.length_map]
  have hrows : ∀ (k : Fin (qs ++ ps).length) (g : ℕ),
      ((d'.map (List.map WFPoly.toProd)).getD g []).map (fun x => x k)
        = ((decompose ps w (samples.map List.length) c1).getD g []).map
            fun p => toQuot ((qs ++ ps).get k) n (p.c.getD k []) := by
    intro k g
    rw [← hd', getD_map_nil _ rfl, getD_map_nil _ rfl, List.map_map, List.map_map]
    rfl
  apply gadget_identity grp Pk b (WFPoly.toProd cw) samples
  intro k
  rw [hrows k]
  by_cases hk : k.1 < qs.length
  · -- a row of `Q`
    have hgk : grp k = k.1 / m := by show (if k.1 < qs.length then _ else _) = _; rw [if_pos hk]
    have hcw : WFPoly.toProd cw k = toQuot ((qs ++ ps).get k) n (c1.c.getD k []) := by
      show toQuot _ n ((extZ ps n c1).c.getD k []) = _
      rw [extZ_row_lt ps hc1 k hk]
    have hqk : (qs ++ ps).get k = qs.getD k 0 := by
      simp [List.getD_eq_getElem?_getD, hk]
    have hwf := hc1.2.2 k (by rw [hc1.1]; exact hk)
    have hqk' : c1.qs[k.1]'(by rw [hc1.1]; exact hk) = (qs ++ ps).get k := by
      rw [hqk]; simp [List.getD_eq_getElem?_getD, hc1.1, hk]
    rw [hqk'] at hwf
    rw [hgk, hcw]
    have hkL : k.1 < (qs ++ ps).length := k.2
    have hqL : (qs ++ ps).getD k 1 = (qs ++ ps).get k := by
      rw [List.getD_eq_getElem?_getD, List.getElem?_eq_getElem k.2]; rfl
    unfold decompose
    simp only [hc1.1]
    by_cases hnP : ps.length ≥ 2
    · -- several primes per digit
      have hmn : m = ps.length := by rw [hm]; unfold gw; rw [if_neg (by omega)]
      rw [if_pos hnP]
      have hi : k.1 / m < baseRNSDecompositionVectorSize (qs.length - 1) ps.length := by
        unfold baseRNSDecompositionVectorSize
        rw [if_neg (by omega), hmn, Nat.add_div_right _ (by omega)]
        exact Nat.lt_succ_of_le (Nat.div_le_div_right (by omega))
      have hiq : k.1 / m < qs.length := Nat.lt_of_le_of_lt (Nat.div_le_self _ _) hk
      rw [getD_map_range' _ _ _ _ hi]
      have hs := shape_row samples w hshape (k.1 / m) hi hiq
      rw [if_pos (Or.inr hnP)] at hs
      exact one_digit_row w k _ _
        (decomposeRNS_row ps ps.length (k.1 / m) k hc1 hco (by omega) hk (by rw [hmn])) _ hs
    · have hm1 : m = 1 := by
        rw [hm]; unfold gw; split <;> omega
      rw [if_neg hnP, hm1, Nat.div_one]
      have hi : k.1 < baseRNSDecompositionVectorSize (qs.length - 1) ps.length := by
        unfold baseRNSDecompositionVectorSize
        split
        · omega
        · have : ps.length = 1 := by omega
          rw [this, Nat.div_one]; omega
      rw [getD_map_range' _ _ _ _ (by omega : k.1 < qs.length - 1 + 1)]
      have hs := shape_row samples w hshape k.1 hi hk
      by_cases hw : w = 0
      · -- RNS digits, one prime per digit
        rw [if_pos ((two_pow_sub_one_eq_zero w).mpr hw)]
        rw [if_pos (Or.inl hw)] at hs
        rw [← getD_length_map, hs, List.replicate_one]
        exact one_digit_row w k _ _
          (decomposeRNS_row ps 1 k k hc1 hco (by omega) hk (Nat.div_one _)) _ hs
      · -- base-`2^w` digits
        rw [if_neg (fun h => hw ((two_pow_sub_one_eq_zero w).mp h))]
        rw [if_neg (by rintro (h | h) <;> omega)] at hs
        rw [← getD_length_map, List.map_map]
        have hrowj : ∀ j, toQuot ((qs ++ ps).get k) n ((decomposeBits ps w k j c1).c.getD k [])
            = toQuot ((qs ++ ps).get k) n
                ((c1.c.getD k []).map fun x => bitDigit w j x % (qs ++ ps).get k) := by
          intro j
          unfold decomposeBits
          rw [hc1.1, ofInts_row_eq _ _ k hkL, hqL, List.map_map]
          refine congrArg _ (List.map_congr_left (fun x _ => ?_))
          show (((bitDigit w j x : ℕ) : ℤ) % (((qs ++ ps).get k : ℕ) : ℤ)).toNat = _
          rw [← Int.natCast_mod, Int.toNat_natCast]
        have : ((fun p : RPoly => toQuot ((qs ++ ps).get k) n (p.c.getD k []))
              ∘ fun j => decomposeBits ps w k j c1)
            = fun j => toQuot ((qs ++ ps).get k) n
                ((c1.c.getD k []).map fun x => bitDigit w j x % (qs ++ ps).get k) := by
          funext j; exact hrowj j
        rw [this]
        refine bits_row w _ _ hwf ?_ _ rfl
        rw [hs, hqk]
        exact digitCount_sufficient _ w (by omega)
  · -- a row of `P`: no digit, `c = 0`
    have hgk : grp k = d'.length := by show (if k.1 < qs.length then _ else _) = _; rw [if_neg hk]
    have hcw : WFPoly.toProd cw k = 0 := by
      show toQuot _ n ((extZ ps n c1).c.getD k []) = _
      rw [extZ_row_ge ps hc1 k (by omega) k.2, toQuot_zeroRow]
    rw [hgk, hcw, hdlen, List.getD_eq_getElem?_getD, List.getElem?_eq_none (Nat.le_refl _)]
    rfl

end assembly

end Lattigo.StackKS
