import Lattigo.Proofs.NTTCI
import Lattigo.Proofs.NTTRangeBig

/-!
  # The conjugate-invariant forward transform on LARGE inputs (no uint64 wrap), every degree

  `NTTRangeBig.lean` gives the no-wrap theorem with ABSOLUTE bounds for the standard network
  (`nttCoreLazy_big`: inputs `< M`, `M + 4q ≤ 2^64`, no relation between `M` and `q`).  This file is the same for the
  conjugate-invariant transform `nttCICoreLazy` = twist by `roots[1]`, then the network from node `2` with the reduce
  schedule `flagCI` (`ring/ntt.go: nttConjugateInvariantLazy(Unrolled16)`):

  * the twist maps inputs `< M` to values `< M + 2q` without wrap (`twist_ok`, needs `M + 2q ≤ 2^64`);
  * `N ≥ 16` (`flagCI (2^K) d = true ⇔ d+1 = K ∨ d odd`): entering depth `0, 1`: `M', M'+2q` (`M' = M + 2q`), then
    `m + 2q` at even / `m + 4q` at odd depths, `m = max M' 4q`, and `< m + 2q` at the output (`bBigCI_ok`);
  * `N < 16` (every stage reduces): the constant bound `max M' 6q`.

  Result (`nttCICoreLazy_big_all`): for inputs `< M` with `M + 6q ≤ 2^64`, read in `Z_q` the word-level transform is
  the exact twist followed by the exact network on the inputs read in `Z_q`, and every output is
  `< max (M+2q) 4q + 2q` (`M = 2q`: `< 6q`, the documented range).  Corollaries: `nttCI_big` (the reducing transform
  returns the canonical residues), `nttCI_unreduced` (`nttCI T a = nttCI T (a mod q)`), and linearity of the exact
  twist (`twistZ_zipWith_lin`, to be combined with `fwdZ_zipWith_lin`).  Used by C02 for
  `Div{Floor,Round}ByLastModulusNTT` / `DecomposeNTT` on conjugate-invariant rings (`NTTLazy` of ring `q_i` applied to
  residues modulo the larger `q_ℓ`).
-/
namespace Lattigo.NTT
open Lattigo Lattigo.Gen

/-! ### the reduce schedule of the conjugate-invariant transform -/

theorem flagCI_small (K d : Nat) (hK : K < 4) : flagCI (2 ^ K) d = true := by
  unfold flagCI
  rw [unrollMin_eq, if_pos ((two_pow_lt_16 K).2 hK)]

theorem flagCI_true_iff (K d : Nat) (hK : 4 ≤ K) :
    flagCI (2 ^ K) d = true ↔ (d + 1 = K ∨ d % 2 = 1) := by
  have h16 : ¬ 2 ^ K < 16 := fun h => by have := (two_pow_lt_16 K).1 h; omega
  unfold flagCI
  rw [unrollMin_eq]
  simp only [h16, if_false, two_pow_eq_iff]
  by_cases h1 : d + 1 = K
  · simp [h1]
  · simp only [h1, if_false, decide_eq_true_eq, false_or]
    omega

/-- absolute bound on the values ENTERING depth `d` of the network of `nttCICoreLazy`, degree `2^K ≥ 16`, for
twisted inputs `< M'`: `M', M'+2q`, then `m+2q` (even depth, and after the last stage) / `m+4q` (odd depth),
`m = max M' 4q`. -/
def bBigCI (M' q K d : Nat) : Nat :=
  if d = 0 then M' else if d = 1 then M' + 2 * q
  else if d = K then max M' (4 * q) + 2 * q
  else if d % 2 = 0 then max M' (4 * q) + 2 * q else max M' (4 * q) + 4 * q

theorem bBigCI_zero (M' q K : Nat) : bBigCI M' q K 0 = M' := by simp [bBigCI]
theorem bBigCI_one (M' q K : Nat) : bBigCI M' q K 1 = M' + 2 * q := by simp [bBigCI]
theorem bBigCI_ge2 (M' q K d : Nat) (hd : 2 ≤ d) :
    bBigCI M' q K d = if d = K then max M' (4 * q) + 2 * q
      else if d % 2 = 0 then max M' (4 * q) + 2 * q else max M' (4 * q) + 4 * q := by
  unfold bBigCI
  rw [if_neg (by omega), if_neg (by omega)]

theorem bBigCI_last (M' q K : Nat) (hK : 4 ≤ K) : bBigCI M' q K K = max M' (4 * q) + 2 * q := by
  rw [bBigCI_ge2 M' q K K (by omega), if_pos rfl]

theorem bBigCI_ok (M' q K : Nat) (hK : 4 ≤ K) (h8 : 8 * q ≤ W) (hM : M' + 4 * q ≤ W) :
    BoundOKA (flagCI (2 ^ K)) (bBigCI M' q K) q K := by
  intro d hd
  obtain ⟨m, hm⟩ : ∃ m, m = max M' (4 * q) := ⟨_, rfl⟩
  have hm1 : M' ≤ m := by rw [hm]; exact Nat.le_max_left _ _
  have hm2 : 4 * q ≤ m := by rw [hm]; exact Nat.le_max_right _ _
  have hm3 : m + 4 * q ≤ W := by
    rw [hm, Nat.max_def]; split <;> omega
  constructor
  · intro hf
    have h1 := (flagCI_true_iff K d hK).1 hf
    have hd1 : 1 ≤ d := by omega
    have hy : bBigCI M' q K (d + 1) = m + 2 * q := by
      rw [bBigCI_ge2 M' q K (d + 1) (by omega), ← hm]
      split_ifs <;> omega
    have hx : bBigCI M' q K d ≤ m + 4 * q := by
      rcases Nat.eq_or_lt_of_le hd1 with h | h
      · rw [← h, bBigCI_one]; omega
      · rw [bBigCI_ge2 M' q K d (by omega), ← hm]
        split_ifs <;> omega
    rw [hy]
    generalize bBigCI M' q K d = x at hx
    simp only [Nat.max_def, Nat.min_def]
    constructor
    · omega
    · (repeat' split) <;> omega
  · intro hf
    have hn : ¬ (d + 1 = K ∨ d % 2 = 1) := by
      intro h; rw [(flagCI_true_iff K d hK).2 h] at hf; exact absurd hf (by simp)
    rcases Nat.eq_zero_or_pos d with h0 | h0
    · subst h0
      rw [bBigCI_zero, Nat.zero_add, bBigCI_one]; omega
    · have hx : bBigCI M' q K d = m + 2 * q := by
        rw [bBigCI_ge2 M' q K d (by omega), ← hm]
        split_ifs <;> omega
      have hy : bBigCI M' q K (d + 1) = m + 4 * q := by
        rw [bBigCI_ge2 M' q K (d + 1) (by omega), ← hm]
        split_ifs <;> omega
      rw [hx, hy]; omega

/-- the constant bound `max M' 6q` is admissible for the all-reducing schedule (`N < 16`) -/
theorem bSmallCI_ok (M' q K : Nat) (hK : K < 4) (h8 : 8 * q ≤ W) (hM : M' + 4 * q ≤ W) :
    BoundOKA (flagCI (2 ^ K)) (fun _ => max M' (6 * q)) q K := by
  intro d _
  refine ⟨fun _ => ?_, fun hf => ?_⟩
  · simp only [Nat.max_def, Nat.min_def]
    constructor
    · split <;> omega
    · (repeat' split) <;> omega
  · rw [flagCI_small K d hK] at hf; exact absurd hf (by simp)

section
variable {T : Tables} {K : ℕ}

/-- **`nttCICoreLazy` (= `NTTLazy` of the conjugate-invariant ring) on large inputs, EVERY degree `N = 2^K`**: for
inputs `< M` with `M + 6q ≤ 2^64` (no relation between `M` and `q` otherwise) there is no uint64 wrap-around: read
in `Z_q` the output is the exact twist by `ρ_1` followed by the exact network from node `2`, applied to the inputs
read in `Z_q`; every output is `< max (M+2q) 4q + 2q`. -/
theorem nttCICoreLazy_big_all (hT : ValidCI T K) [Fact T.q.Prime] (M : ℕ)
    (hM : M + 6 * T.q ≤ W) (a : List ℕ) (ha : ∀ x ∈ a, x < M) :
    (nttCICoreLazy T a).map (Nat.cast : ℕ → ZMod T.q)
      = fwdZ (rho T.q T.rootsF) K 2 (twistZ (rho T.q T.rootsF 1) (a.map (Nat.cast : ℕ → ZMod T.q)))
    ∧ ∀ y ∈ nttCICoreLazy T a, y < max (M + 2 * T.q) (4 * T.q) + 2 * T.q := by
  have h8 := hT.h8
  obtain ⟨et, ht⟩ := twist_ok T T.rootsF a M (by omega) hT.mont hT.rootsF_lt ha
  have hcast := twistN_cast T T.rootsF a M rfl (by omega) hT.mont hT.rootsF_lt ha
  have e : nttCICoreLazy T a
      = fwdRec T.rootsF T.q T.qinv (flagCI (2 ^ K)) K 0 2 (twistN T T.rootsF a) := by
    unfold nttCICoreLazy; rw [hT.n_eq, log2n_two_pow, et]
  rw [e, ← hcast]
  by_cases hK : 4 ≤ K
  · have hB := bBigCI_ok (M + 2 * T.q) T.q K hK h8 (by omega)
    obtain ⟨c, r⟩ := fwdRec_castA T.rootsF T.qinv (flagCI (2 ^ K)) (bBigCI (M + 2 * T.q) T.q K) K h8 hT.mont
      hT.rootsF_lt hB K 0 2 _ (by omega) (by rw [bBigCI_zero]; exact ht)
    refine ⟨c, ?_⟩
    intro y hy
    have := r y hy
    rwa [Nat.zero_add, bBigCI_last _ _ K hK] at this
  · have hB := bSmallCI_ok (M + 2 * T.q) T.q K (by omega) h8 (by omega)
    obtain ⟨c, r⟩ := fwdRec_castA T.rootsF T.qinv (flagCI (2 ^ K)) (fun _ => max (M + 2 * T.q) (6 * T.q)) K h8
      hT.mont hT.rootsF_lt hB K 0 2 _ (by omega)
      (fun x hx => Nat.lt_of_lt_of_le (ht x hx) (Nat.le_max_left _ _))
    refine ⟨c, ?_⟩
    intro y hy
    have := r y hy
    simp only [Nat.max_def] at this ⊢
    (repeat' split at this) <;> (repeat' split) <;> omega

/-- the outputs of `nttCICoreLazy_big_all` fit in a word -/
theorem nttCICoreLazy_big_lt_W (hT : ValidCI T K) [Fact T.q.Prime] (M : ℕ)
    (hM : M + 6 * T.q ≤ W) (a : List ℕ) (ha : ∀ x ∈ a, x < M) : ∀ y ∈ nttCICoreLazy T a, y < W := by
  intro y hy
  have h1 := (nttCICoreLazy_big_all hT M hM a ha).2 y hy
  have h8 := hT.h8
  simp only [Nat.max_def] at h1
  split at h1 <;> omega

/-- **`nttCI` (= `NTT`) on large inputs**: the reducing transform of an UNREDUCED row (entries `< M`,
`M + 6q ≤ 2^64`) is, in `Z_q`, the exact transform of the row, with entries `< q`. -/
theorem nttCI_big (hT : ValidCI T K) [Fact T.q.Prime] (M : ℕ) (hM : M + 6 * T.q ≤ W) (a : List ℕ)
    (ha : ∀ x ∈ a, x < M) :
    (nttCI T a).map (Nat.cast : ℕ → ZMod T.q)
      = fwdZ (rho T.q T.rootsF) K 2 (twistZ (rho T.q T.rootsF 1) (a.map (Nat.cast : ℕ → ZMod T.q)))
    ∧ ∀ y ∈ nttCI T a, y < T.q := by
  have hq1 : 1 < T.q := hT.prime.one_lt
  obtain ⟨hc, _⟩ := nttCICoreLazy_big_all hT M hM a ha
  have hlt := nttCICoreLazy_big_lt_W hT M hM a ha
  have hred : ∀ y ∈ nttCICoreLazy T a, BRedAdd y T.q T.bred = y % T.q := by
    intro y hy
    rw [hT.bred]; exact BRedAdd_spec y T.q hq1 (hlt y hy)
  constructor
  · rw [← hc]
    unfold nttCI
    rw [List.map_map]
    apply List.map_congr_left
    intro y hy
    simp only [Function.comp, hred y hy]
    exact ZMod.natCast_mod y T.q
  · intro y hy
    unfold nttCI at hy
    rw [List.mem_map] at hy
    obtain ⟨x, hx, rfl⟩ := hy
    rw [hred x hx]; exact Nat.mod_lt _ (by omega)

/-- **NTT of an unreduced row, conjugate-invariant ring**: `nttCI T a = nttCI T (a mod q)` for entries `< M`,
`M + 6q ≤ 2^64`, every degree. -/
theorem nttCI_unreduced (hT : ValidCI T K) (M : ℕ) (hM : M + 6 * T.q ≤ W)
    (a : List ℕ) (ha : ∀ x ∈ a, x < M) : nttCI T a = nttCI T (a.map (· % T.q)) := by
  have : Fact T.q.Prime := ⟨hT.prime⟩
  have hq0 : 0 < T.q := hT.prime.pos
  obtain ⟨h1, l1⟩ := nttCI_big hT M hM a ha
  obtain ⟨h2, l2⟩ := nttCI_cast hT (a.map (· % T.q)) (by
    intro x hx; rw [List.mem_map] at hx; obtain ⟨y, _, rfl⟩ := hx; exact Nat.mod_lt _ hq0)
  apply map_cast_inj (q := T.q) _ _ l1 l2
  rw [h1, h2]
  congr 2
  rw [List.map_map]
  apply List.map_congr_left
  intro x _
  simp only [Function.comp]
  exact (ZMod.natCast_mod x T.q).symm

end

/-! ### linearity of the exact twist -/
section
variable {F : Type} [CommRing F]

/-- **The exact twist is linear**: `twistZ i ((A − B)·c) = (twistZ i A − twistZ i B)·c` entry-wise, for rows of
equal length. -/
theorem twistZ_zipWith_lin (i c : F) (A B : List F) (h : A.length = B.length) :
    twistZ i (List.zipWith (fun a b => (a - b) * c) A B)
      = List.zipWith (fun a b => (a - b) * c) (twistZ i A) (twistZ i B) := by
  have hl : (List.zipWith (fun a b => (a - b) * c) A B).length = A.length := by
    rw [List.length_zipWith, h, Nat.min_self]
  have hget : ∀ k, (List.zipWith (fun a b => (a - b) * c) A B).getD k 0
      = (A.getD k 0 - B.getD k 0) * c := by
    intro k
    by_cases hk : k < A.length
    · have hkB : k < B.length := h ▸ hk
      rw [List.getD_eq_getElem?_getD, List.getD_eq_getElem?_getD, List.getD_eq_getElem?_getD,
        List.getElem?_eq_getElem (by rw [hl]; exact hk), List.getElem?_eq_getElem hk,
        List.getElem?_eq_getElem hkB]
      simp
    · have hkB : ¬ k < B.length := h ▸ hk
      rw [List.getD_eq_getElem?_getD, List.getD_eq_getElem?_getD, List.getD_eq_getElem?_getD,
        List.getElem?_eq_none (by rw [hl]; omega), List.getElem?_eq_none (by omega),
        List.getElem?_eq_none (by omega)]
      simp
  apply ext_getD
  · rw [twistZ_length, hl, List.length_zipWith, twistZ_length, twistZ_length, h, Nat.min_self]
  · intro j hj
    rw [twistZ_length, hl] at hj
    rw [twistZ_getD _ _ j (by rw [hl]; exact hj)]
    have hz : (List.zipWith (fun a b => (a - b) * c) (twistZ i A) (twistZ i B)).getD j 0
        = ((twistZ i A).getD j 0 - (twistZ i B).getD j 0) * c := by
      have h1 : j < (twistZ i A).length := by rw [twistZ_length]; exact hj
      have h2 : j < (twistZ i B).length := by rw [twistZ_length, ← h]; exact hj
      rw [List.getD_eq_getElem?_getD, List.getD_eq_getElem?_getD, List.getD_eq_getElem?_getD,
        List.getElem?_eq_getElem (by rw [List.length_zipWith]; omega), List.getElem?_eq_getElem h1,
        List.getElem?_eq_getElem h2]
      simp
    rw [hz, twistZ_getD _ _ j hj, twistZ_getD _ _ j (h ▸ hj), hl, ← h]
    simp only [hget]
    split <;> ring

end

#print axioms bBigCI_ok
#print axioms nttCICoreLazy_big_all
#print axioms nttCI_big
#print axioms nttCI_unreduced
#print axioms twistZ_zipWith_lin

end Lattigo.NTT
