/-
  Stack closure C02 → C03/C20, part 3: the exact `ModDown`s of the public-key encryption model
  (`RLWE.RQ.modDown`) and of the external-product model (`RGSW.modDown`).

  Both reconstruct the residues modulo `P` with `RPoly.crt` (no floating point), centre, reduce modulo the
  `q_i`, subtract and multiply by `P⁻¹ mod q_i`.  On well-formed inputs both ARE
  `KS.modDown (pinvElt) (π x) (ofInts qs (cenZ x_P))` with `cenZ` = C02's `centeredRep P` of the CRT value
  (`rq_modDown_eq`, `rgsw_modDown_eq`); hence `P·down x = π x − π(remC x)` (`rq_modDown_closed`,
  `rgsw_modDown_closed`), `remC x ≡ x (mod P)` (`StackKS.partP_remC`) and `2‖cenZ‖∞ ≤ P` (`StackKS.cenZ_bound`).

  `mdRows_round`, `rq_modDown_round`, `rgsw_modDown_round`, `modDownR_round` (C04, under the named IEEE hypothesis):
  every coefficient of the result is `⌊(X + ⌊P/2⌋)/P⌋ mod q_i` — C02's `modDown_round`, i.e. what
  `Props/C02.modDownQPtoQ_limbs` proves of the limb-level twin for the exact index: the three scheme-level
  models and the limb-level `BasisExt.modDownQPtoQ` compute the same residues.
-/
import Lattigo.Proofs.StackKS
import Lattigo.Model.RGSW

set_option linter.unusedSectionVars false

namespace Lattigo.StackKS
open Lattigo Lattigo.RPolyRing Lattigo.Transport Lattigo.Scaling Lattigo.BasisExt

theorem transpose_eq (rows : List (List ℕ)) :
    RPoly.transpose rows = (List.range (rows.headD []).length).map fun j => KS.colOf rows j := by
  cases rows with
  | nil => rfl
  | cons r rs =>
    show (List.range r.length).map _ = (List.range r.length).map _
    apply List.map_congr_left
    intro j _
    unfold KS.colOf
    apply List.map_congr_left
    intro row _
    exact list_get!_eq row j

/-- residues shifted by `h` -/
theorem shifted_res (X h M : ℕ) (ps col : List ℕ) (hd : ∀ m ∈ ps, m ∣ M)
    (hres : List.Forall₂ (fun m r => r % m = X % m) ps col) :
    List.Forall₂ (fun m r => r % m = ((X + h) % M) % m) ps
      ((ps.zip col).map fun (pc : ℕ × ℕ) => (pc.2 + h) % pc.1) := by
  induction hres with
  | nil => exact List.Forall₂.nil
  | @cons m r ms rs hr _ ih =>
    refine List.Forall₂.cons ?_ (ih (fun a ha => hd a (by simp [ha])))
    show (r + h) % m % m = _
    rw [Nat.mod_mod, Nat.mod_mod_of_dvd _ (hd m (by simp)), Nat.add_mod, hr, ← Nat.add_mod]

/-- the C03 model's centred lift of one coefficient is C02's `centeredRep` of its CRT value -/
theorem rq_delta (ps col : List ℕ) (X : ℕ) (hc : ps.Pairwise Nat.Coprime) (hge : ∀ p ∈ ps, 2 ≤ p)
    (hX : X < prodN ps) (hres : List.Forall₂ (fun m r => r % m = X % m) ps col) :
    ((RPoly.crt ps ((ps.zip col).map fun (pc : ℕ × ℕ) => (pc.2 + RPoly.prod ps / 2) % pc.1) : ℕ) : ℤ)
        - ((RPoly.prod ps / 2 : ℕ) : ℤ)
      = centeredRep (prodN ps) (RPoly.crt ps col) := by
  have hM : 0 < prodN ps := BasisExt.prodN_pos ps (pos_of_ge2 hge)
  rw [crt_eq ps col X hc hge hX hres, prod_eq_prodN,
    crt_eq ps _ ((X + prodN ps / 2) % prodN ps) hc hge (Nat.mod_lt _ hM)
      (shifted_res X (prodN ps / 2) (prodN ps) ps col (dvd_prodN ps) hres)]
  rfl

section models
variable {qs ps : List ℕ} {n : ℕ} [hgq : Good qs n] [hg : Good (qs ++ ps) n]

theorem take_wf_c {x : RPoly} (hx : WFq (qs ++ ps) n x) :
    takeRows qs.length x = { qs := qs, c := x.c.take qs.length } := by
  unfold takeRows; rw [hx.1, List.take_left' rfl]

theorem partP_wf_c {x : RPoly} (hx : WFq (qs ++ ps) n x) :
    KS.partP qs.length x = { qs := ps, c := x.c.drop qs.length } := by
  unfold KS.partP; rw [hx.1, List.drop_left' rfl]

/-- the centred lifts of the C03 model are `cenZ` -/
theorem rq_lift_eq (hc : ps.Pairwise Nat.Coprime) {x : RPoly} (hx : WFq (qs ++ ps) n x) :
    (RPoly.transpose (x.c.drop qs.length)).map (fun col =>
        ((RPoly.crt ps ((ps.zip col).map fun (pc : ℕ × ℕ) => (pc.2 + RPoly.prod ps / 2) % pc.1) : ℕ) : ℤ)
          - ((RPoly.prod ps / 2 : ℕ) : ℤ))
      = cenZ (KS.partP qs.length x) := by
  have hge : ∀ p ∈ ps, 2 ≤ p := (good_right hg).q_ge
  have hw := partP_wf hx
  rw [partP_wf_c hx] at hw ⊢
  rw [transpose_eq, List.map_map]
  unfold cenZ
  apply List.map_congr_left
  intro t _
  obtain ⟨X, hX, hres⟩ := col_residues hw hc hge t
  exact rq_delta ps _ X hc hge hX hres

/-- **C03: `RLWE.RQ.modDown` in closed form** -/
theorem rq_modDown_eq (hps : ps ≠ []) (hc : ps.Pairwise Nat.Coprime) (ci : Bool) {x : RPoly}
    (hx : WFq (qs ++ ps) n x) :
    (RLWE.RQ.modDown qs.length ⟨ci, x⟩).p
      = KS.modDown (KS.pinvElt qs ps n) (takeRows qs.length x)
          (RPoly.ofInts qs (cenZ (KS.partP qs.length x))) := by
  have hl := cenZ_length (partP_wf hx) hps
  rw [← mdRows_eq ps (takeRows_wf hx) _ hl, ← rq_lift_eq hc hx]
  unfold RLWE.RQ.modDown
  simp only [hx.1, List.take_left' rfl, List.drop_left' rfl]
  rfl

/-- the centred lifts of the C20 model are `cenZ` -/
theorem rgsw_lift_eq {x : RPoly} (hx : WFq (qs ++ ps) n x) :
    (RPoly.transpose (x.c.drop qs.length)).map (fun col =>
        (((RPoly.crt ps col + RPoly.prod ps / 2) % RPoly.prod ps : ℕ) : ℤ) - ((RPoly.prod ps / 2 : ℕ) : ℤ))
      = cenZ (KS.partP qs.length x) := by
  rw [partP_wf_c hx, transpose_eq, List.map_map]
  unfold cenZ
  apply List.map_congr_left
  intro t _
  simp only [Function.comp, prod_eq_prodN]
  rfl

/-- **C20: `RGSW.modDown` in closed form** -/
theorem rgsw_modDown_eq (hps : ps ≠ []) {x : RPoly}
    (hx : WFq (qs ++ ps) n x) :
    RGSW.modDown qs ps x
      = KS.modDown (KS.pinvElt qs ps n) (takeRows qs.length x)
          (RPoly.ofInts qs (cenZ (KS.partP qs.length x))) := by
  have hl := cenZ_length (partP_wf hx) hps
  rw [← mdRows_eq ps (takeRows_wf hx) _ hl, ← rgsw_lift_eq hx]
  rfl

/-- ring algebra shared by the two models: `P·((π x − π(remC x))·P⁻¹) = π x − π(remC x)` -/
theorem exact_modDown_closed (hps : ps ≠ []) (hcop : ∀ q ∈ qs, Nat.Coprime (RPoly.prod ps) q) {x : RPoly}
    (hx : WFq (qs ++ ps) n x) :
    constQ qs n (RPoly.prod ps)
        * KS.modDown (KS.pinvElt qs ps n) (takeRows qs.length x)
            (RPoly.ofInts qs (cenZ (KS.partP qs.length x)))
        = takeRows qs.length x - takeRows qs.length (remC qs ps x)
      ∧ WFq qs n (KS.modDown (KS.pinvElt qs ps n) (takeRows qs.length x)
            (RPoly.ofInts qs (cenZ (KS.partP qs.length x)))) := by
  have hl := cenZ_length (partP_wf hx) hps
  have ho : WFq qs n (RPoly.ofInts qs (cenZ (KS.partP qs.length x))) := ofInts_wf _ hl
  have e : takeRows qs.length (remC qs ps x) = RPoly.ofInts qs (cenZ (KS.partP qs.length x)) :=
    takeRows_ofInts _ _ _
  rw [e]
  exact ⟨mul_modDown_cancel (constQ_wf _) (pinvElt_wf ps) (takeRows_wf hx) ho (hP_closed ps hcop),
    modDown_wf (pinvElt_wf ps) (takeRows_wf hx) ho⟩

/-- **(2) for C03**: `P · RQ.modDown x = π x − π(remC x)` -/
theorem rq_modDown_closed (hps : ps ≠ []) (hc : ps.Pairwise Nat.Coprime)
    (hcop : ∀ q ∈ qs, Nat.Coprime (RPoly.prod ps) q) (ci : Bool) {x : RPoly} (hx : WFq (qs ++ ps) n x) :
    constQ qs n (RPoly.prod ps) * (RLWE.RQ.modDown qs.length ⟨ci, x⟩).p
        = takeRows qs.length x - takeRows qs.length (remC qs ps x)
      ∧ WFq qs n (RLWE.RQ.modDown qs.length ⟨ci, x⟩).p := by
  rw [rq_modDown_eq hps hc ci hx]; exact exact_modDown_closed hps hcop hx

/-- **(2) for C20**: `P · RGSW.modDown x = π x − π(remC x)` -/
theorem rgsw_modDown_closed (hps : ps ≠ [])
    (hcop : ∀ q ∈ qs, Nat.Coprime (RPoly.prod ps) q) {x : RPoly} (hx : WFq (qs ++ ps) n x) :
    constQ qs n (RPoly.prod ps) * RGSW.modDown qs ps x
        = takeRows qs.length x - takeRows qs.length (remC qs ps x)
      ∧ WFq qs n (RGSW.modDown qs ps x) := by
  rw [rgsw_modDown_eq hps hx]; exact exact_modDown_closed hps hcop hx

end models

/-! ## `ModDown` is the ROUNDED division by `P` (C02's `modDown_round`) -/

section round
variable {qs ps : List ℕ} {n : ℕ} [hgq : Good qs n] [hg : Good (qs ++ ps) n]

theorem getD_map_zip {α β γ : Type} (a : List α) (b : List β) (g : α × β → γ) (da : α) (db : β) (dg : γ) (t : ℕ)
    (h1 : t < a.length) (h2 : t < b.length) :
    ((a.zip b).map g).getD t dg = g (a.getD t da, b.getD t db) := by
  have hl : t < ((a.zip b).map g).length := by simp; omega
  rw [← List.getElem_eq_getD (h := hl) dg, List.getElem_map, List.getElem_zip,
    List.getElem_eq_getD (h := h1) da, List.getElem_eq_getD (h := h2) db]

theorem centeredRep_mod (P X : ℕ) : centeredRep P (X % P) = centeredRep P X := by
  unfold centeredRep; rw [Nat.mod_add_mod]

/-- **every coefficient of the exact `ModDown` rows is `⌊(X + ⌊P/2⌋)/P⌋ mod q_i`**, `X` the integer (`< QP`) whose
residues modulo `qs ++ ps` are the coefficient's column — the statement `Props/C02` makes about the limb-level
`BasisExt.modDownQPtoQ` with the exact index (`modDownQPtoQ_limbs`, through `modDown_err`); here for the scheme-level
models, from C02's `modDown_round`. -/
theorem mdRows_round (hco : (qs ++ ps).Pairwise Nat.Coprime) {x : RPoly} (hx : WFq (qs ++ ps) n x)
    (hps : ps ≠ []) (i : ℕ) (hi : i < qs.length) (t : ℕ) (ht : t < n) (X : ℕ)
    (hres : List.Forall₂ (fun m r => r % m = X % m) (qs ++ ps) (KS.colOf x.c t)) :
    ((mdRows qs (RPoly.prod ps) (x.c.take qs.length) (cenZ (KS.partP qs.length x))).getD i []).getD t 0
      = ((X + prodN ps / 2) / prodN ps) % qs.getD i 0 := by
  have hpsc := StackKS.pairwise_right hco
  have hpge : ∀ p ∈ ps, 2 ≤ p := (good_right hg).q_ge
  have hcl : x.c.length = qs.length + ps.length := by rw [hx.2.1, hx.1, List.length_append]
  have hq2 : 2 ≤ qs.getD i 0 := by
    have : qs.getD i 0 = qs[i] := by simp [List.getD_eq_getElem?_getD, hi]
    rw [this]; exact hgq.q_ge _ (List.getElem_mem hi)
  have hPpos : 0 < prodN ps := BasisExt.prodN_pos ps (pos_of_ge2 hpge)
  -- the `Q` entry
  have hiL : i < (qs ++ ps).length := by rw [List.length_append]; omega
  obtain ⟨hrl, hvlt⟩ := wf_entry_lt hx i hiL t ht
  have hqi : (qs ++ ps).getD i 0 = qs.getD i 0 := by
    simp [List.getD_eq_getElem?_getD, List.getElem?_append_left hi]
  rw [hqi] at hvlt
  have hv := forall₂_getD hres i hiL
  rw [colOf_getD _ _ _ (by omega), hqi, Nat.mod_eq_of_lt hvlt] at hv
  -- the lift is `centeredRep P X`
  have hw := partP_wf hx
  have hlen := cenZ_length hw hps
  have hlt : (cenZ (KS.partP qs.length x)).getD t 0 = centeredRep (prodN ps) X := by
    have h1 : (KS.partP qs.length x).qs = ps := hw.1
    have hl : t < (cenZ (KS.partP qs.length x)).length := by rw [hlen]; exact ht
    rw [← List.getElem_eq_getD (h := hl) 0]
    simp only [cenZ, List.getElem_map, List.getElem_range, h1]
    have hresP : List.Forall₂ (fun m r => r % m = (X % prodN ps) % m) ps
        (KS.colOf (KS.partP qs.length x).c t) := by
      have e : KS.colOf (KS.partP qs.length x).c t = (KS.colOf x.c t).drop qs.length := by
        simp [KS.colOf, KS.partP, List.map_drop]
      rw [e]
      have hd := List.forall₂_drop qs.length hres
      rw [List.drop_left' rfl] at hd
      exact forall₂_imp_mem hd (fun m hm r hr => by
        rw [Nat.mod_mod_of_dvd _ (dvd_prodN ps m hm)]; exact hr)
    rw [crt_eq ps _ (X % prodN ps) hpsc hpge (Nat.mod_lt _ hPpos) hresP, centeredRep_mod]
  -- unfold the row
  have hrow : (mdRows qs (RPoly.prod ps) (x.c.take qs.length) (cenZ (KS.partP qs.length x))).getD i []
      = ((x.c.getD i []).zip (cenZ (KS.partP qs.length x))).map fun (vl : ℕ × ℤ) =>
          (((vl.1 : ℤ) - vl.2) % ((qs.getD i 0 : ℕ) : ℤ)).toNat
            * RPoly.modInv (RPoly.prod ps % qs.getD i 0) (qs.getD i 0) % qs.getD i 0 := by
    unfold mdRows
    simp [List.getD_eq_getElem?_getD, hi, (by omega : i < x.c.length)]
  rw [hrow]
  have hget : ∀ (g : ℕ × ℤ → ℕ), (((x.c.getD i []).zip (cenZ (KS.partP qs.length x))).map g).getD t 0
      = g ((x.c.getD i []).getD t 0, (cenZ (KS.partP qs.length x)).getD t 0) := fun g =>
    getD_map_zip _ _ g 0 0 0 t (by rw [hrl]; exact ht) (by rw [hlen]; exact ht)
  rw [hget]
  simp only []
  rw [hlt, hv]
  -- C02's `modDown_round`
  set q := qs.getD i 0 with hq
  set c := RPoly.modInv (RPoly.prod ps % q) q with hc
  have hcop : Nat.Coprime (RPoly.prod ps) q := by
    have : q = qs[i] := by simp [hq, List.getD_eq_getElem?_getD, hi]
    rw [this]
    exact coprime_prod_of_pairwise hco _ (List.getElem_mem hi)
  have hinv : (prodN ps * c) % q = 1 := by
    rw [← prod_eq_prodN]; exact mul_modInv_mod _ _ hq2 hcop
  set ei := (centeredRep (prodN ps) X % (q : ℤ)).toNat with hei
  have hnn : 0 ≤ centeredRep (prodN ps) X % (q : ℤ) := Int.emod_nonneg _ (by omega)
  have he : ((ei : ℕ) : ℤ) % (q : ℤ) = centeredRep (prodN ps) X % (q : ℤ) := by
    rw [hei, Int.toNat_of_nonneg hnn, Int.emod_emod_of_dvd _ (dvd_refl _)]
  have hround := modDown_round q (prodN ps) c X ei (by omega) hinv he
  rw [← hround]
  unfold modDownRes
  rw [← md_point q (by omega) (X % q) (centeredRep (prodN ps) X), Nat.mod_mul_mod]

/-- C03: every coefficient of `RLWE.RQ.modDown` is the rounded quotient -/
theorem rq_modDown_round (hco : (qs ++ ps).Pairwise Nat.Coprime) (ci : Bool) {x : RPoly}
    (hx : WFq (qs ++ ps) n x) (hps : ps ≠ []) (i : ℕ) (hi : i < qs.length) (t : ℕ) (ht : t < n) (X : ℕ)
    (hres : List.Forall₂ (fun m r => r % m = X % m) (qs ++ ps) (KS.colOf x.c t)) :
    ((RLWE.RQ.modDown qs.length ⟨ci, x⟩).p.c.getD i []).getD t 0
      = ((X + prodN ps / 2) / prodN ps) % qs.getD i 0 := by
  have h := rq_modDown_eq hps (StackKS.pairwise_right hco) ci hx
  rw [← mdRows_eq ps (takeRows_wf hx) _ (cenZ_length (partP_wf hx) hps)] at h
  rw [h]
  exact mdRows_round hco hx hps i hi t ht X hres

/-- C20: every coefficient of `RGSW.modDown` is the rounded quotient -/
theorem rgsw_modDown_round (hco : (qs ++ ps).Pairwise Nat.Coprime) {x : RPoly}
    (hx : WFq (qs ++ ps) n x) (hps : ps ≠ []) (i : ℕ) (hi : i < qs.length) (t : ℕ) (ht : t < n) (X : ℕ)
    (hres : List.Forall₂ (fun m r => r % m = X % m) (qs ++ ps) (KS.colOf x.c t)) :
    ((RGSW.modDown qs ps x).c.getD i []).getD t 0 = ((X + prodN ps / 2) / prodN ps) % qs.getD i 0 := by
  have h := rgsw_modDown_eq hps hx
  rw [← mdRows_eq ps (takeRows_wf hx) _ (cenZ_length (partP_wf hx) hps)] at h
  rw [h]
  exact mdRows_round hco hx hps i hi t ht X hres

/-- C04: under the named IEEE hypothesis, every coefficient of the driver's `Evaluator.ModDown` is the rounded
quotient (so the three models and C02's limb-level twin agree) -/
theorem modDownR_round (hqs : qs ≠ []) (hco : (qs ++ ps).Pairwise Nat.Coprime) {x : RPoly}
    (hx : WFq (qs ++ ps) n x) (hps : ps ≠ []) (hf : FloatExactPoly (KS.partP qs.length x))
    (i : ℕ) (hi : i < qs.length) (t : ℕ) (ht : t < n) (X : ℕ)
    (hres : List.Forall₂ (fun m r => r % m = X % m) (qs ++ ps) (KS.colOf x.c t)) :
    ((KS.modDownR qs.length x).c.getD i []).getD t 0 = ((X + prodN ps / 2) / prodN ps) % qs.getD i 0 := by
  have hpge : ∀ p ∈ ps, 2 ≤ p := (good_right hg).q_ge
  rw [modDownR_eq hqs hps hx, modUpPtoQ_eq, remZ_eq_cenZ (partP_wf hx) (StackKS.pairwise_right hco) hpge hf,
    ← mdRows_eq ps (takeRows_wf hx) _ (cenZ_length (partP_wf hx) hps)]
  exact mdRows_round hco hx hps i hi t ht X hres

end round

end Lattigo.StackKS
