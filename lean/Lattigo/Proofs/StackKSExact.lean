/-
  Stack closure C02 → C03/C20, part 3: the exact `ModDown`s of the public-key encryption model
  (`RLWE.RQ.modDown`) and of the external-product model (`RGSW.modDown`).

  Both reconstruct the residues modulo `P` with `RPoly.crt` (no floating point), centre, reduce modulo the
  `q_i`, subtract and multiply by `P⁻¹ mod q_i`.  On well-formed inputs both ARE
  `KS.modDown (pinvElt) (π x) (ofInts qs (cenZ x_P))` with `cenZ` = C02's `centeredRep P` of the CRT value
  (`rq_modDown_eq`, `rgsw_modDown_eq`); hence `P·down x = π x − π(remC x)` (`rq_modDown_closed`,
  `rgsw_modDown_closed`), `remC x ≡ x (mod P)` (`StackKS.partP_remC`) and `2‖cenZ‖∞ ≤ P` (`StackKS.cenZ_bound`).
-/
import Lattigo.Proofs.StackKS
import Lattigo.Model.RGSW

set_option linter.unusedSectionVars false

namespace Lattigo.StackKS
open Lattigo Lattigo.RPolyRing Lattigo.Transport Lattigo.Scaling Lattigo.BasisExt

theorem transpose_eq (rows : List (List ℕ)) :
    RPoly.transpose rows = (List.range (rows.headD []).length).map fun j => KS.colOf rows j := by
  cases rows with
  | nil => rfl
  | cons r rs =>
    show (List.range r.length).map _ = (List.range r.length).map _
    apply List.map_congr_left
    intro j _
    unfold KS.colOf
    apply List.map_congr_left
    intro row _
    exact list_get!_eq row j

/-- residues shifted by `h` -/
theorem shifted_res (X h M : ℕ) (ps col : List ℕ) (hd : ∀ m ∈ ps, m ∣ M)
    (hres : List.Forall₂ (fun m r => r % m = X % m) ps col) :
    List.Forall₂ (fun m r => r % m = ((X + h) % M) % m) ps
      ((ps.zip col).map fun (pc : ℕ × ℕ) => (pc.2 + h) % pc.1) := by
  induction hres with
  | nil => exact List.Forall₂.nil
  | @cons m r ms rs hr _ ih =>
    refine List.Forall₂.cons ?_ (ih (fun a ha => hd a (by simp [ha])))
    show (r + h) % m % m = _
    rw [Nat.mod_mod, Nat.mod_mod_of_dvd _ (hd m (by simp)), Nat.add_mod, hr, ← Nat.add_mod]

/-- the C03 model's centred lift of one coefficient is C02's `centeredRep` of its CRT value -/
theorem rq_delta (ps col : List ℕ) (X : ℕ) (hc : ps.Pairwise Nat.Coprime) (hge : ∀ p ∈ ps, 2 ≤ p)
    (hX : X < prodN ps) (hres : List.Forall₂ (fun m r => r % m = X % m) ps col) :
    ((RPoly.crt ps ((ps.zip col).map fun (pc : ℕ × ℕ) => (pc.2 + RPoly.prod ps / 2) % pc.1) : ℕ) : ℤ)
        - ((RPoly.prod ps / 2 : ℕ) : ℤ)
      = centeredRep (prodN ps) (RPoly.crt ps col) := by
  have hM : 0 < prodN ps := BasisExt.prodN_pos ps (pos_of_ge2 hge)
  rw [crt_eq ps col X hc hge hX hres, prod_eq_prodN,
    crt_eq ps _ ((X + prodN ps / 2) % prodN ps) hc hge (Nat.mod_lt _ hM)
      (shifted_res X (prodN ps / 2) (prodN ps) ps col (dvd_prodN ps) hres)]
  rfl

section models
variable {qs ps : List ℕ} {n : ℕ} [hgq : Good qs n] [hg : Good (qs ++ ps) n]

theorem take_wf_c {x : RPoly} (hx : WFq (qs ++ ps) n x) :
    takeRows qs.length x = { qs := qs, c := x.c.take qs.length } := by
  unfold takeRows; rw [hx.1, List.take_left' rfl]

theorem partP_wf_c {x : RPoly} (hx : WFq (qs ++ ps) n x) :
    KS.partP qs.length x = { qs := ps, c := x.c.drop qs.length } := by
  unfold KS.partP; rw [hx.1, List.drop_left' rfl]

/-- the centred lifts of the C03 model are `cenZ` -/
theorem rq_lift_eq (hc : ps.Pairwise Nat.Coprime) {x : RPoly} (hx : WFq (qs ++ ps) n x) :
    (RPoly.transpose (x.c.drop qs.length)).map (fun col =>
        ((RPoly.crt ps ((ps.zip col).map fun (pc : ℕ × ℕ) => (pc.2 + RPoly.prod ps / 2) % pc.1) : ℕ) : ℤ)
          - ((RPoly.prod ps / 2 : ℕ) : ℤ))
      = cenZ (KS.partP qs.length x) := by
  have hge : ∀ p ∈ ps, 2 ≤ p := (good_right hg).q_ge
  have hw := partP_wf hx
  rw [partP_wf_c hx] at hw ⊢
  rw [transpose_eq, List.map_map]
  unfold cenZ
  apply List.map_congr_left
  intro t _
  obtain ⟨X, hX, hres⟩ := col_residues hw hc hge t
  exact rq_delta ps _ X hc hge hX hres

/-- **C03: `RLWE.RQ.modDown` in closed form** -/
theorem rq_modDown_eq (hps : ps ≠ []) (hc : ps.Pairwise Nat.Coprime) (ci : Bool) {x : RPoly}
    (hx : WFq (qs ++ ps) n x) :
    (RLWE.RQ.modDown qs.length ⟨ci, x⟩).p
      = KS.modDown (KS.pinvElt qs ps n) (takeRows qs.length x)
          (RPoly.ofInts qs (cenZ (KS.partP qs.length x))) := by
  have hl := cenZ_length (partP_wf hx) hps
  rw [← mdRows_eq ps (takeRows_wf hx) _ hl, ← rq_lift_eq hc hx]
  unfold RLWE.RQ.modDown
  simp only [hx.1, List.take_left' rfl, List.drop_left' rfl]
  rfl

/-- the centred lifts of the C20 model are `cenZ` -/
theorem rgsw_lift_eq {x : RPoly} (hx : WFq (qs ++ ps) n x) :
    (RPoly.transpose (x.c.drop qs.length)).map (fun col =>
        (((RPoly.crt ps col + RPoly.prod ps / 2) % RPoly.prod ps : ℕ) : ℤ) - ((RPoly.prod ps / 2 : ℕ) : ℤ))
      = cenZ (KS.partP qs.length x) := by
  rw [partP_wf_c hx, transpose_eq, List.map_map]
  unfold cenZ
  apply List.map_congr_left
  intro t _
  simp only [Function.comp, prod_eq_prodN]
  rfl

/-- **C20: `RGSW.modDown` in closed form** -/
theorem rgsw_modDown_eq (hps : ps ≠ []) {x : RPoly}
    (hx : WFq (qs ++ ps) n x) :
    RGSW.modDown qs ps x
      = KS.modDown (KS.pinvElt qs ps n) (takeRows qs.length x)
          (RPoly.ofInts qs (cenZ (KS.partP qs.length x))) := by
  have hl := cenZ_length (partP_wf hx) hps
  rw [← mdRows_eq ps (takeRows_wf hx) _ hl, ← rgsw_lift_eq hx]
  rfl

/-- ring algebra shared by the two models: `P·((π x − π(remC x))·P⁻¹) = π x − π(remC x)` -/
theorem exact_modDown_closed (hps : ps ≠ []) (hcop : ∀ q ∈ qs, Nat.Coprime (RPoly.prod ps) q) {x : RPoly}
    (hx : WFq (qs ++ ps) n x) :
    constQ qs n (RPoly.prod ps)
        * KS.modDown (KS.pinvElt qs ps n) (takeRows qs.length x)
            (RPoly.ofInts qs (cenZ (KS.partP qs.length x)))
        = takeRows qs.length x - takeRows qs.length (remC qs ps x)
      ∧ WFq qs n (KS.modDown (KS.pinvElt qs ps n) (takeRows qs.length x)
            (RPoly.ofInts qs (cenZ (KS.partP qs.length x)))) := by
  have hl := cenZ_length (partP_wf hx) hps
  have ho : WFq qs n (RPoly.ofInts qs (cenZ (KS.partP qs.length x))) := ofInts_wf _ hl
  have e : takeRows qs.length (remC qs ps x) = RPoly.ofInts qs (cenZ (KS.partP qs.length x)) :=
    takeRows_ofInts _ _ _
  rw [e]
  exact ⟨mul_modDown_cancel (constQ_wf _) (pinvElt_wf ps) (takeRows_wf hx) ho (hP_closed ps hcop),
    modDown_wf (pinvElt_wf ps) (takeRows_wf hx) ho⟩

/-- **(2) for C03**: `P · RQ.modDown x = π x − π(remC x)` -/
theorem rq_modDown_closed (hps : ps ≠ []) (hc : ps.Pairwise Nat.Coprime)
    (hcop : ∀ q ∈ qs, Nat.Coprime (RPoly.prod ps) q) (ci : Bool) {x : RPoly} (hx : WFq (qs ++ ps) n x) :
    constQ qs n (RPoly.prod ps) * (RLWE.RQ.modDown qs.length ⟨ci, x⟩).p
        = takeRows qs.length x - takeRows qs.length (remC qs ps x)
      ∧ WFq qs n (RLWE.RQ.modDown qs.length ⟨ci, x⟩).p := by
  rw [rq_modDown_eq hps hc ci hx]; exact exact_modDown_closed hps hcop hx

/-- **(2) for C20**: `P · RGSW.modDown x = π x − π(remC x)` -/
theorem rgsw_modDown_closed (hps : ps ≠ [])
    (hcop : ∀ q ∈ qs, Nat.Coprime (RPoly.prod ps) q) {x : RPoly} (hx : WFq (qs ++ ps) n x) :
    constQ qs n (RPoly.prod ps) * RGSW.modDown qs ps x
        = takeRows qs.length x - takeRows qs.length (remC qs ps x)
      ∧ WFq qs n (RGSW.modDown qs ps x) := by
  rw [rgsw_modDown_eq hps hx]; exact exact_modDown_closed hps hcop hx

end models

end Lattigo.StackKS
