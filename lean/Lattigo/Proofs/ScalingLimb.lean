/-
  Limb level ⊑ integer level for `DivFloorByLastModulus` / `DivRoundByLastModulus` (ring/scaling.go).

  The limb-level twin (`Model/Scaling.lean`: `divFloorLimb`, `divRoundLimb`, `divFloor`, `divRound`, built
  from the regenerated uint64/Montgomery lanes) computes the residue formula `divFloorRes`.

  The inverse `invMod ql qi = ModExp(ql, qi-2, qi)` is characterised by hypotheses
      hinv : (ql * invMod ql qi) % qi = 1        hlt : invMod ql qi < qi
  (proved from primality elsewhere).  In fact the limb-level refinement needs only `hlt`:
  `divFloorRes` takes the constant `c` as a parameter, and the Montgomery constant in the table is
  `(qi − c)·2^64 mod qi` whatever `c < qi` is.  `hinv` is kept in the statements of the `_spec`
  theorems (interface agreed with the integer-level file); the primed versions do without it.
-/
import Lattigo.Model.Scaling
import Lattigo.Proofs.ModRed
import Mathlib.Data.Nat.ModEq
import Mathlib.Tactic.Ring
import Mathlib.Tactic.Linarith

set_option linter.unusedVariables false

namespace Lattigo.Scaling
open Lattigo Lattigo.Gen

/-! ## word-level helpers -/

theorem u64shl_one (q : Nat) (h : 2 * q < W) : u64shl q 1 = 2 * q := by
  unfold u64shl
  rw [Nat.pow_one, Nat.mul_comm, Nat.mod_eq_of_lt h]

theorem u64sub_eq (a b : Nat) (hb : b ≤ a) (ha : a < W) : u64sub a b = a - b := by
  unfold u64sub
  rw [Nat.mod_eq_of_lt (Nat.lt_of_le_of_lt hb ha)]
  have : a + W - b = (a - b) + W := by omega
  rw [this, Nat.add_mod_right, Nat.mod_eq_of_lt (by omega)]

theorem u64add_eq (a b : Nat) (h : a + b < W) : u64add a b = a + b := by
  unfold u64add
  exact Nat.mod_eq_of_lt h

theorem pHalf_eq (ql : Nat) (h0 : 0 < ql) (hW : ql < W) : pHalf ql = half ql := by
  unfold pHalf half u64shr
  rw [u64sub_eq ql 1 h0 hW, Nat.pow_one]

theorem half_lt (ql : Nat) (h0 : 0 < ql) : half ql < ql := by
  unfold half; omega

/-! ## the rescale constant -/

/-- `RescaleConstants[ℓ-1][i] = MForm(q_i − [q_ℓ⁻¹]_{q_i}) = (q_i − [q_ℓ⁻¹]_{q_i})·2^64 mod q_i`. -/
theorem rescaleConst_spec (qi ql : Nat) (hodd : qi % 2 = 1) (h1 : 1 < qi) (h2 : 2 * qi ≤ W)
    (hlt : invMod ql qi < qi) :
    rescaleConst qi ql = ((qi - invMod ql qi) * W) % qi := by
  unfold rescaleConst
  rw [u64sub_eq qi _ (Nat.le_of_lt hlt) (by unfold W at *; omega)]
  exact MForm_spec _ qi h1 h2 (by unfold W at *; omega)

-- test (non-vacuity): q_i = 97, q_ℓ = 193, [193⁻¹]_97 = 96
example : 97 % 2 = 1 ∧ 1 < 97 ∧ 2 * 97 ≤ W ∧ invMod 193 97 < 97 ∧ (193 * invMod 193 97) % 97 = 1 := by
  decide

/-! ## the Montgomery core: `MRed(A, (q−c)·W mod q) = Y·c mod q` whenever `q ∣ A + Y` -/

theorem mred_neg_core (q c A Y : Nat) (hodd : q % 2 = 1) (h1 : 1 < q) (h2 : 2 * q ≤ W)
    (hc : c < q) (hA : A < W) (hAY : (A + Y) % q = 0) :
    MRed A (((q - c) * W) % q) q (GenMRedConstant q) = (Y * c) % q := by
  have hqW : q < W := by unfold W at *; omega
  have hq0 : 0 < q := by omega
  have hm : MontConst q (GenMRedConstant q) := (GenMRedConstant_spec q hodd hqW).1
  have hcop : Nat.Coprime q W := MontConst.coprime hm
  have hRC : ((q - c) * W) % q < q := Nat.mod_lt _ hq0
  have hxy : A * (((q - c) * W) % q) < q * W := by
    calc A * (((q - c) * W) % q) ≤ A * q := Nat.mul_le_mul_left _ (Nat.le_of_lt hRC)
      _ < W * q := Nat.mul_lt_mul_of_pos_right hA hq0
      _ = q * W := Nat.mul_comm _ _
  obtain ⟨hmod, hlt⟩ := MRed_spec A (((q - c) * W) % q) q (GenMRedConstant q) h2 hm hxy
  generalize MRed A (((q - c) * W) % q) q (GenMRedConstant q) = r at *
  -- r·W ≡ (A·(q−c))·W, cancel W
  have e1 : r * W ≡ (A * (q - c)) * W [MOD q] := by
    show (r * W) % q = ((A * (q - c)) * W) % q
    rw [hmod, Nat.mul_mod_mod, Nat.mul_assoc]
  have e2 : r ≡ A * (q - c) [MOD q] := Nat.ModEq.cancel_right_of_coprime hcop e1
  -- A·(q−c) ≡ Y·c
  obtain ⟨k, hk⟩ := Nat.dvd_of_mod_eq_zero hAY
  have e3 : (A * (q - c)) % q = (Y * c) % q := by
    apply mod_eq_of_add_mul_eq (k1 := k * c) (k2 := A)
    obtain ⟨d, hd⟩ : ∃ d, q = d + c := ⟨q - c, by omega⟩
    have hd' : q - c = d := by omega
    rw [hd']
    have : (A + Y) * c = q * k * c := by rw [hk]
    rw [hd] at this ⊢
    nlinarith [this]
  have e4 : r % q = (Y * c) % q := e2.trans e3
  rwa [Nat.mod_eq_of_lt hlt] at e4

/-! ## DivFloorByLastModulus, one limb -/

/-- `hinv`-free form of `divFloorLimb_spec` (any constant `c = invMod ql qi < qi`). -/
theorem divFloorLimb_spec' (qi ql xi xl : Nat) (hodd : qi % 2 = 1) (h1 : 1 < qi)
    (hlt : invMod ql qi < qi) (hxi : xi < qi) (hxl : xl + 2 * qi < W) :
    divFloorLimb qi ql xi xl = divFloorRes qi (invMod ql qi) xi xl := by
  have h2 : 2 * qi ≤ W := by omega
  have h2' : 2 * qi < W := by omega
  have hq0 : 0 < qi := by omega
  unfold divFloorLimb subthenmulscalarmontgomeryTwoModulusvec_lane divFloorRes
  simp only []
  rw [rescaleConst_spec qi ql hodd h1 h2 hlt, u64shl_one qi h2',
    u64sub_eq (2 * qi) xi (by omega) h2', u64add_eq _ _ (by omega)]
  apply mred_neg_core qi _ _ _ hodd h1 h2 hlt (by omega)
  have hr : xl % qi < qi := Nat.mod_lt _ hq0
  have hdm := Nat.div_add_mod xl qi
  have : 2 * qi - xi + xl + (xi + qi - xl % qi) = qi * (xl / qi + 3) := by
    rw [Nat.mul_add]
    generalize qi * (xl / qi) = K at *
    omega
  rw [this]
  exact Nat.mul_mod_right _ _

/-- **one limb of `DivFloorByLastModulus`** = the residue formula `(x_i − x_ℓ)·[q_ℓ⁻¹]_{q_i} mod q_i`.
    `x_ℓ` is a residue modulo the (possibly much larger) `q_ℓ`: only `x_ℓ + 2q_i < 2^64` is needed. -/
theorem divFloorLimb_spec (qi ql xi xl : Nat) (hodd : qi % 2 = 1) (h1 : 1 < qi)
    (hinv : (ql * invMod ql qi) % qi = 1) (hlt : invMod ql qi < qi)
    (hxi : xi < qi) (hxl : xl + 2 * qi < W) :
    divFloorLimb qi ql xi xl = divFloorRes qi (invMod ql qi) xi xl :=
  divFloorLimb_spec' qi ql xi xl hodd h1 hlt hxi hxl

-- test (non-vacuity): q_i = 97, q_ℓ = 193, x_i = 5, x_ℓ = 150 (> q_i)
example : 97 % 2 = 1 ∧ 1 < 97 ∧ (193 * invMod 193 97) % 97 = 1 ∧ invMod 193 97 < 97 ∧ 5 < 97
    ∧ 150 + 2 * 97 < W ∧ divFloorLimb 97 193 5 150 = 48 := by decide +kernel

/-! ## DivRoundByLastModulus, one limb -/

/-- the last row after `AddScalar(p0[level], pHalf)` -/
theorem roundLastLimb_spec (ql xl : Nat) (hxl : xl < ql) (hql2 : 2 * ql ≤ W) :
    roundLastLimb ql xl = (xl + half ql) % ql := by
  have hq0 : 0 < ql := by omega
  have hh := half_lt ql hq0
  unfold roundLastLimb addscalarvec_lane
  rw [pHalf_eq ql hq0 (by omega), u64add_eq _ _ (by omega)]
  exact CRed_spec _ ql hq0 (by omega) (by omega)

-- test (non-vacuity)
example : 150 < 193 ∧ 2 * 193 ≤ W ∧ roundLastLimb 193 150 = 53 := by decide

/-- the scalar `q_i − (pHalf mod q_i)` -/
theorem roundScalar_spec (qi ql : Nat) (h1 : 1 < qi) (hqi : qi < W) (hql : 0 < ql) (hqlW : ql < W) :
    roundScalar qi ql = qi - half ql % qi := by
  have hh := half_lt ql hql
  unfold roundScalar
  rw [pHalf_eq ql hql hqlW, BRedAdd_spec _ qi h1 (by omega)]
  exact u64sub_eq _ _ (Nat.le_of_lt (Nat.mod_lt _ (by omega))) hqi

/-- the centring scalar `MRed(q_i − pHalf mod q_i, RescaleConstant) = (pHalf mod q_i)·[q_ℓ⁻¹]_{q_i} mod q_i` -/
theorem roundConst_spec (qi ql : Nat) (hodd : qi % 2 = 1) (h1 : 1 < qi) (h2 : 2 * qi ≤ W)
    (hlt : invMod ql qi < qi) (hql : 0 < ql) (hqlW : ql < W) :
    roundConst qi ql = (half ql % qi * invMod ql qi) % qi := by
  have hq0 : 0 < qi := by omega
  have hm : half ql % qi < qi := Nat.mod_lt _ hq0
  unfold roundConst
  rw [rescaleConst_spec qi ql hodd h1 h2 hlt, roundScalar_spec qi ql h1 (by unfold W at *; omega) hql hqlW]
  apply mred_neg_core qi _ _ _ hodd h1 h2 hlt (by unfold W at *; omega)
  have : qi - half ql % qi + half ql % qi = qi := by omega
  rw [this]; exact Nat.mod_self _

/-- `hinv`-free form of `divRoundLimb_spec`, for any already shifted last limb `xl' < ql`. -/
theorem divRoundLimb_spec' (qi ql xi xl' : Nat) (hodd : qi % 2 = 1) (h1 : 1 < qi)
    (hlt : invMod ql qi < qi) (hxi : xi < qi) (hxl : xl' < ql) (hsz : ql + 3 * qi < W) :
    divRoundLimb qi ql xi xl' =
      divFloorRes qi (invMod ql qi) ((xi + half ql % qi) % qi) xl' := by
  have h2 : 2 * qi ≤ W := by omega
  have hq0 : 0 < qi := by omega
  have hql : 0 < ql := by omega
  unfold divRoundLimb addscalarvec_lane
  rw [divFloorLimb_spec' qi ql xi xl' hodd h1 hlt hxi (by omega),
    roundConst_spec qi ql hodd h1 h2 hlt hql (by omega)]
  unfold divFloorRes
  generalize half ql % qi = h
  generalize invMod ql qi = c
  have hr : xl' % qi < qi := Nat.mod_lt _ hq0
  generalize xl' % qi = r at hr
  have ha : ((xi + qi - r) * c) % qi < qi := Nat.mod_lt _ hq0
  have hk : (h * c) % qi < qi := Nat.mod_lt _ hq0
  rw [u64add_eq _ _ (by unfold W at *; omega), CRed_spec _ qi hq0 (by omega) (by unfold W at *; omega),
    ← Nat.add_mod]
  have hdm := Nat.div_add_mod (xi + h) qi
  apply mod_eq_of_add_mul_eq (k1 := 0) (k2 := (xi + h) / qi * c)
  generalize (xi + h) / qi = d at *
  generalize (xi + h) % qi = t at *
  obtain ⟨u, hu⟩ : ∃ u, qi = u + r := ⟨qi - r, by omega⟩
  have e1 : xi + qi - r = xi + u := by omega
  have e2 : t + qi - r = t + u := by omega
  rw [e1, e2]
  have : xi + h = qi * d + t := by omega
  nlinarith [this]

/-- **one limb of `DivRoundByLastModulus`** = the floor formula applied to the residues of `x + (q_ℓ−1)/2`. -/
theorem divRoundLimb_spec (qi ql xi xl : Nat) (hodd : qi % 2 = 1) (h1 : 1 < qi)
    (hinv : (ql * invMod ql qi) % qi = 1) (hlt : invMod ql qi < qi) (hql : 0 < ql)
    (hxi : xi < qi) (hxl : xl < ql) (hsz : ql + 3 * qi < W) (hql2 : 2 * ql ≤ W) :
    divRoundLimb qi ql xi (roundLastLimb ql xl) =
      divFloorRes qi (invMod ql qi) ((xi + half ql % qi) % qi) ((xl + half ql) % ql) := by
  rw [roundLastLimb_spec ql xl hxl hql2]
  exact divRoundLimb_spec' qi ql xi _ hodd h1 hlt hxi (Nat.mod_lt _ hql) hsz

-- test (non-vacuity): q_i = 97, q_ℓ = 193, x_i = 5, x_ℓ = 150
example : 97 % 2 = 1 ∧ 1 < 97 ∧ (193 * invMod 193 97) % 97 = 1 ∧ invMod 193 97 < 97 ∧ 0 < 193 ∧ 5 < 97
    ∧ 150 < 193 ∧ 193 + 3 * 97 < W ∧ 2 * 193 ≤ W
    ∧ divRoundLimb 97 193 5 (roundLastLimb 193 150) = 49 := by decide +kernel

/-! ## row level -/

theorem zipWith_map_map {α β γ δ : Type} (f : β → γ → δ) (g : α → β) (h : α → γ) (X : List α) :
    List.zipWith f (X.map g) (X.map h) = X.map fun x => f (g x) (h x) := by
  induction X with
  | nil => rfl
  | cons x X ih => simp only [List.map_cons, List.zipWith_cons_cons, ih]

/-- **`DivFloorByLastModulus`, all rows**: if the rows of `p0` are the residues of the integer vector
    `X`, row `i` of the result is the residue formula applied coefficient-wise. -/
theorem divFloor_rows (qs : List Nat) (level : Nat) (p0 : Rows) (X : List Nat)
    (hrows : ∀ i, i ≤ level → row p0 i = X.map (· % modulus qs i))
    (hodd : ∀ i, i ≤ level → modulus qs i % 2 = 1)
    (h1 : ∀ i, i ≤ level → 1 < modulus qs i)
    (hsz : ∀ i, i ≤ level → modulus qs i < 2 ^ 61)
    (hinv : ∀ i, i < level →
      (modulus qs level * invMod (modulus qs level) (modulus qs i)) % modulus qs i = 1)
    (hlt : ∀ i, i < level → invMod (modulus qs level) (modulus qs i) < modulus qs i) :
    divFloor qs level p0 = (List.range level).map fun i => X.map fun x =>
      divFloorRes (modulus qs i) (invMod (modulus qs level) (modulus qs i))
        (x % modulus qs i) (x % modulus qs level) := by
  unfold divFloor
  apply List.map_congr_left
  intro i hi
  have hi' : i < level := List.mem_range.mp hi
  rw [hrows i (Nat.le_of_lt hi'), hrows level (Nat.le_refl _), zipWith_map_map]
  apply List.map_congr_left
  intro x _
  have hqi := hsz i (Nat.le_of_lt hi')
  have hql := hsz level (Nat.le_refl _)
  have h1i := h1 i (Nat.le_of_lt hi')
  have h1l := h1 level (Nat.le_refl _)
  have hxi : x % modulus qs i < modulus qs i := Nat.mod_lt _ (by omega)
  have hxl : x % modulus qs level < modulus qs level := Nat.mod_lt _ (by omega)
  exact divFloorLimb_spec _ _ _ _ (hodd i (Nat.le_of_lt hi')) h1i (hinv i hi') (hlt i hi') hxi
    (by unfold W; omega)

/-- **`DivRoundByLastModulus`, all rows of `p1`**. -/
theorem divRound_rows (qs : List Nat) (level : Nat) (p0 : Rows) (X : List Nat)
    (hrows : ∀ i, i ≤ level → row p0 i = X.map (· % modulus qs i))
    (hodd : ∀ i, i ≤ level → modulus qs i % 2 = 1)
    (h1 : ∀ i, i ≤ level → 1 < modulus qs i)
    (hsz : ∀ i, i ≤ level → modulus qs i < 2 ^ 61)
    (hinv : ∀ i, i < level →
      (modulus qs level * invMod (modulus qs level) (modulus qs i)) % modulus qs i = 1)
    (hlt : ∀ i, i < level → invMod (modulus qs level) (modulus qs i) < modulus qs i) :
    divRound qs level p0 = (List.range level).map fun i => X.map fun x =>
      divFloorRes (modulus qs i) (invMod (modulus qs level) (modulus qs i))
        ((x % modulus qs i + half (modulus qs level) % modulus qs i) % modulus qs i)
        ((x % modulus qs level + half (modulus qs level)) % modulus qs level) := by
  unfold divRound
  simp only []
  apply List.map_congr_left
  intro i hi
  have hi' : i < level := List.mem_range.mp hi
  rw [hrows i (Nat.le_of_lt hi'), hrows level (Nat.le_refl _), List.map_map, zipWith_map_map]
  apply List.map_congr_left
  intro x _
  have hqi := hsz i (Nat.le_of_lt hi')
  have hql := hsz level (Nat.le_refl _)
  have h1i := h1 i (Nat.le_of_lt hi')
  have h1l := h1 level (Nat.le_refl _)
  have hxi : x % modulus qs i < modulus qs i := Nat.mod_lt _ (by omega)
  have hxl : x % modulus qs level < modulus qs level := Nat.mod_lt _ (by omega)
  exact divRoundLimb_spec _ _ _ _ (hodd i (Nat.le_of_lt hi')) h1i (hinv i hi') (hlt i hi')
    (by omega) hxi hxl (by unfold W; omega) (by unfold W; omega)

-- test (non-vacuity of the row-level hypotheses): qs = [97, 193], level = 1, X = [5 + 97·7] …
example :
    let qs := [97, 193]; let X := [684, 12345, 0]
    let p0 : Rows := [X.map (· % 97), X.map (· % 193)]
    (∀ i, i ≤ 1 → row p0 i = X.map (· % modulus qs i))
    ∧ (∀ i, i ≤ 1 → modulus qs i % 2 = 1) ∧ (∀ i, i ≤ 1 → 1 < modulus qs i)
    ∧ (∀ i, i ≤ 1 → modulus qs i < 2 ^ 61)
    ∧ (∀ i, i < 1 → (modulus qs 1 * invMod (modulus qs 1) (modulus qs i)) % modulus qs i = 1)
    ∧ (∀ i, i < 1 → invMod (modulus qs 1) (modulus qs i) < modulus qs i) := by
  decide

-- test: the output of the twin on the example the unrepaired code rewrote ([[5],[7]] ↦ [[190],[103]])
example : divRound [97, 193] 1 [[5], [7]] = [[(5 + 96 + 97 - (7 + 96) % 193 % 97) * invMod 193 97 % 97]] := by
  decide +kernel

#print axioms rescaleConst_spec
#print axioms mred_neg_core
#print axioms divFloorLimb_spec'
#print axioms divFloorLimb_spec
#print axioms roundLastLimb_spec
#print axioms roundScalar_spec
#print axioms roundConst_spec
#print axioms divRoundLimb_spec'
#print axioms divRoundLimb_spec
#print axioms divFloor_rows
#print axioms divRound_rows

end Lattigo.Scaling
