import Lattigo.Proofs.NTTMul
import Lattigo.Proofs.RLWE
import Mathlib.RingTheory.AdjoinRoot

/-!
  # `RPoly` is the ring `Π_i Z_{q_i}[X]/(X^n+1)` (property C01, abstract ring layer; WP-N2)

  About the executable definitions of `Model/RPoly.lean` (the carrier on which the driver runs the
  generic scheme-level models).

  * `Rq q n = AdjoinRoot (X^n + 1 : (ZMod q)[X])`; `RowWF q n row` (length `n`, entries `< q`);
    `toQuot q n row` = class of `Σ row_i X^i`.
  * `toQuot_rowAdd/_rowSub/_rowNeg/_rowMul/_rowScale`, `toQuot_zeroRow/_oneRow` (row operations = ring
    operations; `rowMul` through `NTT.negacyclic_eval` at the root `X`), `toQuot_inj` (monic modulus,
    degree argument), `toQuot_surj`; `RowWF.add/sub/neg/mul/scale/zero/one/aut/monomial`;
    `rowAdd_comm … rowAdd_mul` (ring laws on well-formed rows; `q ≥ 2`, `n ≥ 1`, no primality).
  * `scatter_spec` (the `set!` loop of `rowAut`/`rowMonomial`), `toQuot_rowAut` (`= autHom g`, the lift
    of `X ↦ X^g`, `g` odd & coprime to `n`), `autHom_comp`, `autHom_bijective`, `toQuot_rowMonomial`
    (`= X^k ·`, `X` a unit: `rootUnit`).
  * `RPoly.WF n`, `Good qs n`, `WFPoly qs n`, its `CommRing` instance (`WFPoly.instCommRing`; the data
    fields are the model's operations, `val_add … : rfl`), `toProd`, `toProd_injective`,
    `toProd_surjective`, `ringEquiv : WFPoly qs n ≃+* Π_i Rq q_i n`.
  * `modInv_spec`: the executable extended Euclid `RPoly.modInv` returns the modular inverse
    (`egcd_bezout`, `egcd_gcd`: the fuel `2(log2 m + 2)` suffices); `rword_modInv`.
  * on `WFPoly`: `scale`, `scaleBy`, `constNat`, `mont` (= `RQ.mont`) with `isMont_mont(_of_odd)`, `aut`,
    `autRingHom`, `mulMonomial`, `mulMonomial_eq_mul`.
-/
namespace Lattigo.RPolyRing
open Lattigo Lattigo.NTT Polynomial Finset

/-- `Z_q[X]/(X^n+1)` -/
abbrev Rq (q n : ℕ) : Type := AdjoinRoot (X ^ n + 1 : (ZMod q)[X])

/-- a well-formed row: `n` coefficients, each reduced modulo `q` -/
structure RowWF (q n : ℕ) (row : List ℕ) : Prop where
  len : row.length = n
  lt : ∀ x ∈ row, x < q

/-- the polynomial `Σ_{i<n} row_i X^i ∈ Z_q[X]` -/
noncomputable def toPoly (q n : ℕ) (row : List ℕ) : (ZMod q)[X] :=
  ∑ i ∈ range n, C ((row.getD i 0 : ℕ) : ZMod q) * X ^ i

/-- the class of `Σ_{i<n} row_i X^i` in `Z_q[X]/(X^n+1)` -/
noncomputable def toQuot (q n : ℕ) (row : List ℕ) : Rq q n := AdjoinRoot.mk _ (toPoly q n row)

/-! ## generic evaluation lemmas: any commutative ring `F` with `q = 0` in `F` -/
section generic
variable {F : Type} [CommRing F] {q : ℕ}

theorem cast_mod_eq (hq : ((q : ℕ) : F) = 0) (a : ℕ) : ((a % q : ℕ) : F) = (a : F) := by
  conv_rhs => rw [← Nat.div_add_mod a q]
  rw [Nat.cast_add, Nat.cast_mul, hq, zero_mul, zero_add]

theorem foldl_mod_castF (hq : ((q : ℕ) : F) = 0) (g : ℕ → ℕ) : ∀ m : ℕ,
    (((List.range m).foldl (fun acc i => (acc + g i) % q) 0 : ℕ) : F) = ∑ i ∈ range m, (g i : F)
  | 0 => by simp
  | m + 1 => by
    rw [List.range_succ, List.foldl_append, sum_range_succ, ← foldl_mod_castF hq g m]
    simp only [List.foldl_cons, List.foldl_nil, cast_mod_eq hq, Nat.cast_add]

theorem getD_map_range (g : ℕ → ℕ) (n k : ℕ) (h : k < n) : ((List.range n).map g).getD k 0 = g k := by
  simp [h]

theorem toArray_get! (x : List ℕ) (i : ℕ) : x.toArray[i]! = x.getD i 0 := by
  simp

/-- value of a row at `x`: `Σ_{i<n} row_i x^i` -/
def evalRow (n : ℕ) (row : List ℕ) (x : F) : F := ∑ i ∈ range n, ((row.getD i 0 : ℕ) : F) * x ^ i

theorem evalRow_rowMul (hq0 : 0 < q) (hq : ((q : ℕ) : F) = 0) (a b : List ℕ) (x : F)
    (hx : x ^ a.length = -1) :
    evalRow a.length (RPoly.rowMul q a b) x = evalRow a.length a x * evalRow a.length b x := by
  unfold evalRow
  rw [← negacyclic_eval (fun i => ((a.getD i 0 : ℕ) : F)) (fun j => ((b.getD j 0 : ℕ) : F)) _ x hx]
  apply sum_congr rfl
  intro k hk
  have hk' : k < a.length := mem_range.1 hk
  congr 1
  unfold RPoly.rowMul
  simp only []
  rw [getD_map_range _ _ _ hk']
  have hneg := foldl_mod_lt hq0 (fun j => a.toArray[k + 1 + j]! * b.toArray[a.length + k - (k + 1 + j)]!)
    (a.length - 1 - k)
  have hc1 := foldl_mod_castF (F := F) hq (fun i => a.toArray[i]! * b.toArray[k - i]!) (k + 1)
  have hc2 := foldl_mod_castF (F := F) hq
    (fun j => a.toArray[k + 1 + j]! * b.toArray[a.length + k - (k + 1 + j)]!) (a.length - 1 - k)
  simp only [Nat.cast_mul] at hc1 hc2
  simp only [toArray_get!] at hc1 hc2 hneg ⊢
  rw [cast_mod_eq hq, Nat.cast_sub (by omega), Nat.cast_add, hq, add_zero, hc1, hc2]

theorem getD_zipWith (f : ℕ → ℕ → ℕ) (a b : List ℕ) (i : ℕ) (ha : i < a.length) (hb : i < b.length) :
    (List.zipWith f a b).getD i 0 = f (a.getD i 0) (b.getD i 0) := by
  simp [List.getD_eq_getElem?_getD, ha, hb]

theorem getD_map (f : ℕ → ℕ) (a : List ℕ) (i : ℕ) (ha : i < a.length) :
    (a.map f).getD i 0 = f (a.getD i 0) := by
  simp [List.getD_eq_getElem?_getD, ha]

theorem getD_lt_of_mem {a : List ℕ} {q : ℕ} (h : ∀ x ∈ a, x < q) (i : ℕ) (hi : i < a.length) :
    a.getD i 0 < q := by
  have : a.getD i 0 = a[i] := by simp [List.getD_eq_getElem?_getD, hi]
  rw [this]; exact h _ (List.getElem_mem hi)

theorem evalRow_rowAdd (hq : ((q : ℕ) : F) = 0) (n : ℕ) (a b : List ℕ) (ha : a.length = n)
    (hb : b.length = n) (x : F) :
    evalRow n (RPoly.rowAdd q a b) x = evalRow n a x + evalRow n b x := by
  unfold evalRow RPoly.rowAdd
  rw [← sum_add_distrib]
  apply sum_congr rfl
  intro i hi
  have hi' := mem_range.1 hi
  rw [getD_zipWith _ _ _ _ (by omega) (by omega), cast_mod_eq hq, Nat.cast_add, add_mul]

theorem evalRow_rowSub (hq0 : 0 < q) (hq : ((q : ℕ) : F) = 0) (n : ℕ) (a b : List ℕ) (ha : a.length = n)
    (hb : b.length = n) (x : F) :
    evalRow n (RPoly.rowSub q a b) x = evalRow n a x - evalRow n b x := by
  unfold evalRow RPoly.rowSub
  rw [← sum_sub_distrib]
  apply sum_congr rfl
  intro i hi
  have hi' := mem_range.1 hi
  have hlt : b.getD i 0 % q < q := Nat.mod_lt _ hq0
  rw [getD_zipWith _ _ _ _ (by omega) (by omega), cast_mod_eq hq, Nat.cast_sub (by omega), Nat.cast_add,
    hq, add_zero, cast_mod_eq hq, sub_mul]

theorem evalRow_rowNeg (hq0 : 0 < q) (hq : ((q : ℕ) : F) = 0) (n : ℕ) (a : List ℕ) (ha : a.length = n)
    (x : F) : evalRow n (RPoly.rowNeg q a) x = -evalRow n a x := by
  unfold evalRow RPoly.rowNeg
  rw [← sum_neg_distrib]
  apply sum_congr rfl
  intro i hi
  have hi' := mem_range.1 hi
  have hlt : a.getD i 0 % q < q := Nat.mod_lt _ hq0
  rw [getD_map _ _ _ (by omega), cast_mod_eq hq, Nat.cast_sub (by omega), hq, zero_sub,
    cast_mod_eq hq, neg_mul]

theorem evalRow_rowScale (hq : ((q : ℕ) : F) = 0) (n k : ℕ) (a : List ℕ) (ha : a.length = n)
    (x : F) : evalRow n (RPoly.rowScale k q a) x = (k : F) * evalRow n a x := by
  unfold evalRow RPoly.rowScale
  rw [mul_sum]
  apply sum_congr rfl
  intro i hi
  have hi' := mem_range.1 hi
  rw [getD_map _ _ _ (by omega), cast_mod_eq hq, Nat.cast_mul]; ring

end generic

/-! ## `toQuot` is evaluation at the root; the row operations are the ring operations -/
section quot
variable {q n : ℕ}

theorem natCast_q_Rq : ((q : ℕ) : Rq q n) = 0 := by
  rw [← map_natCast (AdjoinRoot.of (X ^ n + 1 : (ZMod q)[X])) q, ZMod.natCast_self, map_zero]

/-- `X^n = −1` in `Z_q[X]/(X^n+1)` -/
theorem root_pow_n : (AdjoinRoot.root (X ^ n + 1 : (ZMod q)[X])) ^ n = -1 := by
  have h := AdjoinRoot.eval₂_root (X ^ n + 1 : (ZMod q)[X])
  simp only [eval₂_add, eval₂_pow, eval₂_X, eval₂_one] at h
  exact eq_neg_of_add_eq_zero_left h

theorem toQuot_eq_evalRow (row : List ℕ) :
    toQuot q n row = evalRow n row (AdjoinRoot.root (X ^ n + 1 : (ZMod q)[X])) := by
  unfold toQuot toPoly evalRow
  rw [map_sum]
  apply sum_congr rfl
  intro i _
  rw [map_mul, map_pow, AdjoinRoot.mk_X, AdjoinRoot.mk_C, map_natCast]

theorem toQuot_rowAdd (a b : List ℕ) (ha : a.length = n) (hb : b.length = n) :
    toQuot q n (RPoly.rowAdd q a b) = toQuot q n a + toQuot q n b := by
  simp only [toQuot_eq_evalRow]; exact evalRow_rowAdd natCast_q_Rq n a b ha hb _

theorem toQuot_rowSub (hq : 0 < q) (a b : List ℕ) (ha : a.length = n) (hb : b.length = n) :
    toQuot q n (RPoly.rowSub q a b) = toQuot q n a - toQuot q n b := by
  simp only [toQuot_eq_evalRow]; exact evalRow_rowSub hq natCast_q_Rq n a b ha hb _

theorem toQuot_rowNeg (hq : 0 < q) (a : List ℕ) (ha : a.length = n) :
    toQuot q n (RPoly.rowNeg q a) = -toQuot q n a := by
  simp only [toQuot_eq_evalRow]; exact evalRow_rowNeg hq natCast_q_Rq n a ha _

theorem toQuot_rowScale (k : ℕ) (a : List ℕ) (ha : a.length = n) :
    toQuot q n (RPoly.rowScale k q a) = (k : Rq q n) * toQuot q n a := by
  simp only [toQuot_eq_evalRow]; exact evalRow_rowScale natCast_q_Rq n k a ha _

/-- **`rowMul` is the product of `Z_q[X]/(X^n+1)`.** -/
theorem toQuot_rowMul (hq : 0 < q) (a b : List ℕ) (ha : a.length = n) :
    toQuot q n (RPoly.rowMul q a b) = toQuot q n a * toQuot q n b := by
  subst ha
  simp only [toQuot_eq_evalRow]
  exact evalRow_rowMul hq natCast_q_Rq a b _ root_pow_n

end quot

/-! ## `toQuot` is injective on well-formed rows -/
section inj
variable {q n : ℕ}

theorem toPoly_coeff (row : List ℕ) (i : ℕ) (hi : i < n) :
    (toPoly q n row).coeff i = ((row.getD i 0 : ℕ) : ZMod q) := by
  unfold toPoly
  rw [finsetSum_coeff]
  simp only [coeff_C_mul_X_pow]
  rw [sum_eq_single i]
  · simp
  · intro j _ hj; rw [if_neg (Ne.symm hj)]
  · intro h; exact absurd (mem_range.2 hi) h

theorem toPoly_degree_lt (row : List ℕ) : (toPoly q n row).degree < n := by
  unfold toPoly
  rw [Finset.sum_range (fun i => C ((row.getD i 0 : ℕ) : ZMod q) * X ^ i)]
  exact degree_sum_fin_lt (fun i : Fin n => ((row.getD i 0 : ℕ) : ZMod q))

theorem monic_modulus (hn : 1 ≤ n) : (X ^ n + 1 : (ZMod q)[X]).Monic := by
  have := monic_X_pow_add_C (1 : ZMod q) (n := n) (by omega)
  rwa [map_one] at this

theorem degree_modulus (hq : 2 ≤ q) (hn : 1 ≤ n) : (X ^ n + 1 : (ZMod q)[X]).degree = n := by
  have : Fact (1 < q) := ⟨by omega⟩
  have := degree_X_pow_add_C (R := ZMod q) (n := n) (by omega) 1
  rwa [map_one] at this

/-- two polynomials of degree `< n` congruent modulo `X^n+1` are equal -/
theorem toPoly_eq_of_toQuot_eq (hq : 2 ≤ q) (hn : 1 ≤ n) (a b : List ℕ)
    (h : toQuot q n a = toQuot q n b) : toPoly q n a = toPoly q n b := by
  unfold toQuot at h
  rw [AdjoinRoot.mk_eq_mk] at h
  by_contra hne
  have h0 : toPoly q n a - toPoly q n b ≠ 0 := sub_ne_zero.2 hne
  have hd : (toPoly q n a - toPoly q n b).degree < (X ^ n + 1 : (ZMod q)[X]).degree := by
    rw [degree_modulus hq hn]
    exact lt_of_le_of_lt (degree_sub_le _ _) (max_lt (toPoly_degree_lt a) (toPoly_degree_lt b))
  exact (monic_modulus hn).not_dvd_of_degree_lt h0 hd h

/-- **`toQuot` is injective on well-formed rows** (`q ≥ 2`, `n ≥ 1`; primality not needed). -/
theorem toQuot_inj (hq : 2 ≤ q) (hn : 1 ≤ n) {a b : List ℕ} (ha : RowWF q n a) (hb : RowWF q n b)
    (h : toQuot q n a = toQuot q n b) : a = b := by
  have hp := toPoly_eq_of_toQuot_eq hq hn a b h
  apply List.ext_getElem (by rw [ha.len, hb.len])
  intro i h1 h2
  have hi : i < n := by rw [← ha.len]; exact h1
  have hc := congrArg (fun p => p.coeff i) hp
  simp only [toPoly_coeff _ _ hi] at hc
  have := (ZMod.natCast_eq_natCast_iff' _ _ q).1 hc
  rw [Nat.mod_eq_of_lt (getD_lt_of_mem ha.lt i h1), Nat.mod_eq_of_lt (getD_lt_of_mem hb.lt i h2)] at this
  simpa [List.getD_eq_getElem?_getD, h1, h2] using this

end inj

/-! ## `toQuot` is surjective -/
section surj
variable {q n : ℕ}

/-- canonical row of a polynomial: the residues of its first `n` coefficients -/
noncomputable def rowOfPoly (q n : ℕ) (p : (ZMod q)[X]) : List ℕ :=
  (List.range n).map fun i => (p.coeff i).val

theorem rowOfPoly_wf (hq : 2 ≤ q) (p : (ZMod q)[X]) : RowWF q n (rowOfPoly q n p) := by
  have : NeZero q := ⟨by omega⟩
  refine ⟨by simp [rowOfPoly], fun x hx => ?_⟩
  simp only [rowOfPoly, List.mem_map] at hx
  obtain ⟨i, _, rfl⟩ := hx
  exact ZMod.val_lt _

theorem toPoly_rowOfPoly (hq : 2 ≤ q) (p : (ZMod q)[X]) (hp : p.degree < n) :
    toPoly q n (rowOfPoly q n p) = p := by
  have : NeZero q := ⟨by omega⟩
  ext i
  by_cases hi : i < n
  · rw [toPoly_coeff _ _ hi]
    unfold rowOfPoly
    rw [getD_map_range _ _ _ hi, ZMod.natCast_zmod_val]
  · have h1 : (toPoly q n (rowOfPoly q n p)).coeff i = 0 :=
      coeff_eq_zero_of_degree_lt (lt_of_lt_of_le (toPoly_degree_lt _) (by exact_mod_cast (not_lt.1 hi)))
    have h2 : p.coeff i = 0 :=
      coeff_eq_zero_of_degree_lt (lt_of_lt_of_le hp (by exact_mod_cast (not_lt.1 hi)))
    rw [h1, h2]

/-- **`toQuot` is surjective**: every class has a well-formed representative -/
theorem toQuot_surj (hq : 2 ≤ q) (hn : 1 ≤ n) (x : Rq q n) : ∃ row, RowWF q n row ∧ toQuot q n row = x := by
  have : Fact (1 < q) := ⟨by omega⟩
  obtain ⟨p, rfl⟩ := AdjoinRoot.mk_surjective x
  have hm := monic_modulus (q := q) hn
  refine ⟨rowOfPoly q n (p %ₘ (X ^ n + 1)), rowOfPoly_wf hq _, ?_⟩
  unfold toQuot
  rw [toPoly_rowOfPoly hq _ (by rw [← degree_modulus hq hn]; exact degree_modByMonic_lt p hm),
    AdjoinRoot.mk_eq_mk]
  refine ⟨-(p /ₘ (X ^ n + 1)), ?_⟩
  have := modByMonic_add_div p (X ^ n + 1 : (ZMod q)[X])
  linear_combination this

end surj

/-! ## closure of `RowWF`, the zero and the unit row -/
section closure
variable {q n : ℕ}

/-- the zero row (`RPoly.zero` uses it) -/
def zeroRow (n : ℕ) : List ℕ := List.replicate n 0
/-- the unit row `1 = [1, 0, …, 0]` -/
def oneRow (n : ℕ) : List ℕ := (List.range n).map fun i => if i = 0 then 1 else 0

theorem RowWF.zero (hq : 0 < q) : RowWF q n (zeroRow n) :=
  ⟨by simp [zeroRow], fun x hx => by rw [(List.mem_replicate.1 hx).2]; exact hq⟩

theorem RowWF.one (hq : 2 ≤ q) : RowWF q n (oneRow n) :=
  ⟨by simp [oneRow], fun x hx => by
    simp only [oneRow, List.mem_map] at hx
    obtain ⟨i, _, rfl⟩ := hx
    split <;> omega⟩

theorem RowWF.add {a b : List ℕ} (hq : 0 < q) (ha : RowWF q n a) (hb : RowWF q n b) :
    RowWF q n (RPoly.rowAdd q a b) :=
  ⟨by simp [RPoly.rowAdd, ha.len, hb.len],
   forall_zipWith _ (fun z => z < q) _ _ (fun _ _ _ _ => Nat.mod_lt _ hq)⟩

theorem RowWF.sub {a b : List ℕ} (hq : 0 < q) (ha : RowWF q n a) (hb : RowWF q n b) :
    RowWF q n (RPoly.rowSub q a b) :=
  ⟨by simp [RPoly.rowSub, ha.len, hb.len],
   forall_zipWith _ (fun z => z < q) _ _ (fun _ _ _ _ => Nat.mod_lt _ hq)⟩

theorem RowWF.neg {a : List ℕ} (hq : 0 < q) (ha : RowWF q n a) : RowWF q n (RPoly.rowNeg q a) :=
  ⟨by simp [RPoly.rowNeg, ha.len], fun x hx => by
    simp only [RPoly.rowNeg, List.mem_map] at hx
    obtain ⟨i, _, rfl⟩ := hx
    exact Nat.mod_lt _ hq⟩

theorem RowWF.scale {a : List ℕ} (k : ℕ) (hq : 0 < q) (ha : RowWF q n a) :
    RowWF q n (RPoly.rowScale k q a) :=
  ⟨by simp [RPoly.rowScale, ha.len], fun x hx => by
    simp only [RPoly.rowScale, List.mem_map] at hx
    obtain ⟨i, _, rfl⟩ := hx
    exact Nat.mod_lt _ hq⟩

theorem RowWF.mul {a : List ℕ} (b : List ℕ) (hq : 0 < q) (ha : RowWF q n a) :
    RowWF q n (RPoly.rowMul q a b) :=
  ⟨by rw [rowMul_length, ha.len], rowMul_lt hq a b⟩

theorem toQuot_zeroRow : toQuot q n (zeroRow n) = 0 := by
  rw [toQuot_eq_evalRow]; unfold evalRow zeroRow
  apply sum_eq_zero
  intro i hi
  have : (List.replicate n 0).getD i 0 = 0 := by
    simp [List.getD_eq_getElem?_getD, mem_range.1 hi]
  rw [this, Nat.cast_zero, zero_mul]

theorem toQuot_oneRow (hn : 1 ≤ n) : toQuot q n (oneRow n) = 1 := by
  rw [toQuot_eq_evalRow]; unfold evalRow oneRow
  rw [sum_eq_single 0]
  · rw [getD_map_range _ _ _ (by omega)]; simp
  · intro i hi hne
    rw [getD_map_range _ _ _ (mem_range.1 hi), if_neg hne, Nat.cast_zero, zero_mul]
  · intro h; exact absurd (mem_range.2 (by omega)) h

end closure

/-! ## the commutative-ring laws on well-formed rows (transport through `toQuot`) -/
section laws
variable {q n : ℕ} {a b c : List ℕ}

theorem rowAdd_comm (hq : 2 ≤ q) (hn : 1 ≤ n) (ha : RowWF q n a) (hb : RowWF q n b) :
    RPoly.rowAdd q a b = RPoly.rowAdd q b a :=
  toQuot_inj hq hn (ha.add (by omega) hb) (hb.add (by omega) ha)
    (by rw [toQuot_rowAdd _ _ ha.len hb.len, toQuot_rowAdd _ _ hb.len ha.len, add_comm])

theorem rowAdd_assoc (hq : 2 ≤ q) (hn : 1 ≤ n) (ha : RowWF q n a) (hb : RowWF q n b) (hc : RowWF q n c) :
    RPoly.rowAdd q (RPoly.rowAdd q a b) c = RPoly.rowAdd q a (RPoly.rowAdd q b c) := by
  have hq0 : 0 < q := by omega
  exact toQuot_inj hq hn ((ha.add hq0 hb).add hq0 hc) (ha.add hq0 (hb.add hq0 hc))
    (by rw [toQuot_rowAdd _ _ (ha.add hq0 hb).len hc.len, toQuot_rowAdd _ _ ha.len hb.len,
      toQuot_rowAdd _ _ ha.len (hb.add hq0 hc).len, toQuot_rowAdd _ _ hb.len hc.len, add_assoc])

theorem rowAdd_zero (hq : 2 ≤ q) (hn : 1 ≤ n) (ha : RowWF q n a) : RPoly.rowAdd q a (zeroRow n) = a := by
  have hq0 : 0 < q := by omega
  exact toQuot_inj hq hn (ha.add hq0 (RowWF.zero hq0)) ha
    (by rw [toQuot_rowAdd _ _ ha.len (RowWF.zero (q := q) hq0).len, toQuot_zeroRow, add_zero])

theorem rowAdd_neg (hq : 2 ≤ q) (hn : 1 ≤ n) (ha : RowWF q n a) :
    RPoly.rowAdd q a (RPoly.rowNeg q a) = zeroRow n := by
  have hq0 : 0 < q := by omega
  exact toQuot_inj hq hn (ha.add hq0 (ha.neg hq0)) (RowWF.zero hq0)
    (by rw [toQuot_rowAdd _ _ ha.len (ha.neg hq0).len, toQuot_rowNeg hq0 _ ha.len, toQuot_zeroRow,
      add_neg_cancel])

theorem rowSub_eq_add_neg (hq : 2 ≤ q) (hn : 1 ≤ n) (ha : RowWF q n a) (hb : RowWF q n b) :
    RPoly.rowSub q a b = RPoly.rowAdd q a (RPoly.rowNeg q b) := by
  have hq0 : 0 < q := by omega
  exact toQuot_inj hq hn (ha.sub hq0 hb) (ha.add hq0 (hb.neg hq0))
    (by rw [toQuot_rowSub hq0 _ _ ha.len hb.len, toQuot_rowAdd _ _ ha.len (hb.neg hq0).len,
      toQuot_rowNeg hq0 _ hb.len, sub_eq_add_neg])

theorem rowMul_comm (hq : 2 ≤ q) (hn : 1 ≤ n) (ha : RowWF q n a) (hb : RowWF q n b) :
    RPoly.rowMul q a b = RPoly.rowMul q b a := by
  have hq0 : 0 < q := by omega
  exact toQuot_inj hq hn (ha.mul b hq0) (hb.mul a hq0)
    (by rw [toQuot_rowMul hq0 _ _ ha.len, toQuot_rowMul hq0 _ _ hb.len, mul_comm])

theorem rowMul_assoc (hq : 2 ≤ q) (hn : 1 ≤ n) (ha : RowWF q n a) (hb : RowWF q n b) :
    RPoly.rowMul q (RPoly.rowMul q a b) c = RPoly.rowMul q a (RPoly.rowMul q b c) := by
  have hq0 : 0 < q := by omega
  exact toQuot_inj hq hn ((ha.mul b hq0).mul c hq0) (ha.mul _ hq0)
    (by rw [toQuot_rowMul hq0 _ _ (ha.mul b hq0).len, toQuot_rowMul hq0 _ _ ha.len,
      toQuot_rowMul hq0 _ _ ha.len, toQuot_rowMul hq0 _ _ hb.len, mul_assoc])

theorem rowMul_one (hq : 2 ≤ q) (hn : 1 ≤ n) (ha : RowWF q n a) : RPoly.rowMul q a (oneRow n) = a := by
  have hq0 : 0 < q := by omega
  exact toQuot_inj hq hn (ha.mul _ hq0) ha
    (by rw [toQuot_rowMul hq0 _ _ ha.len, toQuot_oneRow hn, mul_one])

theorem one_rowMul (hq : 2 ≤ q) (hn : 1 ≤ n) (ha : RowWF q n a) : RPoly.rowMul q (oneRow n) a = a := by
  rw [rowMul_comm hq hn (RowWF.one hq) ha, rowMul_one hq hn ha]

theorem rowMul_zero (hq : 2 ≤ q) (hn : 1 ≤ n) (ha : RowWF q n a) :
    RPoly.rowMul q a (zeroRow n) = zeroRow n := by
  have hq0 : 0 < q := by omega
  exact toQuot_inj hq hn (ha.mul _ hq0) (RowWF.zero hq0)
    (by rw [toQuot_rowMul hq0 _ _ ha.len, toQuot_zeroRow, mul_zero])

theorem rowMul_add (hq : 2 ≤ q) (hn : 1 ≤ n) (ha : RowWF q n a) (hb : RowWF q n b) (hc : RowWF q n c) :
    RPoly.rowMul q a (RPoly.rowAdd q b c)
      = RPoly.rowAdd q (RPoly.rowMul q a b) (RPoly.rowMul q a c) := by
  have hq0 : 0 < q := by omega
  exact toQuot_inj hq hn (ha.mul _ hq0) ((ha.mul b hq0).add hq0 (ha.mul c hq0))
    (by rw [toQuot_rowMul hq0 _ _ ha.len, toQuot_rowAdd _ _ hb.len hc.len,
      toQuot_rowAdd _ _ (ha.mul b hq0).len (ha.mul c hq0).len, toQuot_rowMul hq0 _ _ ha.len,
      toQuot_rowMul hq0 _ _ ha.len, mul_add])

theorem rowAdd_mul (hq : 2 ≤ q) (hn : 1 ≤ n) (ha : RowWF q n a) (hb : RowWF q n b) (hc : RowWF q n c) :
    RPoly.rowMul q (RPoly.rowAdd q a b) c
      = RPoly.rowAdd q (RPoly.rowMul q a c) (RPoly.rowMul q b c) := by
  have hq0 : 0 < q := by omega
  rw [rowMul_comm hq hn (ha.add hq0 hb) hc, rowMul_add hq hn hc ha hb, rowMul_comm hq hn hc ha,
    rowMul_comm hq hn hc hb]

end laws

/-! ## `rowAut` and `rowMonomial` -/
section scatter
variable {F : Type} [CommRing F]

theorem arr_get!_set!_self (arr : Array ℕ) (i v : ℕ) (h : i < arr.size) : (arr.set! i v)[i]! = v := by
  simp [h]

theorem arr_get!_set!_ne (arr : Array ℕ) (i j v : ℕ) (h : i ≠ j) : (arr.set! i v)[j]! = arr[j]! := by
  simp [Array.getElem!_eq_getD, Array.getD_eq_getD_getElem?, Array.getElem?_setIfInBounds_ne h]

theorem arr_size_set! (arr : Array ℕ) (i v : ℕ) : (arr.set! i v).size = arr.size := by simp

/-- `Σ_{k<n} r[k] x^k` -/
def evalArr (n : ℕ) (r : Array ℕ) (x : F) : F := ∑ k ∈ range n, ((r[k]! : ℕ) : F) * x ^ k

theorem evalRow_toList (n : ℕ) (r : Array ℕ) (x : F) : evalRow n r.toList x = evalArr n r x := by
  unfold evalRow evalArr
  apply sum_congr rfl
  intro k _
  congr 2
  simp [List.getD_eq_getElem?_getD, Array.getElem!_eq_getD, Array.getD_eq_getD_getElem?]

theorem evalArr_set (n : ℕ) (r : Array ℕ) (e v : ℕ) (hs : r.size = n) (he : e < n) (x : F) :
    evalArr n (r.set! e v) x = evalArr n r x + ((v : F) - (r[e]! : F)) * x ^ e := by
  unfold evalArr
  have h : ∀ k ∈ range n, (((r.set! e v)[k]! : ℕ) : F) * x ^ k
      = (r[k]! : F) * x ^ k + (if k = e then ((v : F) - (r[e]! : F)) * x ^ e else 0) := by
    intro k _
    by_cases hk : k = e
    · subst hk
      rw [arr_get!_set!_self _ _ _ (by omega), if_pos rfl]; ring
    · rw [arr_get!_set!_ne _ _ _ _ (Ne.symm hk), if_neg hk, add_zero]
  rw [sum_congr rfl h, sum_add_distrib, sum_ite_eq' (range n) e, if_pos (mem_range.2 he)]

/-- the scatter loop of `rowAut` / `rowMonomial`, first `m` iterations -/
def scat (n : ℕ) (e v : ℕ → ℕ) (m : ℕ) : Array ℕ :=
  (List.range m).foldl (fun (acc : Array ℕ) i => acc.set! (e i) (v i)) (Array.replicate n 0)

theorem scat_succ (n : ℕ) (e v : ℕ → ℕ) (m : ℕ) :
    scat n e v (m + 1) = (scat n e v m).set! (e m) (v m) := by
  unfold scat; rw [List.range_succ, List.foldl_append]; rfl

/-- scattering `v i` to the pairwise distinct positions `e i` of a zero array -/
theorem scatter_spec (n : ℕ) (e v : ℕ → ℕ) (he : ∀ i < n, e i < n)
    (hinj : ∀ i < n, ∀ j < n, e i = e j → i = j) (P : ℕ → Prop) (h0 : P 0) (hv : ∀ i < n, P (v i))
    (x : F) : ∀ m ≤ n,
      (scat n e v m).size = n
      ∧ (∀ k : ℕ, (∀ i < m, e i ≠ k) → (scat n e v m)[k]! = 0)
      ∧ (∀ k : ℕ, P (scat n e v m)[k]!)
      ∧ evalArr n (scat n e v m) x = ∑ i ∈ range m, (v i : F) * x ^ (e i)
  | 0, _ => by
    have hz : ∀ k : ℕ, (Array.replicate n 0 : Array ℕ)[k]! = 0 := by
      intro k
      by_cases hk : k < n <;> simp [hk]
    have e0 : scat n e v 0 = Array.replicate n 0 := rfl
    rw [e0]
    refine ⟨by simp, fun k _ => hz k, fun k => by rw [hz k]; exact h0, ?_⟩
    simp only [range_zero, sum_empty]
    unfold evalArr
    apply sum_eq_zero
    intro k _
    rw [hz k, Nat.cast_zero, zero_mul]
  | m + 1, hm => by
    obtain ⟨hs, hzero, hP, hsum⟩ := scatter_spec n e v he hinj P h0 hv x m (by omega)
    rw [scat_succ]
    generalize scat n e v m = r at *
    have hem : e m < n := he m (by omega)
    have hrz : r[e m]! = 0 := hzero (e m) (fun i hi h => by have := hinj i (by omega) m (by omega) h; omega)
    refine ⟨by rw [arr_size_set!, hs], ?_, ?_, ?_⟩
    · intro k hk
      rw [arr_get!_set!_ne _ _ _ _ (hk m (by omega))]
      exact hzero k (fun i hi => hk i (by omega))
    · intro k
      by_cases hk : e m = k
      · subst hk; rw [arr_get!_set!_self _ _ _ (by omega)]; exact hv m (by omega)
      · rw [arr_get!_set!_ne _ _ _ _ hk]; exact hP k
    · rw [evalArr_set n r _ _ hs hem, hsum, hrz, Nat.cast_zero, sub_zero, sum_range_succ]

end scatter

section aut
variable {q n : ℕ}

/-- target position of coefficient `i` under a shift/scaling exponent `t` (`X^t`, `t` taken mod `2n`) -/
def foldPos (n t : ℕ) : ℕ := if t % (2 * n) < n then t % (2 * n) else t % (2 * n) - n
/-- the (possibly negated) coefficient written at that position -/
def foldVal (q n t : ℕ) (v : ℕ) : ℕ := if t % (2 * n) < n then v else (q - v % q) % q

theorem foldPos_lt (hn : 1 ≤ n) (t : ℕ) : foldPos n t < n := by
  unfold foldPos
  have := Nat.mod_lt t (show 0 < 2 * n by omega)
  split <;> omega

theorem foldPos_modEq (t : ℕ) : foldPos n t ≡ t [MOD n] := by
  unfold foldPos
  have h1 : t % (2 * n) ≡ t [MOD n] := (Nat.mod_modEq t (2 * n)).of_mul_left 2
  split
  · exact h1
  · rename_i h
    have h2 : t % (2 * n) - n + n = t % (2 * n) := by omega
    have h3 : t % (2 * n) - n + n ≡ t % (2 * n) - n [MOD n] := by
      unfold Nat.ModEq; rw [Nat.add_mod_right]
    exact (h3.symm.trans (by rw [h2])).trans h1

/-- in `Z_q[X]/(X^n+1)`: `foldVal · X^{foldPos t} = v · X^t` -/
theorem foldVal_mul_root_pow (hq : 0 < q) (t v : ℕ) :
    ((foldVal q n t v : ℕ) : Rq q n) * (AdjoinRoot.root (X ^ n + 1 : (ZMod q)[X])) ^ foldPos n t
      = (v : Rq q n) * (AdjoinRoot.root (X ^ n + 1 : (ZMod q)[X])) ^ t := by
  set r := AdjoinRoot.root (X ^ n + 1 : (ZMod q)[X]) with hr
  have hrn : r ^ n = -1 := root_pow_n
  have hr2 : r ^ (2 * n) = 1 := by rw [mul_comm, pow_mul, hrn]; norm_num
  have ht : r ^ t = r ^ (t % (2 * n)) := by
    conv_lhs => rw [← Nat.div_add_mod t (2 * n), pow_add, pow_mul, hr2, one_pow, one_mul]
  unfold foldVal foldPos
  split
  · rw [ht]
  · rename_i h
    have hlt : v % q < q := Nat.mod_lt _ hq
    have e : t % (2 * n) = n + (t % (2 * n) - n) := by omega
    rw [ht, cast_mod_eq natCast_q_Rq, Nat.cast_sub (by omega), natCast_q_Rq, zero_sub,
      cast_mod_eq natCast_q_Rq]
    conv_rhs => rw [e, pow_add, hrn]
    ring

/-- the Galois endomorphism `X ↦ X^g` of `Z_q[X]/(X^n+1)`, `g` odd -/
noncomputable def autHom (q n g : ℕ) (hg : Odd g) : Rq q n →+* Rq q n :=
  AdjoinRoot.lift (AdjoinRoot.of _) ((AdjoinRoot.root (X ^ n + 1 : (ZMod q)[X])) ^ g) (by
    simp only [eval₂_add, eval₂_pow, eval₂_X, eval₂_one]
    rw [← pow_mul, mul_comm, pow_mul, root_pow_n, hg.neg_one_pow, neg_add_cancel])

theorem autHom_root (g : ℕ) (hg : Odd g) :
    autHom q n g hg (AdjoinRoot.root _) = (AdjoinRoot.root (X ^ n + 1 : (ZMod q)[X])) ^ g := by
  unfold autHom; rw [AdjoinRoot.lift_root]

theorem autHom_toQuot (g : ℕ) (hg : Odd g) (row : List ℕ) :
    autHom q n g hg (toQuot q n row)
      = ∑ i ∈ range n, ((row.getD i 0 : ℕ) : Rq q n) * (AdjoinRoot.root (X ^ n + 1 : (ZMod q)[X])) ^ (i * g) := by
  rw [toQuot_eq_evalRow]; unfold evalRow
  rw [map_sum]
  apply sum_congr rfl
  intro i _
  rw [map_mul, map_pow, map_natCast, autHom_root, ← pow_mul, mul_comm g i]

theorem list_get!_eq (x : List ℕ) (i : ℕ) : x[i]! = x.getD i 0 := by
  simp [List.getD_eq_getElem?_getD]

theorem rowAut_eq_scat (g : ℕ) (x : List ℕ) :
    RPoly.rowAut g q x = (scat x.length (fun i => foldPos x.length (i * g))
      (fun i => foldVal q x.length (i * g) (x.getD i 0)) x.length).toList := by
  unfold RPoly.rowAut scat foldPos foldVal
  simp only [list_get!_eq]
  congr 2
  funext acc i
  split <;> rfl

theorem rowMonomial_eq_scat (k : ℤ) (x : List ℕ) :
    RPoly.rowMonomial k q x = (scat x.length (fun i => foldPos x.length (i + (k % (2 * x.length : ℤ)).toNat))
      (fun i => foldVal q x.length (i + (k % (2 * x.length : ℤ)).toNat) (x.getD i 0)) x.length).toList := by
  unfold RPoly.rowMonomial scat foldPos foldVal
  simp only [list_get!_eq]
  congr 2
  funext acc i
  split <;> rfl

theorem foldPos_mul_inj (g : ℕ) (hc : Nat.Coprime g n) :
    ∀ i < n, ∀ j < n, foldPos n (i * g) = foldPos n (j * g) → i = j := by
  intro i hi j hj h
  have h1 : i * g ≡ j * g [MOD n] := by
    have := (foldPos_modEq (n := n) (i * g)).symm.trans (h ▸ foldPos_modEq (n := n) (j * g))
    exact this
  have h2 : i ≡ j [MOD n] := Nat.ModEq.cancel_right_of_coprime (by rwa [Nat.coprime_comm] at hc) h1
  exact Nat.ModEq.eq_of_lt_of_lt h2 hi hj

theorem foldPos_add_inj (t : ℕ) :
    ∀ i < n, ∀ j < n, foldPos n (i + t) = foldPos n (j + t) → i = j := by
  intro i hi j hj h
  have h1 : i + t ≡ j + t [MOD n] :=
    (foldPos_modEq (n := n) (i + t)).symm.trans (h ▸ foldPos_modEq (n := n) (j + t))
  exact Nat.ModEq.eq_of_lt_of_lt (Nat.ModEq.add_right_cancel' t h1) hi hj

theorem foldVal_lt (hq : 0 < q) (t v : ℕ) (hv : v < q) : foldVal q n t v < q := by
  unfold foldVal; split
  · exact hv
  · exact Nat.mod_lt _ hq

theorem toList_wf (r : Array ℕ) (hs : r.size = n) (hP : ∀ k : ℕ, r[k]! < q) : RowWF q n r.toList := by
  refine ⟨by simp [hs], fun x hx => ?_⟩
  obtain ⟨k, hk, rfl⟩ := List.getElem_of_mem hx
  have hk' : k < r.size := by simpa using hk
  have := hP k
  simpa [hk'] using this

/-- `rowAut g` preserves well-formedness (`g` coprime to `n`, e.g. `g` odd and `n` a power of two) -/
theorem RowWF.aut {a : List ℕ} (hq : 0 < q) (hn : 1 ≤ n) (g : ℕ) (hc : Nat.Coprime g n)
    (ha : RowWF q n a) : RowWF q n (RPoly.rowAut g q a) := by
  rw [rowAut_eq_scat, ha.len]
  obtain ⟨hs, _, hP, _⟩ := scatter_spec (F := ℤ) n (fun i => foldPos n (i * g))
    (fun i => foldVal q n (i * g) (a.getD i 0)) (fun i _ => foldPos_lt hn _) (foldPos_mul_inj g hc)
    (fun z => z < q) hq (fun i hi => foldVal_lt hq _ _ (getD_lt_of_mem ha.lt i (by rw [ha.len]; exact hi)))
    0 n (le_refl n)
  exact toList_wf _ hs hP

/-- **`rowAut g` is the ring endomorphism `X ↦ X^g`** of `Z_q[X]/(X^n+1)` (`g` odd, coprime to `n`). -/
theorem toQuot_rowAut (hq : 0 < q) (hn : 1 ≤ n) (g : ℕ) (hg : Odd g) (hc : Nat.Coprime g n)
    (a : List ℕ) (ha : a.length = n) :
    toQuot q n (RPoly.rowAut g q a) = autHom q n g hg (toQuot q n a) := by
  rw [autHom_toQuot, toQuot_eq_evalRow, rowAut_eq_scat, ha, evalRow_toList]
  obtain ⟨_, _, _, hsum⟩ := scatter_spec n (fun i => foldPos n (i * g))
    (fun i => foldVal q n (i * g) (a.getD i 0)) (fun i _ => foldPos_lt hn _) (foldPos_mul_inj g hc)
    (fun _ => True) trivial (fun _ _ => trivial) (AdjoinRoot.root (X ^ n + 1 : (ZMod q)[X])) n (le_refl n)
  rw [hsum]
  apply sum_congr rfl
  intro i _
  exact foldVal_mul_root_pow hq _ _

/-- `rowMonomial k` preserves well-formedness -/
theorem RowWF.monomial {a : List ℕ} (hq : 0 < q) (hn : 1 ≤ n) (k : ℤ)
    (ha : RowWF q n a) : RowWF q n (RPoly.rowMonomial k q a) := by
  rw [rowMonomial_eq_scat, ha.len]
  obtain ⟨hs, _, hP, _⟩ := scatter_spec (F := ℤ) n (fun i => foldPos n (i + (k % (2 * n : ℤ)).toNat))
    (fun i => foldVal q n (i + (k % (2 * n : ℤ)).toNat) (a.getD i 0)) (fun i _ => foldPos_lt hn _)
    (foldPos_add_inj _)
    (fun z => z < q) hq (fun i hi => foldVal_lt hq _ _ (getD_lt_of_mem ha.lt i (by rw [ha.len]; exact hi)))
    0 n (le_refl n)
  exact toList_wf _ hs hP

/-- `rowMonomial k` is multiplication by `X^{k mod 2n}` -/
theorem toQuot_rowMonomial_nat (hq : 0 < q) (hn : 1 ≤ n) (k : ℤ) (a : List ℕ) (ha : a.length = n) :
    toQuot q n (RPoly.rowMonomial k q a)
      = (AdjoinRoot.root (X ^ n + 1 : (ZMod q)[X])) ^ (k % (2 * n : ℤ)).toNat * toQuot q n a := by
  rw [toQuot_eq_evalRow, rowMonomial_eq_scat, ha, evalRow_toList]
  obtain ⟨_, _, _, hsum⟩ := scatter_spec n (fun i => foldPos n (i + (k % (2 * n : ℤ)).toNat))
    (fun i => foldVal q n (i + (k % (2 * n : ℤ)).toNat) (a.getD i 0)) (fun i _ => foldPos_lt hn _)
    (foldPos_add_inj _)
    (fun _ => True) trivial (fun _ _ => trivial) (AdjoinRoot.root (X ^ n + 1 : (ZMod q)[X])) n (le_refl n)
  rw [hsum, toQuot_eq_evalRow]; unfold evalRow
  rw [mul_sum]
  apply sum_congr rfl
  intro i _
  rw [foldVal_mul_root_pow hq, pow_add]; ring

/-- `X` is a unit of `Z_q[X]/(X^n+1)`: `X · (−X^{n−1}) = 1` -/
noncomputable def rootUnit (q n : ℕ) (hn : 1 ≤ n) : (Rq q n)ˣ where
  val := AdjoinRoot.root _
  inv := -(AdjoinRoot.root (X ^ n + 1 : (ZMod q)[X])) ^ (n - 1)
  val_inv := by
    have : (AdjoinRoot.root (X ^ n + 1 : (ZMod q)[X])) * (AdjoinRoot.root _) ^ (n - 1) = -1 := by
      rw [← pow_succ', Nat.sub_add_cancel hn, root_pow_n]
    rw [mul_neg, this, neg_neg]
  inv_val := by
    have : (AdjoinRoot.root (X ^ n + 1 : (ZMod q)[X])) ^ (n - 1) * (AdjoinRoot.root _) = -1 := by
      rw [← pow_succ, Nat.sub_add_cancel hn, root_pow_n]
    rw [neg_mul, this, neg_neg]

theorem rootUnit_pow_two_n (hn : 1 ≤ n) : rootUnit q n hn ^ (2 * n) = 1 := by
  apply Units.ext
  rw [Units.val_pow_eq_pow_val, Units.val_one]
  show (AdjoinRoot.root (X ^ n + 1 : (ZMod q)[X])) ^ (2 * n) = 1
  rw [mul_comm, pow_mul, root_pow_n]; norm_num

/-- **`rowMonomial k` is multiplication by `X^k`**, `k` any integer (`X` is a unit). -/
theorem toQuot_rowMonomial (hq : 0 < q) (hn : 1 ≤ n) (k : ℤ) (a : List ℕ) (ha : a.length = n) :
    toQuot q n (RPoly.rowMonomial k q a) = ((rootUnit q n hn ^ k : (Rq q n)ˣ) : Rq q n) * toQuot q n a := by
  rw [toQuot_rowMonomial_nat hq hn k a ha]
  congr 1
  have h2n : (0 : ℤ) < 2 * n := by omega
  have hk : k = (2 * n : ℤ) * (k / (2 * n : ℤ)) + ((k % (2 * n : ℤ)).toNat : ℤ) := by
    rw [Int.toNat_of_nonneg (Int.emod_nonneg _ (by omega))]; exact (Int.mul_ediv_add_emod k _).symm
  conv_rhs => rw [hk, zpow_add, zpow_mul]
  have : (rootUnit q n hn ^ (2 * n : ℤ)) = 1 := by
    have := rootUnit_pow_two_n (q := q) hn
    rw [← zpow_natCast] at this
    simpa using this
  rw [this, one_zpow, one_mul, zpow_natCast, Units.val_pow_eq_pow_val]
  rfl

/-! ### the Galois maps compose and are bijective -/

theorem autHom_of (g : ℕ) (hg : Odd g) (c : ZMod q) :
    autHom q n g hg (AdjoinRoot.of _ c) = AdjoinRoot.of _ c := by
  unfold autHom; rw [AdjoinRoot.lift_of]

theorem autHom_comp (g g' : ℕ) (hg : Odd g) (hg' : Odd g') :
    (autHom q n g' hg').comp (autHom q n g hg) = autHom q n (g * g') (hg.mul hg') := by
  apply AdjoinRoot.ringHom_ext
  · ext c
    simp only [RingHom.comp_apply, autHom_of]
  · simp only [RingHom.comp_apply, autHom_root, map_pow, pow_mul]
    rw [← pow_mul, ← pow_mul, mul_comm]

theorem autHom_eq_id (g : ℕ) (hg : Odd g) (h1 : g % (2 * n) = 1) : autHom q n g hg = RingHom.id _ := by
  apply AdjoinRoot.ringHom_ext
  · ext c
    simp only [RingHom.comp_apply, autHom_of, RingHom.id_apply]
  · rw [autHom_root, RingHom.id_apply]
    have hr2 : (AdjoinRoot.root (X ^ n + 1 : (ZMod q)[X])) ^ (2 * n) = 1 := by
      rw [mul_comm, pow_mul, root_pow_n]; norm_num
    conv_lhs => rw [← Nat.div_add_mod g (2 * n), h1, pow_add, pow_mul, hr2, one_pow, one_mul, pow_one]

/-- for `g` odd and coprime to `n` (i.e. coprime to `2n`), `X ↦ X^g` is a ring AUTOmorphism -/
theorem autHom_bijective (hn : 1 ≤ n) (g : ℕ) (hg : Odd g) (hc : Nat.Coprime g n) :
    Function.Bijective (autHom q n g hg) := by
  have hc2 : Nat.Coprime g (2 * n) := Nat.Coprime.mul_right (Nat.coprime_two_right.2 hg) hc
  obtain ⟨g', _, hgg⟩ := Nat.exists_mul_mod_eq_one_of_coprime hc2 (by omega)
  have hg' : Odd g' := by
    by_contra h
    rw [Nat.not_odd_iff_even] at h
    have he : Even (g * g') := h.mul_left g
    have he2 : Even (g * g' % (2 * n)) := he.mod_even (even_two_mul n)
    rw [hgg] at he2
    exact absurd he2 (by decide)
  have h1 : (autHom q n g' hg').comp (autHom q n g hg) = RingHom.id _ := by
    rw [autHom_comp, autHom_eq_id _ _ hgg]
  have h2 : (autHom q n g hg).comp (autHom q n g' hg') = RingHom.id _ := by
    rw [autHom_comp, autHom_eq_id _ _ (by rw [mul_comm]; exact hgg)]
  rw [Function.bijective_iff_has_inverse]
  exact ⟨autHom q n g' hg', fun x => by simpa using congrArg (fun f => f x) h1,
    fun x => by simpa using congrArg (fun f => f x) h2⟩

end aut

/-! ## Lift to `RPoly` -/

/-- well-formed RNS polynomial of degree `n`: one well-formed row per modulus -/
def _root_.Lattigo.RPoly.WF (n : ℕ) (p : RPoly) : Prop :=
  p.c.length = p.qs.length ∧ ∀ i (h : i < p.qs.length), RowWF (p.qs[i]) n (p.c.getD i [])

theorem zipRows_qs (f : ℕ → List ℕ → List ℕ → List ℕ) (a b : RPoly) : (RPoly.zipRows f a b).qs = a.qs := rfl
theorem mapRows_qs (f : ℕ → List ℕ → List ℕ) (a : RPoly) : (RPoly.mapRows f a).qs = a.qs := rfl

theorem zipRows_length (f : ℕ → List ℕ → List ℕ → List ℕ) (a b : RPoly) (ha : a.c.length = a.qs.length)
    (hb : b.c.length = a.qs.length) : (RPoly.zipRows f a b).c.length = a.qs.length := by
  simp [RPoly.zipRows, ha, hb]

theorem zipRows_getD (f : ℕ → List ℕ → List ℕ → List ℕ) (a b : RPoly) (ha : a.c.length = a.qs.length)
    (hb : b.c.length = a.qs.length) (i : ℕ) (hi : i < a.qs.length) :
    (RPoly.zipRows f a b).c.getD i [] = f (a.qs[i]) (a.c.getD i []) (b.c.getD i []) := by
  have h1 : i < a.c.length := by omega
  have h2 : i < b.c.length := by omega
  simp [RPoly.zipRows, List.getD_eq_getElem?_getD, hi, h1, h2]

theorem mapRows_length (f : ℕ → List ℕ → List ℕ) (a : RPoly) (ha : a.c.length = a.qs.length) :
    (RPoly.mapRows f a).c.length = a.qs.length := by
  simp [RPoly.mapRows, ha]

theorem mapRows_getD (f : ℕ → List ℕ → List ℕ) (a : RPoly) (ha : a.c.length = a.qs.length)
    (i : ℕ) (hi : i < a.qs.length) :
    (RPoly.mapRows f a).c.getD i [] = f (a.qs[i]) (a.c.getD i []) := by
  have h1 : i < a.c.length := by omega
  simp [RPoly.mapRows, List.getD_eq_getElem?_getD, hi, h1]


/-- admissible parameters: degree `≥ 1`, every modulus `≥ 2` (primality NOT needed) -/
class Good (qs : List ℕ) (n : ℕ) : Prop where
  n_pos : 1 ≤ n
  q_ge : ∀ q ∈ qs, 2 ≤ q

theorem Good.q_ge_get {qs : List ℕ} {n : ℕ} (h : Good qs n) (i : ℕ) (hi : i < qs.length) : 2 ≤ qs[i] :=
  h.q_ge _ (List.getElem_mem hi)

theorem Good.q_ge_of_eq {qs : List ℕ} {n : ℕ} (h : Good qs n) (l : List ℕ) (e : l = qs) (i : ℕ)
    (hi : i < l.length) : 2 ≤ l[i] := by
  subst e; exact h.q_ge _ (List.getElem_mem hi)

/-- the carrier: well-formed RNS polynomials over the moduli `qs`, degree `n` -/
def WFPoly (qs : List ℕ) (n : ℕ) : Type := {p : RPoly // p.qs = qs ∧ p.WF n}

namespace WFPoly
variable {qs : List ℕ} {n : ℕ}

theorem ext {a b : WFPoly qs n} (h : a.1 = b.1) : a = b := Subtype.ext h

theorem c_length (a : WFPoly qs n) : a.1.c.length = a.1.qs.length := a.2.2.1
theorem row_wf (a : WFPoly qs n) (i : ℕ) (hi : i < a.1.qs.length) : RowWF (a.1.qs[i]) n (a.1.c.getD i []) :=
  a.2.2.2 i hi

/-- closure under a row-wise binary operation that preserves `RowWF` -/
def zip (f : ℕ → List ℕ → List ℕ → List ℕ)
    (hf : ∀ q x y, 2 ≤ q → RowWF q n x → RowWF q n y → RowWF q n (f q x y)) [hg : Good qs n]
    (a b : WFPoly qs n) : WFPoly qs n :=
  ⟨RPoly.zipRows f a.1 b.1, a.2.1, by
    have hb : b.1.c.length = a.1.qs.length := by rw [b.c_length, b.2.1, a.2.1]
    refine ⟨zipRows_length f _ _ a.c_length hb, fun i hi => ?_⟩
    have hi' : i < a.1.qs.length := hi
    rw [zipRows_getD f _ _ a.c_length hb i hi']
    have hq : 2 ≤ a.1.qs[i] := hg.q_ge_of_eq _ a.2.1 i hi'
    have hbi : i < b.1.qs.length := by rw [b.2.1, ← a.2.1]; exact hi'
    have e : b.1.qs[i] = a.1.qs[i] := by simp only [b.2.1, a.2.1]
    have := b.row_wf i hbi
    rw [e] at this
    exact hf _ _ _ hq (a.row_wf i hi') this⟩

def map (f : ℕ → List ℕ → List ℕ)
    (hf : ∀ q x, 2 ≤ q → RowWF q n x → RowWF q n (f q x)) [hg : Good qs n]
    (a : WFPoly qs n) : WFPoly qs n :=
  ⟨RPoly.mapRows f a.1, a.2.1, by
    refine ⟨mapRows_length f _ a.c_length, fun i hi => ?_⟩
    have hi' : i < a.1.qs.length := hi
    rw [mapRows_getD f _ a.c_length i hi']
    have hq : 2 ≤ a.1.qs[i] := hg.q_ge_of_eq _ a.2.1 i hi'
    exact hf _ _ hq (a.row_wf i hi')⟩

/-- the polynomial whose row for the modulus `q` is `row q` -/
def const (row : ℕ → List ℕ) (hrow : ∀ q, 2 ≤ q → RowWF q n (row q)) [hg : Good qs n] : WFPoly qs n :=
  ⟨{ qs := qs, c := qs.map row }, rfl, by
    refine ⟨by simp, fun i hi => ?_⟩
    have hi' : i < qs.length := hi
    have : (List.map row qs).getD i [] = row qs[i] := by simp [List.getD_eq_getElem?_getD, hi']
    simp only [this]
    exact hrow _ (hg.q_ge _ (List.getElem_mem hi'))⟩

variable [hg : Good qs n]

instance : Add (WFPoly qs n) := ⟨zip RPoly.rowAdd fun _ _ _ hq hx hy => hx.add (by omega) hy⟩
instance : Sub (WFPoly qs n) := ⟨zip RPoly.rowSub fun _ _ _ hq hx hy => hx.sub (by omega) hy⟩
instance : Mul (WFPoly qs n) := ⟨zip RPoly.rowMul fun _ _ y hq hx _ => hx.mul y (by omega)⟩
instance : Neg (WFPoly qs n) := ⟨map RPoly.rowNeg fun _ _ hq hx => hx.neg (by omega)⟩
instance : Zero (WFPoly qs n) := ⟨const (fun _ => zeroRow n) fun _ hq => RowWF.zero (by omega)⟩
instance : One (WFPoly qs n) := ⟨const (fun _ => oneRow n) fun _ hq => RowWF.one hq⟩

/-- the operations of `WFPoly` ARE the model's operations on `RPoly` (definitionally) -/
theorem val_add (a b : WFPoly qs n) : (a + b).1 = a.1 + b.1 := rfl
theorem val_sub (a b : WFPoly qs n) : (a - b).1 = a.1 - b.1 := rfl
theorem val_mul (a b : WFPoly qs n) : (a * b).1 = a.1 * b.1 := rfl
theorem val_neg (a : WFPoly qs n) : (-a).1 = -a.1 := rfl
theorem val_zero : (0 : WFPoly qs n).1 = RPoly.zero qs n := rfl


/-! ### the embedding into `Π_i Z_{q_i}[X]/(X^n+1)` -/

/-- `Π_i Z_{q_i}[X]/(X^n+1)` -/
abbrev Prod (qs : List ℕ) (n : ℕ) : Type := ∀ i : Fin qs.length, Rq (qs.get i) n

/-- component `i` of a well-formed polynomial, as an element of `Z_{q_i}[X]/(X^n+1)` -/
noncomputable def toProd (a : WFPoly qs n) : Prod qs n := fun i => toQuot (qs.get i) n (a.1.c.getD i [])

omit hg in
theorem row_wf' (a : WFPoly qs n) (i : Fin qs.length) : RowWF (qs.get i) n (a.1.c.getD i []) := by
  obtain ⟨⟨aqs, ac⟩, rfl, h⟩ := a
  exact h.2 i i.2

omit hg in
theorem c_length' (a : WFPoly qs n) : a.1.c.length = qs.length := by rw [a.c_length, a.2.1]

theorem zip_getD (f hf) (a b : WFPoly qs n) (i : Fin qs.length) :
    (zip f hf a b).1.c.getD i [] = f (qs.get i) (a.1.c.getD i []) (b.1.c.getD i []) := by
  obtain ⟨⟨aqs, ac⟩, rfl, ha⟩ := a
  exact zipRows_getD f _ _ ha.1 (by rw [b.c_length']) i i.2

theorem map_getD (f hf) (a : WFPoly qs n) (i : Fin qs.length) :
    (map f hf a).1.c.getD i [] = f (qs.get i) (a.1.c.getD i []) := by
  obtain ⟨⟨aqs, ac⟩, rfl, ha⟩ := a
  exact mapRows_getD f _ ha.1 i i.2

theorem const_getD (row hrow) (i : Fin qs.length) :
    (const (qs := qs) (n := n) row hrow).1.c.getD i [] = row (qs.get i) := by
  simp [const, List.getD_eq_getElem?_getD]

theorem toProd_add (a b : WFPoly qs n) : toProd (a + b) = toProd a + toProd b := by
  funext i
  show toQuot _ _ ((zip _ _ a b).1.c.getD i []) = _
  rw [zip_getD, toQuot_rowAdd _ _ (a.row_wf' i).len (b.row_wf' i).len]; rfl

theorem toProd_sub (a b : WFPoly qs n) : toProd (a - b) = toProd a - toProd b := by
  funext i
  show toQuot _ _ ((zip _ _ a b).1.c.getD i []) = _
  have hq : 2 ≤ qs.get i := hg.q_ge _ (List.get_mem _ _)
  rw [zip_getD, toQuot_rowSub (by omega) _ _ (a.row_wf' i).len (b.row_wf' i).len]; rfl

theorem toProd_mul (a b : WFPoly qs n) : toProd (a * b) = toProd a * toProd b := by
  funext i
  show toQuot _ _ ((zip _ _ a b).1.c.getD i []) = _
  have hq : 2 ≤ qs.get i := hg.q_ge _ (List.get_mem _ _)
  rw [zip_getD, toQuot_rowMul (by omega) _ _ (a.row_wf' i).len]; rfl

theorem toProd_neg (a : WFPoly qs n) : toProd (-a) = -toProd a := by
  funext i
  show toQuot _ _ ((map _ _ a).1.c.getD i []) = _
  have hq : 2 ≤ qs.get i := hg.q_ge _ (List.get_mem _ _)
  rw [map_getD, toQuot_rowNeg (by omega) _ (a.row_wf' i).len]; rfl

theorem toProd_zero : toProd (0 : WFPoly qs n) = 0 := by
  funext i
  show toQuot _ _ ((const _ _).1.c.getD i []) = _
  rw [const_getD, toQuot_zeroRow]; rfl

theorem toProd_one : toProd (1 : WFPoly qs n) = 1 := by
  funext i
  show toQuot _ _ ((const _ _).1.c.getD i []) = _
  rw [const_getD, toQuot_oneRow hg.n_pos]; rfl

/-- **the embedding is injective**: a well-formed polynomial is determined by its classes -/
theorem toProd_injective : Function.Injective (toProd (qs := qs) (n := n)) := by
  intro a b h
  apply ext
  have hc : a.1.c = b.1.c := by
    apply List.ext_getElem (by rw [a.c_length', b.c_length'])
    intro i h1 h2
    have hi : i < qs.length := by rw [← a.c_length']; exact h1
    have := toQuot_inj (hg.q_ge _ (List.get_mem _ ⟨i, hi⟩)) hg.n_pos (a.row_wf' ⟨i, hi⟩) (b.row_wf' ⟨i, hi⟩)
      (congrFun h ⟨i, hi⟩)
    simpa [List.getD_eq_getElem?_getD, h1, h2] using this
  obtain ⟨⟨aqs, ac⟩, ha1, ha⟩ := a
  obtain ⟨⟨bqs, bc⟩, hb1, hb⟩ := b
  simp only at ha1 hb1 hc
  subst ha1 hb1 hc
  rfl

/-- **`WFPoly qs n` is a commutative ring** whose `+ − * neg 0` are the model's `RPoly` operations -/
noncomputable instance instCommRing : CommRing (WFPoly qs n) where
  add := (· + ·)
  add_assoc a b c := toProd_injective (by simp only [toProd_add, add_assoc])
  zero := 0
  zero_add a := toProd_injective (by simp only [toProd_add, toProd_zero, zero_add])
  add_zero a := toProd_injective (by simp only [toProd_add, toProd_zero, add_zero])
  nsmul := nsmulRec
  neg := Neg.neg
  sub := (· - ·)
  sub_eq_add_neg a b := toProd_injective (by simp only [toProd_sub, toProd_add, toProd_neg, sub_eq_add_neg])
  zsmul := zsmulRec
  neg_add_cancel a := toProd_injective (by simp only [toProd_add, toProd_neg, toProd_zero, neg_add_cancel])
  add_comm a b := toProd_injective (by simp only [toProd_add, add_comm])
  mul := (· * ·)
  left_distrib a b c := toProd_injective (by simp only [toProd_add, toProd_mul, mul_add])
  right_distrib a b c := toProd_injective (by simp only [toProd_add, toProd_mul, add_mul])
  zero_mul a := toProd_injective (by simp only [toProd_mul, toProd_zero, zero_mul])
  mul_zero a := toProd_injective (by simp only [toProd_mul, toProd_zero, mul_zero])
  mul_assoc a b c := toProd_injective (by simp only [toProd_mul, mul_assoc])
  one := 1
  one_mul a := toProd_injective (by simp only [toProd_mul, toProd_one, one_mul])
  mul_one a := toProd_injective (by simp only [toProd_mul, toProd_one, mul_one])
  mul_comm a b := toProd_injective (by simp only [toProd_mul, mul_comm])

/-- the embedding as a ring homomorphism -/
noncomputable def toProdHom : WFPoly qs n →+* Prod qs n where
  toFun := toProd
  map_one' := toProd_one
  map_mul' := toProd_mul
  map_zero' := toProd_zero
  map_add' := toProd_add

end WFPoly

/-! ## `RPoly.modInv` (extended Euclid with fuel) is the modular inverse -/
section modinv
open RPoly

theorem egcd_zero_fuel (r0 s0 t0 r1 s1 t1 : ℤ) : egcd 0 r0 s0 t0 r1 s1 t1 = (r0, s0, t0) := rfl

theorem egcd_succ_zero (f : ℕ) (r0 s0 t0 s1 t1 : ℤ) : egcd (f + 1) r0 s0 t0 0 s1 t1 = (r0, s0, t0) := by
  simp [egcd]

theorem egcd_succ_ne (f : ℕ) (r0 s0 t0 r1 s1 t1 : ℤ) (h : r1 ≠ 0) :
    egcd (f + 1) r0 s0 t0 r1 s1 t1
      = egcd f r1 s1 t1 (r0 - r0 / r1 * r1) (s0 - r0 / r1 * s1) (t0 - r0 / r1 * t1) := by
  simp [egcd, h]

/-- Bézout invariant: the returned triple satisfies `g = s·a + t·m` -/
theorem egcd_bezout (a m : ℤ) : ∀ (f : ℕ) (r0 s0 t0 r1 s1 t1 : ℤ),
    r0 = s0 * a + t0 * m → r1 = s1 * a + t1 * m →
    (egcd f r0 s0 t0 r1 s1 t1).1 = (egcd f r0 s0 t0 r1 s1 t1).2.1 * a + (egcd f r0 s0 t0 r1 s1 t1).2.2 * m
  | 0, _, _, _, _, _, _, h0, _ => by rw [egcd_zero_fuel]; exact h0
  | f + 1, r0, s0, t0, r1, s1, t1, h0, h1 => by
    by_cases h : r1 = 0
    · subst h; rw [egcd_succ_zero]; exact h0
    · rw [egcd_succ_ne _ _ _ _ _ _ _ h]
      apply egcd_bezout a m f _ _ _ _ _ _ h1
      rw [h0, h1]; ring

/-- with enough fuel the first component is the gcd -/
theorem egcd_gcd : ∀ (k n0 n1 : ℕ), n1 < 2 ^ k → ∀ (f : ℕ), 2 * k + 1 ≤ f → ∀ (s0 t0 s1 t1 : ℤ),
    (egcd f (n0 : ℤ) s0 t0 (n1 : ℤ) s1 t1).1 = (Nat.gcd n0 n1 : ℤ)
  | 0, n0, n1, hn, f, hf, s0, t0, s1, t1 => by
    have : n1 = 0 := by simpa using hn
    subst this
    obtain ⟨f', rfl⟩ : ∃ f', f = f' + 1 := ⟨f - 1, by omega⟩
    rw [Nat.cast_zero, egcd_succ_zero, Nat.gcd_zero_right]
  | k + 1, n0, n1, hn, f, hf, s0, t0, s1, t1 => by
    obtain ⟨f', rfl⟩ : ∃ f', f = f' + 1 + 1 := ⟨f - 2, by omega⟩
    by_cases h1 : n1 = 0
    · subst h1; rw [Nat.cast_zero, egcd_succ_zero, Nat.gcd_zero_right]
    · have h1' : (n1 : ℤ) ≠ 0 := by exact_mod_cast h1
      have e1 : (n0 : ℤ) - (n0 : ℤ) / (n1 : ℤ) * (n1 : ℤ) = ((n0 % n1 : ℕ) : ℤ) := by
        rw [Int.natCast_mod, Int.emod_def]; ring
      rw [egcd_succ_ne _ _ _ _ _ _ _ h1', e1]
      have hx : n0 % n1 < n1 := Nat.mod_lt _ (by omega)
      by_cases h2 : n0 % n1 = 0
      · rw [h2, Nat.cast_zero, egcd_succ_zero]
        have : Nat.gcd n0 n1 = n1 := by
          rw [Nat.gcd_comm, Nat.gcd_rec, h2, Nat.gcd_zero_left]
        rw [this]
      · have h2' : ((n0 % n1 : ℕ) : ℤ) ≠ 0 := by exact_mod_cast h2
        have e2 : (n1 : ℤ) - (n1 : ℤ) / ((n0 % n1 : ℕ) : ℤ) * ((n0 % n1 : ℕ) : ℤ)
            = ((n1 % (n0 % n1) : ℕ) : ℤ) := by
          rw [Int.natCast_mod n1, Int.emod_def]; ring
        rw [egcd_succ_ne _ _ _ _ _ _ _ h2', e2]
        have hy : n1 % (n0 % n1) < n0 % n1 := Nat.mod_lt _ (by omega)
        have hy2 : n1 % (n0 % n1) + (n0 % n1) ≤ n1 := by
          have := Nat.div_add_mod n1 (n0 % n1)
          have hd : 1 ≤ n1 / (n0 % n1) := Nat.div_pos (by omega) (by omega)
          have : (n0 % n1) * 1 ≤ (n0 % n1) * (n1 / (n0 % n1)) := Nat.mul_le_mul_left _ hd
          omega
        have hlt : n1 % (n0 % n1) < 2 ^ k := by
          have : 2 ^ (k + 1) = 2 * 2 ^ k := by rw [Nat.pow_succ]; ring
          omega
        rw [egcd_gcd k (n0 % n1) (n1 % (n0 % n1)) hlt f' (by omega)]
        congr 1
        rw [Nat.gcd_comm (n0 % n1), ← Nat.gcd_rec (n0 % n1) n1, ← Nat.gcd_rec n1 n0, Nat.gcd_comm]

/-- **`modInv a m` is the inverse of `a` modulo `m`** whenever one exists (`gcd(a, m) = 1`, `m ≥ 2`) -/
theorem modInv_spec (a m : ℕ) (hm : 2 ≤ m) (hc : Nat.Coprime a m) : (a * modInv a m) % m = 1 := by
  have hfuel : 2 * (Nat.log2 m + 1) + 1 ≤ 2 * (Nat.log2 m + 2) := by omega
  have hg := egcd_gcd (Nat.log2 m + 1) (a % m) m Nat.lt_log2_self _ hfuel 1 0 0 1
  have hb := egcd_bezout ((a % m : ℕ) : ℤ) (m : ℤ) (2 * (Nat.log2 m + 2)) ((a % m : ℕ) : ℤ) 1 0 (m : ℤ) 0 1
    (by ring) (by ring)
  have hgcd : Nat.gcd (a % m) m = 1 := by
    rw [← Nat.gcd_rec, Nat.gcd_comm]; exact hc
  unfold modInv
  generalize egcd (2 * (Nat.log2 m + 2)) ((a % m : ℕ) : ℤ) 1 0 (m : ℤ) 0 1 = res at hg hb
  obtain ⟨g, s, t⟩ := res
  simp only at hg hb ⊢
  rw [hgcd] at hg
  subst hg
  simp only [Nat.cast_one, beq_self_eq_true, if_true]
  -- 1 = s * (a % m) + t * m
  have hm0 : (m : ℤ) ≠ 0 := by omega
  have hnn : 0 ≤ s % (m : ℤ) := Int.emod_nonneg _ hm0
  apply Int.ofNat_inj.1
  rw [Int.natCast_mod, Nat.cast_mul, Int.toNat_of_nonneg hnn, Nat.cast_one]
  have h1 : ((a : ℤ) * (s % (m : ℤ))) % (m : ℤ) = (s * ((a % m : ℕ) : ℤ) + t * (m : ℤ)) % (m : ℤ) := by
    rw [Int.natCast_mod, Int.add_mul_emod_self_right]
    conv_lhs => rw [Int.mul_emod, Int.emod_emod]
    conv_rhs => rw [Int.mul_emod, Int.emod_emod]
    rw [mul_comm]
  rw [h1, ← hb]
  exact Int.emod_eq_of_lt (by omega) (by omega)

/-- `2^64` is invertible modulo every odd `q ≥ 3`, and `modInv` finds the inverse -/
theorem rword_modInv (q : ℕ) (hq : 2 ≤ q) (hodd : q % 2 = 1) :
    (RLWE.RQ.Rword % q * modInv (RLWE.RQ.Rword % q) q) % q = 1 := by
  apply modInv_spec _ _ hq
  have hR : RLWE.RQ.Rword = 2 ^ 64 := by norm_num [RLWE.RQ.Rword]
  have h1 : Nat.Coprime (2 ^ 64) q :=
    Nat.Coprime.pow_left 64 (Nat.coprime_two_left.2 (Nat.odd_iff.2 hodd))
  unfold Nat.Coprime at *
  rw [← Nat.gcd_rec, Nat.gcd_comm, hR]; exact h1

end modinv

/-! ## scalars, Montgomery conversion, Galois maps and monomials on `WFPoly` -/

section scalarRow
variable {q n : ℕ}

/-- the constant polynomial `k` as a row -/
def scalarRow (q n k : ℕ) : List ℕ := (List.range n).map fun i => if i = 0 then k % q else 0

theorem RowWF.scalar (hq : 0 < q) (k : ℕ) : RowWF q n (scalarRow q n k) :=
  ⟨by simp [scalarRow], fun x hx => by
    simp only [scalarRow, List.mem_map] at hx
    obtain ⟨i, _, rfl⟩ := hx
    split
    · exact Nat.mod_lt _ hq
    · exact hq⟩

theorem toQuot_scalarRow (hn : 1 ≤ n) (k : ℕ) : toQuot q n (scalarRow q n k) = (k : Rq q n) := by
  rw [toQuot_eq_evalRow]; unfold evalRow scalarRow
  rw [sum_eq_single 0]
  · rw [getD_map_range _ _ _ (by omega), if_pos rfl, cast_mod_eq natCast_q_Rq, pow_zero, mul_one]
  · intro i hi hne
    rw [getD_map_range _ _ _ (mem_range.1 hi), if_neg hne, Nat.cast_zero, zero_mul]
  · intro h; exact absurd (mem_range.2 (by omega)) h

end scalarRow

namespace WFPoly
variable {qs : List ℕ} {n : ℕ} [hg : Good qs n]

omit hg in
theorem q_ge_get (hg : Good qs n) (i : Fin qs.length) : 2 ≤ qs.get i := hg.q_ge _ (List.get_mem _ _)

/-- `RPoly.scale` -/
def scale (a : WFPoly qs n) (k : ℕ) : WFPoly qs n :=
  map (RPoly.rowScale k) (fun _ _ hq hx => hx.scale k (by omega)) a

theorem val_scale (a : WFPoly qs n) (k : ℕ) : (a.scale k).1 = a.1.scale k := rfl

/-- multiply the row of modulus `q` by the residue `k q` (shape of `MForm` / `IMForm` on canonical rows) -/
def scaleBy (k : ℕ → ℕ) (a : WFPoly qs n) : WFPoly qs n :=
  map (fun q x => RPoly.rowScale (k q) q x) (fun _ _ hq hx => hx.scale _ (by omega)) a

/-- the constant polynomial with residue `k q` modulo `q` -/
def constNat (k : ℕ → ℕ) : WFPoly qs n :=
  const (fun q => scalarRow q n (k q)) (fun _ hq => RowWF.scalar (by omega) _)

theorem toProd_scaleBy (k : ℕ → ℕ) (a : WFPoly qs n) (i : Fin qs.length) :
    toProd (scaleBy k a) i = (k (qs.get i) : Rq (qs.get i) n) * toProd a i := by
  show toQuot _ _ ((map _ _ a).1.c.getD i []) = _
  rw [map_getD, toQuot_rowScale _ _ (a.row_wf' i).len]; rfl

theorem toProd_constNat (k : ℕ → ℕ) (i : Fin qs.length) :
    toProd (constNat (qs := qs) (n := n) k) i = (k (qs.get i) : Rq (qs.get i) n) := by
  show toQuot _ _ ((const _ _).1.c.getD i []) = _
  rw [const_getD, toQuot_scalarRow hg.n_pos]

theorem scaleBy_eq_mul (k : ℕ → ℕ) (a : WFPoly qs n) : scaleBy k a = a * constNat k :=
  toProd_injective (by
    funext i
    rw [toProd_mul, Pi.mul_apply, toProd_scaleBy, toProd_constNat, mul_comm])

theorem scale_eq_mul_natCast (a : WFPoly qs n) (k : ℕ) : a.scale k = a * (k : WFPoly qs n) :=
  toProd_injective (by
    funext i
    have h1 : toProd (a.scale k) i = (k : Rq (qs.get i) n) * toProd a i := toProd_scaleBy (fun _ => k) a i
    have h2 : toProd (k : WFPoly qs n) = (k : Prod qs n) := map_natCast toProdHom k
    rw [toProd_mul, Pi.mul_apply, h1, h2, mul_comm]; rfl)

theorem constNat_mul_eq_one (k k' : ℕ → ℕ) (h : ∀ q ∈ qs, (k q * k' q) % q = 1) :
    constNat (qs := qs) (n := n) k * constNat k' = 1 :=
  toProd_injective (by
    funext i
    rw [toProd_mul, Pi.mul_apply, toProd_constNat, toProd_constNat, toProd_one, Pi.one_apply,
      ← Nat.cast_mul, ← cast_mod_eq natCast_q_Rq, h _ (List.get_mem _ _), Nat.cast_one])

/-- the Montgomery conversions the driver executes (`RLWE.RQ.mont`, standard ring) -/
def mont : RLWE.Mont (WFPoly qs n) where
  toM := scaleBy fun q => RLWE.RQ.Rword % q
  ofM := scaleBy fun q => RPoly.modInv (RLWE.RQ.Rword % q) q

theorem val_mont_toM (a : WFPoly qs n) : (mont.toM a).1 = (RLWE.RQ.mont.toM ⟨false, a.1⟩).p := rfl
theorem val_mont_ofM (a : WFPoly qs n) : (mont.ofM a).1 = (RLWE.RQ.mont.ofM ⟨false, a.1⟩).p := rfl

/-- the executable `modInv` inverts `2^64` modulo every modulus (decidable; holds for odd moduli) -/
def MontInvOK (qs : List ℕ) : Prop :=
  ∀ q ∈ qs, (RLWE.RQ.Rword % q * RPoly.modInv (RLWE.RQ.Rword % q) q) % q = 1

instance (qs : List ℕ) : Decidable (MontInvOK qs) := by unfold MontInvOK; infer_instance

/-- **the driver's Montgomery pair is multiplication by the unit `R = 2^64` and by `R⁻¹`** -/
theorem isMont_mont (h : MontInvOK qs) :
    RLWE.IsMont (mont (qs := qs) (n := n)) (constNat fun q => RLWE.RQ.Rword % q)
      (constNat fun q => RPoly.modInv (RLWE.RQ.Rword % q) q) :=
  ⟨constNat_mul_eq_one _ _ h, fun x => scaleBy_eq_mul _ x, fun x => scaleBy_eq_mul _ x⟩

omit hg in
/-- `MontInvOK` holds for odd moduli (proved from the correctness of the executable `modInv`) -/
theorem montInvOK_of_odd (h2 : ∀ q ∈ qs, 2 ≤ q) (hodd : ∀ q ∈ qs, q % 2 = 1) : MontInvOK qs :=
  fun q hq => rword_modInv q (h2 q hq) (hodd q hq)

/-- `isMont_mont` for odd moduli, no further hypothesis -/
theorem isMont_mont_of_odd (hodd : ∀ q ∈ qs, q % 2 = 1) :
    RLWE.IsMont (mont (qs := qs) (n := n)) (constNat fun q => RLWE.RQ.Rword % q)
      (constNat fun q => RPoly.modInv (RLWE.RQ.Rword % q) q) :=
  isMont_mont (montInvOK_of_odd hg.q_ge hodd)

/-! ### Galois maps and monomials -/

/-- `RPoly.aut` (`g` coprime to `n`) -/
def aut (g : ℕ) (hc : Nat.Coprime g n) (a : WFPoly qs n) : WFPoly qs n :=
  map (RPoly.rowAut g) (fun _ _ hq hx => hx.aut (by omega) hg.n_pos g hc) a

theorem val_aut (g : ℕ) (hc : Nat.Coprime g n) (a : WFPoly qs n) : (aut g hc a).1 = a.1.aut g := rfl

theorem toProd_aut (g : ℕ) (hodd : Odd g) (hc : Nat.Coprime g n) (a : WFPoly qs n) (i : Fin qs.length) :
    toProd (aut g hc a) i = autHom (qs.get i) n g hodd (toProd a i) := by
  show toQuot _ _ ((map _ _ a).1.c.getD i []) = _
  have hq := q_ge_get hg i
  rw [map_getD, toQuot_rowAut (by omega) hg.n_pos g hodd hc _ (a.row_wf' i).len]; rfl

/-- **`RPoly.aut g` is a ring endomorphism of `WFPoly`** (`g` odd, coprime to `n`) -/
noncomputable def autRingHom (g : ℕ) (hodd : Odd g) (hc : Nat.Coprime g n) : WFPoly qs n →+* WFPoly qs n where
  toFun := aut g hc
  map_one' := toProd_injective (by funext i; rw [toProd_aut g hodd, toProd_one, Pi.one_apply, map_one])
  map_mul' a b := toProd_injective (by
    funext i; rw [toProd_aut g hodd, toProd_mul, toProd_mul, Pi.mul_apply, Pi.mul_apply, map_mul,
      toProd_aut g hodd, toProd_aut g hodd])
  map_zero' := toProd_injective (by funext i; rw [toProd_aut g hodd, toProd_zero, Pi.zero_apply, map_zero])
  map_add' a b := toProd_injective (by
    funext i; rw [toProd_aut g hodd, toProd_add, toProd_add, Pi.add_apply, Pi.add_apply, map_add,
      toProd_aut g hodd, toProd_aut g hodd])

theorem autRingHom_apply (g : ℕ) (hodd : Odd g) (hc : Nat.Coprime g n) (a : WFPoly qs n) :
    (autRingHom g hodd hc a).1 = a.1.aut g := rfl

/-- `RPoly.mulMonomial` -/
def mulMonomial (a : WFPoly qs n) (k : ℤ) : WFPoly qs n :=
  map (RPoly.rowMonomial k) (fun _ _ hq hx => hx.monomial (by omega) hg.n_pos k) a

theorem val_mulMonomial (a : WFPoly qs n) (k : ℤ) : (a.mulMonomial k).1 = a.1.mulMonomial k := rfl

theorem toProd_mulMonomial (a : WFPoly qs n) (k : ℤ) (i : Fin qs.length) :
    toProd (a.mulMonomial k) i
      = ((rootUnit (qs.get i) n hg.n_pos ^ k : (Rq (qs.get i) n)ˣ) : Rq (qs.get i) n) * toProd a i := by
  show toQuot _ _ ((map _ _ a).1.c.getD i []) = _
  have hq := q_ge_get hg i
  rw [map_getD, toQuot_rowMonomial (by omega) hg.n_pos k _ (a.row_wf' i).len]; rfl

/-- `mulMonomial` is multiplication by the monomial `X^k = mulMonomial 1 k` -/
theorem mulMonomial_eq_mul (a : WFPoly qs n) (k : ℤ) : a.mulMonomial k = a * (1 : WFPoly qs n).mulMonomial k :=
  toProd_injective (by
    funext i
    rw [toProd_mul, Pi.mul_apply, toProd_mulMonomial, toProd_mulMonomial, toProd_one, Pi.one_apply,
      mul_one, mul_comm])

/-! ### the ring isomorphism with `Π_i Z_{q_i}[X]/(X^n+1)` -/

theorem toProd_surjective : Function.Surjective (toProd (qs := qs) (n := n)) := by
  intro x
  choose row hrow using fun i : Fin qs.length => toQuot_surj (q_ge_get hg i) hg.n_pos (x i)
  let c : List (List ℕ) := List.ofFn row
  have hc : ∀ i : Fin qs.length, c.getD i [] = row i := by
    intro i
    simp [c, List.getD_eq_getElem?_getD]
  refine ⟨⟨{ qs := qs, c := c }, rfl, by simp [c], fun i hi => ?_⟩, ?_⟩
  · have := (hrow ⟨i, hi⟩).1
    rw [← hc ⟨i, hi⟩] at this
    exact this
  · funext i
    show toQuot _ _ (c.getD i []) = _
    rw [hc i]; exact (hrow i).2

/-- **`WFPoly qs n ≃+* Π_i Z_{q_i}[X]/(X^n+1)`** -/
noncomputable def ringEquiv : WFPoly qs n ≃+* Prod qs n :=
  RingEquiv.ofBijective toProdHom ⟨toProd_injective, toProd_surjective⟩

end WFPoly
end Lattigo.RPolyRing
