/-
  C20 — `InitTestPolynomial`'s `scaleUp` (`scaleUpBits` of Model/BlindRot.lean, the float64 pipeline in exact
  arithmetic): every limb is the residue of ONE integer, and that integer is the exact `⌊scale·|value| + 1/2⌋` whenever
  the product of the two significands and the sum with `1/2` are representable (no rounding happens).
-/
import Lattigo.Model.BlindRot
import Mathlib.Tactic.Ring
import Mathlib.Tactic.Linarith

namespace Lattigo.RGSW.BlindRot

/-- **limbs are consistent**: for every modulus `Q > 0` the stored value is the residue of the same integer
    `X = scaleUpAbs value scale` (for a non-negative value), resp. of `−X` (negative value; `Q` itself when `Q ∣ X`). -/
theorem scaleUpBits_residue (v s Q : Nat) (hQ : 0 < Q) :
    (isNegBits v = false → scaleUpBits v s Q = scaleUpAbs v s % Q) ∧
    (isNegBits v = true → (scaleUpBits v s Q + scaleUpAbs v s) % Q = 0 ∧ 0 < scaleUpBits v s Q ∧ scaleUpBits v s Q ≤ Q) := by
  unfold scaleUpBits
  constructor
  · intro h; simp [h]
  · intro h
    simp only [h, if_true]
    have hlt := Nat.mod_lt (scaleUpAbs v s) hQ
    have hdm := Nat.div_add_mod (scaleUpAbs v s) Q
    refine ⟨?_, by omega, by omega⟩
    have : Q - scaleUpAbs v s % Q + scaleUpAbs v s = Q * (scaleUpAbs v s / Q + 1) := by
      rw [Nat.mul_add, Nat.mul_one]; omega
    rw [this, Nat.mul_mod_right]

theorem rnd53_small (x : Nat × Int) (h : x.1 < 2 ^ 53) : rnd53 x = x := by
  unfold rnd53; rw [if_pos h]

/-- truncating the exact sum `m·2^e + 1/2` is rounding half up -/
theorem truncF_addHalfExact (m : Nat) (e : Int) : truncF (addHalfExact (m, e)) = roundHalfUp m e := by
  unfold truncF addHalfExact roundHalfUp
  by_cases he : e ≥ 0
  · simp only [he, if_true]
    have h1 : ¬ ((-1 : Int) ≥ 0) := by omega
    simp only [h1, if_false]
    have e1 : (-(-1 : Int)).toNat = 1 := by decide
    have e2 : (e + 1).toNat = e.toNat + 1 := by omega
    rw [e1, e2, pow_one, pow_succ]
    have : m * (2 ^ e.toNat * 2) + 1 = 2 * (m * 2 ^ e.toNat) + 1 := by ring
    rw [this]
    omega
  · simp only [he, if_false]
    have e2 : (-1 - e).toNat = (-e).toNat - 1 := by omega
    rw [e2]

/-- **testpoly_exact**: with `(m_s, e_s)`, `(m_v, e_v)` the (odd) significands and exponents of `scale` and `|value|`, if the
    product significand `m_s·m_v` and the significand of the exact sum with `1/2` fit 53 bits (nothing is rounded), the stored
    integer is the exact `⌊scale·|value| + 1/2⌋`. -/
theorem scaleUpAbs_exact (v s : Nat)
    (h1 : (decodeMag s).1 * (decodeMag v).1 < 2 ^ 53)
    (h2 : (addHalfExact ((decodeMag s).1 * (decodeMag v).1, (decodeMag s).2 + (decodeMag v).2)).1 < 2 ^ 53) :
    scaleUpAbs v s = roundHalfUp ((decodeMag s).1 * (decodeMag v).1) ((decodeMag s).2 + (decodeMag v).2) := by
  unfold scaleUpAbs fmul faddHalf
  have e1 : rnd53 ((decodeMag s).1 * (decodeMag v).1, (decodeMag s).2 + (decodeMag v).2)
      = ((decodeMag s).1 * (decodeMag v).1, (decodeMag s).2 + (decodeMag v).2) := rnd53_small _ h1
  rw [e1, rnd53_small _ h2, truncF_addHalfExact]

/-- large even integers: `x = m·2^k`, `k ≥ 1`, `m < 2^53`; `x + 1/2` rounds back to `x` (it is below half an ulp, or a tie
    whose even neighbour is `x`), so the stored integer is `x = ⌊x + 1/2⌋` — the regime of scales `≥ 2^54` -/
theorem faddHalf_big (m k : Nat) (hm : m < 2 ^ 53) (hk : 1 ≤ k) :
    truncF (faddHalf (m, (k : Int))) = m * 2 ^ k := by
  unfold faddHalf addHalfExact
  have hk0 : ((k : Int) ≥ 0) := by omega
  simp only [hk0, if_true]
  have ek : ((k : Int) + 1).toNat = k + 1 := by omega
  rw [ek]
  set y := m * 2 ^ (k + 1) + 1 with hy
  by_cases hs : y < 2 ^ 53
  · rw [rnd53_small _ hs]
    have := truncF_addHalfExact m (k : Int)
    unfold addHalfExact at this
    simp only [hk0, if_true, ek] at this
    rw [this]; unfold roundHalfUp; simp [hk0]
  · have hy53 : 2 ^ 53 ≤ y := by omega
    have hy0 : y ≠ 0 := by omega
    have hlog1 : 53 ≤ Nat.log2 y := (Nat.le_log2 hy0).mpr hy53
    have hylt : y < 2 ^ (k + 54) := by
      have h2 : 2 ^ (k + 54) = 2 ^ 53 * 2 ^ (k + 1) := by rw [← pow_add]; congr 1; omega
      have h3 : m * 2 ^ (k + 1) + 2 ^ (k + 1) ≤ 2 ^ 53 * 2 ^ (k + 1) := by
        have : (m + 1) * 2 ^ (k + 1) ≤ 2 ^ 53 * 2 ^ (k + 1) := Nat.mul_le_mul_right _ (by omega)
        rw [Nat.add_mul, Nat.one_mul] at this; exact this
      have h4 : 1 < 2 ^ (k + 1) := Nat.one_lt_two_pow (by omega)
      rw [h2, hy]; omega
    have hlog2 : Nat.log2 y < k + 54 := (Nat.log2_lt hy0).mpr hylt
    set sh := Nat.log2 y + 1 - 53 with hsh
    have hsh1 : 1 ≤ sh := by omega
    have hshk : sh ≤ k + 1 := by omega
    -- y = (m * 2^(k+1-sh)) * 2^sh + 1
    have hsplit : 2 ^ (k + 1) = 2 ^ (k + 1 - sh) * 2 ^ sh := by rw [← pow_add]; congr 1; omega
    have hy' : y = 2 ^ sh * (m * 2 ^ (k + 1 - sh)) + 1 := by rw [hy, hsplit]; ring
    have h1lt : 1 < 2 ^ sh := Nat.one_lt_two_pow (by omega)
    have hq : y / 2 ^ sh = m * 2 ^ (k + 1 - sh) := by
      rw [hy', Nat.mul_add_div (by omega), Nat.div_eq_of_lt h1lt, Nat.add_zero]
    have hr : y % 2 ^ sh = 1 := by
      rw [hy', Nat.mul_add_mod, Nat.mod_eq_of_lt h1lt]
    unfold rnd53
    simp only [hs, if_false]
    rw [← hsh, hq, hr]
    have hcond : ¬ (1 > 2 ^ (sh - 1) ∨ (1 = 2 ^ (sh - 1) ∧ m * 2 ^ (k + 1 - sh) % 2 = 1)) := by
      intro h
      rcases h with h | ⟨h, hodd⟩
      · have : 1 ≤ 2 ^ (sh - 1) := Nat.one_le_two_pow
        omega
      · have hsh' : sh = 1 := by
          by_contra hne
          have : 1 < 2 ^ (sh - 1) := Nat.one_lt_two_pow (by omega)
          omega
        rw [hsh'] at hodd
        have : k + 1 - 1 = (k - 1) + 1 := by omega
        rw [this, pow_succ] at hodd
        have : m * (2 ^ (k - 1) * 2) = 2 * (m * 2 ^ (k - 1)) := by ring
        rw [this, Nat.mul_mod_right] at hodd
        omega
    rw [if_neg hcond]
    unfold truncF
    have he : ((-1 : Int) + (sh : Int)) ≥ 0 := by omega
    simp only [he, if_true]
    have et : ((-1 : Int) + (sh : Int)).toNat = sh - 1 := by omega
    rw [et, Nat.mul_assoc, ← pow_add]
    congr 2
    omega

/-- **testpoly_exact, large scales**: if the product significand fits 53 bits and the product exponent is `k ≥ 1` (the
    product `scale·|value|` is an even integer `m·2^k`, e.g. `|value| ∈ {1, 1/2, 3/4, …}` and `scale ≥ 2^54`), the stored
    integer is that product exactly. -/
theorem scaleUpAbs_exact_big (v s k : Nat) (hk : 1 ≤ k)
    (h1 : (decodeMag s).1 * (decodeMag v).1 < 2 ^ 53) (he : (decodeMag s).2 + (decodeMag v).2 = (k : Int)) :
    scaleUpAbs v s = (decodeMag s).1 * (decodeMag v).1 * 2 ^ k := by
  unfold scaleUpAbs fmul
  have e1 : rnd53 ((decodeMag s).1 * (decodeMag v).1, (decodeMag s).2 + (decodeMag v).2)
      = ((decodeMag s).1 * (decodeMag v).1, (k : Int)) := by rw [rnd53_small _ h1, he]
  rw [e1]
  exact faddHalf_big _ k h1 hk

end Lattigo.RGSW.BlindRot
