/-
  Transport of the generic scheme-level theorems to the executable carrier.

  The scheme-level models (`Model/RLWE.lean`, `Model/Gadget.lean`, …) are written over a carrier `α`
  that only has `+ * − neg`; their theorems are proved for `[CommRing α]`.  The driver executes them
  on `RPoly`.  `Proofs/RPolyRing.lean` shows that the well-formed `RPoly`s over moduli `qs`, degree
  `n`, form a commutative ring `WFPoly qs n` whose operations are the model's.

  This file provides what is needed to turn a theorem about `WFPoly qs n` into a statement about
  plain `RPoly` values with well-formedness HYPOTHESES ON THE INPUTS:

  * `OpsHom φ` — `φ` preserves `+ * − neg` (no ring structure needed on either side);
    `val_hom : OpsHom (WFPoly.val)`, `std_hom : OpsHom (RPoly → RQ, p ↦ ⟨false, p⟩)`;
  * `WFq qs n p` (`p.qs = qs ∧ p.WF n`, decidable), lifting of well-formed values, lists, matrices
    and pairs of `RPoly` to `WFPoly` (`exists_lift…`);
  * `Option`/`List`/`Prod` bookkeeping.

  The naturality lemmas for the individual model functions are in the `Props/CxxRing.lean` files.
-/
import Lattigo.Proofs.RPolyRing
import Lattigo.Model.MPShare

set_option linter.unusedSectionVars false

namespace Lattigo.Transport
open Lattigo Lattigo.RPolyRing

/-- `φ` preserves the four operations the scheme-level models use -/
structure OpsHom {α β : Type} [Add α] [Mul α] [Neg α] [Sub α] [Add β] [Mul β] [Neg β] [Sub β]
    (φ : α → β) : Prop where
  add : ∀ x y, φ (x + y) = φ x + φ y
  mul : ∀ x y, φ (x * y) = φ x * φ y
  neg : ∀ x, φ (-x) = -φ x
  sub : ∀ x y, φ (x - y) = φ x - φ y

theorem OpsHom.comp {α β γ : Type} [Add α] [Mul α] [Neg α] [Sub α] [Add β] [Mul β] [Neg β] [Sub β]
    [Add γ] [Mul γ] [Neg γ] [Sub γ] {φ : α → β} {ψ : β → γ} (hψ : OpsHom ψ) (hφ : OpsHom φ) :
    OpsHom (fun x => ψ (φ x)) :=
  ⟨fun x y => by rw [hφ.add, hψ.add], fun x y => by rw [hφ.mul, hψ.mul],
   fun x => by rw [hφ.neg, hψ.neg], fun x y => by rw [hφ.sub, hψ.sub]⟩

/-- a ring homomorphism preserves the four operations -/
theorem OpsHom.ofRingHom {α β : Type} [CommRing α] [CommRing β] (f : α →+* β) : OpsHom f :=
  ⟨map_add f, map_mul f, map_neg f, map_sub f⟩

/-! ## well-formed `RPoly`s -/

/-- `p` is a well-formed polynomial over the moduli `qs`, degree `n`: the hypothesis of every
`…_rpoly` theorem on its inputs -/
def WFq (qs : List ℕ) (n : ℕ) (p : RPoly) : Prop := p.qs = qs ∧ p.WF n

theorem WFq_iff (qs : List ℕ) (n : ℕ) (p : RPoly) : WFq qs n p ↔ p.qs = qs ∧ p.WF n := Iff.rfl

/-- executable well-formedness test -/
def wfb (qs : List ℕ) (n : ℕ) (p : RPoly) : Bool :=
  decide (p.qs = qs) && decide (p.c.length = p.qs.length) &&
    (List.range p.qs.length).all fun i =>
      decide ((p.c.getD i []).length = n) && (p.c.getD i []).all fun x => decide (x < p.qs.getD i 0)

theorem wfq_of_wfb {qs : List ℕ} {n : ℕ} {p : RPoly} (h : wfb qs n p = true) : WFq qs n p := by
  simp only [wfb, Bool.and_eq_true, decide_eq_true_eq, List.all_eq_true, List.mem_range] at h
  obtain ⟨⟨h1, h2⟩, h3⟩ := h
  refine ⟨h1, h2, fun i hi => ?_⟩
  obtain ⟨hl, hx⟩ := h3 i hi
  refine ⟨hl, fun x hxm => ?_⟩
  have := hx x hxm
  simpa [List.getD_eq_getElem?_getD, hi] using this

theorem wfb_of_wfq {qs : List ℕ} {n : ℕ} {p : RPoly} (h : WFq qs n p) : wfb qs n p = true := by
  simp only [wfb, Bool.and_eq_true, decide_eq_true_eq, List.all_eq_true, List.mem_range]
  obtain ⟨h1, h2, h3⟩ := h
  refine ⟨⟨h1, h2⟩, fun i hi => ?_⟩
  obtain ⟨hl, hx⟩ := h3 i hi
  refine ⟨hl, fun x hxm => ?_⟩
  have := hx x hxm
  simpa [List.getD_eq_getElem?_getD, hi] using this

instance (qs : List ℕ) (n : ℕ) (p : RPoly) : Decidable (WFq qs n p) :=
  decidable_of_iff (wfb qs n p = true) ⟨wfq_of_wfb, wfb_of_wfq⟩

section val
variable {qs : List ℕ} {n : ℕ}

/-- the underlying executable value -/
def val (x : WFPoly qs n) : RPoly := x.1

theorem val_wf (x : WFPoly qs n) : WFq qs n (val x) := x.2

theorem val_injective : Function.Injective (val (qs := qs) (n := n)) := fun _ _ h => Subtype.ext h

/-- a well-formed value as an element of the ring -/
def lift (p : RPoly) (h : WFq qs n p) : WFPoly qs n := ⟨p, h⟩

@[simp] theorem val_lift (p : RPoly) (h : WFq qs n p) : val (lift p h) = p := rfl

theorem exists_lift (p : RPoly) (h : WFq qs n p) : ∃ x : WFPoly qs n, val x = p := ⟨lift p h, rfl⟩

theorem exists_lift_list (l : List RPoly) (h : ∀ p ∈ l, WFq qs n p) :
    ∃ l' : List (WFPoly qs n), l'.map val = l := by
  induction l with
  | nil => exact ⟨[], rfl⟩
  | cons p l ih =>
    obtain ⟨l', hl'⟩ := ih (fun q hq => h q (List.mem_cons_of_mem _ hq))
    exact ⟨lift p (h p (List.mem_cons_self ..)) :: l', by simp [hl']⟩

theorem exists_lift_mat (m : List (List RPoly)) (h : ∀ r ∈ m, ∀ p ∈ r, WFq qs n p) :
    ∃ m' : List (List (WFPoly qs n)), m'.map (List.map val) = m := by
  induction m with
  | nil => exact ⟨[], rfl⟩
  | cons r m ih =>
    obtain ⟨m', hm'⟩ := ih (fun q hq => h q (List.mem_cons_of_mem _ hq))
    obtain ⟨r', hr'⟩ := exists_lift_list r (h r (List.mem_cons_self ..))
    exact ⟨r' :: m', by simp [hm', hr']⟩

theorem exists_lift_cube (m : List (List (List RPoly))) (h : ∀ r ∈ m, ∀ l ∈ r, ∀ p ∈ l, WFq qs n p) :
    ∃ m' : List (List (List (WFPoly qs n))), m'.map (List.map (List.map val)) = m := by
  induction m with
  | nil => exact ⟨[], rfl⟩
  | cons r m ih =>
    obtain ⟨m', hm'⟩ := ih (fun q hq => h q (List.mem_cons_of_mem _ hq))
    obtain ⟨r', hr'⟩ := exists_lift_mat r (h r (List.mem_cons_self ..))
    exact ⟨r' :: m', by simp [hm', hr']⟩

theorem exists_lift_pairs (l : List (RPoly × RPoly)) (h : ∀ p ∈ l, WFq qs n p.1 ∧ WFq qs n p.2) :
    ∃ l' : List (WFPoly qs n × WFPoly qs n), l'.map (Prod.map val val) = l := by
  induction l with
  | nil => exact ⟨[], rfl⟩
  | cons p l ih =>
    obtain ⟨l', hl'⟩ := ih (fun q hq => h q (List.mem_cons_of_mem _ hq))
    have hp := h p (List.mem_cons_self ..)
    exact ⟨(lift p.1 hp.1, lift p.2 hp.2) :: l', by simp [hl']⟩

theorem exists_lift_pairMat (m : List (List (RPoly × RPoly)))
    (h : ∀ r ∈ m, ∀ p ∈ r, WFq qs n p.1 ∧ WFq qs n p.2) :
    ∃ m' : List (List (WFPoly qs n × WFPoly qs n)), m'.map (List.map (Prod.map val val)) = m := by
  induction m with
  | nil => exact ⟨[], rfl⟩
  | cons r m ih =>
    obtain ⟨m', hm'⟩ := ih (fun q hq => h q (List.mem_cons_of_mem _ hq))
    obtain ⟨r', hr'⟩ := exists_lift_pairs r (h r (List.mem_cons_self ..))
    exact ⟨r' :: m', by simp [hm', hr']⟩

theorem exists_lift_fun {ι : Type} (f : ι → RPoly) (h : ∀ i, WFq qs n (f i)) :
    ∃ f' : ι → WFPoly qs n, (fun i => val (f' i)) = f := ⟨fun i => lift (f i) (h i), rfl⟩

theorem exists_lift_fun2 {ι κ : Type} (f : ι → κ → RPoly) (h : ∀ i j, WFq qs n (f i j)) :
    ∃ f' : ι → κ → WFPoly qs n, (fun i j => val (f' i j)) = f := ⟨fun i j => lift (f i j) (h i j), rfl⟩

/-- every element of a list of values is well formed -/
theorem wf_of_mem_map_val {l : List (WFPoly qs n)} {p : RPoly} (h : p ∈ l.map val) : WFq qs n p := by
  obtain ⟨x, _, rfl⟩ := List.mem_map.1 h
  exact val_wf x

variable [Good qs n]

/-- **the ring operations of `WFPoly qs n` are the model's operations on the underlying `RPoly`** -/
theorem val_hom : OpsHom (val (qs := qs) (n := n)) := ⟨fun _ _ => rfl, fun _ _ => rfl, fun _ => rfl, fun _ _ => rfl⟩

@[simp] theorem val_zero : val (0 : WFPoly qs n) = RPoly.zero qs n := rfl

/-- the constant polynomial `1` over the moduli `qs` -/
def rpOne (qs : List ℕ) (n : ℕ) : RPoly := { qs := qs, c := qs.map fun _ => oneRow n }

@[simp] theorem val_one : val (1 : WFPoly qs n) = rpOne qs n := rfl

theorem val_add (x y : WFPoly qs n) : val (x + y) = val x + val y := rfl
theorem val_sub (x y : WFPoly qs n) : val (x - y) = val x - val y := rfl
theorem val_mul (x y : WFPoly qs n) : val (x * y) = val x * val y := rfl
theorem val_neg (x : WFPoly qs n) : val (-x) = -val x := rfl

/-- closure of well-formedness under the model's operations, as statements about plain `RPoly`s -/
theorem WFq.add {a b : RPoly} (ha : WFq qs n a) (hb : WFq qs n b) : WFq qs n (a + b) :=
  val_wf (lift a ha + lift b hb)
theorem WFq.sub {a b : RPoly} (ha : WFq qs n a) (hb : WFq qs n b) : WFq qs n (a - b) :=
  val_wf (lift a ha - lift b hb)
theorem WFq.mul {a b : RPoly} (ha : WFq qs n a) (hb : WFq qs n b) : WFq qs n (a * b) :=
  val_wf (lift a ha * lift b hb)
theorem WFq.neg {a : RPoly} (ha : WFq qs n a) : WFq qs n (-a) := val_wf (-lift a ha)
theorem WFq.zero : WFq qs n (RPoly.zero qs n) := val_wf (0 : WFPoly qs n)
theorem WFq.one : WFq qs n (rpOne qs n) := val_wf (1 : WFPoly qs n)
theorem WFq.aut {a : RPoly} (ha : WFq qs n a) (g : ℕ) (hc : Nat.Coprime g n) : WFq qs n (a.aut g) :=
  val_wf (WFPoly.aut g hc (lift a ha))
theorem WFq.mulMonomial {a : RPoly} (ha : WFq qs n a) (k : ℤ) : WFq qs n (a.mulMonomial k) :=
  val_wf ((lift a ha).mulMonomial k)
theorem WFq.scale {a : RPoly} (ha : WFq qs n a) (k : ℕ) : WFq qs n (a.scale k) :=
  val_wf ((lift a ha).scale k)

end val

/-! ## the driver's tagged carrier `RQ` -/

/-- a standard-ring (`ci = false`) element of the driver's carrier `RLWE.RQ` -/
def std (p : RPoly) : RLWE.RQ := ⟨false, p⟩

theorem std_injective : Function.Injective std := fun a b h => by
  simpa [std] using congrArg RLWE.RQ.p h

/-- `RQ` operations on standard-ring elements are the `RPoly` operations -/
theorem std_hom : OpsHom std := ⟨fun _ _ => rfl, fun _ _ => rfl, fun _ => rfl, fun _ _ => rfl⟩

/-- the `RPoly` part of the driver's Montgomery pair `RLWE.RQ.mont` -/
def rpMont : RLWE.Mont RPoly where
  toM := fun a => (RLWE.RQ.mont.toM (std a)).p
  ofM := fun a => (RLWE.RQ.mont.ofM (std a)).p

theorem std_toM (a : RPoly) : RLWE.RQ.mont.toM (std a) = std (rpMont.toM a) := rfl
theorem std_ofM (a : RPoly) : RLWE.RQ.mont.ofM (std a) = std (rpMont.ofM a) := rfl

theorem val_toM {qs : List ℕ} {n : ℕ} [Good qs n] (x : WFPoly qs n) :
    val (WFPoly.mont.toM x) = rpMont.toM (val x) := rfl
theorem val_ofM {qs : List ℕ} {n : ℕ} [Good qs n] (x : WFPoly qs n) :
    val (WFPoly.mont.ofM x) = rpMont.ofM (val x) := rfl

/-- compatibility of a map with two Montgomery pairs -/
structure MontHom {α β : Type} (φ : α → β) (M : RLWE.Mont α) (M' : RLWE.Mont β) : Prop where
  toM : ∀ x, φ (M.toM x) = M'.toM (φ x)
  ofM : ∀ x, φ (M.ofM x) = M'.ofM (φ x)

theorem val_montHom {qs : List ℕ} {n : ℕ} [Good qs n] :
    MontHom (val (qs := qs) (n := n)) WFPoly.mont rpMont := ⟨fun _ => rfl, fun _ => rfl⟩

theorem std_montHom : MontHom std rpMont RLWE.RQ.mont := ⟨fun _ => rfl, fun _ => rfl⟩

theorem MontHom.comp {α β γ : Type} {φ : α → β} {ψ : β → γ} {M : RLWE.Mont α} {M' : RLWE.Mont β}
    {M'' : RLWE.Mont γ} (hψ : MontHom ψ M' M'') (hφ : MontHom φ M M') :
    MontHom (fun x => ψ (φ x)) M M'' :=
  ⟨fun x => by rw [hφ.toM, hψ.toM], fun x => by rw [hφ.ofM, hψ.ofM]⟩

/-! ## the reduction `R_{QP} → R_Q` (keep the rows of `Q`) is a ring homomorphism -/

/-- keep the first `k` rows (`KS.partQ`, `RPoly.atLevel (k-1)`) -/
def takeRows (k : ℕ) (p : RPoly) : RPoly := { qs := p.qs.take k, c := p.c.take k }

theorem take_zip' {α β : Type} : ∀ (k : ℕ) (a : List α) (b : List β), (a.zip b).take k = (a.take k).zip (b.take k)
  | 0, _, _ => by simp
  | _ + 1, [], _ => by simp
  | _ + 1, _ :: _, [] => by simp
  | k + 1, x :: a, y :: b => by simp [take_zip' k a b]

theorem takeRows_zipRows (f : ℕ → List ℕ → List ℕ → List ℕ) (k : ℕ) (a b : RPoly) :
    takeRows k (RPoly.zipRows f a b) = RPoly.zipRows f (takeRows k a) (takeRows k b) := by
  simp only [takeRows, RPoly.zipRows, ← List.map_take, take_zip']

theorem takeRows_mapRows (f : ℕ → List ℕ → List ℕ) (k : ℕ) (a : RPoly) :
    takeRows k (RPoly.mapRows f a) = RPoly.mapRows f (takeRows k a) := by
  simp only [takeRows, RPoly.mapRows, ← List.map_take, take_zip']

theorem takeRows_hom (k : ℕ) : OpsHom (takeRows k) :=
  ⟨takeRows_zipRows _ k, takeRows_zipRows _ k, takeRows_mapRows _ k, takeRows_zipRows _ k⟩

theorem takeRows_wf {qs ps : List ℕ} {n : ℕ} {p : RPoly} (h : WFq (qs ++ ps) n p) :
    WFq qs n (takeRows qs.length p) := by
  obtain ⟨h1, h2, h3⟩ := h
  refine ⟨by simp [takeRows, h1], by simp [takeRows, h1, h2], fun i hi => ?_⟩
  have hi' : i < qs.length := by simpa [takeRows, h1] using hi
  have hi'' : i < p.qs.length := by rw [h1, List.length_append]; omega
  have := h3 i hi''
  have e1 : (takeRows qs.length p).qs[i] = p.qs[i] := by simp [takeRows]
  have e2 : (takeRows qs.length p).c.getD i [] = p.c.getD i [] := by
    simp [takeRows, List.getD_eq_getElem?_getD, hi']
  rw [e1, e2]; exact this

theorem takeRows_mont (k : ℕ) : MontHom (takeRows k) rpMont rpMont :=
  ⟨fun x => takeRows_mapRows _ k x, fun x => takeRows_mapRows _ k x⟩

section projQ
variable {qs ps : List ℕ} {n : ℕ} [Good qs n] [Good (qs ++ ps) n]

/-- the reduction modulo `Q` of an element of `R_{QP}` -/
def projQfun (x : WFPoly (qs ++ ps) n) : WFPoly qs n := lift (takeRows qs.length (val x)) (takeRows_wf (val_wf x))

theorem val_projQfun (x : WFPoly (qs ++ ps) n) : val (projQfun (qs := qs) x) = takeRows qs.length (val x) := rfl

/-- **`R_{QP} → R_Q` is a ring homomorphism** -/
noncomputable def projQ : WFPoly (qs ++ ps) n →+* WFPoly qs n where
  toFun := projQfun
  map_one' := val_injective (by
    show takeRows qs.length (val (1 : WFPoly (qs ++ ps) n)) = val (1 : WFPoly qs n)
    show takeRows qs.length { qs := qs ++ ps, c := (qs ++ ps).map fun _ => oneRow n } = { qs := qs, c := qs.map fun _ => oneRow n }
    simp [takeRows])
  map_mul' a b := val_injective ((takeRows_hom qs.length).mul (val a) (val b))
  map_zero' := val_injective (by
    show takeRows qs.length { qs := qs ++ ps, c := (qs ++ ps).map fun _ => zeroRow n } = { qs := qs, c := qs.map fun _ => zeroRow n }
    simp [takeRows])
  map_add' a b := val_injective ((takeRows_hom qs.length).add (val a) (val b))

theorem val_projQ (x : WFPoly (qs ++ ps) n) : val (projQ (qs := qs) x) = takeRows qs.length (val x) := rfl

end projQ

/-- residues of an integer coefficient vector of length `n` (the driver's secrets and errors) -/
theorem ofInts_wf {qs : List ℕ} {n : ℕ} [hg : Good qs n] (v : List ℤ) (hv : v.length = n) :
    WFq qs n (RPoly.ofInts qs v) := by
  refine ⟨rfl, by simp [RPoly.ofInts], fun i hi => ?_⟩
  have hi' : i < qs.length := hi
  have e : (RPoly.ofInts qs v).c.getD i [] = v.map fun (x : ℤ) => (x % (qs[i] : ℤ)).toNat := by
    simp [RPoly.ofInts, List.getD_eq_getElem?_getD, hi']
  rw [e]
  show RowWF qs[i] n _
  have hq : 2 ≤ qs[i] := hg.q_ge _ (List.getElem_mem hi')
  refine ⟨by simp [hv], fun x hx => ?_⟩
  obtain ⟨y, _, rfl⟩ := List.mem_map.1 hx
  have h1 : 0 ≤ y % (qs[i] : ℤ) := Int.emod_nonneg _ (by omega)
  have h2 : y % (qs[i] : ℤ) < qs[i] := Int.emod_lt_of_pos _ (by omega)
  omega

/-! ## aggregation trees (C14, C16) -/

section trees
open Lattigo.MP

theorem eval_congr {β : Type} (op : β → β → β) (t : AggTree) (f g : Nat → β)
    (h : ∀ i ∈ t.leaves, f i = g i) : t.eval op f = t.eval op g := by
  induction t with
  | leaf i => exact h i (by simp [AggTree.leaves])
  | node l r ihl ihr =>
    simp only [AggTree.eval]
    rw [ihl (fun i hi => h i (by simp [AggTree.leaves, hi])), ihr (fun i hi => h i (by simp [AggTree.leaves, hi]))]

/-- a map that turns `op` into `op'` commutes with the evaluation of a tree -/
theorem eval_push {β γ : Type} (φ : β → γ) (op : β → β → β) (op' : γ → γ → γ)
    (h : ∀ x y, φ (op x y) = op' (φ x) (φ y)) (t : AggTree) (f : Nat → β) :
    φ (t.eval op f) = t.eval op' (fun i => φ (f i)) := by
  induction t with
  | leaf i => rfl
  | node l r ihl ihr => simp only [AggTree.eval, h, ihl, ihr]

/-- a property preserved by `op` holds for the evaluation of a tree -/
theorem eval_induction {β : Type} (p : β → Prop) (op : β → β → β) (hop : ∀ x y, p x → p y → p (op x y))
    (t : AggTree) (f : Nat → β) (h : ∀ i ∈ t.leaves, p (f i)) : p (t.eval op f) := by
  induction t with
  | leaf i => exact h i (by simp [AggTree.leaves])
  | node l r ihl ihr =>
    exact hop _ _ (ihl (fun i hi => h i (by simp [AggTree.leaves, hi])))
      (ihr (fun i hi => h i (by simp [AggTree.leaves, hi])))

variable {qs : List ℕ} {n : ℕ} [Good qs n]

/-- the parties' values (indexed by the leaves of `t`) as ring elements; indices that are not leaves are
irrelevant (`eval_congr`) -/
theorem exists_lift_leaves (t : AggTree) (f : Nat → RPoly) (h : ∀ i ∈ t.leaves, WFq qs n (f i)) :
    ∃ f' : Nat → WFPoly qs n, ∀ i ∈ t.leaves, val (f' i) = f i :=
  ⟨fun i => if hi : WFq qs n (f i) then lift (f i) hi else 0, fun i hi => by simp [h i hi]⟩

theorem exists_lift_leaves_pair (t : AggTree) (f : Nat → RPoly × RPoly)
    (h : ∀ i ∈ t.leaves, WFq qs n (f i).1 ∧ WFq qs n (f i).2) :
    ∃ f' : Nat → WFPoly qs n × WFPoly qs n, ∀ i ∈ t.leaves, Prod.map val val (f' i) = f i :=
  ⟨fun i => if hi : WFq qs n (f i).1 ∧ WFq qs n (f i).2 then (lift (f i).1 hi.1, lift (f i).2 hi.2) else (0, 0),
   fun i hi => by simp [h i hi]⟩

theorem exists_lift_leaves_mat (t : AggTree) (f : Nat → List (List RPoly))
    (h : ∀ i ∈ t.leaves, ∀ r ∈ f i, ∀ p ∈ r, WFq qs n p) :
    ∃ f' : Nat → List (List (WFPoly qs n)), ∀ i ∈ t.leaves, (f' i).map (List.map val) = f i := by
  classical
  refine ⟨fun i => if hi : ∀ r ∈ f i, ∀ p ∈ r, WFq qs n p then (exists_lift_mat (f i) hi).choose else [],
    fun i hi => ?_⟩
  show List.map (List.map val) (if hi : ∀ r ∈ f i, ∀ p ∈ r, WFq qs n p then _ else []) = f i
  rw [dif_pos (h i hi)]
  exact (exists_lift_mat (f i) (h i hi)).choose_spec

/-- the sum along a tree of well-formed values is the value of the sum in the ring -/
theorem eval_add_val (t : AggTree) (f : Nat → WFPoly qs n) :
    t.eval (· + ·) (fun i => val (f i)) = val (t.eval (· + ·) f) :=
  (eval_push val (· + ·) (· + ·) (fun _ _ => rfl) t f).symm

theorem eval_add_wf (t : AggTree) (f : Nat → RPoly) (h : ∀ i ∈ t.leaves, WFq qs n (f i)) :
    WFq qs n (t.eval (· + ·) f) :=
  eval_induction (WFq qs n) (· + ·) (fun _ _ hx hy => hx.add hy) t f h

end trees

end Lattigo.Transport
