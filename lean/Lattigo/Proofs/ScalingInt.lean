/-
  Scaling (ring/scaling.go), INTEGER LEVEL: the per-modulus formula of `Div{Floor,Round}ByLastModulus`
  computes the residues of `⌊x/q_ℓ⌋` (resp. of round-half-up `⌊x/q_ℓ + 1/2⌋`), the `Many` variants
  divide by the product of the dropped moduli (last modulus first).
-/
import Lattigo.Proofs.ScalingArith

namespace Lattigo.Scaling
open Lattigo

/-! ## one residue -/

/-- `(x_i − x_ℓ)·q_ℓ^{-1} mod q_i` is the residue of `⌊x/q_ℓ⌋`  (`x − x mod q_ℓ = q_ℓ·⌊x/q_ℓ⌋`).
    (`hqi` is implied by `hc`; kept for the caller's convenience.) -/
theorem divFloorRes_spec (qi ql c x : Nat) (hqi : 0 < qi) (hc : (ql * c) % qi = 1) :
    divFloorRes qi c (x % qi) (x % ql) = (x / ql) % qi := by
  unfold divFloorRes
  have hlt : x % ql % qi < qi := Nat.mod_lt _ hqi
  -- A + r ≡ x = ql·d + r
  have h1 : (x % qi + qi - x % ql % qi) + x % ql ≡ ql * (x / ql) + x % ql [MOD qi] := by
    rw [Nat.div_add_mod]
    have e : (x % qi + qi - x % ql % qi) + x % ql
        = x % qi + (qi * (x % ql / qi + 1)) := by
      have := Nat.div_add_mod (x % ql) qi
      rw [Nat.mul_add, Nat.mul_one]
      generalize qi * (x % ql / qi) = P at *
      omega
    rw [e]
    unfold Nat.ModEq
    rw [Nat.add_mul_mod_self_left, Nat.mod_mod]
  have h2 : x % qi + qi - x % ql % qi ≡ ql * (x / ql) [MOD qi] := Nat.ModEq.add_right_cancel' _ h1
  have h3 : (x % qi + qi - x % ql % qi) * c ≡ ql * (x / ql) * c [MOD qi] := h2.mul_right c
  have h4 : ql * (x / ql) * c = (ql * c) * (x / ql) := by ring
  have h5 : (ql * c) * (x / ql) ≡ 1 * (x / ql) [MOD qi] := by
    have hq1 : 1 % qi = 1 := by
      rcases Nat.lt_or_ge 1 qi with h | h
      · exact Nat.mod_eq_of_lt h
      · have : qi = 1 := by omega
        subst this; simp [Nat.mod_one] at hc
    have : ql * c ≡ 1 [MOD qi] := by unfold Nat.ModEq; rw [hc, hq1]
    exact this.mul_right _
  rw [h4] at h3
  have := h3.trans h5
  rw [Nat.one_mul] at this
  exact this

-- test (non-vacuity): q_i = 97, q_ℓ = 257, c = 257^{-1} mod 97
example : (257 * invMod 257 97) % 97 = 1 ∧
    divFloorRes 97 (invMod 257 97) (1000000 % 97) (1000000 % 257) = (1000000 / 257) % 97 := by decide

/-! ## one division -/

theorem divFloorInt_spec (qs : List Nat) (ql x : Nat) (hp : ∀ q ∈ qs, Nat.Prime q ∧ q < 2 ^ 64)
    (hnd : ∀ q ∈ qs, ¬ q ∣ ql) :
    divFloorInt qs ql (residues qs x) (x % ql) = residues qs (x / ql) := by
  unfold divFloorInt residues
  rw [List.zipWith_map_right, List.zipWith_self]
  apply List.map_congr_left
  intro q hq
  exact divFloorRes_spec q ql _ x (hp q hq).1.pos (invMod_spec ql q (hp q hq).1 (hp q hq).2 (hnd q hq))

-- test (non-vacuity)
example : divFloorInt [97, 193] 257 (residues [97, 193] 1000000) (1000000 % 257)
    = residues [97, 193] (1000000 / 257) :=
  divFloorInt_spec [97, 193] 257 1000000
    (by intro q hq; simp at hq; rcases hq with rfl | rfl <;> norm_num)
    (by intro q hq; simp at hq; rcases hq with rfl | rfl <;> norm_num)
example : divFloorInt [97, 193] 257 (residues [97, 193] 1000000) (1000000 % 257) = [11, 31] := by
  decide

theorem residues_add (qs : List Nat) (x h : Nat) :
    List.zipWith (fun qi xi => (xi + h % qi) % qi) qs (residues qs x) = residues qs (x + h) := by
  unfold residues
  rw [List.zipWith_map_right, List.zipWith_self]
  apply List.map_congr_left
  intro q _
  exact (Nat.add_mod x h q).symm

theorem divRoundInt_spec (qs : List Nat) (ql x : Nat) (hp : ∀ q ∈ qs, Nat.Prime q ∧ q < 2 ^ 64)
    (hnd : ∀ q ∈ qs, ¬ q ∣ ql) (hql : 0 < ql) :
    divRoundInt qs ql (residues qs x) (x % ql) = residues qs ((x + half ql) / ql) := by
  have _ := hql  -- not needed by the proof (`Nat.mod_add_mod` holds for modulus 0 too)
  unfold divRoundInt
  rw [residues_add, Nat.mod_add_mod]
  exact divFloorInt_spec qs ql (x + half ql) hp hnd

-- test (non-vacuity): 1000000/257 = 3891.05…, 1000100/257 = 3891.4…, 1000200/257 = 3891.8… ↦ 3892
example : divRoundInt [97, 193] 257 (residues [97, 193] 1000200) (1000200 % 257)
    = residues [97, 193] ((1000200 + half 257) / 257) :=
  divRoundInt_spec [97, 193] 257 1000200
    (by intro q hq; simp at hq; rcases hq with rfl | rfl <;> norm_num)
    (by intro q hq; simp at hq; rcases hq with rfl | rfl <;> norm_num) (by norm_num)
example : divRoundInt [97, 193] 257 (residues [97, 193] 1000200) (1000200 % 257)
    = residues [97, 193] 3892 := by decide

/-- for an odd modulus the code's quotient is round-half-up `⌊x/q + 1/2⌋ = ⌊(2x+q)/(2q)⌋` -/
theorem half_round (q x : Nat) (hodd : q % 2 = 1) : (x + half q) / q = (2 * x + q) / (2 * q) := by
  unfold half
  rw [← Nat.div_div_eq_div_mul]
  congr 1
  omega

-- test (non-vacuity)
example : (1000200 + half 257) / 257 = (2 * 1000200 + 257) / (2 * 257) := half_round 257 _ (by decide)

/-! ## CRT form -/

theorem residues_mod_prodN (qs : List Nat) (z : Nat) :
    residues qs (z % prodN qs) = residues qs z := by
  unfold residues
  apply List.map_congr_left
  intro q hq
  exact Nat.mod_mod_of_dvd _ (dvd_prodN_of_mem qs q hq)

theorem divFloor_crt (qs : List Nat) (ql x y : Nat) (hp : ∀ q ∈ qs, Nat.Prime q ∧ q < 2 ^ 64)
    (hnd : ∀ q ∈ qs, ¬ q ∣ ql) (hd : qs.Nodup) (hx : x < prodN qs * ql) (hy : y < prodN qs)
    (h : residues qs y = divFloorInt qs ql (residues qs x) (x % ql)) : y = x / ql := by
  rw [divFloorInt_spec qs ql x hp hnd] at h
  have hc := pairwise_coprime_of_primes qs (fun q hq => (hp q hq).1) hd
  refine residues_inj qs hc y (x / ql) hy ?_ h
  apply Nat.div_lt_of_lt_mul
  rwa [Nat.mul_comm]

theorem divRound_crt (qs : List Nat) (ql x y : Nat) (hp : ∀ q ∈ qs, Nat.Prime q ∧ q < 2 ^ 64)
    (hnd : ∀ q ∈ qs, ¬ q ∣ ql) (hql : 0 < ql) (hd : qs.Nodup) (hy : y < prodN qs)
    (h : residues qs y = divRoundInt qs ql (residues qs x) (x % ql)) :
    y = ((x + half ql) / ql) % prodN qs := by
  rw [divRoundInt_spec qs ql x hp hnd hql, ← residues_mod_prodN qs ((x + half ql) / ql)] at h
  have hc := pairwise_coprime_of_primes qs (fun q hq => (hp q hq).1) hd
  have hpos : 0 < prodN qs := prodN_pos qs fun q hq => (hp q hq).1.pos
  exact residues_inj qs hc y _ hy (Nat.mod_lt _ hpos) h

-- test (non-vacuity): x = 1000000 < 97·193·257, y = 3891 < 97·193
example : (3891 : Nat) = 1000000 / 257 :=
  divFloor_crt [97, 193] 257 1000000 3891
    (by intro q hq; simp at hq; rcases hq with rfl | rfl <;> norm_num)
    (by intro q hq; simp at hq; rcases hq with rfl | rfl <;> norm_num)
    (by decide) (by decide) (by decide) (by decide)
-- test: the rounded quotient CAN reach prodN qs and wrap to 0 (x = 97·193·257 − 1)
example : ((97 * 193 * 257 - 1 + half 257) / 257) = prodN [97, 193] ∧
    (0 : Nat) = ((97 * 193 * 257 - 1 + half 257) / 257) % prodN [97, 193] ∧
    residues [97, 193] 0 = divRoundInt [97, 193] 257 (residues [97, 193] (97 * 193 * 257 - 1))
      ((97 * 193 * 257 - 1) % 257) := by decide
example : (0 : Nat) = ((97 * 193 * 257 - 1 + half 257) / 257) % prodN [97, 193] :=
  divRound_crt [97, 193] 257 (97 * 193 * 257 - 1) 0
    (by intro q hq; simp at hq; rcases hq with rfl | rfl <;> norm_num)
    (by intro q hq; simp at hq; rcases hq with rfl | rfl <;> norm_num)
    (by norm_num) (by decide) (by decide) (by decide)

/-! ## several divisions: the LAST modulus is divided first -/

theorem residues_append (a b : List Nat) (x : Nat) :
    residues (a ++ b) x = residues a x ++ residues b x := by simp [residues]

theorem nodup_concat (l : List Nat) (b : Nat) (h : (l ++ [b]).Nodup) :
    l.Nodup ∧ ∀ q ∈ l, q ≠ b := by
  rw [List.nodup_append] at h
  simp at h
  exact h

/-- hypotheses of one step, extracted from "all moduli of the chain are distinct primes" -/
theorem chain_step (qs : List Nat) (b : Nat) (hp : ∀ q ∈ qs ++ [b], Nat.Prime q ∧ q < 2 ^ 64)
    (hnd : (qs ++ [b]).Nodup) :
    (∀ q ∈ qs, Nat.Prime q ∧ q < 2 ^ 64) ∧ (∀ q ∈ qs, ¬ q ∣ b) ∧ qs.Nodup ∧ Nat.Prime b := by
  have hb : Nat.Prime b := (hp b (by simp)).1
  have hq : ∀ q ∈ qs, Nat.Prime q ∧ q < 2 ^ 64 := fun q h => hp q (by simp [h])
  obtain ⟨h1, h2⟩ := nodup_concat qs b hnd
  exact ⟨hq, fun q h hdvd => h2 q h ((Nat.prime_dvd_prime_iff_eq (hq q h).1 hb).1 hdvd), h1, hb⟩

theorem stepFloorInt_concat (qs : List Nat) (b x : Nat)
    (hp : ∀ q ∈ qs ++ [b], Nat.Prime q ∧ q < 2 ^ 64) (hnd : (qs ++ [b]).Nodup) :
    stepFloorInt (qs ++ [b]) (residues (qs ++ [b]) x) = residues qs (x / b) := by
  obtain ⟨h1, h2, _, _⟩ := chain_step qs b hp hnd
  unfold stepFloorInt
  rw [residues_append]
  simp only [residues, List.map_cons, List.map_nil, List.dropLast_concat, List.getLastD_concat]
  exact divFloorInt_spec qs b x h1 h2

theorem stepRoundInt_concat (qs : List Nat) (b x : Nat)
    (hp : ∀ q ∈ qs ++ [b], Nat.Prime q ∧ q < 2 ^ 64) (hnd : (qs ++ [b]).Nodup) :
    stepRoundInt (qs ++ [b]) (residues (qs ++ [b]) x) = residues qs ((x + half b) / b) := by
  obtain ⟨h1, h2, _, hb⟩ := chain_step qs b hp hnd
  unfold stepRoundInt
  rw [residues_append]
  simp only [residues, List.map_cons, List.map_nil, List.dropLast_concat, List.getLastD_concat]
  exact divRoundInt_spec qs b x h1 h2 hb.pos

/-- `DivFloorByLastModulusMany` on the chain `front ++ back`: the residues modulo `front` of
    `⌊x / Π back⌋`  (`⌊⌊x/a⌋/b⌋ = ⌊x/(ab)⌋`). -/
theorem manyFloorInt_spec (front back : List Nat) (x : Nat)
    (hp : ∀ q ∈ front ++ back, Nat.Prime q ∧ q < 2 ^ 64) (hnd : (front ++ back).Nodup) :
    manyFloorInt back.length (front ++ back) (residues (front ++ back) x)
      = residues front (x / prodN back) := by
  induction back using List.reverseRecOn generalizing x with
  | nil => simp [manyFloorInt, prodN]
  | append_singleton bs b ih =>
    rw [← List.append_assoc] at hp hnd
    obtain ⟨h1, _, h3, _⟩ := chain_step (front ++ bs) b hp hnd
    rw [List.length_append, List.length_singleton, ← List.append_assoc, manyFloorInt,
      List.dropLast_concat, stepFloorInt_concat _ b x hp hnd, ih (x / b) h1 h3,
      Nat.div_div_eq_div_mul, prodN_append]
    simp [prodN, Nat.mul_comm]

-- test (non-vacuity): chain [97,193 | 257,769], x / (257·769)
example : manyFloorInt 2 [97, 193, 257, 769] (residues [97, 193, 257, 769] 3000000000)
    = residues [97, 193] (3000000000 / prodN [257, 769]) :=
  manyFloorInt_spec [97, 193] [257, 769] 3000000000
    (by intro q hq; simp at hq; rcases hq with rfl | rfl | rfl | rfl <;> norm_num) (by decide)
example : manyFloorInt 2 [97, 193, 257, 769] (residues [97, 193, 257, 769] 3000000000)
    = residues [97, 193] 15179 := by decide

/-! ## sequential rounding -/

theorem half_mul (a b : Nat) (ha : 0 < a) (hb : b % 2 = 1) :
    half (a * b) = half a + a * half b := by
  unfold half
  obtain ⟨k, rfl⟩ : ∃ k, b = 2 * k + 1 := ⟨b / 2, by omega⟩
  have e1 : a * (2 * k + 1) = 2 * (a * k) + a := by ring
  have e2 : (2 * k + 1 - 1) / 2 = k := by omega
  rw [e1, e2]
  generalize a * k = P
  omega

/-- sequential round-half-up by `a` then by an ODD `b` is round-half-up by `a·b`
    (only the SECOND divisor has to be odd). -/
theorem round_round (a b x : Nat) (hb : b % 2 = 1) :
    ((x + half a) / a + half b) / b = (x + half (a * b)) / (a * b) := by
  rcases Nat.eq_zero_or_pos a with rfl | ha
  · have : half b / b = 0 := Nat.div_eq_of_lt (by unfold half; omega)
    simp [this]
  · rw [half_mul a b ha hb, ← Nat.div_div_eq_div_mul, ← Nat.add_assoc, Nat.add_mul_div_left _ _ ha]

/-- for ODD moduli sequential round-half-up IS rounding by the product:
    `(a−1)/2 + a(b−1)/2 = (ab−1)/2`. -/
theorem round_round_odd (a b x : Nat) (ha : a % 2 = 1) (hb : b % 2 = 1) :
    ((x + half a) / a + half b) / b = (x + half (a * b)) / (a * b) := by
  have _ := ha
  exact round_round a b x hb

-- test (non-vacuity)
example : ((1000 + half 7) / 7 + half 5) / 5 = (1000 + half (7 * 5)) / (7 * 5) :=
  round_round_odd 7 5 1000 (by decide) (by decide)

theorem prodN_odd (qs : List Nat) (h : ∀ q ∈ qs, q % 2 = 1) : prodN qs % 2 = 1 := by
  induction qs with
  | nil => simp [prodN]
  | cons q qs ih =>
    simp only [prodN]
    rw [Nat.mul_mod, h q (by simp), ih fun q' hq' => h q' (by simp [hq'])]

/-- `DivRoundByLastModulusMany` on the chain `front ++ back`, all dropped moduli odd: the residues
    modulo `front` of round-half-up `⌊x / Π back + 1/2⌋`. -/
theorem manyRoundInt_spec (front back : List Nat) (x : Nat)
    (hp : ∀ q ∈ front ++ back, Nat.Prime q ∧ q < 2 ^ 64) (hnd : (front ++ back).Nodup)
    (hodd : ∀ q ∈ back, q % 2 = 1) :
    manyRoundInt back.length (front ++ back) (residues (front ++ back) x)
      = residues front ((x + half (prodN back)) / prodN back) := by
  induction back using List.reverseRecOn generalizing x with
  | nil => simp [manyRoundInt, prodN, half]
  | append_singleton bs b ih =>
    rw [← List.append_assoc] at hp hnd
    obtain ⟨h1, _, h3, _⟩ := chain_step (front ++ bs) b hp hnd
    have hbs : ∀ q ∈ bs, q % 2 = 1 := fun q hq => hodd q (by simp [hq])
    rw [List.length_append, List.length_singleton, ← List.append_assoc, manyRoundInt,
      List.dropLast_concat, stepRoundInt_concat _ b x hp hnd, ih ((x + half b) / b) h1 h3 hbs,
      round_round b (prodN bs) x (prodN_odd bs hbs), prodN_append]
    simp [prodN, Nat.mul_comm]

-- test (non-vacuity): chain [97,193 | 257,769]; 3000100000/(257·769) = 15180.3…, and
-- 3000000000/(257·769) = 15179.8… ↦ 15180
example : manyRoundInt 2 [97, 193, 257, 769] (residues [97, 193, 257, 769] 3000000000)
    = residues [97, 193] ((3000000000 + half (prodN [257, 769])) / prodN [257, 769]) :=
  manyRoundInt_spec [97, 193] [257, 769] 3000000000
    (by intro q hq; simp at hq; rcases hq with rfl | rfl | rfl | rfl <;> norm_num) (by decide)
    (by decide)
example : manyRoundInt 2 [97, 193, 257, 769] (residues [97, 193, 257, 769] 3000000000)
    = residues [97, 193] 15180 := by decide

/-- for general (even) divisors sequential round-half-up is NOT rounding by the product:
    1/2 ↦ 1, 1/2 ↦ 1, but 1/4 ↦ 0. -/
example : let rhu := fun (x q : Nat) => (2 * x + q) / (2 * q)
    rhu (rhu 1 2) 2 = 1 ∧ rhu 1 4 = 0 := by decide
/-- the same with the code's `half`: `(x + (q−1)/2)/q` for q = 2 is plain floor, and the sequential
    result differs from the product one already for a = 3, b = 2 (second divisor even). -/
example : ((4 + half 3) / 3 + half 2) / 2 ≠ (4 + half (3 * 2)) / (3 * 2) := by decide

end Lattigo.Scaling

#print axioms Lattigo.Scaling.divFloorRes_spec
#print axioms Lattigo.Scaling.divFloorInt_spec
#print axioms Lattigo.Scaling.divRoundInt_spec
#print axioms Lattigo.Scaling.half_round
#print axioms Lattigo.Scaling.divFloor_crt
#print axioms Lattigo.Scaling.divRound_crt
#print axioms Lattigo.Scaling.manyFloorInt_spec
#print axioms Lattigo.Scaling.half_mul
#print axioms Lattigo.Scaling.round_round
#print axioms Lattigo.Scaling.round_round_odd
#print axioms Lattigo.Scaling.manyRoundInt_spec
