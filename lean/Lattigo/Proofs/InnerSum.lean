/-
  C11 proofs, part 6: `PartialTracesSum` / `InnerFunction` compute `Σ_{r<n} rot(r·offset) v`.

  The proof follows the code's binary reading of `n` (the `log n + HW(n)` tree):
  at the start of turn `i`
    * `ctInNTT = Σ_{r < 2^i} rot(r·off) v`                         (doubling chain)
    * `acc     = Σ_{r ∈ [n - n mod 2^i, n)} rot(r·off) v`           (one block per set low bit)
  and at the top bit the two are added.
-/
import Lattigo.Proofs.InnerSumBasic

namespace Lattigo.Proofs.InnerSum
open Lattigo Lattigo.Model.Galois Lattigo.Model.InnerSum Lattigo.Proofs.Galois
open Finset

variable {α : Type} [AddCommMonoid α]

theorem wrapInt_of_small (x : Int) (h1 : -9223372036854775808 ≤ x) (h2 : x < 9223372036854775808) :
    wrapInt x = x := by
  unfold wrapInt; omega

variable (S : Ops α) (m : Nat) (n : Nat) (off : Int) (v : α)

/-- loop invariant at the start of turn `i` -/
structure Inv (i : Nat) (st : PState α) : Prop where
  state : st.state = false
  ct : st.ct = ∑ r ∈ range (2 ^ i), term S (2 ^ m) off v r
  acc : (st.copy = true ∧ n % 2 ^ i = 0) ∨
        (st.copy = false ∧ st.acc = ∑ r ∈ Ico (n - n % 2 ^ i) n, term S (2 ^ m) off v r)

variable {S m n off v}

theorem aut_wrap_block (hS : Lawful S (2 ^ m)) (hm1 : 1 ≤ m) (hm : m ≤ 64) (a c : ℕ) :
    S.aut (galEl (2 ^ m) (wrapInt ((a : Int) * off))) (∑ r ∈ range c, term S (2 ^ m) off v r)
      = ∑ r ∈ Ico a (a + c), term S (2 ^ m) off v r := by
  have := rot_block hS hm1 hm off v a c
  unfold rot at this
  rw [galEl_wrapInt]; exact this

/-- a turn below the top bit keeps the invariant -/
theorem step_mid (hS : Lawful S (2 ^ m)) (hm1 : 1 ≤ m) (hm : m ≤ 64)
    (lazy : Bool) (i : Nat) (st : PState α) (hinv : Inv S m n off v i st) (hj : 2 ≤ n / 2 ^ i) :
    Inv S m n off v (i + 1) (ptsStep S S.add lazy (2 ^ m) n off i (n / 2 ^ i) st) := by
  obtain ⟨hstate, hct, hacc⟩ := hinv
  have hpi : 0 < 2 ^ i := by positivity
  have hn2 : 2 ^ (i + 1) ≤ n := by
    rw [pow_succ]
    calc 2 ^ i * 2 ≤ 2 ^ i * (n / 2 ^ i) := Nat.mul_le_mul_left _ hj
      _ ≤ n := Nat.mul_div_le n (2 ^ i)
  have hmodlt : n % 2 ^ (i + 1) < 2 ^ (i + 1) := Nat.mod_lt _ (by positivity)
  have hdouble : S.add st.ct (S.aut (galEl (2 ^ m) (wrapInt (((1 <<< i : Nat) : Int) * off))) st.ct)
      = ∑ r ∈ range (2 ^ (i + 1)), term S (2 ^ m) off v r := by
    rw [hS.add_eq, hct, shl_one, aut_wrap_block hS hm1 hm, Finset.sum_range_add_sum_Ico _ (by omega),
      pow_succ, Nat.mul_two]
  unfold ptsStep
  by_cases hodd : n / 2 ^ i % 2 = 1
  · -- bit i is set: a block goes to the accumulator
    have hmod := mod_succ_odd n i hodd
    have hk0 : 0 < n - n % 2 ^ (i + 1) := by omega
    have hk : n - n % 2 ^ (i + 1) ≠ 0 := by omega
    simp only [hodd, if_true, and_mask, ne_eq, hk, not_false_eq_true]
    have hblock : S.aut (galEl (2 ^ m) (wrapInt (((n - n % 2 ^ (i + 1) : Nat) : Int) * off))) st.ct
        = ∑ r ∈ Ico (n - n % 2 ^ (i + 1)) (n - n % 2 ^ i), term S (2 ^ m) off v r := by
      rw [hct, aut_wrap_block hS hm1 hm]
      congr 2; omega
    rcases hacc with ⟨hcopy, hzero⟩ | ⟨hcopy, haccv⟩
    · simp only [hcopy, if_true, hstate, Bool.not_false]
      refine ⟨rfl, hdouble, Or.inr ⟨rfl, ?_⟩⟩
      show S.aut _ st.ct = _
      rw [hblock, hzero, Nat.sub_zero]
    · simp only [hcopy, Bool.false_eq_true, if_false, hstate, Bool.not_false, if_true]
      refine ⟨rfl, hdouble, Or.inr ⟨rfl, ?_⟩⟩
      show S.add st.acc (S.aut _ st.ct) = _
      rw [hblock, hS.add_eq, haccv, add_comm]
      exact Finset.sum_Ico_consecutive _ (by omega) (by omega)
  · -- bit i is clear
    have heven : n / 2 ^ i % 2 = 0 := by omega
    have hmod := mod_succ_even n i heven
    simp only [hodd, if_false, hstate, Bool.not_false, if_true]
    refine ⟨rfl, hdouble, ?_⟩
    rw [hmod]; exact hacc

/-- the turn of the top bit produces the full sum -/
theorem step_top (hS : Lawful S (2 ^ m)) (lazy : Bool) (i : Nat) (st : PState α)
    (hinv : Inv S m n off v i st) (hj : n / 2 ^ i = 1) :
    (ptsStep S S.add lazy (2 ^ m) n off i 1 st).out = ∑ r ∈ range n, term S (2 ^ m) off v r := by
  obtain ⟨hstate, hct, hacc⟩ := hinv
  have hpi : 0 < 2 ^ i := by positivity
  have h1 : 2 ^ i ≤ n := by
    have := Nat.mul_div_le n (2 ^ i); rw [hj] at this; omega
  have h2 : n < 2 ^ (i + 1) := by
    have := Nat.lt_mul_div_succ n hpi
    rw [hj] at this; rw [pow_succ]; omega
  have hmod : n % 2 ^ (i + 1) = n := Nat.mod_eq_of_lt h2
  have hk : n - n % 2 ^ (i + 1) = 0 := by
    rw [hmod]; simp
  have hsub : n - n % 2 ^ i = 2 ^ i := by
    have := Nat.div_add_mod n (2 ^ i); rw [hj] at this; omega
  unfold ptsStep
  simp only [show (1 % 2 = 1) by norm_num, if_true, and_mask, ne_eq, hk, not_true_eq_false, if_false]
  by_cases hp : n &&& (n - 1) = 0
  · have hn : n = 2 ^ i := (and_pred_eq_zero_iff n i h1 h2).mp hp
    simp only [hp, not_true_eq_false, if_false, Bool.not_true, Bool.false_eq_true]
    show st.ct = _
    rw [hct, hn]
  · have hn : n ≠ 2 ^ i := fun h => hp ((and_pred_eq_zero_iff n i h1 h2).mpr h)
    simp only [hp, not_false_eq_true, if_true, Bool.not_true, Bool.false_eq_true, if_false]
    show S.add st.acc st.ct = _
    rcases hacc with ⟨_, hzero⟩ | ⟨_, haccv⟩
    · exfalso; omega
    · rw [hS.add_eq, haccv, hct, hsub, add_comm]
      exact Finset.sum_range_add_sum_Ico _ h1

omit [AddCommMonoid α] in
theorem ptsLoop_zero_j (f : α → α → α) (lazy : Bool) (N : Nat) (fuel i : Nat) (st : PState α) :
    ptsLoop S f lazy N n off fuel i 0 st = st := by
  cases fuel <;> simp [ptsLoop]

/-- the loop started from a state satisfying the invariant returns the full sum -/
theorem ptsLoop_spec (hS : Lawful S (2 ^ m)) (hm1 : 1 ≤ m) (hm : m ≤ 64)
    (lazy : Bool) : ∀ (fuel i : Nat) (st : PState α), Inv S m n off v i st →
      0 < n / 2 ^ i → n / 2 ^ i < 2 ^ fuel →
      (ptsLoop S S.add lazy (2 ^ m) n off fuel i (n / 2 ^ i) st).out
        = ∑ r ∈ range n, term S (2 ^ m) off v r := by
  intro fuel
  induction fuel with
  | zero => intro i st _ h0 h1; omega
  | succ f ih =>
    intro i st hinv h0 h1
    unfold ptsLoop
    rw [if_neg (by omega), shr_one]
    by_cases hj : n / 2 ^ i = 1
    · rw [hj, show 1 / 2 = 0 by norm_num, ptsLoop_zero_j]
      exact step_top hS lazy i st hinv hj
    · have hdd : n / 2 ^ i / 2 = n / 2 ^ (i + 1) := by
        rw [Nat.div_div_eq_div_mul, pow_succ]
      rw [hdd]
      apply ih (i + 1) _ (step_mid hS hm1 hm lazy i st hinv (by omega))
      · rw [← hdd]; omega
      · rw [← hdd]; rw [pow_succ] at h1; omega

/-- the initial state satisfies the invariant -/
theorem inv_init (hS : Lawful S (2 ^ m)) (hm1 : 1 ≤ m) (hm : m ≤ 64) (out0 acc0 : α) :
    Inv S m n off v 0
      { ct := v, acc := acc0, out := out0, state := false, copy := true, reqs := [] } := by
  refine ⟨rfl, ?_, Or.inl ⟨rfl, by simp [Nat.mod_one]⟩⟩
  simp [term, rot_zero hS hm1 hm]

/-- **`innerSum_spec` (rlwe level).** For every `offset ≠ 0` and every count `n ≥ 1` (Go `int`s:
    `n < 2^63`), on parameters with an auxiliary modulus, `PartialTracesSum(ct, offset, n)` returns
    `Σ_{r<n} rot(r·offset) ct`, whatever the previous contents of the output and accumulator
    buffers and however the products `r·offset` wrap in `int` arithmetic. -/
theorem partialTracesSum_spec (hS : Lawful S (2 ^ m)) (hm1 : 1 ≤ m) (hm : m ≤ 64)
    (v out0 acc0 : α) (offset n : Int) (hn : 1 ≤ n) (hn63 : n < 9223372036854775808) (hoff : offset ≠ 0) :
    (partialTracesSum S (2 ^ m) true v out0 acc0 offset n).val?
      = some (∑ r ∈ range n.toNat, rot S (2 ^ m) ((r : Int) * offset) v) := by
  unfold partialTracesSum
  have h0 : ¬ (n ≤ 0 ∨ offset = 0) := by omega
  rw [if_neg h0, if_neg (by simp)]
  by_cases h1 : n = 1
  · subst h1
    simp [Res.val?, rot_zero hS hm1 hm]
  · rw [if_neg h1]
    simp only [Res.val?]
    have hpos : 0 < n.toNat := by omega
    have := ptsLoop_spec (n := n.toNat) (v := v) (off := offset) hS hm1 hm true 64 0 _ (inv_init hS hm1 hm out0 acc0)
      (by simpa using hpos) (by simp; omega)
    simp only [pow_zero, Nat.div_one] at this
    rw [this]; rfl

/-- `InnerFunction` with `f = Add` computes the same sum for every `batchSize` (zero included:
    then all rotations are the identity) and every `n ≥ 1`. -/
theorem innerFunction_add_spec (hS : Lawful S (2 ^ m)) (hm1 : 1 ≤ m) (hm : m ≤ 64)
    (v out0 acc0 : α) (batch n : Int) (hn : 1 ≤ n) (hn63 : n < 9223372036854775808) :
    (innerFunction S S.add (2 ^ m) v out0 acc0 batch n).val?
      = some (∑ r ∈ range n.toNat, rot S (2 ^ m) ((r : Int) * batch) v) := by
  unfold innerFunction
  rw [if_neg (by omega)]
  by_cases h1 : n = 1
  · subst h1
    simp [Res.val?, rot_zero hS hm1 hm]
  · rw [if_neg h1]
    simp only [Res.val?]
    have hpos : 0 < n.toNat := by omega
    have := ptsLoop_spec (n := n.toNat) (v := v) (off := batch) hS hm1 hm false 64 0 _ (inv_init hS hm1 hm out0 acc0)
      (by simpa using hpos) (by simp; omega)
    simp only [pow_zero, Nat.div_one] at this
    rw [this]; rfl

end Lattigo.Proofs.InnerSum
