/-
  C14 — aggregation is order- and grouping-independent.

  `AggTree.eval (· + ·) sh t` is the aggregate obtained by combining the shares `sh i` along the binary
  tree `t`.  In any commutative additive semigroup it only depends on the multiset of leaves.
  The proof goes through `WithZero β` (the free adjunction of a neutral element), where the value of a
  tree is the `List.sum` of its leaves.

  Then the same for the *validating* aggregation of the model (`evkAggregate`, `galAggregate`) on
  compatible degree-zero shares: every tree gives `ok` of the component-wise sum.
-/
import Mathlib.Algebra.Group.WithOne.Defs
import Mathlib.Algebra.BigOperators.Group.List.Basic
import Lattigo.Model.MPShare

namespace Lattigo.MP

section semigroup
variable {β : Type} [AddCommSemigroup β]

/-- the embedding into the monoid with a neutral element adjoined -/
def emb (y : β) : WithZero β := WithZero.coe y

theorem emb_add (a b : β) : emb (a + b) = emb a + emb b := WithZero.coe_add a b
omit [AddCommSemigroup β] in
theorem emb_inj {a b : β} (h : emb a = emb b) : a = b := WithZero.coe_inj.mp h

theorem AggTree.eval_coe (t : AggTree) (sh : Nat → β) :
    emb (t.eval (· + ·) sh) = (t.leaves.map fun i => emb (sh i)).sum := by
  induction t with
  | leaf i => simp [AggTree.eval, AggTree.leaves]
  | node l r ihl ihr =>
    simp only [AggTree.eval, AggTree.leaves, emb_add, ihl, ihr, List.map_append, List.sum_append]

/-- two trees over permuted leaves give the same aggregate -/
theorem AggTree.eval_perm (t₁ t₂ : AggTree) (sh : Nat → β) (h : t₁.leaves.Perm t₂.leaves) :
    t₁.eval (· + ·) sh = t₂.eval (· + ·) sh := by
  apply emb_inj
  rw [AggTree.eval_coe, AggTree.eval_coe]
  exact (h.map _).sum_eq

theorem foldl_coe (x : β) (xs : List β) :
    emb (xs.foldl (· + ·) x) = ((x :: xs).map emb).sum := by
  induction xs generalizing x with
  | nil => simp
  | cons y ys ih =>
    rw [List.foldl_cons, ih]
    simp [emb_add, add_assoc]

/-- the left fold over the shares in any order equals the left fold in any other order -/
theorem foldl_perm (x y : β) (xs ys : List β) (h : (x :: xs).Perm (y :: ys)) :
    xs.foldl (· + ·) x = ys.foldl (· + ·) y := by
  apply emb_inj
  rw [foldl_coe, foldl_coe]
  exact (h.map emb).sum_eq

/-- every tree equals the left fold over any enumeration of its leaves
    (the library's own tests use the left comb over `0 … n-1`) -/
theorem AggTree.eval_eq_foldl (t : AggTree) (sh : Nat → β) (i : Nat) (is : List Nat)
    (h : t.leaves.Perm (i :: is)) :
    t.eval (· + ·) sh = (is.map sh).foldl (· + ·) (sh i) := by
  apply emb_inj
  rw [AggTree.eval_coe, foldl_coe, (h.map fun i => emb (sh i)).sum_eq,
    List.map_cons, List.map_cons, List.map_map]
  rfl

end semigroup

/-! ### component-wise addition of share arrays is a commutative semigroup -/

section zip
variable {β : Type}

theorem zipWith_assoc' (f : β → β → β) (hf : ∀ a b c, f (f a b) c = f a (f b c)) :
    ∀ x y z : List β, List.zipWith f (List.zipWith f x y) z = List.zipWith f x (List.zipWith f y z)
  | [], _, _ => by simp
  | _ :: _, [], _ => by simp
  | _ :: _, _ :: _, [] => by simp
  | a :: x, b :: y, c :: z => by simp [hf, zipWith_assoc' f hf x y z]

theorem zipWith_comm' (f : β → β → β) (hf : ∀ a b, f a b = f b a) :
    ∀ x y : List β, List.zipWith f x y = List.zipWith f y x
  | [], y => by simp
  | _ :: _, [] => by simp
  | a :: x, b :: y => by simp [hf a b, zipWith_comm' f hf x y]

end zip

section cube
variable {α : Type} [AddCommSemigroup α]

theorem vecAdd_comm (x y : List α) : vecAdd x y = vecAdd y x :=
  zipWith_comm' _ (fun a b => add_comm a b) x y
theorem vecAdd_assoc (x y z : List α) : vecAdd (vecAdd x y) z = vecAdd x (vecAdd y z) :=
  zipWith_assoc' _ (fun a b c => add_assoc a b c) x y z
theorem matAdd_comm (x y : Mat α) : matAdd x y = matAdd y x :=
  zipWith_comm' _ vecAdd_comm x y
theorem matAdd_assoc (x y z : Mat α) : matAdd (matAdd x y) z = matAdd x (matAdd y z) :=
  zipWith_assoc' _ vecAdd_assoc x y z
theorem cubeAdd_comm (x y : Mat (List α)) : cubeAdd x y = cubeAdd y x :=
  zipWith_comm' _ (zipWith_comm' _ vecAdd_comm) x y
theorem cubeAdd_assoc (x y z : Mat (List α)) : cubeAdd (cubeAdd x y) z = cubeAdd x (cubeAdd y z) :=
  zipWith_assoc' _ (zipWith_assoc' _ vecAdd_assoc) x y z

/-- share arrays `[i][j][k]` under component-wise addition -/
structure Cube (α : Type) where
  v : Mat (List α)

instance : AddCommSemigroup (Cube α) where
  add x y := ⟨cubeAdd x.v y.v⟩
  add_assoc x y z := congrArg Cube.mk (cubeAdd_assoc x.v y.v z.v)
  add_comm x y := congrArg Cube.mk (cubeAdd_comm x.v y.v)

theorem Cube.add_v (x y : Cube α) : (x + y).v = cubeAdd x.v y.v := rfl

theorem AggTree.eval_cube (t : AggTree) (sh : Nat → Mat (List α)) :
    t.eval cubeAdd sh = (t.eval (· + ·) fun i => (⟨sh i⟩ : Cube α)).v := by
  induction t with
  | leaf i => rfl
  | node l r ihl ihr => simp [AggTree.eval, ihl, ihr, Cube.add_v]

/-- `RelinearizationKeyGenProtocol.AggregateShares` / the value part of every gadget-share
    aggregation: any two trees over permuted leaves agree -/
theorem cube_eval_perm (t₁ t₂ : AggTree) (sh : Nat → Mat (List α)) (h : t₁.leaves.Perm t₂.leaves) :
    t₁.eval cubeAdd sh = t₂.eval cubeAdd sh := by
  rw [AggTree.eval_cube, AggTree.eval_cube, AggTree.eval_perm _ _ _ h]

end cube

/-! ### the validating aggregation on compatible shares -/

section validated
variable {α : Type} [Add α]

/-- every entry `[i][j]` has exactly one component (degree-zero share) and the row lengths are `shape` -/
def Deg0 (shape : List Nat) (v : Mat (List α)) : Prop :=
  v.map (fun r => r.map List.length) = shape.map fun k => List.replicate k 1

theorem addHead_singleton (x y z : α) : addHead [x] [y] [z] = some [x + y] := rfl

theorem aggRow_deg0 : ∀ (k : Nat) (x y z : List (List α)),
    x.map List.length = List.replicate k 1 → y.map List.length = List.replicate k 1 →
    z.map List.length = List.replicate k 1 →
    aggRow x y z = some (List.zipWith vecAdd x y)
  | 0, x, y, z, hx, hy, hz => by
      have : x = [] := by simpa using hx
      subst this
      have : z = [] := by simpa using hz
      subst this
      simp [aggRow]
  | k + 1, x, y, z, hx, hy, hz => by
      match x, y, z, hx, hy, hz with
      | a :: x, b :: y, c :: z, hx, hy, hz =>
        simp only [List.map_cons, List.replicate_succ, List.cons.injEq] at hx hy hz
        obtain ⟨a0, rfl⟩ := List.length_eq_one_iff.mp hx.1
        obtain ⟨b0, rfl⟩ := List.length_eq_one_iff.mp hy.1
        obtain ⟨c0, rfl⟩ := List.length_eq_one_iff.mp hz.1
        simp [aggRow, addHead_singleton, aggRow_deg0 k x y z hx.2 hy.2 hz.2, vecAdd]

theorem aggRows_deg0 : ∀ (shape : List Nat) (x y z : Mat (List α)),
    Deg0 shape x → Deg0 shape y → Deg0 shape z → aggRows x y z = some (cubeAdd x y)
  | [], x, y, z, hx, _, hz => by
      have : x = [] := by simpa [Deg0] using hx
      subst this
      have : z = [] := by simpa [Deg0] using hz
      subst this
      simp [aggRows, cubeAdd]
  | k :: shape, x, y, z, hx, hy, hz => by
      match x, y, z, hx, hy, hz with
      | a :: x, b :: y, c :: z, hx, hy, hz =>
        simp only [Deg0, List.map_cons, List.cons.injEq] at hx hy hz
        have h1 := aggRow_deg0 k a b c hx.1 hy.1 hz.1
        have h2 := aggRows_deg0 shape x y z hx.2 hy.2 hz.2
        simp [aggRows, h1, h2, cubeAdd]

theorem deg0_cubeAdd : ∀ (shape : List Nat) (x y : Mat (List α)),
    Deg0 shape x → Deg0 shape y → Deg0 shape (cubeAdd x y)
  | [], x, y, hx, hy => by
      have : x = [] := by simpa [Deg0] using hx
      subst this
      simp [cubeAdd, Deg0]
  | k :: shape, x, y, hx, hy => by
      match x, y, hx, hy with
      | a :: x, b :: y, hx, hy =>
        simp only [Deg0, List.map_cons, List.cons.injEq] at hx hy
        have ih := deg0_cubeAdd shape x y hx.2 hy.2
        simp only [Deg0] at ih
        simp only [Deg0, cubeAdd, List.zipWith_cons_cons, List.map_cons, List.cons.injEq]
        refine ⟨?_, ih⟩
        have hrow : ∀ (k : Nat) (a b : List (List α)), a.map List.length = List.replicate k 1 →
            b.map List.length = List.replicate k 1 →
            (List.zipWith vecAdd a b).map List.length = List.replicate k 1 := by
          intro k
          induction k with
          | zero => intro a b ha _; have : a = [] := by simpa using ha
                    subst this; simp
          | succ k ih =>
            intro a b ha hb
            match a, b, ha, hb with
            | p :: a, q :: b, ha, hb =>
              simp only [List.map_cons, List.replicate_succ, List.cons.injEq] at ha hb
              simp [List.replicate_succ, vecAdd, ha.1, hb.1, ih a b ha.2 hb.2]
        exact hrow k a b hx.1 hy.1

omit [Add α] in
theorem deg0_shapeOf (shape : List Nat) (v : Mat (List α)) (h : Deg0 shape v) : shapeOf v = shape := by
  have := congrArg (List.map List.length) h
  simpa [shapeOf, Function.comp_def] using this

/-- compatible shares: same levels, same decomposition (`BaseTwoDecomposition`, degree-zero shape) -/
structure Compat (lq : Nat) (lp : Int) (b2 : Nat) (shape : List Nat) (s : GShare α) : Prop where
  hq : s.levelQ = lq
  hp : s.levelP = lp
  hb : s.base2 = b2
  hs : Deg0 shape s.val

theorem evkAggregate_compat {lq : Nat} {lp : Int} {b2 : Nat} {shape : List Nat} {s1 s2 s3 : GShare α}
    (h1 : Compat lq lp b2 shape s1) (h2 : Compat lq lp b2 shape s2) (h3 : Compat lq lp b2 shape s3) :
    evkAggregate s1 s2 s3 = .ok { s3 with val := cubeAdd s1.val s2.val } := by
  simp [evkAggregate, h1.hq, h2.hq, h3.hq, h1.hp, h2.hp, h3.hp, h1.hb, h2.hb,
    deg0_shapeOf shape _ h1.hs, deg0_shapeOf shape _ h2.hs, deg0_shapeOf shape _ h3.hs,
    aggRows_deg0 shape _ _ _ h1.hs h2.hs h3.hs]

/-- Aggregating compatible evaluation-key shares along ANY tree (each step into a receiver that is
    itself compatible, e.g. a freshly allocated share or the first operand) never fails and yields
    the component-wise sum along the tree. -/
theorem evk_evalM_compat {lq : Nat} {lp : Int} {b2 : Nat} {shape : List Nat}
    (recv : GShare α → GShare α) (hrecv : ∀ s, Compat lq lp b2 shape s → Compat lq lp b2 shape (recv s))
    (sh : Nat → GShare α) (t : AggTree) (hc : ∀ i ∈ t.leaves, Compat lq lp b2 shape (sh i)) :
    ∃ g, t.evalM (fun x y => evkAggregate x y (recv x)) sh = .ok g ∧ Compat lq lp b2 shape g ∧
      g.val = t.eval cubeAdd (fun i => (sh i).val) := by
  induction t with
  | leaf i =>
    exact ⟨sh i, rfl, hc i (by simp [AggTree.leaves]), rfl⟩
  | node l r ihl ihr =>
    obtain ⟨gl, hl, cl, vl⟩ := ihl (fun i hi => hc i (by simp [AggTree.leaves, hi]))
    obtain ⟨gr, hr, cr, vr⟩ := ihr (fun i hi => hc i (by simp [AggTree.leaves, hi]))
    have hx := hrecv gl cl
    refine ⟨{ recv gl with val := cubeAdd gl.val gr.val }, ?_, ?_, ?_⟩
    · simp [AggTree.evalM, hl, hr, Res.bind, evkAggregate_compat cl cr hx]
    · exact ⟨hx.hq, hx.hp, hx.hb, deg0_cubeAdd shape _ _ cl.hs cr.hs⟩
    · simp [AggTree.eval, vl, vr]

/-- the same for Galois shares carrying the same element tag -/
theorem gal_evalM_compat {lq : Nat} {lp : Int} {b2 : Nat} {shape : List Nat} (g0 : Nat)
    (recv : GalShare α → GalShare α) (hrecv : ∀ s, Compat lq lp b2 shape s.sh → Compat lq lp b2 shape (recv s).sh)
    (sh : Nat → GalShare α) (t : AggTree)
    (hc : ∀ i ∈ t.leaves, (sh i).galEl = g0 ∧ Compat lq lp b2 shape (sh i).sh) :
    ∃ g, t.evalM (fun x y => galAggregate x y (recv x)) sh = .ok g ∧ g.galEl = g0 ∧
      Compat lq lp b2 shape g.sh ∧ g.sh.val = t.eval cubeAdd (fun i => (sh i).sh.val) := by
  induction t with
  | leaf i =>
    have := hc i (by simp [AggTree.leaves])
    exact ⟨sh i, rfl, this.1, this.2, rfl⟩
  | node l r ihl ihr =>
    obtain ⟨gl, hl, tl, cl, vl⟩ := ihl (fun i hi => hc i (by simp [AggTree.leaves, hi]))
    obtain ⟨gr, hr, tr, cr, vr⟩ := ihr (fun i hi => hc i (by simp [AggTree.leaves, hi]))
    have hx := hrecv gl cl
    refine ⟨⟨gl.galEl, { (recv gl).sh with val := cubeAdd gl.sh.val gr.sh.val }⟩, ?_, tl, ?_, ?_⟩
    · simp only [AggTree.evalM]
      rw [hl, hr]
      simp [Res.bind, galAggregate, tl, tr, evkAggregate_compat cl cr hx]
    · exact ⟨hx.hq, hx.hp, hx.hb, deg0_cubeAdd shape _ _ cl.hs cr.hs⟩
    · simp [AggTree.eval, vl, vr]

end validated

/-- the value of the validated aggregate does not depend on the order / grouping -/
theorem evk_agg_perm {α : Type} [AddCommSemigroup α] {lq : Nat} {lp : Int} {b2 : Nat} {shape : List Nat}
    (recv : GShare α → GShare α) (hrecv : ∀ s, Compat lq lp b2 shape s → Compat lq lp b2 shape (recv s))
    (sh : Nat → GShare α) (t₁ t₂ : AggTree) (hperm : t₁.leaves.Perm t₂.leaves)
    (hc : ∀ i ∈ t₁.leaves, Compat lq lp b2 shape (sh i)) :
    ∃ g₁ g₂, t₁.evalM (fun x y => evkAggregate x y (recv x)) sh = .ok g₁ ∧
             t₂.evalM (fun x y => evkAggregate x y (recv x)) sh = .ok g₂ ∧ g₁.val = g₂.val ∧
             g₁.levelQ = g₂.levelQ ∧ g₁.levelP = g₂.levelP := by
  obtain ⟨g1, h1, c1, v1⟩ := evk_evalM_compat recv hrecv sh t₁ hc
  obtain ⟨g2, h2, c2, v2⟩ := evk_evalM_compat recv hrecv sh t₂ (fun i hi => hc i (hperm.mem_iff.mpr hi))
  exact ⟨g1, g2, h1, h2, by rw [v1, v2, cube_eval_perm _ _ _ hperm], by rw [c1.hq, c2.hq], by rw [c1.hp, c2.hp]⟩

end Lattigo.MP
