/-
  Norm toolkit for the noise bounds of C04 / C14 / C16 / C20, over `Lattigo.ZPoly`
  (`Z[X]/(X^N+1)` on coefficient lists `List Int`, operations of `Model/RLWE.lean`; the basic
  inequalities `‖a·b‖∞ ≤ ‖a‖₁·‖b‖∞`, `‖a±b‖∞ ≤ ‖a‖∞+‖b‖∞`, `‖k·a‖∞ = |k|·‖a‖∞` are in `Proofs/RLWENorm.lean`).

  Contents
    * finite sums `sumZ`, gadget sums `dotZ` (`Σ_k d_k·e_k`) and `dotMatZ` (`Σ_{i,j} d_ij·e_ij`) with
      `‖Σ_k d_k e_k‖∞ ≤ Σ_k ‖d_k‖₁‖e_k‖∞ ≤ N·B·Σ_k D_k ≤ (#digits)·N·D·B`;
    * `‖a‖₁ ≤ N·‖a‖∞`, `‖a‖₁ = Hamming weight` for ternary `a`, `‖a+b‖₁ ≤ ‖a‖₁+‖b‖₁`;
    * rounding (division by `P` with centred remainders): `rounding_bound`, `rounding_bound_div`,
      and the one-remainder form `rounding1_bound`;
    * `autZ g` (`a ↦ a(X^g)`, the scatter loop of `RPoly.rowAut` on signed coefficients) does not increase
      `‖·‖∞` nor `‖·‖₁` (any `g`); equality when an inverse exists;
    * monomials `monomialZ N k = ±X^(k mod N)`: `‖X^k·a‖∞ ≤ ‖a‖∞`.

  All bounds are worst-case (`ℓ∞`), with explicit constants, for every `N`, every list length.
-/
import Lattigo.Proofs.RLWENorm
import Mathlib.Tactic.Ring
import Mathlib.Tactic.Linarith

namespace Lattigo.ZPoly

/-! ## Elementary facts -/

/-- the zero polynomial of degree `< N` -/
def zero (N : Nat) : List Int := List.replicate N 0

theorem normInf_zero (N : Nat) : normInf (zero N) = 0 := by
  apply Nat.le_zero.mp
  rw [normInf_le_iff]
  intro x hx
  simp only [zero, List.mem_replicate] at hx
  rw [hx.2]; rfl

theorem norm1_zero (N : Nat) : norm1 (zero N) = 0 := by
  induction N with
  | zero => rfl
  | succ n ih =>
    simp only [norm1, zero, List.replicate_succ, List.map_cons, List.sum_cons] at ih ⊢
    rw [ih]; rfl

theorem norm1_cons (x : Int) (xs : List Int) : norm1 (x :: xs) = x.natAbs + norm1 xs := by
  simp [norm1]

theorem normInf_cons (x : Int) (xs : List Int) : normInf (x :: xs) = max x.natAbs (normInf xs) := rfl

/-- `‖a‖₁ ≤ (#coefficients)·B` as soon as every coefficient is bounded by `B` -/
theorem norm1_le_of_forall (a : List Int) (B : Nat) (h : ∀ x ∈ a, x.natAbs ≤ B) :
    norm1 a ≤ a.length * B := by
  induction a with
  | nil => simp [norm1]
  | cons x xs ih =>
    rw [norm1_cons, List.length_cons, Nat.succ_mul]
    have h1 := h x List.mem_cons_self
    have h2 := ih (fun y hy => h y (List.mem_cons_of_mem _ hy))
    omega

/-- **`‖a‖₁ ≤ N·‖a‖∞`** -/
theorem norm1_le_length_mul_normInf (a : List Int) : norm1 a ≤ a.length * normInf a :=
  norm1_le_of_forall a _ (fun _ hx => natAbs_le_normInf hx)

theorem norm1_le_mul (a : List Int) (N D : Nat) (hl : a.length ≤ N) (hD : normInf a ≤ D) :
    norm1 a ≤ N * D :=
  Nat.le_trans (norm1_le_length_mul_normInf a) (Nat.mul_le_mul hl hD)

/-- Hamming weight: number of non-zero coefficients -/
def hamming (a : List Int) : Nat := (a.filter (· ≠ 0)).length

/-- a polynomial with coefficients in `{−1, 0, 1}` -/
def Ternary (a : List Int) : Prop := ∀ x ∈ a, x = -1 ∨ x = 0 ∨ x = 1

/-- **`‖a‖₁` = Hamming weight** for ternary `a` -/
theorem norm1_ternary (a : List Int) (h : Ternary a) : norm1 a = hamming a := by
  induction a with
  | nil => rfl
  | cons x xs ih =>
    have hx := h x List.mem_cons_self
    have ih' := ih (fun y hy => h y (List.mem_cons_of_mem _ hy))
    rw [norm1_cons, ih']
    unfold hamming
    rcases hx with rfl | rfl | rfl <;> simp <;> omega

theorem hamming_le_length (a : List Int) : hamming a ≤ a.length := List.length_filter_le _ _

theorem normInf_ternary (a : List Int) (h : Ternary a) : normInf a ≤ 1 := by
  rw [normInf_le_iff]
  intro x hx
  rcases h x hx with rfl | rfl | rfl <;> decide

theorem norm1_add_le (a b : List Int) : norm1 (add a b) ≤ norm1 a + norm1 b := by
  induction a generalizing b with
  | nil => simp [add, norm1]
  | cons x xs ih =>
    cases b with
    | nil => simp [add, norm1]
    | cons y ys =>
      have h := ih ys
      simp only [add, List.zipWith_cons_cons] at h ⊢
      rw [norm1_cons, norm1_cons, norm1_cons]
      have := Int.natAbs_add_le x y
      omega

theorem normInf_map_le {β : Type} (f : β → Int) (l : List β) (D : Nat) (h : ∀ x ∈ l, (f x).natAbs ≤ D) :
    normInf (l.map f) ≤ D := by
  rw [normInf_le_iff]
  intro y hy
  obtain ⟨x, hx, rfl⟩ := List.mem_map.mp hy
  exact h x hx

/-! ## Finite sums -/

/-- `Σ_k a_k` (right fold of `add` from the zero polynomial of length `N`) -/
def sumZ (N : Nat) (l : List (List Int)) : List Int := l.foldr add (zero N)

theorem sumZ_cons (N : Nat) (a : List Int) (l : List (List Int)) : sumZ N (a :: l) = add a (sumZ N l) := rfl

/-- **triangle inequality for `‖·‖∞` over finite sums** -/
theorem normInf_sumZ_le (N : Nat) (l : List (List Int)) : normInf (sumZ N l) ≤ (l.map normInf).sum := by
  induction l with
  | nil => simp [sumZ, normInf_zero]
  | cons a as ih =>
    rw [sumZ_cons, List.map_cons, List.sum_cons]
    exact Nat.le_trans (normInf_add_le _ _) (Nat.add_le_add_left ih _)

theorem normInf_sumZ_le_of_forall (N : Nat) (l : List (List Int)) (B : Nat)
    (h : ∀ a ∈ l, normInf a ≤ B) : normInf (sumZ N l) ≤ l.length * B := by
  induction l with
  | nil => simp [sumZ, normInf_zero]
  | cons a as ih =>
    rw [sumZ_cons, List.length_cons, Nat.succ_mul]
    have h1 := h a List.mem_cons_self
    have h2 := ih (fun y hy => h y (List.mem_cons_of_mem _ hy))
    have := normInf_add_le a (sumZ N as)
    omega

theorem norm1_sumZ_le (N : Nat) (l : List (List Int)) : norm1 (sumZ N l) ≤ (l.map norm1).sum := by
  induction l with
  | nil => simp [sumZ, norm1_zero]
  | cons a as ih =>
    rw [sumZ_cons, List.map_cons, List.sum_cons]
    exact Nat.le_trans (norm1_add_le _ _) (Nat.add_le_add_left ih _)

/-! ## Gadget sums `Σ_k d_k·e_k` -/

/-- `Σ_k d_k·e_k` (negacyclic products), over the common prefix of the two lists -/
def dotZ (N : Nat) (ds es : List (List Int)) : List Int := sumZ N (List.zipWith mul ds es)

theorem dotZ_cons (N : Nat) (d e : List Int) (ds es : List (List Int)) :
    dotZ N (d :: ds) (e :: es) = add (mul d e) (dotZ N ds es) := rfl

/-- **`‖Σ_k d_k·e_k‖∞ ≤ Σ_k ‖d_k‖₁·‖e_k‖∞`** -/
theorem normInf_dotZ_le (N : Nat) (ds es : List (List Int)) :
    normInf (dotZ N ds es) ≤ (List.zipWith (fun d e => norm1 d * normInf e) ds es).sum := by
  induction ds generalizing es with
  | nil => simp [dotZ, sumZ, normInf_zero]
  | cons d ds ih =>
    cases es with
    | nil => simp [dotZ, sumZ, normInf_zero]
    | cons e es =>
      rw [dotZ_cons, List.zipWith_cons_cons, List.sum_cons]
      exact Nat.le_trans (normInf_add_le _ _) (Nat.add_le_add (normInf_mul_le d e) (ih es))

/-- digit `k` has at most `N` coefficients, each bounded by `D_k`; every error is bounded by `B`:
    **`‖Σ_k d_k·e_k‖∞ ≤ N·B·Σ_k D_k`** -/
theorem normInf_dotZ_le_of_bounds (N B : Nat) (ds es : List (List Int)) (Ds : List Nat)
    (hd : List.Forall₂ (fun d D => d.length ≤ N ∧ normInf d ≤ D) ds Ds)
    (he : ∀ e ∈ es, normInf e ≤ B) : normInf (dotZ N ds es) ≤ N * B * Ds.sum := by
  induction hd generalizing es with
  | nil => simp [dotZ, sumZ, normInf_zero]
  | @cons d D ds Ds hdD _ ih =>
    cases es with
    | nil => simp [dotZ, sumZ, normInf_zero]
    | cons e es =>
      rw [dotZ_cons, List.sum_cons]
      have h1 := normInf_add_le (mul d e) (dotZ N ds es)
      have h2 := normInf_mul_le d e
      have h3 := ih es (fun y hy => he y (List.mem_cons_of_mem _ hy))
      have h4 : norm1 d * normInf e ≤ N * D * B :=
        Nat.mul_le_mul (norm1_le_mul d N D hdD.1 hdD.2) (he e List.mem_cons_self)
      have h5 : N * B * (D + Ds.sum) = N * D * B + N * B * Ds.sum := by ring
      omega

theorem sum_replicate_nat (n D : Nat) : (List.replicate n D).sum = n * D := by
  induction n with
  | zero => simp
  | succ k ih => rw [List.replicate_succ, List.sum_cons, ih]; ring

theorem forall₂_replicate {β : Type} (R : β → Nat → Prop) (l : List β) (D : Nat) (h : ∀ x ∈ l, R x D) :
    List.Forall₂ R l (List.replicate l.length D) := by
  induction l with
  | nil => exact List.Forall₂.nil
  | cons x xs ih =>
    exact List.Forall₂.cons (h x List.mem_cons_self) (ih fun y hy => h y (List.mem_cons_of_mem _ hy))

/-- all digits bounded by the same `D`: **`‖Σ_k d_k·e_k‖∞ ≤ (#digits)·N·D·B`** -/
theorem normInf_dotZ_le_uniform (N B D : Nat) (ds es : List (List Int))
    (hd : ∀ d ∈ ds, d.length ≤ N ∧ normInf d ≤ D) (he : ∀ e ∈ es, normInf e ≤ B) :
    normInf (dotZ N ds es) ≤ ds.length * (N * D * B) := by
  have h := normInf_dotZ_le_of_bounds N B ds es (List.replicate ds.length D)
    (forall₂_replicate _ ds D hd) he
  have e : N * B * (List.replicate ds.length D).sum = ds.length * (N * D * B) := by
    rw [sum_replicate_nat]; ring
  omega

/-- `Σ_{i,j} d_ij·e_ij` over a (possibly ragged) digit matrix, the shape of `KS.wsumMat` -/
def dotMatZ (N : Nat) (ds es : List (List (List Int))) : List Int := sumZ N (List.zipWith (dotZ N) ds es)

theorem dotMatZ_cons (N : Nat) (d e : List (List Int)) (ds es : List (List (List Int))) :
    dotMatZ N (d :: ds) (e :: es) = add (dotZ N d e) (dotMatZ N ds es) := rfl

/-- the total digit bound `Σ_{i,j} D_ij` -/
def sumSum (Dss : List (List Nat)) : Nat := (Dss.map List.sum).sum

/-- the digit matrix `ds` respects the bound matrix `Dss` coefficient-wise, every digit has `≤ N` coefficients -/
def DigitsBounded (N : Nat) (ds : List (List (List Int))) (Dss : List (List Nat)) : Prop :=
  List.Forall₂ (List.Forall₂ (fun d D => d.length ≤ N ∧ normInf d ≤ D)) ds Dss

/-- every error polynomial of the matrix is bounded by `B` -/
def ErrBounded (B : Nat) (es : List (List (List Int))) : Prop := ∀ r ∈ es, ∀ e ∈ r, normInf e ≤ B

/-- **`‖Σ_{i,j} d_ij·e_ij‖∞ ≤ N·B·Σ_{i,j} D_ij`** -/
theorem normInf_dotMatZ_le_of_bounds (N B : Nat) (ds es : List (List (List Int))) (Dss : List (List Nat))
    (hd : DigitsBounded N ds Dss) (he : ErrBounded B es) :
    normInf (dotMatZ N ds es) ≤ N * B * sumSum Dss := by
  unfold DigitsBounded at hd
  induction hd generalizing es with
  | nil => simp [dotMatZ, sumZ, normInf_zero]
  | @cons d D ds Dss hdD _ ih =>
    cases es with
    | nil => simp [dotMatZ, sumZ, normInf_zero]
    | cons e es =>
      rw [dotMatZ_cons]
      have h1 := normInf_add_le (dotZ N d e) (dotMatZ N ds es)
      have h2 := normInf_dotZ_le_of_bounds N B d e D hdD (he e List.mem_cons_self)
      have h3 := ih es (fun r hr => he r (List.mem_cons_of_mem _ hr))
      have h5 : N * B * sumSum (D :: Dss) = N * B * D.sum + N * B * sumSum Dss := by
        simp only [sumSum, List.map_cons, List.sum_cons]; ring
      omega

/-! ## Rounding: division by `P` with centred remainders -/

/-- **rounding** (generalises `noise_upper_pk_P` to any numerator bound and any bound on `‖s‖₁`):
    if `P·ν = E − ρ₀ − s·ρ₁` with `2‖ρ_i‖∞ ≤ P` (centred remainders modulo `P`), `‖E‖∞ ≤ Eb`, `‖s‖₁ ≤ h`, then
    `2P·‖ν‖∞ ≤ 2·Eb + P·(1 + h)`, i.e. `‖ν‖∞ ≤ Eb/P + (1 + h)/2` over the rationals. -/
theorem rounding_bound (P : Nat) (ν E ρ0 ρ1 s : List Int) (Eb h : Nat)
    (hrel : smul P ν = sub (sub E ρ0) (mul s ρ1))
    (h0 : 2 * normInf ρ0 ≤ P) (h1 : 2 * normInf ρ1 ≤ P) (hE : normInf E ≤ Eb) (hs : norm1 s ≤ h) :
    2 * (P * normInf ν) ≤ 2 * Eb + P * (1 + h) := by
  have hb := noise_upper_pk_P P ν E ρ0 ρ1 s hrel h0 h1
  have : P * (1 + norm1 s) ≤ P * (1 + h) := Nat.mul_le_mul_left _ (by omega)
  omega

/-- from `2P·n ≤ 2·Eb + P·(1 + h)` to floor divisions: `n ≤ ⌊Eb/P⌋ + ⌊(1 + h)/2⌋ + 1` -/
theorem le_div_of_two_mul (P n Eb h : Nat) (hP : 0 < P) (hb : 2 * (P * n) ≤ 2 * Eb + P * (1 + h)) :
    n ≤ Eb / P + (1 + h) / 2 + 1 := by
  by_contra hc
  have hn : Eb / P + (1 + h) / 2 + 2 ≤ n := by omega
  have h1 : P * (Eb / P + (1 + h) / 2 + 2) ≤ P * n := Nat.mul_le_mul_left _ hn
  have h2 : P * (Eb / P + (1 + h) / 2 + 2) = P * (Eb / P) + P * ((1 + h) / 2) + 2 * P := by ring
  have h3 := Nat.div_add_mod Eb P
  have h4 := Nat.mod_lt Eb hP
  have h5 : P * (1 + h) ≤ P * (2 * ((1 + h) / 2) + 1) := Nat.mul_le_mul_left _ (by omega)
  have h6 : P * (2 * ((1 + h) / 2) + 1) = 2 * (P * ((1 + h) / 2)) + P := by ring
  generalize P * (Eb / P) = X at *
  generalize P * ((1 + h) / 2) = Y at *
  generalize P * n = Z at *
  generalize P * (1 + h) = U at *
  omega

/-- **rounding, floor form**: `‖ν‖∞ ≤ ⌊Eb/P⌋ + ⌊(1 + h)/2⌋ + 1` -/
theorem rounding_bound_div (P : Nat) (ν E ρ0 ρ1 s : List Int) (Eb h : Nat) (hP : 0 < P)
    (hrel : smul P ν = sub (sub E ρ0) (mul s ρ1))
    (h0 : 2 * normInf ρ0 ≤ P) (h1 : 2 * normInf ρ1 ≤ P) (hE : normInf E ≤ Eb) (hs : norm1 s ≤ h) :
    normInf ν ≤ Eb / P + (1 + h) / 2 + 1 :=
  le_div_of_two_mul P _ Eb h hP (rounding_bound P ν E ρ0 ρ1 s Eb h hrel h0 h1 hE hs)

/-- rounding with ONE remainder (`ModDown` of a single polynomial, e.g. a key-switch share `P·x + e`):
    `P·ν = E − ρ`, `2‖ρ‖∞ ≤ P` ⇒ `2P·‖ν‖∞ ≤ 2‖E‖∞ + P` -/
theorem rounding1_bound (P : Nat) (ν E ρ : List Int) (hrel : smul P ν = sub E ρ) (h0 : 2 * normInf ρ ≤ P) :
    2 * (P * normInf ν) ≤ 2 * normInf E + P := by
  have h := normInf_smul P ν
  rw [hrel] at h
  have a := normInf_sub_le E ρ
  simp only [Int.natAbs_natCast] at h
  omega

/-! ## Automorphisms `a ↦ a(X^g)` -/

/-- one step of the scatter loop of `RPoly.rowAut`, on signed coefficients: coefficient `i` of `a` goes to
    position `i·g mod 2n`, negated when that exponent is `≥ n` -/
def autStep (g : Nat) (a : List Int) (acc : List Int) (i : Nat) : List Int :=
  if (i * g) % (2 * a.length) < a.length then acc.set ((i * g) % (2 * a.length)) (a.getD i 0)
  else acc.set ((i * g) % (2 * a.length) - a.length) (-(a.getD i 0))

/-- `σ_g : a ↦ a(X^g)` in `Z[X]/(X^N+1)`, the loop of `RPoly.rowAut` (`Model/RPoly.lean`) without the modulus -/
def autZ (g : Nat) (a : List Int) : List Int :=
  (List.range a.length).foldl (autStep g a) (List.replicate a.length 0)

theorem normInf_set_le (l : List Int) (e : Nat) (v : Int) (M : Nat) (hl : normInf l ≤ M) (hv : v.natAbs ≤ M) :
    normInf (l.set e v) ≤ M := by
  rw [normInf_le_iff] at hl ⊢
  intro x hx
  rcases List.mem_or_eq_of_mem_set hx with h | rfl
  · exact hl x h
  · exact hv

theorem norm1_set_le (l : List Int) (e : Nat) (v : Int) : norm1 (l.set e v) ≤ norm1 l + v.natAbs := by
  induction l generalizing e with
  | nil => simp [norm1]
  | cons x xs ih =>
    cases e with
    | zero => rw [List.set_cons_zero, norm1_cons, norm1_cons]; omega
    | succ k =>
      rw [List.set_cons_succ, norm1_cons, norm1_cons]
      have := ih k
      omega

theorem getD_natAbs_le (a : List Int) (i : Nat) : (a.getD i 0).natAbs ≤ normInf a := coeff_natAbs_le a i

theorem normInf_autFold_le (g : Nat) (a : List Int) (is : List Nat) (acc : List Int)
    (h : normInf acc ≤ normInf a) : normInf (is.foldl (autStep g a) acc) ≤ normInf a := by
  induction is generalizing acc with
  | nil => exact h
  | cons i is ih =>
    rw [List.foldl_cons]
    apply ih
    unfold autStep
    split
    · exact normInf_set_le _ _ _ _ h (getD_natAbs_le a i)
    · exact normInf_set_le _ _ _ _ h (by rw [Int.natAbs_neg]; exact getD_natAbs_le a i)

/-- **`‖σ_g(a)‖∞ ≤ ‖a‖∞`** (every `g`) -/
theorem normInf_autZ_le (g : Nat) (a : List Int) : normInf (autZ g a) ≤ normInf a :=
  normInf_autFold_le g a _ _ (by
    have := normInf_zero a.length
    unfold zero at this
    omega)

theorem norm1_autFold_le (g : Nat) (a : List Int) (is : List Nat) (acc : List Int) :
    norm1 (is.foldl (autStep g a) acc) ≤ norm1 acc + (is.map fun i => (a.getD i 0).natAbs).sum := by
  induction is generalizing acc with
  | nil => simp
  | cons i is ih =>
    rw [List.foldl_cons, List.map_cons, List.sum_cons]
    have h1 := ih (autStep g a acc i)
    have h2 : norm1 (autStep g a acc i) ≤ norm1 acc + (a.getD i 0).natAbs := by
      unfold autStep
      split
      · exact norm1_set_le _ _ _
      · have := norm1_set_le acc ((i * g) % (2 * a.length) - a.length) (-(a.getD i 0))
        rwa [Int.natAbs_neg] at this
    omega

theorem map_getD_range (a : List Int) :
    (List.range a.length).map (fun i => (a.getD i 0).natAbs) = a.map Int.natAbs := by
  apply List.ext_getElem
  · simp
  · intro i h1 h2
    simp only [List.length_map, List.length_range] at h1
    simp [List.getD_eq_getElem?_getD, h1]

/-- **`‖σ_g(a)‖₁ ≤ ‖a‖₁`** (every `g`) -/
theorem norm1_autZ_le (g : Nat) (a : List Int) : norm1 (autZ g a) ≤ norm1 a := by
  have h := norm1_autFold_le g a (List.range a.length) (List.replicate a.length 0)
  rw [map_getD_range] at h
  have hz := norm1_zero a.length
  unfold zero at hz
  unfold autZ
  rw [hz] at h
  simpa [norm1] using h

/-- equality as soon as `σ_g` has an inverse on `a` (`g` odd, `g·g' ≡ 1 (mod 2N)`): **`σ_g` preserves `‖·‖∞`** -/
theorem normInf_autZ_eq (g g' : Nat) (a : List Int) (hinv : autZ g' (autZ g a) = a) :
    normInf (autZ g a) = normInf a := by
  apply Nat.le_antisymm (normInf_autZ_le g a)
  have := normInf_autZ_le g' (autZ g a)
  rwa [hinv] at this

/-- … and **`‖·‖₁`** -/
theorem norm1_autZ_eq (g g' : Nat) (a : List Int) (hinv : autZ g' (autZ g a) = a) :
    norm1 (autZ g a) = norm1 a := by
  apply Nat.le_antisymm (norm1_autZ_le g a)
  have := norm1_autZ_le g' (autZ g a)
  rwa [hinv] at this

/-- test / non-vacuity: `N = 4`, `g = 3` (inverse `3`: `9 ≡ 1 mod 8`): `σ_3(1 + 2X − 3X² + 4X³) = 1 + 4X + 3X² + 2X³` -/
example : autZ 3 [1, 2, -3, 4] = [1, 4, 3, 2] ∧ autZ 3 (autZ 3 [1, 2, -3, 4]) = [1, 2, -3, 4]
    ∧ normInf (autZ 3 [1, 2, -3, 4]) = 4 ∧ norm1 (autZ 3 [1, 2, -3, 4]) = 10 := by decide

/-! ## Monomials -/

/-- `X^k` reduced in `Z[X]/(X^N+1)`: `(−1)^⌊k/N⌋·X^(k mod N)` -/
def monomialZ (N k : Nat) : List Int :=
  (List.range N).map fun i => if i = k % N then (if (k / N) % 2 = 0 then 1 else -1) else 0

theorem sum_indicator_range (c : Nat) (v : Int) (N : Nat) :
    ((List.range N).map fun i => (if i = c then v else 0 : Int).natAbs).sum = if c < N then v.natAbs else 0 := by
  induction N with
  | zero => simp
  | succ n ih =>
    rw [List.range_succ, List.map_append, List.sum_append, ih]
    by_cases h1 : c < n
    · have : ¬ n = c := by omega
      simp [h1, this, Nat.lt_succ_of_lt h1]
    · by_cases h2 : n = c
      · subst h2; simp
      · have : ¬ c < n + 1 := by omega
        simp [h1, h2, this]

theorem norm1_monomialZ_le (N k : Nat) : norm1 (monomialZ N k) ≤ 1 := by
  unfold norm1 monomialZ
  rw [List.map_map]
  have h := sum_indicator_range (k % N) (if (k / N) % 2 = 0 then 1 else -1) N
  simp only [Function.comp_def]
  rw [h]
  split
  · split <;> decide
  · omega

/-- **`‖X^k·a‖∞ ≤ ‖a‖∞`** -/
theorem normInf_monomial_mul_le (N k : Nat) (a : List Int) : normInf (mul (monomialZ N k) a) ≤ normInf a := by
  have h := normInf_mul_le (monomialZ N k) a
  have h1 := norm1_monomialZ_le N k
  have : norm1 (monomialZ N k) * normInf a ≤ 1 * normInf a := Nat.mul_le_mul_right _ h1
  omega

/-- test: `X^5·(1 + 2X + 3X² + 4X³) = −X·(…) = 4 − X − 2X² − 3X³` in `Z[X]/(X⁴+1)` -/
example : mul (monomialZ 4 5) [1, 2, 3, 4] = [4, -1, -2, -3] := by decide

/-! ## Non-vacuity of the generic lemmas (small numbers) -/

/-- two digits bounded by `D = 2` on `N = 2` coefficients, errors bounded by `B = 1`: `‖Σ d e‖∞ = 5 ≤ 2·(2·2·1)` -/
example : normInf (dotZ 2 [[2, -2], [1, 2]] [[1, -1], [-1, 1]]) = 5
    ∧ (∀ d ∈ [[2, -2], [1, 2]], d.length ≤ 2 ∧ normInf d ≤ 2) ∧ (∀ e ∈ [[1, -1], [-1, 1]], normInf e ≤ 1) := by
  decide

/-- rounding: `P = 5`, `ν = [1, -1]`, `s = [1, 0]`, `ρ₀ = [2, -2]`, `ρ₁ = [-1, 2]`, `E = P·ν + ρ₀ + s·ρ₁ = [6, -5]` -/
example : smul (5 : Nat) [1, -1] = sub (sub [6, -5] [2, -2]) (mul [1, 0] [-1, 2])
    ∧ 2 * normInf [2, -2] ≤ 5 ∧ 2 * normInf [-1, 2] ≤ 5 := by decide

example : Ternary [1, 0, -1, 0] ∧ hamming [1, 0, -1, 0] = 2 ∧ norm1 [1, 0, -1, 0] = 2 := by
  refine ⟨?_, by decide, by decide⟩
  unfold Ternary
  decide

end Lattigo.ZPoly

#print axioms Lattigo.ZPoly.normInf_sumZ_le
#print axioms Lattigo.ZPoly.norm1_le_length_mul_normInf
#print axioms Lattigo.ZPoly.norm1_ternary
#print axioms Lattigo.ZPoly.normInf_dotZ_le
#print axioms Lattigo.ZPoly.normInf_dotZ_le_of_bounds
#print axioms Lattigo.ZPoly.normInf_dotZ_le_uniform
#print axioms Lattigo.ZPoly.normInf_dotMatZ_le_of_bounds
#print axioms Lattigo.ZPoly.rounding_bound
#print axioms Lattigo.ZPoly.rounding_bound_div
#print axioms Lattigo.ZPoly.rounding1_bound
#print axioms Lattigo.ZPoly.normInf_autZ_le
#print axioms Lattigo.ZPoly.norm1_autZ_le
#print axioms Lattigo.ZPoly.normInf_autZ_eq
#print axioms Lattigo.ZPoly.norm1_autZ_eq
#print axioms Lattigo.ZPoly.normInf_monomial_mul_le
