/-
  C11 proofs, part 8: `Trace` — value and advertised keys, both ring types
  (code after fix C11-1: the number of rotations is `N/2` in the standard ring, `N` in the
  conjugate-invariant ring; `logN` outside `[0, log2 #rotations]` is rejected).
-/
import Lattigo.Proofs.InnerSum
import Lattigo.Proofs.InnerSumKeys

namespace Lattigo.Proofs.InnerSum
open Lattigo Lattigo.Model.Galois Lattigo.Model.InnerSum Lattigo.Proofs.Galois
open Finset

variable {α : Type}

theorem shlInt_eq (i : Nat) (hi : i ≤ 62) : shlInt i = ((2 ^ i : Nat) : Int) := by
  unfold shlInt
  rw [if_neg (by omega)]
  have h : (2 : Int) ^ i ≤ 2 ^ 62 := pow_le_pow_right₀ (by norm_num) hi
  have hp : (0 : Int) < 2 ^ i := by positivity
  push_cast
  apply wrapInt_of_small <;> norm_num at h ⊢ <;> omega

/-! ### keys -/

theorem traceLoop_reqs (S : Ops α) (N B : Nat) : ∀ (fuel i : Nat) (out : α) (reqs : List Nat),
    ∀ r ∈ (traceLoop S N B fuel i (out, reqs)).2,
      r ∈ reqs ∨ ∃ i', i ≤ i' ∧ i' < B ∧ r = galEl N (shlInt i') := by
  intro fuel
  induction fuel with
  | zero => intro i out reqs r hr; exact Or.inl (by simpa [traceLoop] using hr)
  | succ fu ih =>
    intro i out reqs r hr
    unfold traceLoop at hr
    by_cases h : i < B
    · rw [if_pos h] at hr
      rcases ih (i + 1) _ _ r hr with h1 | ⟨i', h1, h2, h3⟩
      · rcases mem_request h1 with h1 | h1
        · exact Or.inl h1
        · exact Or.inr ⟨i, le_refl _, h, h1⟩
      · exact Or.inr ⟨i', by omega, h2, h3⟩
    · rw [if_neg h] at hr; exact Or.inl hr

theorem advTraceLoop_mem (N B : Nat) : ∀ (fuel i : Nat) (acc : List Nat), B ≤ i + fuel →
    (∀ x ∈ acc, x ∈ advTraceLoop N B fuel i acc) ∧
    ∀ i', i ≤ i' → i' < B → galEl N (shlInt i') ∈ advTraceLoop N B fuel i acc := by
  intro fuel
  induction fuel with
  | zero =>
    intro i acc h
    exact ⟨fun x hx => by simpa [advTraceLoop] using hx, fun i' h1 h2 => by omega⟩
  | succ fu ih =>
    intro i acc h
    unfold advTraceLoop
    by_cases hc : i < B
    · rw [if_pos hc]
      obtain ⟨h1, h2⟩ := ih (i + 1) (acc ++ [galEl N (shlInt i)]) (by omega)
      refine ⟨fun x hx => h1 x (by simp [hx]), ?_⟩
      intro i' hi' hl
      rcases Nat.eq_or_lt_of_le hi' with heq | hgt
      · subst heq; exact h1 _ (by simp)
      · exact h2 i' (by omega) hl
    · rw [if_neg hc]
      exact ⟨fun x hx => hx, fun i' h1 h2 => by omega⟩

/-- `Trace` and `GaloisElementsForTrace` reject exactly the same arguments. -/
theorem trace_rejected (S : Ops α) (rt : RingType) (L : Nat) (v : α) (logN : Int)
    (h : logN < 0 ∨ logN > logRot rt L) :
    trace S rt L v logN = .err ∧ galoisElementsForTrace rt L logN = none := by
  unfold trace galoisElementsForTrace
  simp only
  rw [if_pos h, if_pos h]
  exact ⟨rfl, rfl⟩

/-- **`keys_sufficient` for `Trace`**: for every ring type, ring degree and every accepted
    `logN ∈ [0, logRot]`, `GaloisElementsForTrace(logN)` is defined and contains every key that
    `Trace(ct, logN)` looks up. -/
theorem trace_keys (S : Ops α) (rt : RingType) (L : Nat) (v : α) (logN : Int)
    (h0 : 0 ≤ logN) (h1 : logN ≤ logRot rt L) :
    ∃ l, galoisElementsForTrace rt L logN = some l ∧
      ∀ r ∈ (trace S rt L v logN).reqs, r ∈ l := by
  have hin : ¬ (logN < 0 ∨ logN > logRot rt L) := by omega
  have hmem := advTraceLoop_mem (nthRootOf rt L) (logRot rt L).toNat (logRot rt L - logN).toNat
    logN.toNat [] (by omega)
  -- the look-ups of Trace
  have hreq : ∀ r ∈ (trace S rt L v logN).reqs,
      (∃ i', logN.toNat ≤ i' ∧ i' < (logRot rt L).toNat ∧ r = galEl (nthRootOf rt L) (shlInt i')) ∨
      ((logN = 0 ∧ rt = .standard) ∧ r = nthRootOf rt L - 1) := by
    intro r hr
    unfold trace at hr
    simp only at hr
    rw [if_neg hin] at hr
    by_cases h2 : (if logN = 0 ∧ rt = .standard then wrapInt (shlInt (logRot rt L - logN).toNat * 2)
        else shlInt (logRot rt L - logN).toNat) > 1
    · rw [if_pos h2] at hr
      by_cases h4 : logN = 0 ∧ rt = .standard
      · rw [if_pos h4] at hr
        simp only [Res.reqs] at hr
        rcases mem_request hr with h | h
        · rcases traceLoop_reqs S _ _ _ logN.toNat _ [] r h with h | ⟨i', a, b, c⟩
          · simp at h
          · exact Or.inl ⟨i', a, b, c⟩
        · exact Or.inr ⟨h4, h⟩
      · rw [if_neg h4] at hr
        simp only [Res.reqs] at hr
        rcases traceLoop_reqs S _ _ _ logN.toNat _ [] r hr with h | ⟨i', a, b, c⟩
        · simp at h
        · exact Or.inl ⟨i', a, b, c⟩
    · rw [if_neg h2] at hr; simp [Res.reqs] at hr
  unfold galoisElementsForTrace
  simp only
  rw [if_neg hin]
  by_cases h4 : logN = 0 ∧ rt = .standard
  · rw [if_pos h4]
    refine ⟨_, rfl, ?_⟩
    intro r hr
    rcases hreq r hr with ⟨i', a, b, c⟩ | ⟨_, c⟩
    · rw [c]; exact List.mem_append_left _ (hmem.2 i' a b)
    · rw [c]; simp
  · rw [if_neg h4]
    refine ⟨_, rfl, ?_⟩
    intro r hr
    rcases hreq r hr with ⟨i', a, b, c⟩ | ⟨c, _⟩
    · rw [c]; exact hmem.2 i' a b
    · exact absurd c h4

/-! ### value -/

variable [AddCommMonoid α] {S : Ops α} {m : Nat}

/-- the doubling chain of `Trace`: started at turn `i` with the first `2^(i-l)` terms, it ends
    with the first `2^(B-l)` terms of `Σ_j rot(j·2^l) w`. -/
theorem traceLoop_spec (hS : Lawful S (2 ^ m)) (hm1 : 1 ≤ m) (hm : m ≤ 64) (B l : Nat) (hB : B ≤ 62)
    (w : α) : ∀ (fuel i : Nat) (out : α) (reqs : List Nat), l ≤ i → i ≤ B → B ≤ i + fuel →
      out = ∑ j ∈ range (2 ^ (i - l)), term S (2 ^ m) ((2 ^ l : Nat) : Int) w j →
      (traceLoop S (2 ^ m) B fuel i (out, reqs)).1
        = ∑ j ∈ range (2 ^ (B - l)), term S (2 ^ m) ((2 ^ l : Nat) : Int) w j := by
  intro fuel
  induction fuel with
  | zero =>
    intro i out reqs h1 h2 h3 hout
    have : i = B := by omega
    simp only [traceLoop]; rw [hout, this]
  | succ fu ih =>
    intro i out reqs h1 h2 h3 hout
    unfold traceLoop
    by_cases hc : i < B
    · rw [if_pos hc]
      apply ih (i + 1) _ _ (by omega) (by omega) (by omega)
      rw [hS.add_eq, hout, shlInt_eq i (by omega)]
      have hsplit : ((2 ^ i : Nat) : Int) = ((2 ^ (i - l) : Nat) : Int) * ((2 ^ l : Nat) : Int) := by
        rw [← Nat.cast_mul, ← pow_add]; congr 2; omega
      have := double_block hS hm1 hm ((2 ^ l : Nat) : Int) w (2 ^ (i - l))
      unfold rot at this
      rw [hsplit, this]
      congr 2
      rw [show i + 1 - l = (i - l) + 1 by omega, pow_succ]; ring
    · rw [if_neg hc]
      have : i = B := by omega
      simp only; rw [hout, this]

/-- General form: `R = log2 #rotations`, `logN < R`, not the full trace of the standard ring. -/
theorem trace_spec_gen (rt : RingType) (L R logN : Nat) (hN : nthRootOf rt L = 2 ^ m)
    (hR : logRot rt L = (R : Int)) (hS : Lawful S (2 ^ m)) (hm1 : 1 ≤ m) (hm : m ≤ 64)
    (hR62 : R ≤ 62) (hlt : logN < R) (hnz : ¬ (logN = 0 ∧ rt = .standard)) (v : α) :
    (trace S rt L v (logN : Int)).val?
      = some (∑ j ∈ range (2 ^ (R - logN)),
          rot S (2 ^ m) ((j : Int) * ((2 ^ logN : Nat) : Int)) (S.scaleInv (2 ^ (R - logN)) v)) := by
  unfold trace
  simp only [hN, hR]
  rw [if_neg (by omega)]
  have hsh : ((R : Int) - (logN : Int)).toNat = R - logN := by omega
  have hnz' : ¬ ((logN : Int) = 0 ∧ rt = .standard) := by
    intro h; exact hnz ⟨by omega, h.2⟩
  have hgap : (1 : Int) < ((2 ^ (R - logN) : Nat) : Int) := by
    have : 1 < 2 ^ (R - logN) := Nat.one_lt_two_pow (by omega)
    exact_mod_cast this
  simp only [hsh, shlInt_eq _ (show R - logN ≤ 62 by omega), hnz', if_false, gt_iff_lt, hgap, if_true,
    Int.toNat_natCast, Res.val?]
  have := traceLoop_spec hS hm1 hm R logN hR62 (S.scaleInv (2 ^ (R - logN)) v)
    (R - logN) logN (S.scaleInv (2 ^ (R - logN)) v) [] (le_refl _) (by omega) (by omega)
    (by simp [term, rot_zero hS hm1 hm])
  rw [this]; rfl

/-- **`trace_spec` (standard ring, `0 < logN < L-1`)**: normalised sum over the `2^(L-1-logN)`
    rotations by multiples of `2^logN`. -/
theorem trace_spec_pos (L : Nat) (hS : Lawful S (2 ^ (L + 1))) (hL : L ≤ 62) (v : α) (logN : Nat)
    (h0 : 0 < logN) (hlt : logN + 1 < L) :
    (trace S .standard L v (logN : Int)).val?
      = some (∑ j ∈ range (2 ^ (L - 1 - logN)),
          rot S (2 ^ (L + 1)) ((j : Int) * ((2 ^ logN : Nat) : Int)) (S.scaleInv (2 ^ (L - 1 - logN)) v)) :=
  trace_spec_gen .standard L (L - 1) logN rfl (by simp [logRot]; omega) hS (by omega) (by omega) (by omega)
    (by omega) (by omega) v

/-- **`trace_spec` (conjugate-invariant ring, `0 ≤ logN < L`)**: normalised sum over the
    `2^(L-logN)` rotations by multiples of `2^logN` — the subgroup of index `2^logN` of the
    rotation group of order `N = 2^L`; `logN = 0` is the full trace (no order-two element). -/
theorem trace_spec_ci (L : Nat) (hS : Lawful S (2 ^ (L + 2))) (hL : L ≤ 62) (v : α) (logN : Nat)
    (hlt : logN < L) :
    (trace S .conjugateInvariant L v (logN : Int)).val?
      = some (∑ j ∈ range (2 ^ (L - logN)),
          rot S (2 ^ (L + 2)) ((j : Int) * ((2 ^ logN : Nat) : Int)) (S.scaleInv (2 ^ (L - logN)) v)) :=
  trace_spec_gen .conjugateInvariant L L logN rfl (by simp [logRot]) hS (by omega) (by omega) hL
    hlt (by simp) v

/-- **`trace_spec` (standard ring, `logN = 0`)**: all `2^(L-1)` rotations, then the order-two
    element, normalised by `gap = 2^L = N`. -/
theorem trace_spec_zero (L : Nat) (hS : Lawful S (2 ^ (L + 1))) (hL1 : 1 ≤ L) (hL : L ≤ 62) (v : α) :
    (trace S .standard L v 0).val?
      = some (let u := ∑ j ∈ range (2 ^ (L - 1)),
                rot S (2 ^ (L + 1)) ((j : Int) * ((2 ^ 0 : Nat) : Int)) (S.scaleInv (2 ^ L) v)
              u + S.aut (2 ^ (L + 1) - 1) u) := by
  unfold trace
  have hR : logRot .standard L = ((L - 1 : Nat) : Int) := by simp [logRot]; omega
  simp only [nthRootOf, hR]
  rw [if_neg (by omega)]
  have hsh : (((L - 1 : Nat) : Int) - 0).toNat = L - 1 := by omega
  have hdouble : wrapInt (((2 ^ (L - 1) : Nat) : Int) * 2) = ((2 ^ L : Nat) : Int) := by
    have h1 : ((2 ^ (L - 1) : Nat) : Int) * 2 = ((2 ^ L : Nat) : Int) := by
      rw [show L = (L - 1) + 1 by omega, pow_succ]; push_cast; simp
    rw [h1]
    have h2 : (2 : Int) ^ L ≤ 2 ^ 62 := pow_le_pow_right₀ (by norm_num) hL
    have hp : (0 : Int) < 2 ^ L := by positivity
    push_cast
    apply wrapInt_of_small <;> norm_num at h2 ⊢ <;> omega
  have hgap : (1 : Int) < ((2 ^ L : Nat) : Int) := by
    have : 1 < 2 ^ L := Nat.one_lt_two_pow (by omega)
    exact_mod_cast this
  simp only [hsh, shlInt_eq _ (show L - 1 ≤ 62 by omega), and_self, if_true, hdouble, gt_iff_lt, hgap,
    Int.toNat_natCast, Int.toNat_zero, Res.val?]
  have := traceLoop_spec hS (by omega) (by omega) (L - 1) 0 (by omega) (S.scaleInv (2 ^ L) v)
    (L - 1) 0 (S.scaleInv (2 ^ L) v) [] (le_refl _) (by omega) (by omega)
    (by simp [term, rot_zero hS (by omega) (by omega)])
  rw [this, hS.add_eq]; rfl

omit [AddCommMonoid α] in
/-- `logN = log2 #rotations` (and not the one-slot standard ring): nothing to sum, `Trace` copies. -/
theorem trace_spec_top (S : Ops α) (rt : RingType) (L : Nat) (v : α) (logN : Int)
    (h : logN = logRot rt L) (h0 : 0 ≤ logN) (hnz : ¬ (logN = 0 ∧ rt = .standard)) :
    (trace S rt L v logN).val? = some v := by
  unfold trace
  simp only
  rw [if_neg (by omega), h]
  simp only [sub_self, Int.toNat_zero]
  have hnz' : ¬ (logRot rt L = 0 ∧ rt = .standard) := by rw [← h]; exact hnz
  simp [shlInt, wrapInt, hnz', Res.val?]

end Lattigo.Proofs.InnerSum
