/-
  C11 proofs, part 8: `Trace` — value and advertised keys.
-/
import Lattigo.Proofs.InnerSum
import Lattigo.Proofs.InnerSumKeys

namespace Lattigo.Proofs.InnerSum
open Lattigo Lattigo.Model.Galois Lattigo.Model.InnerSum Lattigo.Proofs.Galois
open Finset

variable {α : Type}

theorem shlInt_eq (i : Nat) (hi : i ≤ 62) : shlInt i = ((2 ^ i : Nat) : Int) := by
  unfold shlInt
  rw [if_neg (by omega)]
  have h : (2 : Int) ^ i ≤ 2 ^ 62 := pow_le_pow_right₀ (by norm_num) hi
  have hp : (0 : Int) < 2 ^ i := by positivity
  push_cast
  apply wrapInt_of_small <;> norm_num at h ⊢ <;> omega

/-! ### keys -/

theorem traceLoop_reqs (S : Ops α) (N L : Nat) : ∀ (fuel i : Nat) (out : α) (reqs : List Nat),
    ∀ r ∈ (traceLoop S N L fuel i (out, reqs)).2,
      r ∈ reqs ∨ ∃ i', i ≤ i' ∧ i' + 1 < L ∧ r = galEl N (shlInt i') := by
  intro fuel
  induction fuel with
  | zero => intro i out reqs r hr; exact Or.inl (by simpa [traceLoop] using hr)
  | succ fu ih =>
    intro i out reqs r hr
    unfold traceLoop at hr
    by_cases h : i + 1 < L
    · rw [if_pos h] at hr
      rcases ih (i + 1) _ _ r hr with h1 | ⟨i', h1, h2, h3⟩
      · rcases mem_request h1 with h1 | h1
        · exact Or.inl h1
        · exact Or.inr ⟨i, le_refl _, h, h1⟩
      · exact Or.inr ⟨i', by omega, h2, h3⟩
    · rw [if_neg h] at hr; exact Or.inl hr

theorem advTraceLoop_mem (N L : Nat) : ∀ (fuel i : Nat) (acc : List Nat), L ≤ i + fuel + 1 →
    (∀ x ∈ acc, x ∈ advTraceLoop N L fuel i acc) ∧
    ∀ i', i ≤ i' → i' + 1 < L → galEl N (shlInt i') ∈ advTraceLoop N L fuel i acc := by
  intro fuel
  induction fuel with
  | zero =>
    intro i acc h
    exact ⟨fun x hx => by simpa [advTraceLoop] using hx, fun i' h1 h2 => by omega⟩
  | succ fu ih =>
    intro i acc h
    unfold advTraceLoop
    by_cases hc : i + 1 < L
    · rw [if_pos hc]
      obtain ⟨h1, h2⟩ := ih (i + 1) (acc ++ [galEl N (shlInt i)]) (by omega)
      refine ⟨fun x hx => h1 x (by simp [hx]), ?_⟩
      intro i' hi' hl
      rcases Nat.eq_or_lt_of_le hi' with heq | hgt
      · subst heq; exact h1 _ (by simp)
      · exact h2 i' (by omega) hl
    · rw [if_neg hc]
      exact ⟨fun x hx => hx, fun i' h1 h2 => by omega⟩

/-- **`keys_sufficient` for `Trace`**: whenever `GaloisElementsForTrace(logN)` returns a list
    (it panics for `logN < 0`, and for `logN = 0` on the conjugate-invariant ring), that list
    contains every key `Trace(ct, logN)` looks up.  For every ring degree, ring type, `logN`. -/
theorem trace_keys (S : Ops α) (rt : RingType) (L : Nat) (v : α) (logN : Int) :
    ∀ l, galoisElementsForTrace rt L logN = some l →
      ∀ r ∈ (trace S rt L v logN).reqs, r ∈ l := by
  intro l hl r hr
  -- the look-ups of Trace
  have hreq : 0 ≤ logN ∧ ((∃ i', logN.toNat ≤ i' ∧ i' + 1 < L ∧ r = galEl (nthRootOf rt L) (shlInt i')) ∨
      (logN = 0 ∧ rt = .standard ∧ r = nthRootOf rt L - 1)) := by
    unfold trace at hr
    simp only at hr
    by_cases h1 : (L : Int) - logN - 1 < 0
    · rw [if_pos h1] at hr; simp [Res.reqs] at hr
    · rw [if_neg h1] at hr
      by_cases h2 : (if logN = 0 then wrapInt (shlInt ((L : Int) - logN - 1).toNat * 2)
          else shlInt ((L : Int) - logN - 1).toNat) > 1
      · rw [if_pos h2] at hr
        by_cases h3 : logN < 0
        · rw [if_pos h3] at hr; simp [Res.reqs] at hr
        · rw [if_neg h3] at hr
          refine ⟨by omega, ?_⟩
          by_cases h4 : logN = 0 ∧ rt = .standard
          · rw [if_pos h4] at hr
            simp only [Res.reqs] at hr
            rcases mem_request hr with h | h
            · rcases traceLoop_reqs S _ L L logN.toNat _ [] r h with h | ⟨i', a, b, c⟩
              · simp at h
              · exact Or.inl ⟨i', a, b, c⟩
            · exact Or.inr ⟨h4.1, h4.2, h⟩
          · rw [if_neg h4] at hr
            simp only [Res.reqs] at hr
            rcases traceLoop_reqs S _ L L logN.toNat _ [] r hr with h | ⟨i', a, b, c⟩
            · simp at h
            · exact Or.inl ⟨i', a, b, c⟩
      · rw [if_neg h2] at hr; simp [Res.reqs] at hr
  obtain ⟨hnn, hreq⟩ := hreq
  -- the advertised list
  unfold galoisElementsForTrace at hl
  simp only at hl
  rw [if_neg (by omega)] at hl
  have hmem := advTraceLoop_mem (nthRootOf rt L) L L logN.toNat [] (by omega)
  by_cases h0 : logN = 0
  · rw [if_pos h0] at hl
    cases rt with
    | standard =>
      simp only [orderTwo] at hl
      injection hl with hl
      rw [← hl]
      rcases hreq with ⟨i', a, b, c⟩ | ⟨_, _, c⟩
      · rw [c]; exact List.mem_append_left _ (hmem.2 i' a b)
      · rw [c]; simp
    | conjugateInvariant => simp [orderTwo] at hl
  · rw [if_neg h0] at hl
    injection hl with hl
    rw [← hl]
    rcases hreq with ⟨i', a, b, c⟩ | ⟨c, _, _⟩
    · rw [c]; exact hmem.2 i' a b
    · exact absurd c h0

/-! ### value -/

variable [AddCommMonoid α] {S : Ops α} {m : Nat}

/-- the doubling chain of `Trace`: started at turn `i` with the first `2^(i-l)` terms, it ends
    with the first `2^(L-1-l)` terms of `Σ_j rot(j·2^l) w`. -/
theorem traceLoop_spec (hS : Lawful S (2 ^ m)) (hm1 : 1 ≤ m) (hm : m ≤ 64) (L l : Nat) (hL : L ≤ 63)
    (w : α) : ∀ (fuel i : Nat) (out : α) (reqs : List Nat), l ≤ i → i + 1 ≤ L → L ≤ i + fuel + 1 →
      out = ∑ j ∈ range (2 ^ (i - l)), term S (2 ^ m) ((2 ^ l : Nat) : Int) w j →
      (traceLoop S (2 ^ m) L fuel i (out, reqs)).1
        = ∑ j ∈ range (2 ^ (L - 1 - l)), term S (2 ^ m) ((2 ^ l : Nat) : Int) w j := by
  intro fuel
  induction fuel with
  | zero =>
    intro i out reqs h1 h2 h3 hout
    have : i = L - 1 := by omega
    simp only [traceLoop]; rw [hout, this]
  | succ fu ih =>
    intro i out reqs h1 h2 h3 hout
    unfold traceLoop
    by_cases hc : i + 1 < L
    · rw [if_pos hc]
      apply ih (i + 1) _ _ (by omega) (by omega) (by omega)
      rw [hS.add_eq, hout, shlInt_eq i (by omega)]
      have hsplit : ((2 ^ i : Nat) : Int) = ((2 ^ (i - l) : Nat) : Int) * ((2 ^ l : Nat) : Int) := by
        rw [← Nat.cast_mul, ← pow_add]; congr 2; omega
      have := double_block hS hm1 hm ((2 ^ l : Nat) : Int) w (2 ^ (i - l))
      unfold rot at this
      rw [hsplit, this]
      congr 2
      rw [show i + 1 - l = (i - l) + 1 by omega, pow_succ]; ring
    · rw [if_neg hc]
      have : i = L - 1 := by omega
      simp only; rw [hout, this]

/-- **`trace_spec` (standard ring, `0 < logN`).**  `Trace(ct, logN)` on a ring of degree `2^L`
    returns `Σ_{j < 2^(L-1-logN)} rot(j·2^logN) (gap⁻¹·ct)` with `gap = 2^(L-1-logN)`:
    the (normalised) sum over the subgroup of rotations by multiples of `2^logN`. -/
theorem trace_spec_pos (L : Nat) (hS : Lawful S (2 ^ (L + 1))) (hL : L ≤ 62) (v : α) (logN : Nat)
    (h0 : 0 < logN) (hlt : logN + 1 < L) :
    (trace S .standard L v (logN : Int)).val?
      = some (∑ j ∈ range (2 ^ (L - 1 - logN)),
          rot S (2 ^ (L + 1)) ((j : Int) * ((2 ^ logN : Nat) : Int)) (S.scaleInv (2 ^ (L - 1 - logN)) v)) := by
  unfold trace
  have hsh : ((L : Int) - (logN : Int) - 1) = ((L - 1 - logN : Nat) : Int) := by omega
  simp only [nthRootOf]
  rw [if_neg (by omega), hsh, Int.toNat_natCast, shlInt_eq _ (by omega)]
  have hne : ¬ ((logN : Int) = 0) := by omega
  have hgap : (1 : Int) < ((2 ^ (L - 1 - logN) : Nat) : Int) := by
    have : 1 < 2 ^ (L - 1 - logN) := Nat.one_lt_two_pow (by omega)
    exact_mod_cast this
  simp only [hne, if_false, hgap, if_true, false_and, reduceCtorEq]
  rw [if_neg (by omega)]
  simp only [Int.toNat_natCast, Res.val?]
  have := traceLoop_spec hS (by omega) (by omega) L logN (by omega) (S.scaleInv (2 ^ (L - 1 - logN)) v)
    L logN (S.scaleInv (2 ^ (L - 1 - logN)) v) [] (le_refl _) (by omega) (by omega)
    (by simp [term, rot_zero hS (by omega) (by omega)])
  rw [this]; rfl

/-- **`trace_spec` (standard ring, `logN = 0`).**  The full trace: all `2^(L-1)` rotations, then
    the order-two element, normalised by `gap = 2^L = N`. -/
theorem trace_spec_zero (L : Nat) (hS : Lawful S (2 ^ (L + 1))) (hL1 : 2 ≤ L) (hL : L ≤ 62) (v : α) :
    (trace S .standard L v 0).val?
      = some (let u := ∑ j ∈ range (2 ^ (L - 1)),
                rot S (2 ^ (L + 1)) ((j : Int) * ((2 ^ 0 : Nat) : Int)) (S.scaleInv (2 ^ L) v)
              u + S.aut (2 ^ (L + 1) - 1) u) := by
  unfold trace
  have hsh : ((L : Int) - (0 : Int) - 1) = ((L - 1 : Nat) : Int) := by omega
  simp only [nthRootOf]
  rw [if_neg (by omega), hsh, Int.toNat_natCast, shlInt_eq _ (by omega)]
  have hdouble : wrapInt (((2 ^ (L - 1) : Nat) : Int) * 2) = ((2 ^ L : Nat) : Int) := by
    have h1 : ((2 ^ (L - 1) : Nat) : Int) * 2 = ((2 ^ L : Nat) : Int) := by
      rw [show L = (L - 1) + 1 by omega, pow_succ]; push_cast; simp
    rw [h1]
    have h2 : (2 : Int) ^ L ≤ 2 ^ 62 := pow_le_pow_right₀ (by norm_num) hL
    have hp : (0 : Int) < 2 ^ L := by positivity
    push_cast
    apply wrapInt_of_small <;> norm_num at h2 ⊢ <;> omega
  have hgap : (1 : Int) < ((2 ^ L : Nat) : Int) := by
    have : 1 < 2 ^ L := Nat.one_lt_two_pow (by omega)
    exact_mod_cast this
  simp only [if_true, hdouble, hgap, reduceCtorEq, if_false, and_self, Int.toNat_natCast,
    Int.toNat_zero, lt_self_iff_false]
  simp only [Res.val?]
  have := traceLoop_spec hS (by omega) (by omega) L 0 (by omega) (S.scaleInv (2 ^ L) v)
    L 0 (S.scaleInv (2 ^ L) v) [] (le_refl _) (by omega) (by omega)
    (by simp [term, rot_zero hS (by omega) (by omega)])
  rw [this, hS.add_eq]; rfl

omit [AddCommMonoid α] in
/-- `logN = L-1`: nothing to sum, `Trace` copies its input. -/
theorem trace_spec_top (S : Ops α) (rt : RingType) (L : Nat) (hL1 : 2 ≤ L) (hL : L ≤ 62) (v : α) :
    (trace S rt L v ((L - 1 : Nat) : Int)).val? = some v := by
  unfold trace
  have hsh : ((L : Int) - ((L - 1 : Nat) : Int) - 1) = 0 := by omega
  simp only
  rw [if_neg (by omega), hsh]
  have hne : ¬ (L - 1 = 0) := by omega
  simp [shlInt, wrapInt, hne, Res.val?]

end Lattigo.Proofs.InnerSum
