/-
  C16 — collective key switching, share conversion, refresh: algebra for every commutative ring,
  plus the two integer lemmas behind the plaintext-space maps (BGV `RingQ2T`, CKKS mask rescaling).
-/
import Mathlib.Tactic.Ring
import Mathlib.Tactic.Linarith
import Mathlib.Algebra.Order.Group.Abs
import Mathlib.Data.Int.ModEq
import Lattigo.Proofs.MPKeys
import Lattigo.Model.MPSwitch

namespace Lattigo.MP

section ring
variable {α : Type} [CommRing α]

/-! ### key switching -/

theorem cksShare_add (c1 sIn sOut e sIn' sOut' e' : α) :
    cksShare c1 sIn sOut e + cksShare c1 sIn' sOut' e' =
      cksShare c1 (sIn + sIn') (sOut + sOut') (e + e') := by
  unfold cksShare; ring

theorem cks_tree (c1 : α) (sIn sOut e : Nat → α) (t : AggTree) :
    t.eval (· + ·) (fun i => cksShare c1 (sIn i) (sOut i) (e i)) =
      cksShare c1 (t.eval (· + ·) sIn) (t.eval (· + ·) sOut) (t.eval (· + ·) e) := by
  induction t with
  | leaf i => rfl
  | node l r ihl ihr => simp only [AggTree.eval, ihl, ihr, cksShare_add]

theorem cks_phase_single (c0 c1 sIn sOut e : α) :
    phase (c0 + cksShare c1 sIn sOut e) c1 sOut = phase c0 c1 sIn + e := by
  unfold phase cksShare; ring

/-! ### public-key switching -/

theorem pcksShare_add (z z' : α × α) (c1 s e s' e' : α) :
    pcksAggregate (pcksShare z c1 s e) (pcksShare z' c1 s' e') =
      pcksShare (z.1 + z'.1, z.2 + z'.2) c1 (s + s') (e + e') := by
  unfold pcksAggregate pcksShare
  ext
  · simp; ring
  · simp

theorem pcks_tree (c1 : α) (z : Nat → α × α) (s e : Nat → α) (t : AggTree) :
    t.eval pcksAggregate (fun i => pcksShare (z i) c1 (s i) (e i)) =
      pcksShare (t.eval (· + ·) (fun i => (z i).1), t.eval (· + ·) (fun i => (z i).2)) c1
        (t.eval (· + ·) s) (t.eval (· + ·) e) := by
  induction t with
  | leaf i => rfl
  | node l r ihl ihr => simp only [AggTree.eval, ihl, ihr, pcksShare_add]

theorem pcks_phase_single (c0 c1 s e sOut : α) (z : α × α) :
    phase (pcksKeySwitch c0 (pcksShare z c1 s e)).1 (pcksKeySwitch c0 (pcksShare z c1 s e)).2 sOut =
      phase c0 c1 s + e + phase z.1 z.2 sOut := by
  unfold phase pcksKeySwitch pcksShare; ring

/-- noise of the encryption of zero under `pk` with `phase(pk, sOut) = epk`, after the division by P
    (`pinv·P = 1`; `d0, d1` the centred lifts of the P-residues, so that the bracket is divisible by P) -/
theorem encZeroPk_phase (pinv pk0 pk1 u e0 e1 d0 d1 sOut epk : α) (hpk : phase pk0 pk1 sOut = epk) :
    phase (encZeroPk pinv pk0 pk1 u e0 e1 d0 d1).1 (encZeroPk pinv pk0 pk1 u e0 e1 d0 d1).2 sOut =
      pinv * (u * epk + e0 + e1 * sOut - d0 - d1 * sOut) := by
  subst hpk
  unfold phase encZeroPk; ring

theorem encZeroPkNoP_phase (pk0 pk1 u e0 e1 sOut epk : α) (hpk : phase pk0 pk1 sOut = epk) :
    phase (encZeroPkNoP pk0 pk1 u e0 e1).1 (encZeroPkNoP pk0 pk1 u e0 e1).2 sOut =
      u * epk + e0 + e1 * sOut := by
  subst hpk
  unfold phase encZeroPkNoP; ring

/-! ### share conversion -/

theorem e2sShare_add (c1 s e m s' e' m' : α) :
    e2sShare 0 c1 s e m + e2sShare 0 c1 s' e' m' = e2sShare 0 c1 (s + s') (e + e') (m + m') := by
  unfold e2sShare cksShare; ring

theorem e2s_tree (c1 : α) (s e m : Nat → α) (t : AggTree) :
    t.eval (· + ·) (fun i => e2sShare 0 c1 (s i) (e i) (m i)) =
      e2sShare 0 c1 (t.eval (· + ·) s) (t.eval (· + ·) e) (t.eval (· + ·) m) := by
  induction t with
  | leaf i => rfl
  | node l r ihl ihr => simp only [AggTree.eval, ihl, ihr, e2sShare_add]

theorem e2s_masked_single (c0 c1 s e m : α) :
    e2sMasked c0 (e2sShare 0 c1 s e m) = phase c0 c1 s + e - m := by
  unfold e2sMasked e2sShare cksShare phase; ring

theorem s2eShare_add (a s e m s' e' m' : α) :
    s2eShare 0 a s e m + s2eShare 0 a s' e' m' = s2eShare 0 a (s + s') (e + e') (m + m') := by
  unfold s2eShare cksShare; ring

theorem s2e_tree (a : α) (s e m : Nat → α) (t : AggTree) :
    t.eval (· + ·) (fun i => s2eShare 0 a (s i) (e i) (m i)) =
      s2eShare 0 a (t.eval (· + ·) s) (t.eval (· + ·) e) (t.eval (· + ·) m) := by
  induction t with
  | leaf i => rfl
  | node l r ihl ihr => simp only [AggTree.eval, ihl, ihr, s2eShare_add]

theorem s2e_phase_single (a s e m : α) : phase (s2eShare 0 a s e m) a s = m + e := by
  unfold phase s2eShare cksShare; ring

/-- an additive map commutes with aggregation along a tree -/
theorem tree_addHom (T : α →+ α) (t : AggTree) (m : Nat → α) :
    t.eval (· + ·) (fun i => T (m i)) = T (t.eval (· + ·) m) := by
  induction t with
  | leaf i => rfl
  | node l r ihl ihr => simp only [AggTree.eval, ihl, ihr, map_add]

end ring

/-! ### validated aggregation of key-switch shares -/

section validated
variable {α : Type} [Add α]

theorem cks_evalM_levels (lvl : Nat) (sh : Nat → LShare α) (t : AggTree)
    (h : ∀ i ∈ t.leaves, (sh i).level = lvl) :
    ∃ g, t.evalM (fun x y => cksAggregate x y x) sh = .ok g ∧ g.level = lvl ∧
      g.v = t.eval (· + ·) (fun i => (sh i).v) := by
  induction t with
  | leaf i => exact ⟨sh i, rfl, h i (by simp [AggTree.leaves]), rfl⟩
  | node l r ihl ihr =>
    obtain ⟨gl, hl, ll, vl⟩ := ihl (fun i hi => h i (by simp [AggTree.leaves, hi]))
    obtain ⟨gr, hr, lr, vr⟩ := ihr (fun i hi => h i (by simp [AggTree.leaves, hi]))
    refine ⟨⟨gl.level, gl.v + gr.v⟩, ?_, ll, ?_⟩
    · simp only [AggTree.evalM]
      rw [hl, hr]
      simp [Res.bind, cksAggregate, ll, lr]
    · simp [AggTree.eval, vl, vr]

end validated

/-! ### BGV: `RingQ2T` is "centred representative modulo Q, then modulo t" -/

theorem q2t_centred (Q T x : Nat) (v : Int) (hQ : 0 < Q) (hT : 0 < T)
    (hx : v ≡ (x * T : Nat) [ZMOD Q]) (hlo : -((Q / 2 : Nat) : Int) ≤ v)
    (hhi : v < (Q : Int) - ((Q / 2 : Nat) : Int)) :
    ((q2tCoeff Q T x : Nat) : Int) = v % T := by
  unfold q2tCoeff
  simp only []
  -- y = (x*T % Q + Q/2) % Q  is  v + Q/2
  have hy : (((x * T % Q + Q / 2) % Q : Nat) : Int) = v + ((Q / 2 : Nat) : Int) := by
    have h1 : ((x * T % Q + Q / 2 : Nat) : Int) ≡ v + ((Q / 2 : Nat) : Int) [ZMOD Q] := by
      have : ((x * T % Q : Nat) : Int) ≡ v [ZMOD Q] := by
        have h2 : ((x * T % Q : Nat) : Int) = ((x * T : Nat) : Int) % (Q : Int) := by
          simp
        rw [h2]
        exact (Int.mod_modEq _ _).trans hx.symm
      simpa [Nat.cast_add] using this.add_right _
    have h3 : (((x * T % Q + Q / 2) % Q : Nat) : Int) = ((x * T % Q + Q / 2 : Nat) : Int) % (Q : Int) := by
      simp
    rw [h3, h1.eq]
    apply Int.emod_eq_of_lt <;> omega
  have hQ2 : ((Q / 2 : Nat) : Int) = ((Q / 2 % T : Nat) : Int) + (T : Int) * ((Q / 2 / T : Nat) : Int) := by
    have := Nat.mod_add_div (Q / 2) T
    exact_mod_cast this.symm
  have hr : ((Q / 2 % T : Nat) : Int) < T := by exact_mod_cast Nat.mod_lt _ hT
  have hyT : (((x * T % Q + Q / 2) % Q % T : Nat) : Int) = (v + ((Q / 2 : Nat) : Int)) % (T : Int) := by
    rw [← hy]; simp
  have hlt : (x * T % Q + Q / 2) % Q % T < T := Nat.mod_lt _ hT
  have hle : Q / 2 % T ≤ T := le_of_lt (Nat.mod_lt _ hT)
  have : ((((x * T % Q + Q / 2) % Q % T + T - Q / 2 % T) % T : Nat) : Int) =
      ((v + ((Q / 2 : Nat) : Int)) % (T : Int) + (T : Int) - ((Q / 2 % T : Nat) : Int)) % (T : Int) := by
    rw [← hyT]
    have : (x * T % Q + Q / 2) % Q % T + T - Q / 2 % T =
        (x * T % Q + Q / 2) % Q % T + (T - Q / 2 % T) := by omega
    rw [this]
    push_cast [Nat.cast_sub hle]
    congr 1
    ring
  rw [this]
  have e1 : ((v + ((Q / 2 : Nat) : Int)) % (T : Int) + (T : Int) - ((Q / 2 % T : Nat) : Int)) % (T : Int)
      = (v + ((Q / 2 : Nat) : Int) - ((Q / 2 % T : Nat) : Int)) % (T : Int) := by
    rw [Int.sub_emod, Int.add_emod, Int.emod_emod_of_dvd _ (dvd_refl _), Int.emod_self, add_zero,
      Int.emod_emod_of_dvd _ (dvd_refl _), ← Int.sub_emod]
  rw [e1]
  have e2 : v + ((Q / 2 : Nat) : Int) - ((Q / 2 % T : Nat) : Int) = v + (T : Int) * ((Q / 2 / T : Nat) : Int) := by
    rw [hQ2]; ring
  rw [e2, Int.add_mul_emod_self_left]

/-! ### CKKS: rescaling the shares one by one loses less than one unit per share -/

theorem tdiv_err (y S : Int) (hS : 0 < S) : |S * Int.tdiv y S - y| < S := by
  have h := Int.mul_tdiv_add_tmod y S
  have h2 : S * Int.tdiv y S - y = -(Int.tmod y S) := by omega
  rw [h2, abs_neg]
  have := Int.tmod_lt_of_pos y hS
  have hneg : -S < Int.tmod y S := by
    rcases Int.le_total 0 y with hy | hy
    · have := Int.tmod_nonneg S hy; omega
    · have h3 : Int.tmod y S = -(Int.tmod (-y) S) := by simp [Int.neg_tmod]
      have h4 := Int.tmod_lt_of_pos (-y) hS
      omega
  exact abs_lt.mpr ⟨hneg, this⟩

/-- `Σ ⌊x_i·D / S⌋` (truncated) differs from `(Σ x_i)·D / S` by less than one unit per term -/
theorem rescale_sum_err (D S : Int) (hS : 0 < S) (xs : List Int) :
    |S * (rescaleMask D S xs).sum - D * xs.sum| ≤ xs.length * S := by
  induction xs with
  | nil => simp [rescaleMask]
  | cons x xs ih =>
    simp only [rescaleMask, List.map_cons, List.sum_cons, List.length_cons] at ih ⊢
    have h1 := tdiv_err (x * D) S hS
    have : S * (Int.tdiv (x * D) S + (List.map (fun m => Int.tdiv (m * D) S) xs).sum) - D * (x + xs.sum) =
        (S * Int.tdiv (x * D) S - x * D) + (S * (List.map (fun m => Int.tdiv (m * D) S) xs).sum - D * xs.sum) := by
      ring
    rw [this]
    calc |(S * Int.tdiv (x * D) S - x * D) + (S * (List.map (fun m => Int.tdiv (m * D) S) xs).sum - D * xs.sum)|
        ≤ |S * Int.tdiv (x * D) S - x * D| + |S * (List.map (fun m => Int.tdiv (m * D) S) xs).sum - D * xs.sum| :=
          abs_add_le _ _
      _ ≤ S + xs.length * S := by
          have := le_of_lt h1
          linarith
      _ = ((xs.length : Int) + 1) * S := by ring
      _ = _ := by push_cast; ring

/-! ### minimum level for the refresh, exact arithmetic -/

theorem le_two_pow_clog2 (n : Nat) : n ≤ 2 ^ clog2 n := by
  unfold clog2
  split
  · omega
  · have := Nat.lt_log2_self (n := n - 1)
    omega

theorem primesNeeded_sound : ∀ (qs : List Nat) (bound acc k : Nat),
    primesNeeded bound acc qs = some k →
      bound ≤ acc * (qs.take k).prod ∧ (0 < k → acc * (qs.take (k - 1)).prod < bound)
  | [], bound, acc, k, h => by
      unfold primesNeeded at h
      split at h
      · cases h; simp; omega
      · simp at h
  | q :: rest, bound, acc, k, h => by
      unfold primesNeeded at h
      split at h
      · cases h; simp; omega
      · rename_i hlt
        simp only [Option.map_eq_some_iff] at h
        obtain ⟨k', hk', rfl⟩ := h
        obtain ⟨h1, h2⟩ := primesNeeded_sound rest bound (acc * q) k' hk'
        refine ⟨by simpa [List.take_succ_cons, Nat.mul_assoc] using h1, fun _ => ?_⟩
        rcases Nat.eq_zero_or_pos k' with rfl | hpos
        · simp; omega
        · have := h2 hpos
          obtain ⟨j, rfl⟩ : ∃ j, k' = j + 1 := ⟨k' - 1, by omega⟩
          simpa [List.take_succ_cons, Nat.mul_assoc] using this

/-! ### centred masks do not wrap -/

theorem abs_sum_le_of_abs_le (H : Int) (masks : List Int) (h : ∀ M ∈ masks, |M| ≤ H) :
    |masks.sum| ≤ masks.length * H := by
  induction masks with
  | nil => simp
  | cons M Ms ih =>
    have h1 := h M (by simp)
    have h2 := ih (fun x hx => h x (by simp [hx]))
    simp only [List.sum_cons, List.length_cons]
    calc |M + Ms.sum| ≤ |M| + |Ms.sum| := abs_add_le _ _
      _ ≤ H + Ms.length * H := by linarith
      _ = _ := by push_cast; ring

end Lattigo.MP
