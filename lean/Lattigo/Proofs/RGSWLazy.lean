/-
  C20 — the lazy accumulators of `externalProductInPlaceMultipleP` (`accSched`, `lazySlot`, `lazyMargin` of
  Model/RGSW.lean): the NO-WRAP condition of the unreduced 64-bit accumulation, per limb family, and that the
  code's schedules (`QiOverflowMargin >> 1`, `PiOverflowMargin >> 1`, each for its own family) satisfy it.
-/
import Lattigo.Model.RGSW
import Mathlib.Tactic.Ring
import Mathlib.Tactic.Linarith

namespace Lattigo.RGSW
open Lattigo

theorem succ_mod_cases (F cnt : Nat) (hF : 1 ≤ F) :
    (cnt % F = F - 1 → (cnt + 1) % F = 0) ∧ (cnt % F ≠ F - 1 → (cnt + 1) % F = cnt % F + 1) := by
  have hlt := Nat.mod_lt cnt (by omega : 0 < F)
  have h := Nat.add_mod cnt 1 F
  by_cases h1 : F = 1
  · subst h1; simp [Nat.mod_one]
  · have : 1 % F = 1 := Nat.mod_eq_of_lt (by omega)
    rw [this] at h
    constructor
    · intro e; rw [h, e, Nat.sub_add_cancel hF, Nat.mod_self]
    · intro e; rw [h, Nat.mod_eq_of_lt (by omega)]

/-- invariant of the schedule: `S` the exact sum of the terms consumed so far -/
theorem accSchedFrom_eq (p F B : Nat) (hp : 0 < p) (hF : 1 ≤ F) (hB : (p - 1) + F * B < W) :
    ∀ (ts : List Nat) (acc cnt S : Nat), (∀ t ∈ ts, t ≤ B) →
      acc % p = S % p → acc ≤ (p - 1) + (cnt % F) * B → (cnt % F = 0 → acc < p) → (cnt = 0 → acc = 0) →
      accSchedFrom p F acc cnt ts = (S + ts.sum) % p
  | [], acc, cnt, S, _, h1, _, h3, _ => by
      simp only [accSchedFrom, List.sum_nil, Nat.add_zero]
      by_cases hc : cnt % F = 0
      · simp only [hc, ne_eq, not_true_eq_false, if_false]
        rw [← h1, Nat.mod_eq_of_lt (h3 hc)]
      · simp only [hc, ne_eq, not_false_eq_true, if_true, h1]
  | t :: ts, acc, cnt, S, hts, h1, h2, h3, h0 => by
      have ht : t ≤ B := hts t List.mem_cons_self
      have hts' : ∀ t' ∈ ts, t' ≤ B := fun t' h => hts t' (List.mem_cons_of_mem _ h)
      have hlt := Nat.mod_lt cnt (by omega : 0 < F)
      have hjB : (cnt % F) * B + B ≤ F * B := by
        have : (cnt % F + 1) * B ≤ F * B := Nat.mul_le_mul_right B (by omega)
        rw [Nat.add_mul, Nat.one_mul] at this; exact this
      have hsum : acc + t < W := by omega
      have ha : (if cnt = 0 then t else u64add acc t) = acc + t := by
        by_cases hc0 : cnt = 0
        · simp only [hc0, if_true, h0 hc0, Nat.zero_add]
        · simp only [hc0, if_false, u64add, Nat.mod_eq_of_lt hsum]
      have hmod : (acc + t) % p = (S + t) % p := by
        rw [Nat.add_mod, h1, ← Nat.add_mod]
      have hsc := succ_mod_cases F cnt hF
      have hassoc : S + (t :: ts).sum = S + t + ts.sum := by
        simp only [List.sum_cons]; omega
      simp only [accSchedFrom, ha]
      rw [hassoc]
      by_cases hc : cnt % F = F - 1
      · simp only [hc, if_true]
        apply accSchedFrom_eq p F B hp hF hB ts _ _ (S + t) hts'
        · rw [Nat.mod_mod, hmod]
        · have := Nat.mod_lt (acc + t) hp
          rw [hsc.1 hc]; omega
        · intro _; exact Nat.mod_lt _ hp
        · intro h; omega
      · simp only [hc, if_false]
        apply accSchedFrom_eq p F B hp hF hB ts _ _ (S + t) hts'
        · exact hmod
        · rw [hsc.2 hc, Nat.add_mul, Nat.one_mul]; omega
        · intro h; rw [hsc.2 hc] at h; omega
        · intro h; omega

/-- **no-wrap condition of the lazy accumulation.**  If every term is at most `B` and a residue plus `F` terms
    fit a word, `(p − 1) + F·B < 2^64` (`F` accumulations between two reductions), the scheduled accumulator is the
    exact sum modulo `p` — whatever the schedule. -/
theorem accSched_eq (p F B : Nat) (hp : 0 < p) (hF : 1 ≤ F) (hB : (p - 1) + F * B < W)
    (ts : List Nat) (hts : ∀ t ∈ ts, t ≤ B) : accSched p F ts = ts.sum % p := by
  have := accSchedFrom_eq p F B hp hF hB ts 0 0 0 hts rfl (by omega) (fun _ => hp) (fun _ => rfl)
  simpa [accSched] using this

/-- the output of `MRedLazy(x, y)` is at most `q + ⌊x·y / 2^64⌋` (for `x, y < q ≤ 2^62`); the documented
    `[0, 2q−1]` is the case of arbitrary `x < 2^64` -/
theorem mredLazy_le (x y q mrc : Nat) (hx : x < q) (hy : y < q) (hq : q ≤ 2 ^ 62) (hq0 : 0 < q) :
    Gen.MRedLazy x y q mrc ≤ q + x * y / W := by
  have hW : W = 2 ^ 64 := W_eq
  have hxy : x * y < q * q := Nat.mul_lt_mul'' hx hy
  have hqq : q * q ≤ 2 ^ 62 * q := Nat.mul_le_mul_right q hq
  have hahi : x * y / W < q := by
    apply Nat.div_lt_of_lt_mul
    have : 2 ^ 62 * q ≤ W * q := Nat.mul_le_mul_right q (by rw [hW]; norm_num)
    omega
  have hH : ∀ m, m < W → m * q / W < q := fun m hm =>
    Nat.div_lt_of_lt_mul (Nat.mul_lt_mul_of_pos_right hm hq0)
  simp only [Gen.MRedLazy, mul64, u64mul, u64sub, u64add]
  have hm : x * y % W * mrc % W < W := Nat.mod_lt _ (by rw [hW]; positivity)
  have hH' := hH _ hm
  generalize x * y % W * mrc % W * q / W = H at *
  generalize x * y / W = ahi at *
  have hqW : q < W / 4 + 1 := by rw [hW]; omega
  have e1 : ahi % W = ahi := Nat.mod_eq_of_lt (by omega)
  have e2 : H % W = H := Nat.mod_eq_of_lt (by omega)
  rw [e1, e2, e2]
  unfold W at *
  omega

/-- **the code's schedule satisfies the condition**, per family: `p ≤ p_max < 2^61` (the moduli `rlwe` accepts),
    `F = ⌊(2^64−1)/p_max⌋ >> 1`, terms bounded by `p + ⌊p²/2^64⌋` (`mredLazy_le`) -/
theorem lazyMargin_ok (p pmax : Nat) (hp : 0 < p) (hle : p ≤ pmax) (hmax : 8 * pmax ≤ W) :
    1 ≤ (W - 1) / pmax / 2 ∧ (p - 1) + ((W - 1) / pmax / 2) * (p + p * p / W) < W := by
  have hpm : 0 < pmax := by omega
  have h1 : 7 ≤ (W - 1) / pmax := by
    rw [Nat.le_div_iff_mul_le hpm]; unfold W at *; omega
  generalize hM : (W - 1) / pmax = M at *
  have hMp : M * pmax ≤ W - 1 := by rw [← hM]; exact Nat.div_mul_le_self _ _
  have hF2 : 2 * (M / 2) ≤ M := Nat.mul_div_le M 2
  have hF1 : 1 ≤ M / 2 := by omega
  generalize M / 2 = F at *
  have hFp : 2 * (F * p) ≤ W - 1 := by
    have a1 : 2 * F * p ≤ M * p := Nat.mul_le_mul_right p hF2
    have a2 : M * p ≤ M * pmax := Nat.mul_le_mul_left M hle
    rw [Nat.mul_assoc] at a1; omega
  have h8 : 8 * p ≤ W := by omega
  have hd : 8 * (p * p / W) ≤ p := by
    have hdW : p * p / W * W ≤ p * p := Nat.div_mul_le_self _ _
    have h2 : p * p / W * (8 * p) ≤ p * p / W * W := Nat.mul_le_mul_left _ h8
    have h3 : 8 * (p * p / W) * p ≤ p * p := by
      calc 8 * (p * p / W) * p = p * p / W * (8 * p) := by ring
        _ ≤ p * p := Nat.le_trans h2 hdW
    exact Nat.le_of_mul_le_mul_right h3 hp
  generalize p * p / W = d at *
  have hFd : 8 * (F * d) ≤ F * p := by
    calc 8 * (F * d) = F * (8 * d) := by ring
      _ ≤ F * p := Nat.mul_le_mul_left F hd
  refine ⟨hF1, ?_⟩
  rw [Nat.mul_add]
  generalize F * p = A at *
  generalize F * d = D at *
  unfold W at *
  omega

theorem foldl_max_ge (l : List Nat) : ∀ init, init ≤ l.foldl max init ∧ ∀ x ∈ l, x ≤ l.foldl max init := by
  induction l with
  | nil => intro init; simp
  | cons a l ih =>
    intro init
    simp only [List.foldl_cons]
    obtain ⟨h1, h2⟩ := ih (max init a)
    refine ⟨Nat.le_trans (Nat.le_max_left _ _) h1, ?_⟩
    intro x hx
    rcases List.mem_cons.mp hx with rfl | hx
    · exact Nat.le_trans (Nat.le_max_right _ _) h1
    · exact h2 x hx

theorem foldl_max_le (b : Nat) (l : List Nat) : ∀ init, init ≤ b → (∀ x ∈ l, x ≤ b) → l.foldl max init ≤ b := by
  induction l with
  | nil => intro init h _; simpa using h
  | cons a l ih =>
    intro init h hl
    simp only [List.foldl_cons]
    exact ih _ (Nat.max_le.mpr ⟨h, hl a List.mem_cons_self⟩) (fun x hx => hl x (List.mem_cons_of_mem _ hx))

/-- **one limb of the external product with several auxiliary primes is exact**: `p` a prime of the family `fam`
    (all of at most 61 bits: `8·q ≤ 2^64`), stored values and digits reduced (`< p`): with the family's OWN margin
    `lazyMargin fam` the 64-bit accumulator never wraps and the slot is the exact sum of the lazy products modulo `p`. -/
theorem lazySlot_eq (p mrc : Nat) (fam : List Nat) (hp : 0 < p) (hmem : p ∈ fam) (hfam : ∀ q ∈ fam, 8 * q ≤ W)
    (rs cs : List Nat) (hr : ∀ r ∈ rs, r < p) (hc : ∀ c ∈ cs, c < p) :
    lazySlot p mrc (lazyMargin fam) rs cs =
      (List.zipWith (fun r c => Gen.MRedLazy r c p mrc) rs cs).sum % p := by
  have hge := (foldl_max_ge fam 0).2 p hmem
  have hle : 8 * fam.foldl max 0 ≤ W := by
    have := foldl_max_le (W / 8) fam 0 (Nat.zero_le _) (fun q hq => by have := hfam q hq; omega)
    omega
  obtain ⟨hF, hB⟩ := lazyMargin_ok p (fam.foldl max 0) hp hge hle
  have hp62 : p ≤ 2 ^ 62 := by have := hfam p hmem; unfold W at this; omega
  apply accSched_eq p (lazyMargin fam) (p + p * p / W) hp hF hB
  intro t ht
  obtain ⟨i, hi, rfl⟩ := List.mem_iff_getElem.mp ht
  simp only [List.length_zipWith, Nat.lt_min] at hi
  simp only [List.getElem_zipWith]
  have h1 := hr _ (List.getElem_mem hi.1)
  have h2 := hc _ (List.getElem_mem hi.2)
  have hb := mredLazy_le rs[i] cs[i] p mrc h1 h2 hp62 hp
  have hmono : rs[i] * cs[i] / W ≤ p * p / W :=
    Nat.div_le_div_right (Nat.mul_le_mul (Nat.le_of_lt h1) (Nat.le_of_lt h2))
  omega

end Lattigo.RGSW
