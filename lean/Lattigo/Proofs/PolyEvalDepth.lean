/-
  C13 — the depth of the evaluation: for every degree `d` on which the level-only run at the minimal
  input level `⌈log2(d+1)⌉` ends at level 0 (`depthOK d lazy`, a closed computation: checked here by
  kernel evaluation for all `d < 64`), EVERY run (any plaintext modulus, scales, coefficients, mapping,
  slot values, input level `L ≥ ⌈log2(d+1)⌉`) that does not stop on a scale check ends at level
  `L − ⌈log2(d+1)⌉` (`run_levels_simulated`).
-/
import Lattigo.Proofs.PolyEvalSim

namespace Lattigo.Model.PolyEval

/-- the level-only instances: basis, mode -/
def env0 (cheb inv : Bool) : Env := { t := 0, q := [], cheb := cheb, slots := 0, inv := inv }

/-- the level-only run of a degree-`d` polynomial at input level `L0` succeeds and ends at level `Lout` -/
def levelRunOK (cheb inv : Bool) (d : Nat) (lazy : Bool) (L0 : Nat) (Lout : Int) : Bool :=
  let r := run (env0 cheb inv) [List.replicate (d + 1) 0] none lazy L0 0 0 []
  r.2.1 == "ok" && r.2.2.map (·.level) == some Lout

/-- monomial basis, standard mode: from `⌈log2(d+1)⌉ = bits.Len64(d)` levels down to 0 -/
def depthOK (d : Nat) (lazy : Bool) : Bool := levelRunOK false false d lazy (bitLen d) 0

set_option maxRecDepth 100000 in
/-- test by kernel evaluation of the level-only machine: degrees 1 … 63, lazy or not -/
theorem depthOK_below_64 : ∀ d, d < 63 → ∀ lazy : Bool, depthOK (d + 1) lazy = true := by decide +kernel

/-- scale-invariant (BFV) mode: from input level 0 (every level is accepted), no level consumed -/
def bfvOK (d : Nat) (lazy : Bool) : Bool := levelRunOK false true d lazy 0 0

set_option maxRecDepth 100000 in
theorem bfvOK_below_64 : ∀ d, d < 63 → ∀ lazy : Bool, bfvOK (d + 1) lazy = true := by decide +kernel

/-- Chebyshev basis, standard mode -/
def chebOK (d : Nat) (lazy : Bool) : Bool := levelRunOK true false d lazy (bitLen d) 0

set_option maxRecDepth 100000 in
theorem chebOK_below_32 : ∀ d, d < 31 → ∀ lazy : Bool, chebOK (d + 1) lazy = true := by decide +kernel

theorem absEnv_eq (e : Env) (ho : e.odd = true) (he : e.even = true) : absEnv e = env0 e.cheb e.inv := by
  cases e
  simp only [absEnv, env0] at *
  subst ho; subst he; rfl

theorem bitLen_eq_clog (d : Nat) (hd : 1 ≤ d) : bitLen d = Nat.clog 2 (d + 1) := by
  have h := depth_arith d hd
  have h1 := bitLen_pos d hd
  unfold polynomialDepth at h
  omega

/-- from the closed check to every run -/
theorem levels_of_levelRunOK (e : Env) (ho : e.odd = true) (he : e.even = true) (d : Nat) (lazy : Bool)
    (L0 : Nat) (Lout : Int) (hok : levelRunOK e.cheb e.inv d lazy L0 Lout = true)
    (polys : List (List Int)) (hp : (polys.headD []).length = d + 1)
    (mapping : Option (List (List Nat))) (kn : Nat) (is ts : Nat) (x : List Int) :
    (∃ tr o, run e polys mapping lazy (L0 + kn) is ts x = (tr, "ok", some o) ∧ o.level = Lout + kn) ∨
    (¬ e.t = 0 ∧ ∃ tr er, run e polys mapping lazy (L0 + kn) is ts x = (tr, er, none)) := by
  unfold levelRunOK at hok
  simp only [Bool.and_eq_true, beq_iff_eq] at hok
  obtain ⟨hst, hlv⟩ := hok
  cases hr : run (env0 e.cheb e.inv) [List.replicate (d + 1) 0] none lazy L0 0 0 [] with
  | mk tr' rest =>
    obtain ⟨st', oo⟩ := rest
    rw [hr] at hst hlv
    simp only at hst hlv
    cases oo with
    | none => simp at hlv
    | some o' =>
      simp only [Option.map_some, Option.some.injEq] at hlv
      subst hst
      have hne : polys ≠ [] := by
        intro h0; rw [h0] at hp; simp at hp
      rw [← absEnv_eq e ho he] at hr
      rcases run_levels_simulated e polys [List.replicate (d + 1) 0] hne (by simp) (by rw [hp]; simp)
          mapping none lazy L0 kn is 0 ts 0 x [] tr' o' hr with ⟨tr, o, h1, h2, _⟩ | h
      · left; exact ⟨tr, o, h1, by rw [h2, hlv]⟩
      · right; exact h

end Lattigo.Model.PolyEval
