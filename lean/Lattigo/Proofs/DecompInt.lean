/-
  Integer level of the gadget decomposition (Model/Decomp.lean): digit recombination.

    * power-of-two digits (`MaskVec`): `pow2Digit w j x = ⌊x / 2^{jw}⌋ mod 2^w`, and `n` digits recombine
      to `x mod 2^{wn}` — hence to `x` exactly when `q ≤ 2^{wn}` (`digits_recombine_pow2`); with
      fewer digits the top of `x` is lost (`digits_too_few`).
    * RNS digits: `Σ_i d_i·(Q/Q_i)·[(Q/Q_i)⁻¹]_{Q_i} ≡ x (mod Q)` whenever `d_i ≡ x (mod Q_i)`
      (`rnsRecombine_modEq`).
-/
import Lattigo.Model.Decomp
import Mathlib.Data.Nat.GCD.Basic
import Mathlib.Data.Int.GCD
import Mathlib.Data.Int.Basic
import Mathlib.Data.List.Pairwise

set_option linter.unusedVariables false

namespace Lattigo.Decomp
open Lattigo Lattigo.Gen Lattigo.Scaling

/-! ## power-of-two digits -/

/-- `MaskVec(x, j·w, 2^w − 1) = ⌊x / 2^{jw}⌋ mod 2^w` -/
theorem pow2Digit_eq (w j x : Nat) : pow2Digit w j x = (x / 2 ^ (j * w)) % 2 ^ w := by
  unfold pow2Digit MaskVec_lane u64and u64shr
  exact Nat.and_two_pow_sub_one_eq_mod _ _

theorem pow2Digit_lt (w j x : Nat) : pow2Digit w j x < 2 ^ w := by
  rw [pow2Digit_eq]
  exact Nat.mod_lt _ (Nat.two_pow_pos w)

/-- `n` digits in base `2^w` recombine to `x mod 2^{wn}` -/
theorem pow2Recombine_eq (w n x : Nat) : pow2Recombine w n x = x % 2 ^ (w * n) := by
  induction n with
  | zero => simp [pow2Recombine, Nat.mod_one]
  | succ n ih =>
    rw [pow2Recombine, ih, pow2Digit_eq, Nat.mul_succ, Nat.pow_add, Nat.mod_mul,
      Nat.mul_comm n w, Nat.mul_comm (2 ^ (w * n))]

/-- the digits recombine to `x` as soon as `2^{wn}` covers the modulus -/
theorem digits_recombine_pow2 (w n q x : Nat) (hq : q ≤ 2 ^ (w * n)) (hx : x < q) :
    pow2Recombine w n x = x := by
  rw [pow2Recombine_eq]
  exact Nat.mod_eq_of_lt (Nat.lt_of_lt_of_le hx hq)

-- test (non-vacuity): w = 10, n = 4, q = 2^30 + 5 ≤ 2^40, x = 2^30 + 4
example : 2 ^ 30 + 5 ≤ 2 ^ (10 * 4) ∧ 2 ^ 30 + 4 < 2 ^ 30 + 5
    ∧ pow2Recombine 10 4 (2 ^ 30 + 4) = 2 ^ 30 + 4 := by decide

/-- the hypothesis `q ≤ 2^{wn}` is needed: for `q = 2^30 + δ` and `w = 10`, `round(log2 q)/w = 3`
    digits lose the top bit (`x = 2^30 + 5` recombines to `5`). -/
theorem digits_too_few : pow2Recombine 10 3 (2 ^ 30 + 5) ≠ 2 ^ 30 + 5 := by decide

example : pow2Recombine 10 3 (2 ^ 30 + 5) = 5 := by decide

/-! ## helper lemmas about `Scaling.prodN` -/

theorem prodN_cons (q : Nat) (qs : List Nat) : prodN (q :: qs) = q * prodN qs := rfl

theorem dvd_prodN_of_mem : ∀ (Qs : List Nat) (Q : Nat), Q ∈ Qs → Q ∣ prodN Qs
  | [], _, h => by cases h
  | q :: qs, Q, h => by
    rw [prodN_cons]
    rcases List.mem_cons.mp h with h | h
    · subst h; exact Nat.dvd_mul_right _ _
    · exact Nat.dvd_trans (dvd_prodN_of_mem qs Q h) (Nat.dvd_mul_left _ _)

theorem coprime_prodN (q : Nat) : ∀ (Qs : List Nat), (∀ r ∈ Qs, Nat.Coprime q r) →
    Nat.Coprime q (prodN Qs)
  | [], _ => Nat.coprime_one_right q
  | r :: rs, h => by
    rw [prodN_cons]
    exact Nat.Coprime.mul_right (h r List.mem_cons_self)
      (coprime_prodN q rs fun s hs => h s (List.mem_cons_of_mem _ hs))

theorem prodN_pos : ∀ (Qs : List Nat), (∀ Q ∈ Qs, 0 < Q) → 0 < prodN Qs
  | [], _ => Nat.one_pos
  | q :: qs, h => by
    rw [prodN_cons]
    exact Nat.mul_pos (h q List.mem_cons_self) (prodN_pos qs fun s hs => h s (List.mem_cons_of_mem _ hs))

/-- Chinese remainder, uniqueness half: congruent modulo every `Q_i` (pairwise coprime) ⇒ congruent
    modulo the product. -/
theorem emod_prodN_eq (a b : Int) : ∀ (Qs : List Nat), Qs.Pairwise Nat.Coprime →
    (∀ Q ∈ Qs, a % (Q : Int) = b % (Q : Int)) → a % (prodN Qs : Int) = b % (prodN Qs : Int)
  | [], _, _ => by
    show a % ((1 : Nat) : Int) = b % ((1 : Nat) : Int)
    simp
  | q :: qs, hc, h => by
    obtain ⟨hq, hc'⟩ := List.pairwise_cons.mp hc
    have ih := emod_prodN_eq a b qs hc' fun Q hQ => h Q (List.mem_cons_of_mem _ hQ)
    have h1 : (q : Int) ∣ a - b :=
      Int.dvd_of_emod_eq_zero (Int.emod_eq_emod_iff_emod_sub_eq_zero.mp (h q List.mem_cons_self))
    have h2 : (prodN qs : Int) ∣ a - b :=
      Int.dvd_of_emod_eq_zero (Int.emod_eq_emod_iff_emod_sub_eq_zero.mp ih)
    have hcop : Nat.Coprime q (prodN qs) := coprime_prodN q qs hq
    have h3 : q * prodN qs ∣ (a - b).natAbs :=
      Nat.Coprime.mul_dvd_of_dvd_of_dvd hcop (Int.natCast_dvd.mp h1) (Int.natCast_dvd.mp h2)
    have h4 : ((q * prodN qs : Nat) : Int) ∣ a - b := Int.natCast_dvd.mpr h3
    rw [prodN_cons]
    exact Int.emod_eq_emod_iff_emod_sub_eq_zero.mpr (Int.emod_eq_zero_of_dvd h4)

/-! ## RNS gadget recombination -/

/-- one summand `d·(P/Q_i)·inv(Q_i)` -/
def term (P : Nat) (inv : Nat → Nat) (Qi : Nat) (d : Int) : Int :=
  d * ((P / Qi : Nat) : Int) * ((inv Qi : Nat) : Int)

/-- the sum over a sub-list `L` of digit moduli (the cofactors are taken in the fixed product `P`) -/
def sumT (P : Nat) (inv : Nat → Nat) (L : List Nat) (ds : List Int) : Int :=
  (List.zipWith (term P inv) L ds).foldr (· + ·) 0

theorem rnsRecombine_eq_sumT (Qs : List Nat) (inv : Nat → Nat) (ds : List Int) :
    rnsRecombine Qs inv ds = sumT (prodN Qs) inv Qs ds := rfl

theorem sumT_cons (P : Nat) (inv : Nat → Nat) (Qj : Nat) (L : List Nat) (d : Int) (ds : List Int) :
    sumT P inv (Qj :: L) (d :: ds) = term P inv Qj d + sumT P inv L ds := rfl

/-- for `j ≠ i`, `Q_i ∣ Q/Q_j` -/
theorem term_dvd (Qs : List Nat) (inv : Nat → Nat) (hc : Qs.Pairwise Nat.Coprime)
    (Q Qj : Nat) (hQ : Q ∈ Qs) (hQj : Qj ∈ Qs) (hne : Q ≠ Qj) (d : Int) :
    (Q : Int) ∣ term (prodN Qs) inv Qj d := by
  have hcop : Nat.Coprime Qj Q := hc.forall hQj hQ (Ne.symm hne)
  have h1 : Qj * Q ∣ prodN Qs :=
    Nat.Coprime.mul_dvd_of_dvd_of_dvd hcop (dvd_prodN_of_mem Qs Qj hQj) (dvd_prodN_of_mem Qs Q hQ)
  have h2 : Q ∣ prodN Qs / Qj := Nat.dvd_div_of_mul_dvd h1
  have h3 : (Q : Int) ∣ ((prodN Qs / Qj : Nat) : Int) := Int.natCast_dvd_natCast.mpr h2
  unfold term
  exact Dvd.dvd.mul_right (Dvd.dvd.mul_left h3 d) _

/-- for `j = i`, the summand is `≡ d_i` -/
theorem term_self (P : Nat) (inv : Nat → Nat) (Q : Nat) (hinv : ((P / Q) * inv Q) % Q = 1) (d : Int) :
    term P inv Q d % (Q : Int) = d % (Q : Int) := by
  have h : (((P / Q : Nat) : Int) * ((inv Q : Nat) : Int)) % (Q : Int) = 1 := by exact_mod_cast hinv
  unfold term
  rw [Int.mul_assoc, Int.mul_emod, h, Int.mul_one, Int.emod_emod]

theorem sumT_dvd_of_not_mem (Qs : List Nat) (inv : Nat → Nat) (hc : Qs.Pairwise Nat.Coprime)
    (Q : Nat) (hQ : Q ∈ Qs) : ∀ (L : List Nat) (ds : List Int),
    (∀ a ∈ L, a ∈ Qs) → Q ∉ L → (Q : Int) ∣ sumT (prodN Qs) inv L ds
  | [], _, _, _ => by simp [sumT]
  | _ :: _, [], _, _ => by simp [sumT]
  | Qj :: L, d :: ds, hsub, hnm => by
    rw [sumT_cons]
    have hne : Q ≠ Qj := fun h => hnm (h ▸ List.mem_cons_self)
    exact Int.dvd_add (term_dvd Qs inv hc Q Qj hQ (hsub Qj List.mem_cons_self) hne d)
      (sumT_dvd_of_not_mem Qs inv hc Q hQ L ds (fun a ha => hsub a (List.mem_cons_of_mem _ ha))
        fun h => hnm (List.mem_cons_of_mem _ h))

theorem sumT_emod_of_mem (Qs : List Nat) (inv : Nat → Nat) (x : Int) (hc : Qs.Pairwise Nat.Coprime)
    (Q : Nat) (hQ : Q ∈ Qs) (hinv : ((prodN Qs / Q) * inv Q) % Q = 1) :
    ∀ (L : List Nat) (ds : List Int), (∀ a ∈ L, a ∈ Qs) → L.Pairwise Nat.Coprime →
      List.Forall₂ (fun (Q : Nat) (d : Int) => d % (Q : Int) = x % (Q : Int)) L ds →
      Q ∈ L → sumT (prodN Qs) inv L ds % (Q : Int) = x % (Q : Int)
  | [], _, _, _, _, hm => by cases hm
  | Qj :: L, ds, hsub, hpw, hd, hm => by
    cases hd with
    | cons hd1 hd2 =>
      rename_i d ds
      rw [sumT_cons]
      obtain ⟨hj, hpw'⟩ := List.pairwise_cons.mp hpw
      have hsub' : ∀ a ∈ L, a ∈ Qs := fun a ha => hsub a (List.mem_cons_of_mem _ ha)
      by_cases hEq : Q = Qj
      · subst hEq
        -- `Q` cannot occur again in `L`: it would be coprime to itself, i.e. `1`, against `hinv`
        have hnm : Q ∉ L := by
          intro hin
          have h1 : Q = 1 := (Nat.coprime_self Q).mp (hj Q hin)
          rw [h1, Nat.mod_one] at hinv
          exact absurd hinv (by decide)
        have hdv := sumT_dvd_of_not_mem Qs inv hc Q hQ L ds hsub' hnm
        rw [Int.add_emod, Int.emod_eq_zero_of_dvd hdv, Int.add_zero, Int.emod_emod,
          term_self _ inv Q hinv d]
        exact hd1
      · have hin : Q ∈ L := by
          rcases List.mem_cons.mp hm with h | h
          · exact absurd h hEq
          · exact h
        have hdv := term_dvd Qs inv hc Q Qj hQ (hsub Qj List.mem_cons_self) hEq d
        rw [Int.add_emod, Int.emod_eq_zero_of_dvd hdv, Int.zero_add, Int.emod_emod]
        exact sumT_emod_of_mem Qs inv x hc Q hQ hinv L ds hsub' hpw' hd2 hin

/-- **gadget recombination**: `Σ_i d_i·(Q/Q_i)·[(Q/Q_i)⁻¹]_{Q_i} ≡ x (mod Q)` when every digit
    `d_i ≡ x (mod Q_i)`; the `Q_i` pairwise coprime (not necessarily prime). -/
theorem rnsRecombine_modEq (Qs : List Nat) (inv : Nat → Nat) (x : Int) (ds : List Int)
    (hc : Qs.Pairwise Nat.Coprime) (hpos : ∀ Q ∈ Qs, 0 < Q)
    (hinv : ∀ Q ∈ Qs, ((Scaling.prodN Qs / Q) * inv Q) % Q = 1)
    (hd : List.Forall₂ (fun (Q : Nat) (d : Int) => d % (Q : Int) = x % (Q : Int)) Qs ds) :
    rnsRecombine Qs inv ds % (Scaling.prodN Qs : Int) = x % (Scaling.prodN Qs : Int) := by
  rw [rnsRecombine_eq_sumT]
  apply emod_prodN_eq _ _ Qs hc
  intro Q hQ
  exact sumT_emod_of_mem Qs inv x hc Q hQ (hinv Q hQ) Qs ds (fun _ h => h) hc hd hQ

-- test (non-vacuity): Q = 3·5·7 = 105, inverses of 35, 21, 15 are 2, 1, 1; x = 52 with centred digits
example :
    let Qs := [3, 5, 7]
    let inv : Nat → Nat := fun Q => if Q = 3 then 2 else 1
    let ds : List Int := [1, 2, -4]
    Qs.Pairwise Nat.Coprime ∧ (∀ Q ∈ Qs, 0 < Q)
    ∧ (∀ Q ∈ Qs, ((Scaling.prodN Qs / Q) * inv Q) % Q = 1)
    ∧ List.Forall₂ (fun (Q : Nat) (d : Int) => d % (Q : Int) = (52 : Int) % (Q : Int)) Qs ds
    ∧ rnsRecombine Qs inv ds % (Scaling.prodN Qs : Int) = 52 := by
  refine ⟨by decide, by decide, by decide, ?_, by decide⟩
  exact .cons (by decide) (.cons (by decide) (.cons (by decide) .nil))

#print axioms pow2Digit_eq
#print axioms pow2Digit_lt
#print axioms pow2Recombine_eq
#print axioms digits_recombine_pow2
#print axioms digits_too_few
#print axioms emod_prodN_eq
#print axioms rnsRecombine_modEq

end Lattigo.Decomp
