/-
  C11 proofs, part 2: `5` has order `2^(m-2)` in `(ZMod 2^m)ˣ`; the unit group has exponent
  dividing `2^(m-1)`.
-/
import Mathlib.Data.ZMod.Basic
import Mathlib.GroupTheory.OrderOfElement
import Mathlib.FieldTheory.Finite.Basic
import Mathlib.Tactic.Ring

namespace Lattigo.Proofs.Galois

/-- `5^(2^j) = 1 + 2^(j+2)·u` with `u` odd (lifting the exponent, by hand). -/
theorem five_pow_two_pow (j : Nat) : ∃ u : Nat, Odd u ∧ 5 ^ 2 ^ j = 1 + 2 ^ (j + 2) * u := by
  induction j with
  | zero => exact ⟨1, by decide, by norm_num⟩
  | succ j ih =>
    obtain ⟨u, hu, h⟩ := ih
    refine ⟨u + 2 ^ (j + 1) * u ^ 2, ?_, ?_⟩
    · apply Odd.add_even hu
      exact Even.mul_right (Nat.even_pow.mpr ⟨by decide, by omega⟩) _
    · rw [pow_succ, pow_mul, h]; ring

theorem coprime_five_two_pow (m : Nat) : Nat.Coprime 5 (2 ^ m) :=
  Nat.Coprime.pow_right m (by decide)

/-- `5` as a unit of `ZMod 2^m`. -/
def five (m : Nat) : (ZMod (2 ^ m))ˣ := ZMod.unitOfCoprime 5 (coprime_five_two_pow m)

@[simp] theorem val_five (m : Nat) : ((five m : (ZMod (2 ^ m))ˣ) : ZMod (2 ^ m)) = 5 := by
  simp [five, ZMod.coe_unitOfCoprime]

theorem five_pow_cast (m e : Nat) :
    (((five m) ^ e : (ZMod (2 ^ m))ˣ) : ZMod (2 ^ m)) = ((5 ^ e : Nat) : ZMod (2 ^ m)) := by
  simp

/-- `5^(2^t) = 1` in `ZMod 2^(t+2)`. -/
theorem five_pow_eq_one (t : Nat) : (five (t + 2)) ^ 2 ^ t = 1 := by
  apply Units.ext
  rw [five_pow_cast]
  obtain ⟨u, _, h⟩ := five_pow_two_pow t
  rw [h]
  push_cast
  have : ((2 : ZMod (2 ^ (t + 2))) ^ (t + 2)) = 0 := by
    have := ZMod.natCast_self (2 ^ (t + 2))
    push_cast at this; exact this
  rw [this]; simp

/-- `5^(2^t) ≠ 1` in `ZMod 2^(t+3)`. -/
theorem five_pow_ne_one (t : Nat) : (five (t + 3)) ^ 2 ^ t ≠ 1 := by
  intro hc
  have h1 := congrArg (fun x : (ZMod (2 ^ (t + 3)))ˣ => (x : ZMod (2 ^ (t + 3)))) hc
  simp only [five_pow_cast, Units.val_one] at h1
  obtain ⟨u, hu, h⟩ := five_pow_two_pow t
  rw [h] at h1
  have h2 : ((2 ^ (t + 2) * u : Nat) : ZMod (2 ^ (t + 3))) = 0 := by
    have : ((1 + 2 ^ (t + 2) * u : Nat) : ZMod (2 ^ (t + 3))) = 1 + ((2 ^ (t + 2) * u : Nat) : ZMod (2 ^ (t + 3))) := by
      push_cast; ring
    rw [this] at h1
    simpa using h1
  rw [ZMod.natCast_eq_zero_iff] at h2
  have h3 : 2 ^ (t + 3) = 2 ^ (t + 2) * 2 := by ring
  rw [h3] at h2
  have h4 := Nat.dvd_of_mul_dvd_mul_left (by positivity) h2
  rcases hu with ⟨w, hw⟩
  omega

/-- The order of `5` modulo `2^(t+3)` is `2^(t+1)` (i.e. `nthRoot/4`). -/
theorem orderOf_five (t : Nat) : orderOf (five (t + 3)) = 2 ^ (t + 1) := by
  haveI : Fact (Nat.Prime 2) := ⟨Nat.prime_two⟩
  exact orderOf_eq_prime_pow (five_pow_ne_one t) (five_pow_eq_one (t + 1))

/-- every unit of `ZMod 2^(m+1)` has order dividing `2^m`. -/
theorem unit_pow_two_pow (m : Nat) (x : (ZMod (2 ^ (m + 1)))ˣ) : x ^ 2 ^ m = 1 := by
  have := ZMod.pow_totient x
  rw [Nat.totient_prime_pow_succ Nat.prime_two] at this
  simpa using this

end Lattigo.Proofs.Galois
