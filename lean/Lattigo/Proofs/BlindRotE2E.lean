/-
  C20 — blind rotation end to end, in `Z_Q[X]/(X^N+1)` on `RPoly` values: the loop invariant
  (`C20Ring.blindrot_invariant_rpoly`) run on the schedule of `BlindRotateCore` for the masks the model's `Evaluate`
  derives from an LWE sample (`blindrot_exponent_model`): the accumulator ends at `F·X^{b + ⟨a, s⟩} + noise`.
-/
import Lattigo.Props.C20Ring
import Lattigo.Proofs.BlindRotTable
import Lattigo.Proofs.BlindRotMask

set_option linter.unusedSectionVars false
set_option linter.unusedSimpArgs false

namespace Lattigo.RGSW.BlindRot
open Lattigo Lattigo.RGSW Lattigo.RPolyRing Lattigo.Transport Lattigo.Props.C20Ring
open Polynomial

/-- for `n` a power of two every odd index is admissible -/
theorem galOK_of_odd (k g : ℕ) (h : g % 2 = 1) : GalOK (2 ^ (k + 1)) g := by
  refine ⟨Nat.odd_iff.mpr h, ?_⟩
  apply Nat.Coprime.pow_right
  rw [Nat.coprime_two_right]
  exact Nat.odd_iff.mpr h

theorem galEl_odd (N v : ℕ) (hN : 0 < N) : galEl N v % 2 = 1 := by
  unfold galEl powG
  rw [Nat.mod_mod_of_dvd _ (Dvd.intro _ rfl), Nat.pow_mod]
  simp [galoisGen]

/-- every Galois element of the schedule is admissible (`N = 2^(k+1) ≥ 4`) -/
theorem coreSchedule_galOK (k : ℕ) (hk : 1 ≤ k) (a : List ℕ) :
    ∀ g, Step.aut g ∈ coreSchedule (2 ^ (k + 1)) a → GalOK (2 ^ (k + 1)) g := by
  intro g hg
  have hN4 : 4 ≤ 2 ^ (k + 1) := by
    calc 4 = 2 ^ 2 := by norm_num
      _ ≤ 2 ^ (k + 1) := Nat.pow_le_pow_right (by norm_num) (by omega)
  have h := coreSchedule_ok (2 ^ (k + 1)) a _ hg
  apply galOK_of_odd
  rcases h with ⟨v, _, _, rfl⟩ | rfl
  · exact galEl_odd _ v (by omega)
  · simp only [galoisGen]; omega

section e2e
variable {qs : List ℕ} {n : ℕ} [hgd : Good qs n] [NeZero (2 * n)]

theorem phiW_one (h1 : GalOK n (1 : ZMod (2 * n)).val) (x : WFPoly qs n) : phiW (1 : ZMod (2 * n)) x = x := by
  rw [phiW_ok _ h1]
  apply WFPoly.toProd_injective
  funext i
  show WFPoly.toProd (WFPoly.aut (1 : ZMod (2 * n)).val h1.2 x) i = _
  rw [WFPoly.toProd_aut _ h1.1]
  have hid : autHom (qs.get i) n (1 : ZMod (2 * n)).val h1.1 = RingHom.id _ := by
    apply AdjoinRoot.ringHom_ext
    · ext c; simp only [RingHom.comp_apply, autHom_of, RingHom.id_apply]
    · rw [autHom_root, RingHom.id_apply, root_pow_mod, ZMod.val_one_eq_one_mod, Nat.mod_mod, ← root_pow_mod, pow_one]
  rw [hid]; rfl

theorem phiR_one {F : RPoly} (hF : WFq qs n F) (h1 : GalOK n (1 : ZMod (2 * n)).val) :
    phiR n (1 : ZMod (2 * n)) F = F := by
  obtain ⟨F, rfl⟩ := exists_lift F hF
  rw [← val_phiW, phiW_one h1]

/-- `x·X^b` as the model computes it is the ring product with the monomial -/
theorem mulMonomial_eq (x : WFPoly qs n) (b : ℕ) :
    x.mulMonomial (b : ℤ) = x * monoW ((b : ℕ) : ZMod (2 * n)) := by
  apply WFPoly.toProd_injective
  funext i
  rw [WFPoly.toProd_mulMonomial, WFPoly.toProd_mul, Pi.mul_apply, toProd_monoW, zpow_natCast,
    Units.val_pow_eq_pow_val, ZMod.val_natCast, ← root_pow_mod, mul_comm]
  rfl

/-- the initial accumulator of `evalSlot`: `φ_g(F·X^b) = φ_g(F)·X^{g·b}` on `RPoly` values (`g < 2n` admissible) -/
theorem acc0_eq {F : RPoly} (hF : WFq qs n F) (b g : ℕ) (hg : GalOK n g) (hlt : g < 2 * n) :
    RPoly.aut (RPoly.mulMonomial F (b : ℤ)) g
      = phiR n ((g : ℕ) : ZMod (2 * n)) F * monoR qs n (((g : ℕ) : ZMod (2 * n)) * ((b : ℕ) : ZMod (2 * n))) := by
  obtain ⟨F, rfl⟩ := exists_lift F hF
  have hv : (((g : ℕ) : ZMod (2 * n))).val = g := ZMod.val_natCast_of_lt hlt
  have hg' : GalOK n (((g : ℕ) : ZMod (2 * n))).val := by rw [hv]; exact hg
  have h1 : RPoly.aut (RPoly.mulMonomial (val F) (b : ℤ)) g
      = val (phiW ((g : ℕ) : ZMod (2 * n)) (F.mulMonomial (b : ℤ))) := by
    rw [val_phiW]
    unfold phiR
    rw [if_pos hg', hv]
    rfl
  rw [h1, mulMonomial_eq, phiW_ok _ hg', map_mul, ← phiW_ok _ hg', ← phiW_ok _ hg', phiW_mono _ hg',
    val_hom.mul, val_phiW, val_monoW]

end e2e

/-- **blindrot_end_to_end.**  `N = 2^(k+1) ≥ 4`, moduli `qs`; `ph` reads the (well-formed) phase of an accumulator, `autOp g`
/ `mulOp j` are `Automorphism(acc, g)` / the external product by the key of index `j` (their errors are whatever they are:
`noiseRunG` accumulates `ph(op x) − ideal`).  For EVERY LWE sample (`c1`, modulus `Q`), every list of slots and every mask `a`
the model's `Evaluate` derives (`slotMasks N (prepMask Q N c1) idxs`), starting from an accumulator with phase
`φ_{2N−5}(F)·X^{(2N−5)·b} + n₀` — `(φ_{2N−5}(F·X^b), 0)` in `evalSlot` — `BlindRotateCore` ends with phase

      `F · X^{b + Σ_j a_j s_j}  +  noiseRunG …`     (the Galois index is back to 1, the exponent is `b + ⟨a, s⟩ mod 2N`). -/
theorem blindrot_end_to_end (k : ℕ) (hk : 1 ≤ k) {qs : List ℕ} [hgd : Good qs (2 ^ (k + 1))] {γ : Type}
    (ph : γ → RPoly) (hph : ∀ x, WFq qs (2 ^ (k + 1)) (ph x)) (autOp mulOp : Nat → γ → γ) (sI : Nat → ℤ)
    (F : RPoly) (hF : WFq qs (2 ^ (k + 1)) F) (Q : ℕ) (c1 idxs : List ℕ) (b : ℕ) (x : γ)
    (n0 : RPoly) (hn0 : WFq qs (2 ^ (k + 1)) n0) :
    let N := 2 ^ (k + 1)
    let s : Nat → ZMod (2 * N) := fun j => ((sI j : ℤ) : ZMod (2 * N))
    let t0 : ZMod (2 * N) := ((2 * N - galoisGen : ℕ) : ZMod (2 * N))
    ph x = phiR N t0 F * monoR qs N (t0 * (b : ZMod (2 * N))) + n0 →
    ∀ ia ∈ slotMasks N (prepMask Q N c1) idxs,
      ph (runSteps autOp mulOp (coreSchedule N ia.2) x) =
        F * monoR qs N ((b : ZMod (2 * N)) +
              ((List.range ia.2.length).map fun j => ((ia.2.getD j 0 : ℕ) : ZMod (2 * N)) * s j).sum)
          + noiseRunG (monoR qs N) (phiR N) ph autOp mulOp s (coreSchedule N ia.2) x n0 := by
  intro N s t0 h ia hia
  have hNpos : 0 < N := Nat.pow_pos (by norm_num)
  have hN4 : 4 ≤ N := by
    calc 4 = 2 ^ 2 := by norm_num
      _ ≤ 2 ^ (k + 1) := Nat.pow_le_pow_right (by norm_num) (by omega)
  have : NeZero (2 * N) := ⟨by omega⟩
  have ht0 : GalOK N t0.val := by
    show GalOK N (((2 * N - galoisGen : ℕ) : ZMod (2 * N))).val
    rw [ZMod.val_natCast, galOK_mod]
    exact galOK_of_odd k _ (by simp only [galoisGen]; omega)
  have hinv := blindrot_invariant_rpoly (qs := qs) (n := N) ph hph autOp mulOp s F hF (coreSchedule N ia.2)
    (coreSchedule_galOK k hk ia.2) x t0 (t0 * (b : ZMod (2 * N))) ht0 n0 hn0 h
  have hexp := coreSchedule_inner k hk ia.2 s (b : ZMod (2 * 2 ^ (k + 1)))
  simp only at hexp
  have hgood := goodMask_slotMasks N hNpos _ (goodMask_prepMask Q N hNpos c1) idxs ia hia
  have hget := goodMask_getD (2 * N) ia.2 hgood
  have hsum : ((List.range ia.2.length).map fun j => effZ N (ia.2.getD j 0) * s j)
      = (List.range ia.2.length).map fun j => ((ia.2.getD j 0 : ℕ) : ZMod (2 * N)) * s j := by
    apply List.map_congr_left
    intro j hj
    have hj' := hget j (List.mem_range.mp hj)
    rcases hj'.2 with ho | hz
    · rw [effZ_odd k hk _ hj'.1 ho]
    · rw [hz, effZ_zero]; simp
  rw [hinv]
  have hrun : runZ s (coreSchedule N ia.2) (t0, t0 * (b : ZMod (2 * N)))
      = (1, (b : ZMod (2 * N)) + ((List.range ia.2.length).map fun j => effZ N (ia.2.getD j 0) * s j).sum) := hexp
  rw [hrun, hsum]
  have h1 : GalOK N (1 : ZMod (2 * N)).val := by
    rw [ZMod.val_one_eq_one_mod, galOK_mod]; exact galOK_of_odd k 1 (by norm_num)
  simp only []
  rw [phiR_one hF h1]

/-- read a value as an element of `R_Q` (zero if it is not well formed; phases of well-formed ciphertexts are) -/
def wfz (qs : List ℕ) (n : ℕ) (x : RPoly) : RPoly := if WFq qs n x then x else RPoly.zero qs n

theorem wfz_wf {qs : List ℕ} {n : ℕ} [Good qs n] (x : RPoly) : WFq qs n (wfz qs n x) := by
  unfold wfz; split
  · assumption
  · exact WFq.zero

/-- **the model's own `Evaluate`** (`evalSlot`: `acc = (φ_{2N−5}(F·X^b), 0)`, then `coreR` = the schedule executed with the
key-switching automorphisms `automorphismR p gks` and the external products `extProdR p · brk_j`): for parameters with
`Q`-moduli `qs`, degree `N = 2^(k+1)`, every key material, every secret polynomial `sQ` under which one reads the phase,
every mask of every LWE sample: the result decrypts to `F·X^{b + ⟨a,s⟩}` plus the accumulated operation errors. -/
theorem evalSlot_phase (k : ℕ) (hk : 1 ≤ k) {qs : List ℕ} [hgd : Good qs (2 ^ (k + 1))] (p : Par)
    (hpQ : p.qsQ = qs) (hpn : p.n = 2 ^ (k + 1)) (gks : List (Nat × List (RPoly × RPoly))) (brk : List (Ct RPoly))
    (sQ : RPoly) (hsQ : WFq qs (2 ^ (k + 1)) sQ) (sI : Nat → ℤ) (F : RPoly) (hF : WFq qs (2 ^ (k + 1)) F)
    (Q : ℕ) (c1 idxs : List ℕ) (b : ℕ) :
    let N := 2 ^ (k + 1)
    let s : Nat → ZMod (2 * N) := fun j => ((sI j : ℤ) : ZMod (2 * N))
    let ph : RPoly × RPoly → RPoly := fun ct => wfz qs N (phase ct sQ)
    let acc0 : RPoly × RPoly := (RPoly.aut (RPoly.mulMonomial F (b : ℤ)) (2 * N - galoisGen), RPoly.zero qs N)
    ∀ ia ∈ slotMasks N (prepMask Q N c1) idxs,
      ph (evalSlot p gks brk F ia.2 b) =
        F * monoR qs N ((b : ZMod (2 * N)) +
              ((List.range ia.2.length).map fun j => ((ia.2.getD j 0 : ℕ) : ZMod (2 * N)) * s j).sum)
          + noiseRunG (monoR qs N) (phiR N) ph (automorphismR p gks) (fun j ct => extProdR p ct (brk.getD j default)) s
              (coreSchedule N ia.2) acc0 (RPoly.zero qs N) := by
  intro N s ph acc0 ia hia
  have hN4 : 4 ≤ N := by
    calc 4 = 2 ^ 2 := by norm_num
      _ ≤ 2 ^ (k + 1) := Nat.pow_le_pow_right (by norm_num) (by omega)
  have : NeZero (2 * N) := ⟨by omega⟩
  have hg : GalOK N (2 * N - galoisGen) := galOK_of_odd k _ (by simp only [galoisGen]; omega)
  have hA := acc0_eq (qs := qs) (n := N) hF b (2 * N - galoisGen) hg (by simp only [galoisGen]; omega)
  -- the phase of the initial accumulator
  have hAw : WFq qs N (RPoly.aut (RPoly.mulMonomial F (b : ℤ)) (2 * N - galoisGen)) := by
    rw [hA]
    obtain ⟨F', rfl⟩ := exists_lift F hF
    rw [← val_phiW, ← val_monoW, ← val_hom.mul]
    exact val_wf _
  have hph0 : ph acc0 = phiR N ((2 * N - galoisGen : ℕ) : ZMod (2 * N)) F
        * monoR qs N (((2 * N - galoisGen : ℕ) : ZMod (2 * N)) * (b : ZMod (2 * N))) + RPoly.zero qs N := by
    have hphase : phase acc0 sQ = RPoly.aut (RPoly.mulMonomial F (b : ℤ)) (2 * N - galoisGen) := by
      obtain ⟨A, hAv⟩ := exists_lift _ hAw
      obtain ⟨s', rfl⟩ := exists_lift sQ hsQ
      show RPoly.aut (RPoly.mulMonomial F (b : ℤ)) (2 * N - galoisGen) + RPoly.zero qs N * val s' = _
      rw [← hAv]
      show val (A + 0 * s') = val A
      congr 1; ring
    show wfz qs N (phase acc0 sQ) = _
    rw [hphase]
    unfold wfz
    rw [if_pos hAw, hA]
    have hYw : WFq qs N (phiR N ((2 * N - galoisGen : ℕ) : ZMod (2 * N)) F
        * monoR qs N (((2 * N - galoisGen : ℕ) : ZMod (2 * N)) * (b : ZMod (2 * N)))) := hA ▸ hAw
    obtain ⟨X, hX⟩ := exists_lift _ hYw
    rw [← hX]
    show val X = val (X + 0)
    congr 1; ring
  have hmain := blindrot_end_to_end k hk (qs := qs) ph (fun x => wfz_wf _) (automorphismR p gks)
    (fun j ct => extProdR p ct (brk.getD j default)) sI F hF Q c1 idxs b acc0 (RPoly.zero qs N) WFq.zero hph0 ia hia
  have hev : evalSlot p gks brk F ia.2 b
      = runSteps (automorphismR p gks) (fun j ct => extProdR p ct (brk.getD j default)) (coreSchedule N ia.2) acc0 := by
    unfold evalSlot coreR
    simp only [hpn, hpQ]
    rfl
  rw [hev]
  exact hmain

end Lattigo.RGSW.BlindRot
