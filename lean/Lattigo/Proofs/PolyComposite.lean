/-
  C13 — bookkeeping of the composite circuits and of the Chebyshev change of basis:
  the number of compression steps of `inverse.IntervalNormalization`, the per-polynomial change of basis
  of a polynomial vector.
-/
import Lattigo.Proofs.PolyEvalRun
import Mathlib.Tactic.Ring

namespace Lattigo.Model.PolyEval

/-- `n` compression steps by the factor 2.45 cover `2^(num/den)`: `2.45^n ≥ 2^(num/den)` -/
def Covers (num den n : Nat) : Prop := 245 ^ (n * den) ≥ 2 ^ num * 100 ^ (n * den)

instance (num den n : Nat) : Decidable (Covers num den n) := by unfold Covers; infer_instance

theorem normItersLoop_spec (num den : Nat) (fuel : Nat) : ∀ n, (∀ m < n, ¬ Covers num den m) →
    (∃ k, n ≤ k ∧ k ≤ n + fuel ∧ Covers num den k) →
    Covers num den (normItersLoop num den fuel n) ∧ ∀ m < normItersLoop num den fuel n, ¬ Covers num den m := by
  induction fuel with
  | zero =>
    intro n hmin ⟨k, hk1, hk2, hk⟩
    have : k = n := by omega
    subst this
    simp only [normItersLoop]
    exact ⟨hk, hmin⟩
  | succ fuel ih =>
    intro n hmin ⟨k, hk1, hk2, hk⟩
    rw [normItersLoop]
    by_cases hc : 245 ^ (n * den) ≥ 2 ^ num * 100 ^ (n * den)
    · rw [if_pos hc]; exact ⟨hc, hmin⟩
    · rw [if_neg hc]
      apply ih (n + 1)
      · intro m hm
        by_cases h : m = n
        · subst h; exact hc
        · exact hmin m (by omega)
      · refine ⟨k, ?_, by omega, hk⟩
        by_contra h
        have : k = n := by omega
        subst this
        exact hc hk

/-- `num` steps always cover (`2.45 > 2`) -/
theorem covers_num (num den : Nat) (hden : 1 ≤ den) : Covers num den num := by
  unfold Covers
  calc 2 ^ num * 100 ^ (num * den) ≤ 2 ^ (num * den) * 100 ^ (num * den) :=
        Nat.mul_le_mul_right _ (Nat.pow_le_pow_right (by decide) (Nat.le_mul_of_pos_right num hden))
    _ = 200 ^ (num * den) := by rw [← Nat.mul_pow]
    _ ≤ 245 ^ (num * den) := Nat.pow_le_pow_left (by decide) _

/-- **normIters_spec**: `normIters num den` is THE least number of steps that covers `2^(num/den)`:
    `⌈log2max / log2(2.45)⌉` -/
theorem normIters_spec (num den : Nat) (hden : 1 ≤ den) :
    Covers num den (normIters num den) ∧ ∀ m < normIters num den, ¬ Covers num den m := by
  unfold normIters
  apply normItersLoop_spec num den (num + 1) 0
  · intro m hm; omega
  · exact ⟨num, by omega, by omega, covers_num num den hden⟩

/-! ## change of basis -/

/-- the change of basis of `[a, b]` sends `a` to `-1` and `b` to `1` (times 8; widths dividing 16 and
    `8(a+b)`: every width 1, 2, 4, 8 — the harness's — and integer endpoints) -/
theorem changeOfBasis8_spec (a b : Int) (hab : a < b) (h16 : (b - a) ∣ 16) (h8 : (b - a) ∣ 8 * (-a - b)) :
    (changeOfBasis8 (a, b)).1 * a + (changeOfBasis8 (a, b)).2 = -8 ∧
    (changeOfBasis8 (a, b)).1 * b + (changeOfBasis8 (a, b)).2 = 8 := by
  unfold changeOfBasis8
  simp only
  obtain ⟨s, hs⟩ := h16
  obtain ⟨k, hk⟩ := h8
  have hw : b - a ≠ 0 := by omega
  rw [hs, hk, Int.mul_ediv_cancel_left _ hw, Int.mul_ediv_cancel_left _ hw]
  have e1 : (b - a) * (s * a + k) = (b - a) * (-8) := by
    have : (b - a) * (s * a + k) = ((b - a) * s) * a + (b - a) * k := by ring
    rw [this, ← hs, ← hk]; ring
  have e2 : (b - a) * (s * b + k) = (b - a) * 8 := by
    have : (b - a) * (s * b + k) = ((b - a) * s) * b + (b - a) * k := by ring
    rw [this, ← hs, ← hk]; ring
  exact ⟨Int.eq_of_mul_eq_mul_left hw e1, Int.eq_of_mul_eq_mul_left hw e2⟩

theorem foldl_cob_not_mem (j : Nat) (l : List (List Nat × (Int × Int))) (acc : Int × Int)
    (h : ∀ mi ∈ l, j ∉ mi.1) :
    l.foldl (fun acc mi => if mi.1.contains j then changeOfBasis8 mi.2 else acc) acc = acc := by
  induction l generalizing acc with
  | nil => rfl
  | cons mi l ih =>
    simp only [List.foldl_cons]
    have hj : mi.1.contains j = false := by
      simpa using h mi (by simp)
    rw [hj]
    exact ih acc (fun m hm => h m (by simp [hm]))

/-- **change_of_basis_per_polynomial**: in `PolynomialVector.ChangeOfBasis` a slot `j` that the mapping
    gives to polynomial `i` — and to no later one — receives the change of basis of polynomial `i`'s OWN
    interval, whatever the intervals of the other polynomials -/
theorem changeOfBasisVec8_own (slots : Nat) (pre post : List (List Nat × (Int × Int)))
    (m : List Nat) (ab : Int × Int) (j : Nat) (hj : j < slots) (hm : j ∈ m) (hpost : ∀ mi ∈ post, j ∉ mi.1) :
    let r := changeOfBasisVec8 slots ((pre ++ (m, ab) :: post).map (·.1)) ((pre ++ (m, ab) :: post).map (·.2))
    r.1.getD j 0 = (changeOfBasis8 ab).1 ∧ r.2.getD j 0 = (changeOfBasis8 ab).2 := by
  intro r
  have hz : ((pre ++ (m, ab) :: post).map (·.1)).zip ((pre ++ (m, ab) :: post).map (·.2)) = pre ++ (m, ab) :: post := by
    rw [List.zip_map']
    simp
  have hfold : ((pre ++ (m, ab) :: post).foldl
      (fun acc mi => if mi.1.contains j then changeOfBasis8 mi.2 else acc) ((0, 0) : Int × Int)) = changeOfBasis8 ab := by
    rw [List.foldl_append, List.foldl_cons]
    have : m.contains j = true := by simpa using hm
    simp only [this, if_true]
    exact foldl_cob_not_mem j post _ hpost
  simp only [r, changeOfBasisVec8, hz]
  constructor
  · rw [List.getD_eq_getElem?_getD, List.getElem?_map, List.getElem?_map, List.getElem?_range hj]
    simp only [Option.map_some, Option.getD_some, hfold]
  · rw [List.getD_eq_getElem?_getD, List.getElem?_map, List.getElem?_map, List.getElem?_range hj]
    simp only [Option.map_some, Option.getD_some, hfold]

/-! ## the inverse circuit on values -/

/-- **goldschmidt_spec**: after `k` steps of the Goldschmidt loop `x·a = 1 - (1-x)^(2^(k+1))` and
    `b = (1-x)^(2^(k+1))`, in every commutative ring: `a` is `1/x` up to the relative error
    `(1-x)^(2^(k+1))` — the bit precision doubles with every iteration (the doc comment of
    `GoldschmidtDivisionNew`), for every `x`, with no condition -/
theorem goldschmidt_spec {R : Type} [CommRing R] (x : R) (k : Nat) :
    x * (goldschmidt (ringOps R) x k).1 = 1 - (1 - x) ^ (2 ^ (k + 1)) ∧
    (goldschmidt (ringOps R) x k).2 = (1 - x) ^ (2 ^ k) := by
  induction k with
  | zero =>
    simp only [goldschmidt, ringOps]
    constructor
    · push_cast; ring
    · push_cast; ring
  | succ k ih =>
    obtain ⟨h1, h2⟩ := ih
    have hb : (goldschmidt (ringOps R) x (k + 1)).2 = (1 - x) ^ (2 ^ (k + 1)) := by
      show (goldschmidt (ringOps R) x k).2 * (goldschmidt (ringOps R) x k).2 = _
      rw [h2, ← pow_add]; congr 1; ring
    refine ⟨?_, hb⟩
    have ha : (goldschmidt (ringOps R) x (k + 1)).1 =
        (goldschmidt (ringOps R) x k).1 + (goldschmidt (ringOps R) x k).1 * (goldschmidt (ringOps R) x (k + 1)).2 := rfl
    rw [ha, hb, mul_add, ← mul_assoc, h1]
    have : (1 - x) ^ (2 ^ (k + 1 + 1)) = ((1 - x) ^ (2 ^ (k + 1))) ^ 2 := by
      rw [← pow_mul]; congr 1
    rw [this]; ring

/-- **interval_normalization_invariant**: through any sequence of compression steps the normalised value
    stays `x` times the accumulated factor — the factor the circuit multiplies `1/(x·fac)` back with -/
theorem normStep_invariant {R : Type} [CommRing R] (x : R) (cs : List R) :
    let r := cs.foldl (fun s c => normStep (ringOps R) c s) (x, 1)
    r.1 = x * r.2 := by
  have h : ∀ (cs : List R) (s : R × R), s.1 = x * s.2 →
      (cs.foldl (fun s c => normStep (ringOps R) c s) s).1 = x * (cs.foldl (fun s c => normStep (ringOps R) c s) s).2 := by
    intro cs
    induction cs with
    | nil => intro s hs; exact hs
    | cons c cs ih =>
      intro s hs
      simp only [List.foldl_cons]
      apply ih
      show s.1 * (((1 : Nat) : R) - c * s.1 * (c * s.1)) = x * (s.2 * (((1 : Nat) : R) - c * s.1 * (c * s.1)))
      rw [hs]; ring
  exact h cs (x, 1) (by simp)

end Lattigo.Model.PolyEval
