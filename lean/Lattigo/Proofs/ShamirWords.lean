/-
  C15, word level: the per-modulus, per-slot word computations of the threshold code, composed from
  the REGENERATED functions exactly as the Go code composes them, are equal to the residue-level
  scalar functions of `Model/Shamir.lean` (`horner`, `sumMod`, `lagProdScalar`, `w·λ % q`).

    oneWord        NewCombiner: `cmb.one[i] = ring.MForm(NewRNSScalarFromUInt64(1)[i], q, brc)`
    prodWord       GenAdditiveShare: `prod = one; for active != own { MulRNSScalar(prod, coeff[active], prod) }`
                   with `coeff[active]` = C15Gen's `lagrangeCoeffWord` (Combiner.lagrangeCoeff)
    additiveWord   `MulRNSScalarMontgomery(ownShare, prod, out)` = SubRing.MulScalarMontgomery lane
    mulScalarWord  ring.MulScalar: `MulScalarMontgomery(p, MForm(scalar, q, brc), p)`
    addWord        ring.Add / AggregateShares: SubRing.Add lane
    hornerWord     ring.EvalPolyScalar on one slot: `p2 = c[last]; p2 = p2·x; p2 = p2 + c[i-1]`
    sumWord        `acc = Add(acc, s)` repeated

  Lower layer used: C01's `MRed_spec`, `MRedLazy_spec`, `MForm_spec`, `addvec_lane_spec` and the
  colleague's `GenScalar` refinements (`lagrangeCoeff_refines`, `mulScalars_refines`).
  Hypotheses throughout: `q` prime, `2 < q`, `4q ≤ 2^64` (true of every accepted modulus: `q < 2^62`),
  `MontConst q qinv` (`qinv = s.MRedConstant`, discharged by `GenMRedConstant_spec`), `brc q`.
-/
import Lattigo.Proofs.GenScalar
import Lattigo.Proofs.Kernels
import Lattigo.Gen.SubRingOps
import Lattigo.Proofs.ShamirRun

namespace Lattigo.Proofs.ShamirWords
open Lattigo Lattigo.Gen Lattigo.Model.Shamir Lattigo.Proofs.Shamir Lattigo.Proofs.GenScalar

/-! ## the word-level compositions -/

/-- `cmb.one[i]` of `NewCombiner`. -/
def oneWord (q qinv : ℕ) (bc : ℕ × ℕ) : ℕ :=
  Gen.MFormRNSScalar_body q qinv bc (Gen.NewRNSScalarFromUInt64_body q qinv bc 1) 0

/-- the product loop of `GenAdditiveShare`, one modulus, on words. -/
def prodWord (q qinv : ℕ) (bc : ℕ × ℕ) (own : ℕ) : List ℕ → ℕ → ℕ
  | [], p => p
  | a :: rest, p =>
    if a ≠ own then
      prodWord q qinv bc own rest (Gen.MulRNSScalar_body q qinv bc p (lagrangeCoeffWord q qinv bc own a) p)
    else prodWord q qinv bc own rest p

/-- one word of the additive share: `MulRNSScalarMontgomery(ownShare, prod, skOut)`. -/
def additiveWord (q qinv : ℕ) (bc : ℕ × ℕ) (own : ℕ) (acts : List ℕ) (w : ℕ) : ℕ :=
  Gen.SubRing_MulScalarMontgomery_lane q qinv bc w (prodWord q qinv bc own acts (oneWord q qinv bc)) 0

/-- `ring.MulScalar(p, x, p)` on one word. -/
def mulScalarWord (q qinv : ℕ) (bc : ℕ × ℕ) (w x : ℕ) : ℕ :=
  Gen.SubRing_MulScalarMontgomery_lane q qinv bc w (Gen.MForm x q bc) w

/-- `ring.Add` on one word. -/
def addWord (q qinv : ℕ) (bc : ℕ × ℕ) (a b : ℕ) : ℕ := Gen.SubRing_Add_lane q qinv bc a b 0

/-- `ring.EvalPolyScalar` on one slot of one modulus, on words. -/
def hornerWord (q qinv : ℕ) (bc : ℕ × ℕ) (x : ℕ) : List ℕ → ℕ
  | [] => 0
  | [c] => c
  | c :: d :: rest => addWord q qinv bc (mulScalarWord q qinv bc (hornerWord q qinv bc x (d :: rest)) x) c

/-- repeated `Add` into an accumulator. -/
def sumWord (q qinv : ℕ) (bc : ℕ × ℕ) (a : ℕ) (l : List ℕ) : ℕ :=
  l.foldl (fun acc s => addWord q qinv bc acc s) a

/-! ## refinement lemmas -/

variable {q qinv : ℕ}

theorem oneWord_spec (hq : 1 < q) (h2q : 2 * q ≤ W) :
    oneWord q qinv (brc q) < q ∧ Mont q (1 % q) (oneWord q qinv (brc q)) := by
  unfold oneWord
  rw [NewRNSScalarFromUInt64_body_eq]
  exact MFormRNSScalar_body_spec q qinv (1 % q) 0 hq h2q (by
    have : 1 % q < q := Nat.mod_lt _ (by omega)
    unfold W at *; omega)

/-- the word loop keeps a lazily reduced Montgomery representative of the model's running product. -/
theorem prodWord_refines [Fact q.Prime] (h2 : 2 < q) (h4q : 4 * q ≤ W) (hm : MontConst q qinv)
    (own : ℕ) (acts : List ℕ) (p a : ℕ) (hp : p < 2 * q) (hpa : Mont q a p) :
    prodWord q qinv (brc q) own acts p < 2 * q ∧
    Mont q (lagProdScalar q own acts a) (prodWord q qinv (brc q) own acts p) := by
  induction acts generalizing p a with
  | nil => exact ⟨hp, hpa⟩
  | cons x rest ih =>
    unfold prodWord lagProdScalar
    by_cases hx : x ≠ own
    · rw [if_pos hx, if_pos hx]
      obtain ⟨hc, hcm⟩ := lagrangeCoeff_refines q qinv h2 (by omega) hm own x
      obtain ⟨h1, h2'⟩ := mulScalars_refines q qinv (brc q) p _ p a _ h4q hm hp hc hpa hcm
      exact ih _ _ h1 h2'
    · rw [if_neg hx, if_neg hx]
      exact ih p a hp hpa

/-- a fully reduced word equal to `a` modulo `q`, where `a` is given through a Montgomery relation. -/
theorem eq_of_mul_W {r A : ℕ} (hm : MontConst q qinv) (hr : r < q) (h : (r * W) % q = (A * W) % q) :
    r = A % q := by
  have hc := cast_of_mod h
  simp only [Nat.cast_mul] at hc
  have := (W_unit hm).mul_right_cancel hc
  have h' := mod_of_cast this
  rwa [Nat.mod_eq_of_lt hr] at h'

/-- **one word of the additive share**: the regenerated `MRed(shareWord, prodWord)` is the model's
`shareWord · Π that/(that−own) mod q`. -/
theorem additiveWord_eq [Fact q.Prime] (h2 : 2 < q) (h4q : 4 * q ≤ W) (hm : MontConst q qinv)
    (own : ℕ) (acts : List ℕ) (w : ℕ) (hw : w < q) :
    additiveWord q qinv (brc q) own acts w = w * lagProdScalar q own acts (1 % q) % q := by
  obtain ⟨h1, h1m⟩ := oneWord_spec (q := q) (qinv := qinv) (by omega) (by omega)
  obtain ⟨hp, hpm⟩ := prodWord_refines h2 h4q hm own acts _ _ (by omega) h1m
  unfold additiveWord SubRing_MulScalarMontgomery_lane
  generalize prodWord q qinv (brc q) own acts (oneWord q qinv (brc q)) = p at hp hpm ⊢
  obtain ⟨hs, hr⟩ := mulscalarmontgomeryvec_lane_spec w p 0 q qinv (by omega) hm
    (mul_lt_of_lt hw (by omega))
  apply eq_of_mul_W hm hr
  rw [hs]
  unfold Mont at hpm
  rw [Nat.mul_mod, hpm, ← Nat.mul_mod, Nat.mul_assoc]

/-- `ring.MulScalar` on one reduced word and an arbitrary `uint64` scalar. -/
theorem mulScalarWord_eq (hq : 1 < q) (h2q : 2 * q ≤ W) (hm : MontConst q qinv) (w x : ℕ) (hw : w < q)
    (hx : x < W) :
    mulScalarWord q qinv (brc q) w x = w * (x % q) % q := by
  unfold mulScalarWord SubRing_MulScalarMontgomery_lane
  rw [MForm_spec x q hq h2q hx]
  have hlt : (x * W) % q < q := Nat.mod_lt _ (by omega)
  obtain ⟨hs, hr⟩ := mulscalarmontgomeryvec_lane_spec w ((x * W) % q) w q qinv h2q hm
    (mul_lt_of_lt hw (by omega))
  have : w * (x % q) % q = (w * x) % q := by rw [Nat.mul_mod_mod]
  rw [this]
  apply eq_of_mul_W hm hr
  rw [hs, Nat.mul_mod_mod, Nat.mul_assoc]

theorem addWord_eq (h2q : 2 * q ≤ W) (a b : ℕ) (ha : a < q) (hb : b < q) :
    addWord q qinv (brc q) a b = (a + b) % q := by
  unfold addWord SubRing_Add_lane
  exact addvec_lane_spec a b 0 q (by omega) (by omega) (by omega)

/-- **`ring.EvalPolyScalar` on words is the model's `horner`** (reduced coefficients, any `uint64` point). -/
theorem hornerWord_eq (hq : 1 < q) (h2q : 2 * q ≤ W) (hm : MontConst q qinv) (x : ℕ) (hx : x < W)
    (cs : List ℕ) (hcs : ∀ c ∈ cs, c < q) :
    hornerWord q qinv (brc q) x cs = horner q x cs ∧ horner q x cs < q := by
  induction cs with
  | nil => exact ⟨rfl, by simp [horner]; omega⟩
  | cons c rest ih =>
    cases rest with
    | nil => exact ⟨rfl, by simpa [horner] using hcs c List.mem_cons_self⟩
    | cons d rest =>
      obtain ⟨ihe, ihl⟩ := ih (fun z hz => hcs z (List.mem_cons_of_mem _ hz))
      have hc : c < q := hcs c List.mem_cons_self
      refine ⟨?_, by simp only [horner]; exact Nat.mod_lt _ (by omega)⟩
      simp only [hornerWord, horner]
      rw [ihe, mulScalarWord_eq hq h2q hm _ x ihl hx,
        addWord_eq h2q _ c (Nat.mod_lt _ (by omega)) hc]

theorem sumWord_eq (h2q : 2 * q ≤ W) (a : ℕ) (l : List ℕ) (ha : a < q) (hl : ∀ s ∈ l, s < q) :
    sumWord q qinv (brc q) a l = sumMod q a l := by
  unfold sumWord sumMod
  induction l generalizing a with
  | nil => rfl
  | cons s rest ih =>
    have hs : s < q := hl s List.mem_cons_self
    rw [List.foldl_cons, List.foldl_cons, addWord_eq h2q a s ha hs]
    exact ih _ (Nat.mod_lt _ (by omega)) (fun z hz => hl z (List.mem_cons_of_mem _ hz))

theorem sumMod_lt (hq : 0 < q) (a : ℕ) (l : List ℕ) (ha : a < q) : sumMod q a l < q := by
  unfold sumMod
  induction l generalizing a with
  | nil => exact ha
  | cons s rest ih => rw [List.foldl_cons]; exact ih _ (Nat.mod_lt _ hq)

end Lattigo.Proofs.ShamirWords
