/-
  C12 — the evaluation algorithms of `Lattigo.Model.LinTrans` compute `Σ_d diag_d ⊙ rot_d v`.
-/
import Lattigo.Proofs.LinTrans

namespace Lattigo.Model.LinTrans

variable {α : Type} {O : SlotOps α} {n : Nat}

/-- the specified value: `Σ_{d ∈ ks} diag_d ⊙ rot_d v` -/
def diagSum (O : SlotOps α) (ks : List Int) (diag : Int → α) (v : α) : α :=
  sumL O (ks.map fun d => O.mul (diag d) (O.rot d v))

theorem rotateAndEncode_eq (L : SlotLaws O n) (ρ : Int) (x : α) :
    rotateAndEncode O n ρ x = O.rot (normIdx n ρ) x := by
  unfold rotateAndEncode
  by_cases h : normIdx n ρ = 0
  · simp [h, L.rot_zero]
  · simp [h]

theorem neg_emod_add (n : Nat) (j : Int) : ∃ m : Int, j + (-j) % (n : Int) = (n : Int) * m := by
  refine ⟨-((-j) / (n : Int)), ?_⟩
  have := Int.emod_def (-j) (n : Int)
  rw [this]; ring

/-- one summand of the baby-step/giant-step evaluation, rotated by its giant step, is the
    summand of the plain diagonal method -/
theorem bsgs_term (L : SlotLaws O n) (N1 : Nat) (hN : 0 < N1) (diag : Int → α) (v : α)
    (r : Int) (h0 : 0 ≤ r) (h1 : r < n) :
    O.rot (giant n N1 r)
      (O.mul (preRot O n N1 (giant n N1 r + baby N1 r) (diag (giant n N1 r + baby N1 r)))
        (if (baby N1 r == 0) = true then v else O.rot (baby N1 r) v))
      = O.mul (diag r) (O.rot r v) := by
  have hgb := giant_add_baby n N1 hN r h0 h1
  rw [hgb]
  have hv : (if (baby N1 r == 0) = true then v else O.rot (baby N1 r) v) = O.rot (baby N1 r) v := by
    by_cases hb : baby N1 r = 0
    · simp [hb, L.rot_zero]
    · simp [hb]
  rw [hv, L.rot_mul, L.rot_rot, hgb]
  unfold preRot
  rw [rotateAndEncode_eq L, L.rot_rot]
  have : normIdx n (normIdx n (-giant n N1 r)) = (-giant n N1 r) % (n : Int) := by
    unfold normIdx; exact Int.emod_emod_of_dvd _ (dvd_refl _)
  rw [this]
  obtain ⟨m, hm⟩ := neg_emod_add n (giant n N1 r)
  rw [hm, L.rot_mul_period]

theorem map_normIdx_id (ks : List Int) (hr : ∀ k ∈ ks, 0 ≤ k ∧ k < (n : Int)) :
    ks.map (normIdx n) = ks := by
  conv_rhs => rw [← List.map_id ks]
  apply List.map_congr_left
  intro k hk
  exact normIdx_of_range n k (hr k hk).1 (hr k hk).2

theorem keys_map (ks : List Int) (enc : Int → α) :
    (ks.map fun k => (k, enc k)).map (·.1) = ks := by
  simp [List.map_map, Function.comp_def]

/-- **`bsgs_regroup`**: for EVERY baby-step size `N1 > 0` (hence every
    `LogBabyStepGiantStepRatio`), every list `ks` of normalised diagonal indices (the empty one included: the zero matrix),
    `MultiplyByDiagMatrixBSGS` applied to the diagonals pre-rotated as `Encode` does returns
    `Σ_{d ∈ ks} diag_d ⊙ rot_d v`. -/
theorem evalBSGS_eq (L : SlotLaws O n) (N1 : Nat) (hN : 0 < N1) (ks : List Int)
    (hr : ∀ k ∈ ks, 0 ≤ k ∧ k < (n : Int))
    (diag : Int → α) (v : α) :
    evalBSGS O n N1 (ks.map fun k => (k, preRot O n N1 k (diag k))) v
      = .val (diagSum O ks diag v) := by
  by_cases hne : ks = []
  · subst hne
    simp [evalBSGS, bsgsIndex, sortU, accum, diagSum, sumL]
  let enc : Int → α := fun k => preRot O n N1 k (diag k)
  have henc : enc = fun k => preRot O n N1 k (diag k) := rfl
  change evalBSGS O n N1 (ks.map fun k => (k, enc k)) v = _
  set J := sortU (ks.map (giant n N1)) with hJ
  have hmemJ : ∀ j, j ∈ J ↔ ∃ r ∈ ks, giant n N1 r = j := by
    intro j; rw [hJ, mem_sortU]; simp
  -- terms
  let T : Int → Int → α := fun j i => O.mul (enc (j + i)) (if (i == 0) = true then v else O.rot i v)
  let I : Int → List Int := fun j => sortS ((ks.filter fun r => giant n N1 r == j).map (baby N1))
  let G : Int × List Int → α := fun ji =>
    if (ji.1 != 0) = true then O.rot ji.1 (sumL O (ji.2.map (T ji.1))) else sumL O (ji.2.map (T ji.1))
  have hI : ∀ j i, i ∈ I j ↔ ∃ r ∈ ks, giant n N1 r = j ∧ baby N1 r = i := by
    intro j i
    simp only [I]
    rw [(sortS_perm _).mem_iff]
    simp [List.mem_map, List.mem_filter, and_assoc]
  have hb : bsgsIndex ks n N1 =
      { index := J.map fun j => (j, I j), rotN1 := J, rotN2 := sortU (ks.map (baby N1)) } := by
    unfold bsgsIndex
    simp only [map_normIdx_id ks hr]
    rfl
  -- the outer mapM succeeds
  have houter : (J.map fun j => (j, I j)).mapM (bsgsOuter O (ks.map fun k => (k, enc k)) v)
      = some ((J.map fun j => (j, I j)).map G) := by
    apply mapM_eq_some_map
    intro ji hji
    obtain ⟨j, hj, rfl⟩ := List.mem_map.1 hji
    have hinner : (I j).mapM (bsgsInner O (ks.map fun k => (k, enc k)) v j) = some ((I j).map (T j)) := by
      apply mapM_eq_some_map
      intro i hi
      obtain ⟨r, hrk, hg, hbb⟩ := (hI j i).1 hi
      have : j + i = r := by
        rw [← hg, ← hbb]; exact giant_add_baby n N1 hN r (hr r hrk).1 (hr r hrk).2
      simp only [bsgsInner, T, this, lookupI_map ks enc r hrk]
    have hne' : (I j).map (T j) ≠ [] := by
      obtain ⟨r, hrk, hg⟩ := (hmemJ j).1 hj
      have : baby N1 r ∈ I j := (hI j _).2 ⟨r, hrk, hg, rfl⟩
      intro h
      rw [List.map_eq_nil_iff] at h
      rw [h] at this; simp at this
    simp only [bsgsOuter, hinner, accum_eq L _ hne', G]
  unfold evalBSGS
  simp only [keys_map, hb, houter]
  have hJne : (J.map fun j => (j, I j)).map G ≠ [] := by
    obtain ⟨k, hk⟩ := List.exists_mem_of_ne_nil ks hne
    have : giant n N1 k ∈ J := (hmemJ _).2 ⟨k, hk, rfl⟩
    intro h
    simp only [List.map_eq_nil_iff] at h
    rw [h] at this; simp at this
  simp only [accum_eq L _ hJne]
  congr 1
  -- the value
  let F : Int → α := fun d => O.mul (diag d) (O.rot d v)
  have hG : ((J.map fun j => (j, I j)).map G)
      = J.map fun j => sumL O ((ks.filter fun r => giant n N1 r == j).map F) := by
    rw [List.map_map]
    apply List.map_congr_left
    intro j _
    simp only [Function.comp, G]
    have hrot : (if (j != 0) = true then O.rot j (sumL O ((I j).map (T j))) else sumL O ((I j).map (T j)))
        = O.rot j (sumL O ((I j).map (T j))) := by
      by_cases hj0 : j = 0
      · simp [hj0, L.rot_zero]
      · simp [hj0]
    rw [hrot, rot_sumL L, List.map_map]
    have hperm : ((I j).map (O.rot j ∘ T j)).Perm
        ((((ks.filter fun r => giant n N1 r == j).map (baby N1))).map (O.rot j ∘ T j)) :=
      (sortS_perm _).map _
    rw [sumL_perm L hperm, List.map_map]
    congr 1
    apply List.map_congr_left
    intro r hrf
    rw [List.mem_filter] at hrf
    have hg : giant n N1 r = j := by simpa using hrf.2
    simp only [Function.comp, T, henc]
    rw [← hg]
    exact bsgs_term L N1 hN diag v r (hr r hrf.1).1 (hr r hrf.1).2
  rw [hG]
  exact sumL_fiberwise L (giant n N1) F J (sortU_nodup _) ks
    (fun r hrk => (hmemJ _).2 ⟨r, hrk, rfl⟩)

/-! ## the naive algorithm -/

theorem insertU_perm (x : Int) (l : List Int) (hx : x ∉ l) : (insertU x l).Perm (x :: l) := by
  induction l with
  | nil => simp [insertU]
  | cons y ys ih =>
    unfold insertU
    have hxy : x ≠ y := fun e => hx (e ▸ List.mem_cons_self ..)
    have hx' : x ∉ ys := fun e => hx (List.mem_cons_of_mem _ e)
    split
    · exact List.Perm.refl _
    · exact (List.Perm.cons y (ih hx')).trans (List.Perm.swap x y ys)

theorem sortU_perm (l : List Int) (h : l.Nodup) : (sortU l).Perm l := by
  induction l with
  | nil => simp [sortU]
  | cons x xs ih =>
    rw [List.nodup_cons] at h
    have : sortU (x :: xs) = insertU x (sortU xs) := rfl
    rw [this]
    have hx : x ∉ sortU xs := fun e => h.1 ((mem_sortU x xs).1 e)
    exact (insertU_perm x _ hx).trans (List.Perm.cons x (ih h.2))

/-- `MultiplyByDiagMatrix` (naive) returns `Σ_{d ∈ ks} diag_d ⊙ rot_d v` for EVERY list of distinct
    normalised indices: also the main diagonal alone, also the empty list (zero matrix). -/
theorem evalNaive_eq (L : SlotLaws O n) (ks : List Int)
    (hr : ∀ k ∈ ks, 0 ≤ k ∧ k < (n : Int)) (hnd : ks.Nodup)
    (diag : Int → α) (v : α) :
    evalNaive O n (ks.map fun k => (k, diag k)) v = .val (diagSum O ks diag v) := by
  let F : Int → α := fun d => O.mul (diag d) (O.rot d v)
  have hperm := sortU_perm ks hnd
  have hsum : diagSum O ks diag v = sumL O ((sortU ks).map F) :=
    (sumL_perm L (hperm.map F)).symm
  have hterms : ∀ (l : List Int), (∀ k ∈ l, k ∈ ks) →
      l.mapM (naiveTerm O n (ks.map fun k => (k, diag k)) v) = some (l.map F) := by
    intro l hl
    apply mapM_eq_some_map
    intro k hk
    simp only [naiveTerm, F]
    rw [normIdx_of_range n k (hr k (hl k hk)).1 (hr k (hl k hk)).2, lookupI_map ks diag k (hl k hk)]
  unfold evalNaive
  simp only [keys_map]
  rw [hsum]
  have hmem : ∀ k, k ∈ sortU ks ↔ k ∈ ks := fun k => mem_sortU k ks
  cases hK : sortU ks with
  | nil => simp [sumL]
  | cons k0 rest =>
    rw [hK] at hmem
    simp only
    by_cases h0 : k0 = 0
    · subst h0
      have hrest : ∀ k ∈ rest, k ∈ ks := fun k hk => (hmem k).1 (List.mem_cons_of_mem _ hk)
      have h0mem : lookupI 0 (ks.map fun k => (k, diag k)) = some (diag 0) :=
        lookupI_map ks diag 0 ((hmem 0).1 (List.mem_cons_self ..))
      simp only [beq_self_eq_true, if_true, hterms rest hrest, h0mem, Option.map_some]
      by_cases hre : rest = []
      · subst hre
        simp only [List.map_nil, accum, Option.getD_some, List.map_cons, sumL_cons, F, L.rot_zero]
        rw [show sumL O ([] : List α) = O.zero from rfl, L.add_zero]
      · have hne : rest.map F ≠ [] := by
          intro h; rw [List.map_eq_nil_iff] at h; exact hre h
        simp only [accum_eq L _ hne, List.map_cons, sumL_cons]
        rw [L.add_comm]
        simp only [F, L.rot_zero]
    · have hall : ∀ k ∈ k0 :: rest, k ∈ ks := fun k hk => (hmem k).1 hk
      have hne : (k0 :: rest).map F ≠ [] := by simp
      have hb : (k0 == 0) = false := by simpa using h0
      simp only [hb, Bool.false_eq_true, if_false, hterms (k0 :: rest) hall, accum_eq L _ hne]

/-- `Encode` (BSGS branch) stores the diagonals pre-rotated -/
theorem encode_bsgs (O : SlotOps α) (n N1 : Nat) (hN : N1 ≠ 0) (keys : List Int)
    (diagonals : List (Int × α)) (diag : Int → α)
    (h : ∀ k ∈ keys, diagAt diagonals k n = some (diag k)) :
    encode O n N1 keys diagonals = some (keys.map fun k => (k, preRot O n N1 k (diag k))) := by
  unfold encode
  rw [if_neg hN]
  apply mapM_eq_some_map
  intro k hk
  rw [h k hk]

end Lattigo.Model.LinTrans
