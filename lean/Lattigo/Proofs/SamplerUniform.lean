/-
  C17 — lemmas about the uniform sampler: range, buffer invariant, refinement of the unbuffered
  word-stream specification, mode independence of the consumption.
-/
import Lattigo.Proofs.SamplerBasic
namespace Lattigo.Sampler
open Lattigo Lattigo.Gen

/-! ### words of byte strings -/

theorem wordsBE_of_ge {b : Bytes} (h : 8 ≤ b.length) :
    wordsBE b = beNat (b.take 8) :: wordsBE (b.drop 8) := by
  match b, h with
  | a0 :: a1 :: a2 :: a3 :: a4 :: a5 :: a6 :: a7 :: rest, _ => rfl

/-- the "prepare" step shared by the draw loops: refill when the pointer is at the end -/
theorem pre_ok {s s1 : Bytes} {b b1 : Buf} (hb : BufInv b)
    (h : (if b.ptr = bufLen then refill s else Res.ok (s, b)) = .ok (s1, b1)) :
    BufInv b1 ∧ b1.ptr < bufLen ∧ pendingIn s1 b1 = pendingIn s b := by
  obtain ⟨hl, hp, hd⟩ := hb
  split at h
  · rename_i he
    obtain ⟨hs, hp1, hl1⟩ := refill_ok h
    refine ⟨refill_inv h, by simp [hp1, bufLen], ?_⟩
    unfold pendingIn
    rw [hp1, he, List.drop_zero, ← hs]
    have : b.data.drop bufLen = [] := by
      apply List.drop_eq_nil_of_le; omega
    rw [this, List.nil_append]
  · rename_i hne
    injection h with h
    injection h with h1 h2
    subst h1; subst h2
    exact ⟨⟨hl, hp, hd⟩, by omega, rfl⟩

/-- one word of the pending bytes -/
theorem pending_step {s : Bytes} {b : Buf} (hb : BufInv b) (hlt : b.ptr < bufLen) :
    wordsBE (pendingIn s b) =
      beNat ((b.data.drop b.ptr).take 8) :: wordsBE (pendingIn s { b with ptr := b.ptr + 8 }) ∧
    BufInv { b with ptr := b.ptr + 8 } := by
  obtain ⟨hl, hp, hd⟩ := hb
  obtain ⟨k, hk⟩ := hd
  have h8 : b.ptr + 8 ≤ bufLen := by unfold bufLen at *; omega
  have hlen : 8 ≤ (b.data.drop b.ptr).length := by rw [List.length_drop]; omega
  refine ⟨?_, ⟨hl, h8, ⟨k + 1, by show b.ptr + 8 = 8 * (k + 1); omega⟩⟩⟩
  unfold pendingIn
  rw [wordsBE_of_ge (by rw [List.length_append]; omega)]
  congr 1
  · rw [List.take_append_of_le_length hlen]
  · show wordsBE (List.drop 8 (List.drop b.ptr b.data ++ s)) = wordsBE (List.drop (b.ptr + 8) b.data ++ s)
    rw [List.drop_append_of_le_length hlen, List.drop_drop]

/-! ### one coefficient -/

theorem drawU_spec (q mask : Nat) : ∀ (fuel : Nat) (s : Bytes) (b : Buf) (w : Nat) (s' : Bytes) (b' : Buf),
    BufInv b → drawU q mask fuel s b = .ok (w, s', b') →
    BufInv b' ∧ 0 < b'.ptr ∧ w < q ∧
      specDraw q mask (wordsBE (pendingIn s b)) = some (w, wordsBE (pendingIn s' b')) := by
  intro fuel
  induction fuel with
  | zero => intro s b w s' b' _ h; simp [drawU] at h
  | succ n ih =>
    intro s b w s' b' hb h
    unfold drawU at h
    obtain ⟨⟨s1, b1⟩, hpre, h⟩ := Res.bind_eq_ok h
    obtain ⟨hb1, hlt, hpend⟩ := pre_ok hb hpre
    obtain ⟨hw, hb2⟩ := pending_step (s := s1) hb1 hlt
    dsimp only at h
    rw [← hpend, hw]
    split at h
    · rename_i hq
      injection h with h
      injection h with h1 h2
      injection h2 with h2 h3
      subst h1; subst h2; subst h3
      refine ⟨hb2, by simp, hq, ?_⟩
      simp only [specDraw, hq, if_true]
    · rename_i hq
      obtain ⟨hb', hp', hwq, hspec⟩ := ih _ _ _ _ _ hb2 h
      refine ⟨hb', hp', hwq, ?_⟩
      simp only [specDraw, hq, if_false]
      exact hspec

/-! ### one row -/

theorem drawRowU_spec (fuel : Nat) (m : Mode) (q mask : Nat) :
    ∀ (row : List Nat) (s : Bytes) (b : Buf) (r : List Nat) (s' : Bytes) (b' : Buf),
    BufInv b → drawRowU fuel m q mask row s b = .ok (r, s', b') →
    BufInv b' ∧ (row ≠ [] → 0 < b'.ptr) ∧ (row = [] → s' = s ∧ b' = b) ∧ r.length = row.length ∧
      specRow m q mask row (wordsBE (pendingIn s b)) = some (r, wordsBE (pendingIn s' b')) := by
  intro row
  induction row with
  | nil =>
    intro s b r s' b' hb h
    simp only [drawRowU] at h
    injection h with h
    injection h with h1 h2
    injection h2 with h2 h3
    subst h1; subst h2; subst h3
    exact ⟨hb, by simp, by simp, rfl, rfl⟩
  | cons a row ih =>
    intro s b r s' b' hb h
    simp only [drawRowU] at h
    obtain ⟨⟨w, s1, b1⟩, h1, h⟩ := Res.bind_eq_ok h
    obtain ⟨hb1, hp1, _, hs1⟩ := drawU_spec q mask fuel s b w s1 b1 hb h1
    dsimp only at h
    obtain ⟨⟨t, s2, b2⟩, h2, h⟩ := Res.bind_eq_ok h
    obtain ⟨hb2, hp2, hnil, hlen, hs2⟩ := ih s1 b1 t s2 b2 hb1 h2
    simp only [Res.pure_eq] at h
    injection h with h
    injection h with h3 h4
    injection h4 with h4 h5
    subst h3; subst h4; subst h5
    refine ⟨hb2, ?_, by simp, by simp [hlen], ?_⟩
    · intro _
      by_cases hr : row = []
      · obtain ⟨_, hbb⟩ := hnil hr
        rw [hbb]; exact hp1
      · exact hp2 hr
    · simp only [specRow, hs1, hs2]

theorem drawRowU_lt (fuel : Nat) (q mask : Nat) :
    ∀ (row : List Nat) (s : Bytes) (b : Buf) (r : List Nat) (s' : Bytes) (b' : Buf),
    drawRowU fuel .read q mask row s b = .ok (r, s', b') → ∀ c ∈ r, c < q := by
  intro row
  induction row with
  | nil =>
    intro s b r s' b' h
    simp only [drawRowU] at h
    injection h with h
    injection h with h1 _
    subst h1
    simp
  | cons a row ih =>
    intro s b r s' b' h
    simp only [drawRowU] at h
    obtain ⟨⟨w, s1, b1⟩, h1, h⟩ := Res.bind_eq_ok h
    dsimp only at h
    obtain ⟨⟨t, s2, b2⟩, h2, h⟩ := Res.bind_eq_ok h
    simp only [Res.pure_eq] at h
    injection h with h
    injection h with h3 _
    subst h3
    -- the value comes out of `drawU`, which only returns accepted words
    have this : ∀ (fuel : Nat) (s : Bytes) (b : Buf) (w : Nat) (s' : Bytes) (b' : Buf),
        drawU q mask fuel s b = .ok (w, s', b') → w < q := by
      intro fuel
      induction fuel with
      | zero => intro s b w s' b' h; simp [drawU] at h
      | succ n ihn =>
        intro s b w s' b' h
        unfold drawU at h
        obtain ⟨⟨s1, b1⟩, _, h⟩ := Res.bind_eq_ok h
        dsimp only at h
        split at h
        · rename_i hq
          injection h with h
          injection h with h1 _
          subst h1; exact hq
        · exact ihn _ _ _ _ _ h
    have hw : w < q := this fuel s b w s1 b1 h1
    intro c hc
    simp only [List.mem_cons] at hc
    rcases hc with hc | hc
    · rw [hc]; exact hw
    · exact ih s1 b1 t s2 b2 h2 c hc

/-! ### all rows -/

/-- every row `j` below the level is `< q_j`; rows are paired with the moduli in order -/
def RowsBelow : List Nat → Poly → Prop
  | [], _ => True
  | _ :: _, [] => False
  | q :: qs, row :: rest => (∀ c ∈ row, c < q) ∧ RowsBelow qs rest

theorem drawRowsU_lt (fuel : Nat) :
    ∀ (qs : List Nat) (pol : Poly) (s : Bytes) (b : Buf) (r : Poly) (s' : Bytes) (b' : Buf),
    drawRowsU fuel .read qs pol s b = .ok (r, s', b') → RowsBelow qs r := by
  intro qs
  induction qs with
  | nil => intro pol s b r s' b' _; trivial
  | cons q qs ih =>
    intro pol s b r s' b' h
    cases pol with
    | nil => simp [drawRowsU] at h
    | cons row rest =>
      simp only [drawRowsU] at h
      obtain ⟨⟨r1, s1, b1⟩, h1, h⟩ := Res.bind_eq_ok h
      dsimp only at h
      obtain ⟨⟨t, s2, b2⟩, h2, h⟩ := Res.bind_eq_ok h
      simp only [Res.pure_eq] at h
      injection h with h
      injection h with h3 _
      subst h3
      exact ⟨drawRowU_lt fuel q (maskOf q) row s b r1 s1 b1 h1, ih rest s1 b1 t s2 b2 h2⟩

/-- at least one coefficient is requested: some row below the level is non-empty -/
def Draws : List Nat → Poly → Prop
  | [], _ => False
  | _ :: _, [] => False
  | _ :: qs, row :: rest => row ≠ [] ∨ Draws qs rest

theorem drawRowsU_spec (fuel : Nat) (m : Mode) :
    ∀ (qs : List Nat) (pol : Poly) (s : Bytes) (b : Buf) (r : Poly) (s' : Bytes) (b' : Buf),
    BufInv b → drawRowsU fuel m qs pol s b = .ok (r, s', b') →
    BufInv b' ∧ (Draws qs pol → 0 < b'.ptr) ∧ (¬ Draws qs pol → s' = s ∧ b' = b) ∧
      specRows m qs pol (wordsBE (pendingIn s b)) = some (r, wordsBE (pendingIn s' b')) := by
  intro qs
  induction qs with
  | nil =>
    intro pol s b r s' b' hb h
    simp only [drawRowsU] at h
    injection h with h
    injection h with h1 h2
    injection h2 with h2 h3
    subst h1; subst h2; subst h3
    exact ⟨hb, by simp [Draws], by simp, rfl⟩
  | cons q qs ih =>
    intro pol s b r s' b' hb h
    cases pol with
    | nil => simp [drawRowsU] at h
    | cons row rest =>
      simp only [drawRowsU] at h
      obtain ⟨⟨r1, s1, b1⟩, h1, h⟩ := Res.bind_eq_ok h
      obtain ⟨hb1, hp1, hnil1, _, hs1⟩ := drawRowU_spec fuel m q (maskOf q) row s b r1 s1 b1 hb h1
      dsimp only at h
      obtain ⟨⟨t, s2, b2⟩, h2, h⟩ := Res.bind_eq_ok h
      obtain ⟨hb2, hp2, hnil2, hs2⟩ := ih rest s1 b1 t s2 b2 hb1 h2
      simp only [Res.pure_eq] at h
      injection h with h
      injection h with h3 h4
      injection h4 with h4 h5
      subst h3; subst h4; subst h5
      refine ⟨hb2, ?_, ?_, ?_⟩
      · intro hd
        by_cases hr : Draws qs rest
        · exact hp2 hr
        · obtain ⟨_, hbb⟩ := hnil2 hr
          rw [hbb]
          simp only [Draws] at hd
          rcases hd with hd | hd
          · exact hp1 hd
          · exact absurd hd hr
      · intro hd
        simp only [Draws, not_or, not_not] at hd
        obtain ⟨e1, e2⟩ := hnil1 hd.1
        obtain ⟨e3, e4⟩ := hnil2 hd.2
        exact ⟨by rw [e3, e1], by rw [e4, e2]⟩
      · simp only [specRows, hs1, hs2]

/-! ### a call -/

theorem uniformRead_spec (fuel : Nat) (m : Mode) (qs : List Nat) (pol : Poly) (s : Bytes) (b : Buf)
    (r : Poly) (s' : Bytes) (b' : Buf) (hb : BufInv b)
    (h : uniformRead fuel m qs pol s b = .ok (r, s', b')) :
    BufInv b' ∧ (Draws qs pol → 0 < b'.ptr) ∧
      specRows m qs pol (wordsBE (pendingAtCall s b)) = some (r, wordsBE (pendingIn s' b')) := by
  unfold uniformRead at h
  obtain ⟨⟨s1, b1⟩, hpre, h⟩ := Res.bind_eq_ok h
  dsimp only at h
  have key : BufInv b1 ∧ pendingIn s1 b1 = pendingAtCall s b := by
    split at hpre
    · rename_i hc
      obtain ⟨hs, hp1, _⟩ := refill_ok hpre
      refine ⟨refill_inv hpre, ?_⟩
      unfold pendingIn pendingAtCall
      rw [if_pos hc, hp1, List.drop_zero, ← hs]
    · rename_i hc
      injection hpre with hpre
      injection hpre with h1 h2
      subst h1; subst h2
      refine ⟨hb, ?_⟩
      unfold pendingIn pendingAtCall
      rw [if_neg hc]
  obtain ⟨hb1, hpend⟩ := key
  obtain ⟨hb', hp', _, hspec⟩ := drawRowsU_spec fuel m qs pol s1 b1 r s' b' hb1 h
  rw [hpend] at hspec
  exact ⟨hb', hp', hspec⟩

/-- after a call that drew something, the two views of the pending bytes coincide -/
theorem pending_after {s : Bytes} {b : Buf} (hb : BufInv b) (hp : 0 < b.ptr) :
    pendingAtCall s b = pendingIn s b := by
  unfold pendingAtCall pendingIn
  split
  · rename_i hc
    rcases hc with hc | hc
    · omega
    · have : b.data.drop b.ptr = [] := by
        apply List.drop_eq_nil_of_le; rw [hc, hb.1]
      rw [this, List.nil_append]
  · rfl

theorem uniformRead_range (fuel : Nat) (qs : List Nat) (pol : Poly) (s : Bytes) (b : Buf)
    (r : Poly) (s' : Bytes) (b' : Buf)
    (h : uniformRead fuel .read qs pol s b = .ok (r, s', b')) : RowsBelow qs r := by
  unfold uniformRead at h
  obtain ⟨⟨s1, b1⟩, _, h⟩ := Res.bind_eq_ok h
  exact drawRowsU_lt fuel qs pol s1 b1 r s' b' h

/-! ### `ReadAndAdd = add ∘ Read`: the mode only changes what is written -/

/-- `pol + r` on the rows below the level (`CRed(a + b, q)` per coefficient), `r` above -/
def addPoly : List Nat → Poly → Poly → Poly
  | q :: qs, a :: as, r :: rs => List.zipWith (fun x w => CRed (u64add x w) q) a r :: addPoly qs as rs
  | _, _, rs => rs

theorem drawRowU_add (fuel : Nat) (q mask : Nat) :
    ∀ (row : List Nat) (s : Bytes) (b : Buf) (r : List Nat) (s' : Bytes) (b' : Buf),
    drawRowU fuel .read q mask row s b = .ok (r, s', b') →
    drawRowU fuel .readAndAdd q mask row s b =
      .ok (List.zipWith (fun x w => CRed (u64add x w) q) row r, s', b') := by
  intro row
  induction row with
  | nil =>
    intro s b r s' b' h
    simp only [drawRowU] at h ⊢
    injection h with h
    injection h with h1 h2
    subst h1
    rw [h2]; rfl
  | cons a row ih =>
    intro s b r s' b' h
    simp only [drawRowU] at h ⊢
    obtain ⟨⟨w, s1, b1⟩, h1, h⟩ := Res.bind_eq_ok h
    dsimp only at h
    obtain ⟨⟨t, s2, b2⟩, h2, h⟩ := Res.bind_eq_ok h
    simp only [Res.pure_eq] at h
    injection h with h
    injection h with h3 h4
    subst h3
    rw [h1]
    simp only [Res.bind_ok]
    rw [ih s1 b1 t s2 b2 h2]
    simp only [Res.bind_ok, Res.pure_eq]
    rw [← h4]
    rfl

theorem drawRowsU_add (fuel : Nat) :
    ∀ (qs : List Nat) (pol : Poly) (s : Bytes) (b : Buf) (r : Poly) (s' : Bytes) (b' : Buf),
    drawRowsU fuel .read qs pol s b = .ok (r, s', b') →
    drawRowsU fuel .readAndAdd qs pol s b = .ok (addPoly qs pol r, s', b') := by
  intro qs
  induction qs with
  | nil =>
    intro pol s b r s' b' h
    simp only [drawRowsU] at h ⊢
    injection h with h
    injection h with h1 h2
    subst h1
    rw [h2]
    cases pol <;> rfl
  | cons q qs ih =>
    intro pol s b r s' b' h
    cases pol with
    | nil => simp [drawRowsU] at h
    | cons row rest =>
      simp only [drawRowsU] at h ⊢
      obtain ⟨⟨r1, s1, b1⟩, h1, h⟩ := Res.bind_eq_ok h
      dsimp only at h
      obtain ⟨⟨t, s2, b2⟩, h2, h⟩ := Res.bind_eq_ok h
      simp only [Res.pure_eq] at h
      injection h with h
      injection h with h3 h4
      subst h3
      rw [drawRowU_add fuel q (maskOf q) row s b r1 s1 b1 h1]
      simp only [Res.bind_ok]
      rw [ih rest s1 b1 t s2 b2 h2]
      simp only [Res.bind_ok, Res.pure_eq]
      rw [← h4]
      rfl

theorem uniformRead_add (fuel : Nat) (qs : List Nat) (pol : Poly) (s : Bytes) (b : Buf)
    (r : Poly) (s' : Bytes) (b' : Buf)
    (h : uniformRead fuel .read qs pol s b = .ok (r, s', b')) :
    uniformRead fuel .readAndAdd qs pol s b = .ok (addPoly qs pol r, s', b') := by
  unfold uniformRead at h ⊢
  obtain ⟨⟨s1, b1⟩, hpre, h⟩ := Res.bind_eq_ok h
  rw [hpre]
  simp only [Res.bind_ok]
  exact drawRowsU_add fuel qs pol s1 b1 r s' b' h

/-! ### range in both modes -/

/-- the written value stays below `q` whenever the drawn value is -/
def GoodCoeff (m : Mode) (q a : Nat) : Prop := ∀ w, w < q → m.f a w q < q

theorem goodCoeff_read (q a : Nat) : GoodCoeff .read q a := fun _ hw => hw

theorem goodCoeff_add (q a : Nat) (ha : a < q) (hq : 2 * q ≤ W) : GoodCoeff .readAndAdd q a := by
  intro w hw
  show CRed (u64add a w) q < q
  have hadd : u64add a w = a + w := by unfold u64add; exact Nat.mod_eq_of_lt (by omega)
  rw [hadd]
  unfold CRed
  by_cases h : q ≤ a + w
  · have : u64ge (a + w) q = true := by simpa [u64ge] using h
    rw [if_pos this]
    unfold u64sub
    rw [Nat.mod_eq_of_lt (by omega : q < W)]
    have e : a + w + W - q = (a + w - q) + W := by omega
    rw [e, Nat.add_mod_right, Nat.mod_eq_of_lt (by omega)]
    omega
  · have : ¬ (u64ge (a + w) q = true) := by simpa [u64ge] using h
    rw [if_neg this]
    omega

theorem drawU_lt (q mask : Nat) : ∀ (fuel : Nat) (s : Bytes) (b : Buf) (w : Nat) (s' : Bytes) (b' : Buf),
    drawU q mask fuel s b = .ok (w, s', b') → w < q := by
  intro fuel
  induction fuel with
  | zero => intro s b w s' b' h; simp [drawU] at h
  | succ n ihn =>
    intro s b w s' b' h
    unfold drawU at h
    obtain ⟨⟨s1, b1⟩, _, h⟩ := Res.bind_eq_ok h
    dsimp only at h
    split at h
    · rename_i hq
      injection h with h
      injection h with h1 _
      subst h1; exact hq
    · exact ihn _ _ _ _ _ h

theorem drawRowU_good (fuel : Nat) (m : Mode) (q mask : Nat) :
    ∀ (row : List Nat) (s : Bytes) (b : Buf) (r : List Nat) (s' : Bytes) (b' : Buf),
    (∀ a ∈ row, GoodCoeff m q a) →
    drawRowU fuel m q mask row s b = .ok (r, s', b') → ∀ c ∈ r, c < q := by
  intro row
  induction row with
  | nil =>
    intro s b r s' b' _ h
    simp only [drawRowU] at h
    injection h with h
    injection h with h1 _
    subst h1
    simp
  | cons a row ih =>
    intro s b r s' b' hg h
    simp only [drawRowU] at h
    obtain ⟨⟨w, s1, b1⟩, h1, h⟩ := Res.bind_eq_ok h
    dsimp only at h
    obtain ⟨⟨t, s2, b2⟩, h2, h⟩ := Res.bind_eq_ok h
    simp only [Res.pure_eq] at h
    injection h with h
    injection h with h3 _
    subst h3
    have hw : w < q := drawU_lt q mask fuel s b w s1 b1 h1
    intro c hc
    simp only [List.mem_cons] at hc
    rcases hc with hc | hc
    · rw [hc]; exact hg a List.mem_cons_self w hw
    · exact ih s1 b1 t s2 b2 (fun a' ha' => hg a' (List.mem_cons_of_mem _ ha')) h2 c hc

/-- the rows below the level are good for mode `m` -/
def GoodRows (m : Mode) : List Nat → Poly → Prop
  | [], _ => True
  | _ :: _, [] => True
  | q :: qs, row :: rest => (∀ a ∈ row, GoodCoeff m q a) ∧ GoodRows m qs rest

theorem drawRowsU_good (fuel : Nat) (m : Mode) :
    ∀ (qs : List Nat) (pol : Poly) (s : Bytes) (b : Buf) (r : Poly) (s' : Bytes) (b' : Buf),
    GoodRows m qs pol → drawRowsU fuel m qs pol s b = .ok (r, s', b') → RowsBelow qs r := by
  intro qs
  induction qs with
  | nil => intro pol s b r s' b' _ _; trivial
  | cons q qs ih =>
    intro pol s b r s' b' hg h
    cases pol with
    | nil => simp [drawRowsU] at h
    | cons row rest =>
      simp only [drawRowsU] at h
      obtain ⟨⟨r1, s1, b1⟩, h1, h⟩ := Res.bind_eq_ok h
      dsimp only at h
      obtain ⟨⟨t, s2, b2⟩, h2, h⟩ := Res.bind_eq_ok h
      simp only [Res.pure_eq] at h
      injection h with h
      injection h with h3 _
      subst h3
      exact ⟨drawRowU_good fuel m q (maskOf q) row s b r1 s1 b1 hg.1 h1, ih rest s1 b1 t s2 b2 hg.2 h2⟩

theorem uniformRead_good (fuel : Nat) (m : Mode) (qs : List Nat) (pol : Poly) (s : Bytes) (b : Buf)
    (r : Poly) (s' : Bytes) (b' : Buf) (hg : GoodRows m qs pol)
    (h : uniformRead fuel m qs pol s b = .ok (r, s', b')) : RowsBelow qs r := by
  unfold uniformRead at h
  obtain ⟨⟨s1, b1⟩, _, h⟩ := Res.bind_eq_ok h
  exact drawRowsU_good fuel m qs pol s1 b1 r s' b' hg h

theorem goodRows_add (qs : List Nat) (pol : Poly) (hq : ∀ q ∈ qs, 2 * q ≤ W) (hp : RowsBelow qs pol) :
    GoodRows .readAndAdd qs pol := by
  induction qs generalizing pol with
  | nil => trivial
  | cons q qs ih =>
    cases pol with
    | nil => trivial
    | cons row rest =>
      obtain ⟨h0, hrest⟩ := hp
      exact ⟨fun a ha => goodCoeff_add q a (h0 a ha) (hq q List.mem_cons_self),
        ih rest (fun q' hq' => hq q' (List.mem_cons_of_mem _ hq')) hrest⟩

theorem RowsBelow_get : ∀ (qs : List Nat) (r : Poly), RowsBelow qs r →
    ∀ i row, i < qs.length → r[i]? = some row → ∀ c ∈ row, c < qs.getD i 0 := by
  intro qs
  induction qs with
  | nil => intro r _ i row hi; simp at hi
  | cons q qs ih =>
    intro r hrb i row hi hrow c hc
    cases r with
    | nil => exact absurd hrb (by simp [RowsBelow])
    | cons r0 rs =>
      obtain ⟨h0, hrest⟩ := hrb
      cases i with
      | zero =>
        simp only [List.getElem?_cons_zero, Option.some.injEq] at hrow
        subst hrow
        simpa using h0 c hc
      | succ i =>
        simp only [List.getElem?_cons_succ] at hrow
        simp only [List.getD_cons_succ]
        exact ih rs hrest i row (by simpa using hi) hrow c hc

end Lattigo.Sampler
