/-
  C19 — lemmas about the decision functions of `Lattigo.Model.Params`
  (size checks, CheckModuli, ring construction, NewParameters, NewParametersFromLiteral).
-/
import Lattigo.Model.Params
import Mathlib.Data.Nat.Prime.Basic
import Mathlib.Tactic.Ring

namespace Lattigo.Params
open Lattigo

/-! ### list helpers -/

theorem firstIdx_none {α} (bad : α → Bool) :
    ∀ (l : List α) (i : Nat), firstIdx bad l i = none → ∀ x ∈ l, bad x = false := by
  intro l
  induction l with
  | nil => intro i _ x hx; cases hx
  | cons y ys ih =>
    intro i h x hx
    unfold firstIdx at h
    by_cases hy : bad y = true
    · simp [hy] at h
    · simp [hy] at h
      rcases List.mem_cons.mp hx with rfl | hx
      · simpa using hy
      · exact ih (i + 1) h x hx

theorem firstSome_none {α β} (f : α → Option β) :
    ∀ (l : List α), firstSome f l = none → ∀ x ∈ l, f x = none := by
  intro l
  induction l with
  | nil => intro _ x hx; cases hx
  | cons y ys ih =>
    intro h x hx
    unfold firstSome at h
    cases hy : f y with
    | some b => simp [hy] at h
    | none =>
      simp [hy] at h
      rcases List.mem_cons.mp hx with rfl | hx
      · exact hy
      · exact ih h x hx

theorem allDistinct_nodup : ∀ (l : List Nat), allDistinct l = true → l.Nodup := by
  intro l
  induction l with
  | nil => intro _; exact List.nodup_nil
  | cons x xs ih =>
    intro h
    unfold allDistinct at h
    simp only [Bool.and_eq_true, Bool.not_eq_true', List.contains_eq_mem, decide_eq_false_iff_not] at h
    exact List.nodup_cons.mpr ⟨h.1, ih h.2⟩

/-! ### bit lengths -/

theorem len64_le_iff (x k : Nat) : len64 x ≤ k ↔ x < 2 ^ k := by
  unfold len64
  by_cases hx : x = 0
  · subst hx; simp
  · simp only [hx, if_false]
    have := Nat.log2_lt (n := x) (k := k) hx
    omega

/-- what `CheckModuli`'s size test really enforces: `x < 2^(MaxModuliSize+1+slack)` -/
theorem tooManyBits_false {slack x : Nat} (h : tooManyBits slack x = false) :
    x ≠ 0 ∧ x < 2 ^ (MaxModuliSize + 1 + slack) := by
  unfold tooManyBits at h
  simp only [Bool.or_eq_false_iff, decide_eq_false_iff_not, not_lt] at h
  refine ⟨h.1, ?_⟩
  have := (len64_le_iff x (MaxModuliSize + 1 + slack)).mp (by omega)
  exact this

/-! ### CheckModuli -/

theorem checkModuli_none {o : Oracle} {q p : List Nat} (h : checkModuli o q p = none) :
    (∀ x ∈ q, x ≠ 0 ∧ x < 2 ^ 62 ∧ o.isPrime x = true) ∧
    (∀ x ∈ p, x ≠ 0 ∧ x < 2 ^ 63 ∧ o.isPrime x = true) := by
  unfold checkModuli at h
  split at h
  · cases h
  · rename_i h1
    split at h
    · cases h
    · rename_i h2
      split at h
      · cases h
      · rename_i h3
        split at h
        · cases h
        · rename_i h4
          constructor
          · intro x hx
            have a := tooManyBits_false (firstIdx_none _ _ _ h1 x hx)
            have b := firstIdx_none _ _ _ h2 x hx
            simp only [Bool.not_eq_false'] at b
            exact ⟨a.1, a.2, b⟩
          · intro x hx
            have a := tooManyBits_false (firstIdx_none _ _ _ h3 x hx)
            have b := firstIdx_none _ _ _ h4 x hx
            simp only [Bool.not_eq_false'] at b
            exact ⟨a.1, a.2, b⟩

/-! ### ring construction -/

theorem subRingCheck_none {o : Oracle} {n r m : Nat} (h : subRingCheck o n r m = none) :
    o.isPrime m = true ∧ m &&& (r - 1) = 1 := by
  unfold subRingCheck at h
  split at h
  · cases h
  · split at h
    · cases h
    · rename_i hp
      split at h
      · cases h
      · rename_i hn
        simp only [Bool.not_eq_true, Bool.not_eq_false'] at hp
        simp only [bne_iff_ne, ne_eq, Decidable.not_not] at hn
        exact ⟨hp, hn⟩

theorem newRing_none {o : Oracle} {n r : Nat} {ms : List Nat} (h : newRing o n ms r = none) :
    MinRingDegree ≤ n ∧ ms ≠ [] ∧ ms.Nodup ∧ ∀ m ∈ ms, o.isPrime m = true ∧ m &&& (r - 1) = 1 := by
  unfold newRing at h
  split at h
  · cases h
  · rename_i hdeg
    split at h
    · cases h
    · rename_i hne
      split at h
      · cases h
      · rename_i hd
        simp only [Bool.or_eq_true, decide_eq_true_eq, not_or, not_lt] at hdeg
        simp only [Bool.not_eq_true, Bool.not_eq_false'] at hd
        refine ⟨hdeg.1, ?_, allDistinct_nodup _ hd, ?_⟩
        · intro he; subst he; simp at hne
        · intro m hm
          exact subRingCheck_none (firstSome_none _ _ h m hm)

/-- `m & (2^k - 1) = 1` is `m ≡ 1 (mod 2^k)` -/
theorem and_mask_eq_one {m k : Nat} (h : m &&& (2 ^ k - 1) = 1) : m % 2 ^ k = 1 := by
  rw [Nat.and_two_pow_sub_one_eq_mod] at h
  exact h

theorem newRingFromType_none {o : Oracle} {n rt : Nat} {ms : List Nat}
    (h : newRingFromType o n ms rt = none) :
    (rt = 0 ∨ rt = 1) ∧ MinRingDegree ≤ n ∧ ms ≠ [] ∧ ms.Nodup ∧
    ∀ m ∈ ms, o.isPrime m = true ∧ m &&& ((if rt = 0 then 2 * n else 4 * n) - 1) = 1 := by
  unfold newRingFromType at h
  split at h
  · rename_i h0
    have := newRing_none h
    subst h0
    exact ⟨Or.inl rfl, this.1, this.2.1, this.2.2.1, by simpa using this.2.2.2⟩
  · rename_i h0
    split at h
    · rename_i h1
      have := newRing_none h
      subst h1
      exact ⟨Or.inr rfl, this.1, this.2.1, this.2.2.1, by simpa using this.2.2.2⟩
    · cases h

/-! ### NewParameters -/

/-- What acceptance by `NewParameters` establishes (the true strength of the code's checks). -/
structure AcceptedFacts (o : Oracle) (logN : Int) (q p : List Nat) (rt : Nat) (a : Accepted) : Prop where
  logN_eq : (a.logN : Int) = logN
  logN_ge : MinLogN ≤ logN
  logN_le : logN ≤ MaxLogN
  q_eq : a.q = q
  p_eq : a.p = p
  rt_eq : a.ringType = rt
  rt_ok : rt = 0 ∨ rt = 1
  q_ne : q ≠ []
  q_nodup : q.Nodup
  p_nodup : p.Nodup
  q_prime : ∀ m ∈ q, o.isPrime m = true
  p_prime : ∀ m ∈ p, o.isPrime m = true
  q_ntt : ∀ m ∈ q, m % a.nthRoot = 1
  p_ntt : ∀ m ∈ p, m % a.nthRoot = 1
  q_bits : ∀ m ∈ q, m < 2 ^ 62
  p_bits : ∀ m ∈ p, m < 2 ^ 63

theorem nthRoot_pow (a : Accepted) (h : a.ringType = 0 ∨ a.ringType = 1) :
    a.nthRoot = 2 ^ (a.logN + 1 + a.ringType) := by
  unfold Accepted.nthRoot Accepted.n
  rcases h with h | h <;> simp [h, Nat.pow_succ] <;> ring

theorem newParameters_ok {o : Oracle} {logN : Int} {q p : List Nat} {rt : Nat} {w0 s0 : Bool}
    {a : Accepted} (h : newParameters o logN q p rt w0 s0 = .ok a) :
    AcceptedFacts o logN q p rt a := by
  unfold newParameters at h
  split at h
  · cases h
  · rename_i hsz
    split at h
    · cases h
    · rename_i hcm
      simp only at h
      split at h
      · cases h
      · rename_i hrq
        split at h
        · cases h
        · rename_i hrp
          split at h
          · cases h
          · split at h
            · cases h
            · split at h
              · cases h
              · injection h with h
                subst h
                -- size
                have hsz' : MinLogN ≤ logN ∧ logN ≤ MaxLogN := by
                  unfold checkSizeParams at hsz
                  split at hsz
                  · cases hsz
                  · split at hsz
                    · cases hsz
                    · constructor <;> omega
                have hnn : (0 : Int) ≤ logN := by unfold MinLogN at hsz'; omega
                have hcm' := checkModuli_none hcm
                have hq := newRingFromType_none hrq
                have hroot : ∀ (rt : Nat), (rt = 0 ∨ rt = 1) →
                    (if rt = 0 then 2 * 2 ^ logN.toNat else 4 * 2 ^ logN.toNat)
                      = 2 ^ (logN.toNat + 1 + rt) := by
                  intro rt hrt
                  rcases hrt with h | h <;> subst h <;> simp [Nat.pow_succ] <;> ring
                have hnth : (Accepted.nthRoot ⟨logN.toNat, q, p, rt⟩) = 2 ^ (logN.toNat + 1 + rt) :=
                  nthRoot_pow _ hq.1
                have hpfacts : p.Nodup ∧ ∀ m ∈ p, m % 2 ^ (logN.toNat + 1 + rt) = 1 := by
                  by_cases hpe : p.isEmpty = true
                  · have : p = [] := by simpa using hpe
                    subst this
                    exact ⟨List.nodup_nil, by intro m hm; cases hm⟩
                  · simp only [hpe] at hrp
                    have hp := newRingFromType_none hrp
                    refine ⟨hp.2.2.2.1, ?_⟩
                    intro m hm
                    have := (hp.2.2.2.2 m hm).2
                    rw [hroot rt hp.1] at this
                    exact and_mask_eq_one this
                refine
                  { logN_eq := by simp [Int.toNat_of_nonneg hnn]
                    logN_ge := hsz'.1
                    logN_le := hsz'.2
                    q_eq := rfl
                    p_eq := rfl
                    rt_eq := rfl
                    rt_ok := hq.1
                    q_ne := hq.2.2.1
                    q_nodup := hq.2.2.2.1
                    p_nodup := hpfacts.1
                    q_prime := fun m hm => (hcm'.1 m hm).2.2
                    p_prime := fun m hm => (hcm'.2 m hm).2.2
                    q_ntt := ?_
                    p_ntt := ?_
                    q_bits := fun m hm => (hcm'.1 m hm).2.1
                    p_bits := fun m hm => (hcm'.2 m hm).2.1 }
                · intro m hm
                  rw [hnth]
                  have := (hq.2.2.2.2 m hm).2
                  rw [hroot rt hq.1] at this
                  exact and_mask_eq_one this
                · intro m hm
                  rw [hnth]
                  exact hpfacts.2 m hm

/-- `NewParameters` is total: it never panics and never spins. -/
theorem newParameters_total (o : Oracle) (logN : Int) (q p : List Nat) (rt : Nat) (w0 s0 : Bool) :
    (∃ a, newParameters o logN q p rt w0 s0 = .ok a) ∨
    (∃ c, newParameters o logN q p rt w0 s0 = .err c) := by
  unfold newParameters
  cases checkSizeParams logN with
  | some c => exact Or.inr ⟨_, rfl⟩
  | none =>
    cases checkModuli o q p with
    | some c => exact Or.inr ⟨_, rfl⟩
    | none =>
      simp only
      cases newRingFromType o (2 ^ logN.toNat) q rt with
      | some c => exact Or.inr ⟨_, rfl⟩
      | none =>
        cases (if p.isEmpty = true then none else newRingFromType o (2 ^ logN.toNat) p rt) with
        | some c => exact Or.inr ⟨_, rfl⟩
        | none =>
          cases w0 <;> cases s0
          · exact Or.inl ⟨_, rfl⟩
          · exact Or.inr ⟨_, rfl⟩
          · exact Or.inr ⟨_, rfl⟩
          · exact Or.inr ⟨_, rfl⟩

/-! ### NewParametersFromLiteral -/

/-- An accepted literal went through `NewParameters` with some moduli. -/
theorem newParametersFromLiteral_ok {o : Oracle} {fuel : Nat} {lit : Literal} {a : Accepted}
    (h : newParametersFromLiteral o fuel lit = .ok a) :
    ∃ q p, newParameters o lit.logN q p lit.ringType lit.xsWeight0 lit.xeStd0 = .ok a := by
  unfold newParametersFromLiteral at h
  split at h
  · cases h
  · split at h
    · cases h
    · split at h
      · cases h
      · simp only at h
        split at h
        · cases h
        · cases h
        · cases h
        · exact ⟨_, _, h⟩

/-- With explicit moduli (no `LogQ`/`LogP`) the constructor is total: accept or error. -/
theorem newParametersFromLiteral_explicit_total (o : Oracle) (fuel : Nat) (lit : Literal)
    (hq : lit.logQ = none) (hp : lit.logP = none) :
    (∃ a, newParametersFromLiteral o fuel lit = .ok a) ∨
    (∃ c, newParametersFromLiteral o fuel lit = .err c) := by
  unfold newParametersFromLiteral
  simp only [hq, hp, Option.isNone_none, Option.isSome_none, Bool.and_true, Bool.and_false,
    Bool.or_self, Bool.false_eq_true, if_false]
  split
  · exact Or.inr ⟨_, rfl⟩
  · exact newParameters_total ..

end Lattigo.Params
