/-
  C19 — lemmas about the decision functions of `Lattigo.Model.Params`
  (size checks, CheckModuli, ring construction, NewParameters, NewParametersFromLiteral).
-/
import Lattigo.Model.Params
import Mathlib.Data.Nat.Prime.Basic
import Mathlib.Tactic.Ring

namespace Lattigo.Params
open Lattigo

/-! ### list helpers -/

theorem firstIdx_none {α} (bad : α → Bool) :
    ∀ (l : List α) (i : Nat), firstIdx bad l i = none → ∀ x ∈ l, bad x = false := by
  intro l
  induction l with
  | nil => intro i _ x hx; cases hx
  | cons y ys ih =>
    intro i h x hx
    unfold firstIdx at h
    by_cases hy : bad y = true
    · simp [hy] at h
    · simp [hy] at h
      rcases List.mem_cons.mp hx with rfl | hx
      · simpa using hy
      · exact ih (i + 1) h x hx

theorem firstSome_none {α β} (f : α → Option β) :
    ∀ (l : List α), firstSome f l = none → ∀ x ∈ l, f x = none := by
  intro l
  induction l with
  | nil => intro _ x hx; cases hx
  | cons y ys ih =>
    intro h x hx
    unfold firstSome at h
    cases hy : f y with
    | some b => simp [hy] at h
    | none =>
      simp [hy] at h
      rcases List.mem_cons.mp hx with rfl | hx
      · exact hy
      · exact ih h x hx

theorem allDistinct_nodup : ∀ (l : List Nat), allDistinct l = true → l.Nodup := by
  intro l
  induction l with
  | nil => intro _; exact List.nodup_nil
  | cons x xs ih =>
    intro h
    unfold allDistinct at h
    simp only [Bool.and_eq_true, Bool.not_eq_true', List.contains_eq_mem, decide_eq_false_iff_not] at h
    exact List.nodup_cons.mpr ⟨h.1, ih h.2⟩

/-! ### bit lengths -/

theorem len64_le_iff (x k : Nat) : len64 x ≤ k ↔ x < 2 ^ k := by
  unfold len64
  by_cases hx : x = 0
  · subst hx; simp
  · simp only [hx, if_false]
    have := Nat.log2_lt (n := x) (k := k) hx
    omega

/-- what `CheckModuli`'s size test enforces: `x < 2^61` -/
theorem tooManyBits_false {x : Nat} (h : tooManyBits x = false) : x < 2 ^ 61 := by
  unfold tooManyBits at h
  simp only [decide_eq_false_iff_not, not_lt] at h
  exact (len64_le_iff x 61).mp (by unfold MaxModuliSize at h; omega)

/-! ### CheckModuli -/

theorem checkModuli_none {o : Oracle} {q p : List Nat} (h : checkModuli o q p = none) :
    (∀ x ∈ q, x < 2 ^ 61 ∧ o.isPrime x = true) ∧
    (∀ x ∈ p, x < 2 ^ 61 ∧ o.isPrime x = true) ∧ (q ++ p).Nodup := by
  unfold checkModuli at h
  split at h
  · cases h
  · rename_i h1
    split at h
    · cases h
    · rename_i h2
      split at h
      · cases h
      · rename_i h3
        split at h
        · cases h
        · rename_i h4
          split at h
          · rename_i h5
            refine ⟨?_, ?_, allDistinct_nodup _ h5⟩
            · intro x hx
              have a := tooManyBits_false (firstIdx_none _ _ _ h1 x hx)
              have b := firstIdx_none _ _ _ h2 x hx
              simp only [Bool.not_eq_false'] at b
              exact ⟨a, b⟩
            · intro x hx
              have a := tooManyBits_false (firstIdx_none _ _ _ h3 x hx)
              have b := firstIdx_none _ _ _ h4 x hx
              simp only [Bool.not_eq_false'] at b
              exact ⟨a, b⟩
          · cases h

/-! ### ring construction -/

theorem subRingCheck_none {o : Oracle} {n r m : Nat} (h : subRingCheck o n r m = none) :
    o.isPrime m = true ∧ m &&& (r - 1) = 1 := by
  unfold subRingCheck at h
  split at h
  · cases h
  · split at h
    · cases h
    · rename_i hp
      split at h
      · cases h
      · rename_i hn
        simp only [Bool.not_eq_true, Bool.not_eq_false'] at hp
        simp only [bne_iff_ne, ne_eq, Decidable.not_not] at hn
        exact ⟨hp, hn⟩

theorem newRing_none {o : Oracle} {n r : Nat} {ms : List Nat} (h : newRing o n ms r = none) :
    MinRingDegree ≤ n ∧ ms ≠ [] ∧ ms.Nodup ∧ ∀ m ∈ ms, o.isPrime m = true ∧ m &&& (r - 1) = 1 := by
  unfold newRing at h
  split at h
  · cases h
  · rename_i hdeg
    split at h
    · cases h
    · rename_i hne
      split at h
      · cases h
      · rename_i hd
        simp only [Bool.or_eq_true, decide_eq_true_eq, not_or, not_lt] at hdeg
        simp only [Bool.not_eq_true, Bool.not_eq_false'] at hd
        refine ⟨hdeg.1, ?_, allDistinct_nodup _ hd, ?_⟩
        · intro he; subst he; simp at hne
        · intro m hm
          exact subRingCheck_none (firstSome_none _ _ h m hm)

/-- `m & (2^k - 1) = 1` is `m ≡ 1 (mod 2^k)` -/
theorem and_mask_eq_one {m k : Nat} (h : m &&& (2 ^ k - 1) = 1) : m % 2 ^ k = 1 := by
  rw [Nat.and_two_pow_sub_one_eq_mod] at h
  exact h

theorem newRingFromType_none {o : Oracle} {n rt : Nat} {ms : List Nat}
    (h : newRingFromType o n ms rt = none) :
    (rt = 0 ∨ rt = 1) ∧ MinRingDegree ≤ n ∧ ms ≠ [] ∧ ms.Nodup ∧
    ∀ m ∈ ms, o.isPrime m = true ∧ m &&& ((if rt = 0 then 2 * n else 4 * n) - 1) = 1 := by
  unfold newRingFromType at h
  split at h
  · rename_i h0
    have := newRing_none h
    subst h0
    exact ⟨Or.inl rfl, this.1, this.2.1, this.2.2.1, by simpa using this.2.2.2⟩
  · rename_i h0
    split at h
    · rename_i h1
      have := newRing_none h
      subst h1
      exact ⟨Or.inr rfl, this.1, this.2.1, this.2.2.1, by simpa using this.2.2.2⟩
    · cases h

/-! ### NewParameters -/

/-- What acceptance by `NewParameters` establishes (the true strength of the code's checks). -/
structure AcceptedFacts (o : Oracle) (logN : Int) (q p : List Nat) (rt : Nat) (a : Accepted) : Prop where
  logN_eq : (a.logN : Int) = logN
  logN_ge : MinLogN ≤ logN
  logN_le : logN ≤ MaxLogN
  q_eq : a.q = q
  p_eq : a.p = p
  rt_eq : a.ringType = rt
  rt_ok : rt = 0 ∨ rt = 1
  q_ne : q ≠ []
  qp_nodup : (q ++ p).Nodup
  q_prime : ∀ m ∈ q, o.isPrime m = true
  p_prime : ∀ m ∈ p, o.isPrime m = true
  q_ntt : ∀ m ∈ q, m % a.nthRoot = 1
  p_ntt : ∀ m ∈ p, m % a.nthRoot = 1
  q_bits : ∀ m ∈ q, m < 2 ^ 61
  p_bits : ∀ m ∈ p, m < 2 ^ 61

theorem nthRoot_pow (a : Accepted) (h : a.ringType = 0 ∨ a.ringType = 1) :
    a.nthRoot = 2 ^ (a.logN + 1 + a.ringType) := by
  unfold Accepted.nthRoot Accepted.n
  rcases h with h | h <;> simp [h, Nat.pow_succ] <;> ring

theorem newParameters_ok {o : Oracle} {logN : Int} {q p : List Nat} {rt : Nat} {w0 s0 : Bool}
    {a : Accepted} (h : newParameters o logN q p rt w0 s0 = .ok a) :
    AcceptedFacts o logN q p rt a := by
  unfold newParameters at h
  split at h
  · cases h
  · rename_i hsz
    split at h
    · cases h
    · rename_i hcm
      simp only at h
      split at h
      · cases h
      · rename_i hrq
        split at h
        · cases h
        · rename_i hrp
          split at h
          · cases h
          · split at h
            · cases h
            · split at h
              · cases h
              · injection h with h
                subst h
                -- size
                have hsz' : MinLogN ≤ logN ∧ logN ≤ MaxLogN := by
                  unfold checkSizeParams at hsz
                  split at hsz
                  · cases hsz
                  · split at hsz
                    · cases hsz
                    · constructor <;> omega
                have hnn : (0 : Int) ≤ logN := by unfold MinLogN at hsz'; omega
                have hcm' := checkModuli_none hcm
                have hq := newRingFromType_none hrq
                have hroot : ∀ (rt : Nat), (rt = 0 ∨ rt = 1) →
                    (if rt = 0 then 2 * 2 ^ logN.toNat else 4 * 2 ^ logN.toNat)
                      = 2 ^ (logN.toNat + 1 + rt) := by
                  intro rt hrt
                  rcases hrt with h | h <;> subst h <;> simp [Nat.pow_succ] <;> ring
                have hnth : (Accepted.nthRoot ⟨logN.toNat, q, p, rt⟩) = 2 ^ (logN.toNat + 1 + rt) :=
                  nthRoot_pow _ hq.1
                have hpfacts : ∀ m ∈ p, m % 2 ^ (logN.toNat + 1 + rt) = 1 := by
                  by_cases hpe : p.isEmpty = true
                  · have : p = [] := by simpa using hpe
                    subst this
                    intro m hm; cases hm
                  · simp only [hpe] at hrp
                    have hp := newRingFromType_none hrp
                    intro m hm
                    have := (hp.2.2.2.2 m hm).2
                    rw [hroot rt hp.1] at this
                    exact and_mask_eq_one this
                refine
                  { logN_eq := by simp [Int.toNat_of_nonneg hnn]
                    logN_ge := hsz'.1
                    logN_le := hsz'.2
                    q_eq := rfl
                    p_eq := rfl
                    rt_eq := rfl
                    rt_ok := hq.1
                    q_ne := hq.2.2.1
                    qp_nodup := hcm'.2.2
                    q_prime := fun m hm => (hcm'.1 m hm).2
                    p_prime := fun m hm => (hcm'.2.1 m hm).2
                    q_ntt := ?_
                    p_ntt := ?_
                    q_bits := fun m hm => (hcm'.1 m hm).1
                    p_bits := fun m hm => (hcm'.2.1 m hm).1 }
                · intro m hm
                  rw [hnth]
                  have := (hq.2.2.2.2 m hm).2
                  rw [hroot rt hq.1] at this
                  exact and_mask_eq_one this
                · intro m hm
                  rw [hnth]
                  exact hpfacts m hm

/-- `NewParameters` is total: it never panics and never spins. -/
theorem newParameters_total (o : Oracle) (logN : Int) (q p : List Nat) (rt : Nat) (w0 s0 : Bool) :
    (∃ a, newParameters o logN q p rt w0 s0 = .ok a) ∨
    (∃ c, newParameters o logN q p rt w0 s0 = .err c) := by
  unfold newParameters
  cases checkSizeParams logN with
  | some c => exact Or.inr ⟨_, rfl⟩
  | none =>
    cases checkModuli o q p with
    | some c => exact Or.inr ⟨_, rfl⟩
    | none =>
      simp only
      cases newRingFromType o (2 ^ logN.toNat) q rt with
      | some c => exact Or.inr ⟨_, rfl⟩
      | none =>
        cases (if p.isEmpty = true then none else newRingFromType o (2 ^ logN.toNat) p rt) with
        | some c => exact Or.inr ⟨_, rfl⟩
        | none =>
          cases w0 <;> cases s0
          · exact Or.inl ⟨_, rfl⟩
          · exact Or.inr ⟨_, rfl⟩
          · exact Or.inr ⟨_, rfl⟩
          · exact Or.inr ⟨_, rfl⟩

/-! ### NewParametersFromLiteral -/

/-- An accepted literal went through `NewParameters` with some moduli. -/
theorem newParametersFromLiteral_ok {o : Oracle} {fuel : Nat} {lit : Literal} {a : Accepted}
    (h : newParametersFromLiteral o fuel lit = .ok a) :
    ∃ q p, newParameters o lit.logN q p lit.ringType lit.xsWeight0 lit.xeStd0 = .ok a := by
  unfold newParametersFromLiteral at h
  split at h
  · cases h
  · split at h
    · cases h
    · split at h
      · cases h
      · dsimp only at h
        split at h
        · cases h
        · cases h
        · cases h
        · exact ⟨_, _, h⟩

/-- With explicit moduli (no `LogQ`/`LogP`) the constructor is total: accept or error. -/
theorem newParametersFromLiteral_explicit_total (o : Oracle) (fuel : Nat) (lit : Literal)
    (hq : lit.logQ = none) (hp : lit.logP = none) :
    (∃ a, newParametersFromLiteral o fuel lit = .ok a) ∨
    (∃ c, newParametersFromLiteral o fuel lit = .err c) := by
  unfold newParametersFromLiteral
  simp only [hq, hp, Option.isNone_none, Option.isSome_none, Bool.and_true, Bool.and_false,
    Bool.or_self, Bool.false_eq_true, if_false]
  split
  · exact Or.inr ⟨_, rfl⟩
  · exact newParameters_total ..

/-! ### the generator never panics -/

theorem upLoop_ne_panic (o : Oracle) (g : Gen) : ∀ fuel c, (upLoop o g fuel c).2 ≠ .panic := by
  intro fuel
  induction fuel with
  | zero => intro c; simp [upLoop]
  | succ f ih =>
    intro c
    unfold upLoop
    split
    · simp
    · split
      · simp
      · split
        · simp
        · exact ih _

theorem downLoop_ne_panic (o : Oracle) (g : Gen) : ∀ fuel c, (downLoop o g fuel c).2 ≠ .panic := by
  intro fuel
  induction fuel with
  | zero => intro c; simp [downLoop]
  | succ f ih =>
    intro c
    unfold downLoop
    split
    · simp
    · split
      · simp
      · split
        · simp
        · exact ih _

theorem altLoop_ne_panic (o : Oracle) (g : Gen) :
    ∀ fuel np pp cn cp, (altLoop o g fuel np pp cn cp).2 ≠ .panic := by
  intro fuel
  induction fuel with
  | zero => intro np pp cn cp; simp [altLoop]
  | succ f ih =>
    intro np pp cn cp
    unfold altLoop
    split
    · simp
    · dsimp only
      split
      · simp
      · split
        · simp
        · exact ih _ _ _ _

theorem nextPrimes_ne_panic (step : Gen → Gen × Res Nat) (hstep : ∀ g, (step g).2 ≠ .panic) :
    ∀ k g, (nextPrimes step k g).2 ≠ .panic := by
  intro k
  induction k with
  | zero => intro g; simp [nextPrimes]
  | succ k ih =>
    intro g
    unfold nextPrimes
    split
    · rename_i g' p hst
      split
      · simp
      · simp
      · rename_i g'' hrec
        exact absurd (by rw [hrec]) (ih g')
      · simp
    · simp
    · rename_i g' hst
      exact absurd (by rw [hst]) (hstep g)
    · simp

theorem genPrimes_ne_panic (o : Oracle) (fuel dir b r k : Nat) : genPrimes o fuel dir b r k ≠ .panic := by
  unfold genPrimes
  apply nextPrimes_ne_panic
  intro g
  split
  · exact upLoop_ne_panic o g fuel _
  · split
    · exact downLoop_ne_panic o g fuel _
    · exact altLoop_ne_panic o g fuel _ _ _ _

theorem genAll_ne_panic (o : Oracle) (fuel r : Nat) (req : List Nat) :
    ∀ sizes, genAll o fuel r req sizes ≠ .panic := by
  intro sizes
  induction sizes with
  | nil => simp [genAll]
  | cons s rest ih =>
    unfold genAll
    split
    · split
      · simp
      · simp
      · rename_i h; exact absurd h ih
      · simp
    · simp
    · rename_i h; exact absurd h (genPrimes_ne_panic _ _ _ _ _ _)
    · simp

/-- `GenModuli` never panics (its root order is range-checked before it is used as a shift count) -/
theorem genModuli_ne_panic (o : Oracle) (fuel : Nat) (l : Int) (logQ logP : List Int) :
    genModuli o fuel l logQ logP ≠ .panic := by
  intro h
  unfold genModuli at h
  split at h
  · cases h
  · split at h
    · cases h
    · split at h
      · cases h
      · dsimp only at h
        split at h
        · cases h
        · cases h
        · rename_i hp; exact absurd hp (genAll_ne_panic _ _ _ _ _)
        · cases h

/-- the literal constructor never panics -/
theorem newParametersFromLiteral_ne_panic (o : Oracle) (fuel : Nat) (lit : Literal) :
    newParametersFromLiteral o fuel lit ≠ .panic := by
  intro h
  unfold newParametersFromLiteral at h
  split at h
  · cases h
  · split at h
    · cases h
    · split at h
      · cases h
      · dsimp only at h
        split at h
        · cases h
        · rename_i hg
          split at hg
          · split at hg
            · cases hg
            · split at hg
              · split at hg
                · cases hg
                · cases hg
                · rename_i hp; exact absurd hp (genModuli_ne_panic _ _ _ _ _)
                · cases hg
              · cases hg
          · cases hg
        · cases h
        · rename_i q p _
          rcases newParameters_total o lit.logN ((q.orElse fun _ => lit.q).getD [])
            ((p.orElse fun _ => lit.p).getD []) lit.ringType lit.xsWeight0 lit.xeStd0 with ⟨a, ha⟩ | ⟨c, hc⟩
          · rw [ha] at h; cases h
          · rw [hc] at h; cases h

/-! ### completeness of `NewParameters`: the requirements are also sufficient -/

theorem firstIdx_eq_none {α} (bad : α → Bool) :
    ∀ (l : List α) (i : Nat), (∀ x ∈ l, bad x = false) → firstIdx bad l i = none := by
  intro l
  induction l with
  | nil => intro i _; rfl
  | cons y ys ih =>
    intro i h
    unfold firstIdx
    have hy := h y (List.mem_cons_self ..)
    simp only [hy, Bool.false_eq_true, if_false]
    exact ih (i + 1) (fun x hx => h x (List.mem_cons_of_mem _ hx))

theorem firstSome_eq_none {α β} (f : α → Option β) :
    ∀ (l : List α), (∀ x ∈ l, f x = none) → firstSome f l = none := by
  intro l
  induction l with
  | nil => intro _; rfl
  | cons y ys ih =>
    intro h
    unfold firstSome
    rw [h y (List.mem_cons_self ..)]
    exact ih (fun x hx => h x (List.mem_cons_of_mem _ hx))

theorem nodup_allDistinct : ∀ (l : List Nat), l.Nodup → allDistinct l = true := by
  intro l
  induction l with
  | nil => intro _; rfl
  | cons x xs ih =>
    intro h
    have := List.nodup_cons.mp h
    unfold allDistinct
    simp only [Bool.and_eq_true, Bool.not_eq_true', List.contains_eq_mem, decide_eq_false_iff_not]
    exact ⟨this.1, ih this.2⟩

theorem tooManyBits_eq_false {x : Nat} (h : x < 2 ^ 61) : tooManyBits x = false := by
  unfold tooManyBits
  simp only [decide_eq_false_iff_not, not_lt]
  have := (len64_le_iff x 61).mpr h
  unfold MaxModuliSize; omega

theorem isPow2_two_pow (k : Nat) : isPow2 (2 ^ k) = true := by
  unfold isPow2
  simp only [decide_eq_true_eq]
  rw [Nat.and_two_pow_sub_one_eq_mod, Nat.mod_self]

/-- The requirements `NewParameters` really enforces (its exact acceptance condition, warnings aside). -/
structure Requirements (o : Oracle) (logN : Int) (q p : List Nat) (rt : Nat) : Prop where
  logN_ge : MinLogN ≤ logN
  logN_le : logN ≤ MaxLogN
  rt_ok : rt = 0 ∨ rt = 1
  q_ne : q ≠ []
  qp_nodup : (q ++ p).Nodup
  q_ok : ∀ m ∈ q, o.isPrime m = true ∧ m % 2 ^ (logN.toNat + 1 + rt) = 1 ∧ m < 2 ^ 61
  p_ok : ∀ m ∈ p, o.isPrime m = true ∧ m % 2 ^ (logN.toNat + 1 + rt) = 1 ∧ m < 2 ^ 61

theorem newRing_eq_none {o : Oracle} {k j : Nat} {ms : List Nat} (hk : 3 ≤ k) (hne : ms ≠ [])
    (hnd : ms.Nodup) (hok : ∀ m ∈ ms, o.isPrime m = true ∧ m % 2 ^ (k + j) = 1) :
    newRing o (2 ^ k) ms (2 ^ (k + j)) = none := by
  unfold newRing
  have h8 : ¬ (2 ^ k < MinRingDegree) := by
    have : 2 ^ 3 ≤ 2 ^ k := Nat.pow_le_pow_right (by decide) hk
    unfold MinRingDegree; omega
  have hemp : ms.isEmpty = false := by
    cases ms with
    | nil => exact absurd rfl hne
    | cons _ _ => rfl
  simp only [decide_eq_true_eq, h8, isPow2_two_pow, Bool.not_true, Bool.false_and, Bool.or_self,
    Bool.false_eq_true, if_false, hemp, nodup_allDistinct ms hnd, decide_false]
  apply firstSome_eq_none
  intro m hm
  obtain ⟨h1, h2⟩ := hok m hm
  unfold subRingCheck
  have hm0 : m ≠ 0 := by
    intro h; subst h
    rw [Nat.zero_mod] at h2; cases h2
  have hn0 : 2 ^ k ≠ 0 := Nat.pos_iff_ne_zero.mp (Nat.two_pow_pos k)
  simp only [hn0, hm0, decide_false, Bool.or_self, Bool.false_eq_true, if_false, h1, Bool.not_true,
    Nat.and_two_pow_sub_one_eq_mod, h2, bne_self_eq_false]

theorem newParameters_complete {o : Oracle} {logN : Int} {q p : List Nat} {rt : Nat}
    (hreq : Requirements o logN q p rt) :
    newParameters o logN q p rt false false = .ok { logN := logN.toNat, q := q, p := p, ringType := rt } := by
  obtain ⟨h1, h2, h3, h4, h56, h7, h8⟩ := hreq
  have h5 : q.Nodup := (List.nodup_append.mp h56).1
  have h6 : p.Nodup := (List.nodup_append.mp h56).2.1
  unfold newParameters
  have hsz : checkSizeParams logN = none := by
    unfold checkSizeParams
    simp only [gt_iff_lt, Int.not_lt.mpr h2, Int.not_lt.mpr h1, if_false]
  have hcm : checkModuli o q p = none := by
    unfold checkModuli
    rw [firstIdx_eq_none _ q 0 (fun m hm => tooManyBits_eq_false (h7 m hm).2.2)]
    simp only
    rw [firstIdx_eq_none _ q 0 (fun m hm => by simp [(h7 m hm).1])]
    simp only
    rw [firstIdx_eq_none _ p 0 (fun m hm => tooManyBits_eq_false (h8 m hm).2.2)]
    simp only
    rw [firstIdx_eq_none _ p 0 (fun m hm => by simp [(h8 m hm).1])]
    simp only [nodup_allDistinct _ h56, if_true]
  have hk : 3 ≤ logN.toNat := by unfold MinLogN at h1; omega
  have hring : ∀ ms : List Nat, ms ≠ [] → ms.Nodup →
      (∀ m ∈ ms, o.isPrime m = true ∧ m % 2 ^ (logN.toNat + 1 + rt) = 1) →
      newRingFromType o (2 ^ logN.toNat) ms rt = none := by
    intro ms hne hnd hok
    unfold newRingFromType
    rcases h3 with h3 | h3 <;> subst h3
    · simp only [if_true]
      have : 2 * 2 ^ logN.toNat = 2 ^ (logN.toNat + 1) := by rw [Nat.pow_succ]; ring
      rw [this]
      exact newRing_eq_none hk hne hnd (by simpa using hok)
    · simp only [show (1 : Nat) ≠ 0 by decide, if_false, if_true]
      have : 4 * 2 ^ logN.toNat = 2 ^ (logN.toNat + 2) := by rw [Nat.pow_succ, Nat.pow_succ]; ring
      rw [this]
      exact newRing_eq_none hk hne hnd (by simpa using hok)
  rw [hsz, hcm]
  simp only
  rw [hring q h4 h5 (fun m hm => ⟨(h7 m hm).1, (h7 m hm).2.1⟩)]
  simp only
  have hp : (if p.isEmpty = true then none else newRingFromType o (2 ^ logN.toNat) p rt) = none := by
    by_cases hpe : p.isEmpty = true
    · simp [hpe]
    · simp only [hpe, if_false]
      apply hring p _ h6 (fun m hm => ⟨(h8 m hm).1, (h8 m hm).2.1⟩)
      intro h; subst h; simp at hpe
  rw [hp]
  simp

theorem requirements_of_ok {o : Oracle} {logN : Int} {q p : List Nat} {rt : Nat} {w0 s0 : Bool}
    {a : Accepted} (h : newParameters o logN q p rt w0 s0 = .ok a) : Requirements o logN q p rt := by
  have f := newParameters_ok h
  have hnth := nthRoot_pow a (by rw [f.rt_eq]; exact f.rt_ok)
  have hl : a.logN = logN.toNat := by have := f.logN_eq; omega
  rw [hl, f.rt_eq] at hnth
  exact
    { logN_ge := f.logN_ge, logN_le := f.logN_le, rt_ok := f.rt_ok, q_ne := f.q_ne,
      qp_nodup := f.qp_nodup,
      q_ok := fun m hm => ⟨f.q_prime m hm, by rw [← hnth]; exact f.q_ntt m hm, f.q_bits m hm⟩,
      p_ok := fun m hm => ⟨f.p_prime m hm, by rw [← hnth]; exact f.p_ntt m hm, f.p_bits m hm⟩ }

/-! ### bgv.NewParameters -/

theorem qmulLoop_avoid (o : Oracle) (fuel : Nat) (avoid : List Nat) :
    ∀ (outer need : Nat) (g : Gen) (ps : List Nat), qmulLoop o fuel avoid outer need g = .ok ps →
      ∀ m ∈ ps, m ∉ avoid := by
  intro outer
  induction outer with
  | zero => intro need g ps h; simp [qmulLoop] at h
  | succ n ih =>
    intro need g ps h
    unfold qmulLoop at h
    split at h
    · simp only [Res.ok.injEq] at h; subst h; intro m hm; cases hm
    · split at h
      · rename_i g' p _
        split at h
        · exact ih _ _ _ h
        · rename_i hnot
          split at h
          · rename_i ps' hrec
            simp only [Res.ok.injEq] at h
            subst h
            intro m hm
            rcases List.mem_cons.mp hm with rfl | hm
            · simpa using hnot
            · exact ih _ _ _ hrec m hm
          · rename_i r hr
            rw [h] at hr
            exact absurd rfl (hr ps)
      all_goals cases h

/-- what acceptance by `bgv.NewParameters` establishes -/
theorem bgvNew_ok {o : Oracle} {fuel : Nat} {a : Accepted} {t : Nat} {b : BgvAccepted}
    (h : bgvNew o fuel a t = .ok b) :
    t ≠ 0 ∧ t ∉ a.q ∧ t ≤ a.q.headD 0 ∧ o.isPrime t = true ∧ 16 ≤ cyclotomicOrder t ∧
    b.nT = min a.n (cyclotomicOrder t / 2) ∧ MinRingDegree ≤ b.nT ∧ t &&& (2 * b.nT - 1) = 1 ∧
    b.qMul.Nodup ∧ b.qMul ≠ [] ∧ (∀ m ∈ b.qMul, o.isPrime m = true ∧ m &&& (2 * a.n - 1) = 1) ∧
    ∀ m ∈ b.qMul, m ∉ a.q := by
  unfold bgvNew at h
  split at h
  · cases h
  · rename_i ht0
    split at h
    · cases h
    · rename_i htq
      split at h
      · cases h
      · rename_i htb
        dsimp only at h
        split at h
        · cases h
        · cases h
        · cases h
        · rename_i primes hgen
          split at h
          · cases h
          · rename_i hqm
            split at h
            · cases h
            · rename_i hord
              split at h
              · cases h
              · rename_i hrt
                injection h with h
                subst h
                have r1 := newRing_none hqm
                have r2 := newRing_none hrt
                have ht := r2.2.2.2 t (List.mem_singleton.mpr rfl)
                refine ⟨ht0, by simpa using htq, by omega, ht.1, by omega, rfl, r2.1, ht.2,
                  r1.2.2.1, r1.2.1, r1.2.2.2, qmulLoop_avoid _ _ _ _ _ _ _ hgen⟩

/-! ### ring construction and the scheme constructors as equivalences -/

theorem firstSome_eq_none_iff {α β} (f : α → Option β) (l : List α) :
    firstSome f l = none ↔ ∀ x ∈ l, f x = none :=
  ⟨firstSome_none f l, firstSome_eq_none f l⟩

theorem allDistinct_iff (l : List Nat) : allDistinct l = true ↔ l.Nodup :=
  ⟨allDistinct_nodup l, nodup_allDistinct l⟩

theorem subRingCheck_none_iff {o : Oracle} {n r m : Nat} :
    subRingCheck o n r m = none ↔ n ≠ 0 ∧ m ≠ 0 ∧ o.isPrime m = true ∧ m &&& (r - 1) = 1 := by
  unfold subRingCheck
  by_cases hn : n = 0
  · simp [hn]
  · by_cases hm : m = 0
    · simp [hn, hm]
    · by_cases hp : o.isPrime m = true
      · by_cases ha : m &&& (r - 1) = 1
        · simp [hn, hm, hp, ha]
        · simp [hn, hm, hp, ha]
      · simp [hn, hm, hp]

/-- **newRing_iff** — `ring.NewRingWithCustomNTT(N, moduli, ·, NthRoot)` succeeds exactly when `N ≥ 8` is a power of
    two, the chain is non-empty and duplicate-free, and every modulus is a non-zero prime (for the oracle)
    with `m & (NthRoot-1) = 1`. -/
theorem newRing_iff {o : Oracle} {n r : Nat} {ms : List Nat} :
    newRing o n ms r = none ↔
      MinRingDegree ≤ n ∧ isPow2 n = true ∧ ms ≠ [] ∧ ms.Nodup ∧
      ∀ m ∈ ms, m ≠ 0 ∧ o.isPrime m = true ∧ m &&& (r - 1) = 1 := by
  constructor
  · intro h
    have base := newRing_none h
    unfold newRing at h
    split at h
    · cases h
    · rename_i hdeg
      split at h
      · cases h
      · split at h
        · cases h
        · have hn0 : n ≠ 0 := by have := base.1; unfold MinRingDegree at this; omega
          have hp2 : isPow2 n = true := by
            cases hp : isPow2 n with
            | true => rfl
            | false =>
              exfalso; apply hdeg
              simp [hp, hn0]
          refine ⟨base.1, hp2, base.2.1, base.2.2.1, ?_⟩
          intro m hm
          have := subRingCheck_none_iff.mp (firstSome_none _ _ h m hm)
          exact ⟨this.2.1, this.2.2.1, this.2.2.2⟩
  · intro ⟨h1, h2, h3, h4, h5⟩
    unfold newRing
    have hn0 : n ≠ 0 := by unfold MinRingDegree at h1; omega
    have hdeg : (decide (n < MinRingDegree) || (!isPow2 n && n != 0)) = false := by
      simp [h2]; omega
    have hemp : ms.isEmpty = false := by
      cases ms with
      | nil => exact absurd rfl h3
      | cons _ _ => rfl
    rw [hdeg]
    simp only [Bool.false_eq_true, if_false, hemp, (allDistinct_iff ms).mpr h4, Bool.not_true]
    apply firstSome_eq_none
    intro m hm
    exact subRingCheck_none_iff.mpr ⟨hn0, (h5 m hm).1, (h5 m hm).2.1, (h5 m hm).2.2⟩

/-- **ckks_decision** — `ckks.NewParametersFromLiteral` accepts exactly the literals the rlwe constructor
    accepts with `LogDefaultScale ≤ 128` (nothing else is checked; negative values pass). -/
theorem ckks_decision (o : Oracle) (fuel : Nat) (lit : Literal) (lds : Int) (a : Accepted) :
    ckksNewFromLiteral o fuel lit lds = .ok a ↔
      newParametersFromLiteral o fuel lit = .ok a ∧ lds ≤ 128 := by
  unfold ckksNewFromLiteral
  cases h : newParametersFromLiteral o fuel lit with
  | ok b =>
    by_cases hl : lds > 128
    · simp only [hl, if_true]
      constructor
      · intro h; cases h
      · intro ⟨_, h⟩; omega
    · simp only [hl, if_false, Res.ok.injEq]
      constructor
      · intro h; exact ⟨h, by omega⟩
      · intro ⟨h, _⟩; exact h
  | err c => simp
  | panic => simp
  | hang => simp

/-- **bgv_decision** — `bgv.NewParameters(rlweParams, t)` returns the parameter object `b` exactly when
    `t ≠ 0`, `t ∉ Q`, `t ≤ Q[0]`, the auxiliary-basis generator returns `b.qMul` (61-bit downstream primes not
    in Q) and these form a ring of degree `N`, the largest power of two `order` with `t ≡ 1 mod order` is at
    least 16, and `b.nT = min(N, order/2)` is the degree of a ring with the single modulus `t`
    (`newRing_iff`: `nT ≥ 8` a power of two, `t` a non-zero prime, `t & (2·nT − 1) = 1`). -/
theorem bgv_decision (o : Oracle) (fuel : Nat) (a : Accepted) (t : Nat) (b : BgvAccepted) :
    bgvNew o fuel a t = .ok b ↔
      t ≠ 0 ∧ t ∉ a.q ∧ t ≤ a.q.headD 0 ∧
      qmulLoop o fuel a.q ((len64 a.qProd + a.logN + 60) / 61 + a.q.length + 1)
        ((len64 a.qProd + a.logN + 60) / 61) (newGen 61 a.nthRoot) = .ok b.qMul ∧
      newRing o a.n b.qMul (2 * a.n) = none ∧
      16 ≤ cyclotomicOrder t ∧ b.nT = min a.n (cyclotomicOrder t / 2) ∧
      newRing o b.nT [t] (2 * b.nT) = none := by
  constructor
  · intro h
    unfold bgvNew at h
    split at h
    · cases h
    · rename_i ht0
      split at h
      · cases h
      · rename_i htq
        split at h
        · cases h
        · rename_i htb
          dsimp only at h
          split at h
          · cases h
          · cases h
          · cases h
          · rename_i primes hgen
            split at h
            · cases h
            · rename_i hqm
              split at h
              · cases h
              · rename_i hord
                split at h
                · cases h
                · rename_i hrt
                  injection h with h
                  subst h
                  exact ⟨ht0, by simpa using htq, by omega, hgen, hqm, by omega, rfl, hrt⟩
  · intro ⟨h1, h2, h3, h4, h5, h6, h7, h8⟩
    unfold bgvNew
    have hc : a.q.contains t = false := by simpa using h2
    have hb : ¬ (t > a.q.headD 0) := by omega
    have ho : ¬ (cyclotomicOrder t < 16) := by omega
    rw [h7] at h8
    simp only [h1, if_false, hc, Bool.false_eq_true, hb]
    rw [h4]
    simp only [h5, ho, if_false, h8]
    cases b with
    | mk nT qMul =>
      simp only at h7
      rw [h7]

end Lattigo.Params
