/-
  C10 — lemmas about `Lattigo/Model/Copy.lean`.
-/
import Lattigo.Model.Copy

namespace Lattigo.Copy

/-! ### copy constructors -/

theorem copyFrom_length (r : Row) (next fresh : Nat) : ∀ (i : Nat) (o : Obj),
    (copyFrom r next fresh i o).length = o.length
  | _, [] => rfl
  | i, _ :: fs => by simp [copyFrom, copyFrom_length r next fresh (i + 1) fs]

theorem copyFrom_get (r : Row) (next fresh : Nat) : ∀ (i : Nat) (o : Obj) (k : Nat) (f : Field),
    o[k]? = some f →
    (copyFrom r next fresh i o)[k]? = some (copyField (classOf r f.name) (next + (i + k)) fresh f)
  | _, [], k, f, h => by simp at h
  | i, g :: fs, 0, f, h => by
    simp at h; subst h; simp [copyFrom]
  | i, g :: fs, k + 1, f, h => by
    simp at h
    have := copyFrom_get r next fresh (i + 1) fs k f h
    simp [copyFrom, this]
    congr 2; omega

/-- a field classified `config` has the same value in the copy -/
theorem copy_config_eq' (r : Row) (next fresh : Nat) (o : Obj) (k : Nat) (f : Field)
    (hf : o[k]? = some f) (hc : classOf r f.name = .config) :
    (applyCtor r next fresh o)[k]? = some f := by
  have := copyFrom_get r next fresh 0 o k f hf
  simp [applyCtor, this, hc, copyField]

/-- a field classified `owned` refers, in the copy, to the fresh address `next + k`, with the same
    content -/
theorem copy_owned_addr (r : Row) (next fresh : Nat) (o : Obj) (k : Nat) (f : Field)
    (hf : o[k]? = some f) (hc : classOf r f.name = .owned) :
    (applyCtor r next fresh o)[k]? = some { f with addr := next + k } := by
  have := copyFrom_get r next fresh 0 o k f hf
  simp [applyCtor, this, hc, copyField]

/-- addresses of a record -/
def addrs (o : Obj) : List Nat := (o.map (·.addr)).filter (· ≠ 0)

/-- every field of the copy either keeps the original field's address (shared / value classes),
    or is nil, or has a fresh address ≥ next -/
theorem copy_addr_cases (r : Row) (next fresh : Nat) (o : Obj) (k : Nat) (f : Field)
    (hf : o[k]? = some f) :
    ∃ g, (applyCtor r next fresh o)[k]? = some g ∧
      (g.addr = f.addr ∨ g.addr = 0 ∨ g.addr = next + k) := by
  have h := copyFrom_get r next fresh 0 o k f hf
  refine ⟨_, by simpa [applyCtor] using h, ?_⟩
  cases classOf r f.name <;> simp [copyField]

/-- deep copy: when every field is `config`/`owned`/`absent` with `config` and `absent` fields
    carrying no reference, no address of the copy is an address of the original -/
theorem deep_copy_disjoint' (r : Row) (next fresh : Nat) (o : Obj)
    (hdeep : ∀ f ∈ o, classOf r f.name = .owned ∨ f.addr = 0 ∧ (classOf r f.name = .config ∨ classOf r f.name = .absent))
    (hnext : ∀ f ∈ o, f.addr < next) :
    ∀ (k : Nat) (g : Field), (applyCtor r next fresh o)[k]? = some g → g.addr ≠ 0 → ∀ f ∈ o, g.addr ≠ f.addr := by
  intro k g hg hg0 f' hf'
  have hk : k < o.length := by
    have := copyFrom_length r next fresh 0 o
    have hlt : k < (applyCtor r next fresh o).length := by
      rcases Nat.lt_or_ge k (applyCtor r next fresh o).length with h | h
      · exact h
      · simp [List.getElem?_eq_none h] at hg
    simpa [applyCtor, this] using hlt
  have hf : o[k]? = some o[k] := by simp [hk]
  have hmem : o[k] ∈ o := List.getElem_mem hk
  have h := copyFrom_get r next fresh 0 o k o[k] hf
  have hgeq : g = copyField (classOf r o[k].name) (next + (0 + k)) fresh o[k] := by
    have : (applyCtor r next fresh o)[k]? = some (copyField (classOf r o[k].name) (next + (0 + k)) fresh o[k]) := by
      simpa [applyCtor] using h
    rw [this] at hg; exact (Option.some.inj hg).symm
  rcases hdeep _ hmem with hc | ⟨ha, hc | hc⟩
  · have : g.addr = next + k := by simp [hgeq, hc, copyField]
    have := hnext f' hf'
    omega
  · exfalso; apply hg0; simp [hgeq, hc, copyField, ha]
  · exfalso; apply hg0; simp [hgeq, hc, copyField, ha]

/-! ### non-interference -/

variable {α : Type}

/-- the ownership discipline of a schedule: every step of agent `i` writes only locations owned by
    `i`, reads only locations owned by `i` or shared, and its written values depend only on what it
    reads -/
structure Disciplined (owned : Nat → Loc → Prop) (shared : Loc → Prop) (sch : Sched α) : Prop where
  writes : ∀ i s, (i, s) ∈ sch → ∀ l ∈ s.writes, owned i l
  reads : ∀ i s, (i, s) ∈ sch → ∀ l ∈ s.reads, owned i l ∨ shared l
  local_ : ∀ i s, (i, s) ∈ sch → ∀ σ σ' : State α, (∀ l ∈ s.reads, σ l = σ' l) →
    ∀ l ∈ s.writes, s.f σ l = s.f σ' l

theorem Disciplined.tail {owned : Nat → Loc → Prop} {shared : Loc → Prop} {t : Nat × Step α}
    {rest : Sched α} (h : Disciplined owned shared (t :: rest)) : Disciplined owned shared rest :=
  ⟨fun i s hm => h.writes i s (List.mem_cons_of_mem _ hm),
   fun i s hm => h.reads i s (List.mem_cons_of_mem _ hm),
   fun i s hm => h.local_ i s (List.mem_cons_of_mem _ hm)⟩

/-- the view of agent `i`: what it owns and what is shared -/
def View (owned : Nat → Loc → Prop) (shared : Loc → Prop) (i : Nat) (l : Loc) : Prop :=
  owned i l ∨ shared l

/-- a step of agent `j` does not change anything agent `i ≠ j` can see, provided owned footprints
    are pairwise disjoint and disjoint from the shared region -/
theorem step_invisible {owned : Nat → Loc → Prop} {shared : Loc → Prop}
    (hdisj : ∀ i j l, i ≠ j → owned i l → ¬ owned j l)
    (hsh : ∀ i l, owned i l → ¬ shared l)
    {i j : Nat} (hij : i ≠ j) (s : Step α) (hw : ∀ l ∈ s.writes, owned j l) (σ : State α)
    (l : Loc) (hv : View owned shared i l) : s.apply σ l = σ l := by
  unfold Step.apply
  split
  · rename_i hmem
    have hj := hw l hmem
    rcases hv with hi | hs
    · exact absurd hj (hdisj i j l hij hi)
    · exact absurd hs (hsh j l hj)
  · rfl

/-- the run of agent `i` alone depends only on its view -/
theorem run_proj_congr {owned : Nat → Loc → Prop} {shared : Loc → Prop}
    (hsh : ∀ i l, owned i l → ¬ shared l) (i : Nat) :
    ∀ (sch : Sched α), Disciplined owned shared sch → (∀ t ∈ sch, t.1 = i) →
    ∀ σ σ' : State α, (∀ l, View owned shared i l → σ l = σ' l) →
    ∀ l, View owned shared i l → runSched sch σ l = runSched sch σ' l
  | [], _, _, _, _, h, l, hv => h l hv
  | (j, s) :: rest, hd, hall, σ, σ', h, l, hv => by
    have hj : j = i := hall (j, s) (List.mem_cons_self ..)
    subst hj
    simp only [runSched]
    apply run_proj_congr hsh j rest hd.tail (fun t ht => hall t (List.mem_cons_of_mem _ ht))
    · intro l' hv'
      unfold Step.apply
      have hreads : ∀ r ∈ s.reads, σ r = σ' r := fun r hr =>
        h r (hd.reads j s (List.mem_cons_self ..) r hr)
      split
      · rename_i hmem
        exact hd.local_ j s (List.mem_cons_self ..) σ σ' hreads l' hmem
      · exact h l' hv'
    · exact hv

theorem proj_all (i : Nat) (sch : Sched α) : ∀ t ∈ proj i sch, t.1 = i := by
  intro t ht
  simp [proj] at ht
  exact ht.2

theorem Disciplined.proj {owned : Nat → Loc → Prop} {shared : Loc → Prop} {sch : Sched α}
    (h : Disciplined owned shared sch) (i : Nat) : Disciplined owned shared (proj i sch) :=
  ⟨fun j s hm => h.writes j s (by simp [Copy.proj] at hm; exact hm.1),
   fun j s hm => h.reads j s (by simp [Copy.proj] at hm; exact hm.1),
   fun j s hm => h.local_ j s (by simp [Copy.proj] at hm; exact hm.1)⟩

/-- NON-INTERFERENCE: under the ownership discipline (pairwise disjoint owned footprints, shared
    region never written), for every schedule — i.e. every interleaving of the agents' step
    sequences — every agent sees, on everything it owns and on the shared region, exactly the result
    of running its own sequence alone. -/
theorem noninterference' {owned : Nat → Loc → Prop} {shared : Loc → Prop}
    (hdisj : ∀ i j l, i ≠ j → owned i l → ¬ owned j l)
    (hsh : ∀ i l, owned i l → ¬ shared l) (i : Nat) :
    ∀ (sch : Sched α), Disciplined owned shared sch → ∀ σ : State α,
    ∀ l, View owned shared i l → runSched sch σ l = runSched (proj i sch) σ l
  | [], _, _, _, _ => rfl
  | (j, s) :: rest, hd, σ, l, hv => by
    simp only [runSched]
    rw [noninterference' hdisj hsh i rest hd.tail (s.apply σ) l hv]
    by_cases hji : j = i
    · subst hji
      simp [proj, runSched]
    · have hp : proj i ((j, s) :: rest) = proj i rest := by
        simp [proj, hji]
      rw [hp]
      apply run_proj_congr hsh i (proj i rest) (hd.tail.proj i) (proj_all i rest)
      · intro l' hv'
        exact step_invisible hdisj hsh (fun e => hji e.symm) s
          (hd.writes j s (List.mem_cons_self ..)) σ l' hv'
      · exact hv

end Lattigo.Copy
