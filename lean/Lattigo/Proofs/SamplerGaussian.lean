/-
  C17 — lemmas about the Gaussian sampler: buffer invariant, sign, truncation at the bound,
  reduced limbs that represent one signed integer.
-/
import Lattigo.Proofs.SamplerTernaryCalls
import Lattigo.Proofs.SamplerFloat
import Lattigo.Model.SamplerGaussian
namespace Lattigo.Sampler
open Lattigo Lattigo.Gen

/-! ### words out of the buffer -/

theorem gRefill_ok {s s1 : Bytes} {b b1 : Buf} (hb : BufInv b)
    (h : gRefillIfFull s b = .ok (s1, b1)) : BufInv b1 ∧ b1.ptr < bufLen :=
  let ⟨h1, h2, _⟩ := pre_ok hb h
  ⟨h1, h2⟩

theorem bump_inv {b : Buf} (hb : BufInv b) (hlt : b.ptr < bufLen) : BufInv { b with ptr := b.ptr + 8 } :=
  (pending_step (s := []) hb hlt).2

theorem randU32_ok {s s1 : Bytes} {b b1 : Buf} {x : Nat} (hb : BufInv b)
    (h : randU32 s b = .ok (x, s1, b1)) : BufInv b1 ∧ x < 4294967296 := by
  unfold randU32 at h
  obtain ⟨⟨s2, b2⟩, h1, h⟩ := Res.bind_eq_ok h
  obtain ⟨hb2, hlt⟩ := gRefill_ok hb h1
  simp only [Res.pure_eq, Res.ok.injEq, Prod.mk.injEq] at h
  obtain ⟨h2, _, h4⟩ := h
  subst h2; subst h4
  exact ⟨bump_inv hb2 hlt, Nat.mod_lt _ (by decide)⟩

theorem randU53_ok {s s1 : Bytes} {b b1 : Buf} {x : Nat} (hb : BufInv b)
    (h : randU53 s b = .ok (x, s1, b1)) : BufInv b1 := by
  unfold randU53 at h
  obtain ⟨⟨s2, b2⟩, h1, h⟩ := Res.bind_eq_ok h
  obtain ⟨hb2, hlt⟩ := gRefill_ok hb h1
  simp only [Res.pure_eq, Res.ok.injEq, Prod.mk.injEq] at h
  obtain ⟨_, _, h4⟩ := h
  subst h4
  exact bump_inv hb2 hlt

theorem baseLoop_ok (orc : Slow) : ∀ (fuel : Nat) (s s1 : Bytes) (b b1 : Buf) (x : Nat),
    BufInv b → baseLoop orc fuel s b = .ok (x, s1, b1) → BufInv b1 := by
  intro fuel
  induction fuel with
  | zero => intro s s1 b b1 x _ h; simp [baseLoop] at h
  | succ n ih =>
    intro s s1 b b1 x hb h
    unfold baseLoop at h
    obtain ⟨⟨u1, s2, b2⟩, h1, h⟩ := Res.bind_eq_ok h
    dsimp only at h
    obtain ⟨⟨u2, s3, b3⟩, h2, h⟩ := Res.bind_eq_ok h
    dsimp only at h
    have hb3 := randU53_ok (randU53_ok hb h1) h2
    cases hor : orc.base u1 u2 with
    | some xx =>
      rw [hor] at h
      simp only [Res.ok.injEq, Prod.mk.injEq] at h
      obtain ⟨_, _, h5⟩ := h
      subst h5
      exact hb3
    | none =>
      rw [hor] at h
      exact ih _ _ _ _ _ hb3 h

theorem zigHead_sign (ju : Nat) (h : ju < 4294967296) : (zigHead ju).2.1 ≤ 1 := by
  show u64shr ju 31 ≤ 1
  unfold u64shr
  have : ju / 2 ^ 31 < 2 := by
    apply (Nat.div_lt_iff_lt_mul (by decide)).mpr
    omega
  omega

/-- `normFloat64`: the buffer invariant is kept and the sign is one bit -/
theorem normF_ok (orc : Slow) : ∀ (fuel : Nat) (sl sl1 : Bool) (s s1 : Bytes) (b b1 : Buf) (x sg : Nat),
    BufInv b → normF orc fuel sl s b = .ok (x, sg, sl1, s1, b1) → BufInv b1 ∧ sg ≤ 1 := by
  intro fuel
  induction fuel with
  | zero => intro sl sl1 s s1 b b1 x sg _ h; simp [normF] at h
  | succ n ih =>
    intro sl sl1 s s1 b b1 x sg hb h
    unfold normF at h
    obtain ⟨⟨ju, s2, b2⟩, h1, h⟩ := Res.bind_eq_ok h
    obtain ⟨hb2, hju⟩ := randU32_ok hb h1
    dsimp only at h
    have hsign := zigHead_sign ju hju
    generalize zigHead ju = z at h hsign
    by_cases hf : z.2.2.2 = true
    · rw [if_pos hf] at h
      simp only [Res.ok.injEq, Prod.mk.injEq] at h
      obtain ⟨_, h3, _, _, h6⟩ := h
      subst h3; subst h6
      exact ⟨hb2, hsign⟩
    · rw [if_neg hf] at h
      by_cases hi : z.2.2.1 = 0
      · rw [if_pos hi] at h
        obtain ⟨⟨x1, s3, b3⟩, h2, h⟩ := Res.bind_eq_ok h
        simp only [Res.ok.injEq, Prod.mk.injEq] at h
        obtain ⟨_, h3, _, _, h6⟩ := h
        subst h3; subst h6
        exact ⟨baseLoop_ok orc _ _ _ _ _ _ hb2 h2, hsign⟩
      · rw [if_neg hi] at h
        obtain ⟨⟨u, s3, b3⟩, h2, h⟩ := Res.bind_eq_ok h
        dsimp only at h
        have hb3 := randU53_ok hb2 h2
        by_cases hw : orc.wedge z.2.2.1 z.1 u = true
        · rw [if_pos hw] at h
          simp only [Res.ok.injEq, Prod.mk.injEq] at h
          obtain ⟨_, h3, _, _, h6⟩ := h
          subst h3; subst h6
          exact ⟨hb3, hsign⟩
        · rw [if_neg hw] at h
          exact ih _ _ _ _ _ _ _ _ hb3 h

/-! ### the retry loop -/

theorem retry_ok {α : Type} (step : Bool → Bytes → Buf → Res (Option α × Bool × Bytes × Buf)) (P : α → Prop)
    (hstep : ∀ sl sl1 s s1 b b1 r, BufInv b → step sl s b = .ok (r, sl1, s1, b1) →
      BufInv b1 ∧ ∀ a, r = some a → P a) :
    ∀ (fuel : Nat) (sl sl1 : Bool) (s s1 : Bytes) (b b1 : Buf) (a : α),
    BufInv b → retry step fuel sl s b = .ok (a, sl1, s1, b1) → BufInv b1 ∧ P a := by
  intro fuel
  induction fuel with
  | zero => intro sl sl1 s s1 b b1 a _ h; simp [retry] at h
  | succ n ih =>
    intro sl sl1 s s1 b b1 a hb h
    unfold retry at h
    obtain ⟨⟨r, sl2, s2, b2⟩, h1, h⟩ := Res.bind_eq_ok h
    obtain ⟨hb2, hP⟩ := hstep _ _ _ _ _ _ _ hb h1
    dsimp only at h
    cases r with
    | some a' =>
      simp only [Res.ok.injEq, Prod.mk.injEq] at h
      obtain ⟨h2, _, _, h5⟩ := h
      subst h2; subst h5
      exact ⟨hb2, hP a' rfl⟩
    | none => exact ih _ _ _ _ _ _ _ hb2 h

/-! ### truncation at the bound (small-norm path) -/

/-- `round(bound)`: `uint64(bound + 0.5)` as the sampler rounds -/
def roundBound (bound : Nat) : Nat := SF.trunc (SF.add bound SF.half)

theorem gaussCoeff_ok (orc : Slow) (sigma bound : Nat) (fuel : Nat) (sl sl1 : Bool) (s s1 : Bytes)
    (b b1 : Buf) (cs : Nat × Nat) (hb : BufInv b)
    (h : gaussCoeff orc sigma bound fuel sl s b = .ok (cs, sl1, s1, b1)) :
    BufInv b1 ∧ (cs.2 ≤ 1 ∧ cs.1 ≤ roundBound bound ∧ cs.1 < W) := by
  unfold gaussCoeff at h
  refine retry_ok _ (fun cs => cs.2 ≤ 1 ∧ cs.1 ≤ roundBound bound ∧ cs.1 < W) ?_ fuel sl sl1 s s1 b b1 cs hb h
  intro sl sl1 s s1 b b1 r hb h
  unfold smallStep at h
  obtain ⟨⟨x, sg2, sl2, s2, b2⟩, h1, h⟩ := Res.bind_eq_ok h
  obtain ⟨hb2, hsg⟩ := normF_ok orc _ _ _ _ _ _ _ _ _ hb h1
  simp only [Res.ok.injEq, Prod.mk.injEq] at h
  obtain ⟨h2, _, _, h5⟩ := h
  subst h5
  refine ⟨hb2, ?_⟩
  intro a ha
  rw [← h2] at ha
  by_cases hv : SF.mul x sigma ≤ bound
  · rw [if_pos hv] at ha
    injection ha with ha
    subst ha
    refine ⟨hsg, ?_, Nat.mod_lt _ (by decide)⟩
    calc SF.trunc (SF.add (SF.mul x sigma) SF.half) % W
        ≤ SF.trunc (SF.add (SF.mul x sigma) SF.half) := Nat.mod_le _ _
      _ ≤ SF.trunc (SF.add bound SF.half) := SF.trunc_mono (SF.add_mono hv)
  · rw [if_neg hv] at ha
    cases ha

/-! ### the big-number path -/

theorem gaussCoeffBig_ok (orc : Slow) (sigma : Nat) (boundInt : Int) (fuel : Nat) (sl sl1 : Bool)
    (s s1 : Bytes) (b b1 : Buf) (x : Int) (hb : BufInv b)
    (h : gaussCoeffBig orc sigma boundInt fuel sl s b = .ok (x, sl1, s1, b1)) :
    BufInv b1 ∧ (x.natAbs : Int) ≤ boundInt := by
  unfold gaussCoeffBig at h
  refine retry_ok _ (fun x => (x.natAbs : Int) ≤ boundInt) ?_ fuel sl sl1 s s1 b b1 x hb h
  intro sl sl1 s s1 b b1 r hb h
  unfold bigStep at h
  obtain ⟨⟨nm, sg2, sl2, s2, b2⟩, h1, h⟩ := Res.bind_eq_ok h
  obtain ⟨hb2, _⟩ := normF_ok orc _ _ _ _ _ _ _ _ _ hb h1
  obtain ⟨⟨xx, s3⟩, _, h⟩ := Res.bind_eq_ok h
  simp only [Res.ok.injEq, Prod.mk.injEq] at h
  obtain ⟨h2, _, _, h5⟩ := h
  subst h5
  refine ⟨hb2, ?_⟩
  intro a ha
  rw [← h2] at ha
  by_cases hle : (xx.natAbs : Int) ≤ boundInt
  · rw [if_pos hle] at ha
    injection ha with ha
    subst ha
    exact hle
  · rw [if_neg hle] at ha
    cases ha

/-! ### vectors -/

theorem gaussVec_ok {α : Type} (step : Bool → Bytes → Buf → Res (α × Bool × Bytes × Buf)) (P : α → Prop)
    (hstep : ∀ sl sl1 s s1 b b1 a, BufInv b → step sl s b = .ok (a, sl1, s1, b1) → BufInv b1 ∧ P a) :
    ∀ (n : Nat) (sl sl1 : Bool) (s s1 : Bytes) (b b1 : Buf) (l : List α),
    BufInv b → gaussVec step n sl s b = .ok (l, sl1, s1, b1) →
    BufInv b1 ∧ l.length = n ∧ ∀ a ∈ l, P a := by
  intro n
  induction n with
  | zero =>
    intro sl sl1 s s1 b b1 l hb h
    simp only [gaussVec, Res.ok.injEq, Prod.mk.injEq] at h
    obtain ⟨h1, _, _, h4⟩ := h
    subst h1; subst h4
    exact ⟨hb, rfl, by simp⟩
  | succ n ih =>
    intro sl sl1 s s1 b b1 l hb h
    simp only [gaussVec] at h
    obtain ⟨⟨a, sl2, s2, b2⟩, h1, h⟩ := Res.bind_eq_ok h
    obtain ⟨hb2, hPa⟩ := hstep _ _ _ _ _ _ _ hb h1
    dsimp only at h
    obtain ⟨⟨t, sl3, s3, b3⟩, h2, h⟩ := Res.bind_eq_ok h
    obtain ⟨hb3, hl, hall⟩ := ih _ _ _ _ _ _ _ hb2 h2
    simp only [Res.pure_eq, Res.ok.injEq, Prod.mk.injEq] at h
    obtain ⟨h3, _, _, h6⟩ := h
    subst h3; subst h6
    refine ⟨hb3, by simp [hl], ?_⟩
    intro a' ha'
    simp only [List.mem_cons] at ha'
    rcases ha' with rfl | ha'
    · exact hPa
    · exact hall a' ha'

/-! ### the limb written for `(coeffInt, sign)` -/

/-- the signed integer a `(coeffInt, sign)` pair stands for: `sign = 1` is `+`, `sign = 0` is `−` -/
def gaussVal (cs : Nat × Nat) : Int := if cs.2 = 1 then (cs.1 : Int) else -(cs.1 : Int)

theorem or_neg_top (c : Nat) (hc : 0 < c) (hcW : c < W) : u64shr (u64or c (u64neg c)) 63 = 1 := by
  unfold u64shr u64or u64neg
  have hneg : (W - c % W) % W = W - c := by
    rw [Nat.mod_eq_of_lt hcW, Nat.mod_eq_of_lt (by omega)]
  rw [hneg]
  have hlt : c ||| (W - c) < 2 ^ 64 := Nat.or_lt_two_pow (by rw [← W_eq]; exact hcW) (by rw [← W_eq]; omega)
  have hge : 2 ^ 63 ≤ c ||| (W - c) := by
    by_cases h : 2 ^ 63 ≤ c
    · exact Nat.le_trans h Nat.left_le_or
    · have : 2 ^ 63 ≤ W - c := by unfold W; omega
      exact Nat.le_trans this Nat.right_le_or
  have h1 : (c ||| (W - c)) / 2 ^ 63 < 2 := by
    apply (Nat.div_lt_iff_lt_mul (by decide)).mpr
    omega
  have h2 : 1 ≤ (c ||| (W - c)) / 2 ^ 63 := by
    apply (Nat.le_div_iff_mul_le (by decide)).mpr
    omega
  omega

theorem gaussLimb_pos (q c0 : Nat) (hq : 0 < q) (hqW : q < W) : gaussLimb q (c0, 1) = c0 % q := by
  have hc : c0 % q < q := Nat.mod_lt _ hq
  unfold gaussLimb
  simp only [u64xor, u64or, u64mul]
  have : (1 : Nat) ^^^ 1 = 0 := by decide
  rw [this, Nat.mul_zero, Nat.zero_mod, Nat.or_zero, Nat.mul_one]
  exact Nat.mod_eq_of_lt (by omega)

theorem u64mul_zero (x : Nat) : u64mul x 0 = 0 := by unfold u64mul; rw [Nat.mul_zero, Nat.zero_mod]
theorem u64mul_zero_left (x : Nat) : u64mul 0 x = 0 := by unfold u64mul; rw [Nat.zero_mul, Nat.zero_mod]
theorem u64or_zero_left (x : Nat) : u64or 0 x = x := by unfold u64or; exact Nat.zero_or x
theorem u64mul_one (x : Nat) (h : x < W) : u64mul x 1 = x := by
  unfold u64mul; rw [Nat.mul_one]; exact Nat.mod_eq_of_lt h

theorem gaussLimb_neg (q c0 : Nat) (hq : 0 < q) (hqW : q < W) :
    gaussLimb q (c0, 0) = if c0 % q = 0 then 0 else q - c0 % q := by
  have hc : c0 % q < q := Nat.mod_lt _ hq
  unfold gaussLimb
  simp only
  have hx : u64xor 0 1 = 1 := by decide
  rw [hx, u64mul_zero, u64or_zero_left]
  by_cases h0 : c0 % q = 0
  · rw [if_pos h0, h0]
    have : u64shr (u64or 0 (u64neg 0)) 63 = 0 := by decide
    rw [this, u64mul_zero, u64mul_zero_left]
  · rw [if_neg h0, or_neg_top _ (by omega) (by omega)]
    have hsub : u64sub q (c0 % q) = q - c0 % q := by
      unfold u64sub
      rw [Nat.mod_eq_of_lt (by omega : c0 % q < W)]
      have : q + W - c0 % q = (q - c0 % q) + W := by omega
      rw [this, Nat.add_mod_right]
      exact Nat.mod_eq_of_lt (by omega)
    have hlt : q - c0 % q < W := by omega
    rw [hsub, u64mul_one (q - c0 % q) hlt, u64mul_one (q - c0 % q) hlt]

/-- **the limb is the reduced residue of the signed value** (so `< q`, and `−0 ↦ 0`) -/
theorem gaussLimb_spec (q : Nat) (cs : Nat × Nat) (hq : 0 < q) (hqW : q < W) (hs : cs.2 ≤ 1) :
    gaussLimb q cs = resOf q (gaussVal cs) := by
  obtain ⟨c0, sg⟩ := cs
  have hsg : sg = 0 ∨ sg = 1 := by simp at hs; omega
  have hqi : (0 : Int) < (q : Int) := by exact_mod_cast hq
  rcases hsg with rfl | rfl
  · rw [gaussLimb_neg q c0 hq hqW]
    unfold resOf gaussVal
    simp only [show (0 : Nat) ≠ 1 by decide, if_false]
    have hdm := Nat.div_add_mod c0 q
    by_cases h0 : c0 % q = 0
    · rw [if_pos h0]
      have : (-(c0 : Int)) % (q : Int) = 0 := by
        have hd : (q : Int) ∣ -(c0 : Int) := by
          apply Int.dvd_neg.mpr
          exact_mod_cast Nat.dvd_of_mod_eq_zero h0
        exact Int.emod_eq_zero_of_dvd hd
      rw [this]; rfl
    · rw [if_neg h0]
      have hr : c0 % q < q := Nat.mod_lt _ hq
      have : (-(c0 : Int)) % (q : Int) = (q : Int) - ((c0 % q : Nat) : Int) := by
        have e : (-(c0 : Int)) = ((q : Int) - ((c0 % q : Nat) : Int)) + (q : Int) * (-((c0 / q : Nat) : Int) - 1) := by
          have : (c0 : Int) = (q : Int) * ((c0 / q : Nat) : Int) + ((c0 % q : Nat) : Int) := by
            exact_mod_cast hdm.symm
          rw [this]; ring
        rw [e, Int.add_mul_emod_self_left]
        exact Int.emod_eq_of_lt (by omega) (by omega)
      rw [this]
      omega
  · rw [gaussLimb_pos q c0 hq hqW]
    unfold resOf gaussVal
    simp only [if_true]
    have : ((c0 : Int) % (q : Int)) = ((c0 % q : Nat) : Int) := by exact_mod_cast (Int.natCast_mod c0 q).symm
    rw [this]; rfl

theorem resOf_lt (q : Nat) (v : Int) (hq : 0 < q) : resOf q v < q := by
  unfold resOf
  have hqi : (0 : Int) < (q : Int) := by exact_mod_cast hq
  have h1 := Int.emod_nonneg v (by omega : (q : Int) ≠ 0)
  have h2 := Int.emod_lt_of_pos v hqi
  omega

/-! ### a call -/

theorem zipWith_right_map {α β γ : Type} (h : β → γ) : ∀ (row : List α) (cs : List β),
    row.length = cs.length → List.zipWith (fun _ c => h c) row cs = cs.map h := by
  intro row
  induction row with
  | nil => intro cs hl; cases cs with
    | nil => rfl
    | cons c cs => simp at hl
  | cons a row ih =>
    intro cs hl
    cases cs with
    | nil => simp at hl
    | cons c cs => simp only [List.zipWith_cons_cons, List.map_cons]; rw [ih cs (by simpa using hl)]

/-- rows written by `Read` from a vector of sampled items -/
theorem mapRowsLvl_read_rows {β : Type} (h : Nat → β → Nat) (cs : List β) (N : Nat) (qs : List Nat)
    (pol r : Poly) (hrows : ∀ row ∈ pol, row.length = N) (hlen : cs.length = N)
    (hm : mapRowsLvl (fun q row => List.zipWith (fun a c => Mode.read.f a (h q c) q) row cs) qs pol = .ok r) :
    ∀ i, i < qs.length → r[i]? = some (cs.map (h (qs.getD i 0))) := by
  intro i hi
  obtain ⟨_, hle, hlow, _⟩ := mapRowsLvl_ok _ qs pol r hm
  rw [hlow i hi]
  have hip : i < pol.length := by omega
  rw [List.getElem?_eq_getElem hip]
  simp only [Option.map_some]
  congr 1
  have hrow : pol[i].length = N := hrows _ (List.getElem_mem hip)
  exact zipWith_right_map _ _ _ (by rw [hrow, hlen])

theorem refillKeepPtr_inv {b : Buf} {d : Bytes} (hb : BufInv b) (hd : d.length = bufLen) :
    BufInv { data := d, ptr := b.ptr } := ⟨hd, hb.2.1, hb.2.2⟩

/-- small-norm path of `read`: the sampled `(coeffInt, sign)` vector and what is written -/
theorem gaussReadPlain_small {orc : Slow} {fuel : Nat} {m : Mode} {sigma bound N : Nat} {qs : List Nat}
    {pol r : Poly} {s s' : Bytes} {b b' : Buf} {slow : Bool} (hb : BufInv b)
    (hpath : isBigPath sigma bound = false)
    (h : gaussReadPlain orc fuel m sigma bound N qs pol s b = .ok (r, slow, s', b')) :
    ∃ cs : List (Nat × Nat), cs.length = N ∧
      (∀ c ∈ cs, c.2 ≤ 1 ∧ c.1 ≤ roundBound bound ∧ c.1 < W) ∧
      mapRowsLvl (fun q row => List.zipWith (fun a c => m.f a (gaussLimb q c) q) row cs) qs pol = .ok r ∧
      BufInv b' := by
  unfold gaussReadPlain at h
  obtain ⟨⟨d, s1⟩, h1, h⟩ := Res.bind_eq_ok h
  obtain ⟨_, _, _, _, hdl⟩ := prngRead_ok h1
  have hb1 : BufInv { data := d, ptr := b.ptr } := refillKeepPtr_inv hb hdl
  dsimp only at h
  by_cases hl : pol.length < qs.length
  · rw [if_pos hl, hpath] at h
    simp only [Bool.false_eq_true, if_false] at h
    obtain ⟨_, _, h⟩ := Res.bind_eq_ok h
    cases h
  · rw [if_neg hl, hpath] at h
    simp only [Bool.false_eq_true, if_false] at h
    obtain ⟨⟨cs, sl2, s2, b2⟩, h2, h⟩ := Res.bind_eq_ok h
    dsimp only at h
    obtain ⟨r1, h3, h⟩ := Res.bind_eq_ok h
    simp only [Res.ok.injEq, Prod.mk.injEq] at h
    obtain ⟨e1, _, _, e4⟩ := h
    subst e1; subst e4
    unfold gaussSmall at h2
    obtain ⟨hb2, hlen, hall⟩ := gaussVec_ok (gaussCoeff orc sigma bound fuel)
      (fun c => c.2 ≤ 1 ∧ c.1 ≤ roundBound bound ∧ c.1 < W)
      (fun sl sl1 s s1 b b1 a hb h => gaussCoeff_ok orc sigma bound fuel sl sl1 s s1 b b1 a hb h)
      N false sl2 s1 s2 _ b2 cs hb1 h2
    exact ⟨cs, hlen, hall, h3, hb2⟩

/-- big-number path of `read` -/
theorem gaussReadPlain_big {orc : Slow} {fuel : Nat} {m : Mode} {sigma bound N : Nat} {qs : List Nat}
    {pol r : Poly} {s s' : Bytes} {b b' : Buf} {slow : Bool} (hb : BufInv b)
    (hpath : isBigPath sigma bound = true)
    (h : gaussReadPlain orc fuel m sigma bound N qs pol s b = .ok (r, slow, s', b')) :
    ∃ xs : List Int, xs.length = N ∧
      (∀ x ∈ xs, (x.natAbs : Int) ≤ (SF.trunc bound : Int)) ∧
      mapRowsLvl (fun q row => List.zipWith (fun a x => m.f a (gaussLimbBig q x) q) row xs) qs pol = .ok r ∧
      BufInv b' := by
  unfold gaussReadPlain at h
  obtain ⟨⟨d, s1⟩, h1, h⟩ := Res.bind_eq_ok h
  obtain ⟨_, _, _, _, hdl⟩ := prngRead_ok h1
  have hb1 : BufInv { data := d, ptr := b.ptr } := refillKeepPtr_inv hb hdl
  dsimp only at h
  by_cases hl : pol.length < qs.length
  · rw [if_pos hl, hpath] at h
    simp only [if_true] at h
    obtain ⟨_, _, h⟩ := Res.bind_eq_ok h
    cases h
  · rw [if_neg hl, hpath] at h
    simp only [if_true] at h
    obtain ⟨⟨xs, sl2, s2, b2⟩, h2, h⟩ := Res.bind_eq_ok h
    dsimp only at h
    obtain ⟨r1, h3, h⟩ := Res.bind_eq_ok h
    simp only [Res.ok.injEq, Prod.mk.injEq] at h
    obtain ⟨e1, _, _, e4⟩ := h
    subst e1; subst e4
    unfold gaussBig at h2
    obtain ⟨hb2, hlen, hall⟩ := gaussVec_ok (gaussCoeffBig orc sigma (SF.trunc bound) fuel)
      (fun x => (x.natAbs : Int) ≤ (SF.trunc bound : Int))
      (fun sl sl1 s s1 b b1 a hb h => gaussCoeffBig_ok orc sigma _ fuel sl sl1 s s1 b b1 a hb h)
      N false sl2 s1 s2 _ b2 xs hb1 h2
    exact ⟨xs, hlen, hall, h3, hb2⟩

end Lattigo.Sampler
