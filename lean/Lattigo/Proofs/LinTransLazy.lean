/-
  C12 — lazy accumulation in `MultiplyByDiagMatrixBSGS`: the uint64 accumulators never wrap around.

  The margin `M = ⌊2^64 / max q_i⌋ >> 1` allows `M` summands between two reductions.  The first window
  starts from an assignment, every later one from a REDUCED word (`< q`), so the bound the code's
  comments suggest — "`M` lazy products below `2q` each" — gives `(q-1) + M(2q-1)`, which exceeds
  2^64 whenever `⌊2^64/q⌋` is even (`accLoop_2q_bound_wraps`).  What makes the code safe is the sharper
  bound `MRedLazy x y ≤ q + ⌊x·y/2^64⌋` (`MRedLazy_le`): for reduced operands the product is at most
  `q + ⌊q²/2^64⌋`, and then `(q-1) + M·(q + ⌊q²/2^64⌋) < 2^64` for every modulus `q ≤ 2^64/3`, in
  particular every `q < 2^61` (Q) and every `q < 2^62` (P).
-/
import Lattigo.Model.LinTransLazy
import Lattigo.Proofs.ModRed

namespace Lattigo.Model.LinTrans.Lazy
open Lattigo Lattigo.Gen

/-! ## the Go tests on a positive margin -/

theorem tmod_nat (c M : Nat) : Int.tmod (c : Int) (M : Int) = ((c % M : Nat) : Int) := by
  rw [Int.tmod_eq_emod_of_nonneg (Int.natCast_nonneg c)]
  exact (Int.natCast_mod c M).symm

theorem reduceNow_nat (M : Nat) (hM : 1 ≤ M) (cnt : Nat) :
    reduceNow (M : Int) cnt = decide (cnt % M = M - 1) := by
  unfold reduceNow
  rw [tmod_nat]
  have : ((M : Int) - 1) = ((M - 1 : Nat) : Int) := by omega
  rw [this]
  by_cases h : cnt % M = M - 1
  · simp [h]
  · have h' : ¬ ((cnt : Int) % (M : Int)) = ((M - 1 : Nat) : Int) := by exact_mod_cast h
    simpa [h] using h'

theorem reduceAtEnd_nat (M : Nat) (cnt : Nat) :
    reduceAtEnd (M : Int) cnt = decide (cnt % M ≠ 0) := by
  unfold reduceAtEnd
  rw [tmod_nat]
  by_cases h : cnt % M = 0
  · simp [h]
  · have h' : ¬ ((cnt : Int) % (M : Int)) = 0 := by exact_mod_cast h
    simpa [h] using h'

theorem reduceAtEndNaive_nat (M : Nat) (len : Nat) :
    reduceAtEndNaive (M : Int) len = decide (len % M = 0) := by
  unfold reduceAtEndNaive
  rw [tmod_nat]
  by_cases h : len % M = 0
  · simp [h]
  · have h' : ¬ ((len : Int) % (M : Int)) = 0 := by exact_mod_cast h
    simpa [h] using h'

/-- without a modulus P (`PiOverflowMargin = -1`, halved `-1`) no reduction of the P part is ever scheduled -/
theorem no_reduce_without_moduli (cnt : Nat) :
    reduceNow (halved (overflowMargin [])) cnt = false ∧ reduceAtEnd (halved (overflowMargin [])) cnt = false := by
  have h : halved (overflowMargin []) = -1 := by decide
  rw [h]
  unfold reduceNow reduceAtEnd
  have : Int.tmod (cnt : Int) (-1) = 0 := by
    rw [Int.tmod_neg, Int.tmod_one]
  rw [this]
  constructor <;> decide

/-! ## the product bound -/

/-- `MRedLazy x y ≤ q + ⌊x·y / 2^64⌋`: much sharper than `< 2q` when both operands are reduced -/
theorem MRedLazy_le (x y q qinv : Nat) (hq : 2 * q ≤ W) (hm : MontConst q qinv) (hxy : x * y < q * W) :
    MRedLazy x y q qinv ≤ q + x * y / W := by
  obtain ⟨h, _, _⟩ := MRedLazy_eq x y q qinv hq hm hxy
  have h1 : MRedLazy x y q qinv * W ≤ x * y + q * W := by omega
  have h2 : MRedLazy x y q qinv ≤ (x * y + q * W) / W := by
    rw [Nat.le_div_iff_mul_le (by decide)]; exact h1
  rw [Nat.add_mul_div_right _ _ (by decide : 0 < W)] at h2
  omega

/-- reduced operands: the lazy product is at most `q + ⌊q²/2^64⌋` -/
theorem MRedLazy_le_reduced (x y q qinv : Nat) (hq : 2 * q ≤ W) (hm : MontConst q qinv)
    (hx : x < q) (hy : y < q) : MRedLazy x y q qinv ≤ q + q * q / W := by
  have hxy : x * y ≤ q * q := Nat.mul_le_mul (Nat.le_of_lt hx) (Nat.le_of_lt hy)
  have hlt : x * y < q * W := by
    have : q * q ≤ q * W := Nat.mul_le_mul_left q (by omega)
    have hq0 : 0 < q := by omega
    calc x * y ≤ x * q := Nat.mul_le_mul_left x (Nat.le_of_lt hy)
      _ < q * q := Nat.mul_lt_mul_of_pos_right hx hq0
      _ ≤ q * W := this
  exact le_trans (MRedLazy_le x y q qinv hq hm hlt) (Nat.add_le_add_left (Nat.div_le_div_right hxy) q)

/-! ## the window bound -/

/-- `M ≤ ⌊2^64/qmax⌋/2`, `q ≤ qmax`, `3·qmax ≤ 2^64`: a reduced word plus `M` summands below
    `B = q + ⌊q²/2^64⌋` stays below 2^64 -/
theorem window_bound (q qmax M : Nat) (hq : q ≤ qmax) (hq0 : 0 < q) (h3 : 3 * qmax ≤ W)
    (hM : M ≤ W / qmax / 2) : (q - 1) + M * (q + q * q / W) < W := by
  have hqm : 0 < qmax := by omega
  have h1 : 2 * M ≤ W / qmax := by omega
  have h2 : 2 * M * qmax ≤ W := by
    calc 2 * M * qmax ≤ W / qmax * qmax := Nat.mul_le_mul_right _ h1
      _ ≤ W := Nat.div_mul_le_self W qmax
  have h3' : 2 * (M * q) ≤ W := by
    calc 2 * (M * q) = 2 * M * q := by ring
      _ ≤ 2 * M * qmax := Nat.mul_le_mul_left _ hq
      _ ≤ W := h2
  -- `a = ⌊q²/W⌋`: `a·W ≤ q²`, so `2·M·a·W ≤ 2·M·q·q ≤ W·q`, i.e. `2·M·a ≤ q`
  have ha : q * q / W * W ≤ q * q := Nat.div_mul_le_self _ _
  have h4 : 2 * (M * (q * q / W)) ≤ q := by
    apply Nat.le_of_mul_le_mul_right (c := W) _ (by decide)
    calc 2 * (M * (q * q / W)) * W = 2 * M * (q * q / W * W) := by ring
      _ ≤ 2 * M * (q * q) := Nat.mul_le_mul_left _ ha
      _ = 2 * (M * q) * q := by ring
      _ ≤ W * q := Nat.mul_le_mul_right _ h3'
      _ = q * W := Nat.mul_comm _ _
  have h5 : M * (q + q * q / W) = M * q + M * (q * q / W) := by ring
  rw [h5]
  generalize M * q = X at *
  generalize M * (q * q / W) = Y at *
  unfold W at *
  omega

/-! ## the accumulator never wraps -/

/-- invariant of `accLoop`: before summand number `cnt` the word is at most
    `(q-1) + (cnt mod M)·B` — a reduced word plus the summands of the current window -/
theorem accLoop_no_wrap (q M B : Nat) (hq0 : 0 < q) (hM : 1 ≤ M)
    (hwin : (q - 1) + M * B < W) (ps : List Nat) (hps : ∀ p ∈ ps, p ≤ B) :
    ∀ (cnt acc : Nat), acc ≤ (q - 1) + (cnt % M) * B →
      ∀ raw ∈ (accLoop q (M : Int) cnt acc ps).1, raw < W := by
  induction ps with
  | nil => intro cnt acc _ raw hraw; simp [accLoop] at hraw
  | cons p ps ih =>
    intro cnt acc hacc raw hraw
    have hp : p ≤ B := hps p (by simp)
    have hr : cnt % M < M := Nat.mod_lt _ (by omega)
    -- the sum formed at this step
    have hraw0 : (if cnt = 0 then p else acc + p) ≤ (q - 1) + (cnt % M + 1) * B := by
      split
      · calc p ≤ B := hp
          _ ≤ (q - 1) + (cnt % M + 1) * B := by
            have : B ≤ (cnt % M + 1) * B := Nat.le_mul_of_pos_left B (by omega)
            omega
      · calc acc + p ≤ (q - 1) + (cnt % M) * B + B := Nat.add_le_add hacc hp
          _ = (q - 1) + (cnt % M + 1) * B := by ring
    have hle : (cnt % M + 1) * B ≤ M * B := Nat.mul_le_mul_right B (by omega)
    have hrawW : (if cnt = 0 then p else acc + p) < W := by omega
    simp only [accLoop, List.mem_cons] at hraw
    rcases hraw with rfl | hraw
    · exact hrawW
    · refine ih (fun p hp => hps p (by simp [hp])) (cnt + 1) _ ?_ raw hraw
      rw [show (2 : Nat) ^ 64 = W from rfl, Nat.mod_eq_of_lt hrawW, reduceNow_nat M hM]
      by_cases hred : cnt % M = M - 1
      · -- reduce point: the next window starts from a reduced word
        simp only [hred, decide_true, if_true]
        have h0 : (cnt + 1) % M = 0 := by
          rw [Nat.add_mod, hred]
          rcases Nat.lt_or_ge 1 M with h | h
          · rw [Nat.mod_eq_of_lt h]
            have : M - 1 + 1 = M := by omega
            rw [this, Nat.mod_self]
          · have : M = 1 := by omega
            subst this; simp
        rw [h0]
        have := Nat.mod_lt (if cnt = 0 then p else acc + p) hq0
        omega
      · simp only [hred, decide_false, Bool.false_eq_true, if_false]
        have h1 : (cnt + 1) % M = cnt % M + 1 := by
          rw [Nat.add_mod]
          rcases Nat.lt_or_ge 1 M with h | h
          · rw [Nat.mod_eq_of_lt h, Nat.mod_eq_of_lt (by omega)]
          · have : M = 1 := by omega
            subst this; omega
        rw [h1]; exact hraw0

/-- congruence: the word always represents the sum of the summands so far modulo `q` -/
theorem accLoop_congr (q M : Nat) (ps : List Nat) :
    ∀ (cnt acc s : Nat), (∀ raw ∈ (accLoop q (M : Int) cnt acc ps).1, raw < W) →
      (cnt = 0 → acc = 0) → acc % q = s % q →
      (accLoop q (M : Int) cnt acc ps).2 % q = (s + ps.sum) % q := by
  induction ps with
  | nil =>
    intro cnt acc s _ _ h1
    simpa [accLoop] using h1
  | cons p ps ih =>
    intro cnt acc s hnw h0 h1
    have hraw : (if cnt = 0 then p else acc + p) = acc + p := by
      split
      · rename_i hc; rw [h0 hc]; simp
      · rfl
    have hrawW : acc + p < W := by
      have := hnw (if cnt = 0 then p else acc + p) (by simp [accLoop])
      rwa [hraw] at this
    simp only [accLoop, hraw, List.sum_cons]
    rw [show (2 : Nat) ^ 64 = W from rfl, Nat.mod_eq_of_lt hrawW]
    have hnext := ih (cnt + 1) (if reduceNow (M : Int) cnt then (acc + p) % q else acc + p) (s + p)
      (by
        intro raw hr
        apply hnw raw
        simp only [accLoop, hraw, List.mem_cons]
        right
        rw [show (2 : Nat) ^ 64 = W from rfl, Nat.mod_eq_of_lt hrawW]
        exact hr)
      (by intro h; omega)
      (by
        have : (acc + p) % q = (s + p) % q := by
          rw [Nat.add_mod, h1, ← Nat.add_mod]
        split
        · rw [Nat.mod_mod]; exact this
        · exact this)
    rw [hnext, Nat.add_assoc]

/-- after the loop and the test `cnt % M != 0` the word is reduced -/
theorem accLoop_final_lt (q M : Nat) (hq0 : 0 < q) (hM : 1 ≤ M) (ps : List Nat) :
    ∀ (cnt acc : Nat), ps ≠ [] → (cnt + ps.length) % M = 0 → (accLoop q (M : Int) cnt acc ps).2 < q := by
  induction ps with
  | nil => intro _ _ h; exact absurd rfl h
  | cons p ps ih =>
    intro cnt acc _ hlen
    simp only [accLoop]
    by_cases hps : ps = []
    · subst hps
      simp only [accLoop, List.length_cons, List.length_nil] at hlen ⊢
      have hred : cnt % M = M - 1 := by
        obtain ⟨k, hk⟩ := Nat.dvd_of_mod_eq_zero hlen
        have hk1 : 1 ≤ k := by
          rcases k with _ | k
          · simp at hk
          · omega
        have : cnt = M * (k - 1) + (M - 1) := by
          have : M * k = M * (k - 1) + M := by
            conv_lhs => rw [show k = (k - 1) + 1 by omega]
            ring
          omega
        rw [this, Nat.mul_add_mod]
        exact Nat.mod_eq_of_lt (by omega)
      rw [reduceNow_nat M hM, hred]
      simp only [decide_true, if_true]
      exact Nat.mod_lt _ hq0
    · apply ih _ _ hps
      simp only [List.length_cons] at hlen
      rw [← hlen]; congr 1; omega

/-- **lazy_accumulation_no_wrap** (one accumulator word of `MultiplyByDiagMatrixBSGS`, inner loop).
    Moduli `q ≤ qmax` with `3·qmax ≤ 2^64` (every `q < 2^61`, and the 62-bit primes of P), margin
    `M = ⌊2^64/qmax⌋ >> 1` as coded, summands at most `q + ⌊q²/2^64⌋` (what `MRedLazy` returns on reduced
    operands, `MRedLazy_le_reduced`).  Then, for ANY number of summands: no sum formed in the uint64
    accumulator reaches 2^64; after the loop and its final test the word is below `q`, and it is the
    sum of the summands modulo `q`. -/
theorem accRun_no_wrap (q qmax : Nat) (hq0 : 0 < q) (hq : q ≤ qmax) (h3 : 3 * qmax ≤ W)
    (ps : List Nat) (hps : ∀ p ∈ ps, p ≤ q + q * q / W) (hne : ps ≠ []) :
    let r := accRun q (halved ((W / qmax : Nat) : Int)) ps
    (∀ raw ∈ r.1, raw < W) ∧ r.2 < q ∧ r.2 % q = ps.sum % q := by
  have hqm : 0 < qmax := by omega
  -- the margin as a natural number, at least 3, halved at least 1 (`cnt % M` never divides by zero)
  have hm : 3 ≤ W / qmax := by
    rw [Nat.le_div_iff_mul_le hqm]; unfold W at *; omega
  have hhalf : halved ((W / qmax : Nat) : Int) = ((W / qmax / 2 : Nat) : Int) := by
    unfold halved; norm_cast
  have hM : 1 ≤ W / qmax / 2 := by omega
  have hwin := window_bound q qmax (W / qmax / 2) hq hq0 h3 (le_refl _)
  have hnw := accLoop_no_wrap q (W / qmax / 2) (q + q * q / W) hq0 hM hwin ps hps 0 0 (by simp)
  have hcong := accLoop_congr q (W / qmax / 2) ps 0 0 0 hnw (fun _ => rfl) rfl
  simp only [accRun, hhalf]
  refine ⟨hnw, ?_, ?_⟩
  · rw [reduceAtEnd_nat]
    by_cases hz : ps.length % (W / qmax / 2) = 0
    · simp only [hz, ne_eq, not_true_eq_false, decide_false, Bool.false_eq_true, if_false]
      exact accLoop_final_lt q _ hq0 hM ps 0 0 hne (by simpa using hz)
    · simp only [hz, ne_eq, not_false_eq_true, decide_true, if_true]
      exact Nat.mod_lt _ hq0
  · rw [Nat.zero_add] at hcong
    split
    · rw [Nat.mod_mod]; exact hcong
    · exact hcong

/-- the bound `< 2q` of `MRedLazy_spec` alone does NOT give the invariant: `q = 2^61 - 1`
    (`⌊2^64/q⌋ = 8`, margin 4), eight summands `2q - 1`: the second window starts from the reduced word
    `q - 4` and its fourth sum is `9q - 8 > 2^64`.  (Such summands are not produced on reduced operands:
    `MRedLazy_le_reduced` bounds them by `q + q/8`.) -/
theorem accLoop_2q_bound_wraps :
    ∃ q : Nat, q < 2 ^ 61 ∧ ∃ ps : List Nat, (∀ p ∈ ps, p < 2 * q) ∧
      ∃ raw ∈ (accRun q (halved ((W / q : Nat) : Int)) ps).1, W ≤ raw := by
  refine ⟨2305843009213693951, by decide, List.replicate 8 (2 * 2305843009213693951 - 1), ?_, ?_⟩
  · intro p hp; rw [List.eq_of_mem_replicate hp]; decide
  · decide

/-! ## the margin of a modulus chain -/

theorem le_foldl_max (l : List Nat) : ∀ (a x : Nat), (x = a ∨ x ∈ l) → x ≤ l.foldl max a := by
  induction l with
  | nil => intro a x h; rcases h with h | h; exact le_of_eq h; simp at h
  | cons y ys ih =>
    intro a x h
    simp only [List.foldl_cons]
    rcases h with h | h
    · exact le_trans (by rw [h]; exact Nat.le_max_left _ _) (ih (max a y) (max a y) (Or.inl rfl))
    · rcases List.mem_cons.1 h with h | h
      · exact le_trans (by rw [h]; exact Nat.le_max_right _ _) (ih (max a y) (max a y) (Or.inl rfl))
      · exact ih _ x (Or.inr h)

theorem foldl_max_lt (l : List Nat) (b : Nat) : ∀ a, a < b → (∀ x ∈ l, x < b) → l.foldl max a < b := by
  induction l with
  | nil => intro a h _; simpa using h
  | cons y ys ih =>
    intro a ha h
    simp only [List.foldl_cons]
    exact ih _ (max_lt ha (h y (by simp))) (fun x hx => h x (by simp [hx]))

/-- **lazy_accumulation_no_wrap**, as the code sets it up: a chain `qs` of moduli all below 2^61 (the
    bound `CheckModuli` enforces for Q; 2^62 for P works the same), one of them `q` with its Montgomery
    constant; margin `QiOverflowMargin >> 1`; the summands are `MRedLazy x y q qinv` of REDUCED words
    `x, y < q` (an encoded diagonal in Montgomery form and a coefficient of the pre-rotated ciphertext).
    For any number of baby steps: no uint64 wrap-around, the result is reduced and congruent to the sum. -/
theorem lazy_accumulation_no_wrap (qs : List Nat) (hqs : ∀ x ∈ qs, x < 2 ^ 61) (q qinv : Nat) (hq : q ∈ qs)
    (hm : MontConst q qinv) (xys : List (Nat × Nat)) (hxy : ∀ xy ∈ xys, xy.1 < q ∧ xy.2 < q) (hne : xys ≠ []) :
    let ps := xys.map fun xy => MRedLazy xy.1 xy.2 q qinv
    let r := accRun q (halved (overflowMargin qs)) ps
    (∀ raw ∈ r.1, raw < W) ∧ r.2 < q ∧ r.2 % q = ps.sum % q := by
  intro ps r
  have hne' : qs ≠ [] := by intro h; rw [h] at hq; simp at hq
  have hmarg : overflowMargin qs = ((W / qs.foldl max 0 : Nat) : Int) := by
    unfold overflowMargin
    have : qs.isEmpty = false := by
      cases qs with
      | nil => exact absurd rfl hne'
      | cons _ _ => rfl
    simp [this, W_eq]
  have hq0 : 0 < q := hm.pos
  have hle : q ≤ qs.foldl max 0 := le_foldl_max qs 0 q (Or.inr hq)
  have hlt : qs.foldl max 0 < 2 ^ 61 := foldl_max_lt qs _ 0 (by decide) hqs
  have h3 : 3 * qs.foldl max 0 ≤ W := by unfold W; omega
  have hq2 : 2 * q ≤ W := by unfold W; omega
  have hps : ∀ p ∈ ps, p ≤ q + q * q / W := by
    intro p hp
    obtain ⟨xy, hxy', rfl⟩ := List.mem_map.1 hp
    exact MRedLazy_le_reduced xy.1 xy.2 q qinv hq2 hm (hxy xy hxy').1 (hxy xy hxy').2
  have := accRun_no_wrap q (qs.foldl max 0) hq0 hle h3 ps hps (by simpa [ps] using hne)
  simpa [r, hmarg] using this

/-! ## the schedule -/

def isModDownInner : Ev → Bool
  | .modDownInner _ => true
  | _ => false

theorem countP_evIf (b : Bool) (e : Ev) (he : isModDownInner e = false) :
    (evIf b e).countP isModDownInner = 0 := by
  cases b <;> simp [evIf, he]

@[simp] theorem countP_evIf_iq (b : Bool) : (evIf b .reduceInnerQ).countP isModDownInner = 0 := countP_evIf b _ rfl
@[simp] theorem countP_evIf_ip (b : Bool) : (evIf b .reduceInnerP).countP isModDownInner = 0 := countP_evIf b _ rfl
@[simp] theorem countP_evIf_oq (b : Bool) : (evIf b .reduceOuterQ).countP isModDownInner = 0 := countP_evIf b _ rfl
@[simp] theorem countP_evIf_op (b : Bool) : (evIf b .reduceOuterP).countP isModDownInner = 0 := countP_evIf b _ rfl

theorem innerLoop_no_modDown (MQ MP : Int) (j : Int) (is : List Int) :
    ∀ cnt, (innerLoop MQ MP j cnt is).countP isModDownInner = 0 := by
  induction is with
  | nil => intro _; simp [innerLoop]
  | cons i is ih =>
    intro cnt
    have hhd : ([if cnt = 0 then Ev.mulAssign j i else Ev.mulAdd j i]).countP isModDownInner = 0 := by
      split <;> simp [isModDownInner]
    simp only [innerLoop, List.countP_append, ih, hhd, countP_evIf_iq, countP_evIf_ip]

/-- **ModDown once per giant step**: the inner sums are brought back to `Q` exactly once for each
    non-zero giant step (plus the final ModDown of the result), whatever the margins and the number of
    baby steps -/
theorem modDown_once_per_giant_step (MQ MP : Int) (index : List (Int × List Int)) :
    (bsgsSchedule MQ MP index).countP isModDownInner = (index.filter fun ji => ji.1 != 0).length := by
  have houter : ∀ (l : List (Int × List Int)) (cnt0 : Nat),
      (outerLoop MQ MP cnt0 l).countP isModDownInner = (l.filter fun ji => ji.1 != 0).length := by
    intro l
    induction l with
    | nil => intro _; simp [outerLoop]
    | cons ji rest ih =>
      intro cnt0
      have hmid : ([if cnt0 = 0 then Ev.outerAssign ji.1 else Ev.outerAdd ji.1]).countP isModDownInner = 0 := by
        split <;> simp [isModDownInner]
      simp only [outerLoop, giantStep, List.countP_append, ih, innerLoop_no_modDown,
        countP_evIf_iq, countP_evIf_ip, countP_evIf_oq, countP_evIf_op, hmid, List.filter_cons]
      by_cases hj : ji.1 = 0
      · simp [hj, evIf]
      · simp [hj, evIf, isModDownInner]; omega
  unfold bsgsSchedule
  by_cases he : index.isEmpty
  · have : index = [] := List.isEmpty_iff.1 he
    simp [this]
  · simp only [he, Bool.false_eq_true, if_false, List.countP_append, houter,
      countP_evIf_oq, countP_evIf_op]
    simp [isModDownInner]

/-- the naive algorithm's final test `len(keys) % M == 0` fires exactly when the LAST iteration has
    already reduced: the final reduction is redundant, and for `len(keys) % M ≠ 0` nothing is reduced
    after the last iteration — harmless only because `MulCoeffsMontgomeryThenAdd` is not lazy -/
theorem naive_final_reduce_redundant (M : Nat) (hM : 1 ≤ M) (len : Nat) (hlen : 1 ≤ len) :
    reduceAtEndNaive (M : Int) len = reduceNow (M : Int) (len - 1) := by
  rw [reduceAtEndNaive_nat, reduceNow_nat M hM]
  have hiff : len % M = 0 ↔ (len - 1) % M = M - 1 := by
    constructor
    · intro h
      obtain ⟨k, hk⟩ := Nat.dvd_of_mod_eq_zero h
      have hk1 : 1 ≤ k := by
        rcases k with _ | k
        · simp at hk; omega
        · omega
      have : len - 1 = M * (k - 1) + (M - 1) := by
        have : M * k = M * (k - 1) + M := by
          conv_lhs => rw [show k = (k - 1) + 1 by omega]
          ring
        omega
      rw [this, Nat.mul_add_mod]
      exact Nat.mod_eq_of_lt (by omega)
    · intro h
      have h1 := Nat.div_add_mod (len - 1) M
      rw [h] at h1
      have : len = M * ((len - 1) / M + 1) := by
        have : M * ((len - 1) / M + 1) = M * ((len - 1) / M) + M := by ring
        omega
      rw [this]; exact Nat.mul_mod_right _ _
  by_cases h : len % M = 0
  · simp [h, hiff.1 h]
  · have : ¬ (len - 1) % M = M - 1 := fun h' => h (hiff.2 h')
    simp [h, this]

end Lattigo.Model.LinTrans.Lazy
