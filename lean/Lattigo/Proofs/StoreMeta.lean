/-
  C09 — the metadata component under aliasing: `InitOutputBinaryOp` / `InitOutputUnaryOp` on the Store model, and
  the metadata of the receiver after a complete modelled operation (`Op.exec` = metadata initialisation followed by
  the arithmetic).
-/
import Lattigo.Proofs.StoreOps

set_option linter.unusedSimpArgs false
set_option linter.unusedVariables false
namespace Lattigo.Store

variable {α : Type}

/-- what the receiver's metadata must be after a binary operation, in terms of the operands' BEFORE the call -/
def metaF (I : Interp α) (σ : Store α) (p : Pat) (f : Nat) : α :=
  if f = fRows then I.fn .dmax [σ (L p.op0 fRows), σ (L p.op1 fRows)]
  else if f = fCols then I.fn .dmax [σ (L p.op0 fCols), σ (L p.op1 fCols)]
  else σ (L p.op0 f)

/-- InitOutputBinaryOp (HEAD): every aliasing pattern — the four metadata fields of the receiver are those of the
    all-distinct run (`metaF`), nothing else is written -/
theorem initBinaryMeta_alias_sound (I : Interp α) (hcopy : ∀ x, I.fn .copy [x] = x) (al : Alias) (σ : Store α) :
    let p := al.pat
    let σ' := run I (initBinaryMeta p) σ
    (∀ f ∈ metaFields, σ' (L p.out f) = metaF I σ p f) ∧
    ∀ x : Loc, (x.obj ≠ p.out ∨ x.fld ∉ metaFields) → σ' x = σ x := by
  cases al <;>
  simp (config := {decide := true}) [Alias.pat, initBinaryMeta, metaFields, metaF, L, st, fRows, fCols, fBatched, fNTT,
    Step.exec, hcopy] <;>
  (intro x hx
   rcases x with ⟨xo, xf⟩
   simp only [Loc.mk.injEq]
   rcases hx with hx | hx
   · simp [hx]
   · simp only [not_or] at hx
     simp [hx.1, hx.2.1, hx.2.2.1, hx.2.2.2])

/-- the overwrite-first variant with `out = op1`: the receiver gets max(op0, op0) = the dimensions of op0 alone -/
theorem initBinaryMetaOverwriteFirst_outOp1 (I : Interp α) (σ : Store α) :
    run I (initBinaryMetaOverwriteFirst Alias.outOp1.pat) σ (L 1 fCols) =
      I.fn .dmax [I.fn .copy [σ (L 0 fCols)], I.fn .copy [σ (L 0 fCols)]] := by
  simp (config := {decide := true}) [Alias.pat, initBinaryMetaOverwriteFirst, L, st, fRows, fCols, fBatched, fNTT, Step.exec]

/-- … which is NOT the maximum of the two operands' dimensions: the variant is not alias-sound -/
theorem initBinaryMetaOverwriteFirst_counterexample :
    ∃ σ : Store Int, run intI (initBinaryMetaOverwriteFirst Alias.outOp1.pat) σ (L 1 fCols) ≠
      metaF intI σ Alias.outOp1.pat fCols := by
  refine ⟨testStore, ?_⟩
  rw [initBinaryMetaOverwriteFirst_outOp1]
  decide

/-- the operations that start with InitOutputBinaryOp -/
def Op.isBinary : Op → Bool
  | .ckksEval | .ckksMul | .ckksMulRelin | .bgvTensor | .bgvTensorRelin | .bgvTensorSI | .bgvTensorSIRelin
  | .bgvMatchScale => true
  | _ => false

/-- the arithmetic part never writes a metadata field -/
theorem valueProg_no_meta (I : Interp α) (op : Op) (hb : op.isBinary = true) (al : Alias) (σ : Store α) :
    (op.valueProg I al.pat σ).all (fun s => decide (s.dst.fld < 20)) = true := by
  cases op <;> simp only [Op.isBinary] at hb <;> (try cases hb) <;> cases al <;>
    simp only [Op.valueProg] <;>
    first
      | decide
      | (generalize I.cmp _ _ = c; cases c <;> decide)

theorem Op.prog_binary (I : Interp α) (op : Op) (hb : op.isBinary = true) (p : Pat) (σ : Store α) :
    op.prog I p σ = initBinaryMeta p ++ op.valueProg I p σ := by
  cases op <;> simp only [Op.isBinary] at hb <;> (try cases hb) <;> rfl

/-- ALIAS SOUNDNESS OF THE METADATA of a complete binary operation: for every modelled operation that starts with
    InitOutputBinaryOp (ckks Add/Sub, ckks and bgv products incl. the scale-invariant ones, bgv Add/Sub with scale
    matching) and every aliasing pattern, IsNTT, IsBatched and both components of LogDimensions of the receiver
    after the call are those of the all-distinct run. -/
theorem Op.exec_meta_alias_sound (I : Interp α) (hcopy : ∀ x, I.fn .copy [x] = x) (op : Op)
    (hb : op.isBinary = true) (al : Alias) (σ : Store α) (f : Nat) (hf : f ∈ metaFields) :
    op.exec I al.pat σ (L al.pat.out f) = metaF I σ al.pat f := by
  unfold Op.exec
  have hv : op.valueProg I al.pat (run I (initBinaryMeta al.pat) σ) = op.valueProg I al.pat σ ∨ True := Or.inr trivial
  rw [Op.prog_binary I op hb, run_append]
  rw [run_frame]
  · exact (initBinaryMeta_alias_sound I hcopy al σ).1 f hf
  · intro s hs e
    have := valueProg_no_meta I op hb al σ
    rw [List.all_eq_true] at this
    have h20 := of_decide_eq_true (this s hs)
    rw [e] at h20
    simp only [metaFields, fRows, fCols, fBatched, fNTT, List.mem_cons, List.mem_nil_iff, or_false] at hf
    simp only [L] at h20
    omega

end Lattigo.Store
