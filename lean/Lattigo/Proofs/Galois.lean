/-
  C11 proofs, part 3: the Galois-element functions of `core/rlwe/params.go`.

  Throughout `nthRoot = 2^m`.  `galEl` is characterised as the integer power `5^k` of the unit
  `5 ∈ (ZMod 2^m)ˣ`; everything else is group theory in that (abelian) group together with
  `orderOf 5 = 2^(m-2)` (proved in `GaloisOrder`, not assumed).
-/
import Lattigo.Proofs.GaloisExp
import Lattigo.Proofs.GaloisOrder

namespace Lattigo.Proofs.Galois
open Lattigo Lattigo.Model.Galois

theorem eq_of_cast_eq (n a b : Nat) (ha : a < n) (hb : b < n)
    (h : (a : ZMod n) = (b : ZMod n)) : a = b := by
  rw [ZMod.natCast_eq_natCast_iff] at h
  unfold Nat.ModEq at h
  rwa [Nat.mod_eq_of_lt ha, Nat.mod_eq_of_lt hb] at h

theorem toU64_cast (k : Int) : ((toU64 k : Nat) : Int) = k % 18446744073709551616 := by
  unfold toU64; omega

theorem toU64_lt (k : Int) : toU64 k < 2 ^ 64 := by
  unfold toU64; omega

theorem toU64_wrapInt (k : Int) : toU64 (wrapInt k) = toU64 k := by
  unfold toU64 wrapInt; omega

/-- the exponent actually used by `GaloisElement`: `uint64(k) & (2^m - 1)` is `k mod 2^m`. -/
theorem exponent_cast (m : Nat) (hm : m ≤ 64) (k : Int) :
    ((toU64 k &&& (2 ^ m - 1) : Nat) : Int) = k % ((2 ^ m : Nat) : Int) := by
  rw [Nat.and_two_pow_sub_one_eq_mod]
  push_cast
  rw [toU64_cast]
  have h64 : (18446744073709551616 : Int) = 2 ^ 64 := by norm_num
  rw [h64]
  exact Int.emod_emod_of_dvd k (pow_dvd_pow 2 hm)

theorem five_pow_nthRoot (m : Nat) (hm : 1 ≤ m) : (five m) ^ (2 ^ m) = 1 := by
  obtain ⟨j, rfl⟩ : ∃ j, m = j + 1 := ⟨m - 1, by omega⟩
  have h : ∀ e, e = 2 ^ j * 2 → (five (j + 1)) ^ e = 1 := by
    intro e he; rw [he, pow_mul, unit_pow_two_pow]; simp
  exact h _ (pow_succ 2 j)

theorem galEl_lt (m : Nat) (k : Int) : galEl (2 ^ m) k < 2 ^ m ∨ m = 0 := by
  by_cases h : m = 0
  · exact Or.inr h
  · left
    unfold galEl modExp
    apply modExpLoop_lt
    · positivity
    · exact Nat.one_lt_two_pow h

theorem galEl_lt' (m : Nat) (hm : 1 ≤ m) (k : Int) : galEl (2 ^ m) k < 2 ^ m := by
  rcases galEl_lt m k with h | h
  · exact h
  · omega

/-- **Characterisation.** `GaloisElement(k)` is the integer power `5^k` in `(ZMod 2^m)ˣ`
    (for every Go `int` `k`, negative ones included). -/
theorem galEl_cast (m : Nat) (hm1 : 1 ≤ m) (hm : m ≤ 64) (k : Int) :
    ((galEl (2 ^ m) k : Nat) : ZMod (2 ^ m)) = (((five m) ^ k : (ZMod (2 ^ m))ˣ) : ZMod (2 ^ m)) := by
  have hlt : toU64 k &&& (2 ^ m - 1) < 2 ^ 64 :=
    lt_of_le_of_lt Nat.and_le_left (toU64_lt k)
  unfold galEl galoisGen
  rw [modExp_eq 5 _ (2 ^ m) (Nat.one_lt_two_pow (by omega)) hlt]
  rw [ZMod.natCast_mod]
  rw [zpow_eq_zpow_emod' k (five_pow_nthRoot m hm1), ← exponent_cast m hm k, zpow_natCast]
  simp

/-- Go-level statement of the characterisation: `GaloisElement(k) = 5^(k mod 2^m) mod 2^m`. -/
theorem galEl_eq (m : Nat) (hm1 : 1 ≤ m) (hm : m ≤ 64) (k : Int) :
    galEl (2 ^ m) k = 5 ^ (k % ((2 ^ m : Nat) : Int)).toNat % 2 ^ m := by
  have hlt : toU64 k &&& (2 ^ m - 1) < 2 ^ 64 :=
    lt_of_le_of_lt Nat.and_le_left (toU64_lt k)
  unfold galEl galoisGen
  rw [modExp_eq 5 _ (2 ^ m) (Nat.one_lt_two_pow (by omega)) hlt]
  congr 2
  have := exponent_cast m hm k
  omega

/-- `galEl_add`: `GaloisElement(a) * GaloisElement(b) ≡ GaloisElement(a+b) (mod nthRoot)`. -/
theorem galEl_add (m : Nat) (hm1 : 1 ≤ m) (hm : m ≤ 64) (a b : Int) :
    (galEl (2 ^ m) a * galEl (2 ^ m) b) % 2 ^ m = galEl (2 ^ m) (a + b) := by
  apply eq_of_cast_eq (2 ^ m) _ _ (Nat.mod_lt _ (by positivity)) (galEl_lt' m hm1 _)
  rw [ZMod.natCast_mod, Nat.cast_mul, galEl_cast m hm1 hm, galEl_cast m hm1 hm, galEl_cast m hm1 hm,
    zpow_add]
  simp

theorem galEl_zero (m : Nat) (hm1 : 1 ≤ m) (hm : m ≤ 64) : galEl (2 ^ m) 0 = 1 := by
  apply eq_of_cast_eq (2 ^ m) _ _ (galEl_lt' m hm1 _) (Nat.one_lt_two_pow (by omega))
  rw [galEl_cast m hm1 hm]; simp

theorem galEl_wrapInt (n : Nat) (k : Int) : galEl n (wrapInt k) = galEl n k := by
  unfold galEl; rw [toU64_wrapInt]

/-- `galEl_mod_slots`: `k` and `k mod (nthRoot/4)` give the same element (`nthRoot = 2^(t+3)`,
    `nthRoot/4 = 2^(t+1)` = number of slots per row). -/
theorem galEl_mod_slots (t : Nat) (ht : t + 3 ≤ 64) (k : Int) :
    galEl (2 ^ (t + 3)) k = galEl (2 ^ (t + 3)) (k % ((2 ^ (t + 1) : Nat) : Int)) := by
  apply eq_of_cast_eq (2 ^ (t + 3)) _ _ (galEl_lt' _ (by omega) _) (galEl_lt' _ (by omega) _)
  rw [galEl_cast _ (by omega) ht, galEl_cast _ (by omega) ht]
  congr 1
  exact zpow_eq_zpow_emod' k (five_pow_eq_one (t + 1))

/-- two rotation amounts give the same Galois element iff they agree modulo `nthRoot/4`. -/
theorem galEl_eq_iff (t : Nat) (ht : t + 3 ≤ 64) (a b : Int) :
    galEl (2 ^ (t + 3)) a = galEl (2 ^ (t + 3)) b ↔ a ≡ b [ZMOD ((2 ^ (t + 1) : Nat) : Int)] := by
  rw [← orderOf_five t, ← zpow_eq_zpow_iff_modEq]
  constructor
  · intro h
    apply Units.ext
    rw [← galEl_cast _ (by omega) ht, ← galEl_cast _ (by omega) ht, h]
  · intro h
    apply eq_of_cast_eq (2 ^ (t + 3)) _ _ (galEl_lt' _ (by omega) _) (galEl_lt' _ (by omega) _)
    rw [galEl_cast _ (by omega) ht, galEl_cast _ (by omega) ht, h]

/-! ### inverse -/

theorem unit_pow_nthRoot (m : Nat) (hm : 1 ≤ m) (x : (ZMod (2 ^ m))ˣ) : x ^ (2 ^ m) = 1 := by
  obtain ⟨j, rfl⟩ : ∃ j, m = j + 1 := ⟨m - 1, by omega⟩
  have h : ∀ e, e = 2 ^ j * 2 → x ^ e = 1 := by
    intro e he; rw [he, pow_mul, unit_pow_two_pow]; simp
  exact h _ (pow_succ 2 j)

theorem modInv_eq (m : Nat) (hm1 : 1 ≤ m) (hm : m ≤ 64) (g : Nat) :
    modInv (2 ^ m) g = g ^ (2 ^ m - 1) % 2 ^ m := by
  unfold modInv
  apply modExp_eq _ _ _ (Nat.one_lt_two_pow (by omega))
  have : 2 ^ m ≤ 2 ^ 64 := Nat.pow_le_pow_right (by norm_num) hm
  have : 0 < 2 ^ m := by positivity
  omega

/-- `modInv_spec`: for every odd `g`, `g * ModInvGaloisElement(g) ≡ 1 (mod nthRoot)`. -/
theorem modInv_spec (m : Nat) (hm1 : 1 ≤ m) (hm : m ≤ 64) (g : Nat) (hg : g % 2 = 1) :
    (g * modInv (2 ^ m) g) % 2 ^ m = 1 := by
  rw [modInv_eq m hm1 hm]
  have hcop : Nat.Coprime g (2 ^ m) := by
    apply Nat.Coprime.pow_right
    rw [Nat.coprime_comm, Nat.Prime.coprime_iff_not_dvd Nat.prime_two]
    omega
  have h1 := unit_pow_nthRoot m hm1 (ZMod.unitOfCoprime g hcop)
  have h2 := congrArg (fun x : (ZMod (2 ^ m))ˣ => (x : ZMod (2 ^ m))) h1
  simp only [Units.val_pow_eq_pow_val, ZMod.coe_unitOfCoprime, Units.val_one] at h2
  apply eq_of_cast_eq (2 ^ m) _ _ (Nat.mod_lt _ (by positivity)) (Nat.one_lt_two_pow (by omega))
  rw [ZMod.natCast_mod, Nat.cast_mul, ZMod.natCast_mod, Nat.cast_pow, ← pow_succ']
  have hpos : 0 < 2 ^ m := by positivity
  rw [show 2 ^ m - 1 + 1 = 2 ^ m by omega, h2]; simp

/-- `ModInvGaloisElement(GaloisElement(k)) = GaloisElement(-k)`. -/
theorem modInv_galEl (m : Nat) (hm1 : 1 ≤ m) (hm : m ≤ 64) (k : Int) :
    modInv (2 ^ m) (galEl (2 ^ m) k) = galEl (2 ^ m) (-k) := by
  rw [modInv_eq m hm1 hm]
  apply eq_of_cast_eq (2 ^ m) _ _ (Nat.mod_lt _ (by positivity)) (galEl_lt' m hm1 _)
  rw [ZMod.natCast_mod, Nat.cast_pow, galEl_cast m hm1 hm, galEl_cast m hm1 hm,
    ← Units.val_pow_eq_pow_val]
  congr 1
  have hpos : 0 < 2 ^ m := by positivity
  have h1 : ((five m) ^ k) ^ (2 ^ m - 1) * (five m) ^ k = 1 := by
    rw [← pow_succ, show 2 ^ m - 1 + 1 = 2 ^ m by omega, unit_pow_nthRoot m hm1]
  rw [zpow_neg]
  exact eq_inv_of_mul_eq_one_left h1

/-! ### the order-two element -/

/-- `(nthRoot-1)^2 ≡ 1`. -/
theorem orderTwo_sq (n : Nat) (hn : 2 ≤ n) : ((n - 1) * (n - 1)) % n = 1 := by
  obtain ⟨j, rfl⟩ : ∃ j, n = j + 2 := ⟨n - 2, by omega⟩
  have : (j + 2 - 1) * (j + 2 - 1) = 1 + (j + 2) * j := by
    simp only [show j + 2 - 1 = j + 1 by omega]; ring
  rw [this, Nat.add_mul_mod_self_left]
  exact Nat.mod_eq_of_lt (by omega)

/-- every `GaloisElement(k)` is `≡ 1 (mod 4)` … -/
theorem galEl_mod_four (m : Nat) (hm2 : 2 ≤ m) (hm : m ≤ 64) (k : Int) : galEl (2 ^ m) k % 4 = 1 := by
  rw [galEl_eq m (by omega) hm]
  have h4 : 4 ∣ 2 ^ m := by
    obtain ⟨j, rfl⟩ : ∃ j, m = j + 2 := ⟨m - 2, by omega⟩
    exact ⟨2 ^ j, by ring⟩
  rw [Nat.mod_mod_of_dvd _ h4, Nat.pow_mod]; norm_num

/-- … so `nthRoot-1` (≡ 3 mod 4) is not a rotation: it generates the "orthogonal" subgroup. -/
theorem orderTwo_not_rotation (m : Nat) (hm2 : 2 ≤ m) (hm : m ≤ 64) (k : Int) :
    galEl (2 ^ m) k ≠ 2 ^ m - 1 := by
  intro h
  have h1 := galEl_mod_four m hm2 hm k
  rw [h] at h1
  obtain ⟨j, rfl⟩ : ∃ j, m = j + 2 := ⟨m - 2, by omega⟩
  have : 2 ^ (j + 2) = 4 * 2 ^ j := by ring
  have hp : 0 < 2 ^ j := by positivity
  omega

end Lattigo.Proofs.Galois
