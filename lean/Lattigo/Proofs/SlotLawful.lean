/-
  C11 proofs, part 11: the executable slot-vector carrier `slotOps` (the `List Int` instance the
  driver runs and the harness ties to decrypted/decoded slots) is a lawful Galois action.

  `Lawful` is a statement about an `AddCommMonoid` carrier; raw `List Int` (any length, any entries)
  is not one.  So:
  * `EV lay e t` — the *evaluation vectors*: functions `f : ZMod 2^(e+3) → ZMod t × ZMod t` with
    `f(-u) = τ(f u)` (`τ` = swap of the two components for BGV, negation of the second for CKKS,
    identity for the one-row layout); `aut g f = f(·g)`.  This is the true semantics of slots
    (`Proofs/RotateSlots.lean`: `f u = a(ζ^u)`), and it is `Lawful` for all `g` (`evOps_lawful`).
  * `toSlots : EV → List Int` reads `f` at `5^j`, `j < 2^(e+1)` (first components, then second
    components) — a bijection onto the well-formed slot vectors `SlotVec` (`toSlots_ofSlots`).
  * `toSlots` is a homomorphism `evOps → slotOps` for `add`, `scaleInv`, and `aut g` for every
    `g = GaloisElement(k)` and `g = nthRoot-1` (`sim_slots`).
  * every algorithm of `Model/InnerSum.lean` commutes with such a homomorphism (`*_sim`).
  Hence every `Lawful`-conditional theorem transfers to `slotOps` on well-formed vectors without
  hypothesis (`Props/C11.lean`, `*_slots`).
-/
import Lattigo.Proofs.InnerSumTrace
import Lattigo.Proofs.InnerSumSchemes
import Lattigo.Proofs.GaloisDlog

namespace Lattigo.Proofs.SlotLawful
open Lattigo Lattigo.Model.Galois Lattigo.Model.InnerSum
open Lattigo.Proofs.Galois Lattigo.Proofs.InnerSum
open Finset

/-! ## 1. list facts about `rotL` / `slotAut` -/

theorem rotL_length (k : ℕ) (v : List Int) : (rotL k v).length = v.length := by
  unfold rotL
  split
  · rfl
  · next h =>
    have : k % v.length < v.length := Nat.mod_lt _ (by omega)
    simp; omega

theorem rot_idx1 (h κ j : ℕ) (hlt : j < h - κ % h) : κ % h + j = (j + κ) % h := by
  have hκ : κ % h < h := Nat.mod_lt _ (by omega)
  have e1 : (j + κ) % h = (j + κ % h) % h := (Nat.add_mod_mod j κ h).symm
  have e3 : (j + κ % h) % h = j + κ % h := Nat.mod_eq_of_lt (by omega)
  rw [e1, e3]; omega

theorem rot_idx2 (h κ j : ℕ) (h2 : j < h) (hge : ¬ j < h - κ % h) : j - (h - κ % h) = (j + κ) % h := by
  have hκ : κ % h < h := Nat.mod_lt _ (by omega)
  have e1 : (j + κ) % h = (j + κ % h) % h := (Nat.add_mod_mod j κ h).symm
  have e2 : j + κ % h = (j - (h - κ % h)) + h := by omega
  have e3 : (j - (h - κ % h)) % h = j - (h - κ % h) := Nat.mod_eq_of_lt (by omega)
  rw [e1, e2, Nat.add_mod_right, e3]

/-- rotating the list `[F 0, …, F (h-1)]` left by `κ`: entry `j` becomes `F ((j+κ) mod h)`. -/
theorem rotL_map_range (F : ℕ → Int) (h κ : ℕ) :
    rotL κ ((List.range h).map F) = (List.range h).map (fun j => F ((j + κ) % h)) := by
  rcases Nat.eq_zero_or_pos h with h0 | hpos
  · subst h0; simp [rotL]
  unfold rotL
  simp only [List.length_map, List.length_range]
  rw [if_neg (by omega)]
  have hκ : κ % h < h := Nat.mod_lt _ hpos
  apply List.ext_getElem
  · simp; omega
  intro j h1 h2
  simp only [List.length_map, List.length_range] at h2
  rw [List.getElem_append]
  simp only [List.length_drop, List.length_map, List.length_range]
  split
  · next hlt =>
    simp only [List.getElem_drop, List.getElem_map, List.getElem_range]
    rw [rot_idx1 h κ j hlt]
  · next hge =>
    simp only [List.getElem_take, List.getElem_map, List.getElem_range]
    rw [rot_idx2 h κ j h2 hge]

/-- `5^j · 5^k = 5^((j+k) mod N/2)` in `(ZMod 2N)ˣ`, `2N = 2^(e+3)`. -/
theorem five_pow_mul_zpow (e j : ℕ) (k : ℤ) :
    (five (e + 3)) ^ j * (five (e + 3)) ^ k
      = (five (e + 3)) ^ (((j : ℤ) + k) % ((2 ^ (e + 1) : ℕ) : ℤ)).toNat := by
  have hpos : (0 : ℤ) < ((2 ^ (e + 1) : ℕ) : ℤ) := by positivity
  have hnn := Int.emod_nonneg ((j : ℤ) + k) (ne_of_gt hpos)
  rw [← zpow_natCast (five (e + 3)) j, ← zpow_add, ← zpow_natCast (five (e + 3)) (Int.toNat _),
    Int.toNat_of_nonneg hnn, ← orderOf_five e, zpow_mod_orderOf]

/-- the rotation amount `k mod N/2` as a natural number. -/
def kmod (e : ℕ) (k : ℤ) : ℕ := (k % ((2 ^ (e + 1) : ℕ) : ℤ)).toNat

theorem kmod_lt (e : ℕ) (k : ℤ) : kmod e k < 2 ^ (e + 1) := by
  unfold kmod
  have hpos : (0 : ℤ) < ((2 ^ (e + 1) : ℕ) : ℤ) := by positivity
  have := Int.emod_lt_of_pos k hpos
  have := Int.emod_nonneg k (ne_of_gt hpos)
  omega

theorem add_kmod (e j : ℕ) (k : ℤ) :
    (((j : ℤ) + k) % ((2 ^ (e + 1) : ℕ) : ℤ)).toNat = (j + kmod e k) % 2 ^ (e + 1) := by
  unfold kmod
  have hpos : (0 : ℤ) < ((2 ^ (e + 1) : ℕ) : ℤ) := by positivity
  have h1 := Int.emod_nonneg k (ne_of_gt hpos)
  have h2 := Int.emod_nonneg ((j : ℤ) + k) (ne_of_gt hpos)
  have hκ : ((k % ((2 ^ (e + 1) : ℕ) : ℤ)).toNat : ℤ) = k % ((2 ^ (e + 1) : ℕ) : ℤ) :=
    Int.toNat_of_nonneg h1
  have goalZ : ((((j : ℤ) + k) % ((2 ^ (e + 1) : ℕ) : ℤ)).toNat : ℤ)
      = (((j + (k % ((2 ^ (e + 1) : ℕ) : ℤ)).toNat) % 2 ^ (e + 1) : ℕ) : ℤ) := by
    rw [Int.toNat_of_nonneg h2, Int.natCast_mod, Nat.cast_add, hκ, Int.add_emod_emod]
  exact Int.ofNat.inj goalZ

/-- `slotAut` for a rotation, two-row layouts: both rows are rotated left by `k mod N/2`. -/
theorem slotAut_galEl_rows (lay : Layout) (hlay : lay ≠ .single) (e : ℕ) (he : e + 3 ≤ 64) (k : ℤ)
    (r0 r1 : List Int) (hlen : r0.length = r1.length) :
    slotAut lay (2 ^ (e + 3)) (galEl (2 ^ (e + 3)) k) (r0 ++ r1)
      = rotL (kmod e k) r0 ++ rotL (kmod e k) r1 := by
  have h4 := galEl_mod_four (e + 3) (by omega) he k
  have hd := dlog_galEl e he k
  have hh : (r0 ++ r1).length / 2 = r0.length := by rw [List.length_append]; omega
  unfold slotAut
  cases lay with
  | single => exact absurd rfl hlay
  | bgv => simp only [hh, h4, hd, List.take_left', List.drop_left', if_true]; rfl
  | ckks => simp only [hh, h4, hd, List.take_left', List.drop_left', if_true]; rfl

/-- `slotAut` for a rotation, one-row layout. -/
theorem slotAut_galEl_single (e : ℕ) (he : e + 3 ≤ 64) (k : ℤ) (v : List Int) :
    slotAut .single (2 ^ (e + 3)) (galEl (2 ^ (e + 3)) k) v = rotL (kmod e k) v := by
  unfold slotAut
  simp only [dlog_galEl e he k]; rfl

theorem rotL_zero (v : List Int) : rotL 0 v = v := by
  unfold rotL; split <;> simp

theorem orderTwo_mod_four (e : ℕ) : (2 ^ (e + 3) - 1) % 4 = 3 := by
  have : 2 ^ (e + 3) = 4 * (2 * 2 ^ e) := by ring
  have hp : 0 < 2 ^ e := by positivity
  omega

theorem dlog_one (e : ℕ) (he : e + 3 ≤ 64) : solveDiscreteLog (2 ^ (e + 3)) 1 = some 0 := by
  have := dlog_galEl e he 0
  rw [galEl_zero _ (by omega) he] at this
  simpa using this

/-- `slotAut` for the order-two element `nthRoot-1`: BGV swaps the rows, CKKS negates the second. -/
theorem slotAut_orderTwo_bgv (e : ℕ) (he : e + 3 ≤ 64) (r0 r1 : List Int) (hlen : r0.length = r1.length) :
    slotAut .bgv (2 ^ (e + 3)) (2 ^ (e + 3) - 1) (r0 ++ r1) = r1 ++ r0 := by
  have hh : (r0 ++ r1).length / 2 = r0.length := by rw [List.length_append]; omega
  have h1 : 2 ^ (e + 3) - (2 ^ (e + 3) - 1) = 1 := by
    have := Nat.one_le_two_pow (n := e + 3)
    omega
  unfold slotAut
  simp only [hh, orderTwo_mod_four, h1, dlog_one e he, List.take_left', List.drop_left', rotL_zero]
  simp

theorem slotAut_orderTwo_ckks (e : ℕ) (he : e + 3 ≤ 64) (r0 r1 : List Int) (hlen : r0.length = r1.length) :
    slotAut .ckks (2 ^ (e + 3)) (2 ^ (e + 3) - 1) (r0 ++ r1) = r0 ++ r1.map (fun x => -x) := by
  have hh : (r0 ++ r1).length / 2 = r0.length := by rw [List.length_append]; omega
  have h1 : 2 ^ (e + 3) - (2 ^ (e + 3) - 1) = 1 := by
    have := Nat.one_le_two_pow (n := e + 3)
    omega
  unfold slotAut
  simp only [hh, orderTwo_mod_four, h1, dlog_one e he, List.take_left', List.drop_left', rotL_zero]
  simp

/-! ## 2. the algorithms commute with homomorphisms of carriers -/

section Sim
variable {α β : Type}

/-- `ψ` is a homomorphism of carriers for `add`, `scaleInv`, and `aut g` for the `g` in `G`. -/
structure Sim (S : Ops α) (T : Ops β) (ψ : α → β) (G : ℕ → Prop) : Prop where
  add : ∀ a b, ψ (S.add a b) = T.add (ψ a) (ψ b)
  aut : ∀ g, G g → ∀ a, ψ (S.aut g a) = T.aut g (ψ a)
  scaleInv : ∀ c a, ψ (S.scaleInv c a) = T.scaleInv c (ψ a)

def mapSt (ψ : α → β) (st : PState α) : PState β :=
  { ct := ψ st.ct, acc := ψ st.acc, out := ψ st.out, state := st.state, copy := st.copy, reqs := st.reqs }

def mapRes (ψ : α → β) : Res α → Res β
  | .err => .err
  | .panic => .panic
  | .ok v r => .ok (ψ v) r

theorem mapRes_val {ψ : α → β} {r : Res α} {x : α} (h : r.val? = some x) :
    (mapRes ψ r).val? = some (ψ x) := by
  cases r with
  | err => simp [Res.val?] at h
  | panic => simp [Res.val?] at h
  | ok v q => simp only [Res.val?] at h; injection h with h; subst h; rfl

theorem mapRes_val_iff {ψ : α → β} {r : Res α} {y : β} :
    (mapRes ψ r).val? = some y ↔ ∃ x, r.val? = some x ∧ y = ψ x := by
  cases r with
  | err => simp [mapRes, Res.val?]
  | panic => simp [mapRes, Res.val?]
  | ok v q => simp [mapRes, Res.val?, eq_comm]

theorem mapRes_reqs {ψ : α → β} (r : Res α) : (mapRes ψ r).reqs = r.reqs := by
  cases r <;> rfl

variable {S : Ops α} {T : Ops β} {ψ : α → β} {G : ℕ → Prop}

theorem ptsStep_sim (h : Sim S T ψ G) (N : ℕ) (hG : ∀ k, G (galEl N k)) (f : α → α → α) (f' : β → β → β)
    (hf : ∀ a b, ψ (f a b) = f' (ψ a) (ψ b)) (lazy : Bool) (n : ℕ) (off : ℤ) (i j : ℕ) (st : PState α) :
    mapSt ψ (ptsStep S f lazy N n off i j st) = ptsStep T f' lazy N n off i j (mapSt ψ st) := by
  unfold ptsStep
  simp only [mapSt]
  split_ifs <;> simp_all [h.aut _ (hG _)]

theorem ptsLoop_sim (h : Sim S T ψ G) (N : ℕ) (hG : ∀ k, G (galEl N k)) (f : α → α → α) (f' : β → β → β)
    (hf : ∀ a b, ψ (f a b) = f' (ψ a) (ψ b)) (lazy : Bool) (n : ℕ) (off : ℤ) :
    ∀ (fuel i j : ℕ) (st : PState α),
      mapSt ψ (ptsLoop S f lazy N n off fuel i j st) = ptsLoop T f' lazy N n off fuel i j (mapSt ψ st) := by
  intro fuel
  induction fuel with
  | zero => intro i j st; rfl
  | succ fuel ih =>
    intro i j st
    unfold ptsLoop
    split
    · rfl
    · rw [ih, ptsStep_sim h N hG f f' hf]

theorem partialTracesSum_sim (h : Sim S T ψ G) (N : ℕ) (hG : ∀ k, G (galEl N k)) (hasP : Bool)
    (v out0 acc0 : α) (off n : ℤ) :
    partialTracesSum T N hasP (ψ v) (ψ out0) (ψ acc0) off n
      = mapRes ψ (partialTracesSum S N hasP v out0 acc0 off n) := by
  unfold partialTracesSum
  split_ifs
  · rfl
  · rfl
  · rfl
  · have := ptsLoop_sim h N hG S.add T.add h.add true n.toNat off 64 0 n.toNat
      { ct := v, acc := acc0, out := out0, state := false, copy := true, reqs := [] }
    simp only [mapSt] at this
    simp only [mapRes, ← this]

theorem innerFunction_sim (h : Sim S T ψ G) (N : ℕ) (hG : ∀ k, G (galEl N k))
    (v out0 acc0 : α) (b n : ℤ) :
    innerFunction T T.add N (ψ v) (ψ out0) (ψ acc0) b n
      = mapRes ψ (innerFunction S S.add N v out0 acc0 b n) := by
  unfold innerFunction
  split_ifs
  · rfl
  · rfl
  · have := ptsLoop_sim h N hG S.add T.add h.add false n.toNat b 64 0 n.toNat
      { ct := v, acc := acc0, out := out0, state := false, copy := true, reqs := [] }
    simp only [mapSt] at this
    simp only [mapRes, ← this]

theorem replicate_sim (h : Sim S T ψ G) (N : ℕ) (hG : ∀ k, G (galEl N k)) (hasP : Bool)
    (v out0 acc0 : α) (b n : ℤ) :
    replicate T N hasP (ψ v) (ψ out0) (ψ acc0) b n = mapRes ψ (replicate S N hasP v out0 acc0 b n) :=
  partialTracesSum_sim h N hG hasP v out0 acc0 _ n

theorem innerSumCKKS_sim (h : Sim S T ψ G) (N : ℕ) (hG : ∀ k, G (galEl N k)) (slots : ℕ) (hasP : Bool)
    (v out0 acc0 : α) (b n : ℤ) :
    innerSumCKKS T N slots hasP (ψ v) (ψ out0) (ψ acc0) b n
      = mapRes ψ (innerSumCKKS S N slots hasP v out0 acc0 b n) := by
  unfold innerSumCKKS
  simp only
  split_ifs
  · rfl
  · rfl
  · rfl
  · exact partialTracesSum_sim h N hG hasP v out0 acc0 b n

theorem innerSumBGV_sim (h : Sim S T ψ G) (N : ℕ) (hG : ∀ k, G (galEl N k)) (hG2 : G (N - 1))
    (slots : ℕ) (hasP : Bool) (v out0 acc0 : α) (b n : ℤ) :
    innerSumBGV T N slots hasP (ψ v) (ψ out0) (ψ acc0) b n
      = mapRes ψ (innerSumBGV S N slots hasP v out0 acc0 b n) := by
  unfold innerSumBGV
  simp only
  split_ifs
  · rfl
  · rfl
  · rfl
  · rfl
  · rw [partialTracesSum_sim h N hG hasP v out0 acc0 b (n / 2)]
    cases partialTracesSum S N hasP v out0 acc0 b (n / 2) with
    | err => rfl
    | panic => rfl
    | ok u reqs => simp only [mapRes, h.add, h.aut _ hG2]
  · exact partialTracesSum_sim h N hG hasP v out0 acc0 b n

theorem rotate_sim (h : Sim S T ψ G) (N : ℕ) (hG : ∀ k, G (galEl N k)) (v : α) (k : ℤ) :
    rotate T N (ψ v) k = mapRes ψ (rotate S N v k) := by
  unfold rotate
  simp only [mapRes, h.aut _ (hG k)]

theorem conjugate_sim (h : Sim S T ψ G) (rt : RingType) (N : ℕ) (hG2 : G (N - 1)) (v : α) :
    conjugate T rt N (ψ v) = mapRes ψ (conjugate S rt N v) := by
  unfold conjugate
  cases rt with
  | standard => simp only [mapRes, h.aut _ hG2]
  | conjugateInvariant => rfl

theorem rotateHoisted_sim (h : Sim S T ψ G) (N : ℕ) (hG : ∀ k, G (galEl N k)) (hasP : Bool) (v : α)
    (ks : List ℤ) :
    rotateHoisted T N hasP (ψ v) ks
      = (rotateHoisted S N hasP v ks).map (fun p => (p.1.map ψ, p.2)) := by
  unfold rotateHoisted
  split_ifs
  · rfl
  · simp only [Option.map_some]
    congr 1
    have key : ∀ (ks : List ℤ) (acc : List α × List ℕ),
        ks.foldl (fun (acc : List β × List ℕ) k =>
            (acc.1 ++ [T.aut (galEl N k) (ψ v)], request false (galEl N k) acc.2)) (acc.1.map ψ, acc.2)
          = ((ks.foldl (fun (acc : List α × List ℕ) k =>
            (acc.1 ++ [S.aut (galEl N k) v], request false (galEl N k) acc.2)) acc).1.map ψ,
             (ks.foldl (fun (acc : List α × List ℕ) k =>
            (acc.1 ++ [S.aut (galEl N k) v], request false (galEl N k) acc.2)) acc).2) := by
      intro ks
      induction ks with
      | nil => intro acc; rfl
      | cons k ks ih =>
        intro acc
        simp only [List.foldl_cons]
        rw [← ih]
        simp [h.aut _ (hG k)]
    exact key ks ([], [])

theorem traceLoop_sim (h : Sim S T ψ G) (N : ℕ) (hG : ∀ k, G (galEl N k)) (bound : ℕ) :
    ∀ (fuel i : ℕ) (out : α) (reqs : List ℕ),
      traceLoop T N bound fuel i (ψ out, reqs)
        = (ψ (traceLoop S N bound fuel i (out, reqs)).1, (traceLoop S N bound fuel i (out, reqs)).2) := by
  intro fuel
  induction fuel with
  | zero => intro i out reqs; rfl
  | succ fuel ih =>
    intro i out reqs
    unfold traceLoop
    split_ifs
    · have := ih (i + 1) (S.add out (S.aut (galEl N (shlInt i)) out)) (request false (galEl N (shlInt i)) reqs)
      rw [h.add, h.aut _ (hG _)] at this
      exact this
    · rfl

theorem trace_sim (h : Sim S T ψ G) (rt : RingType) (L : ℕ) (hG : ∀ k, G (galEl (nthRootOf rt L) k))
    (hG2 : rt = .standard → G (nthRootOf rt L - 1)) (v : α) (logN : ℤ) :
    trace T rt L (ψ v) logN = mapRes ψ (trace S rt L v logN) := by
  unfold trace
  simp only
  split_ifs with h1 h2 h3 h4
  · rfl
  · rw [← h.scaleInv, traceLoop_sim h _ hG]
    simp only [mapRes, h.add, h.aut _ (hG2 h2.2)]
  · rfl
  · rw [← h.scaleInv, traceLoop_sim h _ hG]
    rfl
  · rfl

end Sim

/-! ## 3. evaluation vectors: a lawful carrier -/

section EV

/-- the order-two map on a slot pair: BGV swaps the two rows, CKKS negates the imaginary part,
    the one-row layout has none. -/
def tauF (t : ℕ) : Layout → ZMod t × ZMod t → ZMod t × ZMod t
  | .bgv, x => (x.2, x.1)
  | .ckks, x => (x.1, -x.2)
  | .single, x => x

theorem tauF_add (t : ℕ) (lay : Layout) (x y : ZMod t × ZMod t) :
    tauF t lay (x + y) = tauF t lay x + tauF t lay y := by
  cases lay <;> simp [tauF, add_comm]

theorem tauF_zero (t : ℕ) (lay : Layout) : tauF t lay 0 = 0 := by
  cases lay <;> simp [tauF]

theorem tauF_tauF (t : ℕ) (lay : Layout) (x : ZMod t × ZMod t) : tauF t lay (tauF t lay x) = x := by
  cases lay <;> simp [tauF]

/-- functions on the residues mod `nthRoot = 2^(e+3)` with `f(-u) = τ(f u)`. -/
def Sym (lay : Layout) (e t : ℕ) : AddSubmonoid (ZMod (2 ^ (e + 3)) → ZMod t × ZMod t) where
  carrier := {f | ∀ u, f (-u) = tauF t lay (f u)}
  add_mem' := by
    intro a b ha hb u
    simp only [Pi.add_apply, ha u, hb u, tauF_add]
  zero_mem' := by
    intro u
    simp only [Pi.zero_apply, tauF_zero]

/-- the carrier of evaluation vectors. -/
abbrev EV (lay : Layout) (e t : ℕ) : Type := ↥(Sym lay e t)

theorem neg_val_mod4 (e : ℕ) (u : ZMod (2 ^ (e + 3))) : (-u).val % 4 = (4 - u.val % 4) % 4 := by
  rw [ZMod.neg_val]
  have hlt := ZMod.val_lt u
  have hM : 2 ^ (e + 3) = 4 * (2 * 2 ^ e) := by ring
  split
  · next h => subst h; simp
  · omega

/-- symmetric extension of a function given on the residues `≡ 1 (mod 4)`. -/
def symm (lay : Layout) (e t : ℕ) (F : ZMod (2 ^ (e + 3)) → ZMod t × ZMod t) :
    ZMod (2 ^ (e + 3)) → ZMod t × ZMod t := fun u =>
  if u.val % 4 = 1 then F u else if u.val % 4 = 3 then tauF t lay (F (-u)) else 0

theorem symm_mem (lay : Layout) (e t : ℕ) (F : ZMod (2 ^ (e + 3)) → ZMod t × ZMod t) :
    symm lay e t F ∈ Sym lay e t := by
  intro u
  have hn := neg_val_mod4 e u
  unfold symm
  by_cases h1 : u.val % 4 = 1
  · have h3 : (-u).val % 4 = 3 := by omega
    rw [if_pos h1, if_neg (by omega), if_pos h3, neg_neg]
  · by_cases h3 : u.val % 4 = 3
    · have h1' : (-u).val % 4 = 1 := by omega
      rw [if_pos h1', if_neg h1, if_pos h3, tauF_tauF]
    · rw [if_neg h1, if_neg h3, if_neg (by omega), if_neg (by omega), tauF_zero]

theorem symm_apply_one (lay : Layout) (e t : ℕ) (F : ZMod (2 ^ (e + 3)) → ZMod t × ZMod t)
    (u : ZMod (2 ^ (e + 3))) (h : u.val % 4 = 1) : symm lay e t F u = F u := by
  unfold symm; rw [if_pos h]

/-- the scalar map of `slotOps.scaleInv` on one entry. -/
def scInt (t c : ℕ) (x : ℤ) : ℤ :=
  if t = 0 then x / (c : ℤ) else (x * ((powMod c (t - 2) t : ℕ) : ℤ)) % (t : ℤ)

def scP (t c : ℕ) (x : ZMod t × ZMod t) : ZMod t × ZMod t :=
  (((scInt t c (x.1.cast : ℤ) : ℤ) : ZMod t), ((scInt t c (x.2.cast : ℤ) : ℤ) : ZMod t))

/-- the operations on evaluation vectors: `aut g f = f(· g)`. -/
def evOps (lay : Layout) (e t : ℕ) : Ops (EV lay e t) where
  add a b := a + b
  aut g f := ⟨fun u => f.1 (u * (g : ZMod (2 ^ (e + 3)))), by
    intro u
    show f.1 (-u * (g : ZMod (2 ^ (e + 3)))) = _
    rw [neg_mul]; exact f.2 _⟩
  scaleInv c f := ⟨symm lay e t (fun u => scP t c (f.1 u)), symm_mem lay e t _⟩

/-- **the evaluation vectors are a lawful carrier** (for every `g`, `h`, no side condition). -/
theorem evOps_lawful (lay : Layout) (e t : ℕ) : Lawful (evOps lay e t) (2 ^ (e + 3)) where
  add_eq _ _ := rfl
  aut_add _ _ _ := rfl
  aut_zero _ := rfl
  aut_one a := by
    apply Subtype.ext; funext u
    simp [evOps]
  aut_mul g h a := by
    apply Subtype.ext; funext u
    simp only [evOps, ZMod.natCast_mod, Nat.cast_mul]
    rw [mul_assoc]

/-! ### reading slots off an evaluation vector -/

def rowOf (e t : ℕ) (f : ZMod (2 ^ (e + 3)) → ZMod t × ZMod t) (sel : ZMod t × ZMod t → ZMod t) :
    List Int :=
  (List.range (2 ^ (e + 1))).map (fun j => ((sel (f ((5 : ZMod (2 ^ (e + 3))) ^ j))).cast : Int))

/-- the slot vector of an evaluation vector: first components at `5^j`, then (two-row layouts)
    second components at `5^j`, `j < N/2`. -/
def toSlots (lay : Layout) (e t : ℕ) (f : EV lay e t) : List Int :=
  if lay = .single then rowOf e t f.1 Prod.fst
  else rowOf e t f.1 Prod.fst ++ rowOf e t f.1 Prod.snd

@[simp] theorem rowOf_length (e t : ℕ) (f) (sel) : (rowOf e t f sel).length = 2 ^ (e + 1) := by
  simp [rowOf]

/-- the Galois elements the algorithms use. -/
def GoodG (lay : Layout) (e : ℕ) (g : ℕ) : Prop :=
  (∃ k : ℤ, g = galEl (2 ^ (e + 3)) k) ∨ (lay ≠ .single ∧ g = 2 ^ (e + 3) - 1)

theorem cast_add_red (t : ℕ) (x y : ZMod t) :
    ((x + y).cast : ℤ) = if t = 0 then (x.cast : ℤ) + y.cast else ((x.cast : ℤ) + y.cast) % (t : ℤ) := by
  have h : ((x + y).cast : ℤ) = ((x.cast : ℤ) + y.cast) % (t : ℤ) := by
    rw [← ZMod.coe_intCast]
    congr 1
    push_cast
    simp
  rw [h]
  split
  · next h0 => subst h0; simp
  · rfl

theorem rowOf_add (e t : ℕ) (f g : ZMod (2 ^ (e + 3)) → ZMod t × ZMod t) (sel : ZMod t × ZMod t → ZMod t)
    (hsel : ∀ x y, sel (x + y) = sel x + sel y) :
    rowOf e t (f + g) sel
      = List.zipWith (fun x y => if t = 0 then x + y else (x + y) % (t : ℤ)) (rowOf e t f sel) (rowOf e t g sel) := by
  unfold rowOf
  rw [List.zipWith_map, List.zipWith_self]
  apply List.map_congr_left
  intro j _
  rw [Pi.add_apply, hsel, cast_add_red]

theorem five_val_mod4 (e j : ℕ) : ((5 : ZMod (2 ^ (e + 3))) ^ j).val % 4 = 1 := by
  have h5 : ((5 : ZMod (2 ^ (e + 3))) ^ j) = ((5 ^ j : ℕ) : ZMod (2 ^ (e + 3))) := by push_cast; rfl
  rw [h5, ZMod.val_natCast, Nat.mod_mod_of_dvd _ ⟨2 * 2 ^ e, by ring⟩, Nat.pow_mod]
  norm_num

theorem five_mul_galEl (e : ℕ) (he : e + 3 ≤ 64) (j : ℕ) (k : ℤ) :
    (5 : ZMod (2 ^ (e + 3))) ^ j * ((galEl (2 ^ (e + 3)) k : ℕ) : ZMod (2 ^ (e + 3)))
      = (5 : ZMod (2 ^ (e + 3))) ^ ((j + kmod e k) % 2 ^ (e + 1)) := by
  have h := congrArg (fun x : (ZMod (2 ^ (e + 3)))ˣ => (x : ZMod (2 ^ (e + 3)))) (five_pow_mul_zpow e j k)
  simp only [Units.val_mul, Units.val_pow_eq_pow_val, val_five] at h
  rw [galEl_cast _ (by omega) he, h, add_kmod]

theorem rowOf_aut_galEl (e t : ℕ) (he : e + 3 ≤ 64) (f : ZMod (2 ^ (e + 3)) → ZMod t × ZMod t)
    (sel : ZMod t × ZMod t → ZMod t) (k : ℤ) :
    rowOf e t (fun u => f (u * ((galEl (2 ^ (e + 3)) k : ℕ) : ZMod (2 ^ (e + 3))))) sel
      = rotL (kmod e k) (rowOf e t f sel) := by
  unfold rowOf
  rw [rotL_map_range]
  apply List.map_congr_left
  intro j _
  dsimp only
  rw [five_mul_galEl e he]

theorem orderTwo_cast' (e : ℕ) : (((2 ^ (e + 3) - 1 : ℕ)) : ZMod (2 ^ (e + 3))) = -1 := by
  have h1 : 1 ≤ 2 ^ (e + 3) := Nat.one_le_two_pow
  rw [Nat.cast_sub h1]
  have := ZMod.natCast_self (2 ^ (e + 3))
  rw [this]; simp

theorem zmod_cast_neg_of_zero (n : ℕ) (hn : n = 0) (x : ZMod n) : ((-x).cast : ℤ) = -(x.cast : ℤ) := by
  have h : (-x) = (((-(x.cast : ℤ)) : ℤ) : ZMod n) := by
    push_cast; simp
  have hz : ((n : ℕ) : ℤ) = 0 := by rw [hn]; rfl
  rw [h, ZMod.coe_intCast, hz]; simp

/-- **`toSlots` is a homomorphism** from evaluation vectors to the executable `slotOps`
    (CKKS layout: plain integers, `t = 0`, as the driver uses it). -/
theorem sim_slots (lay : Layout) (e t : ℕ) (he : e + 3 ≤ 64) (hck : lay = .ckks → t = 0) :
    Sim (evOps lay e t) (slotOps lay (2 ^ (e + 3)) t) (toSlots lay e t) (GoodG lay e) where
  add a b := by
    have h1 := rowOf_add e t a.1 b.1 Prod.fst (fun _ _ => rfl)
    have h2 := rowOf_add e t a.1 b.1 Prod.snd (fun _ _ => rfl)
    show toSlots lay e t (a + b) = List.zipWith _ (toSlots lay e t a) (toSlots lay e t b)
    unfold toSlots
    have hc : (↑(a + b) : ZMod (2 ^ (e + 3)) → ZMod t × ZMod t) = a.1 + b.1 := rfl
    split
    · rw [hc, h1]
    · rw [hc, h1, h2, List.zipWith_append (by simp)]
  aut g hg a := by
    show toSlots lay e t ((evOps lay e t).aut g a) = slotAut lay (2 ^ (e + 3)) g (toSlots lay e t a)
    rcases hg with ⟨k, rfl⟩ | ⟨hns, rfl⟩
    · unfold toSlots
      have h1 := rowOf_aut_galEl e t he a.1 Prod.fst k
      have h2 := rowOf_aut_galEl e t he a.1 Prod.snd k
      by_cases hs : lay = .single
      · rw [if_pos hs, if_pos hs]
        subst hs
        rw [slotAut_galEl_single e he]
        exact h1
      · rw [if_neg hs, if_neg hs, slotAut_galEl_rows lay hs e he k _ _ (by simp)]
        show rowOf e t _ Prod.fst ++ rowOf e t _ Prod.snd = _
        simp only [evOps]
        rw [h1, h2]
    · unfold toSlots
      rw [if_neg hns, if_neg hns]
      have hpt : ∀ j : ℕ, a.1 ((5 : ZMod (2 ^ (e + 3))) ^ j * ((2 ^ (e + 3) - 1 : ℕ) : ZMod (2 ^ (e + 3))))
          = tauF t lay (a.1 ((5 : ZMod (2 ^ (e + 3))) ^ j)) := by
        intro j
        rw [orderTwo_cast', mul_neg, mul_one]
        exact a.2 _
      cases lay with
      | single => exact absurd rfl hns
      | bgv =>
        rw [slotAut_orderTwo_bgv e he _ _ (by simp)]
        simp only [evOps, rowOf, hpt, tauF]
      | ckks =>
        have ht := hck rfl
        rw [slotAut_orderTwo_ckks e he _ _ (by simp)]
        simp only [evOps, rowOf, hpt, tauF, List.map_map]
        congr 1
        apply List.map_congr_left
        intro j _
        exact zmod_cast_neg_of_zero t ht _
  scaleInv c a := by
    show toSlots lay e t ((evOps lay e t).scaleInv c a) = (slotOps lay (2 ^ (e + 3)) t).scaleInv c (toSlots lay e t a)
    have hrow : ∀ (sel : ZMod t × ZMod t → ZMod t), (sel = Prod.fst ∨ sel = Prod.snd) →
        rowOf e t (symm lay e t (fun u => scP t c (a.1 u))) sel
          = (rowOf e t a.1 sel).map (scInt t c) := by
      intro sel hsel
      unfold rowOf
      rw [List.map_map]
      apply List.map_congr_left
      intro j _
      rw [symm_apply_one _ _ _ _ _ (five_val_mod4 e j)]
      have hred : ∀ x : ℤ, (((scInt t c x : ℤ) : ZMod t).cast : ℤ) = scInt t c x := by
        intro x
        rw [ZMod.coe_intCast]
        unfold scInt
        split
        · next h0 => subst h0; simp
        · exact Int.emod_emod_of_dvd _ (dvd_refl _)
      rcases hsel with rfl | rfl
      · exact hred _
      · exact hred _
    have hT : ∀ v : List Int, (slotOps lay (2 ^ (e + 3)) t).scaleInv c v = v.map (scInt t c) := by
      intro v
      simp only [slotOps]
      split
      · next h0 => simp [h0, scInt]
      · next h0 => simp [h0, scInt]
    rw [hT]
    unfold toSlots
    simp only [evOps]
    split
    · exact hrow _ (Or.inl rfl)
    · rw [hrow _ (Or.inl rfl), hrow _ (Or.inr rfl), List.map_append]

/-! ### every well-formed slot vector is the slot vector of an evaluation vector -/

/-- well-formed slot vectors: `N/2` entries per row (one row for `.single`, two otherwise), entries
    reduced modulo `t` when `t ≠ 0`. -/
def SlotVec (lay : Layout) (e t : ℕ) (v : List Int) : Prop :=
  v.length = (if lay = .single then 2 ^ (e + 1) else 2 * 2 ^ (e + 1)) ∧
    (t ≠ 0 → ∀ x ∈ v, 0 ≤ x ∧ x < (t : ℤ))

/-- the evaluation vector with given slots (the discrete logarithm is the model's own). -/
def ofSlots (lay : Layout) (e t : ℕ) (v : List Int) : EV lay e t :=
  ⟨symm lay e t (fun u =>
      (((v.getD ((solveDiscreteLog (2 ^ (e + 3)) u.val).getD 0) 0 : ℤ) : ZMod t),
       ((v.getD (2 ^ (e + 1) + (solveDiscreteLog (2 ^ (e + 3)) u.val).getD 0) 0 : ℤ) : ZMod t))),
    symm_mem lay e t _⟩

theorem five_val (e : ℕ) (he : e + 3 ≤ 64) (j : ℕ) :
    ((5 : ZMod (2 ^ (e + 3))) ^ j).val = galEl (2 ^ (e + 3)) (j : ℤ) := by
  have h := galEl_cast (e + 3) (by omega) he (j : ℤ)
  rw [zpow_natCast, Units.val_pow_eq_pow_val, val_five] at h
  rw [← h, ZMod.val_natCast, Nat.mod_eq_of_lt (galEl_lt' _ (by omega) _)]

theorem dlog_five (e : ℕ) (he : e + 3 ≤ 64) (j : ℕ) (hj : j < 2 ^ (e + 1)) :
    solveDiscreteLog (2 ^ (e + 3)) ((5 : ZMod (2 ^ (e + 3))) ^ j).val = some j := by
  rw [five_val e he, dlog_galEl e he]
  congr 1
  have : ((j : ℤ)) % ((2 ^ (e + 1) : ℕ) : ℤ) = j := Int.emod_eq_of_lt (by omega) (by exact_mod_cast hj)
  rw [this]; simp

theorem cast_intCast_of_valid (t : ℕ) (x : ℤ) (hx : t ≠ 0 → 0 ≤ x ∧ x < (t : ℤ)) :
    (((x : ℤ) : ZMod t).cast : ℤ) = x := by
  rw [ZMod.coe_intCast]
  by_cases h0 : t = 0
  · subst h0; simp
  · obtain ⟨h1, h2⟩ := hx h0
    exact Int.emod_eq_of_lt h1 h2

theorem getD_valid {t : ℕ} {v : List Int} (hv : t ≠ 0 → ∀ x ∈ v, 0 ≤ x ∧ x < (t : ℤ)) (i : ℕ) :
    t ≠ 0 → 0 ≤ v.getD i 0 ∧ v.getD i 0 < (t : ℤ) := by
  intro h0
  by_cases hi : i < v.length
  · have : v.getD i 0 = v[i] := by simp [List.getD_eq_getElem?_getD, hi]
    rw [this]; exact hv h0 _ (List.getElem_mem hi)
  · have : v.getD i 0 = 0 := by simp [List.getD_eq_getElem?_getD, Nat.le_of_not_lt hi]
    rw [this]; exact ⟨le_refl _, by exact_mod_cast Nat.pos_of_ne_zero h0⟩

theorem range_getD (v : List Int) (h : ℕ) (hlen : v.length = h) :
    (List.range h).map (fun j => v.getD j 0) = v := by
  apply List.ext_getElem
  · simp [hlen]
  intro i h1 h2
  simp [List.getD_eq_getElem?_getD, h2]

theorem range_getD_two (v : List Int) (h : ℕ) (hlen : v.length = 2 * h) :
    (List.range h).map (fun j => v.getD j 0) ++ (List.range h).map (fun j => v.getD (h + j) 0) = v := by
  apply List.ext_getElem
  · simp [hlen]; omega
  intro i h1 h2
  rw [List.getElem_append]
  simp only [List.length_map, List.length_range]
  split
  · next hlt => simp [List.getD_eq_getElem?_getD, h2]
  · next hge =>
    have : h + (i - h) = i := by omega
    simp [List.getD_eq_getElem?_getD, this, h2]

theorem toSlots_ofSlots (lay : Layout) (e t : ℕ) (he : e + 3 ≤ 64) (v : List Int)
    (hv : SlotVec lay e t v) : toSlots lay e t (ofSlots lay e t v) = v := by
  obtain ⟨hlen, hval⟩ := hv
  have hfst : rowOf e t (ofSlots lay e t v).1 Prod.fst = (List.range (2 ^ (e + 1))).map (fun j => v.getD j 0) := by
    unfold rowOf
    apply List.map_congr_left
    intro j hj
    have hj' := List.mem_range.mp hj
    simp only [ofSlots]
    rw [symm_apply_one _ _ _ _ _ (five_val_mod4 e j), dlog_five e he j hj']
    exact cast_intCast_of_valid t _ (getD_valid hval j)
  have hsnd : rowOf e t (ofSlots lay e t v).1 Prod.snd
      = (List.range (2 ^ (e + 1))).map (fun j => v.getD (2 ^ (e + 1) + j) 0) := by
    unfold rowOf
    apply List.map_congr_left
    intro j hj
    have hj' := List.mem_range.mp hj
    simp only [ofSlots]
    rw [symm_apply_one _ _ _ _ _ (five_val_mod4 e j), dlog_five e he j hj']
    exact cast_intCast_of_valid t _ (getD_valid hval _)
  unfold toSlots
  split
  · next hs => rw [if_pos hs] at hlen; rw [hfst]; exact range_getD v _ hlen
  · next hs => rw [if_neg hs] at hlen; rw [hfst, hsnd]; exact range_getD_two v _ hlen

theorem slotVec_toSlots (lay : Layout) (e t : ℕ) (f : EV lay e t) : SlotVec lay e t (toSlots lay e t f) := by
  have hrow : ∀ sel, ∀ x ∈ rowOf e t f.1 sel, t ≠ 0 → 0 ≤ x ∧ x < (t : ℤ) := by
    intro sel x hx h0
    unfold rowOf at hx
    obtain ⟨j, _, rfl⟩ := List.mem_map.mp hx
    have : NeZero t := ⟨h0⟩
    have hc : ((sel (f.1 ((5 : ZMod (2 ^ (e + 3))) ^ j))).cast : ℤ)
        = (((sel (f.1 ((5 : ZMod (2 ^ (e + 3))) ^ j))).val : ℕ) : ℤ) := by
      rw [ZMod.cast_eq_val]
    rw [hc]
    exact ⟨Int.natCast_nonneg _, by exact_mod_cast ZMod.val_lt _⟩
  unfold SlotVec toSlots
  split
  · exact ⟨by simp, fun h0 x hx => hrow _ x hx h0⟩
  · refine ⟨by simp; ring, fun h0 x hx => ?_⟩
    rcases List.mem_append.mp hx with h | h
    · exact hrow _ x h h0
    · exact hrow _ x h h0

/-! ## 4. transfer of the `Lawful`-conditional specifications to `slotOps` -/

/-- the zero slot vector. -/
def slotZero (lay : Layout) (e : ℕ) : List Int :=
  List.replicate (if lay = .single then 2 ^ (e + 1) else 2 * 2 ^ (e + 1)) 0

/-- `Σ_{r<n} F r` with the addition of `slotOps` (entry-wise, reduced mod `t` when `t ≠ 0`). -/
def slotSum (lay : Layout) (e t n : ℕ) (F : ℕ → List Int) : List Int :=
  (List.range n).foldl (fun acc r => (slotOps lay (2 ^ (e + 3)) t).add acc (F r)) (slotZero lay e)

theorem toSlots_zero (lay : Layout) (e t : ℕ) : toSlots lay e t 0 = slotZero lay e := by
  have hrow : ∀ sel : ZMod t × ZMod t → ZMod t, sel 0 = 0 →
      rowOf e t (0 : ZMod (2 ^ (e + 3)) → ZMod t × ZMod t) sel = List.replicate (2 ^ (e + 1)) 0 := by
    intro sel hsel
    unfold rowOf
    simp only [Pi.zero_apply, hsel, ZMod.cast_zero]
    apply List.ext_getElem <;> simp
  unfold toSlots slotZero
  have hc : (↑(0 : EV lay e t) : ZMod (2 ^ (e + 3)) → ZMod t × ZMod t) = 0 := rfl
  split
  · rw [hc, hrow _ rfl]
  · rw [hc, hrow _ rfl, hrow _ rfl, ← List.replicate_add]; congr 1; ring

variable (lay : Layout) (e t : ℕ)

theorem toSlots_add (he : e + 3 ≤ 64) (hck : lay = .ckks → t = 0) (a b : EV lay e t) :
    toSlots lay e t (a + b) = (slotOps lay (2 ^ (e + 3)) t).add (toSlots lay e t a) (toSlots lay e t b) :=
  (sim_slots lay e t he hck).add a b

theorem toSlots_sum (he : e + 3 ≤ 64) (hck : lay = .ckks → t = 0) (F : ℕ → EV lay e t) (n : ℕ) :
    toSlots lay e t (∑ r ∈ range n, F r) = slotSum lay e t n (fun r => toSlots lay e t (F r)) := by
  unfold slotSum
  induction n with
  | zero => simp [toSlots_zero]
  | succ n ih =>
    rw [Finset.sum_range_succ, toSlots_add lay e t he hck, ih, List.range_succ, List.foldl_append]
    rfl

theorem toSlots_rot (he : e + 3 ≤ 64) (hck : lay = .ckks → t = 0) (k : ℤ) (a : EV lay e t) :
    toSlots lay e t (rot (evOps lay e t) (2 ^ (e + 3)) k a)
      = slotAut lay (2 ^ (e + 3)) (galEl (2 ^ (e + 3)) k) (toSlots lay e t a) :=
  (sim_slots lay e t he hck).aut _ (Or.inl ⟨k, rfl⟩) a

theorem toSlots_sum_rot (he : e + 3 ≤ 64) (hck : lay = .ckks → t = 0) (ks : ℕ → ℤ) (a : EV lay e t) (n : ℕ) :
    toSlots lay e t (∑ r ∈ range n, rot (evOps lay e t) (2 ^ (e + 3)) (ks r) a)
      = slotSum lay e t n (fun r => slotAut lay (2 ^ (e + 3)) (galEl (2 ^ (e + 3)) (ks r)) (toSlots lay e t a)) := by
  rw [toSlots_sum lay e t he hck]
  congr 1
  funext r
  exact toSlots_rot lay e t he hck _ a

theorem goodG_galEl (k : ℤ) : GoodG lay e (galEl (2 ^ (e + 3)) k) := Or.inl ⟨k, rfl⟩

/-- **`innerSum_spec` for the executable slot vectors**, no `Lawful` hypothesis. -/
theorem innerSum_spec_slots (he : e + 3 ≤ 64) (hck : lay = .ckks → t = 0)
    (v out0 acc0 : List Int) (hv : SlotVec lay e t v) (hout : SlotVec lay e t out0)
    (hacc : SlotVec lay e t acc0) (offset n : ℤ) (hn : 1 ≤ n) (hn63 : n < 9223372036854775808)
    (hoff : offset ≠ 0) :
    (partialTracesSum (slotOps lay (2 ^ (e + 3)) t) (2 ^ (e + 3)) true v out0 acc0 offset n).val?
      = some (slotSum lay e t n.toNat
          (fun r => slotAut lay (2 ^ (e + 3)) (galEl (2 ^ (e + 3)) ((r : ℤ) * offset)) v)) := by
  rw [← toSlots_ofSlots lay e t he v hv, ← toSlots_ofSlots lay e t he out0 hout,
    ← toSlots_ofSlots lay e t he acc0 hacc,
    partialTracesSum_sim (sim_slots lay e t he hck) _ (goodG_galEl lay e),
    mapRes_val (partialTracesSum_spec (evOps_lawful lay e t) (by omega) he _ _ _ offset n hn hn63 hoff),
    toSlots_sum_rot lay e t he hck]

theorem innerFunction_spec_slots (he : e + 3 ≤ 64) (hck : lay = .ckks → t = 0)
    (v out0 acc0 : List Int) (hv : SlotVec lay e t v) (hout : SlotVec lay e t out0)
    (hacc : SlotVec lay e t acc0) (batch n : ℤ) (hn : 1 ≤ n) (hn63 : n < 9223372036854775808) :
    (innerFunction (slotOps lay (2 ^ (e + 3)) t) (slotOps lay (2 ^ (e + 3)) t).add (2 ^ (e + 3))
        v out0 acc0 batch n).val?
      = some (slotSum lay e t n.toNat
          (fun r => slotAut lay (2 ^ (e + 3)) (galEl (2 ^ (e + 3)) ((r : ℤ) * batch)) v)) := by
  rw [← toSlots_ofSlots lay e t he v hv, ← toSlots_ofSlots lay e t he out0 hout,
    ← toSlots_ofSlots lay e t he acc0 hacc,
    innerFunction_sim (sim_slots lay e t he hck) _ (goodG_galEl lay e),
    mapRes_val (innerFunction_add_spec (evOps_lawful lay e t) (by omega) he _ _ _ batch n hn hn63),
    toSlots_sum_rot lay e t he hck]

theorem replicate_spec_slots (he : e + 3 ≤ 64) (hck : lay = .ckks → t = 0)
    (v out0 acc0 : List Int) (hv : SlotVec lay e t v) (hout : SlotVec lay e t out0)
    (hacc : SlotVec lay e t acc0) (batch n : ℤ) (hn : 1 ≤ n) (hb : batch ≠ 0)
    (hsmall : n * |batch| < 9223372036854775808) :
    (replicate (slotOps lay (2 ^ (e + 3)) t) (2 ^ (e + 3)) true v out0 acc0 batch n).val?
      = some (slotSum lay e t n.toNat
          (fun r => slotAut lay (2 ^ (e + 3)) (galEl (2 ^ (e + 3)) (-((r : ℤ) * batch))) v)) := by
  rw [← toSlots_ofSlots lay e t he v hv, ← toSlots_ofSlots lay e t he out0 hout,
    ← toSlots_ofSlots lay e t he acc0 hacc,
    replicate_sim (sim_slots lay e t he hck) _ (goodG_galEl lay e),
    mapRes_val (Proofs.InnerSum.replicate_spec (evOps_lawful lay e t) (by omega) he _ _ _ batch n hn hb hsmall),
    toSlots_sum_rot lay e t he hck]

theorem innerSumCKKS_spec_slots (he : e + 3 ≤ 64) (hck : lay = .ckks → t = 0) (slots : ℕ)
    (v out0 acc0 : List Int) (hv : SlotVec lay e t v) (hout : SlotVec lay e t out0)
    (hacc : SlotVec lay e t acc0) (batch n : ℤ) (hn : 0 < n) (hb : 0 < batch)
    (hnb : n * batch < 9223372036854775808) :
    ∀ y, (innerSumCKKS (slotOps lay (2 ^ (e + 3)) t) (2 ^ (e + 3)) slots true v out0 acc0 batch n).val? = some y →
      y = slotSum lay e t n.toNat
          (fun r => slotAut lay (2 ^ (e + 3)) (galEl (2 ^ (e + 3)) ((r : ℤ) * batch)) v) := by
  intro y
  rw [← toSlots_ofSlots lay e t he v hv, ← toSlots_ofSlots lay e t he out0 hout,
    ← toSlots_ofSlots lay e t he acc0 hacc,
    innerSumCKKS_sim (sim_slots lay e t he hck) _ (goodG_galEl lay e), mapRes_val_iff]
  rintro ⟨x, hx, rfl⟩
  rw [Proofs.InnerSum.innerSumCKKS_spec (evOps_lawful lay e t) (by omega) he slots _ _ _ batch n hn hb hnb x hx,
    toSlots_sum_rot lay e t he hck]

/-- `bgv.Evaluator.InnerSum` on two-row slot vectors. -/
theorem innerSumBGV_spec_slots (he : e + 3 ≤ 64) (hlay : lay ≠ .single) (hck : lay = .ckks → t = 0)
    (slots : ℕ) (v out0 acc0 : List Int) (hv : SlotVec lay e t v) (hout : SlotVec lay e t out0)
    (hacc : SlotVec lay e t acc0) (batch n : ℤ) (hn : 0 < n) (hb : 0 < batch)
    (hnb : n * batch < 9223372036854775808) :
    ∀ y, (innerSumBGV (slotOps lay (2 ^ (e + 3)) t) (2 ^ (e + 3)) slots true v out0 acc0 batch n).val? = some y →
      y = if n * batch = slots ∧ n ≠ 1 then
            (let u := slotSum lay e t (n / 2).toNat
                (fun r => slotAut lay (2 ^ (e + 3)) (galEl (2 ^ (e + 3)) ((r : ℤ) * batch)) v)
             (slotOps lay (2 ^ (e + 3)) t).add u (slotAut lay (2 ^ (e + 3)) (2 ^ (e + 3) - 1) u))
          else slotSum lay e t n.toNat
            (fun r => slotAut lay (2 ^ (e + 3)) (galEl (2 ^ (e + 3)) ((r : ℤ) * batch)) v) := by
  intro y
  have hG2 : GoodG lay e (2 ^ (e + 3) - 1) := Or.inr ⟨hlay, rfl⟩
  rw [← toSlots_ofSlots lay e t he v hv, ← toSlots_ofSlots lay e t he out0 hout,
    ← toSlots_ofSlots lay e t he acc0 hacc,
    innerSumBGV_sim (sim_slots lay e t he hck) _ (goodG_galEl lay e) hG2, mapRes_val_iff]
  rintro ⟨x, hx, rfl⟩
  rw [Proofs.InnerSum.innerSumBGV_spec (evOps_lawful lay e t) (by omega) he slots _ _ _ batch n hn hb hnb x hx]
  split
  · simp only
    rw [toSlots_add lay e t he hck, (sim_slots lay e t he hck).aut _ hG2, toSlots_sum_rot lay e t he hck]
    rfl
  · rw [toSlots_sum_rot lay e t he hck]

/-- `Rotate` / `RotateColumns` on slot vectors: value and key request. -/
theorem rotate_slots_spec (v : List Int) (k : ℤ) :
    rotate (slotOps lay (2 ^ (e + 3)) t) (2 ^ (e + 3)) v k
      = .ok (slotAut lay (2 ^ (e + 3)) (galEl (2 ^ (e + 3)) k) v)
            (request false (galEl (2 ^ (e + 3)) k) []) := rfl

/-- `Conjugate` / `RotateRows` on slot vectors. -/
theorem conjugate_slots_spec (v : List Int) :
    conjugate (slotOps lay (2 ^ (e + 3)) t) .standard (2 ^ (e + 3)) v
      = .ok (slotAut lay (2 ^ (e + 3)) (2 ^ (e + 3) - 1) v) (request false (2 ^ (e + 3) - 1) []) := rfl

/-- **`trace_spec` (standard ring of degree `2^(e+2)`, `0 < logN < e+1`) on slot vectors.** -/
theorem trace_spec_standard_slots (he : e + 3 ≤ 63) (hlay : lay ≠ .single) (hck : lay = .ckks → t = 0)
    (v : List Int) (hv : SlotVec lay e t v) (logN : ℕ) (h0 : 0 < logN) (hlt : logN + 1 < e + 2) :
    (trace (slotOps lay (2 ^ (e + 3)) t) .standard (e + 2) v (logN : ℤ)).val?
      = some (slotSum lay e t (2 ^ (e + 2 - 1 - logN))
          (fun j => slotAut lay (2 ^ (e + 3)) (galEl (2 ^ (e + 3)) ((j : ℤ) * ((2 ^ logN : ℕ) : ℤ)))
            ((slotOps lay (2 ^ (e + 3)) t).scaleInv (2 ^ (e + 2 - 1 - logN)) v))) := by
  have hsim := sim_slots lay e t (by omega) hck
  have hG2 : GoodG lay e (2 ^ (e + 3) - 1) := Or.inr ⟨hlay, rfl⟩
  rw [← toSlots_ofSlots lay e t (by omega) v hv,
    trace_sim hsim .standard (e + 2) (goodG_galEl lay e) (fun _ => hG2),
    mapRes_val (trace_spec_pos (e + 2) (evOps_lawful lay e t) (by omega) _ logN h0 hlt),
    toSlots_sum_rot lay e t (by omega) hck, hsim.scaleInv]

/-- **`trace_spec` (conjugate-invariant ring of degree `2^(e+1)`, `nthRoot = 4N`) on slot vectors.** -/
theorem trace_spec_ci_slots (he : e + 3 ≤ 64) (hck : lay = .ckks → t = 0)
    (v : List Int) (hv : SlotVec lay e t v) (logN : ℕ) (hlt : logN < e + 1) :
    (trace (slotOps lay (2 ^ (e + 3)) t) .conjugateInvariant (e + 1) v (logN : ℤ)).val?
      = some (slotSum lay e t (2 ^ (e + 1 - logN))
          (fun j => slotAut lay (2 ^ (e + 3)) (galEl (2 ^ (e + 3)) ((j : ℤ) * ((2 ^ logN : ℕ) : ℤ)))
            ((slotOps lay (2 ^ (e + 3)) t).scaleInv (2 ^ (e + 1 - logN)) v))) := by
  have hsim := sim_slots lay e t he hck
  rw [← toSlots_ofSlots lay e t he v hv,
    trace_sim hsim .conjugateInvariant (e + 1) (goodG_galEl lay e) (fun h => by cases h),
    mapRes_val (Proofs.InnerSum.trace_spec_ci (e + 1) (evOps_lawful lay e t) (by omega) _ logN hlt),
    toSlots_sum_rot lay e t he hck, hsim.scaleInv]

/-- **`trace_spec`, `logN = 0` (standard ring)**: all rotations, then the order-two element. -/
theorem trace_spec_zero_standard_slots (he : e + 3 ≤ 63) (hlay : lay ≠ .single)
    (hck : lay = .ckks → t = 0) (v : List Int) (hv : SlotVec lay e t v) :
    (trace (slotOps lay (2 ^ (e + 3)) t) .standard (e + 2) v 0).val?
      = some (let u := slotSum lay e t (2 ^ (e + 2 - 1))
                (fun j => slotAut lay (2 ^ (e + 3)) (galEl (2 ^ (e + 3)) ((j : ℤ) * ((2 ^ 0 : ℕ) : ℤ)))
                  ((slotOps lay (2 ^ (e + 3)) t).scaleInv (2 ^ (e + 2)) v))
              (slotOps lay (2 ^ (e + 3)) t).add u (slotAut lay (2 ^ (e + 3)) (2 ^ (e + 3) - 1) u)) := by
  have hsim := sim_slots lay e t (by omega) hck
  have hG2 : GoodG lay e (2 ^ (e + 3) - 1) := Or.inr ⟨hlay, rfl⟩
  rw [← toSlots_ofSlots lay e t (by omega) v hv,
    trace_sim hsim .standard (e + 2) (goodG_galEl lay e) (fun _ => hG2),
    mapRes_val (Proofs.InnerSum.trace_spec_zero (e + 2) (evOps_lawful lay e t) (by omega) (by omega) _)]
  simp only
  rw [toSlots_add lay e t (by omega) hck, hsim.aut _ hG2, toSlots_sum_rot lay e t (by omega) hck,
    hsim.scaleInv]
  rfl

/-! ### explicit form of the slot-level sums -/

/-- reduction of one entry: identity for `t = 0`, `% t` otherwise. -/
def red (t : ℕ) (x : ℤ) : ℤ := if t = 0 then x else x % (t : ℤ)

theorem slotLen_pos : 0 < (if lay = .single then 2 ^ (e + 1) else 2 * 2 ^ (e + 1)) := by
  split <;> positivity

theorem slotOps_add_length (a b : List Int) :
    ((slotOps lay (2 ^ (e + 3)) t).add a b).length = min a.length b.length := by
  simp [slotOps]

theorem slotOps_add_getD (a b : List Int) (i : ℕ) (ha : i < a.length) (hb : i < b.length) :
    ((slotOps lay (2 ^ (e + 3)) t).add a b).getD i 0
      = if t = 0 then a.getD i 0 + b.getD i 0 else (a.getD i 0 + b.getD i 0) % (t : ℤ) := by
  simp [slotOps, List.getD_eq_getElem?_getD, ha, hb]

/-- entry `i` of `slotSum n F` is `Σ_{r<n} (F r)[i]`, reduced mod `t`. -/
theorem slotSum_spec (n : ℕ) (F : ℕ → List Int)
    (hF : ∀ r < n, (F r).length = (if lay = .single then 2 ^ (e + 1) else 2 * 2 ^ (e + 1))) :
    (slotSum lay e t n F).length = (if lay = .single then 2 ^ (e + 1) else 2 * 2 ^ (e + 1)) ∧
    ∀ i, i < (if lay = .single then 2 ^ (e + 1) else 2 * 2 ^ (e + 1)) →
      (slotSum lay e t n F).getD i 0 = red t (∑ r ∈ range n, (F r).getD i 0) := by
  induction n with
  | zero =>
    refine ⟨by simp [slotSum, slotZero], fun i hi => ?_⟩
    simp [slotSum, slotZero, red, List.getD_eq_getElem?_getD, hi]
  | succ n ih =>
    obtain ⟨hl, hg⟩ := ih (fun r hr => hF r (by omega))
    have hstep : slotSum lay e t (n + 1) F
        = (slotOps lay (2 ^ (e + 3)) t).add (slotSum lay e t n F) (F n) := by
      unfold slotSum; rw [List.range_succ, List.foldl_append]; rfl
    have hFn := hF n (by omega)
    refine ⟨by rw [hstep, slotOps_add_length, hl, hFn]; simp, fun i hi => ?_⟩
    rw [hstep, slotOps_add_getD lay e t _ _ i (by rw [hl]; exact hi) (by rw [hFn]; exact hi), hg i hi,
      Finset.sum_range_succ]
    unfold red
    split
    · rfl
    · rw [Int.emod_add_emod]

/-- `slotAut` by a rotation on a well-formed two-row vector, explicitly. -/
theorem slotAut_galEl_slotVec (he : e + 3 ≤ 64) (hlay : lay ≠ .single) (v : List Int)
    (hv : SlotVec lay e t v) (k : ℤ) :
    slotAut lay (2 ^ (e + 3)) (galEl (2 ^ (e + 3)) k) v
      = rotL (kmod e k) (v.take (2 ^ (e + 1))) ++ rotL (kmod e k) (v.drop (2 ^ (e + 1))) := by
  have hlen := hv.1
  rw [if_neg hlay] at hlen
  conv_lhs => rw [← List.take_append_drop (2 ^ (e + 1)) v]
  exact slotAut_galEl_rows lay hlay e he k _ _ (by simp [hlen]; omega)

theorem slotAut_length (he : e + 3 ≤ 64) (v : List Int) (k : ℤ) (hv : SlotVec lay e t v) :
    (slotAut lay (2 ^ (e + 3)) (galEl (2 ^ (e + 3)) k) v).length = v.length := by
  by_cases hs : lay = .single
  · subst hs
    rw [slotAut_galEl_single e he, rotL_length]
  · rw [slotAut_galEl_slotVec lay e t he hs v hv, List.length_append, rotL_length, rotL_length]
    simp
    have := hv.1
    rw [if_neg hs] at this
    omega

/-! ### the laws of `Lawful`, directly on well-formed slot vectors -/

theorem exists_ev (he : e + 3 ≤ 64) (v : List Int) (hv : SlotVec lay e t v) :
    ∃ f : EV lay e t, toSlots lay e t f = v := ⟨ofSlots lay e t v, toSlots_ofSlots lay e t he v hv⟩

/-- closure: the operations of `slotOps` keep slot vectors well formed. -/
theorem slotVec_add (he : e + 3 ≤ 64) (hck : lay = .ckks → t = 0) (v w : List Int)
    (hv : SlotVec lay e t v) (hw : SlotVec lay e t w) :
    SlotVec lay e t ((slotOps lay (2 ^ (e + 3)) t).add v w) := by
  obtain ⟨f, rfl⟩ := exists_ev lay e t he v hv
  obtain ⟨g, rfl⟩ := exists_ev lay e t he w hw
  rw [← toSlots_add lay e t he hck]; exact slotVec_toSlots lay e t _

theorem slotVec_aut (he : e + 3 ≤ 64) (hck : lay = .ckks → t = 0) (g : ℕ) (hg : GoodG lay e g)
    (v : List Int) (hv : SlotVec lay e t v) : SlotVec lay e t (slotAut lay (2 ^ (e + 3)) g v) := by
  obtain ⟨f, rfl⟩ := exists_ev lay e t he v hv
  have := (sim_slots lay e t he hck).aut g hg f
  change _ = slotAut lay (2 ^ (e + 3)) g _ at this
  rw [← this]; exact slotVec_toSlots lay e t _

/-- `rot a ∘ rot b = rot (a+b)` on slot vectors. -/
theorem slotOps_rot_add (he : e + 3 ≤ 64) (hck : lay = .ckks → t = 0) (a b : ℤ) (v : List Int)
    (hv : SlotVec lay e t v) :
    slotAut lay (2 ^ (e + 3)) (galEl (2 ^ (e + 3)) a) (slotAut lay (2 ^ (e + 3)) (galEl (2 ^ (e + 3)) b) v)
      = slotAut lay (2 ^ (e + 3)) (galEl (2 ^ (e + 3)) (a + b)) v := by
  obtain ⟨f, rfl⟩ := exists_ev lay e t he v hv
  rw [← toSlots_rot lay e t he hck, ← toSlots_rot lay e t he hck, ← toSlots_rot lay e t he hck,
    rot_add (evOps_lawful lay e t) (by omega) he]

/-- `rot 0 = id`. -/
theorem slotOps_rot_zero (he : e + 3 ≤ 64) (hck : lay = .ckks → t = 0) (v : List Int)
    (hv : SlotVec lay e t v) :
    slotAut lay (2 ^ (e + 3)) (galEl (2 ^ (e + 3)) 0) v = v := by
  obtain ⟨f, rfl⟩ := exists_ev lay e t he v hv
  rw [← toSlots_rot lay e t he hck, rot_zero (evOps_lawful lay e t) (by omega) he]

/-- every Galois element the algorithms use acts additively. -/
theorem slotOps_aut_add (he : e + 3 ≤ 64) (hck : lay = .ckks → t = 0) (g : ℕ) (hg : GoodG lay e g)
    (v w : List Int) (hv : SlotVec lay e t v) (hw : SlotVec lay e t w) :
    slotAut lay (2 ^ (e + 3)) g ((slotOps lay (2 ^ (e + 3)) t).add v w)
      = (slotOps lay (2 ^ (e + 3)) t).add (slotAut lay (2 ^ (e + 3)) g v) (slotAut lay (2 ^ (e + 3)) g w) := by
  obtain ⟨f, rfl⟩ := exists_ev lay e t he v hv
  obtain ⟨f', rfl⟩ := exists_ev lay e t he w hw
  have hs := sim_slots lay e t he hck
  have h1 := hs.aut g hg
  change ∀ a, _ = slotAut lay (2 ^ (e + 3)) g _ at h1
  rw [← toSlots_add lay e t he hck, ← h1, ← h1, ← h1, ← toSlots_add lay e t he hck]
  rfl

/-- the order-two element is an involution commuting with the rotations (two-row layouts). -/
theorem slotOps_orderTwo (he : e + 3 ≤ 64) (hlay : lay ≠ .single) (hck : lay = .ckks → t = 0)
    (v : List Int) (hv : SlotVec lay e t v) (k : ℤ) :
    slotAut lay (2 ^ (e + 3)) (2 ^ (e + 3) - 1) (slotAut lay (2 ^ (e + 3)) (2 ^ (e + 3) - 1) v) = v
    ∧ slotAut lay (2 ^ (e + 3)) (2 ^ (e + 3) - 1) (slotAut lay (2 ^ (e + 3)) (galEl (2 ^ (e + 3)) k) v)
        = slotAut lay (2 ^ (e + 3)) (galEl (2 ^ (e + 3)) k) (slotAut lay (2 ^ (e + 3)) (2 ^ (e + 3) - 1) v) := by
  obtain ⟨f, rfl⟩ := exists_ev lay e t he v hv
  have hs := sim_slots lay e t he hck
  have hL := evOps_lawful lay e t
  have hG2 : GoodG lay e (2 ^ (e + 3) - 1) := Or.inr ⟨hlay, rfl⟩
  have h2 := hs.aut _ hG2
  have h1 := fun k => hs.aut _ (goodG_galEl lay e k)
  change ∀ a, _ = slotAut lay (2 ^ (e + 3)) _ _ at h2
  change ∀ k a, _ = slotAut lay (2 ^ (e + 3)) _ _ at h1
  have hM : 2 ≤ 2 ^ (e + 3) := by
    have : 2 ^ 1 ≤ 2 ^ (e + 3) := Nat.pow_le_pow_right (by norm_num) (by omega)
    simpa using this
  constructor
  · rw [← h2, ← h2, hL.aut_mul, orderTwo_sq _ hM, hL.aut_one]
  · rw [← h1, ← h2, ← h2, ← h1, hL.aut_mul, hL.aut_mul, Nat.mul_comm]

end EV

end Lattigo.Proofs.SlotLawful
