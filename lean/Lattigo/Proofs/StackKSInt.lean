/-
  Stack closure C02 → C03/C04/C20, part 1: INTEGER level.

  The three scheme-level models divide by `P` with their own executable centred remainder:
    * `KS.centerHalf` (C04: `reconY` + IEEE index `floatIndex` + `centerHalfV`, the HPS formula as coded),
    * `RLWE.RQ.modDown` (C03: `RPoly.crt` of the shifted residues, minus `⌊P/2⌋`),
    * `RGSW.modDown`   (C20: `(RPoly.crt + ⌊P/2⌋) mod P − ⌊P/2⌋`).
  None of them is the limb-level twin `BasisExt.modDownQPtoQ` of C02 (Montgomery words); they are INTEGER-level
  functions, and what C02 proves at the integer level (`BasisExt.hps_sum_eq`: `Σ y_i·(M/m_i) = x + v·M`,
  `centeredRep`, `centeredRep_emod`, `centeredRep_bounds`) is exactly what is needed.  Here:

    * `prod_eq_prodN`, `foldl_sum_eq`                   — the models' folds are C02's `prodN`, `hpsSum`;
    * `floatIndex_eq_fidx`                               — the model's IEEE index IS C02's `BasisExt.fidx`;
    * `reconY_ok`                                        — the model's `y_i` meet the hypothesis of `hps_sum_eq`
                                                           (from `modInv_spec`, pairwise coprime moduli `≥ 2`);
    * `centerHalfV_eq`    : `centerHalfV v … = centeredRep M X + (hpsV − v)·M`  (EVERY index `v`);
    * `centerHalf_emod`   : `centerHalf ms rs ≡ X (mod m_k)`                    (EVERY value of the IEEE index);
    * `centerHalf_exact`  : `= centeredRep M X` under the NAMED hypothesis `FloatExact` (`floatIndex = hpsV`);
    * `crt_eq`            : `RPoly.crt ms rs = X` for the residues of `X < M`;
    * `crt_exists`        : every residue vector is the residue vector of some `X < M`.
-/
import Lattigo.Proofs.BasisExtLimb
import Lattigo.Proofs.RPolyRing
import Lattigo.Model.KeySwitch

namespace Lattigo.StackKS
open Lattigo Lattigo.Scaling Lattigo.BasisExt

/-! ## folds -/

theorem foldl_mul_eq (l : List ℕ) : ∀ a : ℕ, l.foldl (· * ·) a = a * prodN l := by
  induction l with
  | nil => intro a; simp [prodN]
  | cons q l ih => intro a; simp only [List.foldl_cons, ih, prodN]; rw [Nat.mul_assoc]

/-- `RPoly.prod` (left fold) is C02's `prodN` -/
theorem prod_eq_prodN (l : List ℕ) : RPoly.prod l = prodN l := by
  unfold RPoly.prod; rw [foldl_mul_eq, Nat.one_mul]

/-- the accumulation loop of `centerHalfV` is C02's `sumQ` (`hpsSum` with the modulus a parameter) -/
theorem foldl_sum_eq (M : ℕ) : ∀ (ms ys : List ℕ) (a : ℕ),
    (ms.zip ys).foldl (fun acc (my : ℕ × ℕ) => acc + my.2 * (M / my.1)) a = a + sumQ M ms ys
  | [], _, a => by simp
  | _ :: _, [], a => by simp
  | m :: ms, y :: ys, a => by
    simp only [List.zip_cons_cons, List.foldl_cons, sumQ_cons]
    rw [foldl_sum_eq M ms ys]; omega

/-- swapping the two zipped lists of a left fold -/
theorem foldl_zip_swap {α β γ : Type} (g : γ → α → β → γ) : ∀ (l1 : List α) (l2 : List β) (a : γ),
    (l1.zip l2).foldl (fun acc p => g acc p.1 p.2) a = (l2.zip l1).foldl (fun acc p => g acc p.2 p.1) a
  | [], l2, a => by cases l2 <;> simp only [List.zip_nil_left, List.zip_nil_right, List.foldl_nil]
  | _ :: _, [], a => by simp only [List.zip_nil_left, List.zip_nil_right, List.foldl_nil]
  | x :: l1, y :: l2, a => by
    simp only [List.zip_cons_cons, List.foldl_cons]
    exact foldl_zip_swap g l1 l2 _

/-- **the model's IEEE index is C02's `fidx`** (same operations in the same order; the two folds only zip their
arguments in opposite order) -/
theorem floatIndex_eq_fidx (ms ys : List ℕ) : KS.floatIndex ms ys = fidx ms ys :=
  congrArg (fun f : Float => f.toUInt64.toNat)
    (foldl_zip_swap (fun (acc : Float) (m y : ℕ) => acc + toF y / toF m) ms ys _)

/-- **THE NAMED IEEE HYPOTHESIS** (the one of `Props/C02`: `fidx … = hpsV …`, see `floatExact_iff_fidx`): the
correction index the code computes in IEEE double arithmetic is the exact `v = ⌊Σ y_i/m_i⌋`. -/
def FloatExact (ms ys : List ℕ) : Prop := KS.floatIndex ms ys = hpsV ms ys

theorem floatExact_iff_fidx (ms ys : List ℕ) : FloatExact ms ys ↔ fidx ms ys = hpsV ms ys := by
  unfold FloatExact; rw [floatIndex_eq_fidx]

/-! ## coprimality of `M / m` and `m` -/

theorem prodN_div_mem : ∀ (l : List ℕ) (m : ℕ), l.Pairwise Nat.Coprime → (∀ q ∈ l, 2 ≤ q) → m ∈ l →
    Nat.Coprime (prodN l / m) m
  | [], _, _, _, h => by simp at h
  | a :: l, m, hc, hge, hm => by
    rcases List.pairwise_cons.mp hc with ⟨hca, hcl⟩
    have ha : 2 ≤ a := hge a (by simp)
    by_cases hma : m = a
    · subst hma
      have : prodN (m :: l) / m = prodN l := by
        show m * prodN l / m = prodN l
        exact Nat.mul_div_cancel_left _ (by omega)
      rw [this]
      exact (coprime_prodN (fun b hb => hca b hb)).symm
    · have hml : m ∈ l := by
        rcases List.mem_cons.mp hm with h | h
        · exact absurd h hma
        · exact h
      have hm2 : 2 ≤ m := hge m hm
      obtain ⟨d, hd⟩ := dvd_prodN l m hml
      have e1 : prodN (a :: l) / m = a * (prodN l / m) := by
        show a * prodN l / m = a * (prodN l / m)
        rw [hd, Nat.mul_div_cancel_left _ (by omega), ← Nat.mul_assoc, Nat.mul_comm a m, Nat.mul_assoc,
          Nat.mul_div_cancel_left _ (by omega)]
      rw [e1]
      exact Nat.Coprime.mul_left (hca m hml)
        (prodN_div_mem l m hcl (fun q hq => hge q (by simp [hq])) hml)

theorem forall₂_imp_mem {α β : Type} {R S : α → β → Prop} : ∀ {l : List α} {rs : List β},
    List.Forall₂ R l rs → (∀ m ∈ l, ∀ r, R m r → S m r) → List.Forall₂ S l rs
  | _, _, List.Forall₂.nil, _ => List.Forall₂.nil
  | _, _, List.Forall₂.cons h t, hi =>
    List.Forall₂.cons (hi _ (by simp) _ h) (forall₂_imp_mem t (fun m hm r hr => hi m (by simp [hm]) r hr))

/-! ## the `y_i` of the model -/

/-- `reconY` with the modulus a parameter (so that induction on the list is possible) -/
def reconYQ (M h : ℕ) (ms rs : List ℕ) : List ℕ :=
  (ms.zip rs).map fun (mr : ℕ × ℕ) => (mr.2 + h) % mr.1 * RPoly.modInv ((M / mr.1) % mr.1) mr.1 % mr.1

theorem reconY_eq (ms rs : List ℕ) (h : ℕ) : KS.reconY ms rs h = reconYQ (prodN ms) h ms rs := by
  unfold KS.reconY reconYQ; rw [prod_eq_prodN]

theorem reconYQ_ok (M h z : ℕ) : ∀ (l rs : List ℕ),
    (∀ m ∈ l, 2 ≤ m ∧ Nat.Coprime (M / m) m) →
    List.Forall₂ (fun m r => (r + h) % m = z % m) l rs →
    List.Forall₂ (fun m y => y < m ∧ (y * (M / m)) % m = z % m) l (reconYQ M h l rs)
  | [], _, _, h2 => by cases h2; exact List.Forall₂.nil
  | m :: l, [], _, h2 => by cases h2
  | m :: l, r :: rs, h1, h2 => by
    rcases List.forall₂_cons.mp h2 with ⟨hr, hrest⟩
    obtain ⟨hm2, hcop⟩ := h1 m (by simp)
    have hm : 0 < m := by omega
    refine List.Forall₂.cons ⟨Nat.mod_lt _ hm, ?_⟩
      (reconYQ_ok M h z l rs (fun a ha => h1 a (by simp [ha])) hrest)
    have hinv : ((M / m) % m * RPoly.modInv ((M / m) % m) m) % m = 1 :=
      RPolyRing.modInv_spec _ _ hm2 (by
        rw [Nat.Coprime, ← Nat.gcd_rec]; exact Nat.Coprime.symm hcop)
    show ((r + h) % m * RPoly.modInv ((M / m) % m) m % m * (M / m)) % m = z % m
    generalize RPoly.modInv ((M / m) % m) m = c at hinv
    generalize M / m = s at hinv
    have h2' : (c * s) % m = 1 := by
      rw [Nat.mod_mul_mod] at hinv
      rw [Nat.mul_comm]; exact hinv
    calc ((r + h) % m * c % m * s) % m = ((r + h) % m * (c * s)) % m := by
            rw [Nat.mod_mul_mod, Nat.mul_assoc]
      _ = ((r + h) % m % m * ((c * s) % m)) % m := by rw [← Nat.mul_mod]
      _ = z % m := by rw [h2', Nat.mod_mod, Nat.mul_one, Nat.mod_mod, hr]

/-- residues `rs` of `X`, shifted by `h`: the model's `y_i` meet the hypothesis of C02's `hps_sum_eq` for
`x' = (X + h) mod M` -/
theorem reconY_ok (ms rs : List ℕ) (X h : ℕ) (hc : ms.Pairwise Nat.Coprime) (hge : ∀ m ∈ ms, 2 ≤ m)
    (hres : List.Forall₂ (fun m r => r % m = X % m) ms rs) :
    List.Forall₂ (fun m y => y < m ∧ (y * qStar ms m) % m = ((X + h) % prodN ms) % m) ms
      (KS.reconY ms rs h) := by
  rw [reconY_eq]
  apply reconYQ_ok (prodN ms) h ((X + h) % prodN ms) ms rs
  · intro m hm; exact ⟨hge m hm, prodN_div_mem ms m hc hge hm⟩
  · have hall : ∀ m ∈ ms, ∀ r, r % m = X % m → (r + h) % m = ((X + h) % prodN ms) % m := by
      intro m hm r hr
      rw [Nat.mod_mod_of_dvd _ (dvd_prodN ms m hm), Nat.add_mod, hr, ← Nat.add_mod]
    exact forall₂_imp_mem hres hall

/-! ## the centred lift of the model (`KS.centerHalf`) -/

theorem foldl_sum_int (M : ℕ) : ∀ (ms ys : List ℕ) (a : ℕ),
    (ms.zip ys).foldl (fun (acc : ℤ) (my : ℕ × ℕ) => acc + (my.2 : ℤ) * ((M : ℤ) / (my.1 : ℤ))) (a : ℤ)
      = ((a + sumQ M ms ys : ℕ) : ℤ)
  | [], _, a => by simp
  | _ :: _, [], a => by simp
  | m :: ms, y :: ys, a => by
    simp only [List.zip_cons_cons, List.foldl_cons, sumQ_cons]
    have e : (a : ℤ) + (y : ℤ) * ((M : ℤ) / (m : ℤ)) = ((a + y * (M / m) : ℕ) : ℤ) := by
      push_cast; rfl
    rw [e, foldl_sum_int M ms ys, Nat.add_assoc]

theorem centerHalfV_unfold (v : ℕ) (ms ys : List ℕ) :
    KS.centerHalfV v ms ys
      = (hpsSum ms ys : ℤ) - ((v * prodN ms : ℕ) : ℤ) - ((prodN ms / 2 : ℕ) : ℤ) := by
  have h := foldl_sum_int (prodN ms) ms ys 0
  rw [Nat.zero_add] at h
  unfold KS.centerHalfV
  simp only [prod_eq_prodN]
  rw [hpsSum_eq_sumQ, ← h]
  rfl

theorem pos_of_ge2 {ms : List ℕ} (hge : ∀ m ∈ ms, 2 ≤ m) : ∀ m ∈ ms, 0 < m := fun m hm => by
  have := hge m hm; omega

/-- **the HPS formula as coded, for EVERY correction index `v`**: with `rs` the residues of `X < M`,
`centerHalfV v ms (reconY ms rs ⌊M/2⌋) = centeredRep M X + (hpsV − v)·M` — the centred representative plus
`δ = hpsV − v` multiples of `M` (the form of C02's `modUp_limbs`).  From C02's `hps_sum_eq`. -/
theorem centerHalfV_eq (ms rs : List ℕ) (X v : ℕ) (hc : ms.Pairwise Nat.Coprime) (hge : ∀ m ∈ ms, 2 ≤ m)
    (hres : List.Forall₂ (fun m r => r % m = X % m) ms rs) :
    KS.centerHalfV v ms (KS.reconY ms rs (prodN ms / 2))
      = centeredRep (prodN ms) X
        + ((hpsV ms (KS.reconY ms rs (prodN ms / 2)) : ℤ) - (v : ℤ)) * (prodN ms : ℤ) := by
  have hpos := pos_of_ge2 hge
  have hM : 0 < prodN ms := BasisExt.prodN_pos ms hpos
  have hs := hps_sum_eq ms (KS.reconY ms rs (prodN ms / 2)) ((X + prodN ms / 2) % prodN ms) hc hpos
    (Nat.mod_lt _ hM) (reconY_ok ms rs X (prodN ms / 2) hc hge hres)
  rw [centerHalfV_unfold, hs]
  unfold centeredRep
  push_cast
  ring

theorem centerHalf_unfold (ms rs : List ℕ) :
    KS.centerHalf ms rs
      = KS.centerHalfV (KS.floatIndex ms (KS.reconY ms rs (prodN ms / 2))) ms
          (KS.reconY ms rs (prodN ms / 2)) := by
  unfold KS.centerHalf
  simp only [prod_eq_prodN]

/-- **`KS.centerHalf` is congruent to the input modulo every modulus, whatever the IEEE index is** -/
theorem centerHalf_emod (ms rs : List ℕ) (X : ℕ) (hc : ms.Pairwise Nat.Coprime) (hge : ∀ m ∈ ms, 2 ≤ m)
    (hres : List.Forall₂ (fun m r => r % m = X % m) ms rs) (m : ℕ) (hm : m ∈ ms) :
    KS.centerHalf ms rs % (m : ℤ) = (X : ℤ) % (m : ℤ) := by
  rw [centerHalf_unfold, centerHalfV_eq ms rs X _ hc hge hres]
  have hd : (m : ℤ) ∣ (prodN ms : ℤ) := by exact_mod_cast dvd_prodN ms m hm
  rw [Int.add_mul_emod_self_left' hd, ← Int.emod_emod_of_dvd _ hd, centeredRep_emod,
    Int.emod_emod_of_dvd _ hd]
where
  Int.add_mul_emod_self_left' {a b c m : ℤ} (h : m ∣ c) : (a + b * c) % m = a % m := by
    obtain ⟨k, rfl⟩ := h
    rw [show a + b * (m * k) = a + m * (b * k) by ring, Int.add_mul_emod_self_left]

/-- **under the named hypothesis `FloatExact`, `KS.centerHalf` IS the centred representative** -/
theorem centerHalf_exact (ms rs : List ℕ) (X : ℕ) (hc : ms.Pairwise Nat.Coprime) (hge : ∀ m ∈ ms, 2 ≤ m)
    (hres : List.Forall₂ (fun m r => r % m = X % m) ms rs)
    (hf : FloatExact ms (KS.reconY ms rs (prodN ms / 2))) :
    KS.centerHalf ms rs = centeredRep (prodN ms) X := by
  rw [centerHalf_unfold, centerHalfV_eq ms rs X _ hc hge hres, hf, sub_self, zero_mul, add_zero]

/-- … hence `|centerHalf| ≤ ⌊M/2⌋` for odd `M` (in general `−⌊M/2⌋ ≤ · < M − ⌊M/2⌋`) -/
theorem centerHalf_natAbs_le (ms rs : List ℕ) (X : ℕ) (hc : ms.Pairwise Nat.Coprime) (hge : ∀ m ∈ ms, 2 ≤ m)
    (hres : List.Forall₂ (fun m r => r % m = X % m) ms rs)
    (hf : FloatExact ms (KS.reconY ms rs (prodN ms / 2))) (hodd : prodN ms % 2 = 1) :
    2 * (KS.centerHalf ms rs).natAbs ≤ prodN ms := by
  rw [centerHalf_exact ms rs X hc hge hres hf]
  have := centeredRep_bounds (prodN ms) X (BasisExt.prodN_pos ms (pos_of_ge2 hge))
  omega

theorem centeredRep_natAbs_le (M X : ℕ) (hM : 0 < M) (hodd : M % 2 = 1) : 2 * (centeredRep M X).natAbs ≤ M := by
  have := centeredRep_bounds M X hM
  omega

/-! ## `RPoly.crt` -/

theorem foldl_crt (M : ℕ) : ∀ (ms rs : List ℕ) (a : ℕ), a < M →
    (ms.zip rs).foldl (fun acc (qr : ℕ × ℕ) =>
        (acc + qr.2 % qr.1 * RPoly.modInv ((M / qr.1) % qr.1) qr.1 % qr.1 * (M / qr.1)) % M) a
      = (a + sumQ M ms (reconYQ M 0 ms rs)) % M
  | [], _, a, ha => by simp [Nat.mod_eq_of_lt ha]
  | _ :: _, [], a, ha => by simp [reconYQ, Nat.mod_eq_of_lt ha]
  | m :: ms, r :: rs, a, ha => by
    have hM : 0 < M := by omega
    simp only [List.zip_cons_cons, List.foldl_cons, reconYQ, List.map_cons, sumQ_cons, Nat.add_zero]
    have ih := foldl_crt M ms rs ((a + r % m * RPoly.modInv (M / m % m) m % m * (M / m)) % M) (Nat.mod_lt _ hM)
    simp only [reconYQ, Nat.add_zero] at ih
    rw [ih, Nat.mod_add_mod, Nat.add_assoc]

/-- **`RPoly.crt` reconstructs**: on the residues of `X < M` (pairwise coprime moduli `≥ 2`) it returns `X` -/
theorem crt_eq (ms rs : List ℕ) (X : ℕ) (hc : ms.Pairwise Nat.Coprime) (hge : ∀ m ∈ ms, 2 ≤ m)
    (hX : X < prodN ms) (hres : List.Forall₂ (fun m r => r % m = X % m) ms rs) :
    RPoly.crt ms rs = X := by
  have hpos := pos_of_ge2 hge
  have hM : 0 < prodN ms := BasisExt.prodN_pos ms hpos
  have h := foldl_crt (prodN ms) ms rs 0 hM
  have hy : List.Forall₂ (fun m y => y < m ∧ (y * qStar ms m) % m = X % m) ms (reconYQ (prodN ms) 0 ms rs) :=
    reconYQ_ok (prodN ms) 0 X ms rs (fun m hm => ⟨hge m hm, prodN_div_mem ms m hc hge hm⟩)
      (forall₂_imp_mem hres (fun m _ r hr => by rw [Nat.add_zero]; exact hr))
  have hs := hps_sum_eq ms _ X hc hpos hX hy
  rw [hpsSum_eq_sumQ] at hs
  unfold RPoly.crt
  simp only [prod_eq_prodN]
  refine h.trans ?_
  rw [Nat.zero_add, hs, Nat.add_mul_mod_self_right, Nat.mod_eq_of_lt hX]

/-- every residue vector (entries reduced) is the residue vector of some `X < M` -/
theorem crt_exists : ∀ (ms rs : List ℕ), ms.Pairwise Nat.Coprime → (∀ m ∈ ms, 0 < m) →
    ms.length = rs.length → ∃ X, X < prodN ms ∧ List.Forall₂ (fun m r => r % m = X % m) ms rs
  | [], [], _, _, _ => ⟨0, by simp [prodN], List.Forall₂.nil⟩
  | [], _ :: _, _, _, h => by simp at h
  | _ :: _, [], _, _, h => by simp at h
  | m :: ms, r :: rs, hc, hpos, hl => by
    rcases List.pairwise_cons.mp hc with ⟨hcm, hcl⟩
    obtain ⟨X', _, hres'⟩ := crt_exists ms rs hcl (fun a ha => hpos a (by simp [ha])) (by simpa using hl)
    have hcop : Nat.Coprime m (prodN ms) := coprime_prodN hcm
    obtain ⟨k, hk1, hk2⟩ := Nat.chineseRemainder hcop r X'
    have hm : 0 < m := hpos m (by simp)
    have hMs : 0 < prodN ms := BasisExt.prodN_pos ms (fun a ha => hpos a (by simp [ha]))
    refine ⟨k % (m * prodN ms), Nat.mod_lt _ (Nat.mul_pos hm hMs), List.Forall₂.cons ?_ ?_⟩
    · rw [Nat.mod_mod_of_dvd _ (Dvd.intro _ rfl)]; exact hk1.symm
    · refine forall₂_imp_mem hres' (fun a ha b hb => ?_)
      have hd : a ∣ m * prodN ms := Dvd.dvd.mul_left (dvd_prodN ms a ha) m
      rw [Nat.mod_mod_of_dvd _ hd, hb]
      have := Nat.ModEq.of_dvd (dvd_prodN ms a ha) hk2
      exact this.symm

end Lattigo.StackKS
