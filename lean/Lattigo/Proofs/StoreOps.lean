/-
  C09 — alias soundness / counterexamples of the transcribed operations.
-/
import Lattigo.Proofs.Store

set_option linter.unusedSimpArgs false
namespace Lattigo.Store

variable {α : Type}

/-- not an output object and not an evaluator scratch buffer -/
def Untouched (p : Pat) (x : Loc) : Prop :=
  x.obj ≠ p.out ∧ x.obj ≠ bq ∧ x.obj ≠ bqp ∧ x.obj ≠ bct ∧ x.obj ≠ bqm

/-- closes a frame goal `∀ x, ¬x.obj = o → … → (if x = ⟨o,f⟩ then … else σ.get x) = σ.get x` -/
macro "frame_tac" : tactic => `(tactic| (
  intro x h1 h2 h3 h4 h5
  simp [fun f => loc_ne_of_obj_ne (f := f) h1, fun f => loc_ne_of_obj_ne (f := f) h2,
    fun f => loc_ne_of_obj_ne (f := f) h3, fun f => loc_ne_of_obj_ne (f := f) h4,
    fun f => loc_ne_of_obj_ne (f := f) h5]))

/-! ## ckks.mulRelin / bgv.tensorStandard -/

/-- the laws of the coefficient-wise arithmetic the two tensoring routines rely on when they swap
    the operands (`op1 == opOut`) or take the squaring path (`op0 == op1`) -/
structure TensorLaws (I : Interp α) (pre : Fn) : Prop where
  comm : ∀ x y, I.fn .mulM [I.fn pre [x], y] = I.fn .mulM [I.fn pre [y], x]
  mulMAdd : ∀ c y acc, I.fn .mulMAdd [c, y, acc] = I.fn .add [acc, I.fn .mulM [c, y]]
  addComm : ∀ x y, I.fn .add [x, y] = I.fn .add [y, x]

theorem TensorLaws.swap {I : Interp α} {pre : Fn} (h : TensorLaws I pre) (a0 a1 b0 b1 : α) :
    I.fn .mulMAdd [I.fn pre [b1], a0, I.fn .mulM [I.fn pre [b0], a1]] =
    I.fn .mulMAdd [I.fn pre [a1], b0, I.fn .mulM [I.fn pre [a0], b1]] := by
  rw [h.mulMAdd, h.mulMAdd, h.addComm, h.comm b1 a0, h.comm b0 a1]

theorem TensorLaws.sq {I : Interp α} {pre : Fn} (h : TensorLaws I pre) (x y : α) :
    I.fn .add [I.fn .mulM [I.fn pre [x], y], I.fn .mulM [I.fn pre [x], y]] =
    I.fn .mulMAdd [I.fn pre [y], x, I.fn .mulM [I.fn pre [x], y]] := by
  rw [h.mulMAdd, h.comm y x]

theorem quantEq (I : Interp α) {x x' y y' : α} (hx : x = x') (hy : y = y') :
    I.fn .quant [x, y] = I.fn .quant [x', y'] := by subst hx; subst hy; rfl

/-- the three tensor components with all-distinct locations -/
def tensorF0 (I : Interp α) (pre : Fn) (a0 b0 : α) : α := I.fn .mulM [I.fn pre [a0], b0]
def tensorF2 (I : Interp α) (pre : Fn) (a1 b1 : α) : α := I.fn .mulM [I.fn pre [a1], b1]
def tensorF1 (I : Interp α) (pre : Fn) (a0 a1 b0 b1 : α) : α :=
  I.fn .mulMAdd [I.fn pre [a1], b0, I.fn .mulM [I.fn pre [a0], b1]]

theorem tensor_alias_sound (I : Interp α) (pre : Fn) (h : TensorLaws I pre) (al : Alias) (σ : Store α) :
    let p := al.pat
    let σ' := run I (tensorProg pre false p) σ
    let a0 := σ (L p.op0 0); let a1 := σ (L p.op0 1); let b0 := σ (L p.op1 0); let b1 := σ (L p.op1 1)
    σ' (L p.out 0) = tensorF0 I pre a0 b0 ∧
    σ' (L p.out 1) = tensorF1 I pre a0 a1 b0 b1 ∧
    σ' (L p.out 2) = tensorF2 I pre a1 b1 ∧
    σ' (L p.out fScale) = I.fn .smul [σ (L p.op0 fScale), σ (L p.op1 fScale)] ∧
    ∀ x, Untouched p x → σ' x = σ x := by
  cases al
  all_goals
    simp (config := {decide := true}) [Alias.pat, tensorProg, tensorF0, tensorF1, tensorF2, L, st, fScale, bq, bqp,
      Step.exec, Untouched, bct, bqm]
  all_goals (repeat' apply And.intro)
  all_goals (try frame_tac)
  case outOp1.left => exact h.comm _ _
  case outOp1.right.left =>
    rw [h.mulMAdd, h.mulMAdd, h.addComm, h.comm (σ.get ⟨1, 1⟩), h.comm (σ.get ⟨1, 0⟩)]
  case outOp1.right.right.left => exact h.comm _ _
  case op0Op1.left => rw [h.mulMAdd, h.comm (σ.get ⟨0, 1⟩)]
  case allEq.left => rw [h.mulMAdd, h.comm (σ.get ⟨0, 1⟩)]

theorem tensorRelin_alias_sound (I : Interp α) (pre : Fn) (h : TensorLaws I pre) (al : Alias) (σ : Store α) :
    let p := al.pat
    let σ' := run I (tensorProg pre true p) σ
    let a0 := σ (L p.op0 0); let a1 := σ (L p.op0 1); let b0 := σ (L p.op1 0); let b1 := σ (L p.op1 1)
    σ' (L p.out 0) = I.fn .add [tensorF0 I pre a0 b0, I.fn .gp0 [tensorF2 I pre a1 b1]] ∧
    σ' (L p.out 1) = I.fn .add [tensorF1 I pre a0 a1 b0 b1, I.fn .gp1 [tensorF2 I pre a1 b1]] ∧
    σ' (L p.out fScale) = I.fn .smul [σ (L p.op0 fScale), σ (L p.op1 fScale)] ∧
    ∀ x, Untouched p x → σ' x = σ x := by
  cases al
  all_goals
    simp (config := {decide := true}) [Alias.pat, tensorProg, tensorF0, tensorF1, tensorF2, L, st, fScale, bq, bqp,
      Step.exec, Untouched, bct, bqm]
  all_goals (repeat' apply And.intro)
  all_goals (try frame_tac)
  case outOp1.left => rw [h.comm (σ.get ⟨1, 0⟩), h.comm (σ.get ⟨1, 1⟩)]
  case outOp1.right.left =>
    rw [h.mulMAdd, h.mulMAdd, h.addComm (I.fn Fn.mulM [I.fn pre [σ.get ⟨1, 0⟩], σ.get ⟨0, 1⟩]),
      h.comm (σ.get ⟨1, 1⟩) (σ.get ⟨0, 0⟩), h.comm (σ.get ⟨1, 0⟩), h.comm (σ.get ⟨1, 1⟩) (σ.get ⟨0, 1⟩)]
  case op0Op1.left => rw [h.mulMAdd, h.comm (σ.get ⟨0, 1⟩) (σ.get ⟨0, 0⟩)]
  case allEq.left => rw [h.mulMAdd, h.comm (σ.get ⟨0, 1⟩) (σ.get ⟨0, 0⟩)]

/-! ## ckks.evaluateInPlace -/

structure ScaleLaws (I : Interp α) : Prop where
  cmpRefl : ∀ x, I.cmp x x = .eq
  copyId : ∀ x, I.fn .copy [x] = x
  maxIdem : ∀ x, I.fn .smax [x, x] = x
  maxGt : ∀ x y, I.cmp x y = .gt → I.fn .smax [x, y] = x
  maxLt : ∀ x y, I.cmp x y = .lt → I.fn .smax [x, y] = y

def ckksEvalF (I : Interp α) (c : Ordering) (sa sb a b : α) : α :=
  match c with
  | .gt => I.fn .ev [a, I.fn .scal [I.fn .ratio [sa, sb], b]]
  | .lt => I.fn .ev [I.fn .scal [I.fn .ratio [sb, sa], a], b]
  | .eq => I.fn .ev [a, b]

theorem ckksEval_alias_sound (I : Interp α) (h : ScaleLaws I) (al : Alias) (σ : Store α) :
    let p := al.pat
    let σ' := ckksEval I p σ
    let sa := σ (L p.op0 fScale); let sb := σ (L p.op1 fScale)
    σ' (L p.out 0) = ckksEvalF I (I.cmp sa sb) sa sb (σ (L p.op0 0)) (σ (L p.op1 0)) ∧
    σ' (L p.out 1) = ckksEvalF I (I.cmp sa sb) sa sb (σ (L p.op0 1)) (σ (L p.op1 1)) ∧
    σ' (L p.out fScale) = I.fn .smax [sa, sb] ∧
    ∀ x, Untouched p x → σ' x = σ x := by
  cases al
  case op0Op1 =>
    simp (config := {decide := true}) [Alias.pat, ckksEval, ckksEvalProg, ckksEvalF, ckksMulInt, L, st, fScale, bq, bqp,
      Step.exec, Untouched, bct, bqm, h.cmpRefl]
    frame_tac
  case allEq =>
    simp (config := {decide := true}) [Alias.pat, ckksEval, ckksEvalProg, ckksEvalF, ckksMulInt, L, st, fScale, bq, bqp,
      Step.exec, Untouched, bct, bqm, h.cmpRefl]
    frame_tac
  all_goals
    rcases hc : I.cmp (σ.get ⟨0, 8⟩) (σ.get ⟨1, 8⟩) with _ | _ | _
  all_goals
    simp (config := {decide := true}) [Alias.pat, ckksEval, ckksEvalProg, ckksEvalF, ckksMulInt, L, st, fScale, bq, bqp,
      Step.exec, Untouched, bct, bqm, hc]
  all_goals (repeat' apply And.intro)
  all_goals (try frame_tac)
  case outOp0.lt.left => rw [h.copyId, h.maxIdem, h.maxLt _ _ hc]
  case outOp1.gt.left => rw [h.copyId, h.maxIdem, h.maxGt _ _ hc]

/-! ## bgv.tensorScaleInvariant -/

section SI
variable (I : Interp α)
def siA (x : α) : α := I.fn .modup [I.fn .intt [x]]
def siQ0 (a0 b0 : α) : α := I.fn .mulM [I.fn .mform [a0], b0]
def siQ1 (a0 a1 b0 b1 : α) : α := I.fn .mulMAdd [I.fn .mform [a1], b0, I.fn .mulM [I.fn .mform [a0], b1]]
def siM0 (a0 b0 : α) : α := I.fn .mulM [I.fn .mformM [siA I a0], siA I b0]
def siM1 (a0 a1 b0 b1 : α) : α :=
  I.fn .mulMAdd [I.fn .mformM [siA I a1], siA I b0, I.fn .mulM [I.fn .mformM [siA I a0], siA I b1]]
def siOut0 (a0 b0 : α) : α := I.fn .quant [siQ0 I a0 b0, siM0 I a0 b0]
def siOut1 (a0 a1 b0 b1 : α) : α := I.fn .quant [siQ1 I a0 a1 b0 b1, siM1 I a0 a1 b0 b1]
end SI

/-- polynomial part of bgv.tensorScaleInvariant (no relinearisation): every aliasing pattern -/
theorem bgvTensorSI_poly_alias_sound (I : Interp α) (h : TensorLaws I .mform) (hM : TensorLaws I .mformM)
    (al : Alias) (σ : Store α) :
    let p := al.pat
    let σ' := run I (bgvTensorSIProg false p) σ
    let a0 := σ (L p.op0 0); let a1 := σ (L p.op0 1); let b0 := σ (L p.op1 0); let b1 := σ (L p.op1 1)
    σ' (L p.out 0) = siOut0 I a0 b0 ∧
    σ' (L p.out 1) = siOut1 I a0 a1 b0 b1 ∧
    σ' (L p.out 2) = siOut0 I a1 b1 ∧
    ∀ x, Untouched p x → σ' x = σ x := by
  cases al
  all_goals
    simp (config := {decide := true}) [Alias.pat, bgvTensorSIProg, siA, siQ0, siQ1, siM0, siM1, siOut0, siOut1,
      L, st, fScale, bq, bqp, Step.exec, Untouched, bct, bqm]
  all_goals (repeat' apply And.intro)
  all_goals (try frame_tac)
  all_goals
    apply quantEq <;>
    first | exact h.comm _ _ | exact hM.comm _ _ | exact h.swap _ _ _ _ | exact hM.swap _ _ _ _
          | exact h.sq _ _ | exact hM.sq _ _

/-- scale of bgv.tensorScaleInvariant (code with fix C05-10): every pattern -/
theorem bgvTensorSI_scale_alias_sound (I : Interp α) (relin : Bool) (al : Alias) (σ : Store α) :
    let p := al.pat
    run I (bgvTensorSIProg relin p) σ (L p.out fScale) =
      I.fn .sinv [σ (L p.op0 fScale), σ (L p.op1 fScale)] := by
  cases al <;> cases relin <;>
  simp (config := {decide := true}) [Alias.pat, bgvTensorSIProg, L, st, fScale, bq, bqp, Step.exec, bct, bqm]

/-- scale of bgv.tensorScaleInvariant BEFORE fix C05-10: correct for every pattern except `out = op1 ≠ op0` -/
theorem bgvTensorSIOld_scale_alias_sound (I : Interp α) (relin : Bool) (al : Alias) (hal : al ≠ .outOp1)
    (σ : Store α) :
    let p := al.pat
    run I (bgvTensorSIProgOld relin p) σ (L p.out fScale) =
      I.fn .sinv [σ (L p.op0 fScale), σ (L p.op1 fScale)] := by
  cases al <;> cases relin
  all_goals first
    | exact absurd rfl hal
    | simp (config := {decide := true}) [Alias.pat, bgvTensorSIProgOld, L, st, fScale, bq, bqp, Step.exec, bct, bqm]

/-- what the code before fix C05-10 computed for `out = op1`: the scale of `op0` twice -/
theorem bgvTensorSIOld_outOp1_scale (I : Interp α) (relin : Bool) (σ : Store α) :
    run I (bgvTensorSIProgOld relin Alias.outOp1.pat) σ (L 1 fScale) =
      I.fn .sinv [σ (L 0 fScale), σ (L 0 fScale)] := by
  cases relin <;>
  simp (config := {decide := true}) [Alias.pat, bgvTensorSIProgOld, L, st, fScale, bq, bqp, Step.exec, bct, bqm]

/-- `alias_sound` was FALSE for bgv.tensorScaleInvariant with `out = op1` before fix C05-10: witness in
    the `Int` interpretation (scales 6 and 2: the code yields sinv(6,6) = 180, the specification 60) -/
theorem bgvTensorSIOld_outOp1_counterexample :
    ∃ σ : Store Int, run intI (bgvTensorSIProgOld false Alias.outOp1.pat) σ (L 1 fScale) ≠
      intI.fn .sinv [σ (L 0 fScale), σ (L 1 fScale)] := by
  refine ⟨testStore, ?_⟩
  rw [bgvTensorSIOld_outOp1_scale]
  decide

/-! ## bgv.matchScaleThenEvaluateInPlace -/

def matchF (I : Interp α) (sa sb a b : α) : α :=
  I.fn .mulSAdd [b, I.fn .r1 [sa, sb], I.fn .mulS [I.fn .r0 [sa, sb], a]]

/-- code with fix C05-4: sound for ALL five patterns (the copy `el1.CopyNew()` is the identity on
    values: hypothesis `hcopy`) -/
theorem bgvMatchScale_alias_sound (I : Interp α) (hcopy : ∀ x, I.fn .copy [x] = x) (al : Alias) (σ : Store α) :
    let p := al.pat
    let σ' := run I (bgvMatchScaleProg p) σ
    let sa := σ (L p.op0 fScale); let sb := σ (L p.op1 fScale)
    σ' (L p.out 0) = matchF I sa sb (σ (L p.op0 0)) (σ (L p.op1 0)) ∧
    σ' (L p.out 1) = matchF I sa sb (σ (L p.op0 1)) (σ (L p.op1 1)) ∧
    σ' (L p.out fScale) = I.fn .smul [sa, I.fn .r0 [sa, sb]] ∧
    ∀ x, Untouched p x → x.obj ≠ heapTmp → σ' x = σ x := by
  cases al
  all_goals
    simp (config := {decide := true}) [Alias.pat, bgvMatchScaleProg, matchF, L, st, fScale, fMeta, bq, bqp, Step.exec,
      Untouched, bct, bqm, heapTmp, hcopy]
  all_goals
    intro x h1 h2 h3 h4 h5 h6
    simp [fun f => loc_ne_of_obj_ne (f := f) h1, fun f => loc_ne_of_obj_ne (f := f) h2,
      fun f => loc_ne_of_obj_ne (f := f) h6]

/-- the code BEFORE fix C05-4: sound for `all distinct`, `out = op0`, `op0 = op1` only -/
theorem bgvMatchScaleOld_alias_sound (I : Interp α) (al : Alias) (hal : al ≠ .outOp1 ∧ al ≠ .allEq)
    (σ : Store α) :
    let p := al.pat
    let σ' := run I (bgvMatchScaleProgOld p) σ
    let sa := σ (L p.op0 fScale); let sb := σ (L p.op1 fScale)
    σ' (L p.out 0) = matchF I sa sb (σ (L p.op0 0)) (σ (L p.op1 0)) ∧
    σ' (L p.out 1) = matchF I sa sb (σ (L p.op0 1)) (σ (L p.op1 1)) ∧
    σ' (L p.out fScale) = I.fn .smul [sa, I.fn .r0 [sa, sb]] ∧
    ∀ x, Untouched p x → σ' x = σ x := by
  cases al
  case outOp1 => exact absurd rfl hal.1
  case allEq => exact absurd rfl hal.2
  all_goals
    simp (config := {decide := true}) [Alias.pat, bgvMatchScaleProgOld, matchF, L, st, fScale, bq, bqp, Step.exec,
      Untouched, bct, bqm]
  all_goals frame_tac

/-- what the code before fix C05-4 computed with `out = op1`: op1 overwritten by `r0·op0` before it is read -/
theorem bgvMatchScaleOld_outOp1_value (I : Interp α) (σ : Store α) (i : Nat) (hi : i = 0 ∨ i = 1) :
    run I (bgvMatchScaleProgOld Alias.outOp1.pat) σ (L 1 i) =
      let sa := σ (L 0 fScale); let sb := σ (L 1 fScale)
      let t := I.fn .mulS [I.fn .r0 [sa, sb], σ (L 0 i)]
      I.fn .mulSAdd [t, I.fn .r1 [sa, sb], t] := by
  rcases hi with rfl | rfl <;>
  simp (config := {decide := true}) [Alias.pat, bgvMatchScaleProgOld, L, st, fScale, bq, bqp, Step.exec, bct, bqm]

/-- `alias_sound` was FALSE for bgv.matchScaleThenEvaluateInPlace with `out = op1` before fix C05-4 -/
theorem bgvMatchScaleOld_outOp1_counterexample :
    ∃ σ : Store Int, run intI (bgvMatchScaleProgOld Alias.outOp1.pat) σ (L 1 0) ≠
      matchF intI (σ (L 0 fScale)) (σ (L 1 fScale)) (σ (L 0 0)) (σ (L 1 0)) := by
  refine ⟨testStore, ?_⟩
  rw [bgvMatchScaleOld_outOp1_value _ _ 0 (Or.inl rfl)]
  decide

/-! ## bgv.Add / bgv.Mul with a caller-owned *big.Int -/

/-- code with fixes C05-1/C05-2: right result, receiver scale set, caller's big.Int intact -/
theorem bgvAddBig_sound (I : Interp α) (hcopy : ∀ x, I.fn .copy [x] = x) (al : Alias)
    (hal : al = .distinct ∨ al = .outOp0) (σ : Store α) :
    let p := al.pat
    let σ' := run I (bgvAddBigProg p) σ
    let s := I.fn .bigTInv [I.fn .bigCenter [I.fn .bigModT [I.fn .bigScale [σ (L bigArg 0), σ (L p.op0 fScale)]]]]
    σ' (L p.out 0) = I.fn .addBig [σ (L p.op0 0), s] ∧
    σ' (L p.out fScale) = σ (L p.op0 fScale) ∧
    σ' (L bigArg 0) = σ (L bigArg 0) := by
  rcases hal with rfl | rfl <;>
  simp (config := {decide := true}) [Alias.pat, bgvAddBigProg, L, st, fScale, bq, bqp, Step.exec, bct, bqm, bigArg, hcopy]

theorem bgvMulBig_sound (I : Interp α) (al : Alias) (hal : al = .distinct ∨ al = .outOp0) (σ : Store α) :
    let p := al.pat
    let σ' := run I (bgvMulBigProg p) σ
    let s := I.fn .bigCenter [I.fn .bigModT [σ (L bigArg 0)]]
    σ' (L p.out 0) = I.fn .mulBig [σ (L p.op0 0), s] ∧
    σ' (L p.out 1) = I.fn .mulBig [σ (L p.op0 1), s] ∧
    σ' (L bigArg 0) = σ (L bigArg 0) := by
  rcases hal with rfl | rfl <;>
  simp (config := {decide := true}) [Alias.pat, bgvMulBigProg, L, st, fScale, bq, bqp, Step.exec, bct, bqm, bigArg]

theorem bgvAddBigOld_result (I : Interp α) (σ : Store α) :
    run I (bgvAddBigProgOld Alias.distinct.pat) σ (L bigArg 0) =
      I.fn .bigTInv [I.fn .bigCenter [I.fn .bigModT [I.fn .bigScale [σ (L bigArg 0), σ (L 0 fScale)]]]] := by
  simp (config := {decide := true}) [Alias.pat, bgvAddBigProgOld, L, st, fScale, Step.exec, bigArg]

/-- `inputs_unchanged` was FALSE for bgv.Add with a *big.Int operand before fix C05-1 -/
theorem bgvAddBigOld_inputs_counterexample :
    ∃ σ : Store Int, run intI (bgvAddBigProgOld Alias.distinct.pat) σ (L bigArg 0) ≠ σ (L bigArg 0) := by
  refine ⟨testStore, ?_⟩
  rw [bgvAddBigOld_result]
  decide

theorem bgvMulBigOld_result (I : Interp α) (σ : Store α) :
    run I (bgvMulBigProgOld Alias.distinct.pat) σ (L bigArg 0) = I.fn .bigCenter [I.fn .bigModT [σ (L bigArg 0)]] := by
  simp (config := {decide := true}) [Alias.pat, bgvMulBigProgOld, L, st, fScale, Step.exec, bigArg]

/-- `inputs_unchanged` was FALSE for bgv.Mul with a *big.Int operand before fix C05-1 -/
theorem bgvMulBigOld_inputs_counterexample :
    ∃ σ : Store Int, run intI (bgvMulBigProgOld Alias.distinct.pat) σ (L bigArg 0) ≠ σ (L bigArg 0) := by
  refine ⟨testStore, ?_⟩
  rw [bgvMulBigOld_result]
  decide

/-! ## rlwe.Evaluator.Automorphism -/

theorem rlweAut_alias_sound (I : Interp α) (al : Alias) (hal : al = .distinct ∨ al = .outOp0) (σ : Store α) :
    let p := al.pat
    let σ' := run I (rlweAutProg p) σ
    σ' (L p.out 0) = I.fn .aut [I.fn .add [I.fn .gp0 [σ (L p.op0 1)], σ (L p.op0 0)]] ∧
    σ' (L p.out 1) = I.fn .aut [I.fn .gp1 [σ (L p.op0 1)]] ∧
    σ' (L p.out fScale) = I.fn .copy [σ (L p.op0 fScale)] ∧
    σ' (L p.out fMeta) = I.fn .copy [σ (L p.op0 fMeta)] ∧
    ∀ x, Untouched p x → σ' x = σ x := by
  rcases hal with rfl | rfl
  all_goals
    simp (config := {decide := true}) [Alias.pat, rlweAutProg, L, st, fScale, fMeta, bq, bqp, Step.exec,
      Untouched, bct, bqm]
  all_goals frame_tac

/-! ## ring.DivRoundByLastModulus / DivRoundByLastModulusNTT -/

def divF (I : Interp α) (last x : α) : α := I.fn .addC [I.fn .divStep [I.fn .addHalf [last], x]]

/-- ring.DivRoundByLastModulus (HEAD): same result in place and with a distinct output, and with a
    distinct output the input polynomial and everything else but the output is intact -/
theorem divRound_alias_sound (I : Interp α) (al : Alias) (hal : al = .distinct ∨ al = .outOp0) (σ : Store α) :
    let p := al.pat
    let σ' := run I (divRoundProg p) σ
    σ' (L p.out 0) = divF I (σ (L p.op0 2)) (σ (L p.op0 0)) ∧
    σ' (L p.out 1) = divF I (σ (L p.op0 2)) (σ (L p.op0 1)) ∧
    ∀ x, Untouched p x → σ' x = σ x := by
  rcases hal with rfl | rfl
  all_goals
    simp (config := {decide := true}) [Alias.pat, divRoundProg, divF, L, st, Step.exec, Untouched, bq, bqp, bct, bqm]
  all_goals frame_tac

def divFOld (I : Interp α) (last x : α) : α := I.fn .divStep [I.fn .addHalf [last], I.fn .negAdd [x]]

/-- the version before commit 64e1afc: the RESULT was alias-insensitive … -/
theorem divRoundOld_result (I : Interp α) (al : Alias) (hal : al = .distinct ∨ al = .outOp0) (σ : Store α) :
    let p := al.pat
    let σ' := run I (divRoundProgOld p) σ
    σ' (L p.out 0) = divFOld I (σ (L p.op0 2)) (σ (L p.op0 0)) ∧
    σ' (L p.out 1) = divFOld I (σ (L p.op0 2)) (σ (L p.op0 1)) := by
  rcases hal with rfl | rfl <;>
  simp (config := {decide := true}) [Alias.pat, divRoundProgOld, divFOld, L, st, Step.exec]

/-- … but with a distinct `p1` the INPUT `p0` was rewritten, all its limbs -/
theorem divRoundOld_input_rewritten (I : Interp α) (σ : Store α) :
    let σ' := run I (divRoundProgOld Alias.distinct.pat) σ
    σ' (L 0 2) = I.fn .addHalf [σ (L 0 2)] ∧ σ' (L 0 0) = I.fn .negAdd [σ (L 0 0)] ∧
    σ' (L 0 1) = I.fn .negAdd [σ (L 0 1)] := by
  simp (config := {decide := true}) [Alias.pat, divRoundProgOld, L, st, Step.exec]

/-- `inputs_unchanged` was FALSE for ring.DivRoundByLastModulus before commit 64e1afc -/
theorem divRoundOld_inputs_counterexample :
    ∃ σ : Store Int, run intI (divRoundProgOld Alias.distinct.pat) σ (L 0 2) ≠ σ (L 0 2) := by
  refine ⟨testStore, ?_⟩
  rw [(divRoundOld_input_rewritten intI testStore).1]
  decide

theorem divRoundNTT_alias_sound (I : Interp α) (al : Alias) (hal : al = .distinct ∨ al = .outOp0)
    (σ : Store α) :
    let p := al.pat
    let σ' := run I (divRoundNTTProg p) σ
    let c := I.fn .nttStep [I.fn .addHalf [I.fn .inttL [σ (L p.op0 2)]]]
    σ' (L p.out 0) = I.fn .divStep [c, σ (L p.op0 0)] ∧
    σ' (L p.out 1) = I.fn .divStep [c, σ (L p.op0 1)] ∧
    ∀ x, Untouched p x → σ' x = σ x := by
  rcases hal with rfl | rfl
  all_goals
    simp (config := {decide := true}) [Alias.pat, divRoundNTTProg, L, st, bq, bqp, Step.exec, Untouched, bct, bqm]
  all_goals frame_tac

/-! ## Element.Resize and the degree residue of Add/Sub -/

theorem resize_length (z : α) (d : Nat) (v : List α) : (resize z d v).length = d + 1 := by
  unfold resize
  split
  · simp; omega
  · simp; omega

/-- shrinking keeps a prefix, growing appends zeros: Resize never rewrites an existing polynomial -/
theorem resize_prefix (z : α) (d : Nat) (v : List α) (i : Nat) (hi : i < min v.length (d + 1)) :
    (resize z d v)[i]? = v[i]? := by
  unfold resize
  split
  · simp [List.getElem?_take]; omega
  · rw [List.getElem?_append_left (by omega)]

/-- history dependence of ct+ct Add BEFORE fix C09-2 (InitOutputBinaryOp took the receiver's degree): with
    an output that previously had degree 2, adding two degree-1 ciphertexts left the old third
    polynomial in place. -/
theorem addIntoOld_degree_residue_counterexample :
    addIntoOld (0 : Int) (· + ·) [1, 2] [10, 20] [7, 8, 9] = [11, 22, 9] ∧
    addIntoOld (0 : Int) (· + ·) [1, 2] [10, 20] [0, 0] = [11, 22] := by
  decide

theorem addLists_length (add : α → α → α) : ∀ (xs ys : List α),
    (addLists add xs ys).length = max xs.length ys.length := by
  intro xs
  induction xs with
  | nil => intro ys; simp [addLists]
  | cons x xs ih =>
    intro ys
    cases ys with
    | nil => simp [addLists]
    | cons y ys => simp [addLists, ih]

/-- with fix C09-2 ct+ct Add is history-free: whatever the receiver contained (any degree), the
    result is the sum of the operands. -/
theorem addInto_history_free (z : α) (add : α → α → α) (op0 op1 out : List α) (h0 : op0 ≠ []) :
    addInto z add op0 op1 out = addLists add op0 op1 := by
  unfold addInto
  have hlen := resize_length z (max (op0.length - 1) (op1.length - 1)) out
  have h0' : 0 < op0.length := List.length_pos_iff.mpr h0
  simp only []
  rw [List.drop_eq_nil_of_le, List.append_nil]
  rw [hlen, addLists_length]
  omega

/-- before the fix: history-free only when the receiver's previous degree did not exceed the operands' -/
theorem addIntoOld_history_free (z : α) (add : α → α → α) (op0 op1 out : List α)
    (h : out.length ≤ max op0.length op1.length) (h0 : op0 ≠ []) :
    addIntoOld z add op0 op1 out = addLists add op0 op1 := by
  unfold addIntoOld
  have hlen := resize_length z (max (max (op0.length - 1) (op1.length - 1)) (out.length - 1)) out
  have h0' : 0 < op0.length := List.length_pos_iff.mpr h0
  simp only []
  rw [List.drop_eq_nil_of_le, List.append_nil]
  rw [hlen, addLists_length]
  omega

/-! ## rlwe.Evaluator.PartialTracesSum (InnerSum / Replicate) -/

theorem ptsIter_dst (o n i j : Nat) (cp stt : Bool) :
    ∀ s ∈ (ptsIter o n i j cp stt).1, s.dst.obj = o ∨ s.dst.obj = bqp ∨ s.dst.obj = bct := by
  intro s hs
  unfold ptsIter at hs
  simp only [L, st] at hs
  split at hs <;> (repeat' split at hs) <;>
    simp (config := {decide := true}) [bqp, bct] at hs <;>
    (try (rcases hs with hs | hs | hs | hs | hs | hs | hs | hs | hs | hs)) <;> (try subst hs) <;>
    simp (config := {decide := true}) [bqp, bct] at *

theorem ptsLoop_dst (o n : Nat) : ∀ (fuel i j : Nat) (cp stt : Bool),
    ∀ s ∈ ptsLoop o n fuel i j cp stt, s.dst.obj = o ∨ s.dst.obj = bqp ∨ s.dst.obj = bct
  | 0, _, _, _, _ => by intro s hs; simp [ptsLoop] at hs
  | fuel + 1, i, j, cp, stt => by
    intro s hs
    unfold ptsLoop at hs
    split at hs
    · simp at hs
    · simp only [List.mem_append] at hs
      rcases hs with hs | hs
      · exact ptsIter_dst o n i j cp stt s hs
      · exact ptsLoop_dst o n fuel _ _ _ _ s hs

/-- PartialTracesSum, every `n`, every aliasing pattern: nothing but the output object and the
    evaluator buffers `BuffCt`, `BuffQP` is written — in particular a distinct input is intact. -/
theorem rlwePTS_frame (I : Interp α) (n : Nat) (p : Pat) (σ : Store α) (x : Loc)
    (hx : x.obj ≠ p.out ∧ x.obj ≠ bqp ∧ x.obj ≠ bct) :
    run I (rlwePTSProg n p) σ x = σ x := by
  apply run_frame
  intro s hs e
  have hd : s.dst.obj = p.out ∨ s.dst.obj = bqp ∨ s.dst.obj = bct := by
    unfold rlwePTSProg at hs
    simp only [List.mem_append] at hs
    rcases hs with hs | hs
    · simp (config := {decide := true}) [L, st] at hs
      rcases hs with rfl | rfl | rfl | rfl <;> simp [bct]
    · split at hs
      · split at hs
        · simp [L, st] at hs
          rcases hs with rfl | rfl <;> simp
        · simp at hs
      · exact ptsLoop_dst _ _ _ _ _ _ _ s hs
  rw [e] at hd
  rcases hd with h | h | h
  · exact hx.1 h
  · exact hx.2.1 h
  · exact hx.2.2 h

/-- PARTIAL (bounded): alias soundness of PartialTracesSum for n ≤ 8 — the result with
    `opOut == ctIn` equals the result with a distinct output, whatever the distinct output and the
    buffers contained.  Missing for the full statement: the same for every `n` (needs the loop
    invariant "j = n / 2^i, the iteration with j = 1 writes the output before anything reads it");
    the driver evaluates the model at the `n` of every tie line. -/
theorem rlwePTS_alias_sound_partial (I : Interp α) (hcopy : ∀ x, I.fn .copy [x] = x)
    (n : Nat) (hn : 1 ≤ n ∧ n ≤ 8) (σ σd : Store α)
    (hagree : ∀ x, x.obj ≠ 2 → σd x = σ x) (f : Nat) (hf : f = 0 ∨ f = 1 ∨ f = fScale ∨ f = fMeta) :
    run I (rlwePTSProg n Alias.outOp0.pat) σ (L 0 f) = run I (rlwePTSProg n Alias.distinct.pat) σd (L 2 f) := by
  have h8 : n = 1 ∨ n = 2 ∨ n = 3 ∨ n = 4 ∨ n = 5 ∨ n = 6 ∨ n = 7 ∨ n = 8 := by omega
  have e0 : ∀ g, σd ⟨0, g⟩ = σ ⟨0, g⟩ := fun g => hagree _ (by simp)
  have e12 : ∀ g, σd ⟨12, g⟩ = σ ⟨12, g⟩ := fun g => hagree _ (by simp)
  have e11 : ∀ g, σd ⟨11, g⟩ = σ ⟨11, g⟩ := fun g => hagree _ (by simp)
  rcases h8 with rfl | rfl | rfl | rfl | rfl | rfl | rfl | rfl <;>
  rcases hf with rfl | rfl | rfl | rfl <;>
  simp (config := {decide := true}) [Alias.pat, rlwePTSProg, ptsLoop, ptsIter, L, st, fScale, fMeta, bqp, bct,
    Step.exec, Nat.log2, e0, e12, e11, hcopy]
