/-
  C04 — lemmas about gadget ciphertexts (Model/Gadget.lean): one key row decrypts to
  `P·g_{ij}·s_in + e_{ij}`, structure of `genEvaluationKey`, compression/expansion.
  Generic over every commutative ring.
-/
import Lattigo.Model.Gadget
import Mathlib.Tactic.Ring

namespace Lattigo.KS

section ring
variable {α : Type} [CommRing α]

/-- the phase of one evaluation-key entry under the OUTPUT key is the gadget term plus the sampled
    error (the mask `a·s_out` cancels) -/
theorem gadget_row (a e sOut pgs : α) : phase (evkRow a e sOut pgs) sOut = pgs + e := by
  simp only [phase, evkRow, encZero]; ring

theorem encZero_phase (a e s : α) : phase (encZero a e s) s = e := by
  simp only [phase, encZero]; ring

end ring

/-! ### spec-side views of the sample matrix (used to state the theorems) -/

section views
variable {α : Type}

/-- `[f i j, f i (j+1), …]`, one entry per element of the row -/
def idxRowFrom {β : Type} (f : Nat → Nat → α) (i : Nat) : Nat → List β → List α
  | _, [] => []
  | j, _ :: rest => f i j :: idxRowFrom f i (j + 1) rest

/-- the matrix `f i j` in the shape of `m`, rows numbered from `i0` -/
def idxMatFrom {β : Type} (f : Nat → Nat → α) : Nat → List (List β) → List (List α)
  | _, [] => []
  | i, row :: rest => idxRowFrom f i 0 row :: idxMatFrom f (i + 1) rest

/-- the gadget vector `P·g_{ij}` laid out in the shape of the sample matrix -/
def pgMat {β : Type} (pg : Nat → Nat → α) (samples : List (List β)) : List (List α) :=
  idxMatFrom pg 0 samples

/-- the sampled masks `a_{ij}` / errors `e_{ij}` -/
def aMat (samples : List (List (α × α))) : List (List α) := samples.map fun r => r.map Prod.fst
def eMat (samples : List (List (α × α))) : List (List α) := samples.map fun r => r.map Prod.snd

end views

section structure_lemmas
variable {α : Type} [Add α] [Mul α] [Neg α] [Sub α]

theorem genRowFrom_snd (pg : Nat → Nat → α) (sIn sOut : α) (i : Nat) :
    ∀ (j : Nat) (row : List (α × α)),
      (genRowFrom pg sIn sOut i j row).map Prod.snd = row.map Prod.fst
  | _, [] => rfl
  | j, (a, e) :: rest => by
      simp only [genRowFrom, List.map_cons, evkRow]
      rw [genRowFrom_snd pg sIn sOut i (j + 1) rest]

theorem genFrom_snd (pg : Nat → Nat → α) (sIn sOut : α) :
    ∀ (i : Nat) (samples : List (List (α × α))),
      (genFrom pg sIn sOut i samples).map (fun r => r.map Prod.snd) = aMat samples
  | _, [] => rfl
  | i, row :: rest => by
      simp only [genFrom, List.map_cons, aMat]
      rw [genRowFrom_snd]
      have := genFrom_snd pg sIn sOut (i + 1) rest
      simp only [aMat] at this
      rw [this]

/-- the second components of a generated key are exactly the sampled `a_{ij}`, in order -/
theorem genEvaluationKey_snd (pg : Nat → Nat → α) (sIn sOut : α) (samples : List (List (α × α))) :
    (genEvaluationKey pg sIn sOut samples).map (fun r => r.map Prod.snd) = aMat samples :=
  genFrom_snd pg sIn sOut 0 samples

theorem zip_map_fst_snd {β γ : Type} : ∀ (l : List (β × γ)), List.zip (l.map Prod.fst) (l.map Prod.snd) = l
  | [] => rfl
  | (b, c) :: rest => by simp [zip_map_fst_snd rest]

/-- expanding a compressed key with the stream of its own second components gives the key back -/
theorem expand_compress (evk : List (List (α × α))) :
    expand (compress evk) (evk.map fun r => r.map Prod.snd) = evk := by
  induction evk with
  | nil => rfl
  | cons r rest ih =>
    simp only [expand, compress, List.map_cons, List.zipWith_cons_cons] at ih ⊢
    rw [zip_map_fst_snd r, ih]

/-- **expand_eq**: a compressed key, expanded with the `a` stream regenerated from its seed (= the
    stream `a_{ij}` the generator drew, in the same order), is EXACTLY the key generated uncompressed
    from the same `(a_{ij}, e_{ij})`. -/
theorem expand_eq (pg : Nat → Nat → α) (sIn sOut : α) (samples : List (List (α × α))) :
    expand (compress (genEvaluationKey pg sIn sOut samples)) (aMat samples)
      = genEvaluationKey pg sIn sOut samples := by
  rw [← genEvaluationKey_snd pg sIn sOut samples]
  exact expand_compress _

end structure_lemmas

end Lattigo.KS
